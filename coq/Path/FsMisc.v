(* File::readAll(path), File::exists, File::getAbsolutePath over getCurrentDirectory, Directory::change. *)
From Coq Require Import ZArith List Bool Lia.
From Path Require Import PathSpec PathModel PathProofs FsSpec FsModel FsListSpec FsTree FsWalk FsFile FsHandle FsDir FsCreate FsMove FsWf FsFault FsPurge.
Import ListNotations.
Local Open Scope Z_scope.

Arguments Nat.max : simpl never.

(* ---- a handle number of its own ------------------------------------------------------------------------- *)

Lemma hfind_above hs h : (fold_right (fun kf m => Nat.max (@fst nat fd kf) m) O hs < h)%nat -> hfind hs h = None.
Proof.
  induction hs as [|[k f] t IH]; intro H; [reflexivity|].
  cbn [fold_right fst] in H. cbn [hfind].
  destruct (Nat.eqb k h) eqn:E; [apply Nat.eqb_eq in E; lia|]. apply IH. lia.
Qed.

Lemma hfind_fresh st : hfind (handles st) (fresh_handle st) = None.
Proof. apply hfind_above. unfold fresh_handle. lia. Qed.

(* ---- what the pieces of readAll(path) leave alone ------------------------------------------------------- *)

Definition same_files (st st' : state) : Prop :=
  root st' = root st /\ cwd st' = cwd st /\ forall k, hfind (handles st') k = hfind (handles st) k.

Lemma k_open_readonly st path : fst (k_open st path true false false false false) = st.
Proof.
  unfold k_open. cbn [andb negb orb].
  destruct (resolve st true path) as [e|d nm [[| |t]|]|d dot]; reflexivity.
Qed.

Lemma f_size_others st h : cwd (fst (f_size st h)) = cwd st /\
  forall k, k <> h -> hfind (handles (fst (f_size st h))) k = hfind (handles st) k.
Proof.
  unfold f_size. destruct (hfind (handles st) h) as [f|]; [|auto].
  destruct (k_lseek st f 0 1) as [f1 cur]. destruct (cur <? 0); [auto|].
  destruct (k_lseek st f1 0 2) as [f2 size].
  assert (X : forall v, cwd (set_handle st h v) = cwd st /\
                        forall k, k <> h -> hfind (handles (set_handle st h v)) k = hfind (handles st) k).
  { intro v. split; [reflexivity|]. intros k N. apply hfind_hset_other. exact N. }
  destruct (size <? 0); [apply X|]. destruct (cur =? size); [apply X|].
  destruct (k_lseek st f2 cur 0) as [f3 back]. destruct (back <? 0); apply X.
Qed.

Lemma f_read_others st h n : cwd (fst (f_read st h n)) = cwd st /\
  forall k, k <> h -> hfind (handles (fst (f_read st h n))) k = hfind (handles st) k.
Proof.
  unfold f_read. destruct (hfind (handles st) h) as [f|]; [|auto].
  destruct (k_read st f n) as [f' x]. split; [reflexivity|]. intros k N. apply hfind_hset_other. exact N.
Qed.

Lemma f_readAll_others st h :
  root (fst (f_readAll st h)) = root st /\ cwd (fst (f_readAll st h)) = cwd st /\
  forall k, k <> h -> hfind (handles (fst (f_readAll st h))) k = hfind (handles st) k.
Proof.
  unfold f_readAll. destruct (hfind (handles st) h) as [f|]; [|auto]. destruct (fd_dir f); [auto|].
  pose proof (f_size_root st h) as R1. pose proof (f_size_others st h) as [C1 O1].
  destruct (f_size st h) as [st1 size]. cbn [fst] in *.
  destruct (size <? 0); [cbn [fst]; auto|].
  pose proof (f_read_root st1 h (Z.to_nat size)) as R2. pose proof (f_read_others st1 h (Z.to_nat size)) as [C2 O2].
  destruct (f_read st1 h (Z.to_nat size)) as [st2 [d|e]]; cbn [fst] in *;
    (split; [congruence|]; split; [congruence|]; intros k N; rewrite O2, O1; auto).
Qed.

(* static readAll(path): whatever it answers, the tree, the current directory and every open
   handle are as before (its File object is gone again) *)
Lemma readall_path_keeps st path : same_files st (fst (f_readAll_path st path)).
Proof.
  unfold f_readAll_path, f_open. rewrite hfind_fresh. cbn [andb].
  pose proof (k_open_readonly st path) as K.
  destruct (k_open st path true false false false false) as [st1 [f|e]]; cbn [fst] in K; subst st1.
  - set (h := fresh_handle st).
    pose proof (f_readAll_others (set_handle st h (Some f)) h) as (R & C & O).
    destruct (f_readAll (set_handle st h (Some f)) h) as [st2 r]. cbn [fst] in *.
    split; [exact R|]. split; [exact C|]. intro k. unfold f_close, set_handle. cbn [handles].
    destruct (Nat.eq_dec k h) as [->|N].
    + rewrite hfind_hset_same. symmetry. apply hfind_fresh.
    + rewrite hfind_hset_other by exact N. rewrite O by exact N. cbn [handles set_handle]. apply hfind_hset_other. exact N.
  - cbn [fst]. split; [reflexivity|]. split; reflexivity.
Qed.

(* the text leads (through links) to a regular file: true and exactly its bytes *)
Lemma readall_path_file st path d nm c :
  resolve st true path = WAt d nm (Some SFile) -> get (root st) (d ++ [nm]) = Some (NFile c) ->
  snd (f_readAll_path st path) = (true, c).
Proof.
  intros R G. unfold f_readAll_path.
  destruct (open_existing_any st (fresh_handle st) path true false false false d nm c (hfind_fresh st) R G)
    as (st1 & E & FH & _). rewrite E.
  cbn [orb negb opened_content andb] in FH.
  destruct (g_readAll_spec true false st1 (fresh_handle st) _ FH) as (st2 & E2 & _). rewrite E2.
  reflexivity.
Qed.

(* a walk that follows links never ends on one *)
Lemma walk_follow_no_link r d nm t : forall L cur cs, walk L r true cur cs = WAt d nm (Some (SLink t)) -> False.
Proof.
  apply (walk_ind r true (fun L cur cs => walk L r true cur cs = WAt d nm (Some (SLink t)) -> False)).
  - intros L cur. rewrite walk_nil. discriminate.
  - intros L cur c0 rest IH. rewrite walk_cons. unfold wstep in *.
    destruct (str_eqb c0 DOT1). { destruct rest; [discriminate|]. apply IH. reflexivity. }
    destruct (str_eqb c0 DOTDOT). { destruct rest; [discriminate|]. apply IH. reflexivity. }
    destruct (sget r (cur ++ [c0])) as [[| |t0]|].
    + destruct rest; discriminate.
    + destruct rest; [discriminate|apply IH; reflexivity].
    + destruct rest; (destruct L; [discriminate|]; destruct t0; [discriminate|]; apply IH; reflexivity).
    + destruct rest; discriminate.
Qed.

Lemma resolve_follow_no_link st path d nm t : resolve st true path = WAt d nm (Some (SLink t)) -> False.
Proof. unfold resolve. destruct path; [discriminate|]. apply walk_follow_no_link. Qed.

(* ... and it says true for nothing else: a directory, a missing name, a dangling link fail *)
Lemma readall_path_true st path c :
  snd (f_readAll_path st path) = (true, c) ->
  exists d nm, resolve st true path = WAt d nm (Some SFile) /\ get (root st) (d ++ [nm]) = Some (NFile c).
Proof.
  intro H. destruct (resolve st true path) as [e|d nm [[| |t]|]|d dot] eqn:R.
  - exfalso. unfold f_readAll_path, f_open, k_open in H. rewrite hfind_fresh in H. cbn [andb negb orb] in H.
    rewrite R in H. discriminate.
  - pose proof (resolve_at_some _ _ _ _ _ _ R) as S. apply sget_some_get in S as (n & G & Sn).
    destruct n as [c'| |]; try discriminate.
    rewrite (readall_path_file st path d nm c' R G) in H. inversion H; subst. eauto.
  - exfalso. unfold f_readAll_path, f_open, k_open in H. rewrite hfind_fresh in H. cbn [andb negb orb] in H.
    rewrite R in H. cbn [fst] in H. unfold f_readAll, set_handle in H. cbn [handles] in H.
    rewrite hfind_hset_same in H. cbn [fd_dir] in H. discriminate.
  - exfalso. eapply resolve_follow_no_link; eauto.
  - exfalso. unfold f_readAll_path, f_open, k_open in H. rewrite hfind_fresh in H. cbn [andb negb orb] in H.
    rewrite R in H. discriminate.
  - exfalso. unfold f_readAll_path, f_open, k_open in H. rewrite hfind_fresh in H. cbn [andb negb orb] in H.
    rewrite R in H. cbn [fst] in H. unfold f_readAll, set_handle in H. cbn [handles] in H.
    rewrite hfind_hset_same in H. cbn [fd_dir] in H. discriminate.
Qed.

(* ---- File::exists ---------------------------------------------------------------------------------------- *)

(* lstat: the text names something, a link in last position included, whatever it points to *)
Lemma file_exists_is_lstat st path :
  f_exists st path = match resolve st false path with
                     | WAt _ _ (Some _) | WDir _ _ => true
                     | _ => false
                     end.
Proof. unfold f_exists, k_lstat. destruct (resolve st false path) as [e|d nm [k|]|d dot]; reflexivity. Qed.

(* for a text of proper names through real directories: exists = there is an entry of that name *)
Lemma file_exists_plain st names c :
  names_ok (names ++ [c]) -> (exists es, get (root st) (cwd st ++ names) = Some (NDir es)) ->
  f_exists st (join (names ++ [c])) = is_some (sget (root st) ((cwd st ++ names) ++ [c])).
Proof.
  intros Hn Hg. rewrite file_exists_is_lstat.
  rewrite (resolve_names st false names c (cwd st ++ names) eq_refl Hn Hg); [|discriminate].
  destruct (sget (root st) ((cwd st ++ names) ++ [c])); reflexivity.
Qed.

(* File::unlink that says true removed something that existed, and - for such a text - it is gone *)
Lemma unlink_then_not_exists st names c st' :
  names_ok (names ++ [c]) -> (exists es, get (root st) (cwd st ++ names) = Some (NDir es)) ->
  wf_node (root st) = true ->
  f_unlink st (join (names ++ [c])) = (st', true) ->
  f_exists st (join (names ++ [c])) = true /\ f_exists st' (join (names ++ [c])) = false.
Proof.
  intros Hn [es Hg] W H. unfold f_unlink, k_unlink in H.
  rewrite (file_exists_plain st names c Hn (ex_intro _ es Hg)).
  rewrite (resolve_names st false names c (cwd st ++ names) eq_refl Hn (ex_intro _ es Hg)) in H; [|discriminate].
  assert (GONE : f_exists (set_root st (upd (root st) ((cwd st ++ names) ++ [c]) None)) (join (names ++ [c])) = false).
  { rewrite file_exists_plain; [|exact Hn|cbn [root cwd set_root]; eexists; apply get_upd_parent; exact Hg].
    cbn [root cwd set_root]. unfold sget.
    rewrite <- (app_nil_r ((cwd st ++ names) ++ [c])) at 2.
    rewrite get_upd_deleted; [reflexivity|exact W|destruct (cwd st ++ names); discriminate]. }
  destruct (sget (root st) ((cwd st ++ names) ++ [c])) as [[| |t]|] eqn:S; cbn [is_none] in H; try discriminate;
    inversion H; subst; (split; [reflexivity|exact GONE]).
Qed.

(* ---- getAbsolutePath ---------------------------------------------------------------------------------------- *)

Lemma not_absolute_head p : isAbsolutePath p = false -> starts_with_sep p = false /\ first_is_slash p = false.
Proof.
  destruct p as [|c0 t]; [auto|]. cbn [isAbsolutePath starts_with_sep first_is_slash]. intro H.
  apply orb_false_iff in H as [H _]. split; [exact H|].
  unfold is_sep in H. apply orb_false_iff in H as [H _]. exact H.
Qed.

(* the answer is an absolute path (when the current directory's text is one) *)
Lemma absolute_is_absolute c p : starts_with_sep c = true -> isAbsolutePath (getAbsolutePath c p) = true.
Proof.
  intro H. unfold getAbsolutePath. destruct (isAbsolutePath p) eqn:A; [exact A|].
  destruct c as [|c0 t]; [discriminate|]. cbn [app isAbsolutePath]. cbn [starts_with_sep] in H. rewrite H. reflexivity.
Qed.

Lemma absolute_keeps_absolute c p : isAbsolutePath p = true -> getAbsolutePath c p = p.
Proof. intro H. unfold getAbsolutePath. rewrite H. reflexivity. Qed.

(* lexically: the answer, resolved from anywhere, is the relative text resolved from where the
   current directory's text leads (PathSpec.resolve: '.' dropped, 'x/..' cancelled) *)
Lemma absolute_lexical c p cw :
  starts_with_sep c = true -> isAbsolutePath p = false ->
  PathSpec.resolve cw (components (getAbsolutePath c p)) =
  PathSpec.resolve (PathSpec.resolve [] (components c)) (components p).
Proof.
  intros Hc Hp. unfold getAbsolutePath. rewrite Hp.
  destruct (not_absolute_head p Hp) as [Sp _].
  rewrite !components_eq. unfold PathSpec.resolve. cbn [fst snd].
  rewrite starts_with_sep_app by (destruct c; [discriminate|discriminate]).
  rewrite Hc, Sp. rewrite toks_app by reflexivity. apply fold_left_app.
Qed.

(* for the kernel: when the current directory is a real directory named by proper names, the
   answer leads where the argument leads *)
Definition cwd_real (st : state) : Prop :=
  names_ok (cwd st) /\ exists es, get (root st) (cwd st) = Some (NDir es).

Lemma ptoks_cons_slash b : ptoks (47 :: b) = ptoks b.
Proof. exact (ptoks_app [] b). Qed.

Lemma absolute_denotes st fl p :
  cwd_real st -> p <> [] -> resolve st fl (f_absolute st p) = resolve st fl p.
Proof.
  intros [Hn [es Hg]] Np. unfold f_absolute, getAbsolutePath.
  destruct (isAbsolutePath p) eqn:A; [reflexivity|].
  destruct (not_absolute_head p A) as [_ Fp].
  rewrite (resolve_nonempty st fl p Np). rewrite Fp.
  unfold cwd_text. rewrite resolve_nonempty by discriminate.
  cbn [first_is_slash app]. rewrite Z.eqb_refl.
  change (47 :: join (cwd st) ++ 47 :: p) with (47 :: (join (cwd st) ++ 47 :: p)).
  rewrite ptoks_cons_slash, ptoks_app.
  assert (Hw : Forall pwf (cwd st)).
  { eapply Forall_impl; [|exact Hn]. intros a Ha. apply name_ok_pwf in Ha. tauto. }
  rewrite ptoks_join by exact Hw.
  assert (Nt : ptoks p <> []).
  { destruct p as [|c0 t]; [contradiction|]. cbn [first_is_slash] in Fp.
    unfold ptoks. cbn [split_slash]. rewrite Fp.
    destruct (split_slash t) as [|h r]; cbn [filter nonempty]; discriminate. }
  rewrite walk_descend; auto. exists es. exact Hg.
Qed.

Lemma cwd_real_init : cwd_real init_state.
Proof. split; [repeat constructor|eexists; reflexivity]. Qed.

(* ---- Directory::change --------------------------------------------------------------------------------------- *)

Lemma change_spec st dir st' b :
  d_change st dir = (st', b) ->
  root st' = root st /\ handles st' = handles st /\
  (b = false -> st' = st /\ dir_place st dir = None) /\
  (b = true -> dir_place st dir = Some (cwd st')).
Proof.
  unfold d_change, k_chdir, dir_place.
  destruct (resolve st true dir) as [e|d nm [[| |t]|]|d dot]; cbn [is_none]; intro H; inversion H; subst;
    cbn [root handles cwd set_cwd]; (split; [reflexivity|]); (split; [reflexivity|]); split; intro E; try discriminate; auto.
Qed.

(* the directory a text leads to is a real directory with a proper path, when the walk starts from one *)
Definition dir_ok (r : node) (d : cpath) : Prop := names_ok d /\ exists es, get r d = Some (NDir es).

Lemma names_ok_removelast d : names_ok d -> names_ok (removelast d).
Proof.
  unfold names_ok. induction d as [|a d IH]; intro H; [constructor|].
  inversion H; subst. destruct d as [|b d]; [constructor|]. cbn [removelast]. constructor; auto.
Qed.

Lemma dir_ok_removelast r d : dir_ok r [] -> dir_ok r d -> dir_ok r (removelast d).
Proof.
  intros R0 [Hn [es G]]. destruct d as [|a d] using rev_ind; [exact R0|].
  rewrite removelast_last. split.
  - apply Forall_app in Hn. tauto.
  - eapply get_below_dir with (b := []). exact G.
Qed.

Lemma walk_dir_ok r fl d : dir_ok r [] -> forall L cur cs,
  dir_ok r cur -> Forall pwf cs ->
  (forall x, walk L r fl cur cs = WDir d x -> dir_ok r d) /\
  (forall nm, walk L r fl cur cs = WAt d nm (Some SDir) -> dir_ok r (d ++ [nm])).
Proof.
  intro R0.
  apply (walk_ind r fl (fun L cur cs => dir_ok r cur -> Forall pwf cs ->
           (forall x, walk L r fl cur cs = WDir d x -> dir_ok r d) /\
           (forall nm, walk L r fl cur cs = WAt d nm (Some SDir) -> dir_ok r (d ++ [nm])))).
  - intros L cur C _. rewrite walk_nil. split; [intros x H; inversion H; subst; exact C|discriminate].
  - intros L cur c rest IH C W. inversion W as [|? ? Wc Wr]; subst. rewrite walk_cons. unfold wstep in *.
    destruct (str_eqb c DOT1) eqn:D1.
    { destruct rest; [split; [intros x H; inversion H; subst; exact C|discriminate]|]. apply IH; auto. }
    destruct (str_eqb c DOTDOT) eqn:D2.
    { pose proof (dir_ok_removelast r cur R0 C) as C'.
      destruct rest; [split; [intros x H; inversion H; subst; exact C'|discriminate]|]. apply IH; auto. }
    assert (OK : name_ok c = true) by (apply pwf_name_ok; auto).
    assert (LK : forall t l, Forall pwf l -> Forall pwf (ptoks t ++ l)).
    { intros t l H. apply Forall_app; split; [apply ptoks_wf|exact H]. }
    destruct (sget r (cur ++ [c])) as [[| |t]|] eqn:S.
    + destruct rest; split; discriminate.
    + assert (C' : dir_ok r (cur ++ [c])).
      { destruct C as [Hn _]. split; [apply Forall_app; split; [exact Hn|constructor; [exact OK|constructor]]|].
        apply sget_dir_get. exact S. }
      destruct rest; [|apply IH; auto].
      split; [discriminate|]. intros nm H. inversion H; subst. exact C'.
    + destruct rest as [|x y].
      * destruct fl.
        -- destruct L; [split; discriminate|]. destruct t; [split; discriminate|].
           apply IH; auto. destruct (first_is_slash (z :: t)); auto.
        -- split; discriminate.
      * destruct L; [split; discriminate|]. destruct t; [split; discriminate|].
        apply IH; auto. destruct (first_is_slash (z :: t)); auto.
    + destruct rest; split; discriminate.
Qed.

(* a change that says true leaves the current directory a real directory again, so that the
   hypothesis of absolute_denotes holds afterwards *)
Lemma change_keeps_cwd_real st dir st' :
  cwd_real st -> (exists es0, root st = NDir es0) -> d_change st dir = (st', true) -> cwd_real st'.
Proof.
  intros C [es0 R0] H.
  assert (D0 : dir_ok (root st) []) by (split; [constructor|exists es0; rewrite R0; reflexivity]).
  destruct (change_spec st dir st' true H) as (Rt & _ & _ & P). specialize (P eq_refl).
  unfold cwd_real. rewrite Rt. unfold dir_place in P.
  destruct dir as [|c0 dir]; [discriminate P|].
  rewrite (resolve_nonempty st true (c0 :: dir)) in P by discriminate.
  remember MAXLINKS as M eqn:EM. clear EM.
  assert (CUR : dir_ok (root st) (if first_is_slash (c0 :: dir) then [] else cwd st)).
  { destruct (first_is_slash (c0 :: dir)); [exact D0|exact C]. }
  destruct (walk M (root st) true (if first_is_slash (c0 :: dir) then [] else cwd st) (ptoks (c0 :: dir)))
    as [e|d nm [[| |t]|]|d dot] eqn:Wk; try discriminate P; injection P as P'; rewrite <- P'.
  - destruct (walk_dir_ok (root st) true d D0 M _ _ CUR (ptoks_wf (c0 :: dir))) as [_ X]. exact (X nm Wk).
  - destruct (walk_dir_ok (root st) true d D0 M _ _ CUR (ptoks_wf (c0 :: dir))) as [X _]. exact (X dot Wk).
Qed.
