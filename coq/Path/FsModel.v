(* FsModel — executable model of the POSIX branches of src/File.cpp and src/Directory.cpp on top of
   a model of the kernel's file-system calls.  No proofs in this file.

   Part K (TRUSTED, not derived from libnstd): path resolution with symbolic links, open / read /
   write / lseek / sendfile / rename / unlink / mkdir / rmdir / symlink / stat / readdir on the
   tree of FsSpec.  Simplifications, all on the kernel side: no permissions, no hard links, no
   special files; an open descriptor names its file by canonical path (so a file that is renamed
   or unlinked while a handle on it is open is outside the model); a trailing separator is
   ignored; errno is modelled only as far as the library looks at it (ENOTEMPTY from rmdir).

   Part L: the library's logic as the code sequences those calls (after the repairs in
   fixes/C19/04..06): flag mapping of File::open, size() by three lseeks, readAll, write(String),
   rename with the exclusive placeholder, copy with sendfile, createSymbolicLink,
   Directory::exists, recursive Directory::create, recursive Directory::unlink by entry type;
   round 3: File::flush, File::exists, static File::readAll(path), File::getAbsolutePath over
   Directory::getCurrentDirectory, Directory::change, the enumeration Directory::open / read /
   close (pattern, dirsOnly, entry types), Directory::purge, and Directory::unlink / purge with a
   system call that fails (fault oracle), which reaches the error-unwinding branches. *)
From Coq Require Import ZArith List Bool.
From Path Require Import PathSpec PathModel FsSpec.
Import ListNotations.
Local Open Scope Z_scope.

(* ============================== K: the kernel ============================================== *)

Inductive errno := ENOENT | EEXIST | ENOTDIR | EISDIR | ENOTEMPTY | ELOOP | EINVAL | EBADF | EBUSY | EIO.

Definition is_enotempty (e : errno) : bool := match e with ENOTEMPTY => true | _ => false end.
Definition is_eexist (e : errno) : bool := match e with EEXIST => true | _ => false end.

(* components of a path text: the kernel splits at '/' only *)
Fixpoint split_slash (p : str) : list str :=
  match p with
  | [] => [[]]
  | c :: t => if c =? 47 then [] :: split_slash t
              else match split_slash t with
                   | h :: r => (c :: h) :: r
                   | [] => [[c]]
                   end
  end.

Definition ptoks (p : str) : list str := filter nonempty (split_slash p).

Inductive wres :=
| WErr (e : errno)
| WAt (d : cpath) (nm : str) (k : option snode)   (* the last component is the name nm in directory d *)
| WDir (d : cpath) (dot : nat).                   (* the path is directory d itself: 0 "/", 1 ".", 2 ".." *)

Definition MAXLINKS : nat := 40.

(* path walk from directory cur; `links` bounds the number of symbolic links followed;
   follow = whether a symbolic link in the last position is followed *)
Fixpoint walk (links : nat) (r : node) (follow : bool) : cpath -> list str -> wres :=
  fix go (cur : cpath) (cs : list str) {struct cs} : wres :=
    match cs with
    | [] => WDir cur 0
    | c :: rest =>
        if str_eqb c DOT1 then
          match rest with [] => WDir cur 1 | _ => go cur rest end
        else if str_eqb c DOTDOT then
          match rest with [] => WDir (removelast cur) 2 | _ => go (removelast cur) rest end
        else
          match sget r (cur ++ [c]) with
          | None => match rest with [] => WAt cur c None | _ => WErr ENOENT end
          | Some SDir => match rest with [] => WAt cur c (Some SDir) | _ => go (cur ++ [c]) rest end
          | Some SFile => match rest with [] => WAt cur c (Some SFile) | _ => WErr ENOTDIR end
          | Some (SLink t) =>
              match rest, follow with
              | [], false => WAt cur c (Some (SLink t))
              | _, _ =>
                  match links with
                  | O => WErr ELOOP
                  | S l =>
                      match t with
                      | [] => WErr ENOENT
                      | _ => walk l r follow (if first_is_slash t then [] else cur) (ptoks t ++ rest)
                      end
                  end
              end
          end
    end.

Record fd := { fd_path : cpath; fd_pos : nat; fd_rd : bool; fd_wr : bool; fd_dir : bool }.

Record state := { root : node; cwd : cpath; handles : list (nat * fd) }.

Definition set_root (st : state) (r : node) : state :=
  {| root := r; cwd := cwd st; handles := handles st |}.

Definition resolve (st : state) (follow : bool) (path : str) : wres :=
  match path with
  | [] => WErr ENOENT
  | _ => walk MAXLINKS (root st) follow (if first_is_slash path then [] else cwd st) (ptoks path)
  end.

Definition parent_is_dir (st : state) (d : cpath) : bool :=
  match sget (root st) d with Some SDir => true | _ => false end.

Definition content_at (r : node) (p : cpath) : list Z :=
  match get r p with Some (NFile c) => c | _ => [] end.

Definition entries_at (r : node) (p : cpath) : list (str * node) :=
  match get r p with Some (NDir es) => es | _ => [] end.

(* open(path, access | O_CREAT? | O_EXCL? | O_TRUNC?) *)
Definition k_open (st : state) (path : str) (rd wr creat excl trunc : bool) : state * (fd + errno) :=
  let mk p isdir := {| fd_path := p; fd_pos := O; fd_rd := rd; fd_wr := wr; fd_dir := isdir |} in
  match resolve st (negb (creat && excl)) path with
  | WErr e => (st, inr e)
  | WDir d _ => if wr || creat then (st, inr EISDIR) else (st, inl (mk d true))
  | WAt d nm None =>
      if creat && parent_is_dir st d
      then (set_root st (upd (root st) (d ++ [nm]) (Some (NFile []))), inl (mk (d ++ [nm]) false))
      else (st, inr ENOENT)
  | WAt d nm (Some SFile) =>
      if creat && excl then (st, inr EEXIST)
      else if trunc then (set_root st (upd (root st) (d ++ [nm]) (Some (NFile []))), inl (mk (d ++ [nm]) false))
      else (st, inl (mk (d ++ [nm]) false))
  | WAt d nm (Some SDir) => if creat && excl then (st, inr EEXIST)
                            else if wr || creat then (st, inr EISDIR) else (st, inl (mk (d ++ [nm]) true))
  | WAt d nm (Some (SLink _)) => (st, inr EEXIST)        (* only with O_CREAT|O_EXCL *)
  end.

Definition k_read (st : state) (f : fd) (n : nat) : fd * (list Z + errno) :=
  if fd_dir f then (f, inr EISDIR)
  else if negb (fd_rd f) then (f, inr EBADF)
  else
    let d := firstn n (skipn (fd_pos f) (content_at (root st) (fd_path f))) in
    ({| fd_path := fd_path f; fd_pos := fd_pos f + length d; fd_rd := fd_rd f; fd_wr := fd_wr f; fd_dir := fd_dir f |},
     inl d).

Definition k_write (st : state) (f : fd) (d : list Z) : state * fd * (nat + errno) :=
  if fd_dir f || negb (fd_wr f) then (st, f, inr EBADF)
  else
    match get (root st) (fd_path f) with
    | Some (NFile c0) =>
        let c := overwrite c0 (fd_pos f) d in
        (set_root st (upd (root st) (fd_path f) (Some (NFile c))),
         {| fd_path := fd_path f; fd_pos := fd_pos f + length d; fd_rd := fd_rd f; fd_wr := fd_wr f; fd_dir := fd_dir f |},
         inl (length d))
    | _ => (st, f, inr EBADF)            (* the file is gone: outside the model *)
    end.

(* whence: 0 SEEK_SET, 1 SEEK_CUR, 2 SEEK_END *)
Definition k_lseek (st : state) (f : fd) (off : Z) (whence : nat) : fd * Z :=
  let base := match whence with O => O | S O => fd_pos f | _ => length (content_at (root st) (fd_path f)) end in
  let target := Z.of_nat base + off in
  if target <? 0 then (f, -1)
  else ({| fd_path := fd_path f; fd_pos := Z.to_nat target; fd_rd := fd_rd f; fd_wr := fd_wr f; fd_dir := fd_dir f |}, target).

(* What one transfer call does is the kernel's choice: it may move fewer bytes than asked for
   (Linux never moves more than 0x7ffff000 per call, a signal may cut it short) or fail (EIO,
   ENOSPC).  An outcome oracle makes that choice an input: no entry = everything asked for. *)
Inductive xfer := XFail | XAtMost (n : nat).

Definition fd_advance (f : fd) (n : nat) : fd :=
  {| fd_path := fd_path f; fd_pos := fd_pos f + n; fd_rd := fd_rd f; fd_wr := fd_wr f; fd_dir := fd_dir f |}.

(* sendfile(dst, src, NULL, count): bytes from the cursor of src to the cursor of dst, both move *)
Definition k_sendfile (st : state) (dst src : fd) (count : nat) (x : option xfer) : state * fd * fd * (nat + errno) :=
  if fd_dir src || fd_dir dst || negb (fd_rd src) || negb (fd_wr dst) then (st, dst, src, inr EINVAL)
  else
    match x with
    | Some XFail => (st, dst, src, inr EIO)
    | _ =>
        let lim := match x with Some (XAtMost n) => Nat.min n count | _ => count end in
        match get (root st) (fd_path dst) with
        | Some (NFile c0) =>
            let d := firstn lim (skipn (fd_pos src) (content_at (root st) (fd_path src))) in
            let c := overwrite c0 (fd_pos dst) d in
            (set_root st (upd (root st) (fd_path dst) (Some (NFile c))),
             fd_advance dst (length d), fd_advance src (length d), inl (length d))
        | _ => (st, dst, src, inr EBADF)
        end
    end.

Definition k_mknode (st : state) (path : str) (n : node) : state * option errno :=
  match resolve st false path with
  | WErr e => (st, Some e)
  | WDir _ _ => (st, Some EEXIST)
  | WAt d nm (Some _) => (st, Some EEXIST)
  | WAt d nm None =>
      if parent_is_dir st d then (set_root st (upd (root st) (d ++ [nm]) (Some n)), None)
      else (st, Some ENOENT)
  end.

Definition k_mkdir (st : state) (path : str) : state * option errno := k_mknode st path (NDir []).

(* set-up only: a file with given contents *)
Definition k_mkfile (st : state) (path : str) (c : list Z) : state * option errno := k_mknode st path (NFile c).

Definition k_symlink (st : state) (target path : str) : state * option errno :=
  match target with
  | [] => (st, Some ENOENT)
  | _ => k_mknode st path (NLink target)
  end.

Definition k_unlink (st : state) (path : str) : state * option errno :=
  match resolve st false path with
  | WErr e => (st, Some e)
  | WDir _ _ => (st, Some EISDIR)
  | WAt d nm None => (st, Some ENOENT)
  | WAt d nm (Some SDir) => (st, Some EISDIR)
  | WAt d nm (Some _) => (set_root st (upd (root st) (d ++ [nm]) None), None)
  end.

Definition k_rmdir (st : state) (path : str) : state * option errno :=
  match resolve st false path with
  | WErr e => (st, Some e)
  | WDir _ O => (st, Some EBUSY)
  | WDir _ (S O) => (st, Some EINVAL)
  | WDir _ _ => (st, Some ENOTEMPTY)
  | WAt d nm None => (st, Some ENOENT)
  | WAt d nm (Some SDir) =>
      match entries_at (root st) (d ++ [nm]) with
      | [] => (set_root st (upd (root st) (d ++ [nm]) None), None)
      | _ => (st, Some ENOTEMPTY)
      end
  | WAt d nm (Some _) => (st, Some ENOTDIR)
  end.

Definition cpath_eqb (a b : cpath) : bool := is_prefix a b && is_prefix b a.

Definition k_rename (st : state) (from to : str) : state * option errno :=
  match resolve st false from with
  | WErr e => (st, Some e)
  | WDir _ _ => (st, Some EBUSY)
  | WAt d1 n1 None => (st, Some ENOENT)
  | WAt d1 n1 (Some k1) =>
      match resolve st false to with
      | WErr e => (st, Some e)
      | WDir _ _ => (st, Some EBUSY)
      | WAt d2 n2 k2 =>
          let p1 := d1 ++ [n1] in
          let p2 := d2 ++ [n2] in
          if negb (parent_is_dir st d2) then (st, Some ENOENT)
          else if cpath_eqb p1 p2 then (st, None)
          else
            let move :=
              match get (root st) p1 with
              | Some x => (set_root st (upd (upd (root st) p1 None) p2 (Some x)), None)
              | None => (st, Some ENOENT)
              end in
            match k1, k2 with
            | SDir, _ =>
                if is_prefix p1 p2 then (st, Some EINVAL)
                else match k2 with
                     | None => move
                     | Some SDir => match entries_at (root st) p2 with [] => move | _ => (st, Some ENOTEMPTY) end
                     | Some _ => (st, Some ENOTDIR)
                     end
            | _, Some SDir => (st, Some EISDIR)
            | _, _ => move
            end
      end
  end.

(* ftruncate(fd, 0) *)
Definition k_ftruncate0 (st : state) (f : fd) : state :=
  match get (root st) (fd_path f) with
  | Some (NFile _) => set_root st (upd (root st) (fd_path f) (Some (NFile [])))
  | _ => st
  end.

(* fstat on both descriptors gives the same st_dev / st_ino: they name the same file (no hard links) *)
Definition same_file (a b : fd) : bool := cpath_eqb (fd_path a) (fd_path b).

(* lstat(): does not follow a link in last position; only success / failure is looked at *)
Definition k_lstat (st : state) (path : str) : option snode :=
  match resolve st false path with
  | WAt _ _ (Some k) => Some k
  | WDir _ _ => Some SDir
  | _ => None
  end.

(* stat(): follows links *)
Definition k_stat (st : state) (path : str) : option snode :=
  match resolve st true path with
  | WAt _ _ (Some k) => Some k
  | WDir _ _ => Some SDir
  | _ => None
  end.

(* opendir + all readdir results: (name, d_type) in directory order, without "." and ".." *)
Definition k_readdir (st : state) (path : str) : list (str * snode) + errno :=
  let ents p := inl (map (fun kv => (fst kv, shallow (snd kv))) (entries_at (root st) p)) in
  match resolve st true path with
  | WErr e => inr e
  | WDir d _ => ents d
  | WAt d nm (Some SDir) => ents (d ++ [nm])
  | WAt _ _ None => inr ENOENT
  | WAt _ _ (Some _) => inr ENOTDIR
  end.

(* ============================== L: the library ============================================== *)

Fixpoint hfind (hs : list (nat * fd)) (h : nat) : option fd :=
  match hs with
  | [] => None
  | (k, f) :: t => if Nat.eqb k h then Some f else hfind t h
  end.

Definition hset (hs : list (nat * fd)) (h : nat) (v : option fd) : list (nat * fd) :=
  match v with Some f => [(h, f)] | None => [] end ++ filter (fun kf => negb (Nat.eqb (fst kf) h)) hs.

Definition set_handle (st : state) (h : nat) (v : option fd) : state :=
  {| root := root st; cwd := cwd st; handles := hset (handles st) h v |}.

(* File::open(file, flags); flags = readFlag, writeFlag, appendFlag, openFlag *)
Definition f_open (st : state) (h : nat) (path : str) (fr fw fa fo : bool) : state * bool :=
  match hfind (handles st) h with
  | Some _ => (st, false)                                   (* if(fp) { errno = EINVAL; return false; } *)
  | None =>
      let '(rd, wr, creat, trunc) :=
        if fr && fw then (true, true, negb fo, false)
        else if fw then (false, true, negb fo, negb fo && negb fa)
        else (true, false, false, false) in
      match k_open st path rd wr creat false trunc with
      | (st1, inr _) => (st1, false)
      | (st1, inl f) =>
          let f' := if fa then fst (k_lseek st1 f 0 2) else f in      (* lseek(fd, 0, SEEK_END) *)
          (set_handle st1 h (Some f'), true)
      end
  end.

Definition f_close (st : state) (h : nat) : state := set_handle st h None.

(* File::size(): lseek(0, CUR), lseek(0, END), and back when they differ *)
Definition f_size (st : state) (h : nat) : state * Z :=
  match hfind (handles st) h with
  | None => (st, -1)
  | Some f =>
      let (f1, cur) := k_lseek st f 0 1 in
      if cur <? 0 then (st, -1)
      else
        let (f2, size) := k_lseek st f1 0 2 in
        if size <? 0 then (set_handle st h (Some f2), -1)
        else if cur =? size then (set_handle st h (Some f2), size)
        else
          let (f3, back) := k_lseek st f2 cur 0 in
          if back <? 0 then (set_handle st h (Some f3), -1) else (set_handle st h (Some f3), size)
  end.

(* File::read(buffer, len) *)
Definition f_read (st : state) (h : nat) (n : nat) : state * (list Z + errno) :=
  match hfind (handles st) h with
  | None => (st, inr EBADF)
  | Some f => let (f', x) := k_read st f n in (set_handle st h (Some f'), x)
  end.

(* File::readAll(data); repaired (fixes/C19/10): a handle on a directory is refused before size()
   is asked - lseek(SEEK_END) on a directory answers what the file system likes (2^63-1 on ext4),
   and the String was resized to that *)
Definition f_readAll (st : state) (h : nat) : state * (bool * list Z) :=
  match hfind (handles st) h with
  | None => (st, (false, []))
  | Some f =>
      if fd_dir f then (st, (false, []))                      (* fstat: S_ISDIR -> EISDIR *)
      else
        let (st1, size) := f_size st h in
        if size <? 0 then (st1, (false, []))
        else
          match f_read st1 h (Z.to_nat size) with
          | (st2, inr _) => (st2, (false, []))
          | (st2, inl d) => (st2, (true, d))
          end
  end.

(* File::flush(): fsync succeeds on a descriptor of any mode and changes nothing the model sees *)
Definition f_flush (st : state) (h : nat) : state * bool :=
  match hfind (handles st) h with
  | None => (st, false)
  | Some _ => (st, true)
  end.

(* File::write(const String&): true when everything was written *)
Definition f_write (st : state) (h : nat) (d : list Z) : state * bool :=
  match hfind (handles st) h with
  | None => (st, false)
  | Some f =>
      match k_write st f d with
      | (st1, f', inl n) => (set_handle st1 h (Some f'), Nat.eqb n (length d))
      | (st1, f', inr _) => (st1, false)
      end
  end.

(* File::seek(offset, start) *)
Definition f_seek (st : state) (h : nat) (off : Z) (whence : nat) : state * Z :=
  match hfind (handles st) h with
  | None => (st, -1)
  | Some f => let (f', z) := k_lseek st f off whence in (set_handle st h (Some f'), z)
  end.

(* one operation on an open handle, with its answer; a history of them *)
Definition h_step (st : state) (h : nat) (o : hop) : state * hout :=
  match o with
  | HWrite d => let (st', b) := f_write st h d in (st', OBool b)
  | HSeek off wh => let (st', z) := f_seek st h off wh in (st', OInt z)
  | HReadAll => let '(st', (b, d)) := f_readAll st h in (st', OData b d)
  | HRead n => match f_read st h n with
               | (st', inl d) => (st', OData true d)
               | (st', inr _) => (st', OData false [])
               end
  | HSize => let (st', z) := f_size st h in (st', OInt z)
  | HFlush => let (st', b) := f_flush st h in (st', OBool b)
  end.

Fixpoint h_run (st : state) (h : nat) (os : list hop) : state * list hout :=
  match os with
  | [] => (st, [])
  | o :: t => let (st1, x) := h_step st h o in let (st2, xs) := h_run st1 h t in (st2, x :: xs)
  end.

Definition is_none {A} (o : option A) : bool := match o with None => true | Some _ => false end.

(* File::unlink *)
Definition f_unlink (st : state) (path : str) : state * bool :=
  let (st', e) := k_unlink st path in (st', is_none e).

(* File::createSymbolicLink(target, file) *)
Definition f_symlink (st : state) (target path : str) : state * bool :=
  let (st', e) := k_symlink st target path in (st', is_none e).

(* File::rename(from, to, failIfExists); repaired (fixes/C19/05): the placeholder is removed again
   when the rename fails; (fixes/C19/08): a source that does not exist is refused before the
   placeholder is created (otherwise rename(x, x, true) of a missing x created x and said true) *)
Definition f_rename (st : state) (from to : str) (failIfExists : bool) : state * bool :=
  if failIfExists then
    match k_lstat st from with
    | None => (st, false)
    | Some _ =>
        match k_open st to true false true true false with     (* O_CREAT | O_EXCL (access mode 0) *)
        | (st1, inr _) => (st1, false)
        | (st1, inl _) =>
            match k_rename st1 from to with
            | (st2, None) => (st2, true)
            | (st2, Some _) => (fst (k_unlink st2 to), false)
            end
        end
    end
  else let (st', e) := k_rename st from to in (st', is_none e).

(* the transfer loop of File::copy: sendfile until nothing is left; an error or a call that moves
   nothing ends it with failure.  Every successful round moves at least one byte, so `left` + 1
   rounds of fuel are enough. *)
Fixpoint xfer_loop (fuel : nat) (orc : list xfer) (st : state) (dst src : fd) (left : nat) : state * bool :=
  match left with
  | O => (st, true)
  | S _ =>
      match fuel with
      | O => (st, false)
      | S f =>
          match k_sendfile st dst src left (hd_error orc) with
          | (st1, dst1, src1, inl n) =>
              if Nat.eqb n 0 then (st1, false) else xfer_loop f (tl orc) st1 dst1 src1 (left - n)
          | (st1, _, _, inr _) => (st1, false)
          end
      end
  end.

(* File::copy(src, destination, failIfExists); repaired (fixes/C19/06): a source that is not a
   regular file is refused before the destination is touched; (fixes/C19/07): the destination is
   opened without O_TRUNC, refused when it is the source itself (same inode), and only then
   truncated (otherwise copy(f, f, false) emptied f); (fixes/C19/09): the destination is first
   opened with O_CREAT | O_EXCL, so that the code knows whether it created the file, the transfer
   is a loop (one sendfile call may legally move less than asked), and a destination the call
   created is unlinked again when the transfer fails.  `orc` = outcomes of the sendfile calls. *)
Definition f_copy_o (orc : list xfer) (st : state) (src dst : str) (failIfExists : bool) : state * bool :=
  match k_open st src true false false false false with
  | (st1, inr _) => (st1, false)
  | (st1, inl fs) =>
      if fd_dir fs then (st1, false)                             (* fstat: S_ISDIR -> EISDIR *)
      else
        let (fs1, size) := k_lseek st1 fs 0 2 in
        if size <? 0 then (st1, false)
        else
          let (fs2, z) := k_lseek st1 fs1 0 0 in
          if z <? 0 then (st1, false)
          else
            let '(st2, r, created) :=
              match k_open st1 dst false true true true false with          (* O_CREAT | O_EXCL | O_WRONLY *)
              | (s, inl f) => (s, inl f, true)
              | (s, inr e) =>
                  if is_eexist e && negb failIfExists
                  then let (s', r') := k_open s dst false true true false false in (s', r', false)
                  else (s, inr e, false)
              end in
            match r with
            | inr _ => (st2, false)
            | inl fdst =>
                let '(st3, ok) :=
                  if same_file fs2 fdst then (st2, false)              (* fstat: same st_dev, st_ino -> EINVAL *)
                  else xfer_loop (S (Z.to_nat size)) orc (k_ftruncate0 st2 fdst) fdst fs2 (Z.to_nat size) in
                if ok then (st3, true)
                else if created then (fst (k_unlink st3 dst), false)
                else (st3, false)
            end
  end.

(* every transfer call moves all it was asked for *)
Definition f_copy : state -> str -> str -> bool -> state * bool := f_copy_o [].

(* Directory::exists: stat + S_ISDIR *)
Definition d_exists (st : state) (dir : str) : bool :=
  match k_stat st dir with Some SDir => true | _ => false end.

(* Directory::create; repaired (fixes/C19/04): reports whether the directory exists when mkdir
   fails, and the root (empty parent text) needs no creation *)
Fixpoint d_create (fuel : nat) (st : state) (dir : str) : state * bool :=
  match fuel with
  | O => (st, false)
  | S f =>
      let parent := getDirectoryName dir in
      let (st1, ok) :=
        if negb (str_eqb parent DOT1) && nonempty parent && negb (d_exists st parent)
        then d_create f st parent else (st, true) in
      if negb ok then (st1, false)
      else
        match k_mkdir st1 dir with
        | (st2, None) => (st2, true)
        | (st2, Some _) => (st2, d_exists st2 dir)
        end
  end.

Definition create_fuel (dir : str) : nat := S (length dir).

(* the readdir loop of Directory::unlink; `recur` removes a sub-directory *)
Fixpoint unlink_entries (recur : state -> str -> state * bool) (st : state) (prefix : str)
         (ents : list (str * snode)) : state * bool :=
  match ents with
  | [] => (st, true)
  | (nm, k) :: t =>
      let p := prefix ++ nm in
      let (st1, ok) := match k with
                       | SDir => recur st p                 (* d_type == DT_DIR *)
                       | _ => f_unlink st p                 (* File::unlink for everything else *)
                       end in
      if ok then unlink_entries recur st1 prefix t else (st1, false)
  end.

(* Directory::unlink(dir, recursive) *)
Fixpoint d_unlink (fuel : nat) (st : state) (dir : str) (recursive : bool) : state * bool :=
  match k_rmdir st dir with
  | (st1, None) => (st1, true)
  | (_, Some e) =>
      if negb recursive || negb (is_enotempty e) then (st, false)
      else
        match fuel with
        | O => (st, false)
        | S f =>
            match k_readdir st dir with
            | inr _ => (st, false)
            | inl ents =>
                let (st1, ok) := unlink_entries (fun s p => d_unlink f s p true) st (dir ++ [47]) ents in
                if ok then let (st2, e2) := k_rmdir st1 dir in (st2, is_none e2) else (st1, false)
            end
        end
  end.

(* ---- round 3 ------------------------------------------------------------------------------------ *)

Definition is_some {A} (o : option A) : bool := match o with None => false | Some _ => true end.

(* File::exists: lstat succeeds (a symbolic link counts, whatever it points to) *)
Definition f_exists (st : state) (path : str) : bool := is_some (k_lstat st path).

(* a File object of its own: a handle number no open handle has *)
Definition fresh_handle (st : state) : nat :=
  S (fold_right (fun kf m => Nat.max (fst kf) m) O (handles st)).

(* static File::readAll(path, data): a local File, open(path) with the default readFlag, readAll,
   and the destructor closes *)
Definition f_readAll_path (st : state) (path : str) : state * (bool * list Z) :=
  let h := fresh_handle st in
  match f_open st h path true false false false with
  | (st1, false) => (st1, (false, []))
  | (st1, true) => let '(st2, r) := f_readAll st1 h in (f_close st2 h, r)
  end.

(* K: getcwd() - the canonical path of the current directory as a text *)
Definition cwd_text (st : state) : str := 47 :: join (cwd st).

(* File::getAbsolutePath(path) with the text Directory::getCurrentDirectory() returned *)
Definition getAbsolutePath (cwdt path : str) : str :=
  if isAbsolutePath path then path else cwdt ++ 47 :: path.

Definition f_absolute (st : state) (path : str) : str := getAbsolutePath (cwd_text st) path.

Definition set_cwd (st : state) (d : cpath) : state :=
  {| root := root st; cwd := d; handles := handles st |}.

(* K: chdir() *)
Definition k_chdir (st : state) (path : str) : state * option errno :=
  match resolve st true path with
  | WErr e => (st, Some e)
  | WDir d _ => (set_cwd st d, None)
  | WAt d nm (Some SDir) => (set_cwd st (d ++ [nm]), None)
  | WAt _ _ None => (st, Some ENOENT)
  | WAt _ _ (Some _) => (st, Some ENOTDIR)
  end.

(* Directory::change *)
Definition d_change (st : state) (dir : str) : state * bool :=
  let (st', e) := k_chdir st dir in (st', is_none e).

(* K: fnmatch(pattern, name, 0) for patterns of literal bytes, '*' (42) and '?' (63); without
   flags a wildcard also matches a leading '.'.  Bracket expressions and backslash escapes are not
   modelled (not generated). *)
Fixpoint glob (p : str) : str -> bool :=
  match p with
  | [] => fun s => match s with [] => true | _ => false end
  | c :: p' =>
      if c =? 42 then
        fix star (s : str) : bool :=
          glob p' s || match s with [] => false | _ :: s' => star s' end
      else fun s =>
        match s with
        | [] => false
        | x :: s' => ((c =? 63) || (c =? x)) && glob p' s'
        end
  end.

(* K: opendir + the whole sequence of readdir answers, "." and ".." (both DT_DIR) included *)
Definition k_opendir (st : state) (path : str) : list (str * snode) + errno :=
  match k_readdir st path with
  | inl ents => inl ((DOT1, SDir) :: (DOTDOT, SDir) :: ents)
  | inr e => inr e
  end.

(* the Directory object while it is open: what open() stored and the entries readdir has not
   handed out yet *)
Record dirh := { dh_path : str; dh_pat : str; dh_only : bool; dh_rest : list (str * snode) }.

(* Directory::open(dirpath, pattern, dirsOnly): refused (EINVAL) while the object is open; an
   empty dirpath means "." *)
Definition d_open (st : state) (cur : option dirh) (path pat : str) (only : bool) : option dirh * bool :=
  match cur with
  | Some _ => (cur, false)
  | None =>
      match k_opendir st (match path with [] => DOT1 | _ => path end) with
      | inl ents => (Some {| dh_path := path; dh_pat := pat; dh_only := only; dh_rest := ents |}, true)
      | inr _ => (None, false)
      end
  end.

(* Directory::close *)
Definition d_close (cur : option dirh) : option dirh := None.

Definition is_dots (nm : str) : bool := str_eqb nm DOT1 || str_eqb nm DOTDOT.
Definition is_sdir (k : snode) : bool := match k with SDir => true | _ => false end.
Definition is_slink (k : snode) : bool := match k with SLink _ => true | _ => false end.

(* the text Directory::read hands to stat(): dirpath + '/' + name, the bare name for an empty dirpath *)
Definition entry_path (dirpath nm : str) : str :=
  match dirpath with [] => nm | _ => dirpath ++ 47 :: nm end.

(* the loop of Directory::read over the entries readdir still has: the first entry that passes
   the pattern, the dirsOnly filter and the "." / ".." filter, with isDir = DT_DIR, or - for a
   symbolic link - whether stat() finds a directory behind it.  (With dirsOnly a link is dropped
   by the first filter already, so the `else if(dirsOnly) continue` after stat() is never taken;
   it is mirrored all the same.) *)
Fixpoint read_loop (st : state) (path pat : str) (only : bool) (rest : list (str * snode))
  : list (str * snode) * option (str * bool) :=
  match rest with
  | [] => ([], None)
  | (nm, k) :: t =>
      if negb (nonempty pat) || glob pat nm then
        let isDir := is_sdir k in
        if only && negb isDir then read_loop st path pat only t
        else
          let '(isDir2, skip) :=
            if negb isDir && is_slink k then
              match k_stat st (entry_path path nm) with
              | Some SDir => (true, false)
              | _ => (false, only)
              end
            else (isDir, false) in
          if skip then read_loop st path pat only t
          else if isDir2 && is_dots nm then read_loop st path pat only t
          else (t, Some (nm, isDir2))
      else read_loop st path pat only t
  end.

(* Directory::read(name, isDir): false (EINVAL) on a closed object; false at the end, and the
   object stays open *)
Definition d_read (st : state) (cur : option dirh) : option dirh * option (str * bool) :=
  match cur with
  | None => (None, None)
  | Some dh =>
      let (rest', r) := read_loop st (dh_path dh) (dh_pat dh) (dh_only dh) (dh_rest dh) in
      (Some {| dh_path := dh_path dh; dh_pat := dh_pat dh; dh_only := dh_only dh; dh_rest := rest' |}, r)
  end.

(* read() until it says false *)
Fixpoint d_read_all (fuel : nat) (st : state) (cur : option dirh) : option dirh * list (str * bool) :=
  match fuel with
  | O => (cur, [])
  | S f =>
      match d_read st cur with
      | (cur', None) => (cur', [])
      | (cur', Some e) => let (c2, l) := d_read_all f st cur' in (c2, e :: l)
      end
  end.

Definition read_all_fuel (cur : option dirh) : nat :=
  match cur with Some dh => S (length (dh_rest dh)) | None => 1%nat end.

(* ---- a system call that fails ----------------------------------------------------------------------
   Which call of an operation fails is an input: Some n = the (n+1)-th of the calls rmdir / unlink /
   opendir / readdir made from now on fails with EIO, None = none does. *)
Definition faults := option nat.

Definition tick (o : faults) : bool * faults :=
  match o with
  | Some O => (true, None)
  | Some (S n) => (false, Some n)
  | None => (false, None)
  end.

(* File::unlink under the oracle *)
Definition f_unlink_o (o : faults) (st : state) (path : str) : state * bool * faults :=
  let (bad, o1) := tick o in
  if bad then (st, false, o1) else let (st', b) := f_unlink st path in (st', b, o1).

(* the readdir loop of Directory::unlink, call by call: every readdir is a call that may fail
   (dent == 0 with errno set: closedir, return false); "." and ".." come first and are skipped *)
Fixpoint unlink_entries_o (recur : faults -> state -> str -> state * bool * faults) (o : faults) (st : state)
         (prefix : str) (ents : list (str * snode)) : state * bool * faults :=
  let (bad, o1) := tick o in
  if bad then (st, false, o1)
  else
    match ents with
    | [] => (st, true, o1)
    | (nm, k) :: t =>
        if is_sdir k && is_dots nm then unlink_entries_o recur o1 st prefix t
        else
          let '(st1, ok, o2) := match k with
                                | SDir => recur o1 st (prefix ++ nm)
                                | _ => f_unlink_o o1 st (prefix ++ nm)
                                end in
          if ok then unlink_entries_o recur o2 st1 prefix t else (st1, false, o2)
    end.

(* Directory::unlink(dir, recursive) with every branch: a failing first rmdir (not ENOTEMPTY),
   a failing opendir, a failing readdir, a failing removal of an entry, a failing last rmdir *)
Fixpoint d_unlink_o (fuel : nat) (o : faults) (st : state) (dir : str) (recursive : bool) : state * bool * faults :=
  let (bad, o1) := tick o in
  match (if bad then (st, Some EIO) else k_rmdir st dir) with
  | (st1, None) => (st1, true, o1)
  | (_, Some e) =>
      if negb recursive || negb (is_enotempty e) then (st, false, o1)
      else
        match fuel with
        | O => (st, false, o1)
        | S f =>
            let (bad2, o2) := tick o1 in
            match (if bad2 then inr EIO else k_opendir st dir) with
            | inr _ => (st, false, o2)
            | inl ents =>
                let '(st1, ok, o3) :=
                  unlink_entries_o (fun o' s p => d_unlink_o f o' s p true) o2 st (dir ++ [47]) ents in
                if ok then
                  let (bad3, o4) := tick o3 in
                  let (st2, e2) := (if bad3 then (st1, Some EIO) else k_rmdir st1 dir) in
                  (st2, is_none e2, o4)
                else (st1, false, o3)
            end
        end
  end.

(* the climb of Directory::purge: rmdir the directory name of the text, of that, ... until the
   text is "." or an rmdir fails.  Every round shortens the text, so its length + 1 is enough fuel. *)
Fixpoint purge_up_o (fuel : nat) (o : faults) (st : state) (i : str) : state * faults :=
  match fuel with
  | O => (st, o)
  | S f =>
      if str_eqb i DOT1 then (st, o)
      else
        let (bad, o1) := tick o in
        match (if bad then (st, Some EIO) else k_rmdir st i) with
        | (st', None) => purge_up_o f o1 st' (getDirectoryName i)
        | (_, Some _) => (st, o1)
        end
  end.

(* Directory::purge(path, recursive) *)
Definition d_purge_o (fuel : nat) (o : faults) (st : state) (path : str) (recursive : bool) : state * bool :=
  let '(st1, ok, o1) := d_unlink_o fuel o st path recursive in
  if ok then (fst (purge_up_o (S (length path)) o1 st1 (getDirectoryName path)), true)
  else (st1, false).

Definition d_purge (fuel : nat) (st : state) (path : str) (recursive : bool) : state * bool :=
  d_purge_o fuel None st path recursive.

(* enough for any tree the drivers build *)
Definition unlink_fuel (st : state) : nat := S (height (root st)).

(* the empty tree the harness starts from: /g1/g2/g3/{in,out}, current directory /g1/g2/g3/in *)
Definition G1 : str := [103; 49].
Definition G2 : str := [103; 50].
Definition G3 : str := [103; 51].
Definition IN : str := [105; 110].
Definition OUT : str := [111; 117; 116].

Definition init_state : state :=
  {| root := NDir [(G1, NDir [(G2, NDir [(G3, NDir [(IN, NDir []); (OUT, NDir [])])])])];
     cwd := [G1; G2; G3; IN];
     handles := [] |}.

(* ---- every operation of the drivers, for statements about all histories --------------------------- *)

Inductive fsop :=
| OpMkdir (p : str) | OpMkfile (p : str) (c : list Z) | OpMklink (target p : str)
| OpOpen (h : nat) (p : str) (fr fw fa fo : bool) | OpClose (h : nat) | OpHandle (h : nat) (o : hop)
| OpFUnlink (p : str) | OpSymlink (target p : str)
| OpRename (a b : str) (fie : bool) | OpCopy (a b : str) (fie : bool) (orc : list xfer)
| OpCreate (p : str) | OpDUnlink (p : str) (recursive : bool)
| OpReadAllPath (p : str) | OpChdir (p : str)
| OpDUnlinkO (o : faults) (p : str) (recursive : bool) | OpPurge (o : faults) (p : str) (recursive : bool).

Definition fs_step (st : state) (o : fsop) : state :=
  match o with
  | OpMkdir p => fst (k_mkdir st p)
  | OpMkfile p c => fst (k_mkfile st p c)
  | OpMklink t p => fst (k_symlink st t p)
  | OpOpen h p fr fw fa fo => fst (f_open st h p fr fw fa fo)
  | OpClose h => f_close st h
  | OpHandle h o => fst (h_step st h o)
  | OpFUnlink p => fst (f_unlink st p)
  | OpSymlink t p => fst (f_symlink st t p)
  | OpRename a b fie => fst (f_rename st a b fie)
  | OpCopy a b fie orc => fst (f_copy_o orc st a b fie)
  | OpCreate p => fst (d_create (create_fuel p) st p)
  | OpDUnlink p r => fst (d_unlink (unlink_fuel st) st p r)
  | OpReadAllPath p => fst (f_readAll_path st p)
  | OpChdir p => fst (d_change st p)
  | OpDUnlinkO o p r => fst (fst (d_unlink_o (unlink_fuel st) o st p r))
  | OpPurge o p r => fst (d_purge_o (unlink_fuel st) o st p r)
  end.

Definition fs_run (st : state) (os : list fsop) : state := fold_left fs_step os st.
