(* Lemmas about the path functions: decomposition scanners and simplifyPath. *)
From Coq Require Import ZArith List Bool Lia.
From Path Require Import PathSpec PathModel.
Import ListNotations.
Local Open Scope Z_scope.

(* ---- strings ----------------------------------------------------------------------------- *)

Lemma str_eqb_eq a b : str_eqb a b = true <-> a = b.
Proof.
  revert b; induction a as [|x a IH]; intros [|y b]; simpl; split; intro H; try discriminate; auto.
  - apply andb_true_iff in H as [H1 H2]. apply Z.eqb_eq in H1. apply IH in H2. subst; auto.
  - inversion H; subst. rewrite Z.eqb_refl. simpl. apply IH. auto.
Qed.

Lemma str_eqb_refl a : str_eqb a a = true.
Proof. apply str_eqb_eq. reflexivity. Qed.

Lemma str_eqb_neq a b : str_eqb a b = false <-> a <> b.
Proof.
  split; intro H.
  - intro E. apply str_eqb_eq in E. congruence.
  - destruct (str_eqb a b) eqn:E; auto. apply str_eqb_eq in E. contradiction.
Qed.

Definition sepfree (s : str) : Prop := forallb (fun c => negb (is_sep c)) s = true.
Definition dotfree (s : str) : Prop := forallb (fun c => negb (is_dot c)) s = true.
Definition free (f : Z -> bool) (s : str) : Prop := forallb (fun c => negb (f c)) s = true.

(* ---- split_last ---------------------------------------------------------------------------- *)

Lemma split_last_none f p : split_last f p = None -> free f p.
Proof.
  unfold free. induction p as [|c t IH]; simpl; auto.
  destruct (split_last f t) as [[[? ?] ?]|]; [discriminate|].
  destruct (f c); [discriminate|]. simpl. auto.
Qed.

Lemma split_last_some f p a s b :
  split_last f p = Some (a, s, b) -> p = a ++ s :: b /\ f s = true /\ free f b.
Proof.
  revert a s b; induction p as [|c t IH]; intros a s b H; simpl in H; [discriminate|].
  destruct (split_last f t) as [[[a' s'] b']|] eqn:E.
  - inversion H; subst. destruct (IH _ _ _ eq_refl) as (-> & Hs & Hb). auto.
  - destruct (f c) eqn:Fc; [|discriminate]. apply split_last_none in E. inversion H; subst. repeat split; auto.
Qed.

Lemma split_last_free f p : free f p -> split_last f p = None.
Proof.
  unfold free. induction p as [|c t IH]; simpl; auto. intro H.
  apply andb_true_iff in H as [H1 H2]. rewrite (IH H2). destruct (f c); [discriminate|reflexivity].
Qed.

Lemma split_last_app f a s b : f s = true -> free f b -> split_last f (a ++ s :: b) = Some (a, s, b).
Proof.
  intros Hs Hb. induction a as [|c a IH]; simpl.
  - rewrite (split_last_free _ _ Hb), Hs. reflexivity.
  - rewrite IH. reflexivity.
Qed.

(* ---- directory + base, stem + extension ---------------------------------------------------- *)

Lemma dir_base_cases p :
  (exists s, is_sep s = true /\ getDirectoryName p ++ s :: getBaseName p [] = p /\ sepfree (getBaseName p []))
  \/ (sepfree p /\ getDirectoryName p = [46] /\ getBaseName p [] = p).
Proof.
  unfold getDirectoryName, getBaseName, last_component.
  destruct (split_last is_sep p) as [[[a s] b]|] eqn:E.
  - left. apply split_last_some in E as (-> & Hs & Hb). exists s. auto.
  - right. apply split_last_none in E. auto.
Qed.

Lemma stem_ext_cases p :
  (getBaseName p [] = getStem p [] ++ 46 :: getExtension p /\ dotfree (getExtension p))
  \/ (dotfree (getBaseName p []) /\ getStem p [] = getBaseName p [] /\ getExtension p = []).
Proof.
  unfold getStem, getExtension, getBaseName. simpl.
  destruct (split_last is_dot (last_component p)) as [[[a s] b]|] eqn:E.
  - left. apply split_last_some in E as (E & Hs & Hb). unfold is_dot in Hs. apply Z.eqb_eq in Hs. subst s.
    split; auto.
  - right. apply split_last_none in E. auto.
Qed.

(* base name with an explicit extension: what is removed is the extension (with its dot) *)
Lemma base_ext_cases p e :
  getBaseName p e = getBaseName p [] \/
  getBaseName p [] = getBaseName p e ++ e \/
  getBaseName p [] = getBaseName p e ++ 46 :: e.
Proof.
  unfold getBaseName. simpl. set (r := last_component p).
  destruct e as [|e0 e']; auto. set (e := e0 :: e') in *.
  destruct (e0 =? 46) eqn:E0.
  - destruct ((length e <=? length r)%nat && str_eqb (skipn (length r - length e) r) e) eqn:C; auto.
    right; left. apply andb_true_iff in C as [_ C]. apply str_eqb_eq in C.
    rewrite <- C at 2. symmetry. apply firstn_skipn.
  - destruct ((length e + 1 <=? length r)%nat && (nth (length r - (length e + 1)) r 0 =? 46) &&
              str_eqb (skipn (length r - length e) r) e) eqn:C; auto.
    right; right. apply andb_true_iff in C as [C C3]. apply andb_true_iff in C as [C1 C2].
    apply str_eqb_eq in C3. apply Z.eqb_eq in C2. apply Nat.leb_le in C1.
    set (k := (length r - (length e + 1))%nat) in *.
    assert (Hk : (length r - length e = S k)%nat) by (unfold k; lia).
    rewrite Hk in C3.
    rewrite <- (firstn_skipn k r) at 1. f_equal.
    assert (Hlen : (k < length r)%nat) by (unfold k; lia).
    clearbody k. clear - C2 C3 Hlen.
    revert k C2 C3 Hlen. induction r as [|x r IH]; intros [|k] C2 C3 Hlen; simpl in *; try lia.
    + subst. reflexivity.
    + apply IH; auto. lia.
Qed.

(* ---- tokens ---------------------------------------------------------------------------------- *)

Definition toks (p : str) : list str := filter nonempty (split_sep p).

Lemma components_eq p : components p = (starts_with_sep p, toks p).
Proof. reflexivity. Qed.

Lemma split_sep_nonnil p : split_sep p <> [].
Proof.
  induction p as [|c t IH]; simpl; [discriminate|].
  destruct (is_sep c); [discriminate|]. destruct (split_sep t); [contradiction|discriminate].
Qed.

Lemma split_sep_app a s b : is_sep s = true -> split_sep (a ++ s :: b) = split_sep a ++ split_sep b.
Proof.
  intro Hs. induction a as [|c a IH]; simpl.
  - rewrite Hs. reflexivity.
  - destruct (is_sep c).
    + rewrite IH. reflexivity.
    + rewrite IH. destruct (split_sep a) as [|h r] eqn:E; [exfalso; eapply split_sep_nonnil; eauto|].
      reflexivity.
Qed.

Lemma split_sep_free a : sepfree a -> split_sep a = [a].
Proof.
  unfold sepfree. induction a as [|c a IH]; simpl; auto. intro H.
  apply andb_true_iff in H as [H1 H2]. destruct (is_sep c); [discriminate|]. rewrite (IH H2). reflexivity.
Qed.

Lemma toks_app a s b : is_sep s = true -> toks (a ++ s :: b) = toks a ++ toks b.
Proof. intro Hs. unfold toks. rewrite split_sep_app by auto. apply filter_app. Qed.

Lemma toks_free a : sepfree a -> toks a = if nonempty a then [a] else [].
Proof. intro H. unfold toks. rewrite split_sep_free by auto. simpl. destruct (nonempty a); reflexivity. Qed.

Lemma toks_cons_sep s b : is_sep s = true -> toks (s :: b) = toks b.
Proof. intro Hs. change (s :: b) with ([] ++ s :: b). rewrite toks_app by auto. reflexivity. Qed.

Lemma toks_nil : toks [] = [].
Proof. reflexivity. Qed.

(* every token is non-empty and separator-free *)
Definition wfc (c : str) : Prop := c <> [] /\ sepfree c.

Lemma split_sep_all_free p : Forall sepfree (split_sep p).
Proof.
  induction p as [|c t IH]; simpl.
  - constructor; [reflexivity|constructor].
  - destruct (is_sep c) eqn:E.
    + constructor; [reflexivity|exact IH].
    + destruct (split_sep t) as [|h r]; [constructor; [|constructor]|].
      * unfold sepfree; simpl. rewrite E. reflexivity.
      * inversion IH; subst. constructor; auto. unfold sepfree in *; simpl. rewrite E. simpl. auto.
Qed.

Lemma toks_wf p : Forall wfc (toks p).
Proof.
  unfold toks. pose proof (split_sep_all_free p) as H. induction H as [|x l Hx Hl IH]; simpl; [constructor|].
  destruct x as [|c x]; simpl; auto. constructor; auto. split; [discriminate|auto].
Qed.

(* ---- the loop of simplifyPath is a fold over the tokens ------------------------------------- *)

Lemma skip_seps_toks p : toks (skip_seps p) = toks p.
Proof.
  induction p as [|c t IH]; simpl; auto.
  destruct (is_sep c) eqn:E; auto. rewrite IH. symmetry. apply toks_cons_sep. auto.
Qed.

Lemma skip_seps_length p : (length (skip_seps p) <= length p)%nat.
Proof. induction p as [|c t IH]; simpl; auto. destruct (is_sep c); simpl; lia. Qed.

Lemma skip_seps_head p : match skip_seps p with c :: _ => is_sep c = false | [] => True end.
Proof. induction p as [|c t IH]; simpl; auto. destruct (is_sep c) eqn:E; auto. Qed.

Lemma scan_chunk_spec p a b :
  scan_chunk p = (a, b) ->
  p = a ++ b /\ sepfree a /\ match b with [] => True | s :: _ => is_sep s = true end.
Proof.
  revert a b; induction p as [|c t IH]; intros a b H; simpl in H.
  - inversion H; subst. repeat split; auto.
  - destruct (is_sep c) eqn:E.
    + inversion H; subst. repeat split; auto.
    + destruct (scan_chunk t) as [a' b'] eqn:S. inversion H; subst.
      destruct (IH _ _ eq_refl) as (-> & Ha & Hb). repeat split; auto.
      unfold sepfree in *; simpl. rewrite E. simpl. auto.
Qed.

Lemma simp_loop_fold fuel abs p r :
  (length p < fuel)%nat ->
  simp_loop fuel abs p r = fold_left (simp_chunk abs) (toks p) r.
Proof.
  revert p r; induction fuel as [|f IH]; intros p r Hf; [lia|].
  simpl. destruct (scan_chunk (skip_seps p)) as [chunk rest] eqn:S.
  apply scan_chunk_spec in S as (E & Hc & Hr).
  rewrite <- (skip_seps_toks p). pose proof (skip_seps_length p) as HL. pose proof (skip_seps_head p) as HH.
  rewrite E in *. clear E.
  destruct chunk as [|c0 chunk].
  - simpl in *. destruct rest as [|s rest]; [reflexivity|]. congruence.
  - destruct rest as [|s rest].
    + rewrite app_nil_r. rewrite toks_free by auto. reflexivity.
    + rewrite toks_app by auto. rewrite toks_free by auto. simpl nonempty. cbv iota.
      change ([c0 :: chunk] ++ toks rest) with ((c0 :: chunk) :: toks rest). simpl fold_left.
      apply IH. rewrite app_length in HL. simpl in HL. lia.
Qed.

(* ---- the text kept in `result` is the rendering of a stack of components ----------------- *)

Definition nonnil {A} (l : list A) : bool := match l with [] => false | _ => true end.

(* stack top-first *)
Fixpoint rend (abs : bool) (st : list str) : str :=
  match st with
  | [] => []
  | c :: below => (if nonnil below || abs then rend abs below ++ [47] else []) ++ c
  end.

Lemma rend_nonempty abs st : Forall wfc st -> nonempty (rend abs st) = nonnil st.
Proof.
  intros H. destruct st as [|c below]; simpl; auto.
  inversion H as [|? ? [Hc _] _]; subst.
  destruct (nonnil below || abs).
  - destruct (rend abs below); reflexivity.
  - destruct c; [contradiction|reflexivity].
Qed.

Lemma is_sep_47 : is_sep 47 = true.
Proof. reflexivity. Qed.

Lemma norm_step_wf st c : Forall wfc st -> wfc c -> Forall wfc (norm_step st c).
Proof.
  intros Hst Hc. unfold norm_step.
  destruct (str_eqb c DOT1); auto.
  destruct (str_eqb c DOTDOT).
  - destruct st as [|top below]; auto. destruct (str_eqb top DOTDOT); auto. inversion Hst; auto.
  - auto.
Qed.

Lemma fold_norm_wf cs st : Forall wfc st -> Forall wfc cs -> Forall wfc (fold_left norm_step cs st).
Proof.
  revert st; induction cs as [|c cs IH]; intros st Hst Hcs; simpl; auto.
  inversion Hcs; subst. apply IH; auto. apply norm_step_wf; auto.
Qed.

Lemma simp_chunk_rend abs st c :
  Forall wfc st -> wfc c ->
  simp_chunk abs (rend abs st) c = rend abs (norm_step st c).
Proof.
  intros Hst [Hc1 Hc2]. unfold simp_chunk, norm_step.
  rewrite (rend_nonempty abs st Hst).
  destruct (str_eqb c DOTDOT) eqn:Edd.
  - assert (E1 : str_eqb c DOT1 = false).
    { apply str_eqb_eq in Edd. subst c. reflexivity. }
    rewrite E1.
    destruct st as [|top below].
    + simpl. reflexivity.
    + simpl nonnil. rewrite andb_true_r. cbv iota.
      inversion Hst as [|? ? [Ht1 Ht2] Hbelow]; subst.
      destruct (nonnil below || abs) eqn:Eb.
      * assert (ER : rend abs (top :: below) = rend abs below ++ 47 :: top).
        { simpl. rewrite Eb. rewrite <- app_assoc. reflexivity. }
        rewrite ER at 1. rewrite split_last_app by (auto using is_sep_47).
        destruct (str_eqb top DOTDOT) eqn:Et; simpl negb; cbv iota.
        -- change (rend abs (c :: top :: below))
             with ((if nonnil (top :: below) || abs then rend abs (top :: below) ++ [47] else []) ++ c).
           reflexivity.
        -- reflexivity.
      * assert (ER : rend abs (top :: below) = top).
        { simpl. rewrite Eb. reflexivity. }
        rewrite !ER. rewrite (split_last_free is_sep top Ht2).
        apply orb_false_iff in Eb as [Eb1 Eb2]. destruct below; [|discriminate]. subst abs.
        destruct (str_eqb top DOTDOT) eqn:Et; simpl negb; cbv iota.
        -- change (rend false [c; top]) with ((rend false [top] ++ [47]) ++ c). rewrite ER. reflexivity.
        -- reflexivity.
  - simpl andb. cbv iota.
    destruct (str_eqb c DOT1) eqn:E1; [reflexivity|].
    simpl rend. destruct (nonnil st || abs) eqn:Eb; [reflexivity|].
    apply orb_false_iff in Eb as [Eb1 _]. destruct st; [|discriminate]. reflexivity.
Qed.

Lemma fold_simp_chunk_rend abs cs st :
  Forall wfc st -> Forall wfc cs ->
  fold_left (simp_chunk abs) cs (rend abs st) = rend abs (fold_left norm_step cs st).
Proof.
  revert st; induction cs as [|c cs IH]; intros st Hst Hcs; simpl; auto.
  inversion Hcs; subst. rewrite simp_chunk_rend by auto. apply IH; auto. apply norm_step_wf; auto.
Qed.

(* ---- rend versus the specification's render -------------------------------------------------- *)

Lemma join_snoc l c : l <> [] -> join (l ++ [c]) = join l ++ 47 :: c.
Proof.
  induction l as [|x l IH]; [contradiction|]. intros _.
  destruct l as [|y l].
  - reflexivity.
  - change (join ((x :: y :: l) ++ [c])) with (x ++ 47 :: join ((y :: l) ++ [c])).
    rewrite IH by discriminate. change (join (x :: y :: l)) with (x ++ 47 :: join (y :: l)).
    rewrite <- app_assoc. reflexivity.
Qed.

Lemma rend_join abs st :
  st <> [] -> rend abs st = (if abs then [47] else []) ++ join (rev st).
Proof.
  induction st as [|c below IH]; [contradiction|]. intros _.
  simpl rend. destruct below as [|d below].
  - simpl. destruct abs; reflexivity.
  - simpl nonnil. simpl orb. cbv iota. rewrite IH by discriminate.
    change (rev (c :: d :: below)) with (rev (d :: below) ++ [c]).
    rewrite join_snoc.
    + rewrite <- !app_assoc. reflexivity.
    + simpl. destruct (rev below); discriminate.
Qed.

Definition final (abs : bool) (r : str) : str := if negb (nonempty r) && abs then [47] else r.

Lemma final_rend_render abs st :
  Forall wfc st -> final abs (rend abs st) = render (abs, rev st).
Proof.
  intro H. unfold final, render. rewrite (rend_nonempty abs st H). simpl fst; simpl snd.
  destruct st as [|c below].
  - simpl. destruct abs; reflexivity.
  - simpl nonnil. simpl andb. cbv iota. rewrite rend_join by discriminate.
    destruct (rev (c :: below)) eqn:E; [|reflexivity].
    apply (f_equal (@length str)) in E. rewrite rev_length in E. discriminate.
Qed.

(* the central lemma: the code computes the canonical text of the specification *)
Lemma simplify_spec p : simplifyPath p = canon p.
Proof.
  unfold simplifyPath, canon.
  pose proof (fold_norm_wf (toks p) [] (Forall_nil _) (toks_wf p)) as W.
  assert (E : simp_loop (S (length p)) (starts_with_sep p) p [] =
              rend (starts_with_sep p) (fold_left norm_step (toks p) [])).
  { rewrite simp_loop_fold by lia.
    exact (fold_simp_chunk_rend (starts_with_sep p) (toks p) [] (Forall_nil _) (toks_wf p)). }
  rewrite E.
  exact (final_rend_render (starts_with_sep p) _ W).
Qed.

(* ---- reading the canonical text back --------------------------------------------------------- *)

Lemma toks_join cs : Forall wfc cs -> toks (join cs) = cs.
Proof.
  induction cs as [|c cs IH]; intro H; [reflexivity|].
  inversion H as [|? ? [Hc1 Hc2] Hcs]; subst.
  destruct cs as [|d cs].
  - simpl. rewrite toks_free by auto. destruct c; [contradiction|reflexivity].
  - change (join (c :: d :: cs)) with (c ++ 47 :: join (d :: cs)).
    rewrite toks_app by reflexivity. rewrite IH by auto. rewrite toks_free by auto.
    destruct c; [contradiction|reflexivity].
Qed.

Lemma wfc_head_not_sep c : wfc c -> starts_with_sep c = false.
Proof.
  intros [H1 H2]. destruct c as [|x c]; [contradiction|]. simpl.
  unfold sepfree in H2. simpl in H2. apply andb_true_iff in H2 as [H2 _]. destruct (is_sep x); auto; discriminate.
Qed.

Lemma starts_with_sep_app a b : a <> [] -> starts_with_sep (a ++ b) = starts_with_sep a.
Proof. destruct a; [contradiction|reflexivity]. Qed.

Lemma render_cons abs c cs : render (abs, c :: cs) = (if abs then [47] else []) ++ join (c :: cs).
Proof. reflexivity. Qed.

Lemma join_head c cs : Forall wfc (c :: cs) -> starts_with_sep (join (c :: cs)) = false.
Proof.
  intro H. inversion H as [|? ? Hc Hcs]; subst.
  destruct cs as [|d cs].
  - simpl. apply wfc_head_not_sep; auto.
  - change (join (c :: d :: cs)) with (c ++ 47 :: join (d :: cs)).
    rewrite starts_with_sep_app by (destruct Hc; auto). apply wfc_head_not_sep; auto.
Qed.

Lemma components_render abs cs :
  Forall wfc cs -> components (render (abs, cs)) = (abs, cs).
Proof.
  intro H. rewrite components_eq.
  destruct cs as [|c cs].
  - destruct abs; reflexivity.
  - rewrite render_cons. destruct abs.
    + change ([47] ++ join (c :: cs)) with (47 :: join (c :: cs)).
      rewrite toks_cons_sep by reflexivity. rewrite toks_join by auto. reflexivity.
    + change ([] ++ join (c :: cs)) with (join (c :: cs)).
      rewrite join_head by auto. rewrite toks_join by auto. reflexivity.
Qed.

(* ---- normal forms ------------------------------------------------------------------------------ *)

Definition plain (c : str) : Prop := c <> DOT1 /\ c <> DOTDOT.

(* top-first stack: plain names above a block of ".." *)
Definition nf (st : list str) : Prop :=
  exists names n, st = names ++ repeat DOTDOT n /\ Forall plain names.

Lemma nf_nil : nf [].
Proof. exists [], 0%nat. split; [reflexivity|constructor]. Qed.

Lemma norm_step_nf st c : nf st -> nf (norm_step st c).
Proof.
  intros (names & n & -> & Hn). unfold norm_step.
  destruct (str_eqb c DOT1) eqn:E1; [exists names, n; auto|].
  destruct (str_eqb c DOTDOT) eqn:E2.
  - apply str_eqb_eq in E2. subst c.
    destruct names as [|top names].
    + simpl. destruct n as [|n]; simpl.
      * exists [], 1%nat. split; [reflexivity|constructor].
      * exists [], (S (S n)). split; [reflexivity|constructor].
    + simpl. inversion Hn as [|? ? [_ Ht] Hn']; subst.
      apply str_eqb_neq in Ht. rewrite Ht. exists names, n. auto.
  - exists (c :: names), n. split; [reflexivity|]. constructor; auto.
    apply str_eqb_neq in E1, E2. split; auto.
Qed.

Lemma fold_norm_nf cs st : nf st -> nf (fold_left norm_step cs st).
Proof. revert st; induction cs as [|c cs IH]; intros st H; simpl; auto. apply IH. apply norm_step_nf; auto. Qed.

Lemma norm_step_plain st c : plain c -> norm_step st c = c :: st.
Proof.
  intros [H1 H2]. unfold norm_step. apply str_eqb_neq in H1, H2. rewrite H1, H2. reflexivity.
Qed.

Lemma fold_norm_plain names st : Forall plain names -> fold_left norm_step names st = rev names ++ st.
Proof.
  revert st; induction names as [|c names IH]; intros st H; simpl; auto.
  inversion H; subst. rewrite norm_step_plain by auto. rewrite IH by auto. rewrite <- app_assoc. reflexivity.
Qed.

Lemma fold_norm_dotdots n m : fold_left norm_step (repeat DOTDOT n) (repeat DOTDOT m) = repeat DOTDOT (n + m).
Proof.
  revert m; induction n as [|n IH]; intro m; simpl; auto.
  replace (norm_step (repeat DOTDOT m) DOTDOT) with (repeat DOTDOT (S m)).
  - rewrite IH. replace (n + S m)%nat with (S (n + m)) by lia. reflexivity.
  - destruct m; reflexivity.
Qed.

Lemma rev_repeat {A} (x : A) n : rev (repeat x n) = repeat x n.
Proof.
  induction n as [|n IH]; simpl; auto. rewrite IH.
  clear IH. induction n as [|n IH]; simpl; auto. rewrite IH. reflexivity.
Qed.

(* normalising the reading of a normal form gives it back *)
Lemma fold_norm_nf_fix st : nf st -> fold_left norm_step (rev st) [] = st.
Proof.
  intros (names & n & -> & Hn). rewrite rev_app_distr, fold_left_app, rev_repeat.
  change (@nil str) with (repeat DOTDOT 0). rewrite fold_norm_dotdots. rewrite Nat.add_0_r.
  rewrite fold_norm_plain by (apply Forall_rev; auto). rewrite rev_involutive. reflexivity.
Qed.

Lemma normalise_idem k : normalise (normalise k) = normalise k.
Proof.
  unfold normalise. simpl fst; simpl snd. f_equal. f_equal.
  apply fold_norm_nf_fix. apply fold_norm_nf. apply nf_nil.
Qed.

Lemma normalise_wf p : Forall wfc (snd (normalise (components p))).
Proof.
  simpl. apply Forall_rev. apply fold_norm_wf; [constructor|apply toks_wf].
Qed.

(* ---- the theorems about simplifyPath ----------------------------------------------------------- *)

Lemma simplify_equivalent_l p : components (simplifyPath p) = normalise (components p).
Proof.
  rewrite simplify_spec. unfold canon.
  destruct (normalise (components p)) as [abs cs] eqn:E.
  apply components_render. pose proof (normalise_wf p) as W. rewrite E in W. exact W.
Qed.

Lemma simplify_idempotent_l p : simplifyPath (simplifyPath p) = simplifyPath p.
Proof.
  rewrite (simplify_spec (simplifyPath p)). unfold canon at 1.
  rewrite simplify_equivalent_l, normalise_idem. symmetry. apply simplify_spec.
Qed.

(* two texts with the same tokens and the same kind simplify to the same text *)
Lemma simplify_same_components p q : components p = components q -> simplifyPath p = simplifyPath q.
Proof. intro H. rewrite !simplify_spec. unfold canon. rewrite H. reflexivity. Qed.

Lemma dir_base_lexical p : simplifyPath (getDirectoryName p ++ 47 :: getBaseName p []) = simplifyPath p.
Proof.
  destruct (dir_base_cases p) as [(s & Hs & E & _)|(Hp & -> & ->)].
  - apply simplify_same_components. rewrite <- E at 3. rewrite !components_eq.
    rewrite !toks_app by auto. f_equal.
    destruct (getDirectoryName p); [simpl; rewrite Hs|]; reflexivity.
  - rewrite !simplify_spec. unfold canon. rewrite !components_eq.
    change ([46] ++ 47 :: p) with ([46] ++ 47 :: p). rewrite (toks_app [46] 47 p) by reflexivity.
    unfold normalise. cbn [fst snd]. rewrite fold_left_app.
    assert (Hs : starts_with_sep p = false).
    { destruct p as [|c p]; auto. simpl. unfold sepfree in Hp. simpl in Hp.
      apply andb_true_iff in Hp as [Hp _]. destruct (is_sep c); auto; discriminate. }
    rewrite Hs. reflexivity.
Qed.

(* ---- lexical equivalence ------------------------------------------------------------------------ *)

Lemma fold_norm_snoc cs c st : fold_left norm_step (cs ++ [c]) st = norm_step (fold_left norm_step cs st) c.
Proof. rewrite fold_left_app. reflexivity. Qed.

Lemma repeat_snoc {A} (x : A) n : repeat x n ++ [x] = repeat x (S n).
Proof. induction n as [|n IH]; simpl; auto. rewrite IH. reflexivity. Qed.

Lemma norm_step_dotdot_dd n : norm_step (repeat DOTDOT n) DOTDOT = repeat DOTDOT (S n).
Proof. destruct n; reflexivity. Qed.

Lemma norm_step_dotdot_plain top st : plain top -> norm_step (top :: st) DOTDOT = st.
Proof. intros [_ H]. apply str_eqb_neq in H. unfold norm_step. simpl. rewrite H. reflexivity. Qed.

(* resolving the normal form from any stack is resolving the path itself *)
Lemma fold_norm_via_normal cs st :
  fold_left norm_step (rev (fold_left norm_step cs [])) st = fold_left norm_step cs st.
Proof.
  induction cs as [|c cs IH] using rev_ind; [reflexivity|].
  rewrite !fold_norm_snoc, <- IH.
  pose proof (fold_norm_nf cs [] nf_nil) as (names & n & E & Hn). rewrite E.
  destruct (str_eqb c DOT1) eqn:E1.
  { unfold norm_step. rewrite E1. reflexivity. }
  destruct (str_eqb c DOTDOT) eqn:E2.
  - apply str_eqb_eq in E2. subst c.
    destruct names as [|top names].
    + simpl app. rewrite norm_step_dotdot_dd. rewrite !rev_repeat.
      rewrite <- repeat_snoc. rewrite fold_norm_snoc. reflexivity.
    + inversion Hn as [|? ? Ht Hn']; subst.
      change ((top :: names) ++ repeat DOTDOT n) with (top :: (names ++ repeat DOTDOT n)).
      rewrite norm_step_dotdot_plain by auto.
      change (rev (top :: (names ++ repeat DOTDOT n))) with (rev (names ++ repeat DOTDOT n) ++ [top]).
      rewrite fold_norm_snoc. rewrite (norm_step_plain _ top Ht).
      rewrite norm_step_dotdot_plain by auto. reflexivity.
  - assert (P : plain c) by (apply str_eqb_neq in E1, E2; split; auto).
    rewrite (norm_step_plain _ c P).
    change (rev (c :: (names ++ repeat DOTDOT n))) with (rev (names ++ repeat DOTDOT n) ++ [c]).
    rewrite fold_norm_snoc. reflexivity.
Qed.

Lemma lex_equiv_iff_normalise p q :
  lex_equiv p q <-> normalise (components p) = normalise (components q).
Proof.
  unfold lex_equiv, normalise, resolve.
  generalize (components p) as kp. generalize (components q) as kq. intros [aq cq] [ap cp].
  cbn [fst snd]. split.
  - intros [Hk Hr]. f_equal; auto. f_equal.
    specialize (Hr []). destruct ap, aq; auto.
  - intro H. injection H as Hk Hn. split; auto. intro cwd. subst aq.
    apply (f_equal (@rev str)) in Hn. rewrite !rev_involutive in Hn.
    rewrite <- (fold_norm_via_normal cp), <- (fold_norm_via_normal cq).
    rewrite Hn. reflexivity.
Qed.

Lemma lex_equiv_refl p : lex_equiv p p.
Proof. split; auto. Qed.
Lemma lex_equiv_sym p q : lex_equiv p q -> lex_equiv q p.
Proof. intros [H1 H2]. split; auto. Qed.
Lemma lex_equiv_trans p q r : lex_equiv p q -> lex_equiv q r -> lex_equiv p r.
Proof. intros [H1 H2] [H3 H4]. split; [congruence|]. intro cwd. rewrite H2. apply H4. Qed.

Lemma simplify_lex_equiv_l p : lex_equiv (simplifyPath p) p.
Proof. apply lex_equiv_iff_normalise. rewrite simplify_equivalent_l. apply normalise_idem. Qed.

(* simplifyPath decides lexical equivalence: equivalent paths have the same simplified text *)
Lemma simplify_canonical_l p q : lex_equiv p q <-> simplifyPath p = simplifyPath q.
Proof.
  split; intro H.
  - apply lex_equiv_iff_normalise in H. rewrite !simplify_spec. unfold canon. rewrite H. reflexivity.
  - eapply lex_equiv_trans; [apply lex_equiv_sym, simplify_lex_equiv_l|]. rewrite H. apply simplify_lex_equiv_l.
Qed.

(* ---- the scanners against the reference definitions -------------------------------------------- *)

Lemma take_while_app_stop f a s b :
  forallb f a = true -> f s = false -> take_while f (a ++ s :: b) = a.
Proof.
  intros Ha Hs. induction a as [|x a IH]; simpl in *.
  - rewrite Hs. reflexivity.
  - apply andb_true_iff in Ha as [H1 H2]. rewrite H1, IH by auto. reflexivity.
Qed.

Lemma drop_while_app_stop f a s b :
  forallb f a = true -> f s = false -> drop_while f (a ++ s :: b) = s :: b.
Proof.
  intros Ha Hs. induction a as [|x a IH]; simpl in *.
  - rewrite Hs. reflexivity.
  - apply andb_true_iff in Ha as [H1 H2]. rewrite H1, IH by auto. reflexivity.
Qed.

Lemma take_while_all f a : forallb f a = true -> take_while f a = a.
Proof. induction a as [|x a IH]; simpl; auto. intro H. apply andb_true_iff in H as [H1 H2]. rewrite H1, IH; auto. Qed.

Lemma drop_while_all f a : forallb f a = true -> drop_while f a = [].
Proof. induction a as [|x a IH]; simpl; auto. intro H. apply andb_true_iff in H as [H1 H2]. rewrite H1, IH; auto. Qed.

Lemma forallb_rev {A} (f : A -> bool) l : forallb f (rev l) = forallb f l.
Proof. induction l as [|x l IH]; simpl; auto. rewrite forallb_app, IH. simpl. rewrite andb_true_r. apply andb_comm. Qed.

Lemma split_last_reference f p :
  match split_last f p with
  | Some (a, _, b) => before_last f p = Some a /\ after_last f p = b
  | None => before_last f p = None /\ after_last f p = p
  end.
Proof.
  destruct (split_last f p) as [[[a s] b]|] eqn:E.
  - apply split_last_some in E as (-> & Hs & Hb). unfold before_last, after_last, free in *.
    rewrite rev_app_distr. simpl rev. rewrite <- app_assoc. simpl app.
    assert (Hb' : forallb (fun c => negb (f c)) (rev b) = true) by (rewrite forallb_rev; auto).
    assert (Hs' : negb (f s) = false) by (rewrite Hs; reflexivity).
    rewrite (drop_while_app_stop _ _ _ _ Hb' Hs'), (take_while_app_stop _ _ _ _ Hb' Hs').
    rewrite !rev_involutive. auto.
  - apply split_last_none in E. unfold before_last, after_last, free in *.
    assert (E' : forallb (fun c => negb (f c)) (rev p) = true) by (rewrite forallb_rev; auto).
    rewrite (drop_while_all _ _ E'), (take_while_all _ _ E'), rev_involutive. auto.
Qed.

Lemma dir_reference p : getDirectoryName p = spec_dir p.
Proof.
  unfold getDirectoryName, spec_dir. pose proof (split_last_reference is_sep p) as H.
  destruct (split_last is_sep p) as [[[a s] b]|]; destruct H as [-> _]; reflexivity.
Qed.

Lemma last_component_reference p : last_component p = spec_base p.
Proof.
  unfold last_component, spec_base. pose proof (split_last_reference is_sep p) as H.
  destruct (split_last is_sep p) as [[[a s] b]|]; destruct H as [_ ->]; reflexivity.
Qed.

Lemma base_reference p : getBaseName p [] = spec_base p.
Proof. apply last_component_reference. Qed.

Lemma stem_reference p : getStem p [] = spec_stem p.
Proof.
  unfold getStem, spec_stem. rewrite last_component_reference.
  pose proof (split_last_reference is_dot (spec_base p)) as H.
  destruct (split_last is_dot (spec_base p)) as [[[a s] b]|]; destruct H as [-> _]; reflexivity.
Qed.

Lemma ext_reference p : getExtension p = spec_ext p.
Proof.
  unfold getExtension, spec_ext. rewrite last_component_reference.
  pose proof (split_last_reference is_dot (spec_base p)) as H.
  destruct (split_last is_dot (spec_base p)) as [[[a s] b]|]; destruct H as [-> H2]; auto.
Qed.

Lemma skipn_cons_nth k (r : str) x e :
  (k < length r)%nat ->
  (str_eqb (skipn k r) (x :: e) = (nth k r 0 =? x) && str_eqb (skipn (S k) r) e).
Proof.
  revert r; induction k as [|k IH]; intros [|y r] Hk; simpl in Hk; try lia.
  - reflexivity.
  - apply IH. lia.
Qed.

Lemma base_ext_reference p e : getBaseName p e = spec_base_ext p e.
Proof.
  unfold getBaseName, spec_base_ext, ends_with. rewrite last_component_reference.
  set (b := spec_base p). destruct e as [|e0 e']; [reflexivity|]. set (e := e0 :: e').
  unfold is_dot. destruct (e0 =? 46) eqn:E0; [reflexivity|].
  cbn [length]. fold (length e).
  replace (length e + 1)%nat with (S (length e)) by lia.
  destruct (S (length e) <=? length b)%nat eqn:L; [|reflexivity]. cbn [andb].
  apply Nat.leb_le in L.
  rewrite (skipn_cons_nth (length b - S (length e)) b 46 e) by lia.
  replace (S (length b - S (length e))) with (length b - length e)%nat by lia.
  reflexivity.
Qed.

Lemma abs_reference p : isAbsolutePath p = spec_is_absolute p.
Proof.
  unfold isAbsolutePath, spec_is_absolute, starts_with_sep.
  destruct p as [|c0 [|c1 t]]; try reflexivity.
  destruct (c1 =? 58) eqn:E.
  - apply Z.eqb_eq in E. subst c1. destruct t as [|c2 t]; reflexivity.
  - assert (R : forall (A : Type) (x y : A), (match c1 with 58 => x | _ => y end) = y).
    { intros A x y. destruct c1 as [|c1|c1]; try reflexivity.
      repeat (destruct c1 as [c1|c1|]; try reflexivity). discriminate. }
    destruct t as [|c2 t].
    + f_equal. symmetry. apply (R bool).
    + f_equal. cbn [andb]. symmetry.
      change (match c1 with 58 => is_sep c2 | _ => false end = false). apply (R bool).
Qed.

Lemma scanners_reference p e :
  getDirectoryName p = spec_dir p /\ getBaseName p [] = spec_base p /\ getStem p [] = spec_stem p /\
  getExtension p = spec_ext p /\ getBaseName p e = spec_base_ext p e /\ isAbsolutePath p = spec_is_absolute p.
Proof.
  repeat split; [apply dir_reference|apply base_reference|apply stem_reference|apply ext_reference|
                 apply base_ext_reference|apply abs_reference].
Qed.
