(* Property C19 - only statements closed by `exact`, each followed by Print Assumptions.

   Clause of the property                                     theorem(s)
   ---------------------------------------------------------  ------------------------------------------
   simplifyPath is idempotent                                 simplify_idempotent
   ... and lexically equivalent to its input                  simplify_equivalent, simplify_lexically_equivalent,
                                                              lexical_equivalence_is_normal_form, simplify_canonical
   directory name + base name recompose the path              dir_plus_base_recomposes, dir_plus_base_denotes_path
   stem + extension recompose the base name                   stem_plus_extension_recomposes, base_minus_extension
   (scanners = the reference "before/after the last ...")     scanners_match_reference
   getRelativePath(from,to) appended to from denotes to       relative_path_denotes_target
*)
From Coq Require Import ZArith List Bool.
From Path Require Import PathSpec PathModel PathProofs RelProofs.
Import ListNotations.
Local Open Scope Z_scope.

(* ---- part A: path functions, for all byte strings ------------------------------------------- *)

Theorem simplify_idempotent : forall p, simplifyPath (simplifyPath p) = simplifyPath p.
Proof. exact simplify_idempotent_l. Qed.
Print Assumptions simplify_idempotent.

Theorem simplify_equivalent : forall p, components (simplifyPath p) = normalise (components p).
Proof. exact simplify_equivalent_l. Qed.
Print Assumptions simplify_equivalent.

Theorem simplify_lexically_equivalent : forall p, lex_equiv (simplifyPath p) p.
Proof. exact simplify_lex_equiv_l. Qed.
Print Assumptions simplify_lexically_equivalent.

Theorem lexical_equivalence_is_normal_form :
  forall p q, lex_equiv p q <-> normalise (components p) = normalise (components q).
Proof. exact lex_equiv_iff_normalise. Qed.
Print Assumptions lexical_equivalence_is_normal_form.

Theorem simplify_canonical : forall p q, lex_equiv p q <-> simplifyPath p = simplifyPath q.
Proof. exact simplify_canonical_l. Qed.
Print Assumptions simplify_canonical.

Theorem simplify_is_reference_text : forall p, simplifyPath p = canon p.
Proof. exact simplify_spec. Qed.
Print Assumptions simplify_is_reference_text.

Theorem dir_plus_base_recomposes : forall p,
  (exists s, is_sep s = true /\ getDirectoryName p ++ s :: getBaseName p [] = p /\ sepfree (getBaseName p []))
  \/ (sepfree p /\ getDirectoryName p = [46] /\ getBaseName p [] = p).
Proof. exact dir_base_cases. Qed.
Print Assumptions dir_plus_base_recomposes.

Theorem dir_plus_base_denotes_path : forall p,
  simplifyPath (getDirectoryName p ++ 47 :: getBaseName p []) = simplifyPath p.
Proof. exact dir_base_lexical. Qed.
Print Assumptions dir_plus_base_denotes_path.

Theorem stem_plus_extension_recomposes : forall p,
  (getBaseName p [] = getStem p [] ++ 46 :: getExtension p /\ dotfree (getExtension p))
  \/ (dotfree (getBaseName p []) /\ getStem p [] = getBaseName p [] /\ getExtension p = []).
Proof. exact stem_ext_cases. Qed.
Print Assumptions stem_plus_extension_recomposes.

Theorem base_minus_extension : forall p e,
  getBaseName p e = getBaseName p [] \/
  getBaseName p [] = getBaseName p e ++ e \/
  getBaseName p [] = getBaseName p e ++ 46 :: e.
Proof. exact base_ext_cases. Qed.
Print Assumptions base_minus_extension.

Theorem scanners_match_reference : forall p e,
  getDirectoryName p = spec_dir p /\ getBaseName p [] = spec_base p /\ getStem p [] = spec_stem p /\
  getExtension p = spec_ext p /\ getBaseName p e = spec_base_ext p e /\ isAbsolutePath p = spec_is_absolute p.
Proof. exact scanners_reference. Qed.
Print Assumptions scanners_match_reference.

Theorem relative_path_denotes_target : forall from to,
  rel_hyp from to = true ->
  simplifyPath (rel_joined from (getRelativePath from to)) = simplifyPath to.
Proof. exact relative_path_denotes_target_l. Qed.
Print Assumptions relative_path_denotes_target.

(* ---- non-vacuity --------------------------------------------------------------------------------- *)

(* "/a/./b//../c/" simplifies to "/a/c" *)
Example ex_simplify : simplifyPath [47;97;47;46;47;98;47;47;46;46;47;99;47] = [47;97;47;99].
Proof. vm_compute. reflexivity. Qed.
(* "../a/.." keeps its leading ".." *)
Example ex_simplify_up : simplifyPath [46;46;47;97;47;46;46] = [46;46].
Proof. vm_compute. reflexivity. Qed.
(* the root stays the root *)
Example ex_simplify_root : simplifyPath [47;97;47;46;46] = [47].
Proof. vm_compute. reflexivity. Qed.
(* "a/b/../c" and "./a//c" are lexically equivalent, "a" and "/a" are not *)
Example ex_equiv : simplifyPath [97;47;98;47;46;46;47;99] = simplifyPath [46;47;97;47;47;99].
Proof. vm_compute. reflexivity. Qed.
Example ex_not_equiv : simplifyPath [97] <> simplifyPath [47;97].
Proof. vm_compute. discriminate. Qed.
(* "d/x.tar.gz": directory "d", base "x.tar.gz", stem "x.tar", extension "gz" *)
Example ex_parts :
  let p := [100;47;120;46;116;97;114;46;103;122] in
  (getDirectoryName p, getBaseName p [], getStem p [], getExtension p)
  = ([100], [120;46;116;97;114;46;103;122], [120;46;116;97;114], [103;122]).
Proof. vm_compute. reflexivity. Qed.
Example ex_base_ext : getBaseName [100;47;120;46;103;122] [103;122] = [120].
Proof. vm_compute. reflexivity. Qed.
(* from "a/b/c" to "a/d": "../../d"; from "a/b" to "c" (nothing in common): "../../c" *)
Example ex_relative : rel_hyp [97;47;98;47;99] [97;47;100] = true /\
  getRelativePath [97;47;98;47;99] [97;47;100] = [46;46;47;46;46;47;100].
Proof. vm_compute. auto. Qed.
Example ex_relative_nothing_common : rel_hyp [97;47;98] [99] = true /\
  getRelativePath [97;47;98] [99] = [46;46;47;46;46;47;99].
Proof. vm_compute. auto. Qed.
Example ex_relative_root : rel_hyp [47] [47;97] = true /\ getRelativePath [47] [47;97] = [97].
Proof. vm_compute. auto. Qed.
