(* Property C19 - only statements closed by `exact`, each followed by Print Assumptions. *)
From Coq Require Import ZArith List Bool.
From Path Require Import PathSpec PathModel PathProofs.
Import ListNotations.
Local Open Scope Z_scope.
