(* Property C19 - only statements closed by `exact`, each followed by Print Assumptions.

   Clause of the property                                     theorem(s)
   ---------------------------------------------------------  ------------------------------------------
   A. path functions (for all byte strings)
   simplifyPath is idempotent                                 simplify_idempotent
   ... and lexically equivalent to its input                  simplify_equivalent, simplify_lexically_equivalent,
                                                              lexical_equivalence_is_normal_form, simplify_canonical,
                                                              simplify_is_reference_text
   directory name + base name recompose the path              dir_plus_base_recomposes, dir_plus_base_denotes_path
   stem + extension recompose the base name                   stem_plus_extension_recomposes, base_minus_extension
   (scanners = the reference "before/after the last ...")     scanners_match_reference
   getRelativePath(from,to) appended to from denotes to       relative_path_denotes_target_wide (same kind, `from` keeps no more leading ".."
                                                              than `to`: whenever a lexical answer exists; round 5, code repaired by
                                                              fixes/C19/11), relative_path_denotes_target (the special case without ".."),
                                                              old_hypothesis_is_special_case
   B. files and directories (library logic over the kernel model of FsModel part K, which is trusted)
   files return exactly the bytes written across              files_return_written_bytes (any history of write / seek /
     write/append/seek/readAll                                read / readAll / size on a read-write handle refines the byte
                                                              buffer), handles_of_every_mode_return_written_bytes (read-only /
                                                              write-only too), open_existing_in_any_mode,
                                                              open_existing_for_read_write, open_fresh_for_read_write
                                                              (start of the history; append = cursor at the end),
                                                              written_bytes_are_read_back, write_changes_nothing_else
     ... copy / rename                                        copy_carries_the_bytes (exact state afterwards, for every outcome
                                                              of the kernel's transfer calls), copy_leaves_the_rest,
                                                              rename_carries_the_node (exact state afterwards);
                                                              that they DO say true where the text obliges them to (round 5; without
                                                              these an always-false copy / rename met every statement above):
                                                              copy_succeeds, copy_overwrites, rename_succeeds (any path text, stated
                                                              through what the texts resolve to), copy_succeeds_on_plain_names,
                                                              copy_overwrites_on_plain_names, rename_succeeds_on_plain_names
   failed operations report failure without leaving           failed_open_changes_nothing, failed_rename_changes_nothing,
     new files behind                                         rename_of_missing_source_fails, failed_copy_changes_nothing
                                                              (transfers complete), failed_copy_touches_only_destination and
                                                              failed_copy_leaves_no_new_name (any transfer outcome)
   create makes all missing parents, true iff exists after    create_succeeds (exact tree afterwards), create_true_iff_exists_after,
                                                              create_true_means_exists, create_makes_all_parents,
                                                              create_keeps_what_was_there
   recursive unlink removes exactly the given tree,           recursive_unlink_removes_exactly_subtree, cut_out_is_exact,
     never following symbolic links out of it                 unlink_never_follows_a_link, unlink_nonrecursive_keeps_contents
   (the hypothesis `well-formed tree` of the unlink theorem)  reachable_states_are_well_formed
   Round 3 (functions of File / Directory the first rounds did not enter)
   flush changes no byte and no cursor                        files_return_written_bytes and handles_of_every_mode_return_written_bytes
                                                              (HFlush is one of the operations of a history)
   static readAll(path): exactly the bytes, failure reported  read_all_of_path_returns_the_bytes, read_all_of_path_true_only_for_files
     for anything that is no regular file (fix 10: also a     (a directory, a missing name, a dangling link answer false),
     directory), nothing left behind                          read_all_of_path_changes_nothing
   File::exists                                               exists_is_lstat, exists_of_plain_names, unlinked_file_no_longer_exists
   getAbsolutePath over getCurrentDirectory / change          absolute_path_is_absolute, absolute_path_keeps_absolute,
                                                              absolute_path_lexically_denotes (PathSpec.resolve), absolute_path_denotes_the_same
                                                              (kernel walk), change_of_directory, change_keeps_current_directory_real
   enumeration (open / read / close as a client of unlink's   wildcard_matcher_is_reference, enumeration_yields_exactly_the_entries,
     readdir would use it): exactly the entries, each once,   enumeration_refuses_non_directories, enumeration_object_protocol,
     right type, "." and ".." left out                        listed_entries_are_directory_entries, no_entry_listed_twice,
                                                              all_entries_listed_without_filter
   purge = recursive unlink + the ancestors it leaves empty   purge_removes_tree_and_empty_parents, purge_touches_only_below_first_name
   failed operations report failure, touch nothing outside:   unlink_with_failing_call_only_removes_inside (any one of the rmdir / opendir /
     Directory::unlink when a system call fails               readdir / unlink calls fails), unlink_failing_first_call_changes_nothing,
                                                              unlink_fault_not_consumed_is_fault_free (an armed fault the operation does
                                                              not reach changes nothing: the run is the fault-free one),
                                                              unlink_reports_failure_only_when_a_call_failed
   (Which call fails for a given fault position, and so which entries a failed unlink leaves, depends on the order and
   number of the library's system calls; the text says nothing about them.  These statements are therefore about the
   outcome only - true => exact cut, false => a call failed, removals inside the directory only - and the property oracle
   of checks/C19.py asks for no more; the exact prediction d_unlink_o gives is compared with the code as correspondence.)
   Not covered by a theorem (correspondence and the text judge of checks/C19.py only): paths through
   '.', '..' or symbolic links for unlink and for create_succeeds (those theorems are for texts of
   proper names through real directories; exists / rename / copy / open theorems and the other create
   theorems hold for every path text); a second handle on the same file; File::unlink, createSymbolicLink (single system calls).
*)
From Coq Require Import ZArith List Bool.
From Path Require Import PathSpec PathModel PathProofs RelProofs.
From Path Require Import FsSpec FsModel FsListSpec FsTree FsWalk FsFile FsHandle FsDir FsCreate FsMkdirs FsMove FsCopy FsWf.
From Path Require Import FsFault FsPurge FsList FsMisc FsSucceed.
Import ListNotations.
Local Open Scope Z_scope.

(* ---- part A: path functions, for all byte strings ------------------------------------------- *)

Theorem simplify_idempotent : forall p, simplifyPath (simplifyPath p) = simplifyPath p.
Proof. exact simplify_idempotent_l. Qed.
Print Assumptions simplify_idempotent.

Theorem simplify_equivalent : forall p, components (simplifyPath p) = normalise (components p).
Proof. exact simplify_equivalent_l. Qed.
Print Assumptions simplify_equivalent.

Theorem simplify_lexically_equivalent : forall p, lex_equiv (simplifyPath p) p.
Proof. exact simplify_lex_equiv_l. Qed.
Print Assumptions simplify_lexically_equivalent.

Theorem lexical_equivalence_is_normal_form :
  forall p q, lex_equiv p q <-> normalise (components p) = normalise (components q).
Proof. exact lex_equiv_iff_normalise. Qed.
Print Assumptions lexical_equivalence_is_normal_form.

Theorem simplify_canonical : forall p q, lex_equiv p q <-> simplifyPath p = simplifyPath q.
Proof. exact simplify_canonical_l. Qed.
Print Assumptions simplify_canonical.

Theorem simplify_is_reference_text : forall p, simplifyPath p = canon p.
Proof. exact simplify_spec. Qed.
Print Assumptions simplify_is_reference_text.

Theorem dir_plus_base_recomposes : forall p,
  (exists s, is_sep s = true /\ getDirectoryName p ++ s :: getBaseName p [] = p /\ sepfree (getBaseName p []))
  \/ (sepfree p /\ getDirectoryName p = [46] /\ getBaseName p [] = p).
Proof. exact dir_base_cases. Qed.
Print Assumptions dir_plus_base_recomposes.

Theorem dir_plus_base_denotes_path : forall p,
  simplifyPath (getDirectoryName p ++ 47 :: getBaseName p []) = simplifyPath p.
Proof. exact dir_base_lexical. Qed.
Print Assumptions dir_plus_base_denotes_path.

Theorem stem_plus_extension_recomposes : forall p,
  (getBaseName p [] = getStem p [] ++ 46 :: getExtension p /\ dotfree (getExtension p))
  \/ (dotfree (getBaseName p []) /\ getStem p [] = getBaseName p [] /\ getExtension p = []).
Proof. exact stem_ext_cases. Qed.
Print Assumptions stem_plus_extension_recomposes.

Theorem base_minus_extension : forall p e,
  getBaseName p e = getBaseName p [] \/
  getBaseName p [] = getBaseName p e ++ e \/
  getBaseName p [] = getBaseName p e ++ 46 :: e.
Proof. exact base_ext_cases. Qed.
Print Assumptions base_minus_extension.

Theorem scanners_match_reference : forall p e,
  getDirectoryName p = spec_dir p /\ getBaseName p [] = spec_base p /\ getStem p [] = spec_stem p /\
  getExtension p = spec_ext p /\ getBaseName p e = spec_base_ext p e /\ isAbsolutePath p = spec_is_absolute p.
Proof. exact scanners_reference. Qed.
Print Assumptions scanners_match_reference.

Theorem relative_path_denotes_target : forall from to,
  rel_hyp from to = true ->
  simplifyPath (rel_joined from (getRelativePath from to)) = simplifyPath to.
Proof. exact relative_path_denotes_target_l. Qed.
Print Assumptions relative_path_denotes_target.

(* ---- non-vacuity --------------------------------------------------------------------------------- *)

(* "/a/./b//../c/" simplifies to "/a/c" *)
(* The class in which a lexical answer exists at all: same kind, and `from` keeps no more leading ".." than `to` (to come
   back down below a ".." one would need a name no lexical function has).  Round 5: the code was wrong there when `to` is a
   directory above `from` spelled with ".." ("../a" -> ".." gave "../../.."); repaired by fixes/C19/11, which PathModel mirrors. *)
Theorem relative_path_denotes_target_wide : forall from to,
  rel_hyp_wide from to = true ->
  simplifyPath (rel_joined from (getRelativePath from to)) = simplifyPath to.
Proof. exact relative_path_denotes_target_wide_l. Qed.
Print Assumptions relative_path_denotes_target_wide.

Theorem old_hypothesis_is_special_case : forall from to, rel_hyp from to = true -> rel_hyp_wide from to = true.
Proof. exact rel_hyp_is_wide. Qed.
Print Assumptions old_hypothesis_is_special_case.

Example ex_simplify : simplifyPath [47;97;47;46;47;98;47;47;46;46;47;99;47] = [47;97;47;99].
Proof. vm_compute. reflexivity. Qed.
(* "../a/.." keeps its leading ".." *)
Example ex_simplify_up : simplifyPath [46;46;47;97;47;46;46] = [46;46].
Proof. vm_compute. reflexivity. Qed.
(* the root stays the root *)
Example ex_simplify_root : simplifyPath [47;97;47;46;46] = [47].
Proof. vm_compute. reflexivity. Qed.
(* "a/b/../c" and "./a//c" are lexically equivalent, "a" and "/a" are not *)
Example ex_equiv : simplifyPath [97;47;98;47;46;46;47;99] = simplifyPath [46;47;97;47;47;99].
Proof. vm_compute. reflexivity. Qed.
Example ex_not_equiv : simplifyPath [97] <> simplifyPath [47;97].
Proof. vm_compute. discriminate. Qed.
(* "d/x.tar.gz": directory "d", base "x.tar.gz", stem "x.tar", extension "gz" *)
Example ex_parts :
  let p := [100;47;120;46;116;97;114;46;103;122] in
  (getDirectoryName p, getBaseName p [], getStem p [], getExtension p)
  = ([100], [120;46;116;97;114;46;103;122], [120;46;116;97;114], [103;122]).
Proof. vm_compute. reflexivity. Qed.
Example ex_base_ext : getBaseName [100;47;120;46;103;122] [103;122] = [120].
Proof. vm_compute. reflexivity. Qed.
(* from "a/b/c" to "a/d": "../../d"; from "a/b" to "c" (nothing in common): "../../c" *)
Example ex_relative : rel_hyp [97;47;98;47;99] [97;47;100] = true /\
  getRelativePath [97;47;98;47;99] [97;47;100] = [46;46;47;46;46;47;100].
Proof. vm_compute. auto. Qed.
Example ex_relative_nothing_common : rel_hyp [97;47;98] [99] = true /\
  getRelativePath [97;47;98] [99] = [46;46;47;46;46;47;99].
Proof. vm_compute. auto. Qed.
(* `to` is a directory above `from`, also when it is spelled with ".." (repair fixes/C19/11; the code answered "../../..",
   which appended to "../a" denotes three levels up): outside rel_hyp, see level_note *)
Example ex_relative_to_ancestor :
  rel_hyp_wide [46;46;47;97] [46;46] = true /\ rel_hyp [46;46;47;97] [46;46] = false /\
  rel_hyp_wide [46;46;47;97] [46;46;47;46;46;47;99] = true /\ rel_hyp_wide [46;46;47;46;46;47;97] [46;46] = false /\
  getRelativePath [46;46;47;97] [46;46;47;46;46;47;99] = [46;46;47;46;46;47;99] /\
  getRelativePath [97;47;98] [97] = [46;46;47] /\
  getRelativePath [46;46;47;97] [46;46] = [46;46;47] /\
  simplifyPath (rel_joined [46;46;47;97] (getRelativePath [46;46;47;97] [46;46])) = simplifyPath [46;46] /\
  getRelativePath [46;46;47;46;46;47;97;47;98] [46;46;47;46;46] = [46;46;47;46;46;47].
Proof. vm_compute. repeat split; reflexivity. Qed.
Example ex_relative_root : rel_hyp [47] [47;97] = true /\ getRelativePath [47] [47;97] = [97].
Proof. vm_compute. auto. Qed.

(* ---- part B: files and directories --------------------------------------------------------------- *)

(* any history of operations on a read-write handle answers like the byte buffer and leaves the
   file holding the buffer's bytes; nothing else in the tree, no other handle changes *)
Theorem files_return_written_bytes : forall os st h b,
  rw_file st h b ->
  exists st', h_run st h os = (st', snd (buf_run b os)) /\ rw_file st' h (fst (buf_run b os)) /\ frame st st' h.
Proof. exact h_run_refines. Qed.
Print Assumptions files_return_written_bytes.

Theorem open_existing_for_read_write : forall st h path fa fo d nm c,
  hfind (handles st) h = None ->
  resolve st true path = WAt d nm (Some SFile) -> get (root st) (d ++ [nm]) = Some (NFile c) ->
  exists st', f_open st h path true true fa fo = (st', true) /\
              rw_file st' h {| b_data := c; b_pos := if fa then length c else O |} /\
              root st' = root st /\ cwd st' = cwd st.
Proof. exact open_rw_existing. Qed.
Print Assumptions open_existing_for_read_write.

Theorem open_fresh_for_read_write : forall st h path fa d nm es,
  hfind (handles st) h = None ->
  resolve st true path = WAt d nm None -> get (root st) d = Some (NDir es) ->
  exists st', f_open st h path true true fa false = (st', true) /\
              rw_file st' h {| b_data := []; b_pos := O |} /\
              root st' = upd (root st) (d ++ [nm]) (Some (NFile [])) /\ cwd st' = cwd st.
Proof. exact open_rw_fresh. Qed.
Print Assumptions open_fresh_for_read_write.

(* the same for a handle of any mode (read-only, write-only, read-write): what the mode does not
   allow answers failure and changes nothing (FsSpec.abuf_step) *)
Theorem handles_of_every_mode_return_written_bytes : forall os st h rd wr b,
  file_handle st h rd wr b ->
  exists st', h_run st h os = (st', snd (abuf_run rd wr b os)) /\
              file_handle st' h rd wr (fst (abuf_run rd wr b os)) /\ frame st st' h.
Proof. exact handle_run_refines. Qed.
Print Assumptions handles_of_every_mode_return_written_bytes.

(* File::open on an existing regular file, for every flag combination: readable unless write-only,
   writable iff writeFlag; write-only without append / open flag empties the file, every other mode
   leaves the bytes; appendFlag puts the cursor at the end *)
Theorem open_existing_in_any_mode : forall st h path fr fw fa fo d nm c,
  hfind (handles st) h = None ->
  resolve st true path = WAt d nm (Some SFile) -> get (root st) (d ++ [nm]) = Some (NFile c) ->
  exists st', f_open st h path fr fw fa fo = (st', true) /\
              file_handle st' h (fr || negb fw) fw
                {| b_data := opened_content fr fw fa fo c;
                   b_pos := if fa then length (opened_content fr fw fa fo c) else O |} /\
              root st' = (if fw && negb fr && negb fa && negb fo
                          then upd (root st) (d ++ [nm]) (Some (NFile [])) else root st) /\
              cwd st' = cwd st.
Proof. exact open_existing_any. Qed.
Print Assumptions open_existing_in_any_mode.

(* the buffer itself: the bytes written are at the place they were written to ... *)
Theorem written_bytes_are_read_back : forall data pos d,
  firstn (length d) (skipn pos (overwrite data pos d)) = d.
Proof. exact overwrite_read_back. Qed.
Print Assumptions written_bytes_are_read_back.

(* ... and every other byte of the file is what it was *)
Theorem write_changes_nothing_else : forall data pos d i,
  ((i < pos)%nat -> (i < length data)%nat -> nth i (overwrite data pos d) 0 = nth i data 0) /\
  ((pos + length d <= i)%nat -> nth i (overwrite data pos d) 0 = nth i data 0).
Proof. exact overwrite_elsewhere. Qed.
Print Assumptions write_changes_nothing_else.

(* File::copy that says true, exactly, whatever the transfer calls of the kernel do (orc: one
   sendfile call may move fewer bytes than asked for, or fail): the source text leads (through
   links) to a regular file with bytes c, the destination text leads to a different place dd/nd in
   an existing directory where there was nothing or - without failIfExists - a regular file, and
   the state afterwards is the state before with a regular file holding exactly c at that place *)
Theorem copy_carries_the_bytes : forall orc st src dst fie st',
  f_copy_o orc st src dst fie = (st', true) ->
  exists ds ns c dd nd kd es,
    resolve st true src = WAt ds ns (Some SFile) /\ get (root st) (ds ++ [ns]) = Some (NFile c) /\
    resolve st (negb fie) dst = WAt dd nd kd /\ (kd = None \/ (fie = false /\ kd = Some SFile)) /\
    get (root st) dd = Some (NDir es) /\ ds ++ [ns] <> dd ++ [nd] /\
    st' = set_root st (upd (root st) (dd ++ [nd]) (Some (NFile c))).
Proof. exact copy_success_exact_o. Qed.
Print Assumptions copy_carries_the_bytes.

(* read off the tree: the destination holds the bytes, the source keeps them, nothing else changes kind *)
Theorem copy_leaves_the_rest : forall orc st src dst fie st',
  f_copy_o orc st src dst fie = (st', true) ->
  exists ps pd c, get (root st) ps = Some (NFile c) /\
                  get (root st') pd = Some (NFile c) /\ get (root st') ps = Some (NFile c) /\
                  (forall q, is_prefix pd q = false -> sget (root st') q = sget (root st) q).
Proof. exact copy_success_bytes. Qed.
Print Assumptions copy_leaves_the_rest.

(* File::rename that says true, exactly: `from` (a link in last position not followed) names a
   node x, `to` names a place d2/n2 - empty when failIfExists was given - and the state afterwards
   is the state before with x, whole, taken out and put there (or unchanged when both are one place) *)
Theorem rename_carries_the_node : forall st from to fie st',
  f_rename st from to fie = (st', true) ->
  exists d1 n1 x d2 n2 k2,
    resolve st false from = WAt d1 n1 (Some (shallow x)) /\ get (root st) (d1 ++ [n1]) = Some x /\
    resolve st false to = WAt d2 n2 k2 /\ (fie = true -> k2 = None) /\
    ((d1 ++ [n1] = d2 ++ [n2] /\ st' = st) \/
     (d1 ++ [n1] <> d2 ++ [n2] /\
      st' = set_root st (upd (upd (root st) (d1 ++ [n1]) None) (d2 ++ [n2]) (Some x)) /\
      get (root st') (d2 ++ [n2]) = Some x)).
Proof. exact rename_exact. Qed.
Print Assumptions rename_carries_the_node.

(* ---- copy / rename DO succeed (round 5, second audit finding 4) -------------------------------------
   All statements above are conditional on the answer.  These are not: when the source text leads to a
   regular file (copy: through links) / to any node (rename: a link in last position not followed), the
   destination text leads to a free place in an existing directory (rename: not below the source; with
   failIfExists the source is no directory - its placeholder is a regular file, see level_note), and every
   transfer call of the kernel completes (f_copy = f_copy_o []), the answer is true and the state is the
   one copy_carries_the_bytes / rename_carries_the_node describe. *)
Theorem copy_succeeds : forall st src dst fie ds ns c dd nd es,
  resolve st true src = WAt ds ns (Some SFile) -> get (root st) (ds ++ [ns]) = Some (NFile c) ->
  resolve st false dst = WAt dd nd None -> get (root st) dd = Some (NDir es) ->
  f_copy st src dst fie = (set_root st (upd (root st) (dd ++ [nd]) (Some (NFile c))), true).
Proof. exact copy_succeeds_l. Qed.
Print Assumptions copy_succeeds.

(* ... and over an existing regular file other than the source, without failIfExists *)
Theorem copy_overwrites : forall st src dst ds ns c dd nd c0,
  resolve st true src = WAt ds ns (Some SFile) -> get (root st) (ds ++ [ns]) = Some (NFile c) ->
  resolve st true dst = WAt dd nd (Some SFile) -> get (root st) (dd ++ [nd]) = Some (NFile c0) ->
  ds ++ [ns] <> dd ++ [nd] ->
  f_copy st src dst false = (set_root st (upd (root st) (dd ++ [nd]) (Some (NFile c))), true).
Proof. exact copy_overwrites_l. Qed.
Print Assumptions copy_overwrites.

Theorem rename_succeeds : forall st from to fie d1 n1 x d2 n2 es,
  resolve st false from = WAt d1 n1 (Some (shallow x)) -> get (root st) (d1 ++ [n1]) = Some x ->
  resolve st false to = WAt d2 n2 None -> get (root st) d2 = Some (NDir es) ->
  is_prefix (d1 ++ [n1]) (d2 ++ [n2]) = false ->
  (fie = true -> shallow x <> SDir) ->
  f_rename st from to fie
  = (set_root st (upd (upd (root st) (d1 ++ [n1]) None) (d2 ++ [n2]) (Some x)), true).
Proof. exact rename_succeeds_l. Qed.
Print Assumptions rename_succeeds.

(* the same read off the tree alone, for texts of proper names through real directories (the class of
   create_succeeds and of the unlink theorem; what the judge line "must succeed" of checks/C19.py asks of the code) *)
Theorem copy_succeeds_on_plain_names : forall st sn sc dn dc fie c es,
  names_ok (sn ++ [sc]) -> names_ok (dn ++ [dc]) ->
  get (root st) ((cwd st ++ sn) ++ [sc]) = Some (NFile c) ->
  get (root st) (cwd st ++ dn) = Some (NDir es) ->
  get (root st) ((cwd st ++ dn) ++ [dc]) = None ->
  f_copy st (join (sn ++ [sc])) (join (dn ++ [dc])) fie
  = (set_root st (upd (root st) ((cwd st ++ dn) ++ [dc]) (Some (NFile c))), true).
Proof. exact copy_succeeds_plain. Qed.
Print Assumptions copy_succeeds_on_plain_names.

Theorem copy_overwrites_on_plain_names : forall st sn sc dn dc c c0,
  names_ok (sn ++ [sc]) -> names_ok (dn ++ [dc]) ->
  get (root st) ((cwd st ++ sn) ++ [sc]) = Some (NFile c) ->
  get (root st) ((cwd st ++ dn) ++ [dc]) = Some (NFile c0) ->
  (cwd st ++ sn) ++ [sc] <> (cwd st ++ dn) ++ [dc] ->
  f_copy st (join (sn ++ [sc])) (join (dn ++ [dc])) false
  = (set_root st (upd (root st) ((cwd st ++ dn) ++ [dc]) (Some (NFile c))), true).
Proof. exact copy_overwrites_plain. Qed.
Print Assumptions copy_overwrites_on_plain_names.

Theorem rename_succeeds_on_plain_names : forall st sn sc dn dc fie x es,
  names_ok (sn ++ [sc]) -> names_ok (dn ++ [dc]) ->
  get (root st) ((cwd st ++ sn) ++ [sc]) = Some x ->
  get (root st) (cwd st ++ dn) = Some (NDir es) ->
  get (root st) ((cwd st ++ dn) ++ [dc]) = None ->
  is_prefix ((cwd st ++ sn) ++ [sc]) ((cwd st ++ dn) ++ [dc]) = false ->
  (fie = true -> shallow x <> SDir) ->
  f_rename st (join (sn ++ [sc])) (join (dn ++ [dc])) fie
  = (set_root st (upd (upd (root st) ((cwd st ++ sn) ++ [sc]) None) ((cwd st ++ dn) ++ [dc]) (Some x)), true).
Proof. exact rename_succeeds_plain. Qed.
Print Assumptions rename_succeeds_on_plain_names.

(* a source that does not exist is refused, also by rename(x, x, true) (repair fixes/C19/08) *)
Theorem rename_of_missing_source_fails : forall st from to fie,
  k_lstat st from = None -> exists st', f_rename st from to fie = (st', false).
Proof. exact rename_missing_source_fails. Qed.
Print Assumptions rename_of_missing_source_fails.

Theorem failed_open_changes_nothing : forall st h path fr fw fa fo st',
  f_open st h path fr fw fa fo = (st', false) -> st' = st.
Proof. exact open_failure_unchanged. Qed.
Print Assumptions failed_open_changes_nothing.

Theorem failed_rename_changes_nothing : forall st from to fie st',
  f_rename st from to fie = (st', false) -> st' = st.
Proof. exact rename_failure_unchanged. Qed.
Print Assumptions failed_rename_changes_nothing.

(* when every transfer call completes: a copy that says false has changed nothing at all; in
   particular copy(f, f, false) leaves f alone (repair fixes/C19/07) *)
Theorem failed_copy_changes_nothing : forall st src dst fie st',
  f_copy st src dst fie = (st', false) -> st' = st.
Proof. exact copy_failure_unchanged. Qed.
Print Assumptions failed_copy_changes_nothing.

(* whatever the transfer calls do (short, failing): a copy that says false has either changed
   nothing - a destination it created itself is removed again (repair fixes/C19/09) - or the
   destination text led to a regular file that existed before (or, through a symbolic link, to a
   name that did not), and that one place, now a regular file, is all that differs *)
Theorem failed_copy_touches_only_destination : forall orc st src dst fie st',
  f_copy_o orc st src dst fie = (st', false) ->
  st' = st \/
  exists dd nd es, resolve st true dst = WAt dd nd (sget (root st) (dd ++ [nd])) /\ get (root st) dd = Some (NDir es) /\
    (sget (root st) (dd ++ [nd]) = Some SFile \/ (sget (root st) (dd ++ [nd]) = None /\ k_lstat st dst <> None)) /\
    (forall q, is_prefix (dd ++ [nd]) q = false -> sget (root st') q = sget (root st) q) /\
    (forall q, is_prefix (dd ++ [nd]) q = false -> is_prefix q (dd ++ [nd]) = false -> get (root st') q = get (root st) q) /\
    sget (root st') (dd ++ [nd]) = Some SFile.
Proof. exact copy_failure_frame. Qed.
Print Assumptions failed_copy_touches_only_destination.

(* no new name after a failed copy, whatever the transfer calls do - unless the destination text
   is a symbolic link to a missing name (lstat succeeds, stat does not), which the second open creates *)
Theorem failed_copy_leaves_no_new_name : forall orc st src dst fie st',
  f_copy_o orc st src dst fie = (st', false) -> (k_lstat st dst <> None -> k_stat st dst <> None) ->
  forall q, sget (root st') q <> None -> sget (root st) q <> None.
Proof. exact copy_failure_no_new_names. Qed.
Print Assumptions failed_copy_leaves_no_new_name.

(* Directory::create, for every '/'-separated path text (dots, links, anything) *)
Theorem create_true_iff_exists_after : forall st dir st' b,
  no_backslash dir -> d_create (create_fuel dir) st dir = (st', b) -> b = d_exists st' dir.
Proof. exact create_iff_exists. Qed.
Print Assumptions create_true_iff_exists_after.

(* the "true" half needs no hypothesis at all *)
Theorem create_true_means_exists : forall fuel st dir st',
  d_create fuel st dir = (st', true) -> d_exists st' dir = true.
Proof. exact create_true_exists. Qed.
Print Assumptions create_true_means_exists.

Theorem create_makes_all_parents : forall fuel st dir st' pre rest,
  d_create fuel st dir = (st', true) -> dir = pre ++ 47 :: rest -> pre <> [] -> d_exists st' pre = true.
Proof. exact create_makes_parents. Qed.
Print Assumptions create_makes_all_parents.

(* create makes all missing parents: for a text of plain names (proper names without a separator
   of either kind) of which `names` lead from the current directory through real directories and
   the first of `rest` does not exist there, the answer is true and the tree afterwards is the tree
   before with exactly the chain of new empty directories added (nothing when rest is empty) *)
Theorem create_succeeds : forall st names rest es,
  Forall plain_name (names ++ rest) -> names ++ rest <> [] ->
  get (root st) (cwd st ++ names) = Some (NDir es) ->
  match rest with [] => True | c :: _ => get (root st) ((cwd st ++ names) ++ [c]) = None end ->
  d_create (create_fuel (join (names ++ rest))) st (join (names ++ rest))
  = (set_root st (add_chain (root st) (cwd st ++ names) rest), true).
Proof. exact create_succeeds_l. Qed.
Print Assumptions create_succeeds.

Theorem create_keeps_what_was_there : forall fuel st dir st' b q k,
  d_create fuel st dir = (st', b) -> sget (root st) q = Some k -> sget (root st') q = Some k.
Proof. exact create_keeps. Qed.
Print Assumptions create_keeps_what_was_there.

(* Directory::unlink(dir, true) on a real directory named by proper names: true, and the tree
   afterwards is the tree before with exactly that sub-tree cut out *)
Theorem recursive_unlink_removes_exactly_subtree : forall st names c es fuel,
  names_ok (names ++ [c]) ->
  get (root st) ((cwd st ++ names) ++ [c]) = Some (NDir es) ->
  wf_node (root st) = true -> (height (root st) <= fuel)%nat ->
  d_unlink fuel st (join (names ++ [c])) true
  = (set_root st (upd (root st) ((cwd st ++ names) ++ [c]) None), true).
Proof. exact unlink_removes_subtree. Qed.
Print Assumptions recursive_unlink_removes_exactly_subtree.

(* cutting out: everything at or below the place is gone, everything else - in particular whatever
   a symbolic link inside the tree pointed to - is untouched, contents included *)
Theorem cut_out_is_exact : forall r cp,
  wf_node r = true -> cp <> [] ->
  let r' := upd r cp None in
  (forall q, get r' (cp ++ q) = None) /\
  (forall q, is_prefix cp q = false -> sget r' q = sget r q) /\
  (forall q, is_prefix cp q = false -> is_prefix q cp = false -> get r' q = get r q).
Proof. exact cut_out_spec. Qed.
Print Assumptions cut_out_is_exact.

Theorem unlink_never_follows_a_link : forall st names c t fuel rec,
  names_ok (names ++ [c]) ->
  get (root st) ((cwd st ++ names) ++ [c]) = Some (NLink t) ->
  d_unlink fuel st (join (names ++ [c])) rec = (st, false).
Proof. exact unlink_refuses_link. Qed.
Print Assumptions unlink_never_follows_a_link.

Theorem unlink_nonrecursive_keeps_contents : forall st names c e es fuel,
  names_ok (names ++ [c]) ->
  get (root st) ((cwd st ++ names) ++ [c]) = Some (NDir (e :: es)) ->
  d_unlink fuel st (join (names ++ [c])) false = (st, false).
Proof. exact unlink_nonrecursive_keeps. Qed.
Print Assumptions unlink_nonrecursive_keeps_contents.

(* every state the operations can reach from the harness's initial tree is well-formed, and
   `unlink_fuel` is enough fuel there *)
Theorem reachable_states_are_well_formed : forall os,
  wf_node (root (fs_run init_state os)) = true.
Proof. exact reachable_wf. Qed.
Print Assumptions reachable_states_are_well_formed.

(* ---- non-vacuity for part B ------------------------------------------------------------------------- *)

(* in/a/{f="hi", b/{g=""}, l -> ../../out/s},  out/s/keep="K",  in/h="xy" *)
Definition demo : state :=
  fs_run init_state
    [OpMkdir [97]; OpMkfile [97;47;102] [104;105]; OpMkdir [97;47;98]; OpMkfile [97;47;98;47;103] [];
     OpMklink [46;46;47;46;46;47;111;117;116;47;115] [97;47;108];
     OpMkdir [46;46;47;111;117;116;47;115]; OpMkfile [46;46;47;111;117;116;47;115;47;107] [75];
     OpMkfile [104] [120;121]].

Example ex_unlink_hypotheses :
  names_ok ([] ++ [[97]]) /\ (exists es, get (root demo) ((cwd demo ++ []) ++ [[97]]) = Some (NDir es) /\ es <> []) /\
  wf_node (root demo) = true /\ (height (root demo) <= unlink_fuel demo)%nat.
Proof.
  split; [repeat constructor|]. split; [eexists; split; [vm_compute; reflexivity|discriminate]|].
  split; [vm_compute; reflexivity|]. vm_compute. repeat constructor.
Qed.

(* the tree "a" goes, the file behind the link a/l -> ../../out/s stays, so does in/h *)
Example ex_unlink_result :
  let (st', ok) := d_unlink (unlink_fuel demo) demo [97] true in
  ok = true /\ sget (root st') (cwd demo ++ [[97]]) = None /\
  get (root st') [G1; G2; G3; OUT; [115]; [107]] = Some (NFile [75]) /\
  get (root st') (cwd demo ++ [[104]]) = Some (NFile [120;121]).
Proof. vm_compute. repeat split; reflexivity. Qed.

Example ex_unlink_link_refused :
  get (root demo) ((cwd demo ++ [[97]]) ++ [[108]]) = Some (NLink [46;46;47;46;46;47;111;117;116;47;115]) /\
  d_unlink (unlink_fuel demo) demo [97;47;108] true = (demo, false).
Proof. vm_compute. split; reflexivity. Qed.

(* create "x/y/z": true and all three exist; create "h/x" below the file h: false, nothing new *)
Example ex_create :
  let (st', ok) := d_create (create_fuel [120;47;121;47;122]) demo [120;47;121;47;122] in
  ok = true /\ d_exists st' [120;47;121;47;122] = true /\ d_exists st' [120;47;121] = true /\ d_exists st' [120] = true.
Proof. vm_compute. repeat split; reflexivity. Qed.
(* the hypotheses of create_succeeds for "a/x/y/z" in demo: a exists, a/x does not *)
Example ex_create_succeeds_hypotheses :
  Forall plain_name ([[97]] ++ [[120]; [121]; [122]]) /\
  (exists es, get (root demo) (cwd demo ++ [[97]]) = Some (NDir es)) /\
  get (root demo) ((cwd demo ++ [[97]]) ++ [[120]]) = None /\
  get (add_chain (root demo) (cwd demo ++ [[97]]) [[120]; [121]; [122]]) (cwd demo ++ [[97]; [120]; [121]; [122]]) = Some (NDir []).
Proof.
  split; [repeat constructor|]. split; [eexists; vm_compute; reflexivity|]. split; vm_compute; reflexivity.
Qed.
Example ex_create_fails :
  d_create (create_fuel [104;47;120]) demo [104;47;120] = (demo, false) /\ d_exists demo [104;47;120] = false.
Proof. vm_compute. split; reflexivity. Qed.

(* open h read-write, write "AB" at 1, seek 0, readAll: "xAB"; the handle refines the buffer *)
Example ex_handle :
  let st1 := fst (f_open demo 0 [104] true true false true) in
  rw_file st1 0 {| b_data := [120;121]; b_pos := 0 |} /\
  snd (h_run st1 0 [HSeek 1 0; HWrite [65;66]; HSeek 0 0; HReadAll; HSize])
  = [OInt 1; OBool true; OInt 0; OData true [120;65;66]; OInt 3].
Proof.
  split; [|vm_compute; reflexivity].
  eexists. vm_compute. repeat split; try reflexivity. discriminate.
Qed.

(* open h write-only with append: "xy" stays, the cursor is at 2; write "Z": true; readAll: refused *)
Example ex_handle_write_only :
  let st1 := fst (f_open demo 0 [104] false true true false) in
  file_handle st1 0 false true {| b_data := [120;121]; b_pos := 2 |} /\
  snd (h_run st1 0 [HWrite [90]; HSeek 0 0; HReadAll; HSize]) = [OBool true; OInt 0; OData false []; OInt 3] /\
  snd (abuf_run false true {| b_data := [120;121]; b_pos := 2 |} [HWrite [90]; HSeek 0 0; HReadAll; HSize])
  = [OBool true; OInt 0; OData false []; OInt 3].
Proof.
  split; [|split; vm_compute; reflexivity].
  eexists. vm_compute. repeat split; try reflexivity. discriminate.
Qed.
(* rename of a missing source with failIfExists: false, and no placeholder stays *)
Example ex_rename_fails : f_rename demo [109] [110] true = (demo, false).
Proof. vm_compute. reflexivity. Qed.
(* copy of a directory: false, nothing created; copy of h to a/n: the bytes arrive *)
Example ex_copy_dir_fails : f_copy demo [97] [110] false = (demo, false).
Proof. vm_compute. reflexivity. Qed.
Example ex_copy :
  let (st', ok) := f_copy demo [104] [97;47;110] true in
  ok = true /\ get (root st') (cwd demo ++ [[97]; [110]]) = Some (NFile [120;121]).
Proof. vm_compute. split; reflexivity. Qed.
(* a transfer in three calls (1 byte, 1 byte, rest): the bytes arrive all the same *)
Example ex_copy_short :
  let (st', ok) := f_copy_o [XAtMost 1; XAtMost 1] demo [104] [97;47;110] true in
  ok = true /\ get (root st') (cwd demo ++ [[97]; [110]]) = Some (NFile [120;121]).
Proof. vm_compute. split; reflexivity. Qed.
(* the second call fails: false, and the destination this call created is gone again *)
Example ex_copy_transfer_fails : f_copy_o [XAtMost 1; XFail] demo [104] [97;47;110] false = (demo, false).
Proof. vm_compute. reflexivity. Qed.
(* over an existing destination a/f = "hi": false, a/f keeps the one byte that arrived *)
Example ex_copy_transfer_fails_existing :
  let (st', ok) := f_copy_o [XAtMost 1; XFail] demo [104] [97;47;102] false in
  ok = false /\ get (root st') (cwd demo ++ [[97]; [102]]) = Some (NFile [120]).
Proof. vm_compute. split; reflexivity. Qed.
(* copy of h onto itself, directly and through a link to it: false, h keeps its bytes *)
Example ex_copy_self : f_copy demo [104] [104] false = (demo, false).
Proof. vm_compute. reflexivity. Qed.
Example ex_copy_self_link :
  let st1 := fst (f_symlink demo [104] [108]) in f_copy st1 [104] [108] false = (st1, false).
Proof. vm_compute. reflexivity. Qed.
(* rename(m, m, true) for a missing m: false, nothing created *)
(* the hypotheses of the success theorems in demo: copy h -> a/n (free), copy h -> a/f (a regular file), rename of the
   directory a/b to the free place n without failIfExists, rename of the link a/l to a/b/m with it *)
Example ex_copy_succeeds_hypotheses :
  names_ok ([] ++ [[104]]) /\ names_ok ([[97]] ++ [[110]]) /\
  get (root demo) ((cwd demo ++ []) ++ [[104]]) = Some (NFile [120;121]) /\
  (exists es, get (root demo) (cwd demo ++ [[97]]) = Some (NDir es)) /\
  get (root demo) ((cwd demo ++ [[97]]) ++ [[110]]) = None /\
  f_copy demo [104] [97;47;110] true = (set_root demo (upd (root demo) ((cwd demo ++ [[97]]) ++ [[110]]) (Some (NFile [120;121]))), true).
Proof.
  split; [repeat constructor|]. split; [repeat constructor|]. split; [vm_compute; reflexivity|].
  split; [eexists; vm_compute; reflexivity|]. split; vm_compute; reflexivity.
Qed.
Example ex_copy_overwrites_hypotheses :
  get (root demo) ((cwd demo ++ [[97]]) ++ [[102]]) = Some (NFile [104;105]) /\
  (cwd demo ++ []) ++ [[104]] <> (cwd demo ++ [[97]]) ++ [[102]] /\
  f_copy demo [104] [97;47;102] false = (set_root demo (upd (root demo) ((cwd demo ++ [[97]]) ++ [[102]]) (Some (NFile [120;121]))), true).
Proof.
  split; [vm_compute; reflexivity|]. split; [vm_compute; discriminate|]. vm_compute; reflexivity.
Qed.
Example ex_rename_succeeds_hypotheses :
  (exists es, get (root demo) ((cwd demo ++ [[97]]) ++ [[98]]) = Some (NDir es) /\ es <> []) /\
  get (root demo) ((cwd demo ++ []) ++ [[110]]) = None /\
  is_prefix ((cwd demo ++ [[97]]) ++ [[98]]) ((cwd demo ++ []) ++ [[110]]) = false /\
  snd (f_rename demo [97;47;98] [110] false) = true /\
  get (root (fst (f_rename demo [97;47;98] [110] false))) (cwd demo ++ [[110]; [103]]) = Some (NFile []) /\
  (exists t, get (root demo) ((cwd demo ++ [[97]]) ++ [[108]]) = Some (NLink t)) /\
  snd (f_rename demo [97;47;108] [97;47;98;47;109] true) = true /\
  f_rename demo [97;47;98] [110] true = (demo, false).
Proof.
  split; [eexists; split; [vm_compute; reflexivity|discriminate]|].
  split; [vm_compute; reflexivity|]. split; [vm_compute; reflexivity|]. split; [vm_compute; reflexivity|].
  split; [vm_compute; reflexivity|]. split; [eexists; vm_compute; reflexivity|]. split; vm_compute; reflexivity.
Qed.
Example ex_rename_missing_self : k_lstat demo [109] = None /\ f_rename demo [109] [109] true = (demo, false).
Proof. vm_compute. split; reflexivity. Qed.
Example ex_rename :
  let (st', ok) := f_rename demo [104] [97;47;108;47;110] true in       (* through the link, to the outside *)
  ok = true /\ get (root st') [G1; G2; G3; OUT; [115]; [110]] = Some (NFile [120;121]) /\
  sget (root st') (cwd demo ++ [[104]]) = None.
Proof. vm_compute. repeat split; reflexivity. Qed.

(* ---- round 3 -------------------------------------------------------------------------------------------- *)

(* static File::readAll(path, data): a text that leads (through links) to a regular file gives true
   and exactly the bytes of that file *)
Theorem read_all_of_path_returns_the_bytes : forall st path d nm c,
  resolve st true path = WAt d nm (Some SFile) -> get (root st) (d ++ [nm]) = Some (NFile c) ->
  snd (f_readAll_path st path) = (true, c).
Proof. exact readall_path_file. Qed.
Print Assumptions read_all_of_path_returns_the_bytes.

(* ... and true is said for nothing else: a directory (repair fixes/C19/10), a missing name, a
   dangling link report failure *)
Theorem read_all_of_path_true_only_for_files : forall st path c,
  snd (f_readAll_path st path) = (true, c) ->
  exists d nm, resolve st true path = WAt d nm (Some SFile) /\ get (root st) (d ++ [nm]) = Some (NFile c).
Proof. exact readall_path_true. Qed.
Print Assumptions read_all_of_path_true_only_for_files.

(* whatever it answers: the tree, the current directory and every open handle are as before *)
Theorem read_all_of_path_changes_nothing : forall st path, same_files st (fst (f_readAll_path st path)).
Proof. exact readall_path_keeps. Qed.
Print Assumptions read_all_of_path_changes_nothing.

Theorem exists_is_lstat : forall st path,
  f_exists st path = match resolve st false path with
                     | WAt _ _ (Some _) | WDir _ _ => true
                     | _ => false
                     end.
Proof. exact file_exists_is_lstat. Qed.
Print Assumptions exists_is_lstat.

Theorem exists_of_plain_names : forall st names c,
  names_ok (names ++ [c]) -> (exists es, get (root st) (cwd st ++ names) = Some (NDir es)) ->
  f_exists st (join (names ++ [c])) = is_some (sget (root st) ((cwd st ++ names) ++ [c])).
Proof. exact file_exists_plain. Qed.
Print Assumptions exists_of_plain_names.

Theorem unlinked_file_no_longer_exists : forall st names c st',
  names_ok (names ++ [c]) -> (exists es, get (root st) (cwd st ++ names) = Some (NDir es)) ->
  wf_node (root st) = true ->
  f_unlink st (join (names ++ [c])) = (st', true) ->
  f_exists st (join (names ++ [c])) = true /\ f_exists st' (join (names ++ [c])) = false.
Proof. exact unlink_then_not_exists. Qed.
Print Assumptions unlinked_file_no_longer_exists.

(* File::getAbsolutePath(p) = p when p is absolute, getCurrentDirectory() + '/' + p otherwise *)
Theorem absolute_path_is_absolute : forall c p, starts_with_sep c = true -> isAbsolutePath (getAbsolutePath c p) = true.
Proof. exact absolute_is_absolute. Qed.
Print Assumptions absolute_path_is_absolute.

Theorem absolute_path_keeps_absolute : forall c p, isAbsolutePath p = true -> getAbsolutePath c p = p.
Proof. exact absolute_keeps_absolute. Qed.
Print Assumptions absolute_path_keeps_absolute.

(* lexically (the reference of part A): resolved from anywhere, the answer is where the relative
   text leads from the place the current directory's text leads to *)
Theorem absolute_path_lexically_denotes : forall c p cw,
  starts_with_sep c = true -> isAbsolutePath p = false ->
  PathSpec.resolve cw (components (getAbsolutePath c p)) =
  PathSpec.resolve (PathSpec.resolve [] (components c)) (components p).
Proof. exact absolute_lexical. Qed.
Print Assumptions absolute_path_lexically_denotes.

(* for the kernel (links and all): the answer leads where the argument leads *)
Theorem absolute_path_denotes_the_same : forall st fl p,
  cwd_real st -> p <> [] -> resolve st fl (f_absolute st p) = resolve st fl p.
Proof. exact absolute_denotes. Qed.
Print Assumptions absolute_path_denotes_the_same.

(* Directory::change: true exactly when the text leads to a directory, which is then the current
   one; false changes nothing; the tree and the handles are never touched *)
Theorem change_of_directory : forall st dir st' b,
  d_change st dir = (st', b) ->
  root st' = root st /\ handles st' = handles st /\
  (b = false -> st' = st /\ dir_place st dir = None) /\
  (b = true -> dir_place st dir = Some (cwd st')).
Proof. exact change_spec. Qed.
Print Assumptions change_of_directory.

Theorem change_keeps_current_directory_real : forall st dir st',
  cwd_real st -> (exists es0, root st = NDir es0) -> d_change st dir = (st', true) -> cwd_real st'.
Proof. exact change_keeps_cwd_real. Qed.
Print Assumptions change_keeps_current_directory_real.

(* the wildcard matcher of the kernel model is the reference relation FsSpec.matches *)
Theorem wildcard_matcher_is_reference : forall p s, glob p s = true <-> matches p s.
Proof. exact glob_matches. Qed.
Print Assumptions wildcard_matcher_is_reference.

(* Directory::open on a text that leads to a directory, then read until it says false: exactly
   the reference listing (every entry the pattern selects, in directory order, with its type; "."
   and ".." left out), the object still open at its end *)
Theorem enumeration_yields_exactly_the_entries : forall st path pat only d es,
  dir_place st (open_text path) = Some d -> get (root st) d = Some (NDir es) -> wf_node (root st) = true ->
  exists dh, d_open st None path pat only = (Some dh, true) /\
             d_read_all (read_all_fuel (Some dh)) st (Some dh) = (Some (dh_done dh), listing st path pat only es) /\
             spec_list st path pat only = Some (listing st path pat only es).
Proof. exact enumeration_exact. Qed.
Print Assumptions enumeration_yields_exactly_the_entries.

Theorem enumeration_refuses_non_directories : forall st path pat only,
  dir_place st (open_text path) = None ->
  d_open st None path pat only = (None, false) /\ spec_list st path pat only = None.
Proof. exact enumeration_refused. Qed.
Print Assumptions enumeration_refuses_non_directories.

Theorem enumeration_object_protocol : forall st dh path pat only,
  d_open st (Some dh) path pat only = (Some dh, false) /\
  d_read st None = (None, None) /\
  d_read st (Some (dh_done dh)) = (Some (dh_done dh), None) /\
  d_close (Some dh) = None.
Proof. exact enumeration_protocol. Qed.
Print Assumptions enumeration_object_protocol.

(* what the reference listing is: its pairs come from entries of the directory ... *)
Theorem listed_entries_are_directory_entries : forall st path pat only es x,
  In x (listing st path pat only es) <-> exists n, In (fst x, n) es /\ listed st path pat only (fst x, n) = Some x.
Proof. exact listing_in. Qed.
Print Assumptions listed_entries_are_directory_entries.

(* ... no name twice ... *)
Theorem no_entry_listed_twice : forall st path pat only es,
  names_nodup (map fst es) = true -> NoDup (map fst (listing st path pat only es)).
Proof. exact listing_nodup. Qed.
Print Assumptions no_entry_listed_twice.

(* ... and without pattern and dirsOnly all of them *)
Theorem all_entries_listed_without_filter : forall st path es,
  map fst (listing st path [] false es) = map fst es.
Proof. exact listing_all. Qed.
Print Assumptions all_entries_listed_without_filter.

(* Directory::purge(path, true) on a real directory named by plain names: true, and the tree is
   the reference tree - the directory cut out, then, going up, every ancestor below the current
   directory that this has left empty *)
Theorem purge_removes_tree_and_empty_parents : forall st names c es fuel,
  Forall plain_name (names ++ [c]) ->
  get (root st) ((cwd st ++ names) ++ [c]) = Some (NDir es) ->
  wf_node (root st) = true -> (height (root st) <= fuel)%nat ->
  d_purge fuel st (join (names ++ [c])) true = (set_root st (purged (root st) (cwd st) names c), true).
Proof. exact purge_exact. Qed.
Print Assumptions purge_removes_tree_and_empty_parents.

(* the reference tree differs from the old one only inside the first name of the path: nothing
   outside it changes (contents included), the starting directory stays, nothing new appears, the
   directory itself is gone *)
Theorem purge_touches_only_below_first_name : forall r base names c,
  wf_node r = true ->
  let top := base ++ [hd c names] in
  let r' := purged r base names c in
  wf_node r' = true /\
  (forall q, is_prefix top q = false -> sget r' q = sget r q) /\
  (forall q, is_prefix top q = false -> is_prefix q top = false -> get r' q = get r q) /\
  (forall q, sget r' q = sget r q \/ sget r' q = None) /\
  (forall q, get r' (((base ++ names) ++ [c]) ++ q) = None).
Proof. exact purged_spec. Qed.
Print Assumptions purge_touches_only_below_first_name.

(* recursive Directory::unlink when any one of its system calls (rmdir, opendir, readdir, unlink)
   fails, or none: true only with the exact cut, false only when a call did fail, and in every case
   the tree afterwards is the old one minus removals inside that directory - nothing outside is
   touched, nothing new appears *)
Theorem unlink_with_failing_call_only_removes_inside : forall st names c es fuel o,
  names_ok (names ++ [c]) ->
  get (root st) ((cwd st ++ names) ++ [c]) = Some (NDir es) ->
  wf_node (root st) = true -> (height (root st) <= fuel)%nat ->
  exists st' b o', d_unlink_o fuel o st (join (names ++ [c])) true = (st', b, o') /\
    cwd st' = cwd st /\ handles st' = handles st /\
    (b = true -> st' = set_root st (upd (root st) ((cwd st ++ names) ++ [c]) None)) /\
    (b = false -> o <> None) /\
    wf_node (root st') = true /\
    (forall q, is_prefix ((cwd st ++ names) ++ [c]) q = false -> sget (root st') q = sget (root st) q) /\
    (forall q, is_prefix ((cwd st ++ names) ++ [c]) q = false -> is_prefix q ((cwd st ++ names) ++ [c]) = false ->
               get (root st') q = get (root st) q) /\
    (forall q, sget (root st') q = sget (root st) q \/ sget (root st') q = None).
Proof. exact unlink_with_fault. Qed.
Print Assumptions unlink_with_failing_call_only_removes_inside.

(* a first rmdir that fails for another reason than "not empty": false and nothing touched, for
   every path text *)
Theorem unlink_failing_first_call_changes_nothing : forall fuel st p r,
  d_unlink_o fuel (Some O) st p r = (st, false, None).
Proof. exact unlink_first_call_fails. Qed.
Print Assumptions unlink_failing_first_call_changes_nothing.

(* An armed fault that the operation does not reach (the oracle comes back as Some _: fewer calls were
   made than the position of the fault, no call failed) leaves the fault-free run, exactly - same tree,
   same answer - for every path text, recursive or not.  The property oracle of checks/C19.py rests on
   this: it asks for the fault-free outcome whenever the harness reports that the fault was not consumed,
   and for nothing that depends on the order of the calls otherwise. *)
Theorem unlink_fault_not_consumed_is_fault_free : forall fuel o st p r st' b n,
  d_unlink_o fuel o st p r = (st', b, Some n) -> d_unlink_o fuel None st p r = (st', b, None).
Proof. exact unlink_unconsumed_fault. Qed.
Print Assumptions unlink_fault_not_consumed_is_fault_free.

(* on the class of the unlink theorem: false is answered only when the fault was consumed, i.e. when a
   call of the operation did fail (with unlink_with_failing_call_only_removes_inside: a fault that is
   not consumed means true and the exact cut) *)
Theorem unlink_reports_failure_only_when_a_call_failed : forall st names c es fuel o st' o',
  names_ok (names ++ [c]) ->
  get (root st) ((cwd st ++ names) ++ [c]) = Some (NDir es) ->
  wf_node (root st) = true -> (height (root st) <= fuel)%nat ->
  d_unlink_o fuel o st (join (names ++ [c])) true = (st', false, o') ->
  o <> None /\ o' = None.
Proof. exact unlink_false_means_consumed. Qed.
Print Assumptions unlink_reports_failure_only_when_a_call_failed.

(* ---- non-vacuity for round 3 ---------------------------------------------------------------------------- *)

(* flush in a history: true, no byte and no cursor moves *)
Example ex_flush :
  let st1 := fst (f_open demo 0 [104] true true false true) in
  snd (h_run st1 0 [HSeek 1 0; HFlush; HWrite [65]; HFlush; HSeek 0 0; HReadAll])
  = [OInt 1; OBool true; OBool true; OBool true; OInt 0; OData true [120;65]].
Proof. vm_compute. reflexivity. Qed.

(* readAll("h") = "xy"; through the link a/l -> ../../out/s: readAll("a/l/k") = "K"; readAll("a"): false *)
Example ex_read_all_path :
  snd (f_readAll_path demo [104]) = (true, [120;121]) /\
  snd (f_readAll_path demo [97;47;108;47;107]) = (true, [75]) /\
  snd (f_readAll_path demo [97]) = (false, []) /\ snd (f_readAll_path demo [109]) = (false, []) /\
  root (fst (f_readAll_path demo [104])) = root demo.
Proof. vm_compute. repeat split; reflexivity. Qed.

(* a dangling link exists for File::exists, not for Directory::exists *)
Example ex_exists :
  let st1 := fst (f_symlink demo [110;111] [100;108]) in
  f_exists st1 [100;108] = true /\ d_exists st1 [100;108] = false /\ f_exists st1 [110;111] = false /\
  f_exists st1 [97;47;102] = true.
Proof. vm_compute. repeat split; reflexivity. Qed.

(* "a/f" from /g1/g2/g3/in *)
Example ex_absolute :
  cwd_real demo /\ f_absolute demo [97;47;102] = [47;103;49;47;103;50;47;103;51;47;105;110;47;97;47;102] /\
  resolve demo true (f_absolute demo [97;47;102]) = WAt (cwd demo ++ [[97]]) [102] (Some SFile).
Proof.
  assert (E : cwd demo = [G1; G2; G3; IN]) by (vm_compute; reflexivity).
  split; [unfold cwd_real; rewrite E; split; [repeat constructor|eexists; vm_compute; reflexivity]|].
  split; vm_compute; reflexivity.
Qed.

(* change to "a/l" (a link to ../../out/s): the current directory is out/s; "k" is then the file there *)
Example ex_change :
  let (st', b) := d_change demo [97;47;108] in
  b = true /\ cwd st' = [G1; G2; G3; OUT; [115]] /\ snd (f_readAll_path st' [107]) = (true, [75]) /\
  f_absolute st' [107] = [47;103;49;47;103;50;47;103;51;47;111;117;116;47;115;47;107].
Proof. vm_compute. repeat split; reflexivity. Qed.

(* listing "a": f (file), b (directory), l (a link that leads to the directory out/s); with
   dirsOnly only b; with the pattern "?" all three, with "b*" only b *)
Example ex_enumeration :
  (exists d es, dir_place demo (open_text [97]) = Some d /\ get (root demo) d = Some (NDir es) /\ length es = 3%nat) /\
  spec_list demo [97] [] false = Some [([102], false); ([98], true); ([108], true)] /\
  spec_list demo [97] [] true = Some [([98], true)] /\
  spec_list demo [97] [63] false = Some [([102], false); ([98], true); ([108], true)] /\
  spec_list demo [97] [98;42] false = Some [([98], true)] /\
  (let (cur, ok) := d_open demo None [97] [] false in
   ok = true /\ snd (d_read_all (read_all_fuel cur) demo cur) = [([102], false); ([98], true); ([108], true)]) /\
  spec_list demo [104] [] false = None.
Proof.
  split; [eexists; eexists; split; [vm_compute; reflexivity|split; vm_compute; reflexivity]|].
  vm_compute. repeat split; reflexivity.
Qed.

Example ex_wildcards :
  glob [42;46;116] [120;46;116] = true /\ glob [42;46;116] [120;46;117] = false /\ glob [63] [] = false /\
  glob [42] [46] = true /\ matches [97;42] [97;98;99].
Proof.
  split; [reflexivity|]. split; [reflexivity|]. split; [reflexivity|]. split; [reflexivity|].
  apply m_lit; try discriminate. apply m_star_more. apply m_star_more. apply m_star_none. apply m_nil.
Qed.

(* x/y/z, all empty: purge "x/y/z" takes x along; with x/keep in place x stays and x/y goes *)
Definition demo2 : state := fs_run demo [OpCreate [120;47;121;47;122]].
Example ex_purge :
  Forall plain_name ([[120]; [121]] ++ [[122]]) /\
  (exists es, get (root demo2) ((cwd demo2 ++ [[120]; [121]]) ++ [[122]]) = Some (NDir es)) /\
  (let (st', ok) := d_purge (unlink_fuel demo2) demo2 [120;47;121;47;122] true in
   ok = true /\ sget (root st') (cwd demo2 ++ [[120]]) = None /\ root st' = root demo) /\
  (let st3 := fs_run demo2 [OpMkfile [120;47;107] [1]] in
   let (st', ok) := d_purge (unlink_fuel st3) st3 [120;47;121;47;122] true in
   ok = true /\ sget (root st') (cwd demo2 ++ [[120]; [121]]) = None /\
   get (root st') (cwd demo2 ++ [[120]; [107]]) = Some (NFile [1])).
Proof.
  split; [repeat constructor|]. split; [eexists; vm_compute; reflexivity|].
  split; vm_compute; repeat split; reflexivity.
Qed.

(* unlink "a" with the 7th call failing (rmdir, opendir, three readdirs, unlink a/f, readdir): false; by then a/f is gone, a/b is still there, and the
   file behind the link a/l -> ../../out/s and in/h are untouched; with no failing call: true *)
Example ex_unlink_fault :
  (let '(st', ok, _) := d_unlink_o (unlink_fuel demo) (Some 6%nat) demo [97] true in
   ok = false /\ sget (root st') (cwd demo ++ [[97]; [102]]) = None /\
   sget (root st') (cwd demo ++ [[97]; [98]]) = Some SDir /\
   get (root st') [G1; G2; G3; OUT; [115]; [107]] = Some (NFile [75]) /\
   get (root st') (cwd demo ++ [[104]]) = Some (NFile [120;121])) /\
  (let '(st', ok, _) := d_unlink_o (unlink_fuel demo) None demo [97] true in
   ok = true /\ st' = fst (d_unlink (unlink_fuel demo) demo [97] true)).
Proof. vm_compute. repeat split; reflexivity. Qed.

(* unlink "a" with the 41st call armed: the operation makes fewer calls, the fault is not consumed (the oracle
   comes back as Some _), and the run is the fault-free one; with the 7th call armed the answer is false and the
   oracle comes back empty (hypotheses of the theorem: ex_unlink_hypotheses) *)
Example ex_unlink_fault_not_consumed :
  (let '(st', ok, o') := d_unlink_o (unlink_fuel demo) (Some 40%nat) demo [97] true in
   ok = true /\ o' <> None /\ (st', ok) = d_unlink (unlink_fuel demo) demo [97] true /\
   d_unlink_o (unlink_fuel demo) None demo [97] true = (st', ok, None)) /\
  (let '(_, ok, o') := d_unlink_o (unlink_fuel demo) (Some 6%nat) demo (join ([] ++ [[97]])) true in
   ok = false /\ o' = None).
Proof. vm_compute. repeat split; try reflexivity. discriminate. Qed.

(* the new operations keep every reachable tree well-formed as well *)
Example ex_reachable_round3 :
  wf_node (root (fs_run init_state [OpMkdir [97]; OpMkdir [97;47;98]; OpChdir [97]; OpPurge (Some 2%nat) [98] true;
                                     OpDUnlinkO (Some 1%nat) [98] true; OpReadAllPath [98]])) = true.
Proof. apply reachable_states_are_well_formed. Qed.
