(* One operation: the model refines the reference (string_refines_values for one step). *)
From Coq Require Import ZArith List Bool Arith Lia.
From Common Require Import ListAux.
From Str Require Import StrSpec StrModel StrLists StrInv StrPrims StrRefine StrFun.
Import ListNotations.

Definition refines_op (w : world) (o : op) : Prop :=
  exists w' r, exec w o = Ok (w', r) /\ Inv w' /\
               abs w' = fst (spec_exec (abs w) o) /\ r = snd (spec_exec (abs w) o).

Lemma fin_upd w o v X w' Y r :
  exec w o = Ok (w', r) -> v < length (vars w) -> upd_result w v X w' ->
  spec_exec (abs w) o = (setval (abs w) v Y, r) -> map cval X = Y -> refines_op w o.
Proof.
  intros E Hv R S M. exists w', r. split; [exact E|]. split; [apply R|]. rewrite S. cbn [fst snd].
  split; [|reflexivity]. rewrite (upd_result_abs w v X w' Hv R), M. reflexivity.
Qed.

Lemma fin_push w o h' X w' Y r :
  exec w o = Ok (w', r) -> Inv w' -> vars w' = vars w ++ [h'] -> regs w' = regs w -> keeps w w' -> h_cells w' h' = X ->
  spec_exec (abs w) o = (pushval (abs w) Y, r) -> map cval X = Y -> refines_op w o.
Proof.
  intros E I' EV ER K HX S M. exists w', r. split; [exact E|]. split; [exact I'|]. rewrite S. cbn [fst snd].
  split; [|reflexivity]. rewrite (push_abs w w' h' X EV ER K HX), M. reflexivity.
Qed.

Lemma fin_same w o w' r :
  exec w o = Ok (w', r) -> Inv w' -> abs w' = abs w -> spec_exec (abs w) o = (abs w, r) -> refines_op w o.
Proof.
  intros E I' A S. exists w', r. split; [exact E|]. split; [exact I'|]. rewrite S. cbn [fst snd]. auto.
Qed.

Lemma has_lt w v : has (abs w) v = true -> v < length (vars w).
Proof. intros H. destruct (has_nth _ _ H) as (h & Hh). eapply nth_error_lt; eauto. Qed.

Lemma valof_cells w v h : nth_error (vars w) v = Some h -> valof (abs w) v = map cval (h_cells w h).
Proof. intros H. rewrite (valof_abs _ _ _ H). apply h_value_cells. Qed.

Lemma setval_same w v : has (abs w) v = true -> setval (abs w) v (valof (abs w) v) = abs w.
Proof.
  intros H. destruct (has_nth _ _ H) as (h & Hh). unfold setval, abs. cbn [svals sregs]. f_equal.
  symmetry. apply upd_ext_nth; auto.
  - rewrite map_length. eapply nth_error_lt; eauto.
  - rewrite nth_error_map, Hh. cbn. f_equal. symmetry. apply (valof_abs _ _ _ Hh).
Qed.

Lemma map_cval_repeat c n : map cval (repeat (Some c) n) = repeat c n.
Proof. induction n; cbn; congruence. Qed.

Ltac split_pre :=
  repeat match goal with
         | H : _ && _ = true |- _ => apply andb_true_iff in H; destruct H
         end.

(* keeps when nothing but the variable list changed *)
Lemma keeps_same_heap w w' : heap w' = heap w -> regs w' = regs w -> keeps w w'.
Proof. intros EH ER x g _. apply h_cells_ext; auto. intros b _. rewrite EH. reflexivity. Qed.

Lemma keeps_regs_app w x : Inv w -> keeps w (mkworld (vars w) (heap w) (regs w ++ [x])).
Proof.
  intros I u g Hu. destruct g as [|r off len|b]; cbn; auto.
  pose proof (inv_view _ _ _ _ _ I Hu) as V.
  destruct (lt_dec r (length (regs w))).
  - rewrite app_nth1 by lia. reflexivity.
  - rewrite nth_overflow in V by lia. cbn in V. lia.
Qed.

(* ---- constructors ---- *)
Lemma ex_new w : Inv w -> refines_op w ONew.
Proof.
  intros I. apply (fin_push w ONew HEmpty [] (push_var w HEmpty) [] RNone); auto.
  - apply (inv_push w); [exact I|apply (inv_b w I)|constructor|intros b; unfold push_var; cbn [heap]; rewrite hind_empty; lia].
  - apply keeps_same_heap; reflexivity.
Qed.

Lemma ex_lit w l : Inv w -> refines_op w (OLit l).
Proof.
  intros I.
  set (w1 := mkworld (vars w) (heap w) (regs w ++ [l ++ [0%Z]])).
  assert (I1 : Inv w1) by (apply inv_regs_app; exact I).
  exists (mkworld (vars w ++ [HView (length (regs w)) 0 (length l)]) (heap w) (regs w ++ [l ++ [0%Z]])), RNone.
  split; [reflexivity|]. split.
  - apply (inv_push w1); [exact I1|apply (inv_b w I)| |intros b; subst w1; cbn [heap]; rewrite hind_view; lia].
    cbn. rewrite app_nth2, Nat.sub_diag by lia. cbn. rewrite app_length. cbn. lia.
  - cbn [spec_exec fst snd]. split; [|reflexivity]. unfold abs. cbn [vars regs svals sregs]. f_equal.
    rewrite map_app. cbn [map]. f_equal.
    + apply map_ext_in. intros g Hg. apply In_nth_error in Hg. destruct Hg as (x & Hx).
      rewrite !h_value_cells. f_equal.
      apply (keeps_regs_app w (l ++ [0%Z]) I x g Hx).
    + cbn. rewrite app_nth2, Nat.sub_diag by lia. cbn. unfold slice. cbn. rewrite firstn_app_exact. reflexivity.
Qed.

Lemma ex_reg w l : Inv w -> refines_op w (OReg l).
Proof.
  intros I. exists (mkworld (vars w) (heap w) (regs w ++ [l])), RNone.
  split; [reflexivity|]. split; [apply inv_regs_app; exact I|].
  cbn [spec_exec fst snd]. split; [|reflexivity]. unfold abs. cbn [vars regs svals sregs]. f_equal.
  apply map_ext_in. intros g Hg. apply In_nth_error in Hg. destruct Hg as (x & Hx).
  rewrite !h_value_cells. f_equal. apply (keeps_regs_app w l I x g Hx).
Qed.

Lemma ex_push_owned w o src cap Y :
  Inv w -> length src <= cap -> exec w o = ret (push_owned w src cap) RNone ->
  spec_exec (abs w) o = (pushval (abs w) Y, RNone) -> map cval src = Y -> refines_op w o.
Proof.
  intros I Hc E S M.
  destruct (push_owned_ok w src cap I Hc) as (w' & b & k & E' & I' & EV & ER & K & HC & _).
  rewrite E' in E. cbn in E.
  eapply fin_push; eauto.
Qed.

Lemma ex_buf w l : Inv w -> refines_op w (OBuf l).
Proof.
  intros I. apply (ex_push_owned w (OBuf l) (map Some l) (or3 (length l)) l); auto.
  - rewrite map_length. apply or3_ge.
  - apply map_cval_some.
Qed.

Lemma ex_fill w n c : Inv w -> refines_op w (OFill n c).
Proof.
  intros I. apply (ex_push_owned w (OFill n c) (repeat (Some c) n) (or3 n) (repeat c n)); auto.
  - rewrite repeat_length. apply or3_ge.
  - apply map_cval_repeat.
Qed.

Lemma ex_cap w n : Inv w -> refines_op w (OCap n).
Proof.
  intros I. apply (ex_push_owned w (OCap n) [] n []); auto. cbn. lia.
Qed.

Lemma ex_copy w u : Inv w -> pre (abs w) (OCopy u) = true -> refines_op w (OCopy u).
Proof.
  intros I P. cbn [pre] in P. destruct (has_nth _ _ P) as (h & Hh).
  destruct (push_copy_ok w u h I Hh) as (w' & h' & E & I' & EV & ER & K & HC & _).
  apply (fin_push w (OCopy u) h' (h_cells w h) w' (valof (abs w) u) RNone); auto.
  - cbn [exec]. rewrite E. reflexivity.
  - symmetry. apply valof_cells. exact Hh.
Qed.

Lemma ex_drop w : Inv w -> pre (abs w) ODrop = true -> refines_op w ODrop.
Proof.
  intros I P. cbn [pre] in P. unfold abs in P. cbn [svals] in P. rewrite map_length in P. apply Nat.ltb_lt in P.
  assert (NE : vars w <> []) by (destruct (vars w); cbn in *; [lia|congruence]).
  destruct (exists_last NE) as (l & h & EL).
  destruct (pop_var_ok w l h I EL) as (w' & E & I' & EV & ER & K).
  exists w', RNone. split; [cbn [exec]; rewrite E; reflexivity|]. split; [exact I'|].
  cbn [spec_exec fst snd]. split; [|reflexivity]. unfold abs. cbn [svals sregs]. rewrite EV, ER, EL. f_equal.
  rewrite map_app. cbn [map]. rewrite removelast_last.
  apply map_ext_in. intros g Hg. apply In_nth_error in Hg. destruct Hg as (x & Hx).
  rewrite !h_value_cells. f_equal. eapply K; eauto.
Qed.

(* ---- mutators of one variable ---- *)
Lemma ex_attach w v r off len : Inv w -> pre (abs w) (OAttach v r off len) = true -> refines_op w (OAttach v r off len).
Proof.
  intros I P. cbn [pre] in P. split_pre. destruct (has_nth _ _ H) as (h0 & Hh).
  match goal with H : (off + len <? _) = true |- _ => apply Nat.ltb_lt in H; rename H into HB end.
  unfold abs in HB. cbn [sregs] in HB.
  destruct (attach_ok w v h0 r off len I Hh HB) as (w' & E & I' & F' & Hv').
  apply (fin_upd w _ v (map Some (slice (nth r (regs w) []) off len)) w' (slice (nth r (regs w) []) off len) RNone).
  - cbn [exec]. rewrite E. reflexivity.
  - eapply nth_error_lt; eauto.
  - split; [exact I'|]. split; [exact F'|]. exists (HView r off len). split; [exact Hv'|].
    cbn. destruct F' as (_ & -> & _). reflexivity.
  - reflexivity.
  - apply map_cval_some.
Qed.

Lemma ex_assign w v u : Inv w -> pre (abs w) (OAssign v u) = true -> refines_op w (OAssign v u).
Proof.
  intros I P. cbn [pre] in P. split_pre.
  destruct (has_nth _ _ H) as (hv & Hv). destruct (has_nth _ _ H0) as (hu & Hu).
  destruct (assign_ok w v u hv hu I Hv Hu) as (w' & h' & E & I' & F' & Hv' & HC).
  apply (fin_upd w _ v (h_cells w hu) w' (valof (abs w) u) RNone).
  - cbn [exec]. rewrite E. reflexivity.
  - eapply nth_error_lt; eauto.
  - split; [exact I'|]. split; [exact F'|]. eauto.
  - reflexivity.
  - symmetry. apply valof_cells. exact Hu.
Qed.

Lemma ex_clear w v : Inv w -> pre (abs w) (OClear v) = true -> refines_op w (OClear v).
Proof.
  intros I P. cbn [pre] in P. destruct (has_nth _ _ P) as (h0 & Hh).
  destruct (clear_ok w v h0 I Hh) as (w' & h' & E & I' & F' & Hv' & HC).
  apply (fin_upd w _ v [] w' [] RNone).
  - cbn [exec]. rewrite E. reflexivity.
  - eapply nth_error_lt; eauto.
  - split; [exact I'|]. split; [exact F'|]. eauto.
  - reflexivity.
  - reflexivity.
Qed.

Lemma ex_detach w v : Inv w -> pre (abs w) (ODetach v) = true -> refines_op w (ODetach v).
Proof.
  intros I P. cbn [pre] in P. destruct (has_nth _ _ P) as (h0 & Hh).
  destruct (detach_keep_ok w v h0 _ I Hh (le_n _)) as (w' & b & k & E & R & _).
  apply (fin_same w _ w' RNone).
  - cbn [exec]. rewrite (var_len_ok _ _ _ I Hh). cbn [bind]. rewrite E. reflexivity.
  - apply R.
  - eapply upd_result_same_abs; eauto.
  - reflexivity.
Qed.

Lemma ex_reserve w v n : Inv w -> pre (abs w) (OReserve v n) = true -> refines_op w (OReserve v n).
Proof.
  intros I P. cbn [pre] in P. destruct (has_nth _ _ P) as (h0 & Hh).
  destruct (detach_keep_ok w v h0 (if n <? length (h_cells w h0) then length (h_cells w h0) else n) I Hh) as (w' & b & k & E & R & _).
  { destruct (n <? length (h_cells w h0)) eqn:G; [lia|apply Nat.ltb_ge in G; lia]. }
  apply (fin_same w _ w' RNone).
  - cbn [exec]. rewrite (var_len_ok _ _ _ I Hh). cbn [bind]. rewrite E. reflexivity.
  - apply R.
  - eapply upd_result_same_abs; eauto.
  - reflexivity.
Qed.

Lemma ex_resize w v n c : Inv w -> pre (abs w) (OResize v n c) = true -> refines_op w (OResize v n c).
Proof.
  intros I P. cbn [pre] in P. split_pre. destruct (has_nth _ _ H) as (h0 & Hh).
  destruct (resize_ok w v h0 n c I Hh) as (w' & E & R).
  eapply (fin_upd w _ v _ w' _ RNone).
  - cbn [exec]. rewrite E. reflexivity.
  - eapply nth_error_lt; eauto.
  - exact R.
  - reflexivity.
  - rewrite map_app, map_cval_repeat, <- firstn_map, (valof_cells _ _ _ Hh), map_length. reflexivity.
Qed.

Lemma ex_poke w v i c : Inv w -> pre (abs w) (OPoke v i c) = true -> refines_op w (OPoke v i c).
Proof.
  intros I P. cbn [pre] in P. split_pre. destruct (has_nth _ _ H) as (h0 & Hh).
  match goal with H : (i <? _) = true |- _ => apply Nat.ltb_lt in H; rename H into HB end.
  rewrite (valof_cells _ _ _ Hh), map_length in HB.
  destruct (poke_ok w v h0 i c I Hh HB) as (w' & E & R).
  eapply (fin_upd w _ v _ w' _ RNone).
  - cbn [exec]. rewrite E. reflexivity.
  - eapply nth_error_lt; eauto.
  - exact R.
  - reflexivity.
  - rewrite map_upd, (valof_cells _ _ _ Hh). reflexivity.
Qed.

Lemma ex_cstr w v : Inv w -> pre (abs w) (OCStr v) = true -> refines_op w (OCStr v).
Proof.
  intros I P. cbn [pre] in P. destruct (has_nth _ _ P) as (h0 & Hh).
  destruct (cstr_ok w v h0 I Hh) as (w1 & h' & E & I1 & F1 & Hv' & HC & T).
  assert (A : abs w1 = abs w).
  { apply (upd_result_same_abs w v h0); auto. split; [exact I1|]. split; [exact F1|]. eauto. }
  apply (fin_same w _ w1 (RCStr (valof (abs w) v) (Some 0%Z))); auto.
  cbn [exec]. rewrite E. cbn [bind].
  rewrite (var_bytes_ok _ _ _ I1 Hv'). cbn [bind]. rewrite (get_var_ok _ _ _ Hv'). cbn [bind].
  rewrite h_value_cells, map_length. unfold term_at in T. rewrite T. cbn [bind hd].
  rewrite HC, <- (valof_cells _ _ _ Hh). reflexivity.
Qed.

Lemma ex_append_s w v u : Inv w -> pre (abs w) (OAppendS v u) = true -> refines_op w (OAppendS v u).
Proof.
  intros I P. cbn [pre] in P. split_pre.
  destruct (has_nth _ _ H) as (hv & Hv). destruct (has_nth _ _ H0) as (hu & Hu).
  destruct (append_s_ok w v u hv hu I Hv Hu) as (w' & E & R).
  eapply (fin_upd w _ v _ w' _ RNone).
  - cbn [exec]. rewrite E. reflexivity.
  - eapply nth_error_lt; eauto.
  - exact R.
  - reflexivity.
  - rewrite map_app, (valof_cells _ _ _ Hv), (valof_cells _ _ _ Hu). reflexivity.
Qed.

Lemma ex_append_b w v l : Inv w -> pre (abs w) (OAppendB v l) = true -> refines_op w (OAppendB v l).
Proof.
  intros I P. cbn [pre] in P. split_pre. destruct (has_nth _ _ H) as (hv & Hv).
  destruct (append_cells_ok w v hv (map Some l) I Hv) as (w' & E & R).
  eapply (fin_upd w _ v _ w' _ RNone).
  - cbn [exec]. rewrite E. reflexivity.
  - eapply nth_error_lt; eauto.
  - exact R.
  - reflexivity.
  - rewrite map_app, map_cval_some, (valof_cells _ _ _ Hv). reflexivity.
Qed.

Lemma ex_append_c w v c : Inv w -> pre (abs w) (OAppendC v c) = true -> refines_op w (OAppendC v c).
Proof.
  intros I P. cbn [pre] in P. split_pre. destruct (has_nth _ _ H) as (hv & Hv).
  destruct (append_cells_ok w v hv [Some c] I Hv) as (w' & E & R).
  eapply (fin_upd w _ v _ w' _ RNone).
  - cbn [exec]. rewrite E. reflexivity.
  - eapply nth_error_lt; eauto.
  - exact R.
  - reflexivity.
  - rewrite map_app, (valof_cells _ _ _ Hv). reflexivity.
Qed.

Lemma ex_prepend_s w v u : Inv w -> pre (abs w) (OPrependS v u) = true -> refines_op w (OPrependS v u).
Proof.
  intros I P. cbn [pre] in P. split_pre.
  destruct (has_nth _ _ H) as (hv & Hv). destruct (has_nth _ _ H0) as (hu & Hu).
  destruct (prepend_s_ok w v u hv hu I Hv Hu) as (w' & E & R).
  eapply (fin_upd w _ v _ w' _ RNone).
  - cbn [exec]. rewrite E. reflexivity.
  - eapply nth_error_lt; eauto.
  - exact R.
  - reflexivity.
  - rewrite map_app, (valof_cells _ _ _ Hv), (valof_cells _ _ _ Hu). reflexivity.
Qed.

Lemma ex_prepend_b w v l : Inv w -> pre (abs w) (OPrependB v l) = true -> refines_op w (OPrependB v l).
Proof.
  intros I P. cbn [pre] in P. split_pre. destruct (has_nth _ _ H) as (hv & Hv).
  destruct (prepend_cells_ok w v hv (map Some l) I Hv) as (w' & E & R).
  eapply (fin_upd w _ v _ w' _ RNone).
  - cbn [exec]. rewrite E. reflexivity.
  - eapply nth_error_lt; eauto.
  - exact R.
  - reflexivity.
  - rewrite map_app, map_cval_some, (valof_cells _ _ _ Hv). reflexivity.
Qed.

Lemma ex_map_inplace w o v f g :
  Inv w -> has (abs w) v = true -> exec w o = ret (map_inplace w v f) RNone ->
  spec_exec (abs w) o = (setval (abs w) v (map g (valof (abs w) v)), RNone) ->
  f (-1)%Z = (-1)%Z -> (forall x, f x = g x) -> refines_op w o.
Proof.
  intros I Hv E S F1 FG. destruct (has_nth _ _ Hv) as (h0 & Hh).
  destruct (map_inplace_ok w v h0 f I Hh) as (w' & E' & R).
  eapply (fin_upd w o v _ w' _ RNone).
  - rewrite E, E'. reflexivity.
  - eapply nth_error_lt; eauto.
  - exact R.
  - exact S.
  - rewrite (map_cval_lift f _ F1), (valof_cells _ _ _ Hh). apply map_ext. exact FG.
Qed.

Lemma ex_replace_c w v a b : Inv w -> pre (abs w) (OReplaceC v a b) = true -> refines_op w (OReplaceC v a b).
Proof.
  intros I P. cbn [pre] in P. split_pre.
  eapply (ex_map_inplace w _ v); eauto; try reflexivity.
  cbn beta. unfold is_byte in *. destruct (-1 =? a)%Z eqn:E; [lia|reflexivity].
Qed.

Lemma ex_lower w v : Inv w -> pre (abs w) (OLower v) = true -> refines_op w (OLower v).
Proof.
  intros I P. cbn [pre] in P.
  eapply (ex_map_inplace w _ v lowt lower); eauto; try reflexivity. apply lowt_lower.
Qed.

Lemma ex_upper w v : Inv w -> pre (abs w) (OUpper v) = true -> refines_op w (OUpper v).
Proof.
  intros I P. cbn [pre] in P.
  eapply (ex_map_inplace w _ v uppt upper); eauto; try reflexivity. apply uppt_upper.
Qed.

Lemma ex_printf w v l : Inv w -> pre (abs w) (OPrintf v l) = true -> refines_op w (OPrintf v l).
Proof.
  intros I P. cbn [pre] in P. split_pre. destruct (has_nth _ _ H) as (h0 & Hh).
  destruct (printf_m_ok w v h0 (fun _ => Ok l) l I Hh) as (w' & E & R); [reflexivity|].
  eapply (fin_upd w _ v _ w' _ _).
  - cbn [exec]. exact E.
  - eapply nth_error_lt; eauto.
  - exact R.
  - reflexivity.
  - apply map_cval_some.
Qed.

(* ---- operations that first convert to the C-string view (a world with the same values) ---- *)
Lemma fin_upd_via w o w1 v X w' Y r :
  exec w o = Ok (w', r) -> abs w1 = abs w -> v < length (vars w1) -> upd_result w1 v X w' ->
  spec_exec (abs w) o = (setval (abs w) v Y, r) -> map cval X = Y -> refines_op w o.
Proof.
  intros E A Hv R S M. exists w', r. split; [exact E|]. split; [apply R|]. rewrite S. cbn [fst snd].
  split; [|reflexivity]. rewrite (upd_result_abs w1 v X w' Hv R), M, A. reflexivity.
Qed.

Lemma push_on w w1 src cap : Inv w1 -> abs w1 = abs w -> length src <= cap ->
  exists w', push_owned w1 src cap = Ok w' /\ Inv w' /\ abs w' = pushval (abs w) (map cval src).
Proof.
  intros I1 A Hc.
  destruct (push_owned_ok w1 src cap I1 Hc) as (w' & b & k & E' & I' & EV & ER & K & HC & _).
  exists w'. split; [exact E'|]. split; [exact I'|].
  rewrite (push_abs w1 w' (HBlock b) src EV ER K HC), A. reflexivity.
Qed.

Lemma has_via w w1 x : abs w1 = abs w -> has (abs w) x = true -> has (abs w1) x = true.
Proof. intros ->. auto. Qed.

Lemma ex_substr w v st ln : Inv w -> pre (abs w) (OSubstr v st ln) = true -> refines_op w (OSubstr v st ln).
Proof.
  intros I P. cbn [pre] in P.
  destruct (push_on w w (map Some (s_substr (valof (abs w) v) st ln)) (or3 (length (s_substr (valof (abs w) v) st ln))) I eq_refl)
    as (w' & E & I' & A); [rewrite map_length; apply or3_ge|].
  exists w', RNone. split.
  - cbn [exec]. rewrite (var_bytes_abs _ _ I P). cbn [bind]. unfold ret. rewrite E. reflexivity.
  - split; [exact I'|]. cbn [spec_exec fst snd]. rewrite A, map_cval_some. auto.
Qed.

Lemma ex_token_gen w w1 bs (P : list Z -> bool) start o :
  Inv w1 -> abs w1 = abs w ->
  spec_exec (abs w) o = (let (t, st') := s_token P bs start in (pushval (abs w) t, RInt (Z.of_nat st'))) ->
  forall res,
  res = (match (if length bs <=? start then None else find_first P (skipn start bs)) with
         | Some k => let r := s_substr bs (Z.of_nat start) (Z.of_nat k) in
                     ret (push_owned w1 (map Some r) (or3 (length r))) (RInt (Z.of_nat (start + k + 1)))
         | None => let r := s_substr bs (Z.of_nat start) (-1) in
                   ret (push_owned w1 (map Some r) (or3 (length r))) (RInt (Z.of_nat (length bs)))
         end) ->
  exists w' r, res = Ok (w', r) /\ Inv w' /\ abs w' = fst (spec_exec (abs w) o) /\ r = snd (spec_exec (abs w) o).
Proof.
  intros I1 A S res ->. rewrite S. rewrite <- (token_mirror P bs start).
  destruct (if length bs <=? start then None else find_first P (skipn start bs)) as [k|]; cbv zeta.
  - destruct (push_on w w1 (map Some (s_substr bs (Z.of_nat start) (Z.of_nat k))) (or3 (length (s_substr bs (Z.of_nat start) (Z.of_nat k)))) I1 A)
      as (w' & E & I' & A'); [rewrite map_length; apply or3_ge|].
    exists w', (RInt (Z.of_nat (start + k + 1))). unfold ret. rewrite E. cbn [bind fst snd].
    rewrite A', map_cval_some. auto.
  - destruct (push_on w w1 (map Some (s_substr bs (Z.of_nat start) (-1))) (or3 (length (s_substr bs (Z.of_nat start) (-1)))) I1 A)
      as (w' & E & I' & A'); [rewrite map_length; apply or3_ge|].
    exists w', (RInt (Z.of_nat (length bs))). unfold ret. rewrite E. cbn [bind fst snd].
    rewrite A', map_cval_some. auto.
Qed.

Lemma ex_tokc w v sep start : Inv w -> pre (abs w) (OTokenC v sep start) = true -> refines_op w (OTokenC v sep start).
Proof.
  intros I P. cbn [pre] in P. split_pre. unfold refines_op. cbn [exec].
  rewrite (var_len_abs _ _ I H). cbn [bind].
  set (bs := valof (abs w) v).
  assert (W1 : exists w1, (if length bs <=? start then Ok w else cstr w v) = Ok w1 /\ Inv w1 /\ abs w1 = abs w).
  { destruct (length bs <=? start); [exists w; auto|].
    destruct (cstr_abs w v I H) as (w1 & E1 & I1 & A1 & _). eauto. }
  destruct W1 as (w1 & E1 & I1 & A1). rewrite E1. cbn [bind].
  rewrite (var_bytes_abs _ _ I1 (has_via _ _ _ A1 H)), A1. cbn [bind]. fold bs.
  eapply (ex_token_gen w w1 bs (P_chr sep) start); eauto.
Qed.

Lemma ex_toks w v seps start : Inv w -> pre (abs w) (OTokenS v seps start) = true -> refines_op w (OTokenS v seps start).
Proof.
  intros I P. cbn [pre] in P. split_pre. unfold refines_op. cbn [exec].
  rewrite (var_len_abs _ _ I H). cbn [bind].
  set (bs := valof (abs w) v).
  destruct (cstr_abs w v I H) as (w1 & E1 & I1 & A1 & _). rewrite E1. cbn [bind].
  rewrite (var_bytes_abs _ _ I1 (has_via _ _ _ A1 H)), A1. cbn [bind]. fold bs.
  match goal with H : (start <=? _) = true |- _ => apply Nat.leb_le in H; rename H into HS end. fold bs in HS.
  eapply (ex_token_gen w w1 bs (P_any seps) start); eauto.
  unfold m_strpbrk.
  destruct (length bs <=? start) eqn:G; [|reflexivity].
  apply Nat.leb_le in G. assert (start = length bs) by lia. subst start.
  rewrite skipn_all. cbn. reflexivity.
Qed.

Lemma ex_split w v seps skip : Inv w -> pre (abs w) (OSplit v seps skip) = true -> refines_op w (OSplit v seps skip).
Proof.
  intros I P. cbn [pre] in P. split_pre.
  destruct (cstr_abs w v I H) as (w1 & E1 & I1 & A1 & _).
  apply (fin_same w _ w1 (RList (s_split seps (valof (abs w) v) skip))); auto.
  cbn [exec]. rewrite E1. cbn [bind].
  rewrite (var_bytes_abs _ _ I1 (has_via _ _ _ A1 H)), A1. cbn [bind].
  rewrite m_split_spec by lia. reflexivity.
Qed.

Lemma cbytes_nulfree l : cbytes l = true -> nulfree l = true.
Proof. unfold cbytes. intros H. apply andb_true_iff in H. tauto. Qed.

Lemma ex_trim w v chars : Inv w -> pre (abs w) (OTrim v chars) = true -> refines_op w (OTrim v chars).
Proof.
  intros I P. cbn [pre] in P. split_pre. destruct (has_nth _ _ H) as (hv & Hv).
  set (bs := valof (abs w) v) in *.
  assert (NF : nulfree chars = true) by (apply cbytes_nulfree; auto).
  pose proof (trim_mirror chars bs NF) as TM.
  assert (SAME : s_trim chars bs = bs -> refines_op w (OTrim v chars) \/ True) by auto.
  cbn [exec]. unfold refines_op. cbn [exec]. rewrite (var_bytes_abs _ _ I H). cbn [bind]. fold bs.
  assert (NOP : s_trim chars bs = bs ->
          exists w' r, Ok (w, RNone) = Ok (w', r) /\ Inv w' /\ abs w' = fst (spec_exec (abs w) (OTrim v chars)) /\
                       r = snd (spec_exec (abs w) (OTrim v chars))).
  { intros ST. exists w, RNone. split; [reflexivity|]. split; [exact I|]. cbn [spec_exec fst snd]. fold bs.
    rewrite ST. unfold bs. rewrite setval_same by exact H. auto. }
  destruct bs as [|b0 bt] eqn:EB.
  - apply NOP. reflexivity.
  - rewrite <- EB in *. destruct (m_trim_bounds chars bs) as (p, n) eqn:TB. cbn [fst snd] in TM.
    destruct (n =? length bs) eqn:G.
    + apply Nat.eqb_eq in G. apply NOP. rewrite <- TM.
      pose proof (trim_bounds_full chars bs) as TF. rewrite TB in TF. cbn [fst snd] in TF. rewrite (TF G), G.
      unfold slice. cbn [skipn]. apply firstn_all.
    + destruct (install_ok w v hv (slice bs p n) (or3 n) I Hv) as (w' & E & R).
      { unfold slice. rewrite firstn_length. pose proof (or3_ge n). lia. }
      unfold ret. rewrite E. cbn [bind]. exists w', RNone. split; [reflexivity|]. split; [apply R|].
      cbn [spec_exec fst snd]. split; [|reflexivity].
      rewrite (upd_result_abs w v _ w' (nth_error_lt _ _ _ Hv) R), map_cval_some, TM. reflexivity.
Qed.

Lemma length_0_nil {A} (l : list A) : length l = 0 -> l = [].
Proof. destruct l; cbn; [auto|lia]. Qed.

Lemma ex_replace_s w v n r : Inv w -> pre (abs w) (OReplaceS v n r) = true -> refines_op w (OReplaceS v n r).
Proof.
  intros I P. cbn [pre] in P. split_pre.
  unfold refines_op. cbn [exec]. rewrite (var_len_abs _ _ I H3). cbn [bind].
  set (hay := valof (abs w) v). set (nee := valof (abs w) n). set (rep := valof (abs w) r).
  assert (NOP : s_replace nee rep hay = hay -> forall w2, Inv w2 -> abs w2 = abs w ->
          exists w' r0, Ok (w2, RNone) = Ok (w', r0) /\ Inv w' /\ abs w' = fst (spec_exec (abs w) (OReplaceS v n r)) /\
                        r0 = snd (spec_exec (abs w) (OReplaceS v n r))).
  { intros ST w2 I2 A2. exists w2, RNone. split; [reflexivity|]. split; [exact I2|]. cbn [spec_exec fst snd].
    fold hay nee rep. rewrite ST. unfold hay. rewrite setval_same by exact H. auto. }
  destruct (length nee =? 0) eqn:G.
  - apply Nat.eqb_eq in G. apply length_0_nil in G. apply NOP; auto. rewrite G. reflexivity.
  - apply Nat.eqb_neq in G. assert (NE : nee <> []) by (intros X; rewrite X in G; cbn in G; lia).
    destruct (cstr_abs w v I H) as (w1 & E1 & I1 & A1 & _). rewrite E1. cbn [bind].
    destruct (cstr_abs w1 n I1 (has_via _ _ _ A1 H3)) as (w2 & E2 & I2 & A2 & _). rewrite E2. cbn [bind].
    assert (A : abs w2 = abs w) by congruence.
    rewrite !(var_bytes_abs _ _ I2) by (apply (has_via _ _ _ A); assumption). cbn [bind]. rewrite A.
    fold hay nee rep. unfold m_strstr.
    destruct (find_first (P_sub nee) hay) as [k|] eqn:F.
    + destruct (s_replace_loop nee rep hay (length hay + length rep * 10) NE) as (RL1 & RL2).
      destruct (m_replace_loop (S (length hay)) nee rep hay [] (length hay + length rep * 10)) as (bs, cap) eqn:ML.
      cbn [fst snd] in RL1, RL2.
      destruct (has_nth _ _ (has_via _ _ _ A H)) as (hv2 & Hv2).
      destruct (install_ok w2 v hv2 bs cap I2 Hv2 RL2) as (w' & E & R).
      unfold ret. rewrite E. cbn [bind]. exists w', RNone. split; [reflexivity|]. split; [apply R|].
      cbn [spec_exec fst snd]. split; [|reflexivity]. fold hay nee rep.
      rewrite (upd_result_abs w2 v _ w' (nth_error_lt _ _ _ Hv2) R), map_cval_some, RL1, A. reflexivity.
    + apply NOP; auto. apply s_replace_nomatch; auto.
Qed.

(* ---- queries ---- *)
Lemma cstr2_abs w v u : Inv w -> has (abs w) v = true -> has (abs w) u = true ->
  exists w1 w2, cstr w v = Ok w1 /\ cstr w1 u = Ok w2 /\ Inv w2 /\ abs w2 = abs w.
Proof.
  intros I Hv Hu.
  destruct (cstr_abs w v I Hv) as (w1 & E1 & I1 & A1 & _).
  destruct (cstr_abs w1 u I1 (has_via _ _ _ A1 Hu)) as (w2 & E2 & I2 & A2 & _).
  exists w1, w2. split; [exact E1|]. split; [exact E2|]. split; [exact I2|]. congruence.
Qed.

Ltac two_views w v u I :=
  let w1 := fresh "w1" in let w2 := fresh "w2" in
  let E1 := fresh "E1" in let E2 := fresh "E2" in let I2 := fresh "I2" in let A := fresh "A" in
  destruct (cstr2_abs w v u I ltac:(assumption) ltac:(assumption)) as (w1 & w2 & E1 & E2 & I2 & A);
  cbn [exec]; rewrite E1; cbn [bind]; rewrite E2; cbn [bind];
  rewrite !(var_bytes_abs _ _ I2) by (apply (has_via _ _ _ A); assumption); cbn [bind]; rewrite A.

Lemma ex_eq w v u : Inv w -> pre (abs w) (OEq v u) = true -> refines_op w (OEq v u).
Proof.
  intros I P. cbn [pre] in P. split_pre.
  apply (fin_same w _ w (RInt (b2z (list_eqb (valof (abs w) v) (valof (abs w) u))))); auto.
  cbn [exec]. rewrite !(var_bytes_abs _ _ I) by assumption. cbn [bind]. rewrite eq_mirror. reflexivity.
Qed.

Lemma ex_compare w v u : Inv w -> pre (abs w) (OCompare v u) = true -> refines_op w (OCompare v u).
Proof.
  intros I P. cbn [pre] in P. split_pre.
  apply (fin_same w _ w (RInt (lexcmp (valof (abs w) v) (valof (abs w) u)))); auto.
  cbn [exec]. rewrite !(var_bytes_abs _ _ I) by assumption. cbn [bind]. rewrite m_cmp_spec. reflexivity.
Qed.

Lemma ex_compare_n w v u n : Inv w -> pre (abs w) (OCompareN v u n) = true -> refines_op w (OCompareN v u n).
Proof.
  intros I P. cbn [pre] in P. split_pre.
  apply (fin_same w _ w (RInt (lexcmp (firstn n (valof (abs w) v)) (firstn n (valof (abs w) u))))); auto.
  cbn [exec]. rewrite !(var_bytes_abs _ _ I) by assumption. cbn [bind]. rewrite m_cmp_spec. reflexivity.
Qed.

Lemma ex_compare_ic w v u : Inv w -> pre (abs w) (OCompareIC v u) = true -> refines_op w (OCompareIC v u).
Proof.
  intros I P. cbn [pre] in P. split_pre.
  apply (fin_same w _ w (RInt (lexcmp (map lower (valof (abs w) v)) (map lower (valof (abs w) u))))); auto.
  cbn [exec]. rewrite !(var_bytes_abs _ _ I) by assumption. cbn [bind]. rewrite m_cmp_spec, !map_lowt. reflexivity.
Qed.

Lemma ex_compare_icn w v u n : Inv w -> pre (abs w) (OCompareICN v u n) = true -> refines_op w (OCompareICN v u n).
Proof.
  intros I P. cbn [pre] in P. split_pre.
  apply (fin_same w _ w (RInt (lexcmp (map lower (firstn n (valof (abs w) v))) (map lower (firstn n (valof (abs w) u)))))); auto.
  cbn [exec]. rewrite !(var_bytes_abs _ _ I) by assumption. cbn [bind]. rewrite m_cmp_spec, !map_lowt. reflexivity.
Qed.

Lemma ex_equals_ic w v u : Inv w -> pre (abs w) (OEqualsIC v u) = true -> refines_op w (OEqualsIC v u).
Proof.
  intros I P. cbn [pre] in P. split_pre.
  apply (fin_same w _ w (RInt (b2z (list_eqb (map lower (valof (abs w) v)) (map lower (valof (abs w) u)))))); auto.
  cbn [exec]. rewrite !(var_bytes_abs _ _ I) by assumption. cbn [bind].
  rewrite m_cmp_eqb, !map_lowt.
  rewrite <- (map_length lower (valof (abs w) v)), <- (map_length lower (valof (abs w) u)), list_eqb_len. reflexivity.
Qed.

Lemma ex_find_c w v c : Inv w -> pre (abs w) (OFindC v c) = true -> refines_op w (OFindC v c).
Proof.
  intros I P. cbn [pre] in P. split_pre.
  apply (fin_same w _ w (RInt (oidx (find_first (P_chr c) (valof (abs w) v))))); auto.
  cbn [exec]. rewrite (var_bytes_abs _ _ I H). cbn [bind]. rewrite m_find_c_spec.
  destruct (find_first (P_chr c) (valof (abs w) v)); reflexivity.
Qed.

Lemma ex_findlast_c w v c : Inv w -> pre (abs w) (OFindLastC v c) = true -> refines_op w (OFindLastC v c).
Proof.
  intros I P. cbn [pre] in P. split_pre.
  apply (fin_same w _ w (RInt (oidx (find_last (P_chr c) (valof (abs w) v))))); auto.
  cbn [exec]. rewrite (var_bytes_abs _ _ I H). cbn [bind]. rewrite m_findlast_c_spec.
  destruct (find_last (P_chr c) (valof (abs w) v)); reflexivity.
Qed.

(* find(c, start) / findOneOf(chars, start): the view is only taken when start < len; nothing of that kind is
   found in the empty suffix at start = len *)
Lemma ex_find_from w v (P : list Z -> bool) start o :
  Inv w -> has (abs w) v = true -> P [] = false ->
  spec_exec (abs w) o = (abs w, RInt (find_from P (valof (abs w) v) start)) ->
  exec w o = (do n <- var_len w v;
              if n <=? start then Ok (w, RInt (-1)%Z) else
              do w1 <- cstr w v; do a <- var_bytes w1 v;
              Ok (w1, RInt (match find_first P (skipn start a) with Some k => Z.of_nat (start + k) | None => (-1)%Z end))) ->
  refines_op w o.
Proof.
  intros I H PN S E. unfold refines_op. rewrite E, S. cbn [fst snd].
  rewrite (var_len_abs _ _ I H). cbn [bind]. unfold find_from.
  destruct (length (valof (abs w) v) <=? start) eqn:G.
  - exists w, (RInt (-1)%Z). split; [reflexivity|]. split; [exact I|]. split; [reflexivity|].
    apply Nat.leb_le in G. destruct (length (valof (abs w) v) <? start) eqn:G2; [reflexivity|].
    apply Nat.ltb_ge in G2. rewrite skipn_all2 by lia. cbn [find_first]. rewrite PN. reflexivity.
  - apply Nat.leb_gt in G. destruct (length (valof (abs w) v) <? start) eqn:G2; [apply Nat.ltb_lt in G2; lia|].
    destruct (cstr_abs w v I H) as (w1 & E1 & I1 & A1 & _). rewrite E1. cbn [bind].
    rewrite (var_bytes_abs _ _ I1 (has_via _ _ _ A1 H)), A1. cbn [bind].
    eexists _, _. split; [reflexivity|]. auto.
Qed.

(* find(str, start), repaired: refused only when start > len; at start = len strstr runs on the terminator *)
Lemma ex_find_from_le w v (P : list Z -> bool) start o :
  Inv w -> has (abs w) v = true ->
  spec_exec (abs w) o = (abs w, RInt (find_from P (valof (abs w) v) start)) ->
  exec w o = (do n <- var_len w v;
              if n <? start then Ok (w, RInt (-1)%Z) else
              do w1 <- cstr w v; do a <- var_bytes w1 v;
              Ok (w1, RInt (match find_first P (skipn start a) with Some k => Z.of_nat (start + k) | None => (-1)%Z end))) ->
  refines_op w o.
Proof.
  intros I H S E. unfold refines_op. rewrite E, S. cbn [fst snd].
  rewrite (var_len_abs _ _ I H). cbn [bind]. unfold find_from.
  destruct (length (valof (abs w) v) <? start) eqn:G.
  - exists w, (RInt (-1)%Z). auto.
  - destruct (cstr_abs w v I H) as (w1 & E1 & I1 & A1 & _). rewrite E1. cbn [bind].
    rewrite (var_bytes_abs _ _ I1 (has_via _ _ _ A1 H)), A1. cbn [bind].
    eexists _, _. split; [reflexivity|]. auto.
Qed.

Lemma ex_find_c_from w v c start : Inv w -> pre (abs w) (OFindCFrom v c start) = true -> refines_op w (OFindCFrom v c start).
Proof.
  intros I P. cbn [pre] in P. split_pre. eapply (ex_find_from w v (P_chr c) start); eauto; reflexivity.
Qed.

Lemma ex_find_s_from w v l start : Inv w -> pre (abs w) (OFindSFrom v l start) = true -> refines_op w (OFindSFrom v l start).
Proof.
  intros I P. cbn [pre] in P. split_pre. eapply (ex_find_from_le w v (P_sub l) start); eauto; reflexivity.
Qed.

Lemma ex_find_oneof_from w v l start : Inv w -> pre (abs w) (OFindOneOfFrom v l start) = true -> refines_op w (OFindOneOfFrom v l start).
Proof.
  intros I P. cbn [pre] in P. split_pre. eapply (ex_find_from w v (P_any l) start); eauto; reflexivity.
Qed.

(* find(str), findOneOf(chars), findLast(str), findLastOf(chars) on the view *)
Lemma ex_find_view w v o (f : list Z -> Z) :
  Inv w -> has (abs w) v = true ->
  spec_exec (abs w) o = (abs w, RInt (f (valof (abs w) v))) ->
  exec w o = (do w1 <- cstr w v; do a <- var_bytes w1 v; Ok (w1, RInt (f a))) ->
  refines_op w o.
Proof.
  intros I H S E. unfold refines_op. rewrite E, S. cbn [fst snd].
  destruct (cstr_abs w v I H) as (w1 & E1 & I1 & A1 & _). rewrite E1. cbn [bind].
  rewrite (var_bytes_abs _ _ I1 (has_via _ _ _ A1 H)), A1. cbn [bind].
  eexists _, _. split; [reflexivity|]. auto.
Qed.

Lemma ex_find_s w v l : Inv w -> pre (abs w) (OFindS v l) = true -> refines_op w (OFindS v l).
Proof.
  intros I P. cbn [pre] in P. split_pre.
  eapply (ex_find_view w v _ (fun a => oidx (find_first (P_sub l) a))); eauto; reflexivity.
Qed.

Lemma ex_find_oneof w v l : Inv w -> pre (abs w) (OFindOneOf v l) = true -> refines_op w (OFindOneOf v l).
Proof.
  intros I P. cbn [pre] in P. split_pre.
  eapply (ex_find_view w v _ (fun a => oidx (find_first (P_any l) a))); eauto; reflexivity.
Qed.

Lemma findlast_loop_oidx P a : m_findlast_loop (S (S (length a))) P a 0 (-1)%Z = oidx (find_last P a).
Proof.
  rewrite m_findlast_loop_spec by lia. destruct (find_last P a); reflexivity.
Qed.

Lemma ex_findlast_s w v l : Inv w -> pre (abs w) (OFindLastS v l) = true -> refines_op w (OFindLastS v l).
Proof.
  intros I P. cbn [pre] in P. split_pre.
  assert (E : exec w (OFindLastS v l) =
              (do w1 <- cstr w v; do a <- var_bytes w1 v; Ok (w1, RInt (oidx (find_last (P_sub l) a))))).
  { cbn [exec]. destruct (cstr w v); cbn [bind]; auto. destruct (var_bytes a v); cbn [bind]; auto.
    rewrite findlast_loop_oidx. reflexivity. }
  apply (ex_find_view w v _ (fun a => oidx (find_last (P_sub l) a)) I); auto.
Qed.

Lemma ex_findlast_of w v l : Inv w -> pre (abs w) (OFindLastOf v l) = true -> refines_op w (OFindLastOf v l).
Proof.
  intros I P. cbn [pre] in P. split_pre.
  assert (E : exec w (OFindLastOf v l) =
              (do w1 <- cstr w v; do a <- var_bytes w1 v; Ok (w1, RInt (oidx (find_last (P_any l) a))))).
  { cbn [exec]. destruct (cstr w v); cbn [bind]; auto. destruct (var_bytes a v); cbn [bind]; auto.
    rewrite findlast_loop_oidx. reflexivity. }
  apply (ex_find_view w v _ (fun a => oidx (find_last (P_any l) a)) I); auto.
Qed.

Lemma ex_starts w v u : Inv w -> pre (abs w) (OStartsWith v u) = true -> refines_op w (OStartsWith v u).
Proof.
  intros I P. cbn [pre] in P. split_pre.
  apply (fin_same w _ w (RInt (b2z (is_prefix (valof (abs w) u) (valof (abs w) v))))); auto.
  cbn [exec]. rewrite !(var_bytes_abs _ _ I) by assumption. cbn [bind]. rewrite is_prefix_firstn. reflexivity.
Qed.

Lemma ex_ends w v u : Inv w -> pre (abs w) (OEndsWith v u) = true -> refines_op w (OEndsWith v u).
Proof.
  intros I P. cbn [pre] in P. split_pre.
  apply (fin_same w _ w (RInt (b2z (is_prefix (rev (valof (abs w) u)) (rev (valof (abs w) v)))))); auto.
  cbn [exec]. rewrite !(var_bytes_abs _ _ I) by assumption. cbn [bind]. rewrite ends_mirror. reflexivity.
Qed.

Lemma ex_len w v : Inv w -> pre (abs w) (OLen v) = true -> refines_op w (OLen v).
Proof.
  intros I P. cbn [pre] in P.
  apply (fin_same w _ w (RInt (Z.of_nat (length (valof (abs w) v))))); auto.
  cbn [exec]. rewrite (var_len_abs _ _ I P). reflexivity.
Qed.

(* ---- arguments that point into the own text ---- *)
Lemma map_slice {A B} (f : A -> B) l off n : map f (slice l off n) = slice (map f l) off n.
Proof. unfold slice. rewrite <- firstn_map, <- skipn_map. reflexivity. Qed.

Lemma ex_append_own w v off len : Inv w -> pre (abs w) (OAppendOwn v off len) = true -> refines_op w (OAppendOwn v off len).
Proof.
  intros I P. cbn [pre] in P. split_pre.
  match goal with H : (off + len <=? _) = true |- _ => apply Nat.leb_le in H; rename H into HB end.
  destruct (cstr_abs w v I H) as (w1 & E1 & I1 & A1 & _).
  destruct (has_nth _ _ (has_via _ _ _ A1 H)) as (h1 & Hh1).
  rewrite <- A1, (valof_cells _ _ _ Hh1), map_length in HB.
  destruct (append_own_ok w1 v h1 off len I1 Hh1 HB) as (w' & E & R).
  eapply (fin_upd_via w _ w1 v _ w' _ RNone).
  - cbn [exec]. rewrite E1. cbn [bind]. rewrite E. reflexivity.
  - exact A1.
  - eapply nth_error_lt; eauto.
  - exact R.
  - reflexivity.
  - rewrite map_app, map_slice, <- A1, (valof_cells _ _ _ Hh1). reflexivity.
Qed.

Lemma ex_prepend_own w v off len : Inv w -> pre (abs w) (OPrependOwn v off len) = true -> refines_op w (OPrependOwn v off len).
Proof.
  intros I P. cbn [pre] in P. split_pre.
  match goal with H : (off + len <=? _) = true |- _ => apply Nat.leb_le in H; rename H into HB end.
  destruct (cstr_abs w v I H) as (w1 & E1 & I1 & A1 & _).
  destruct (has_nth _ _ (has_via _ _ _ A1 H)) as (h1 & Hh1).
  rewrite <- A1, (valof_cells _ _ _ Hh1), map_length in HB.
  destruct (prepend_own_ok w1 v h1 off len I1 Hh1 HB) as (w' & E & R).
  eapply (fin_upd_via w _ w1 v _ w' _ RNone).
  - cbn [exec]. rewrite E1. cbn [bind]. rewrite E. reflexivity.
  - exact A1.
  - eapply nth_error_lt; eauto.
  - exact R.
  - reflexivity.
  - rewrite map_app, map_slice, <- A1, (valof_cells _ _ _ Hh1). reflexivity.
Qed.

Lemma ex_printf_self w v a b : Inv w -> pre (abs w) (OPrintfSelf v a b) = true -> refines_op w (OPrintfSelf v a b).
Proof.
  intros I P. cbn [pre] in P. split_pre.
  destruct (cstr_abs w v I H) as (w1 & E1 & I1 & A1 & _).
  destruct (has_nth _ _ (has_via _ _ _ A1 H)) as (h1 & Hh1).
  destruct (printf_m_ok w1 v h1
              (fun w' => do cs <- d_read w' h1 0 (length (h_cells w1 h1)); Ok (a ++ map cval cs ++ b))
              (a ++ valof (abs w) v ++ b) I1 Hh1) as (w' & E & R).
  { intros w' (_ & RD). rewrite RD. cbn [bind]. rewrite <- A1, (valof_cells _ _ _ Hh1). reflexivity. }
  eapply (fin_upd_via w _ w1 v _ w' _ _).
  - cbn [exec]. rewrite E1. cbn [bind]. rewrite (get_var_ok _ _ _ Hh1). cbn [bind].
    rewrite (d_len_ok _ _ _ I1 Hh1). cbn [bind]. exact E.
  - exact A1.
  - eapply nth_error_lt; eauto.
  - exact R.
  - reflexivity.
  - apply map_cval_some.
Qed.

(* ---- literal ==, split into a set, fromPrintf, the static helpers ---- *)
Lemma ex_eq_lit w v l : Inv w -> pre (abs w) (OEqLit v l) = true -> refines_op w (OEqLit v l).
Proof.
  intros I P. cbn [pre] in P. split_pre.
  apply (fin_same w _ w (RInt (b2z (list_eqb (valof (abs w) v) l)))); auto.
  cbn [exec]. rewrite (var_bytes_abs _ _ I H). cbn [bind]. rewrite eq_mirror. reflexivity.
Qed.

Lemma ex_split_set w v seps skip : Inv w -> pre (abs w) (OSplitSet v seps skip) = true -> refines_op w (OSplitSet v seps skip).
Proof.
  intros I P. cbn [pre] in P. split_pre.
  destruct (cstr_abs w v I H) as (w1 & E1 & I1 & A1 & _).
  apply (fin_same w _ w1 (RList (set_of (s_split seps (valof (abs w) v) skip)))); auto.
  cbn [exec]. rewrite E1. cbn [bind].
  rewrite (var_bytes_abs _ _ I1 (has_via _ _ _ A1 H)), A1. cbn [bind].
  rewrite m_split_spec by lia. reflexivity.
Qed.

Lemma ex_stat w q v u : Inv w -> pre (abs w) (OStat q v u) = true -> refines_op w (OStat q v u).
Proof.
  intros I P. cbn [pre] in P. apply andb_true_iff in P. destruct P as (P & Q). apply andb_true_iff in P. destruct P as (Hv & Hu).
  apply (fin_same w _ w (RInt (s_stat q (valof (abs w) v) (valof (abs w) u)))); auto.
  cbn [exec]. rewrite !(var_bytes_abs _ _ I) by assumption. cbn [bind]. rewrite stat_mirror; [reflexivity|].
  destruct q; auto; split_pre; auto.
Qed.

Lemma upd_last {A} (l : list A) x y : upd (length l) y (l ++ [x]) = l ++ [y].
Proof. induction l as [|h t IH]; cbn; auto. rewrite IH. reflexivity. Qed.

(* a variable pushed at the end and then written through: the world is the old one plus that variable *)
Lemma push_frame_fin w w1 h1 w' h' :
  vars w1 = vars w ++ [h1] -> regs w1 = regs w -> keeps w w1 ->
  frame w1 w' (length (vars w)) -> nth_error (vars w') (length (vars w)) = Some h' ->
  vars w' = vars w ++ [h'] /\ regs w' = regs w /\ keeps w w'.
Proof.
  intros EV ER K F Hh. pose proof F as (FL & FR & FF). split; [|split].
  - rewrite (frame_vars w1 w' _ h' F); [|rewrite EV, app_length; cbn; lia|exact Hh].
    rewrite EV. apply upd_last.
  - congruence.
  - intros x g Hx.
    assert (Hx1 : nth_error (vars w1) x = Some g) by (rewrite EV, nth_error_app1; auto; eapply nth_error_lt; eauto).
    assert (Hn : x <> length (vars w)) by (apply nth_error_lt in Hx; lia).
    destruct (FF x g Hn Hx1) as (_ & C). rewrite C. eapply K; eauto.
Qed.

Lemma ex_from_printf w l : Inv w -> pre (abs w) (OFromPrintf l) = true -> refines_op w (OFromPrintf l).
Proof.
  intros I P. cbn [pre] in P.
  set (t := length (vars w)).
  destruct (push_owned_ok w [] 200 I) as (w1 & b & k & E1 & I1 & EV1 & ER1 & K1 & HC1 & O1 & CP1); [cbn; lia|].
  fold t in O1.
  destruct (block_ok_in _ _ _ I1 (proj1 (proj2 O1))) as (B1 & B2).
  assert (FIN : forall w' h', Inv w' -> frame w1 w' t -> nth_error (vars w') t = Some h' -> h_cells w' h' = map Some l ->
                forall E : exec w (OFromPrintf l) = Ok (w', RNone), refines_op w (OFromPrintf l)).
  { intros w' h' I' F' Hh HC E.
    destruct (push_frame_fin w w1 (HBlock b) w' h' EV1 ER1 K1 F' Hh) as (EV & ER & K).
    apply (fin_push w _ h' (map Some l) w' l RNone); auto. apply map_cval_some. }
  destruct (length l <? 200) eqn:G.
  - apply Nat.ltb_lt in G.
    destruct (v_write_ok w1 t b k 0 (map Some l ++ [Some 0%Z]) I1 O1) as (w2 & k2 & E2 & I2 & F2 & O2 & C2 & L2 & P2);
      [rewrite app_length, map_length; cbn; lia|].
    destruct (v_setlen_ok w2 t b k2 (length l) I2 O2) as (w3 & k3 & E3 & I3 & F3 & O3 & C3 & L3 & P3); [lia|].
    apply (FIN w3 (HBlock b) I3).
    + eapply frame_trans; eauto.
    + apply O3.
    + rewrite (owned_cells _ _ _ _ O3), L3, C3, C2. apply firstn_term_prefix.
    + cbn [exec]. fold t. rewrite E1. cbn [bind]. replace (length l <? 200) with true by (symmetry; apply Nat.ltb_lt; exact G).
      rewrite E2. cbn [bind]. unfold ret. rewrite E3. reflexivity.
  - apply Nat.ltb_ge in G.
    destruct (v_write_ok w1 t b k 0 (map Some (firstn 199 l) ++ [Some 0%Z]) I1 O1) as (w2 & k2 & E2 & I2 & F2 & O2 & C2 & L2 & P2);
      [rewrite app_length, map_length, firstn_length; cbn [length]; lia|].
    destruct (detach_ok w2 t (HBlock b) 0 (length l) I2 (proj1 O2)) as (w3 & b3 & k3 & E3 & I3 & F3 & O3 & L3 & C3 & _); [lia|].
    destruct (block_ok_in _ _ _ I3 (proj1 (proj2 O3))) as (B3 & B4).
    destruct (v_write_ok w3 t b3 k3 0 (map Some l ++ [Some 0%Z]) I3 O3) as (w4 & k4 & E4 & I4 & F4 & O4 & C4 & L4 & P4);
      [rewrite app_length, map_length; cbn; lia|].
    destruct (v_setlen_ok w4 t b3 k4 (length l) I4 O4) as (w5 & k5 & E5 & I5 & F5 & O5 & C5 & L5 & P5); [lia|].
    apply (FIN w5 (HBlock b3) I5).
    + eapply frame_trans; [exact F2|eapply frame_trans; [exact F3|eapply frame_trans; eauto]].
    + apply O5.
    + rewrite (owned_cells _ _ _ _ O5), L5, C5, C4. apply firstn_term_prefix.
    + cbn [exec]. fold t. rewrite E1. cbn [bind]. replace (length l <? 200) with false by (symmetry; apply Nat.ltb_ge; exact G).
      rewrite E2. cbn [bind]. rewrite E3. cbn [bind]. rewrite E4. cbn [bind]. unfold ret. rewrite E5. reflexivity.
Qed.
