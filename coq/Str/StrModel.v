(* Executable model of the lazy-copy String of include/nstd/String.hpp + src/String.cpp (after the
   repairs in fixes/C06), method by method, with the code's order of effects.  No proofs here.

   Memory.
   * [regs]  immutable foreign byte arrays: string literals (with their terminating 0) and the
             buffers handed to attach().  The model has no operation that writes them.
   * [heap]  the Data blocks allocated by String ([new char[capacity + 1 + sizeof(Data)]]).
             A block carries its [capacity + 1] character cells ([None] = never written), the
             [len], [capacity] and [ref] fields.  Blocks are never reused: a deleted block stays
             in the list with [bref = 0] and every later access to it is [Err UseAfterFree].
   * [vars]  the String variables (numbered in creation order; temporaries of a method are
             pushed at the end and popped before the method returns).  A variable is its [data]
             pointer: [HEmpty] = &emptyData, [HView r off len] = &_data describing len bytes at
             offset off of foreign array r (ref 0), [HBlock b] = heap block b.
   Every read and write is bounds-checked against the array it goes to ([Err OutOfBounds]);
   a write through a variable that does not point to a heap block is [Err WriteForeign]. *)
From Coq Require Import ZArith List Bool Arith Lia.
From Common Require Import ListAux.
From Str Require Import StrSpec Gen_Str.
Import ListNotations.

Inductive err := OutOfBounds | UseAfterFree | WriteForeign | BadState | BadArg.
Inductive res (A : Type) := Ok (a : A) | Err (e : err).
Arguments Ok {A} a.
Arguments Err {A} e.

Definition bind {A B} (r : res A) (f : A -> res B) : res B :=
  match r with Ok a => f a | Err e => Err e end.
Notation "'do' x <- r ; k" := (bind r (fun x => k)) (at level 200, x name, r at level 100, k at level 200).

Notation cell := (option Z) (only parsing).
Record block := mkblock { cells : list cell; blen : nat; bcap : nat; bref : nat }.
Inductive handle := HEmpty | HView (r off len : nat) | HBlock (b : nat).
Record world := mkworld { vars : list handle; heap : list block; regs : list (list Z) }.

Definition winit : world := mkworld [] [] [].

Definition handle_dec : forall a b : handle, {a = b} + {a <> b}.
Proof. decide equality; apply Nat.eq_dec. Defined.

(* capacity | 0x3 *)
Definition or3 (n : nat) : nat := n - n mod 4 + 3.

(* ---- raw accessors ---- *)
Definition get_var (w : world) (v : nat) : res handle :=
  match nth_error (vars w) v with Some h => Ok h | None => Err BadArg end.
Definition get_blk (w : world) (b : nat) : res block :=
  match nth_error (heap w) b with
  | Some k => if bref k =? 0 then Err UseAfterFree else Ok k
  | None => Err BadState
  end.
Definition set_var (w : world) (v : nat) (h : handle) : world := mkworld (upd v h (vars w)) (heap w) (regs w).
Definition set_blk (w : world) (b : nat) (k : block) : world := mkworld (vars w) (upd b k (heap w)) (regs w).
Definition push_var (w : world) (h : handle) : world := mkworld (vars w ++ [h]) (heap w) (regs w).

(* data->len, data->ref, data->capacity *)
Definition d_len (w : world) (h : handle) : res nat :=
  match h with HEmpty => Ok 0 | HView _ _ n => Ok n | HBlock b => do k <- get_blk w b; Ok (blen k) end.
Definition d_ref (w : world) (h : handle) : res nat :=
  match h with HBlock b => do k <- get_blk w b; Ok (bref k) | _ => Ok 0 end.

(* n cells starting at data->str + off.  emptyData.str points at its own len field (8 zero bytes). *)
Definition d_read (w : world) (h : handle) (off n : nat) : res (list cell) :=
  match h with
  | HEmpty => if off + n <=? 8 then Ok (repeat (Some 0%Z) n) else Err OutOfBounds
  | HView r o _ =>
    match nth_error (regs w) r with
    | Some reg => if o + off + n <=? length reg then Ok (map Some (slice reg (o + off) n)) else Err OutOfBounds
    | None => Err BadState
    end
  | HBlock b => do k <- get_blk w b;
                if off + n <=? length (cells k) then Ok (slice (cells k) off n) else Err OutOfBounds
  end.

(* Memory::copy into an array of cells *)
Definition cwrite (cs : list cell) (off : nat) (l : list cell) : res (list cell) :=
  if off + length l <=? length cs then Ok (firstn off cs ++ l ++ skipn (off + length l) cs) else Err OutOfBounds.

(* writes through (char* )data->str of variable v *)
Definition v_block (w : world) (v : nat) : res (nat * block) :=
  do h <- get_var w v;
  match h with HBlock b => do k <- get_blk w b; Ok (b, k) | _ => Err WriteForeign end.
Definition v_write (w : world) (v : nat) (off : nat) (l : list cell) : res world :=
  do bk <- v_block w v;
  let (b, k) := bk in
  do cs <- cwrite (cells k) off l;
  Ok (set_blk w b (mkblock cs (blen k) (bcap k) (bref k))).
(* ((char* )data->str)[data->len = n] = '\0' *)
Definition v_setlen_term (w : world) (v : nat) (n : nat) : res world :=
  do bk <- v_block w v;
  let (b, k) := bk in
  do cs <- cwrite (cells k) n [Some 0%Z];
  Ok (set_blk w b (mkblock cs n (bcap k) (bref k))).
(* data->len = n *)
Definition v_setlen (w : world) (v : nat) (n : nat) : res world :=
  do bk <- v_block w v;
  let (b, k) := bk in
  Ok (set_blk w b (mkblock (cells k) n (bcap k) (bref k))).

(* if(data->ref && Atomic::decrement(data->ref) == 0) delete[] (char* )data;   (ref 0 = deleted) *)
Definition release (w : world) (h : handle) : res world :=
  match h with
  | HBlock b => do k <- get_blk w b; Ok (set_blk w b (mkblock (cells k) (blen k) (bcap k) (bref k - 1)))
  | _ => Ok w
  end.
Definition incref (w : world) (h : handle) : res world :=
  match h with
  | HBlock b => do k <- get_blk w b; Ok (set_blk w b (mkblock (cells k) (blen k) (bcap k) (S (bref k))))
  | _ => Ok w
  end.

(* new char[capacity + 1 + sizeof(Data)]; copy n cells; str[len = n] = 0; ref = 1 *)
Definition alloc_str (w : world) (src : list cell) (n cap : nat) : res (world * handle) :=
  do c1 <- cwrite (repeat None (S cap)) 0 src;
  do c2 <- cwrite c1 n [Some 0%Z];
  Ok (mkworld (vars w) (heap w ++ [mkblock c2 n cap 1]) (regs w), HBlock (length (heap w))).

(* ---- String::detach(copyLength, minCapacity) ---- *)
(* the reallocating branch: new block, copy min(len, copyLength) cells when len > 0, terminator,
   release of the old data, data = newData *)
Definition detach_realloc (w : world) (v : nat) (h : handle) (c m : nat) : res world :=
  let cap := or3 m in
  do len <- d_len w h;
  do c1 <- (if 0 <? len
            then do src <- d_read w h 0 (Nat.min len c);
                 do x <- cwrite (repeat None (S cap)) 0 src;
                 cwrite x c [Some 0%Z]
            else cwrite (repeat None (S cap)) 0 [Some 0%Z]);
  do w1 <- release w h;
  Ok (set_var (mkworld (vars w1) (heap w1 ++ [mkblock c1 c cap 1]) (regs w1)) v (HBlock (length (heap w1)))).

Definition detach (w : world) (v : nat) (c m : nat) : res world :=
  do h <- get_var w v;
  do r <- d_ref w h;
  do inplace <- (if r =? 1
                 then match h with HBlock b => do k <- get_blk w b; Ok (m <=? bcap k) | _ => Ok false end
                 else Ok false);
  if (inplace : bool) then v_setlen_term w v c          (* ((char* )data->str)[data->len = copyLength] = 0 *)
  else detach_realloc w v h c m.

(* operator const char*(): detaches when the byte at length() is not a terminator (an
   indeterminate byte there is taken as non-zero; both answers end in a terminated view) *)
Definition cstr (w : world) (v : nat) : res world :=
  do h <- get_var w v;
  do n <- d_len w h;
  do c <- d_read w h n 1;
  match c with
  | [Some 0%Z] => Ok w
  | _ => detach w v n n
  end.

(* String(const String& other): the new variable is pushed *)
Definition push_copy (w : world) (u : nat) : res world :=
  do h <- get_var w u;
  do r <- d_ref w h;
  if negb (r =? 0) then do w1 <- incref w h; Ok (push_var w1 h)
  else match h with
       | HEmpty => Ok (push_var w HEmpty)
       | _ => do n <- d_len w h;
              do src <- d_read w h 0 n;
              do wh <- alloc_str w src n (or3 n);
              Ok (push_var (fst wh) (snd wh))
       end.

(* String(const char*, length) / String(length, c) / String(capacity): an owned block *)
Definition push_owned (w : world) (src : list cell) (cap : nat) : res world :=
  do wh <- alloc_str w src (length src) cap;
  Ok (push_var (fst wh) (snd wh)).

(* ~String() of the youngest variable *)
Definition pop_var (w : world) : res world :=
  match rev (vars w) with
  | [] => Err BadArg
  | h :: _ => do w1 <- release w h; Ok (mkworld (removelast (vars w1)) (heap w1) (regs w1))
  end.

(* operator=(const String& other) *)
Definition assign (w : world) (v u : nat) : res world :=
  do hu <- get_var w u;
  do hv <- get_var w v;
  do r <- d_ref w hu;
  if negb (r =? 0) then
    do w1 <- incref w hu;
    do w2 <- release w1 hv;
    Ok (set_var w2 v hu)
  else
    do w1 <- release w hv;
    do n <- d_len w1 hu;
    do src <- d_read w1 hu 0 n;
    do wh <- alloc_str w1 src n (or3 n);
    Ok (set_var (fst wh) v (snd wh)).

Definition clear (w : world) (v : nat) : res world :=
  do h <- get_var w v;
  do r <- d_ref w h;
  if r =? 1 then
    do bk <- v_block w v;
    let (b, k) := bk in
    do cs <- cwrite (cells k) 0 [Some 0%Z];
    Ok (set_blk w b (mkblock cs 0 (bcap k) (bref k)))
  else
    do w1 <- release w h;
    Ok (set_var w1 v HEmpty).

Definition attach (w : world) (v r off len : nat) : res world :=
  do h <- get_var w v;
  do w1 <- release w h;
  Ok (set_var w1 v (HView r off len)).

Definition var_len (w : world) (v : nat) : res nat := do h <- get_var w v; d_len w h.

(* append(const char* str, usize len): the argument is memory outside the model (the op's bytes) *)
Definition append_cells (w : world) (v : nat) (l : list cell) : res world :=
  do n <- var_len w v;
  let newLen := n + length l in
  do w1 <- detach w v n newLen;
  do n1 <- var_len w1 v;
  do w2 <- v_write w1 v n1 l;
  v_setlen_term w2 v newLen.

(* append(const char* str, usize len) with str = data->str + off inside the own text (off <= len),
   repaired: the offset is taken before the detach and the source is read relative to the buffer
   the String has after it (the old buffer may be gone) *)
Definition append_own (w : world) (v off len : nat) : res world :=
  do n <- var_len w v;
  if n <? off then Err BadArg else
  let newLen := n + len in
  do w1 <- detach w v n newLen;
  do h1 <- get_var w1 v;
  do src <- d_read w1 h1 off len;
  do n1 <- var_len w1 v;
  do w2 <- v_write w1 v n1 src;
  v_setlen_term w2 v newLen.

(* append(const String& str): str.data is read again after the detach *)
Definition append_s (w : world) (v u : nat) : res world :=
  do n <- var_len w v;
  do nu <- var_len w u;
  let newLen := n + nu in
  do w1 <- detach w v n newLen;
  do n1 <- var_len w1 v;
  do hu <- get_var w1 u;
  do nu1 <- d_len w1 hu;
  do src <- d_read w1 hu 0 nu1;
  do w2 <- v_write w1 v n1 src;
  v_setlen_term w2 v newLen.

(* prepend(const char* str, usize len):  String copy( *this) is the temporary pushed at the end *)
Definition prepend_cells (w : world) (v : nat) (l : list cell) : res world :=
  do w0 <- push_copy w v;
  let t := length (vars w) in
  do nc <- var_len w0 t;
  let newLen := length l + nc in
  do w1 <- detach w0 v 0 newLen;
  do w2 <- v_write w1 v 0 l;
  do hc <- get_var w2 t;
  do nc2 <- d_len w2 hc;
  do src <- d_read w2 hc 0 nc2;
  do w3 <- v_write w2 v (length l) src;
  do w4 <- v_setlen_term w3 v newLen;
  pop_var w4.

(* prepend(const String& str), repaired: str.data is read once, before the detach (str may be
   *this; its old data stays alive through the temporary copy) *)
Definition prepend_s (w : world) (v u : nat) : res world :=
  do w0 <- push_copy w v;
  let t := length (vars w) in
  do hu <- get_var w0 u;
  do nu <- d_len w0 hu;
  do nc <- var_len w0 t;
  let newLen := nu + nc in
  do w1 <- detach w0 v 0 newLen;
  do nu1 <- d_len w1 hu;
  do src1 <- d_read w1 hu 0 nu1;
  do w2 <- v_write w1 v 0 src1;
  do hc <- get_var w2 t;
  do nc2 <- d_len w2 hc;
  do src2 <- d_read w2 hc 0 nc2;
  do w3 <- v_write w2 v nu1 src2;
  do w4 <- v_setlen_term w3 v newLen;
  pop_var w4.

(* prepend(const char* str, usize len) with str = data->str + off inside the own text: str keeps pointing into the
   data the String had when the call was made (h0); String copy( *this) shares that block (or, for a non-owning
   descriptor, h0 is foreign memory), so the prefix is read through h0 AFTER the detach *)
Definition prepend_own (w : world) (v off len : nat) : res world :=
  do h0 <- get_var w v;
  do w0 <- push_copy w v;
  let t := length (vars w) in
  do nc <- var_len w0 t;
  let newLen := len + nc in
  do w1 <- detach w0 v 0 newLen;
  do src <- d_read w1 h0 off len;                          (* Memory::copy((char* )data->str, str, len) *)
  do w2 <- v_write w1 v 0 src;
  do hc <- get_var w2 t;
  do nc2 <- d_len w2 hc;
  do src2 <- d_read w2 hc 0 nc2;
  do w3 <- v_write w2 v len src2;
  do w4 <- v_setlen_term w3 v newLen;
  pop_var w4.

(* the visible cells of a variable: data->str[0 .. data->len) *)
Definition var_cells (w : world) (v : nat) : res (list cell) :=
  do h <- get_var w v; do n <- d_len w h; d_read w h 0 n.
Definition cval (c : cell) : Z := match c with Some z => z | None => (-1)%Z end.
Definition var_bytes (w : world) (v : nat) : res (list Z) := do cs <- var_cells w v; Ok (map cval cs).

(* detach(len, len), then a per-byte rewrite of the first len cells *)
Definition map_inplace (w : world) (v : nat) (f : Z -> Z) : res world :=
  do n <- var_len w v;
  do w1 <- detach w v n n;
  do cs <- var_cells w1 v;
  v_write w1 v 0 (map (fun c => match c with Some z => Some (f z) | None => None end) cs).

(* a temporary holding [bs] with capacity [cap] is assigned to v and destroyed
   (what  *this = substr(..)  /  *this = result  leave behind) *)
Definition install (w : world) (v : nat) (bs : list Z) (cap : nat) : res world :=
  do w1 <- push_owned w (map Some bs) cap;
  do w2 <- assign w1 v (length (vars w));
  pop_var w2.

(* ---- pure mirrors of the loops of String.cpp on byte lists ---- *)
(* lowerCaseMap[(uchar)c]: the index is a byte by construction of the C++ expression *)
Definition tbl (t : list Z) (c : Z) : Z := if ((0 <=? c) && (c <? 256))%Z then nth (Z.to_nat c) t c else c.

(* strstr / strpbrk / strchr of libc on a NUL-free text: reference functions *)
Definition m_strstr (hay needle : list Z) : option nat := find_first (P_sub needle) hay.
Definition m_strpbrk (hay cs : list Z) : option nat := find_first (P_any cs) hay.
Definition m_strchr (hay : list Z) (c : Z) : option nat := find_first (P_chr c) hay.

(* replace(needle, replacement), repaired: the loop over strstr; also tracks the capacity of
   [result] (String(len + rlen * 10), grown by append's detach) *)
Definition grow (cap len add : nat) : nat := if len + add <=? cap then cap else or3 (len + add).
Fixpoint m_replace_loop (fuel : nat) (needle repl p : list Z) (acc : list Z) (cap : nat) : list Z * nat :=
  match fuel with
  | O => (acc, cap)
  | S f =>
    match m_strstr p needle with
    | None => (acc ++ p, grow cap (length acc) (length p))
    | Some k =>
      let cap1 := grow cap (length acc) k in
      let acc1 := acc ++ firstn k p in
      let cap2 := grow cap1 (length acc1) (length repl) in
      m_replace_loop f needle repl (skipn (k + length needle) p) (acc1 ++ repl) cap2
    end
  end.

(* trim, repaired: the two scanning loops; a byte belongs to the set when it is not 0 and
   strchr(chars, c) finds it (strchr alone also "finds" c = 0, the terminator of chars) *)
Definition in_set (chars : list Z) (x : Z) : bool := negb (x =? 0)%Z && memb x chars.
Fixpoint m_skip_front (chars l : list Z) : nat :=
  match l with
  | x :: t => if in_set chars x then S (m_skip_front chars t) else O
  | [] => O
  end.
(* p = number of leading bytes in the set; the backward loop runs over (p, len) and never tests
   the byte at p itself: (p, newLen) *)
Definition m_trim_bounds (chars l : list Z) : nat * nat :=
  let p := m_skip_front chars l in
  let rest := skipn p l in
  (* --end; for(; end > p; --end) if(!strchr(chars, *end)) break; ++end *)
  let back := match rest with
              | [] => O
              | _ :: _ => Nat.min (m_skip_front chars (frev rest)) (length rest - 1)
              end in
  (p, length rest - back).

(* split: the loop of String::split on the text after the cursor *)
Fixpoint m_split_loop (fuel : nat) (seps p : list Z) (skipEmpty : bool) : list (list Z) :=
  match fuel with
  | O => []
  | S f =>
    match m_strpbrk p seps with
    | Some O => (if skipEmpty then [] else [[]]) ++ m_split_loop f seps (skipn 1 p) skipEmpty
    | Some k => firstn k p :: m_split_loop f seps (skipn (k + 1) p) skipEmpty
    | None => match p with
              | [] => if skipEmpty then [] else [[]]
              | _ => [p]
              end
    end
  end.

(* compare(s1, len1, s2, len2), repaired: the loop over min(len1, len2) bytes, then the lengths *)
Fixpoint m_cmp (a b : list Z) : Z :=
  match a, b with
  | x :: a', y :: b' => if (x =? y)%Z then m_cmp a' b' else (x - y)%Z
  | [], [] => 0%Z
  | [], _ :: _ => (-1)%Z
  | _ :: _, [] => 1%Z
  end.
(* the static compare loops on two C strings (with and without a length bound) run over two NUL-terminated texts *)
Fixpoint m_compare (fuel : nat) (a b : list Z) : Z :=
  match fuel with
  | O => 0%Z
  | S f =>
    let x := hd 0%Z a in let y := hd 0%Z b in
    if (x =? y)%Z then (if (x =? 0)%Z then 0%Z else m_compare f (tl a) (tl b)) else (x - y)%Z
  end.
Fixpoint m_compare_n (n : nat) (a b : list Z) : Z :=
  match n with
  | O => 0%Z
  | S f =>
    let x := hd 0%Z a in let y := hd 0%Z b in
    if (x =? 0)%Z || negb (x =? y)%Z then (x - y)%Z else m_compare_n f (tl a) (tl b)
  end.

(* the static length / find(in, char) / findLast(in, char) on a C string: loops up to the terminator *)
Fixpoint m_strlen (l : list Z) : nat :=
  match l with [] => O | x :: t => if (x =? 0)%Z then O else S (m_strlen t) end.
Fixpoint m_sfind (l : list Z) (c : Z) (i : nat) : Z :=
  match l with
  | [] => (-1)%Z
  | x :: t => if (x =? 0)%Z then (-1)%Z else if (x =? c)%Z then Z.of_nat i else m_sfind t c (S i)
  end.
Fixpoint m_sfindlast (l : list Z) (c : Z) (i : nat) (last : Z) : Z :=
  match l with
  | [] => last
  | x :: t => if (x =? 0)%Z then last else m_sfindlast t c (S i) (if (x =? c)%Z then Z.of_nat i else last)
  end.

Definition sgn (z : Z) : Z := if (z <? 0)%Z then (-1)%Z else if (0 <? z)%Z then 1%Z else 0%Z.
Definition lowt := tbl gen_lowerCaseMap.
Definition uppt := tbl gen_upperCaseMap.

(* find(char) / findLast(char): loops over [0, len) *)
Fixpoint m_find_c (l : list Z) (c : Z) (i : nat) : Z :=
  match l with [] => (-1)%Z | x :: t => if (x =? c)%Z then Z.of_nat i else m_find_c t c (S i) end.
Fixpoint m_findlast_c (l : list Z) (c : Z) (i : nat) (last : Z) : Z :=
  match l with [] => last | x :: t => m_findlast_c t c (S i) (if (x =? c)%Z then Z.of_nat i else last) end.

(* findLast(in, str), repaired: repeated strstr(match + 1); stops when the match is the terminator *)
Fixpoint m_findlast_loop (fuel : nat) (P : list Z -> bool) (l : list Z) (base : nat) (last : Z) : Z :=
  match fuel with
  | O => last
  | S f =>
    match find_first P l with
    | None => last
    | Some k =>
      let pos := (base + k)%nat in
      match skipn k l with
      | [] => Z.of_nat pos
      | _ :: rest => m_findlast_loop f P rest (S pos) (Z.of_nat pos)
      end
    end
  end.

Definition zidx (o : option nat) : Z := match o with Some i => Z.of_nat i | None => (-1)%Z end.

(* join: the temporaries standing for the elements of the List<String>, the loop, their destruction *)
Fixpoint push_copies (w : world) (us : list nat) : res world :=
  match us with
  | [] => Ok w
  | u :: rest => do w1 <- push_copy w u; push_copies w1 rest
  end.
Fixpoint join_loop (w : world) (v i k : nat) (sep : Z) : res world :=
  match k with
  | O => Ok w
  | S k' => do w1 <- append_s w v i;
            match k' with
            | O => Ok w1
            | S _ => do w2 <- append_cells w1 v [Some sep]; join_loop w2 v (S i) k' sep
            end
  end.
Fixpoint pop_n (w : world) (k : nat) : res world :=
  match k with
  | O => Ok w
  | S k' => do w1 <- pop_var w; pop_n w1 k'
  end.

(* the static helpers on the C-string views a ++ [0], b ++ [0] of two texts; startsWith(in, str) is
   compare(in, str.data->str, str.data->len) == 0; equalsIgnoreCase(other, len) is the (repaired)
   member compareIgnoreCase(other, len) == 0 *)
Definition m_stat (q : squery) (a b : list Z) : Z :=
  match q with
  | QCompare => sgn (m_compare (S (length a)) (a ++ [0%Z]) (b ++ [0%Z]))
  | QCompareN n => sgn (m_compare_n n (a ++ [0%Z]) (b ++ [0%Z]))
  | QCompareIC => sgn (m_compare (S (length a)) (map lowt a ++ [0%Z]) (map lowt b ++ [0%Z]))
  | QCompareICN n => sgn (m_compare_n n (map lowt a ++ [0%Z]) (map lowt b ++ [0%Z]))
  | QEqualsICN n => b2z (m_cmp (map lowt (firstn n a)) (map lowt (firstn n b)) =? 0)%Z
  | QStartsWith => b2z (m_compare_n (length b) (a ++ [0%Z]) (b ++ [0%Z]) =? 0)%Z
  | QLength => Z.of_nat (m_strlen (a ++ [0%Z]))
  | QFindC c => m_sfind (a ++ [0%Z]) c 0
  | QFindLastC c => m_sfindlast (a ++ [0%Z]) c 0 (-1)%Z
  | QFindStr => zidx (m_strstr a b)                      (* find(in, str) = strstr(in, str) *)
  | QFindOneOfStr => zidx (m_strpbrk a b)                (* findOneOf(in, chars) = strpbrk(in, chars) *)
  end.

(* ---- operator+ ---- *)
(* the destructor of a temporary that is not the youngest object: the variable at index i goes away *)
Definition drop_at (w : world) (i : nat) : res world :=
  do h <- get_var w i;
  do w1 <- release w h;
  Ok (mkworld (firstn i (vars w1) ++ skipn (S i) (vars w1)) (heap w1) (regs w1)).

(* operator+(const String& other) const {return String( *this).append(other);}
   the temporary String( *this) is pushed at the end, append returns a reference to it, the returned
   String is copy-constructed from that reference (pushed behind the temporary), then the temporary dies:
   the result ends up as the youngest variable *)
Definition plus (w : world) (v u : nat) : res world :=
  let t := length (vars w) in
  do w1 <- push_copy w v;
  do w2 <- append_s w1 t u;
  do w3 <- push_copy w2 t;
  drop_at w3 t.

(* operator+(const char(&str)[N]) const {return String( *this).append(String(str));}
   hl = the non-owning descriptor of the temporary String(str) *)
Definition plus_tmp (w : world) (v : nat) (hl : handle) : res world :=
  let t := length (vars w) in
  do w1 <- push_copy w v;
  let w2 := push_var w1 hl in
  do w3 <- append_s w2 t (S t);
  do w4 <- push_copy w3 t;
  do w5 <- drop_at w4 (S t);
  drop_at w5 t.

(* ---- toBool ---- *)
(* for(; *p == '0'; ++p); on a terminated text *)
Fixpoint m_skip0 (l : list Z) : list Z :=
  match l with x :: t => if (x =? 48)%Z then m_skip0 t else l | [] => [] end.
(* the part of toBool() after the three early exits; a = the text, read through the C-string view a ++ [0] *)
Definition m_tobool_tail (a : list Z) : bool :=
  let p := m_skip0 (a ++ [0%Z]) in
  match p with
  | x :: q =>
    if (x =? 46)%Z then
      let p2 := m_skip0 q in
      (* if(!*p && (p[-1] == '0' || *data->str == '0')) return false; *)
      negb ((hd 0%Z p2 =? 0)%Z && ((length p2 <? length q) || (hd 0%Z (a ++ [0%Z]) =? 48)%Z))
    else true
  | [] => true
  end.

(* ---- the static char functions ---- *)
(* isalnum ... isxdigit of libc on (uchar)c in the "C" locale (the harness never calls setlocale):
   reference functions, trusted like strstr *)
Definition rng (lo hi c : Z) : bool := ((lo <=? c) && (c <=? hi))%Z.
Definition m_isdigit (c : Z) : bool := rng 48 57 c.
Definition m_isupper (c : Z) : bool := rng 65 90 c.
Definition m_islower (c : Z) : bool := rng 97 122 c.
Definition m_isalpha (c : Z) : bool := m_isupper c || m_islower c.
Definition m_isalnum (c : Z) : bool := m_isalpha c || m_isdigit c.
Definition m_isxdigit (c : Z) : bool := m_isdigit c || rng 65 70 c || rng 97 102 c.
Definition m_isprint (c : Z) : bool := rng 32 126 c.
Definition m_ispunct (c : Z) : bool := m_isprint c && negb (m_isalnum c) && negb (c =? 32)%Z.
(* isSpace(char c) {return (c >= 9 && c <= 13) || c == 32;} compares the SIGNED char *)
Definition schar (c : Z) : Z := if (c <? 128)%Z then c else (c - 256)%Z.
Definition m_isspace (c : Z) : bool := let s := schar c in ((9 <=? s) && (s <=? 13))%Z || (s =? 32)%Z.
Definition m_char (q : cquery) (c : Z) : Z :=
  match q with
  | CLower => lowt c                                     (* lowerCaseMap[(uchar&)c] *)
  | CUpper => uppt c
  | CIsSpace => b2z (m_isspace c)
  | CIsAlnum => b2z (m_isalnum c)
  | CIsAlpha => b2z (m_isalpha c)
  | CIsDigit => b2z (m_isdigit c)
  | CIsLowerCase => b2z (m_islower c)
  | CIsPrint => b2z (m_isprint c)
  | CIsPunct => b2z (m_ispunct c)
  | CIsUpperCase => b2z (m_isupper c)
  | CIsHexDigit => b2z (m_isxdigit c)
  end.

(* ---- String::printf, repaired ---- *)
(* String old( *this) is the temporary pushed at the end: it keeps the old text alive and
   unchanged while vsnprintf reads the arguments (one of them may point into it).  [fmt w'] = the
   bytes vsnprintf produces when it runs in world w'; it runs up to three times (into the
   200-byte buffer, to measure, into the final buffer). *)
Definition printf_m (w : world) (v : nat) (fmt : world -> res (list Z)) : res (world * out) :=
  do w0 <- push_copy w v;
  do w1 <- detach w0 v 0 200;
  do bk <- v_block w1 v;
  let cap := bcap (snd bk) in
  do l <- fmt w1;
  if length l <? cap then
    do w2 <- v_write w1 v 0 (map Some l ++ [Some 0%Z]);
    do w3 <- v_setlen w2 v (length l);
    do w4 <- pop_var w3;
    Ok (w4, RInt (Z.of_nat (length l)))
  else
    do w2 <- v_write w1 v 0 (map Some (firstn (cap - 1) l) ++ [Some 0%Z]);
    do l2 <- fmt w2;
    do w3 <- detach w2 v 0 (length l2);
    do l3 <- fmt w3;
    do w4 <- v_write w3 v 0 (map Some l3 ++ [Some 0%Z]);
    do w5 <- v_setlen w4 v (length l3);
    do w6 <- pop_var w5;
    Ok (w6, RInt (Z.of_nat (length l3))).

(* ---- one operation ---- *)
Definition ret (w : res world) (r : out) : res (world * out) := do x <- w; Ok (x, r).

Definition exec (w : world) (o : op) : res (world * out) :=
  match o with
  | ONew => Ok (push_var w HEmpty, RNone)
  | OLit l => Ok (mkworld (vars w ++ [HView (length (regs w)) 0 (length l)]) (heap w) (regs w ++ [l ++ [0%Z]]), RNone)
  | OBuf l => ret (push_owned w (map Some l) (or3 (length l))) RNone
  | OFill n c => ret (push_owned w (repeat (Some c) n) (or3 n)) RNone
  | OCap n => ret (push_owned w [] n) RNone
  | OCopy u => ret (push_copy w u) RNone
  | ODrop => ret (pop_var w) RNone
  | OReg l => Ok (mkworld (vars w) (heap w) (regs w ++ [l]), RNone)
  | OAttach v r off len => ret (attach w v r off len) RNone
  | OAssign v u => ret (assign w v u) RNone
  | OClear v => ret (clear w v) RNone
  | ODetach v => ret (do n <- var_len w v; detach w v n n) RNone
  | OReserve v n => ret (do k <- var_len w v; detach w v k (if n <? k then k else n)) RNone
  | OResize v n c =>
    ret (do k <- var_len w v;
         do w1 <- detach w v n n;
         if k <? n then
           do w2 <- detach w1 v n n;                      (* operator char*() *)
           v_write w2 v k (repeat (Some c) (n - k))
         else Ok w1) RNone
  | OPoke v i c => ret (do k <- var_len w v; do w1 <- detach w v k k; v_write w1 v i [Some c]) RNone
  | OCStr v =>
    do w1 <- cstr w v;
    do bs <- var_bytes w1 v;
    do h <- get_var w1 v;
    do t <- d_read w1 h (length bs) 1;
    Ok (w1, RCStr bs (hd None t))
  | OAppendS v u => ret (append_s w v u) RNone
  | OAppendB v l => ret (append_cells w v (map Some l)) RNone
  | OAppendC v c => ret (append_cells w v [Some c]) RNone
  | OPrependS v u => ret (prepend_s w v u) RNone
  | OPrependB v l => ret (prepend_cells w v (map Some l)) RNone
  | OReplaceC v a b => ret (map_inplace w v (fun x => if (x =? a)%Z then b else x)) RNone
  | OLower v => ret (map_inplace w v lowt) RNone
  | OUpper v => ret (map_inplace w v uppt) RNone
  | OReplaceS v n r =>
    do nl <- var_len w n;
    if nl =? 0 then Ok (w, RNone) else
    do w1 <- cstr w v;                                    (* const char* p = *this *)
    do w2 <- cstr w1 n;                                   (* strstr(p, needle) converts needle *)
    do hay <- var_bytes w2 v;
    do nee <- var_bytes w2 n;
    do rep <- var_bytes w2 r;
    match m_strstr hay nee with
    | None => Ok (w2, RNone)
    | Some _ =>
      let (bs, cap) := m_replace_loop (S (length hay)) nee rep hay [] (length hay + length rep * 10) in
      ret (install w2 v bs cap) RNone
    end
  | OTrim v chars =>
    do bs <- var_bytes w v;
    match bs with
    | [] => Ok (w, RNone)
    | _ => let (p, n) := m_trim_bounds chars bs in
           if n =? length bs then Ok (w, RNone)
           else ret (install w v (slice bs p n) (or3 n)) RNone
    end
  | OPrintf v l => printf_m w v (fun _ => Ok l)
  | OJoin v us sep =>
    (* the List<String> holds copies of the arguments while join runs *)
    do w1 <- push_copies w us;
    do w2 <- clear w1 v;
    do w3 <- join_loop w2 v (length (vars w)) (length us) sep;
    ret (pop_n w3 (length us)) RNone
  | OSubstr v st ln =>
    do bs <- var_bytes w v;
    let r := s_substr bs st ln in
    ret (push_owned w (map Some r) (or3 (length r))) RNone
  | OTokenC v sep start =>
    do n <- var_len w v;
    do w1 <- (if n <=? start then Ok w else cstr w v);    (* find(c, start): the view only when start < len *)
    do bs <- var_bytes w1 v;
    match (if n <=? start then None else m_strchr (skipn start bs) sep) with
    | Some k => let r := s_substr bs (Z.of_nat start) (Z.of_nat k) in
                ret (push_owned w1 (map Some r) (or3 (length r))) (RInt (Z.of_nat (start + k + 1)))
    | None => let r := s_substr bs (Z.of_nat start) (-1) in
              ret (push_owned w1 (map Some r) (or3 (length r))) (RInt (Z.of_nat n))
    end
  | OTokenS v seps start =>
    do n <- var_len w v;
    do w1 <- cstr w v;
    do bs <- var_bytes w1 v;
    match m_strpbrk (skipn start bs) seps with
    | Some k => let r := s_substr bs (Z.of_nat start) (Z.of_nat k) in
                ret (push_owned w1 (map Some r) (or3 (length r))) (RInt (Z.of_nat (start + k + 1)))
    | None => let r := s_substr bs (Z.of_nat start) (-1) in
              ret (push_owned w1 (map Some r) (or3 (length r))) (RInt (Z.of_nat n))
    end
  | OSplit v seps skip =>
    do w1 <- cstr w v;
    do bs <- var_bytes w1 v;
    Ok (w1, RList (m_split_loop (S (length bs)) seps bs skip))
  | OEq v u =>
    do a <- var_bytes w v; do b <- var_bytes w u;
    Ok (w, RInt (b2z ((length a =? length b) && list_eqb a b)))
  | OCompare v u =>
    do a <- var_bytes w v; do b <- var_bytes w u;
    Ok (w, RInt (sgn (m_cmp a b)))
  | OCompareN v u n =>
    do a <- var_bytes w v; do b <- var_bytes w u;
    Ok (w, RInt (sgn (m_cmp (firstn n a) (firstn n b))))
  | OCompareIC v u =>
    do a <- var_bytes w v; do b <- var_bytes w u;
    Ok (w, RInt (sgn (m_cmp (map lowt a) (map lowt b))))
  | OCompareICN v u n =>
    do a <- var_bytes w v; do b <- var_bytes w u;
    Ok (w, RInt (sgn (m_cmp (map lowt (firstn n a)) (map lowt (firstn n b)))))
  | OEqualsIC v u =>
    do a <- var_bytes w v; do b <- var_bytes w u;
    Ok (w, RInt (b2z ((length a =? length b) && (m_cmp (map lowt a) (map lowt b) =? 0)%Z)))
  | OFindC v c => do a <- var_bytes w v; Ok (w, RInt (m_find_c a c 0))
  | OFindLastC v c => do a <- var_bytes w v; Ok (w, RInt (m_findlast_c a c 0 (-1)%Z))
  | OFindCFrom v c start =>
    do n <- var_len w v;
    if n <=? start then Ok (w, RInt (-1)%Z) else
    do w1 <- cstr w v; do a <- var_bytes w1 v;
    Ok (w1, RInt (match m_strchr (skipn start a) c with Some k => Z.of_nat (start + k) | None => (-1)%Z end))
  | OFindS v l => do w1 <- cstr w v; do a <- var_bytes w1 v; Ok (w1, RInt (zidx (m_strstr a l)))
  | OFindSFrom v l start =>
    (* repaired (fix 10): {return start > data->len ? 0 : strstr( *this + start, str);} *)
    do n <- var_len w v;
    if n <? start then Ok (w, RInt (-1)%Z) else
    do w1 <- cstr w v; do a <- var_bytes w1 v;
    Ok (w1, RInt (match m_strstr (skipn start a) l with Some k => Z.of_nat (start + k) | None => (-1)%Z end))
  | OFindOneOf v l => do w1 <- cstr w v; do a <- var_bytes w1 v; Ok (w1, RInt (zidx (m_strpbrk a l)))
  | OFindOneOfFrom v l start =>
    do n <- var_len w v;
    if n <=? start then Ok (w, RInt (-1)%Z) else
    do w1 <- cstr w v; do a <- var_bytes w1 v;
    Ok (w1, RInt (match m_strpbrk (skipn start a) l with Some k => Z.of_nat (start + k) | None => (-1)%Z end))
  | OFindLastS v l =>
    do w1 <- cstr w v; do a <- var_bytes w1 v;
    Ok (w1, RInt (m_findlast_loop (S (S (length a))) (P_sub l) a 0 (-1)%Z))
  | OFindLastOf v l =>
    do w1 <- cstr w v; do a <- var_bytes w1 v;
    Ok (w1, RInt (m_findlast_loop (S (S (length a))) (P_any l) a 0 (-1)%Z))
  | OStartsWith v u =>
    do a <- var_bytes w v; do b <- var_bytes w u;
    Ok (w, RInt (b2z ((length b <=? length a) && list_eqb (firstn (length b) a) b)))
  | OEndsWith v u =>
    do a <- var_bytes w v; do b <- var_bytes w u;
    Ok (w, RInt (b2z ((length b <=? length a) && list_eqb (skipn (length a - length b) a) b)))
  | OLen v => do n <- var_len w v; Ok (w, RInt (Z.of_nat n))
  | OAppendOwn v off len =>
    do w1 <- cstr w v;                                    (* const char* p = v *)
    ret (append_own w1 v off len) RNone
  | OPrintfSelf v a b =>
    do w1 <- cstr w v;                                    (* const char* p = v *)
    do h <- get_var w1 v;
    do n <- d_len w1 h;
    (* "%s" reads the text p points to: the data v had before the call *)
    printf_m w1 v (fun w' => do cs <- d_read w' h 0 n; Ok (a ++ map cval cs ++ b))
  | OEqLit v l =>
    (* data->len == N - 1 && Memory::compare(data->str, str, N - 1) == 0 *)
    do a <- var_bytes w v;
    Ok (w, RInt (b2z ((length a =? length l) && list_eqb a l)))
  | OSplitSet v seps skip =>
    do w1 <- cstr w v;
    do bs <- var_bytes w1 v;
    Ok (w1, RList (set_of (m_split_loop (S (length bs)) seps bs skip)))
  | OFromPrintf l =>
    (* String s(200); vsnprintf into it; too small: s.detach(0, result) and again; the new variable is s *)
    let t := length (vars w) in
    do w1 <- push_owned w [] 200;
    if length l <? 200 then
      do w2 <- v_write w1 t 0 (map Some l ++ [Some 0%Z]);
      ret (v_setlen w2 t (length l)) RNone
    else
      do w2 <- v_write w1 t 0 (map Some (firstn 199 l) ++ [Some 0%Z]);
      do w3 <- detach w2 t 0 (length l);
      do w4 <- v_write w3 t 0 (map Some l ++ [Some 0%Z]);
      ret (v_setlen w4 t (length l)) RNone
  | OStat q v u =>
    do a <- var_bytes w v; do b <- var_bytes w u;
    Ok (w, RInt (m_stat q a b))
  | OPlusEqS v u => ret (append_s w v u) RNone            (* {return append(other);} *)
  | OPlusEqC v c => ret (append_cells w v [Some c]) RNone (* {return append(c);} *)
  | OPlus v u => ret (plus w v u) RNone
  | OPlusLit v l =>
    (* the literal is foreign memory; String(str) describes its first N - 1 bytes *)
    ret (plus_tmp (mkworld (vars w) (heap w) (regs w ++ [l ++ [0%Z]])) v (HView (length (regs w)) 0 (length l))) RNone
  | OPlusAssign d v u =>
    (* the temporary v + u is the youngest variable while operator= runs, then it dies *)
    do w1 <- plus w v u;
    do w2 <- assign w1 d (length (vars w));
    ret (pop_var w2) RNone
  | OFromBool b =>
    (* {return value ? String("true") : String("false");}: the literal constructor, built in place *)
    Ok (mkworld (vars w ++ [HView (length (regs w)) 0 (length (bool_text b))]) (heap w) (regs w ++ [bool_text b ++ [0%Z]]), RNone)
  | OFromCStr l =>
    (* String(str, length(str)) *)
    let n := m_strlen (l ++ [0%Z]) in
    ret (push_owned w (map Some (firstn n l)) (or3 n)) RNone
  | OFromCStrN l n => ret (push_owned w (map Some (firstn n l)) (or3 n)) RNone
  | OToBool v =>
    do a <- var_bytes w v;
    (* data->len == 0 || equalsIgnoreCase("false") || *this == "0" *)
    if (length a =? 0)
       || ((length a =? length false_text) && (m_cmp (map lowt a) (map lowt false_text) =? 0)%Z)
       || ((length a =? 1) && list_eqb a [48%Z])
    then Ok (w, RInt 0%Z)
    else
      do w1 <- cstr w v;                                  (* const char* p = *this *)
      do bs <- var_bytes w1 v;
      Ok (w1, RInt (b2z (m_tobool_tail bs)))
  | OChar q c => Ok (w, RInt (m_char q c))
  | OPrependOwn v off len =>
    do w1 <- cstr w v;                                    (* const char* p = v *)
    ret (prepend_own w1 v off len) RNone
  end.

(* the value a variable denotes, and the reference state a world denotes *)
Definition h_value (w : world) (h : handle) : list Z :=
  match h with
  | HEmpty => []
  | HView r off len => slice (nth r (regs w) []) off len
  | HBlock b => match nth_error (heap w) b with
                | Some k => map cval (firstn (blen k) (cells k))
                | None => []
                end
  end.
Definition abs (w : world) : sstate := mksstate (map (h_value w) (vars w)) (regs w).

Definition step (w : world) (o : op) : res (world * out) :=
  if pre (abs w) o then exec w o else Err BadArg.

Fixpoint run (w : world) (ops : list op) : res (world * list out) :=
  match ops with
  | [] => Ok (w, [])
  | o :: rest =>
    do wr <- step w o;
    do wrs <- run (fst wr) rest;
    Ok (fst wrs, snd wr :: snd wrs)
  end.

(* ---- what the driver prints of the representation (L-int) ---- *)
Definition live_blocks (w : world) : nat := length (filter (fun k => negb (bref k =? 0)) (heap w)).
