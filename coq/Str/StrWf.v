(* Every value of the reference is a string of bytes (0..255), for all histories; with the
   refinement theorem this says that no indeterminate (never written) cell is ever visible in a
   String of the model. *)
From Coq Require Import ZArith List Bool Arith Lia.
From Common Require Import ListAux.
From Str Require Import StrSpec StrModel StrLists StrInv StrPrims StrRefine StrFun StrStep StrJoin StrMain.
Import ListNotations.

Definition B (l : list Z) : Prop := Forall (fun x => is_byte x = true) l.

Lemma bytes_B l : bytes l = true <-> B l.
Proof. unfold bytes, B. rewrite forallb_forall, Forall_forall. reflexivity. Qed.

Lemma B_app a b : B a -> B b -> B (a ++ b).
Proof. intros. apply Forall_app. auto. Qed.

Lemma B_incl a b : (forall x, In x a -> In x b) -> B b -> B a.
Proof. unfold B. rewrite !Forall_forall. auto. Qed.

Lemma In_firstn {A} (l : list A) n x : In x (firstn n l) -> In x l.
Proof.
  revert n; induction l as [|h t IH]; intros [|n] H; cbn in *; auto; try contradiction.
  destruct H as [->|H]; [left; reflexivity|right; eapply IH; eauto].
Qed.
Lemma In_skipn {A} (l : list A) n x : In x (skipn n l) -> In x l.
Proof. revert n; induction l as [|h t IH]; intros [|n] H; cbn in *; auto. right. eapply IH; eauto. Qed.

Lemma B_firstn n l : B l -> B (firstn n l).
Proof. apply B_incl. intros x. apply In_firstn. Qed.
Lemma B_skipn n l : B l -> B (skipn n l).
Proof. apply B_incl. intros x. apply In_skipn. Qed.
Lemma B_slice l off n : B l -> B (slice l off n).
Proof. intros H. unfold slice. apply B_firstn, B_skipn, H. Qed.
Lemma B_repeat c n : is_byte c = true -> B (repeat c n).
Proof. intros H. induction n; cbn; constructor; auto. Qed.
Lemma B_upd i c l : is_byte c = true -> B l -> B (upd i c l).
Proof. intros Hc Hl. apply Forall_upd; auto. Qed.
Lemma B_map f l : (forall x, is_byte x = true -> is_byte (f x) = true) -> B l -> B (map f l).
Proof. intros Hf Hl. unfold B in *. rewrite Forall_forall in *. intros y Hy. apply in_map_iff in Hy. destruct Hy as (x & <- & Hx). auto. Qed.
Lemma B_rev l : B l -> B (rev l).
Proof. apply B_incl. intros x Hx. apply in_rev. exact Hx. Qed.
Lemma B_nil : B [].
Proof. constructor. Qed.

Lemma byte_lower x : is_byte x = true -> is_byte (lower x) = true.
Proof. unfold is_byte, lower. intros H. destruct ((65 <=? x)%Z && (x <=? 90)%Z) eqn:E; lia. Qed.
Lemma byte_upper x : is_byte x = true -> is_byte (upper x) = true.
Proof. unfold is_byte, upper. intros H. destruct ((97 <=? x)%Z && (x <=? 122)%Z) eqn:E; lia. Qed.

Lemma B_repl_aux nee rep : B rep -> forall hay s, B hay -> B (repl_aux nee rep s hay).
Proof.
  intros Hr. induction hay as [|x t IH]; intros s Hh; cbn [repl_aux]; [constructor|].
  assert (Hx : is_byte x = true) by (inversion Hh; auto).
  assert (Ht : B t) by (inversion Hh; auto).
  destruct s as [|k]; [|apply IH; exact Ht].
  destruct (is_prefix nee (x :: t)).
  - apply B_app; [exact Hr|apply IH; exact Ht].
  - constructor; [exact Hx|apply IH; exact Ht].
Qed.

Lemma B_replace nee rep hay : B rep -> B hay -> B (s_replace nee rep hay).
Proof. intros Hr Hh. unfold s_replace. destruct nee; auto. apply B_repl_aux; auto. Qed.

Lemma B_trim chars l : B l -> B (s_trim chars l).
Proof.
  intros H. unfold s_trim. rewrite !frev_rev. apply B_rev.
  eapply B_incl; [intros x; apply dropwhile_incl|]. apply B_rev.
  eapply B_incl; [intros x; apply dropwhile_incl|]. exact H.
Qed.

Lemma B_join sep ts : is_byte sep = true -> Forall B ts -> B (s_join sep ts).
Proof.
  intros Hs. induction ts as [|t rest IH]; intros H; [constructor|].
  assert (Ht : B t) by (inversion H; auto).
  assert (Hr : Forall B rest) by (inversion H; auto).
  destruct rest as [|t' rest'].
  - exact Ht.
  - change (s_join sep (t :: t' :: rest')) with (t ++ sep :: s_join sep (t' :: rest')).
    apply B_app; [exact Ht|]. constructor; [exact Hs|apply IH; exact Hr].
Qed.

Lemma B_substr l st ln : B l -> B (s_substr l st ln).
Proof. intros H. unfold s_substr. apply B_slice. exact H. Qed.

Lemma B_token P l start : B l -> B (fst (s_token P l start)).
Proof.
  intros H. unfold s_token. destruct (length l <=? start); [constructor|].
  destruct (find_first P (skipn start l)); cbn [fst]; [apply B_slice|apply B_skipn]; exact H.
Qed.

(* ---- the invariant of the reference state ---- *)
Definition WF (s : sstate) : Prop := Forall B (svals s) /\ Forall B (sregs s).

Lemma WF_valof s v : WF s -> B (valof s v).
Proof.
  intros (HV & _). unfold valof. destruct (nth_error (svals s) v) as [x|] eqn:E.
  - replace (nth v (svals s) []) with x by (symmetry; apply nth_nth_error; exact E).
    rewrite Forall_forall in HV. apply HV. eapply nth_error_In; eauto.
  - rewrite nth_overflow by (apply nth_error_None; exact E). constructor.
Qed.

Lemma WF_setval s v x : WF s -> B x -> WF (setval s v x).
Proof. intros (HV & HR) Hx. split; cbn; auto. apply Forall_upd; auto. Qed.

Lemma WF_pushval s x : WF s -> B x -> WF (pushval s x).
Proof. intros (HV & HR) Hx. split; cbn; auto. apply Forall_app. split; auto. Qed.

Lemma WF_reg s r : WF s -> B (nth r (sregs s) []).
Proof.
  intros (_ & HR). destruct (nth_error (sregs s) r) as [x|] eqn:E.
  - rewrite (nth_nth_error _ _ [] _ E). rewrite Forall_forall in HR. apply HR. eapply nth_error_In; eauto.
  - rewrite nth_overflow by (apply nth_error_None; exact E). constructor.
Qed.

Ltac pre_bytes :=
  repeat match goal with
         | H : _ && _ = true |- _ => apply andb_true_iff in H; destruct H
         | H : bytes _ = true |- _ => apply bytes_B in H
         | H : cbytes _ = true |- _ => unfold cbytes in H
         end.

Lemma spec_exec_WF s o : WF s -> pre s o = true -> WF (fst (spec_exec s o)).
Proof.
  intros W P.
  destruct o; cbn [spec_exec fst]; cbn [pre] in P; pre_bytes;
    try exact W;
    try (apply WF_pushval; auto using B_nil, WF_valof, B_repeat, B_substr);
    try (apply WF_setval; auto using B_nil, WF_valof, B_app, B_firstn, B_repeat, B_upd, B_slice, WF_reg,
                                     B_replace, B_trim, B_map, byte_lower, byte_upper).
  - destruct W as (HV & HR). split; cbn; apply Forall_app; split; auto.
    repeat constructor. apply B_app; auto. repeat constructor.
  - destruct W as (HV & HR). split; cbn; auto.
    destruct (svals s) as [|x t] using rev_ind; [constructor|]. rewrite removelast_last.
    apply Forall_app in HV. tauto.
  - destruct W as (HV & HR). split; cbn; auto. apply Forall_app; split; auto.
  - apply B_app; auto using WF_valof. repeat constructor; auto.
  - apply B_map; auto using WF_valof. intros x Hx. destruct (x =? a)%Z; auto.
  - apply B_join; auto. rewrite Forall_forall. intros t Ht. apply in_map_iff in Ht. destruct Ht as (u & <- & _). apply WF_valof; auto.
  - pose proof (B_token (P_chr sep) (valof s v) start (WF_valof s v W)) as T.
    destruct (s_token (P_chr sep) (valof s v) start). cbn [fst] in *. apply WF_pushval; auto.
  - pose proof (B_token (P_any seps) (valof s v) start (WF_valof s v W)) as T.
    destruct (s_token (P_any seps) (valof s v) start). cbn [fst] in *. apply WF_pushval; auto.
  - apply B_app; auto using WF_valof. repeat constructor; auto.
  - apply B_app; auto using WF_valof.
  - destruct W as (HV & HR). split; cbn; apply Forall_app; split; auto; repeat constructor.
    + apply B_app; auto. apply (WF_valof s v (conj HV HR)).
    + apply B_app; auto. repeat constructor.
  - destruct W as (HV & HR). split; cbn; apply Forall_app; split; auto; repeat constructor.
    + destruct b; repeat constructor.
    + destruct b; repeat constructor.
  - apply B_firstn; auto.
Qed.

Lemma spec_run_WF : forall ops s s' outs, WF s -> spec_run s ops = Some (s', outs) -> WF s'.
Proof.
  induction ops as [|o rest IH]; intros s s' outs W H; cbn [spec_run] in H.
  - injection H as <- _. exact W.
  - unfold spec_step in H. destruct (pre s o) eqn:P; [|discriminate].
    destruct (spec_exec s o) as (s1, r) eqn:E.
    destruct (spec_run s1 rest) as [[s2 rs]|] eqn:R; [|discriminate]. injection H as <- _.
    eapply IH; [|exact R]. pose proof (spec_exec_WF s o W P) as W1. rewrite E in W1. exact W1.
Qed.

Theorem values_are_bytes_thm : forall ops s outs, spec_run sinit ops = Some (s, outs) ->
  Forall (fun v => bytes v = true) (svals s) /\ Forall (fun r => bytes r = true) (sregs s).
Proof.
  intros ops s outs H. assert (W : WF s) by (eapply spec_run_WF; [|exact H]; split; constructor).
  destruct W as (A & C). split; eapply Forall_impl; try eassumption; intros l Hl; apply bytes_B; exact Hl.
Qed.

(* no indeterminate cell is ever visible in a String of the model *)
Theorem visible_cells_initialised_thm : forall ops w outs v h, run winit ops = Ok (w, outs) ->
  nth_error (vars w) v = Some h ->
  Forall (fun c => exists z, c = Some z /\ (0 <= z < 256)%Z) (h_cells w h).
Proof.
  intros ops w outs v h H Hv.
  pose proof (string_refines_values_thm ops) as R.
  destruct (spec_run sinit ops) as [[s o]|] eqn:S; [|congruence].
  destruct R as (w' & E & A & I). assert (w' = w) by congruence. subst w'.
  destruct (values_are_bytes_thm ops s o S) as (V & _).
  rewrite Forall_forall in V. specialize (V (h_value w h)).
  assert (Hin : In (h_value w h) (svals s)).
  { rewrite <- A. unfold abs. cbn. apply in_map. eapply nth_error_In; eauto. }
  specialize (V Hin). apply bytes_B in V. rewrite h_value_cells in V.
  unfold B in V. rewrite Forall_forall in *. intros c Hc.
  specialize (V (cval c) (in_map cval _ _ Hc)). unfold is_byte in V.
  destruct c as [z|]; cbn in V; [exists z; split; auto; lia|lia].
Qed.
