(* What the heap primitives of the model do: release / incref, allocation, detach, copy
   construction, assignment, destruction, clear, attach, the C-string view. *)
From Coq Require Import ZArith List Bool Arith Lia.
From Common Require Import ListAux.
From Str Require Import StrSpec StrModel StrLists StrInv.
Import ListNotations.

Lemma block_ok_in w b k : Inv w -> nth_error (heap w) b = Some k -> block_ok k.
Proof.
  intros I E. pose proof (inv_b w I) as B0. rewrite Forall_forall in B0. apply B0. eapply nth_error_In; eauto.
Qed.

Lemma Forall_upd {A} (P : A -> Prop) l v x : Forall P l -> P x -> Forall P (upd v x l).
Proof.
  intros F Px. rewrite Forall_forall in *. intros y Hin.
  apply In_nth_error in Hin. destruct Hin as (u & Hu).
  destruct (Nat.eq_dec u v) as [->|Hn].
  - destruct (lt_dec v (length l)).
    + rewrite nth_error_upd_same in Hu by lia. injection Hu as <-. exact Px.
    + rewrite upd_out in Hu by lia. apply F. eapply nth_error_In; eauto.
  - rewrite nth_error_upd_other in Hu by exact Hn. apply F. eapply nth_error_In; eauto.
Qed.

(* ---- release / incref of the handle of a variable ---- *)
Definition same_data (hp hp' : list block) : Prop :=
  length hp' = length hp /\
  forall b k, nth_error hp b = Some k ->
    exists k', nth_error hp' b = Some k' /\ cells k' = cells k /\ blen k' = blen k /\ bcap k' = bcap k.

Lemma same_data_refl hp : same_data hp hp.
Proof. split; auto. intros b k H. exists k. auto. Qed.

Lemma same_data_upd hp b k k' : nth_error hp b = Some k -> cells k' = cells k -> blen k' = blen k -> bcap k' = bcap k ->
  same_data hp (upd b k' hp).
Proof.
  intros E C L P. split; [apply upd_length|]. intros b0 k0 H.
  destruct (Nat.eq_dec b0 b) as [->|Hn].
  - rewrite nth_error_upd_same by (eapply nth_error_lt; eauto). exists k'. replace k0 with k by congruence. auto.
  - rewrite nth_error_upd_other by exact Hn. exists k0. auto.
Qed.

Lemma same_data_ok hp hp' : same_data hp hp' -> Forall block_ok hp -> Forall block_ok hp'.
Proof.
  intros (L & D) F. rewrite Forall_forall in *. intros k' Hin.
  apply In_nth_error in Hin. destruct Hin as (b & Hb).
  assert (Hlt : b < length hp) by (rewrite <- L; eapply nth_error_lt; eauto).
  destruct (nth_error hp b) as [k|] eqn:E; [|apply nth_error_None in E; lia].
  destruct (D b k E) as (k2 & E2 & C & Ln & Cp). replace k' with k2 by congruence.
  assert (BK : block_ok k) by (apply F; eapply nth_error_In; eauto).
  destruct BK as (B1 & B2). split; congruence.
Qed.

Lemma release_ok w v h0 : Inv w -> nth_error (vars w) v = Some h0 ->
  exists w1, release w h0 = Ok w1 /\ vars w1 = vars w /\ regs w1 = regs w /\
    same_data (heap w) (heap w1) /\
    (forall b, refc (heap w1) b + hind h0 (HBlock b) = refc (heap w) b).
Proof.
  intros I H. destruct h0 as [|r off len|b0].
  - exists w. split; [reflexivity|]. split; [reflexivity|]. split; [reflexivity|]. split; [apply same_data_refl|]. intros b. rewrite hind_empty. lia.
  - exists w. split; [reflexivity|]. split; [reflexivity|]. split; [reflexivity|]. split; [apply same_data_refl|]. intros b. rewrite hind_view. lia.
  - destruct (inv_live _ _ _ I H) as (k & E & L & BK & G). cbn. rewrite G. cbn.
    eexists. split; [reflexivity|]. cbn. split; [reflexivity|]. split; [reflexivity|]. split.
    + apply (same_data_upd _ _ k); auto.
    + intros b. rewrite refc_upd by (eapply nth_error_lt; eauto). rewrite hind_block.
      destruct (b =? b0) eqn:E1.
      * apply Nat.eqb_eq in E1. subst. rewrite Nat.eqb_refl. unfold refc. rewrite E. cbn. lia.
      * rewrite Nat.eqb_sym, E1. lia.
Qed.

Lemma incref_ok w v h0 : Inv w -> nth_error (vars w) v = Some h0 ->
  exists w1, incref w h0 = Ok w1 /\ vars w1 = vars w /\ regs w1 = regs w /\
    same_data (heap w) (heap w1) /\
    (forall b, refc (heap w1) b = refc (heap w) b + hind h0 (HBlock b)).
Proof.
  intros I H. destruct h0 as [|r off len|b0].
  - exists w. split; [reflexivity|]. split; [reflexivity|]. split; [reflexivity|]. split; [apply same_data_refl|]. intros b. rewrite hind_empty. lia.
  - exists w. split; [reflexivity|]. split; [reflexivity|]. split; [reflexivity|]. split; [apply same_data_refl|]. intros b. rewrite hind_view. lia.
  - destruct (inv_live _ _ _ I H) as (k & E & L & BK & G). cbn. rewrite G. cbn.
    eexists. split; [reflexivity|]. cbn. split; [reflexivity|]. split; [reflexivity|]. split.
    + apply (same_data_upd _ _ k); auto.
    + intros b. rewrite refc_upd by (eapply nth_error_lt; eauto). rewrite hind_block.
      destruct (b =? b0) eqn:E1.
      * apply Nat.eqb_eq in E1. subst. rewrite Nat.eqb_refl. unfold refc. rewrite E. cbn. lia.
      * rewrite Nat.eqb_sym, E1. lia.
Qed.

(* cells of the handles of w are the same in any world with the same regions and block data *)
Lemma h_cells_same_data w w' u h : Inv w -> nth_error (vars w) u = Some h ->
  regs w' = regs w -> (forall b k, nth_error (heap w) b = Some k ->
       exists k', nth_error (heap w') b = Some k' /\ cells k' = cells k /\ blen k' = blen k /\ bcap k' = bcap k) ->
  h_cells w' h = h_cells w h.
Proof.
  intros I H R D. apply h_cells_ext_data; auto.
  - intros b k -> E. destruct (D b k E) as (k' & E' & C & L & _). eauto.
  - intros b ->. destruct (inv_live _ _ _ I H) as (k & E & _). congruence.
Qed.

(* ---- fresh blocks ---- *)
Lemma cwrite_term cs n : n < length cs ->
  exists cs', cwrite cs n [Some 0%Z] = Ok cs' /\ length cs' = length cs /\
              firstn n cs' = firstn n cs /\ nth_error cs' n = Some (Some 0%Z).
Proof.
  intros H. rewrite cwrite_ok by (cbn [length]; lia).
  eexists. split; [reflexivity|]. split; [|split].
  - rewrite splice_length; cbn [length]; lia.
  - rewrite firstn_app_le by (rewrite firstn_length; lia). rewrite firstn_firstn. f_equal. lia.
  - rewrite nth_error_app2 by (rewrite firstn_length; lia).
    rewrite firstn_length. replace (n - Nat.min n (length cs)) with 0 by lia. reflexivity.
Qed.

Lemma new_cells_ok src n cap : length src <= n -> n <= cap ->
  exists cs, (do c1 <- cwrite (repeat None (S cap)) 0 src; cwrite c1 n [Some 0%Z]) = Ok cs /\
             length cs = S cap /\ firstn (length src) cs = src /\ nth_error cs n = Some (Some 0%Z).
Proof.
  intros H1 H2.
  rewrite cwrite_ok by (rewrite repeat_length; lia). cbn [bind firstn app].
  match goal with |- context [cwrite ?c n _] =>
    assert (L1 : length c = S cap) by (rewrite app_length, skipn_length, repeat_length; lia);
    destruct (cwrite_term c n) as (cs & E & L & F & T); [lia|];
    assert (F0 : firstn (length src) c = src) by apply firstn_app_exact
  end.
  exists cs. split; [exact E|]. split; [congruence|]. split; [|exact T].
  assert (X : firstn (length src) cs = firstn (length src) (firstn n cs))
    by (rewrite firstn_firstn; f_equal; lia).
  rewrite X, F, firstn_firstn. replace (Nat.min (length src) n) with (length src) by lia. exact F0.
Qed.

Lemma alloc_str_ok w src n cap : length src <= n -> n <= cap ->
  exists k, alloc_str w src n cap = Ok (mkworld (vars w) (heap w ++ [k]) (regs w), HBlock (length (heap w))) /\
            block_ok k /\ bref k = 1 /\ blen k = n /\ bcap k = cap /\
            firstn (length src) (cells k) = src /\ nth_error (cells k) n = Some (Some 0%Z).
Proof.
  intros H1 H2. destruct (new_cells_ok src n cap H1 H2) as (cs & E & L & F & T).
  unfold alloc_str.
  destruct (cwrite (repeat None (S cap)) 0 src) as [c1|] eqn:E1; cbn [bind] in *; [|discriminate].
  rewrite E. cbn [bind].
  eexists. split; [reflexivity|]. cbn. repeat split; auto; lia.
Qed.

(* ---- a variable is pointed at a fresh block after its old data was released ---- *)
Lemma retarget_new w v h0 w1 k : Inv w -> nth_error (vars w) v = Some h0 ->
  vars w1 = vars w -> regs w1 = regs w -> same_data (heap w) (heap w1) ->
  (forall b, refc (heap w1) b + hind h0 (HBlock b) = refc (heap w) b) ->
  block_ok k -> bref k = 1 ->
  let w' := set_var (mkworld (vars w1) (heap w1 ++ [k]) (regs w1)) v (HBlock (length (heap w1))) in
  Inv w' /\ frame w w' v /\ owned_at w' v (length (heap w1)) k.
Proof.
  intros I H EV ER SD RC BK R1 w'. subst w'. unfold set_var. cbn [vars heap regs].
  rewrite EV, ER. destruct SD as (SL & SD).
  assert (F1 : Forall block_ok (heap w1)) by (apply (same_data_ok (heap w)); [split; auto|apply (inv_b w I)]).
  split; [|split].
  - apply inv_retarget with (h0 := h0); auto.
    + apply Forall_app. split; auto.
    + cbn. constructor.
    + intros b. rewrite refc_app, hind_block. specialize (RC b).
      destruct (b =? length (heap w1)) eqn:E.
      * apply Nat.eqb_eq in E. subst b. rewrite Nat.eqb_refl.
        rewrite (refc_out (heap w1)) in RC by lia. rewrite (refc_out (heap w)) by lia.
        rewrite (refc_out (heap w)) in RC by lia. lia.
      * rewrite Nat.eqb_sym, E. lia.
  - split; [cbn; apply upd_length|]. split; [reflexivity|]. intros u h Hn Hu. cbn [vars].
    split; [rewrite nth_error_upd_other by auto; exact Hu|].
    apply (h_cells_same_data w _ u); auto. cbn [heap]. intros b k0 E0.
    destruct (SD b k0 E0) as (k' & E' & C). exists k'. split; auto.
    rewrite nth_error_app1; auto. eapply nth_error_lt; eauto.
  - split; [|split; auto]; cbn [vars heap].
    + apply nth_error_upd_same. eapply nth_error_lt; eauto.
    + apply nth_error_app_last.
Qed.

(* ---- reading a prefix of the visible cells ---- *)
Lemma d_read_prefix w v h n : Inv w -> nth_error (vars w) v = Some h -> n <= length (h_cells w h) ->
  d_read w h 0 n = Ok (firstn n (h_cells w h)).
Proof.
  intros I H Hn. destruct h as [|r off len|b]; cbn in *.
  - replace n with 0 by lia. reflexivity.
  - pose proof (inv_view _ _ _ _ _ I H) as V. rewrite (view_nth_error _ _ _ V).
    rewrite map_length, slice_length in Hn by lia.
    rewrite Nat.add_0_r. destruct (off + n <=? length (nth r (regs w) [])) eqn:E; [|apply Nat.leb_gt in E; lia].
    f_equal. rewrite firstn_map. f_equal. unfold slice. rewrite firstn_firstn. f_equal. lia.
  - destruct (inv_live _ _ _ I H) as (k & E & L & (B1 & B2) & G). rewrite G. rewrite E in *. cbn.
    rewrite firstn_length in Hn.
    destruct (n <=? length (cells k)) eqn:E'; [|apply Nat.leb_gt in E'; lia].
    f_equal. unfold slice. cbn. rewrite firstn_firstn. f_equal. lia.
Qed.

(* ---- detach ---- *)
Lemma detach_realloc_ok w v h0 c m : Inv w -> nth_error (vars w) v = Some h0 -> c <= m ->
  exists w' b k, detach_realloc w v h0 c m = Ok w' /\ Inv w' /\ frame w w' v /\ owned_at w' v b k /\
    blen k = c /\ bcap k = or3 m /\
    firstn (Nat.min (length (h_cells w h0)) c) (cells k) = firstn (Nat.min (length (h_cells w h0)) c) (h_cells w h0) /\
    (0 < length (h_cells w h0) \/ c = 0 -> nth_error (cells k) c = Some (Some 0%Z)).
Proof.
  intros I H Hc. unfold detach_realloc.
  rewrite (d_len_ok _ _ _ I H). cbn [bind].
  set (len := length (h_cells w h0)).
  pose proof (or3_ge m) as Hcap.
  assert (CE : exists cs,
     (if 0 <? len
      then do src <- d_read w h0 0 (Nat.min len c);
           do x <- cwrite (repeat None (S (or3 m))) 0 src; cwrite x c [Some 0%Z]
      else cwrite (repeat None (S (or3 m))) 0 [Some 0%Z]) = Ok cs /\
     length cs = S (or3 m) /\
     firstn (Nat.min len c) cs = firstn (Nat.min len c) (h_cells w h0) /\
     (0 < len \/ c = 0 -> nth_error cs c = Some (Some 0%Z))).
  { destruct (0 <? len) eqn:E0.
    - apply Nat.ltb_lt in E0.
      rewrite (d_read_prefix _ _ _ _ I H) by (subst len; lia). cbn [bind].
      destruct (new_cells_ok (firstn (Nat.min len c) (h_cells w h0)) c (or3 m)) as (cs & E & L & F & T).
      + rewrite firstn_length. lia.
      + lia.
      + exists cs. split; [exact E|]. split; [exact L|]. split; [|intros _; exact T].
        rewrite firstn_length in F. subst len.
        replace (Nat.min (Nat.min (length (h_cells w h0)) c) (length (h_cells w h0))) with (Nat.min (length (h_cells w h0)) c) in F by lia.
        exact F.
    - apply Nat.ltb_ge in E0. assert (len = 0) by lia.
      destruct (cwrite_term (repeat None (S (or3 m))) 0) as (cs & E & L & F & T).
      + rewrite repeat_length. lia.
      + exists cs. split; [exact E|]. split; [rewrite L; apply repeat_length|]. split.
        * replace (Nat.min len c) with 0 by lia. reflexivity.
        * intros [X|X]; [lia|]. subst c. exact T. }
  destruct CE as (cs & ECS & LCS & FCS & TCS). rewrite ECS. cbn [bind].
  destruct (release_ok _ _ _ I H) as (w1 & ER & EV & EG & SD & RC). rewrite ER. cbn [bind].
  set (k := mkblock cs c (or3 m) 1).
  destruct (retarget_new w v h0 w1 k I H EV EG SD RC) as (I' & F' & O').
  - split; cbn; lia.
  - reflexivity.
  - exists (set_var (mkworld (vars w1) (heap w1 ++ [k]) (regs w1)) v (HBlock (length (heap w1)))), (length (heap w1)), k.
    split; [reflexivity|]. repeat (split; [assumption|]). cbn. auto.
Qed.

Lemma detach_ok w v h0 c m : Inv w -> nth_error (vars w) v = Some h0 -> c <= m ->
  exists w' b k, detach w v c m = Ok w' /\ Inv w' /\ frame w w' v /\ owned_at w' v b k /\
    blen k = c /\ m <= bcap k /\
    firstn (Nat.min (length (h_cells w h0)) c) (cells k) = firstn (Nat.min (length (h_cells w h0)) c) (h_cells w h0) /\
    (0 < length (h_cells w h0) \/ c = 0 -> nth_error (cells k) c = Some (Some 0%Z)).
Proof.
  intros I H Hc.
  assert (RA : detach_realloc w v h0 c m = detach_realloc w v h0 c m -> 
               exists w' b k, detach_realloc w v h0 c m = Ok w' /\ Inv w' /\ frame w w' v /\ owned_at w' v b k /\
                 blen k = c /\ m <= bcap k /\
                 firstn (Nat.min (length (h_cells w h0)) c) (cells k) = firstn (Nat.min (length (h_cells w h0)) c) (h_cells w h0) /\
                 (0 < length (h_cells w h0) \/ c = 0 -> nth_error (cells k) c = Some (Some 0%Z))).
  { intros _. destruct (detach_realloc_ok w v h0 c m I H Hc) as (w' & b & k & E & I' & F' & O' & L & C & FC & T).
    exists w', b, k. repeat (split; [assumption|]). split; [|auto]. rewrite C. pose proof (or3_ge m). lia. }
  unfold detach. rewrite (get_var_ok _ _ _ H). cbn [bind].
  destruct h0 as [|r off len|b0].
  - cbn [d_ref bind Nat.eqb]. apply RA. reflexivity.
  - cbn [d_ref bind Nat.eqb]. apply RA. reflexivity.
  - destruct (inv_live _ _ _ I H) as (k0 & E & L & (B1 & B2) & G).
    cbn [d_ref]. rewrite G. cbn [bind].
    destruct (bref k0 =? 1) eqn:R1; [|cbn [bind]; apply RA; reflexivity].
    cbn [bind]. destruct (m <=? bcap k0) eqn:M; [|apply RA; reflexivity].
    apply Nat.eqb_eq in R1. apply Nat.leb_le in M.
    assert (O : owned_at w v b0 k0) by (split; [|split]; auto).
    destruct (v_setlen_term_owned w v b0 k0 c I O) as (E1 & I1 & F1 & O1); [lia|].
    eexists _, b0, _. split; [exact E1|]. split; [exact I1|]. split; [exact F1|]. split; [exact O1|].
    cbn [blen bcap cells]. split; [reflexivity|]. split; [exact M|]. split.
    + cbn [h_cells]. rewrite E. rewrite firstn_length.
      rewrite firstn_app_le by (rewrite firstn_length; lia).
      rewrite !firstn_firstn. f_equal. lia.
    + intros _. rewrite nth_error_app2 by (rewrite firstn_length; lia).
      rewrite firstn_length. replace (c - Nat.min c (length (cells k0))) with 0 by lia. reflexivity.
Qed.

(* ---- release / incref without the full invariant (intermediate states) ---- *)
Definition live_h (hp : list block) (h : handle) : Prop :=
  forall b, h = HBlock b -> exists k, nth_error hp b = Some k /\ 1 <= bref k.

Lemma live_of_inv w v h : Inv w -> nth_error (vars w) v = Some h -> live_h (heap w) h.
Proof. intros I H b ->. destruct (inv_live _ _ _ I H) as (k & E & L & _). eauto. Qed.

Lemma release_live w h0 : live_h (heap w) h0 ->
  exists w1, release w h0 = Ok w1 /\ vars w1 = vars w /\ regs w1 = regs w /\
    same_data (heap w) (heap w1) /\
    (forall b, refc (heap w1) b + hind h0 (HBlock b) = refc (heap w) b).
Proof.
  intros LV. destruct h0 as [|r off len|b0].
  - exists w. split; [reflexivity|]. split; [reflexivity|]. split; [reflexivity|]. split; [apply same_data_refl|]. intros b. rewrite hind_empty. lia.
  - exists w. split; [reflexivity|]. split; [reflexivity|]. split; [reflexivity|]. split; [apply same_data_refl|]. intros b. rewrite hind_view. lia.
  - destruct (LV b0 eq_refl) as (k & E & L).
    assert (G : get_blk w b0 = Ok k).
    { unfold get_blk. rewrite E. destruct (bref k =? 0) eqn:Z; auto. apply Nat.eqb_eq in Z. lia. }
    cbn. rewrite G. cbn.
    eexists. split; [reflexivity|]. cbn. split; [reflexivity|]. split; [reflexivity|]. split.
    + apply (same_data_upd _ _ k); auto.
    + intros b. rewrite refc_upd by (eapply nth_error_lt; eauto). rewrite hind_block.
      destruct (b =? b0) eqn:E1.
      * apply Nat.eqb_eq in E1. subst. rewrite Nat.eqb_refl. unfold refc. rewrite E. cbn. lia.
      * rewrite Nat.eqb_sym, E1. lia.
Qed.

Lemma same_data_trans a b c : same_data a b -> same_data b c -> same_data a c.
Proof.
  intros (L1 & D1) (L2 & D2). split; [congruence|]. intros x k H.
  destruct (D1 x k H) as (k1 & E1 & C1 & N1 & P1). destruct (D2 x k1 E1) as (k2 & E2 & C2 & N2 & P2).
  exists k2. repeat split; congruence.
Qed.

Lemma same_data_app a b k : same_data a b ->
  forall x k0, nth_error a x = Some k0 ->
    exists k', nth_error (b ++ [k]) x = Some k' /\ cells k' = cells k0 /\ blen k' = blen k0 /\ bcap k' = bcap k0.
Proof.
  intros (L & D) x k0 H. destruct (D x k0 H) as (k' & E & C). exists k'. split; auto.
  rewrite nth_error_app1; auto. eapply nth_error_lt; eauto.
Qed.

(* ---- a variable is pointed at an existing handle / a non-owning descriptor ---- *)
Lemma retarget_ok w v h0 hnew hp' : Inv w -> nth_error (vars w) v = Some h0 ->
  same_data (heap w) hp' -> view_ok (regs w) hnew ->
  (forall b, refc hp' b + hind h0 (HBlock b) = refc (heap w) b + hind hnew (HBlock b)) ->
  let w' := mkworld (upd v hnew (vars w)) hp' (regs w) in
  Inv w' /\ frame w w' v /\ nth_error (vars w') v = Some hnew /\
  (forall x g, nth_error (vars w) x = Some g -> h_cells w' g = h_cells w g).
Proof.
  intros I H SD V RC w'. subst w'.
  assert (HC : forall x g, nth_error (vars w) x = Some g ->
               h_cells (mkworld (upd v hnew (vars w)) hp' (regs w)) g = h_cells w g).
  { intros x g Hx. apply (h_cells_same_data w _ x); auto. apply SD. }
  split; [|split; [|split]].
  - apply inv_retarget with (h0 := h0); auto. apply (same_data_ok (heap w)); auto. apply (inv_b w I).
  - split; [cbn; apply upd_length|]. split; [reflexivity|]. intros u h Hn Hu. cbn [vars].
    split; [rewrite nth_error_upd_other by auto; exact Hu|]. eapply HC; eauto.
  - cbn. apply nth_error_upd_same. eapply nth_error_lt; eauto.
  - exact HC.
Qed.

(* ---- clear ---- *)
Lemma clear_ok w v h0 : Inv w -> nth_error (vars w) v = Some h0 ->
  exists w' h', clear w v = Ok w' /\ Inv w' /\ frame w w' v /\
    nth_error (vars w') v = Some h' /\ h_cells w' h' = [].
Proof.
  intros I H. unfold clear. rewrite (get_var_ok _ _ _ H). cbn [bind].
  assert (REL : exists w' h', (do w1 <- release w h0; Ok (set_var w1 v HEmpty)) = Ok w' /\ Inv w' /\ frame w w' v /\
                  nth_error (vars w') v = Some h' /\ h_cells w' h' = []).
  { destruct (release_ok _ _ _ I H) as (w1 & ER & EV & EG & SD & RC). rewrite ER. cbn [bind].
    destruct (retarget_ok w v h0 HEmpty (heap w1) I H SD) as (I' & F' & N' & _).
    - constructor.
    - intros b. rewrite hind_empty. specialize (RC b). lia.
    - unfold set_var. rewrite EV, EG. eexists _, HEmpty. split; [reflexivity|]. auto. }
  destruct h0 as [|r off len|b0].
  - cbn [d_ref bind Nat.eqb]. exact REL.
  - cbn [d_ref bind Nat.eqb]. exact REL.
  - destruct (inv_live _ _ _ I H) as (k0 & E & L & (B1 & B2) & G).
    cbn [d_ref]. rewrite G. cbn [bind].
    destruct (bref k0 =? 1) eqn:R1; [|exact REL].
    apply Nat.eqb_eq in R1.
    assert (O : owned_at w v b0 k0) by (split; [|split]; auto).
    rewrite (v_block_owned _ _ _ _ O). cbn [bind].
    destruct (cwrite_term (cells k0) 0) as (cs & EC & LC & _ & _); [lia|]. rewrite EC. cbn [bind].
    destruct (excl_update w v b0 k0 (mkblock cs 0 (bcap k0) (bref k0)) I O) as (I' & F' & O'); [exact R1|split; cbn; lia|].
    eexists _, (HBlock b0). split; [reflexivity|]. split; [exact I'|]. split; [exact F'|].
    split; [apply O'|]. rewrite (owned_cells _ _ _ _ O'). reflexivity.
Qed.

(* ---- attach ---- *)
Lemma attach_ok w v h0 r off len : Inv w -> nth_error (vars w) v = Some h0 ->
  off + len < length (nth r (regs w) []) ->
  exists w', attach w v r off len = Ok w' /\ Inv w' /\ frame w w' v /\
    nth_error (vars w') v = Some (HView r off len).
Proof.
  intros I H V. unfold attach. rewrite (get_var_ok _ _ _ H). cbn [bind].
  destruct (release_ok _ _ _ I H) as (w1 & ER & EV & EG & SD & RC). rewrite ER. cbn [bind].
  destruct (retarget_ok w v h0 (HView r off len) (heap w1) I H SD) as (I' & F' & N' & _).
  - exact V.
  - intros b. rewrite hind_view. specialize (RC b). lia.
  - unfold set_var. rewrite EV, EG. eexists. split; [reflexivity|]. auto.
Qed.

(* ---- operator= ---- *)
Lemma assign_ok w v u hv hu : Inv w -> nth_error (vars w) v = Some hv -> nth_error (vars w) u = Some hu ->
  exists w' h', assign w v u = Ok w' /\ Inv w' /\ frame w w' v /\
    nth_error (vars w') v = Some h' /\ h_cells w' h' = h_cells w hu.
Proof.
  intros I Hv Hu. unfold assign. rewrite (get_var_ok _ _ _ Hu), (get_var_ok _ _ _ Hv). cbn [bind].
  destruct hu as [|r off len|bu].
  - (* other is emptyData: a fresh block of capacity 3 *)
    cbn [d_ref bind Nat.eqb negb].
    destruct (release_ok _ _ _ I Hv) as (w1 & ER & EV & EG & SD & RC). rewrite ER. cbn [bind d_len d_read Nat.add Nat.leb repeat].
    destruct (alloc_str_ok w1 [] 0 (or3 0)) as (k & EA & BK & R1 & LN & CP & FC & TM); [cbn; lia|lia|].
    rewrite EA. cbn [bind fst snd].
    destruct (retarget_new w v hv w1 k I Hv EV EG SD RC BK R1) as (I' & F' & O').
    eexists _, _. split; [reflexivity|]. split; [exact I'|]. split; [exact F'|]. split; [apply O'|].
    rewrite (owned_cells _ _ _ _ O'). rewrite LN. reflexivity.
  - (* other is a view: deep copy *)
    cbn [d_ref bind Nat.eqb negb].
    destruct (release_ok _ _ _ I Hv) as (w1 & ER & EV & EG & SD & RC). rewrite ER. cbn [bind].
    pose proof (inv_view _ _ _ _ _ I Hu) as V.
    assert (RD : d_read w1 (HView r off len) 0 len = Ok (h_cells w (HView r off len))).
    { cbn. rewrite EG. rewrite (view_nth_error _ _ _ V). rewrite Nat.add_0_r.
      destruct (off + len <=? length (nth r (regs w) [])) eqn:E; [reflexivity|apply Nat.leb_gt in E; lia]. }
    cbn [d_len bind]. rewrite RD. cbn [bind].
    assert (LS : length (h_cells w (HView r off len)) = len) by (cbn; rewrite map_length, slice_length; lia).
    destruct (alloc_str_ok w1 (h_cells w (HView r off len)) len (or3 len)) as (k & EA & BK & R1 & LN & CP & FC & TM);
      [lia|apply or3_ge|].
    rewrite EA. cbn [bind fst snd].
    destruct (retarget_new w v hv w1 k I Hv EV EG SD RC BK R1) as (I' & F' & O').
    eexists _, _. split; [reflexivity|]. split; [exact I'|]. split; [exact F'|]. split; [apply O'|].
    rewrite (owned_cells _ _ _ _ O'). rewrite LN. rewrite <- LS at 1. exact FC.
  - (* other owns a block: share it *)
    destruct (inv_live _ _ _ I Hu) as (ku & Eu & Lu & BKu & Gu).
    cbn [d_ref]. rewrite Gu. cbn [bind].
    destruct (bref ku =? 0) eqn:Z; [apply Nat.eqb_eq in Z; lia|]. cbn [negb].
    destruct (incref_ok _ _ _ I Hu) as (w1 & EI & EV1 & EG1 & SD1 & RC1). rewrite EI. cbn [bind].
    assert (LV : live_h (heap w1) hv).
    { intros b ->. destruct (inv_live _ _ _ I Hv) as (k & E & L & _).
      destruct SD1 as (_ & D). destruct (D b k E) as (k' & E' & _). exists k'. split; auto.
      specialize (RC1 b). unfold refc in RC1. rewrite E', E in RC1. lia. }
    destruct (release_live w1 hv LV) as (w2 & ER & EV2 & EG2 & SD2 & RC2). rewrite ER. cbn [bind].
    destruct (retarget_ok w v hv (HBlock bu) (heap w2) I Hv) as (I' & F' & N' & HC).
    + eapply same_data_trans; eauto.
    + constructor.
    + intros b. specialize (RC1 b). specialize (RC2 b). lia.
    + unfold set_var. rewrite EV2, EV1, EG2, EG1.
      eexists _, _. split; [reflexivity|]. split; [exact I'|]. split; [exact F'|]. split; [exact N'|].
      eapply HC; eauto.
Qed.

(* ---- the C-string view ---- *)
Lemma slice_one {A} (cs : list A) n x : nth_error cs n = Some x -> slice cs n 1 = [x].
Proof.
  revert n; induction cs as [|h t IH]; intros [|n] H; cbn in *; try discriminate.
  - injection H as ->. reflexivity.
  - apply IH. exact H.
Qed.

Definition term_at (w : world) (h : handle) : Prop :=
  d_read w h (length (h_cells w h)) 1 = Ok [Some 0%Z].

Lemma cstr_ok w v h0 : Inv w -> nth_error (vars w) v = Some h0 ->
  exists w' h', cstr w v = Ok w' /\ Inv w' /\ frame w w' v /\
    nth_error (vars w') v = Some h' /\ h_cells w' h' = h_cells w h0 /\ term_at w' h'.
Proof.
  intros I H. unfold cstr. rewrite (get_var_ok _ _ _ H). cbn [bind].
  rewrite (d_len_ok _ _ _ I H). cbn [bind].
  destruct (d_read_term _ _ _ I H) as (c & RT). rewrite RT. cbn [bind].
  assert (DET : exists w' h', detach w v (length (h_cells w h0)) (length (h_cells w h0)) = Ok w' /\ Inv w' /\ frame w w' v /\
            nth_error (vars w') v = Some h' /\ h_cells w' h' = h_cells w h0 /\ term_at w' h').
  { destruct (detach_ok w v h0 (length (h_cells w h0)) (length (h_cells w h0)) I H (le_n _)) as (w' & b & k & E & I' & F' & O' & L & C & FC & T).
    exists w', (HBlock b). split; [exact E|]. split; [exact I'|]. split; [exact F'|]. split; [apply O'|].
    rewrite Nat.min_id in FC.
    assert (HC : h_cells w' (HBlock b) = h_cells w h0).
    { rewrite (owned_cells _ _ _ _ O'). rewrite L, FC. apply firstn_all. }
    split; [exact HC|]. unfold term_at. rewrite HC.
    destruct O' as (_ & Eb & Rb). cbn [d_read]. unfold get_blk. rewrite Eb, Rb. cbn [Nat.eqb bind].
    assert (BK : block_ok k) by (eapply block_ok_in; eauto). destruct BK as (B1 & B2).
    destruct (length (h_cells w h0) + 1 <=? length (cells k)) eqn:EL; [|apply Nat.leb_gt in EL; lia].
    rewrite (slice_one _ _ (Some 0%Z)); [reflexivity|]. apply T. lia. }
  destruct c as [[| |]|]; try exact DET.
  exists w, h0. split; [reflexivity|]. split; [exact I|]. split; [apply frame_refl|]. split; [exact H|].
  split; [reflexivity|]. exact RT.
Qed.

(* ---- constructors and the destructor ---- *)
Definition keeps (w w' : world) : Prop :=
  forall x g, nth_error (vars w) x = Some g -> h_cells w' g = h_cells w g.

Lemma push_owned_ok w src cap : Inv w -> length src <= cap ->
  exists w' b k, push_owned w src cap = Ok w' /\ Inv w' /\ vars w' = vars w ++ [HBlock b] /\ regs w' = regs w /\
    keeps w w' /\ h_cells w' (HBlock b) = src /\ owned_at w' (length (vars w)) b k /\ bcap k = cap.
Proof.
  intros I H. unfold push_owned.
  destruct (alloc_str_ok w src (length src) cap) as (k & EA & BK & R1 & LN & CP & FC & TM); [lia|lia|].
  rewrite EA. cbn [bind fst snd]. unfold push_var. cbn [vars heap regs].
  exists (mkworld (vars w ++ [HBlock (length (heap w))]) (heap w ++ [k]) (regs w)), (length (heap w)), k.
  split; [reflexivity|]. split; [|split; [reflexivity|split; [reflexivity|split; [|split; [|split]]]]].
  - apply (inv_push w); auto.
    + apply Forall_app. split; [apply (inv_b w I)|constructor; auto].
    + constructor.
    + intros b. rewrite refc_app, hind_block. destruct (b =? length (heap w)) eqn:E.
      * apply Nat.eqb_eq in E. subst. rewrite Nat.eqb_refl, refc_out by lia. lia.
      * rewrite Nat.eqb_sym, E. lia.
  - intros x g Hx. apply (h_cells_same_data w _ x); auto. cbn [heap].
    apply same_data_app. apply same_data_refl.
  - cbn. rewrite nth_error_app_last. rewrite LN. exact FC.
  - split; [|split; auto]; cbn.
    + apply nth_error_app_last.
    + apply nth_error_app_last.
  - exact CP.
Qed.

Lemma push_copy_ok w u h : Inv w -> nth_error (vars w) u = Some h ->
  exists w' h', push_copy w u = Ok w' /\ Inv w' /\ vars w' = vars w ++ [h'] /\ regs w' = regs w /\
    keeps w w' /\ h_cells w' h' = h_cells w h /\ (forall b, h = HBlock b -> h' = h).
Proof.
  intros I H. unfold push_copy. rewrite (get_var_ok _ _ _ H). cbn [bind].
  destruct h as [|r off len|b0].
  - cbn [d_ref bind Nat.eqb negb]. exists (push_var w HEmpty), HEmpty. split; [reflexivity|].
    split; [|split; [reflexivity|split; [reflexivity|split; [|split; [reflexivity|discriminate]]]]].
    + apply (inv_push w); [exact I|apply (inv_b w I)|constructor|intros b; rewrite hind_empty; lia].
    + intros x g Hx. reflexivity.
  - cbn [d_ref bind Nat.eqb negb d_len].
    pose proof (inv_view _ _ _ _ _ I H) as V.
    assert (LS : length (h_cells w (HView r off len)) = len) by (cbn; rewrite map_length, slice_length; lia).
    pose proof (d_read_ok _ _ _ I H) as RD. rewrite LS in RD.
    cbn [d_len bind]. rewrite RD. cbn [bind].
    destruct (alloc_str_ok w (h_cells w (HView r off len)) len (or3 len)) as (k & EA & BK & R1 & LN & CP & FC & TM);
      [lia|apply or3_ge|].
    rewrite EA. cbn [bind fst snd]. unfold push_var. cbn [vars heap regs].
    eexists _, _. split; [reflexivity|].
    split; [|split; [reflexivity|split; [reflexivity|split; [|split; [|discriminate]]]]].
    + apply (inv_push w); auto.
      * apply Forall_app. split; [apply (inv_b w I)|constructor; auto].
      * constructor.
      * intros b. rewrite refc_app, hind_block. destruct (b =? length (heap w)) eqn:E.
        -- apply Nat.eqb_eq in E. subst. rewrite Nat.eqb_refl, refc_out by lia. lia.
        -- rewrite Nat.eqb_sym, E. lia.
    + intros x g Hx. apply (h_cells_same_data w _ x); auto. cbn [heap].
      apply same_data_app. apply same_data_refl.
    + cbn [h_cells heap]. rewrite nth_error_app_last. rewrite LN. rewrite <- LS at 1. exact FC.
  - destruct (inv_live _ _ _ I H) as (k0 & E & L & BK & G).
    cbn [d_ref]. rewrite G. cbn [bind].
    destruct (bref k0 =? 0) eqn:Z; [apply Nat.eqb_eq in Z; lia|]. cbn [negb].
    destruct (incref_ok _ _ _ I H) as (w1 & EI & EV1 & EG1 & SD1 & RC1). rewrite EI. cbn [bind].
    unfold push_var. rewrite EV1, EG1.
    assert (KP : keeps w (mkworld (vars w ++ [HBlock b0]) (heap w1) (regs w))).
    { intros x g Hx. apply (h_cells_same_data w _ x); auto. apply SD1. }
    eexists _, _. split; [reflexivity|].
    split; [|split; [reflexivity|split; [reflexivity|split; [exact KP|split; [|reflexivity]]]]].
    + apply (inv_push w); auto.
      * apply (same_data_ok (heap w)); auto. apply (inv_b w I).
      * constructor.
    + eapply KP; eauto.
Qed.

Lemma pop_var_ok w l h : Inv w -> vars w = l ++ [h] ->
  exists w', pop_var w = Ok w' /\ Inv w' /\ vars w' = l /\ regs w' = regs w /\
    (forall x g, nth_error l x = Some g -> h_cells w' g = h_cells w g).
Proof.
  intros I E. unfold pop_var. rewrite E, rev_app_distr. cbn [rev app].
  assert (Hh : nth_error (vars w) (length l) = Some h) by (rewrite E; apply nth_error_app_last).
  destruct (release_ok _ _ _ I Hh) as (w1 & ER & EV & EG & SD & RC). rewrite ER. cbn [bind].
  rewrite EV, E, removelast_last.
  eexists. split; [reflexivity|]. split; [|split; [reflexivity|split; [exact EG|]]].
  - rewrite EG. apply (inv_pop w l h); auto. apply (same_data_ok (heap w)); auto. apply (inv_b w I).
  - intros x g Hx. apply (h_cells_same_data w _ x); auto.
    + rewrite E. rewrite nth_error_app1; auto. eapply nth_error_lt; eauto.
    + apply SD.
Qed.
