(* The static char functions (toLowerCase(char), toUpperCase(char), isSpace, isAlpha, ...), toBool and
   the static find(in, str) / findOneOf(in, chars): the model's table lookups, range tests and pointer
   loops compute the reference functions of StrSpec, and the classifiers agree with the case tables
   regenerated from String.cpp - for all 256 bytes (a finite sweep lifted with forallb_forall). *)
From Coq Require Import ZArith List Bool Arith Lia.
From Coq Require Import ZifyBool ZifyNat.
From Common Require Import ListAux.
From Str Require Import StrSpec StrModel Gen_Str StrLists StrFun.
Import ListNotations.
Local Open Scope Z_scope.

Definition all_cq : list cquery :=
  [CLower; CUpper; CIsSpace; CIsAlnum; CIsAlpha; CIsDigit; CIsLowerCase; CIsPrint; CIsPunct; CIsUpperCase; CIsHexDigit].

Lemma all_cq_complete q : In q all_cq.
Proof. destruct q; cbn; tauto. Qed.

Lemma byte_in_seq c : is_byte c = true -> In (Z.to_nat c) (seq 0 256) /\ Z.of_nat (Z.to_nat c) = c.
Proof. unfold is_byte. intros H. split; [apply in_seq; lia|apply Z2Nat.id; lia]. Qed.

(* ---- every char function of the model is the reference function, on all 256 bytes ---- *)
Lemma char_sweep :
  forallb (fun n => forallb (fun q => m_char q (Z.of_nat n) =? s_char q (Z.of_nat n)) all_cq) (seq 0 256) = true.
Proof. vm_compute. reflexivity. Qed.

Lemma char_mirror q c : is_byte c = true -> m_char q c = s_char q c.
Proof.
  intros H. destruct (byte_in_seq c H) as (Hin & Hc).
  pose proof char_sweep as T. rewrite forallb_forall in T. specialize (T _ Hin).
  rewrite forallb_forall in T. specialize (T q (all_cq_complete q)). rewrite Hc in T.
  apply Z.eqb_eq in T. exact T.
Qed.

(* ---- the classifiers against the regenerated tables lowerCaseMap / upperCaseMap ---- *)
Definition tables_vs_classes (c : Z) : bool :=
  Bool.eqb (m_isupper c) (negb (lowt c =? c)) &&          (* upper case letters = what lowerCaseMap moves *)
  Bool.eqb (m_islower c) (negb (uppt c =? c)) &&          (* lower case letters = what upperCaseMap moves *)
  Bool.eqb (m_isalpha c) (negb (lowt c =? uppt c)) &&     (* letters = where the two tables differ *)
  (uppt (lowt c) =? uppt c) && (lowt (uppt c) =? lowt c) &&  (* the tables are inverse on letters, idempotent *)
  (lowt (lowt c) =? lowt c) && (uppt (uppt c) =? uppt c) &&
  Bool.eqb (m_islower (lowt c)) (m_isalpha c) && Bool.eqb (m_isupper (uppt c)) (m_isalpha c) &&
  is_byte (lowt c) && is_byte (uppt c).

Lemma tables_classes_sweep : forallb (fun n => tables_vs_classes (Z.of_nat n)) (seq 0 256) = true.
Proof. vm_compute. reflexivity. Qed.

Lemma tables_classes c : is_byte c = true -> tables_vs_classes c = true.
Proof.
  intros H. destruct (byte_in_seq c H) as (Hin & Hc).
  pose proof tables_classes_sweep as T. rewrite forallb_forall in T. specialize (T _ Hin). rewrite Hc in T. exact T.
Qed.

Theorem char_functions_thm : forall c, is_byte c = true ->
  (forall q, m_char q c = s_char q c) /\
  (m_isupper c = true <-> lowt c <> c) /\ (m_islower c = true <-> uppt c <> c) /\
  (m_isalpha c = true <-> lowt c <> uppt c) /\
  uppt (lowt c) = uppt c /\ lowt (uppt c) = lowt c /\
  (m_isalpha c = true -> m_islower (lowt c) = true /\ m_isupper (uppt c) = true).
Proof.
  intros c H. split; [intros q; apply char_mirror; exact H|].
  pose proof (tables_classes c H) as T. unfold tables_vs_classes in T.
  repeat match goal with H : _ && _ = true |- _ => apply andb_true_iff in H; destruct H end.
  repeat match goal with H : Bool.eqb _ _ = true |- _ => apply Bool.eqb_prop in H end.
  repeat match goal with H : (_ =? _) = true |- _ => apply Z.eqb_eq in H end.
  split; [|split; [|split; [|split; [|split]]]]; auto.
  - match goal with E : m_isupper c = _ |- _ => rewrite E end. rewrite negb_true_iff, Z.eqb_neq. tauto.
  - match goal with E : m_islower c = _ |- _ => rewrite E end. rewrite negb_true_iff, Z.eqb_neq. tauto.
  - match goal with E : m_isalpha c = _ |- _ => rewrite E end. rewrite negb_true_iff, Z.eqb_neq. tauto.
  - intros A. split; congruence.
Qed.

(* ---- toBool ---- *)
Lemma nulfree_dropwhile f l : nulfree l = true -> nulfree (dropwhile f l) = true.
Proof.
  induction l as [|x t IH]; intros H; cbn [dropwhile]; auto.
  destruct (f x); auto. apply IH. apply nulfree_cons in H. tauto.
Qed.

Lemma skip0_dropwhile l : nulfree l = true -> m_skip0 (l ++ [0]) = dropwhile is0 l ++ [0].
Proof.
  induction l as [|x t IH]; intros H; cbn [app m_skip0 dropwhile]; auto.
  unfold is0 at 1. destruct (x =? 48) eqn:E; [|reflexivity].
  apply IH. apply nulfree_cons in H. tauto.
Qed.

Lemma dropwhile_nil_forallb f l : (match dropwhile f l with [] => true | _ => false end) = forallb f l.
Proof.
  induction l as [|x t IH]; cbn [dropwhile forallb]; auto.
  destruct (f x); cbn [andb]; auto.
Qed.

Lemma tobool_tail_spec a : nulfree a = true -> m_tobool_tail a = negb (zero_dot_zero a).
Proof.
  intros N. unfold m_tobool_tail, zero_dot_zero. rewrite (skip0_dropwhile a N).
  pose proof (nulfree_dropwhile is0 a N) as ND.
  destruct (dropwhile is0 a) as [|x r] eqn:D; cbn [app].
  - reflexivity.
  - destruct (x =? 46) eqn:E; cbn [andb negb]; [|reflexivity].
    apply nulfree_cons in ND. destruct ND as (_ & NR).
    rewrite (skip0_dropwhile r NR). f_equal.
    pose proof (dropwhile_nil_forallb is0 r) as F.
    pose proof (nulfree_dropwhile is0 r NR) as NR2.
    destruct (dropwhile is0 r) as [|y r2] eqn:D2; cbn [app hd length].
    + rewrite <- F. cbn [andb Z.eqb]. f_equal.
      * rewrite app_length. cbn [length]. destruct r; cbn [nonempty length]; [reflexivity|].
        apply Nat.ltb_lt. lia.
      * destruct a as [|y t]; cbn [app hd]; reflexivity.
    + rewrite <- F. apply nulfree_cons in NR2. destruct NR2 as (NY & _). rewrite NY. reflexivity.
Qed.

Lemma tobool_early a :
  (length a =? 0)%nat
  || ((length a =? length false_text)%nat && (m_cmp (map lowt a) (map lowt false_text) =? 0))
  || ((length a =? 1)%nat && list_eqb a [48])
  = negb (nonempty a) || list_eqb (map lower a) false_text || list_eqb a [48].
Proof.
  f_equal; [f_equal|].
  - destruct a; reflexivity.
  - rewrite m_cmp_eqb, !map_lowt. change (map lower false_text) with false_text.
    rewrite <- (map_length lower a). apply list_eqb_len.
  - change 1%nat with (length [48]). apply list_eqb_len.
Qed.

(* ---- the static find(in, str) / findOneOf(in, chars) are the reference searches ---- *)
Lemma zidx_oidx o : zidx o = oidx o.
Proof. reflexivity. Qed.
