(* The heap invariant of the String model and what each primitive (detach, copy, assign,
   release, writes through an exclusively owned block) does to it and to the values of the
   other variables. *)
From Coq Require Import ZArith List Bool Arith Lia.
From Common Require Import ListAux.
From Str Require Import StrSpec StrModel StrLists.
Import ListNotations.

Arguments or3 : simpl never.

(* the visible cells data->str[0 .. len) of a handle *)
Definition h_cells (w : world) (h : handle) : list cell :=
  match h with
  | HEmpty => []
  | HView r off len => map Some (slice (nth r (regs w) []) off len)
  | HBlock b => match nth_error (heap w) b with Some k => firstn (blen k) (cells k) | None => [] end
  end.

Lemma h_value_cells w h : h_value w h = map cval (h_cells w h).
Proof.
  destruct h as [|r off len|b]; cbn; auto.
  - rewrite map_cval_some. reflexivity.
  - destruct (nth_error (heap w) b); reflexivity.
Qed.

(* ---- the invariant ---- *)
Definition block_ok (k : block) : Prop := length (cells k) = S (bcap k) /\ blen k <= bcap k.
Definition refc (hp : list block) (b : nat) : nat := match nth_error hp b with Some k => bref k | None => 0 end.
Definition view_ok (rg : list (list Z)) (h : handle) : Prop :=
  match h with HView r off len => off + len < length (nth r rg []) | _ => True end.
Definition hind := ind handle_dec.

Record Inv (w : world) : Prop := {
  inv_v : Forall (view_ok (regs w)) (vars w);
  inv_b : Forall block_ok (heap w);
  inv_r : forall b, refc (heap w) b = count_occ handle_dec (vars w) (HBlock b)   (* ref = number of handles *)
}.

Lemma inv_init : Inv winit.
Proof. split; cbn; auto. intros b. unfold refc. destruct b; reflexivity. Qed.

Lemma refc_app hp k b : refc (hp ++ [k]) b = if b =? length hp then bref k else refc hp b.
Proof.
  unfold refc. destruct (b =? length hp) eqn:E.
  - apply Nat.eqb_eq in E. subst. rewrite nth_error_app_last. reflexivity.
  - apply Nat.eqb_neq in E. destruct (lt_dec b (length hp)).
    + rewrite nth_error_app1 by lia. reflexivity.
    + rewrite (proj2 (nth_error_None _ _)) by (rewrite app_length; cbn; lia).
      rewrite (proj2 (nth_error_None _ _)) by lia. reflexivity.
Qed.

Lemma refc_upd hp b0 k b : b0 < length hp -> refc (upd b0 k hp) b = if b =? b0 then bref k else refc hp b.
Proof.
  intros H. unfold refc. destruct (b =? b0) eqn:E.
  - apply Nat.eqb_eq in E. subst. rewrite nth_error_upd_same by lia. reflexivity.
  - apply Nat.eqb_neq in E. rewrite nth_error_upd_other by lia. reflexivity.
Qed.

Lemma refc_out hp b : length hp <= b -> refc hp b = 0.
Proof. intros H. unfold refc. rewrite (proj2 (nth_error_None _ _)) by lia. reflexivity. Qed.

Lemma hind_block b b' : hind (HBlock b) (HBlock b') = if b =? b' then 1 else 0.
Proof.
  unfold hind, ind. destruct (handle_dec (HBlock b) (HBlock b')) as [E|E].
  - injection E as ->. rewrite Nat.eqb_refl. reflexivity.
  - destruct (b =? b') eqn:E'; auto. apply Nat.eqb_eq in E'. subst. congruence.
Qed.
Lemma hind_nonblock h b : (forall b', h <> HBlock b') -> hind h (HBlock b) = 0.
Proof. intros H. unfold hind, ind. destruct (handle_dec h (HBlock b)); auto. exfalso. eapply H; eauto. Qed.
Lemma hind_empty b : hind HEmpty (HBlock b) = 0.
Proof. apply hind_nonblock. congruence. Qed.
Lemma hind_view r o l b : hind (HView r o l) (HBlock b) = 0.
Proof. apply hind_nonblock. congruence. Qed.

(* a variable's block is live *)
Lemma inv_live w v b : Inv w -> nth_error (vars w) v = Some (HBlock b) ->
  exists k, nth_error (heap w) b = Some k /\ 1 <= bref k /\ block_ok k /\ get_blk w b = Ok k.
Proof.
  intros I H. pose proof (inv_r w I b) as R.
  pose proof (count_pos_nth handle_dec _ _ _ H) as C.
  unfold refc in R. destruct (nth_error (heap w) b) as [k|] eqn:E; [|lia].
  exists k. repeat split; try lia.
  - pose proof (inv_b w I) as B. rewrite Forall_forall in B. apply B. eapply nth_error_In; eauto.
  - pose proof (inv_b w I) as B. rewrite Forall_forall in B. apply B. eapply nth_error_In; eauto.
  - unfold get_blk. rewrite E. destruct (bref k =? 0) eqn:Z; auto. apply Nat.eqb_eq in Z. lia.
Qed.

Lemma inv_view w v r off len : Inv w -> nth_error (vars w) v = Some (HView r off len) ->
  off + len < length (nth r (regs w) []).
Proof.
  intros I H. pose proof (inv_v w I) as V. rewrite Forall_forall in V.
  apply (V (HView r off len)). eapply nth_error_In; eauto.
Qed.

Lemma view_nth_error (rg : list (list Z)) r n : n < length (nth r rg []) -> nth_error rg r = Some (nth r rg []).
Proof.
  intros H. destruct (lt_dec r (length rg)).
  - apply nth_error_nth'. lia.
  - rewrite nth_overflow in H by lia. cbn in H. lia.
Qed.

(* ---- reading a variable ---- *)
Lemma get_var_ok w v h : nth_error (vars w) v = Some h -> get_var w v = Ok h.
Proof. intros H. unfold get_var. rewrite H. reflexivity. Qed.

Lemma d_len_ok w v h : Inv w -> nth_error (vars w) v = Some h -> d_len w h = Ok (length (h_cells w h)).
Proof.
  intros I H. destruct h as [|r off len|b]; cbn.
  - reflexivity.
  - pose proof (inv_view _ _ _ _ _ I H). rewrite map_length, slice_length by lia. reflexivity.
  - destruct (inv_live _ _ _ I H) as (k & E & L & (B1 & B2) & G). rewrite G, E. cbn.
    rewrite firstn_length. f_equal. lia.
Qed.

Lemma d_read_ok w v h : Inv w -> nth_error (vars w) v = Some h ->
  d_read w h 0 (length (h_cells w h)) = Ok (h_cells w h).
Proof.
  intros I H. destruct h as [|r off len|b]; cbn.
  - reflexivity.
  - pose proof (inv_view _ _ _ _ _ I H) as V. rewrite (view_nth_error _ _ _ V).
    rewrite map_length, slice_length by lia.
    rewrite Nat.add_0_r. destruct (off + len <=? length (nth r (regs w) [])) eqn:E.
    + reflexivity.
    + apply Nat.leb_gt in E. lia.
  - destruct (inv_live _ _ _ I H) as (k & E & L & (B1 & B2) & G). rewrite G, E. cbn.
    rewrite firstn_length. replace (Nat.min (blen k) (length (cells k))) with (blen k) by lia.
    destruct (blen k <=? length (cells k)) eqn:E'.
    + reflexivity.
    + apply Nat.leb_gt in E'. lia.
Qed.

Lemma var_len_ok w v h : Inv w -> nth_error (vars w) v = Some h -> var_len w v = Ok (length (h_cells w h)).
Proof. intros I H. unfold var_len. rewrite (get_var_ok _ _ _ H). cbn. eapply d_len_ok; eauto. Qed.

Lemma var_cells_ok w v h : Inv w -> nth_error (vars w) v = Some h -> var_cells w v = Ok (h_cells w h).
Proof.
  intros I H. unfold var_cells. rewrite (get_var_ok _ _ _ H). cbn.
  rewrite (d_len_ok _ _ _ I H). cbn. eapply d_read_ok; eauto.
Qed.

Lemma var_bytes_ok w v h : Inv w -> nth_error (vars w) v = Some h -> var_bytes w v = Ok (h_value w h).
Proof.
  intros I H. unfold var_bytes. rewrite (var_cells_ok _ _ _ I H). cbn. rewrite h_value_cells. reflexivity.
Qed.

(* the byte at length() is readable *)
Lemma d_read_term w v h : Inv w -> nth_error (vars w) v = Some h ->
  exists c, d_read w h (length (h_cells w h)) 1 = Ok [c].
Proof.
  intros I H. destruct h as [|r off len|b]; cbn.
  - eexists; reflexivity.
  - pose proof (inv_view _ _ _ _ _ I H) as V. rewrite (view_nth_error _ _ _ V).
    rewrite map_length, slice_length by lia.
    destruct (off + len + 1 <=? length (nth r (regs w) [])) eqn:E; [|apply Nat.leb_gt in E; lia].
    unfold slice. remember (skipn (off + len) (nth r (regs w) [])) as s.
    assert (L : 1 <= length s) by (subst s; rewrite skipn_length; lia).
    destruct s as [|x s]; cbn in L; [lia|]. cbn. eexists; reflexivity.
  - destruct (inv_live _ _ _ I H) as (k & E & L & (B1 & B2) & G). rewrite G, E. cbn.
    rewrite firstn_length. replace (Nat.min (blen k) (length (cells k))) with (blen k) by lia.
    destruct (blen k + 1 <=? length (cells k)) eqn:E'; [|apply Nat.leb_gt in E'; lia].
    unfold slice. remember (skipn (blen k) (cells k)) as s.
    assert (L' : 1 <= length s) by (subst s; rewrite skipn_length; lia).
    destruct s as [|x s]; cbn in L'; [lia|]. cbn. eexists; reflexivity.
Qed.

(* ---- re-establishing the invariant ---- *)
Lemma view_ok_app rg x h : view_ok rg h -> view_ok (rg ++ [x]) h.
Proof.
  destruct h as [|r off len|b]; cbn; auto. intros H.
  destruct (lt_dec r (length rg)).
  - rewrite app_nth1 by lia. exact H.
  - rewrite nth_overflow in H by lia. cbn in H. lia.
Qed.

Lemma inv_retarget w v h0 hnew hp' :
  Inv w -> nth_error (vars w) v = Some h0 ->
  Forall block_ok hp' -> view_ok (regs w) hnew ->
  (forall b, refc hp' b + hind h0 (HBlock b) = refc (heap w) b + hind hnew (HBlock b)) ->
  Inv (mkworld (upd v hnew (vars w)) hp' (regs w)).
Proof.
  intros I H B V R. split; cbn.
  - pose proof (inv_v w I) as V0. rewrite Forall_forall in *. intros h Hin.
    apply In_nth_error in Hin. destruct Hin as (u & Hu).
    destruct (Nat.eq_dec u v) as [->|Hn].
    + rewrite nth_error_upd_same in Hu by (eapply nth_error_lt; eauto). injection Hu as <-. exact V.
    + rewrite nth_error_upd_other in Hu by exact Hn. apply V0. eapply nth_error_In; eauto.
  - exact B.
  - intros b. pose proof (count_upd handle_dec (vars w) v hnew h0 (HBlock b) H) as C.
    pose proof (inv_r w I b) as R0. specialize (R b). unfold hind in R. lia.
Qed.

Lemma inv_push w hnew hp' :
  Inv w -> Forall block_ok hp' -> view_ok (regs w) hnew ->
  (forall b, refc hp' b = refc (heap w) b + hind hnew (HBlock b)) ->
  Inv (mkworld (vars w ++ [hnew]) hp' (regs w)).
Proof.
  intros I B V R. split; cbn.
  - apply Forall_app. split; [apply (inv_v w I)|constructor; auto].
  - exact B.
  - intros b. rewrite count_app_last. rewrite R, (inv_r w I b). reflexivity.
Qed.

Lemma inv_pop w l h hp' :
  Inv w -> vars w = l ++ [h] -> Forall block_ok hp' ->
  (forall b, refc hp' b + hind h (HBlock b) = refc (heap w) b) ->
  Inv (mkworld l hp' (regs w)).
Proof.
  intros I E B R. split; cbn.
  - pose proof (inv_v w I) as V. rewrite E in V. apply Forall_app in V. tauto.
  - exact B.
  - intros b. pose proof (inv_r w I b) as R0. rewrite E, count_app_last in R0. specialize (R b). unfold hind in R. lia.
Qed.

Lemma inv_set_blk w b k k' : Inv w -> nth_error (heap w) b = Some k -> bref k' = bref k -> block_ok k' ->
  Inv (set_blk w b k').
Proof.
  intros I E R B. split; cbn.
  - apply (inv_v w I).
  - pose proof (inv_b w I) as B0. rewrite Forall_forall in *. intros x Hin.
    apply In_nth_error in Hin. destruct Hin as (u & Hu).
    destruct (Nat.eq_dec u b) as [->|Hn].
    + rewrite nth_error_upd_same in Hu by (eapply nth_error_lt; eauto). injection Hu as <-. exact B.
    + rewrite nth_error_upd_other in Hu by exact Hn. apply B0. eapply nth_error_In; eauto.
  - intros b'. rewrite refc_upd by (eapply nth_error_lt; eauto).
    destruct (b' =? b) eqn:E'.
    + apply Nat.eqb_eq in E'. subst. rewrite R. pose proof (inv_r w I b) as R0. unfold refc in R0. rewrite E in R0. exact R0.
    + apply (inv_r w I).
Qed.

Lemma inv_regs_app w x : Inv w -> Inv (mkworld (vars w) (heap w) (regs w ++ [x])).
Proof.
  intros I. split; cbn.
  - pose proof (inv_v w I) as V. rewrite Forall_forall in *. intros h Hin. apply view_ok_app. auto.
  - apply (inv_b w I).
  - apply (inv_r w I).
Qed.

(* ---- frames: what a primitive acting on variable v leaves alone ---- *)
Definition frame (w w' : world) (v : nat) : Prop :=
  length (vars w') = length (vars w) /\ regs w' = regs w /\
  forall u h, u <> v -> nth_error (vars w) u = Some h ->
              nth_error (vars w') u = Some h /\ h_cells w' h = h_cells w h.

Lemma frame_refl w v : frame w w v.
Proof. repeat split; auto. Qed.

Lemma frame_trans w1 w2 w3 v : frame w1 w2 v -> frame w2 w3 v -> frame w1 w3 v.
Proof.
  intros (L1 & R1 & F1) (L2 & R2 & F2). repeat split; try congruence.
  - destruct (F1 u h H H0) as (A & _). destruct (F2 u h H A) as (A' & _). exact A'.
  - destruct (F1 u h H H0) as (A & C). destruct (F2 u h H A) as (A' & C'). congruence.
Qed.

(* cells of a handle depend only on the regions and on its own block *)
Lemma h_cells_ext w w' h :
  regs w' = regs w ->
  (forall b, h = HBlock b -> nth_error (heap w') b = nth_error (heap w) b) ->
  h_cells w' h = h_cells w h.
Proof.
  intros R B. destruct h as [|r off len|b]; cbn; auto.
  - rewrite R. reflexivity.
  - rewrite (B b eq_refl). reflexivity.
Qed.

Lemma h_cells_ext_data w w' h :
  regs w' = regs w ->
  (forall b k, h = HBlock b -> nth_error (heap w) b = Some k ->
               exists k', nth_error (heap w') b = Some k' /\ cells k' = cells k /\ blen k' = blen k) ->
  (forall b, h = HBlock b -> nth_error (heap w) b <> None) ->
  h_cells w' h = h_cells w h.
Proof.
  intros R B N. destruct h as [|r off len|b]; cbn; auto.
  - rewrite R. reflexivity.
  - destruct (nth_error (heap w) b) as [k|] eqn:E.
    + destruct (B b k eq_refl E) as (k' & E' & C & L). rewrite E', C, L. reflexivity.
    + exfalso. eapply N; eauto.
Qed.

(* ---- exclusive ownership ---- *)
Definition owned_at (w : world) (v b : nat) (k : block) : Prop :=
  nth_error (vars w) v = Some (HBlock b) /\ nth_error (heap w) b = Some k /\ bref k = 1.

Lemma owned_excl w v b k u : Inv w -> owned_at w v b k -> nth_error (vars w) u = Some (HBlock b) -> u = v.
Proof.
  intros I (Hv & Hb & R) Hu.
  pose proof (inv_r w I b) as C. unfold refc in C. rewrite Hb, R in C.
  eapply count_one_unique; eauto.
Qed.

Lemma excl_update w v b k k' : Inv w -> owned_at w v b k -> bref k' = 1 -> block_ok k' ->
  Inv (set_blk w b k') /\ frame w (set_blk w b k') v /\ owned_at (set_blk w b k') v b k'.
Proof.
  intros I O R B. pose proof O as (Hv & Hb & R0). split; [|split].
  - eapply inv_set_blk; eauto. congruence.
  - split; [reflexivity|]. split; [reflexivity|]. intros u h Hn Hu. split; [exact Hu|].
    apply h_cells_ext; auto. intros b' ->. cbn.
    apply nth_error_upd_other. intros ->. apply Hn. eapply owned_excl; eauto.
  - split; [exact Hv|]. split; [|exact R]. cbn.
    apply nth_error_upd_same. eapply nth_error_lt; eauto.
Qed.

Lemma v_block_owned w v b k : owned_at w v b k -> v_block w v = Ok (b, k).
Proof.
  intros (Hv & Hb & R). unfold v_block. rewrite (get_var_ok _ _ _ Hv). cbn.
  unfold get_blk. rewrite Hb, R. reflexivity.
Qed.

Lemma block_ok_cells k cs n : block_ok k -> length cs = length (cells k) -> n <= bcap k ->
  block_ok (mkblock cs n (bcap k) (bref k)).
Proof. intros (A & B) L N. split; cbn; lia. Qed.

(* the three writes through an exclusively owned block *)
Lemma v_write_owned w v b k off l : Inv w -> owned_at w v b k -> off + length l <= S (bcap k) ->
  let k' := mkblock (firstn off (cells k) ++ l ++ skipn (off + length l) (cells k)) (blen k) (bcap k) (bref k) in
  v_write w v off l = Ok (set_blk w b k') /\
  Inv (set_blk w b k') /\ frame w (set_blk w b k') v /\ owned_at (set_blk w b k') v b k'.
Proof.
  intros I O Hb k'. pose proof O as (Hv & Hk & R).
  assert (BK : block_ok k).
  { pose proof (inv_b w I) as B0. rewrite Forall_forall in B0. apply B0. eapply nth_error_In; eauto. }
  destruct BK as (B1 & B2).
  split.
  - unfold v_write. rewrite (v_block_owned _ _ _ _ O). cbn. rewrite cwrite_ok by lia. reflexivity.
  - apply excl_update with (k := k); auto.
    split; cbn; [rewrite splice_length; lia|lia].
Qed.

Lemma v_setlen_term_owned w v b k n : Inv w -> owned_at w v b k -> n <= bcap k ->
  let k' := mkblock (firstn n (cells k) ++ [Some 0%Z] ++ skipn (n + 1) (cells k)) n (bcap k) (bref k) in
  v_setlen_term w v n = Ok (set_blk w b k') /\
  Inv (set_blk w b k') /\ frame w (set_blk w b k') v /\ owned_at (set_blk w b k') v b k'.
Proof.
  intros I O Hb k'. pose proof O as (Hv & Hk & R).
  assert (BK : block_ok k).
  { pose proof (inv_b w I) as B0. rewrite Forall_forall in B0. apply B0. eapply nth_error_In; eauto. }
  destruct BK as (B1 & B2).
  split.
  - unfold v_setlen_term. rewrite (v_block_owned _ _ _ _ O). cbn. rewrite cwrite_ok by (cbn; lia). reflexivity.
  - apply excl_update with (k := k); auto.
    subst k'. split; cbn [cells blen bcap]; [|lia].
    change ([Some 0%Z] ++ skipn (n + 1) (cells k)) with ([Some 0%Z] ++ skipn (n + length [Some 0%Z]) (cells k)).
    rewrite splice_length; cbn; lia.
Qed.

Lemma v_setlen_owned w v b k n : Inv w -> owned_at w v b k -> n <= bcap k ->
  let k' := mkblock (cells k) n (bcap k) (bref k) in
  v_setlen w v n = Ok (set_blk w b k') /\
  Inv (set_blk w b k') /\ frame w (set_blk w b k') v /\ owned_at (set_blk w b k') v b k'.
Proof.
  intros I O Hb k'. pose proof O as (Hv & Hk & R).
  assert (BK : block_ok k).
  { pose proof (inv_b w I) as B0. rewrite Forall_forall in B0. apply B0. eapply nth_error_In; eauto. }
  destruct BK as (B1 & B2).
  split.
  - unfold v_setlen. rewrite (v_block_owned _ _ _ _ O). reflexivity.
  - apply excl_update with (k := k); auto. split; cbn; lia.
Qed.

Lemma owned_cells w v b k : owned_at w v b k -> h_cells w (HBlock b) = firstn (blen k) (cells k).
Proof. intros (_ & Hb & _). cbn. rewrite Hb. reflexivity. Qed.

(* the same three facts with the new world and block kept abstract *)
Lemma v_write_ok w v b k off l : Inv w -> owned_at w v b k -> off + length l <= S (bcap k) ->
  exists w' k', v_write w v off l = Ok w' /\ Inv w' /\ frame w w' v /\ owned_at w' v b k' /\
    cells k' = firstn off (cells k) ++ l ++ skipn (off + length l) (cells k) /\ blen k' = blen k /\ bcap k' = bcap k.
Proof.
  intros I O H. destruct (v_write_owned w v b k off l I O H) as (E & I' & F' & O').
  eexists _, _. split; [exact E|]. split; [exact I'|]. split; [exact F'|]. split; [exact O'|]. cbn. auto.
Qed.

Lemma v_setlen_term_ok w v b k n : Inv w -> owned_at w v b k -> n <= bcap k ->
  exists w' k', v_setlen_term w v n = Ok w' /\ Inv w' /\ frame w w' v /\ owned_at w' v b k' /\
    cells k' = firstn n (cells k) ++ [Some 0%Z] ++ skipn (n + 1) (cells k) /\ blen k' = n /\ bcap k' = bcap k.
Proof.
  intros I O H. destruct (v_setlen_term_owned w v b k n I O H) as (E & I' & F' & O').
  eexists _, _. split; [exact E|]. split; [exact I'|]. split; [exact F'|]. split; [exact O'|]. cbn. auto.
Qed.

Lemma v_setlen_ok w v b k n : Inv w -> owned_at w v b k -> n <= bcap k ->
  exists w' k', v_setlen w v n = Ok w' /\ Inv w' /\ frame w w' v /\ owned_at w' v b k' /\
    cells k' = cells k /\ blen k' = n /\ bcap k' = bcap k.
Proof.
  intros I O H. destruct (v_setlen_owned w v b k n I O H) as (E & I' & F' & O').
  eexists _, _. split; [exact E|]. split; [exact I'|]. split; [exact F'|]. split; [exact O'|]. cbn. auto.
Qed.

(* reading through a handle that is not (or no longer) a variable's: views and the empty string
   depend on the regions only *)
Lemma d_nonblock_ok w h : view_ok (regs w) h -> (forall b, h <> HBlock b) ->
  d_len w h = Ok (length (h_cells w h)) /\ d_read w h 0 (length (h_cells w h)) = Ok (h_cells w h).
Proof.
  intros V N. destruct h as [|r off len|b]; cbn in *.
  - auto.
  - rewrite map_length, slice_length by lia. split; [reflexivity|].
    rewrite (view_nth_error _ _ _ V). rewrite Nat.add_0_r.
    destruct (off + len <=? length (nth r (regs w) [])) eqn:E; [reflexivity|apply Nat.leb_gt in E; lia].
  - exfalso. eapply N; eauto.
Qed.

Lemma h_cells_nonblock w w' h : regs w' = regs w -> (forall b, h <> HBlock b) -> h_cells w' h = h_cells w h.
Proof. intros R N. apply h_cells_ext; auto. intros b ->. exfalso. eapply N; eauto. Qed.
