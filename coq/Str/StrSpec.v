(* Reference object of property C06: k independent byte-string VALUES (plain lists of bytes) plus
   the immutable foreign buffers (string literals, attached memory) they may be created from.
   Nothing in this file looks at the representation of String: every operation is a pure
   function on lists.  [pre] is the domain of the property (indices valid, arguments are bytes,
   operands of the C-string based searches are NUL-free byte strings); outside it the reference is silent
   ([spec_step] = None, printed as "! not-accepted").

   What [pre] restricts, operation by operation:
   * total on byte strings (embedded NUL, 0x80..0xff included): construction, attach, copy/assign,
     append/prepend (also from the own text), resize/reserve/clear, poke, replace(char,char), case mapping,
     trim (only the [chars] argument is a C string), substr, join, ==, == literal, compare, compare(n),
     compareIgnoreCase, compareIgnoreCase(n), equalsIgnoreCase, equalsIgnoreCase(n), find(char),
     findLast(char), startsWith, endsWith, length.
   * NUL-free VALUE required (the operation is built on strstr / strpbrk / strchr, the "C-string based
     searches" of the quantifier): replace(String,String) (text and needle), token(char) and
     token(set), split (List and HashSet), find(char, start), find/findOneOf/findLast/findLastOf of a
     C-string argument, printf with the own text as "%s" argument, and the static const char*
     helpers (their arguments are C strings by type).  On a value with an embedded NUL the code
     stops searching at that byte (e.g. replace "b" by "x" in 61 62 00 61 62 gives 61 78 00 61 62,
     split of 61 2c 62 00 63 2c 64 at 2c gives 61 | 62 00 63 2c 64); the reference does not say what
     the answer should be there.

   Choices of this reference where the property text is silent (they follow the documented or evident
   behaviour of the code and are visible here rather than hidden in the model):
   * find(x, start) answers "not found" whenever start > length(); at start = length() the empty needle (and nothing
     else) is found there, as in every reference byte string ([find_from]; round 5, fix 10 - before, the code
     refused start = length() also for the empty needle).  token(char, start) answers the empty token whenever
     start >= length() ([s_token]); token(set, start) is only specified for start <= length() (the code reads at
     str + start).
   * attach(str, len) is specified for off + len < |buffer| STRICTLY: one more byte of foreign memory must
     be readable behind the window, because the C-string view inspects str[len] before deciding to copy.
   * PRECONDITION of attach (round 5, second audit finding A): the attached range is memory the CALLER keeps alive -
     a foreign buffer ([OAttach v r off len] names a region).  It must not lie inside the block the String itself
     owns: attach() releases that block (it is not memory the caller keeps alive after the call), so
     s.attach((const char pointer)s + 1, 3) on an owned s views freed memory.  "Including when an argument is the
     String itself" of the property text is about VALUE arguments (append / prepend / assign / replace / join /
     printf / + with the String or a pointer into its text: the value is read, as if from a copy); attach takes no
     value, it takes over a memory range, and no repair short of copying (which would make attach an assign) gives
     the self-range case a meaning.  Attaching to the window the String ALREADY views (not owned) is fine and driven.
   * resize(n) beyond length() is the composite "resize, then write the n - length() exposed bytes
     through operator char*()" ([OResize v n c] fills with c): the bytes resize() itself exposes are
     indeterminate in the code and are never observed.
   * printf / fromPrintf: the bytes vsnprintf produces are an argument of the operation.
   * split into a HashSet is observed as the lexicographically sorted set of tokens.
   * round 3: concatenation (operator+=, operator+ with a String, a char, a literal; d = v + u) is list append, total on
     byte strings.  fromBool gives "true" / "false" (and, like a literal, a new foreign buffer holding the text).
     fromCString(str) takes a C string, fromCString(str, n) the first n bytes of a buffer of at least n bytes.
     toBool reads the C-string view (NUL-free values); [s_tobool] is false exactly for the empty text, "false" in any
     case, "0", and zeros around one decimal point with at least one zero - "00", "0.0." and "0x" are true.  toBool
     and the classifiers isSpace ... isHexDigit are NOT operations of the property text: [s_tobool] / [s_char]
     describe the code, and [seen] (end of this file) removes their results from the property-level observation
     (round 5).  The static char functions are ASCII ([lower], [upper], membership in explicit alphabets); the static find(in, str) /
     findOneOf(in, chars) are the first-occurrence searches on two C strings.  scanf is not part of this reference. *)
From Coq Require Import ZArith List Bool Arith Lia.
From Common Require Import ListAux.
Import ListNotations.
Local Open Scope Z_scope.

Definition value := list Z.

Definition slice {A} (l : list A) (off n : nat) : list A := firstn n (skipn off l).

(* ---- observable results of one operation ---- *)
Inductive out :=
| RNone
| RInt (z : Z)
| RCStr (l : list Z) (t : option Z)      (* bytes of the C-string view up to length(), byte at length() *)
| RList (l : list (list Z)).

(* queries through the static const char* helpers (on the C-string views of two values), and the
   member equalsIgnoreCase(other, len) *)
Inductive squery := QCompare | QCompareN (n : nat) | QCompareIC | QCompareICN (n : nat) | QEqualsICN (n : nat)
                  | QStartsWith | QLength | QFindC (c : Z) | QFindLastC (c : Z)
                  | QFindStr | QFindOneOfStr.        (* the static find(in, str) / findOneOf(in, chars) *)

(* the static functions on one char: the case maps and the classifiers *)
Inductive cquery := CLower | CUpper | CIsSpace | CIsAlnum | CIsAlpha | CIsDigit | CIsLowerCase | CIsPrint | CIsPunct
                  | CIsUpperCase | CIsHexDigit.

(* ---- operations (variables are numbered in creation order) ---- *)
Inductive op :=
(* constructors push a new variable; ODrop destroys the youngest one *)
| ONew | OLit (l : list Z) | OBuf (l : list Z) | OFill (n : nat) (c : Z) | OCap (n : nat) | OCopy (u : nat) | ODrop
| OReg (l : list Z)                              (* a new foreign buffer *)
| OAttach (v r off len : nat)
| OAssign (v u : nat) | OClear (v : nat) | ODetach (v : nat)
| OResize (v n : nat) (c : Z)                    (* resize, exposed bytes then written through operator char*() *)
| OReserve (v n : nat) | OPoke (v i : nat) (c : Z)
| OCStr (v : nat)
| OAppendS (v u : nat) | OAppendB (v : nat) (l : list Z) | OAppendC (v : nat) (c : Z)
| OPrependS (v u : nat) | OPrependB (v : nat) (l : list Z)
| OReplaceC (v : nat) (a b : Z) | OReplaceS (v n r : nat) | OLower (v : nat) | OUpper (v : nat)
| OTrim (v : nat) (chars : list Z)
| OPrintf (v : nat) (l : list Z)                 (* l = the bytes vsnprintf produced *)
| OJoin (v : nat) (us : list nat) (sep : Z)
| OSubstr (v : nat) (start len : Z)
| OTokenC (v : nat) (sep : Z) (start : nat) | OTokenS (v : nat) (seps : list Z) (start : nat)
| OSplit (v : nat) (seps : list Z) (skipEmpty : bool)
| OEq (v u : nat) | OCompare (v u : nat) | OCompareN (v u n : nat) | OCompareIC (v u : nat) | OCompareICN (v u n : nat)
| OEqualsIC (v u : nat)
| OFindC (v : nat) (c : Z) | OFindLastC (v : nat) (c : Z) | OFindCFrom (v : nat) (c : Z) (start : nat)
| OFindS (v : nat) (l : list Z) | OFindSFrom (v : nat) (l : list Z) (start : nat)
| OFindOneOf (v : nat) (l : list Z) | OFindOneOfFrom (v : nat) (l : list Z) (start : nat)
| OFindLastS (v : nat) (l : list Z) | OFindLastOf (v : nat) (l : list Z)
| OStartsWith (v u : nat) | OEndsWith (v u : nat) | OLen (v : nat)
(* arguments that point into the String's own text: p = the C-string view of variable v itself *)
| OAppendOwn (v off len : nat)                   (* v.append(p + off, len) *)
| OPrintfSelf (v : nat) (a b : list Z)           (* v.printf("<a>%s<b>", p) *)
| OEqLit (v : nat) (l : list Z)                  (* v == "literal", v != "literal" (the array overloads) *)
| OSplitSet (v : nat) (seps : list Z) (skipEmpty : bool)   (* split into a HashSet: the set of tokens *)
| OFromPrintf (l : list Z)                       (* the static fromPrintf; l = the bytes vsnprintf produced; pushes *)
| OStat (q : squery) (v u : nat)
(* round 3: concatenation operators, fromBool / fromCString / toBool, the static char functions *)
| OPlusEqS (v u : nat)                           (* v += u            (operator+=(const String&)) *)
| OPlusEqC (v : nat) (c : Z)                     (* v += c            (operator+=(char)) *)
| OPlus (v u : nat)                              (* a new variable initialised with  v + u *)
| OPlusLit (v : nat) (l : list Z)                (* a new variable initialised with  v + "literal" (the array overload) *)
| OPlusAssign (d v u : nat)                      (* d = v + u         (d, v, u may all be the same variable) *)
| OFromBool (b : bool)                           (* a new variable initialised with fromBool(b) *)
| OFromCStr (l : list Z)                         (* ... with fromCString(str), str a C string *)
| OFromCStrN (l : list Z) (n : nat)              (* ... with fromCString(str, n), str a buffer of at least n bytes *)
| OToBool (v : nat)
| OChar (q : cquery) (c : Z)                     (* toLowerCase(c), toUpperCase(c), isSpace(c), isAlpha(c), ... *)
(* round 5: the prepend counterpart of OAppendOwn *)
| OPrependOwn (v off len : nat).                 (* v.prepend(p + off, len), p = the C-string view of v itself *)

(* ---- pure reference functions ---- *)
Definition is_byte (b : Z) : bool := (0 <=? b) && (b <? 256).
Definition bytes (l : list Z) : bool := forallb is_byte l.
Definition nulfree (l : list Z) : bool := forallb (fun b => negb (b =? 0)) l.
Definition cbytes (l : list Z) : bool := bytes l && nulfree l.       (* a C string argument *)

Definition lower (c : Z) : Z := if (65 <=? c) && (c <=? 90) then c + 32 else c.
Definition upper (c : Z) : Z := if (97 <=? c) && (c <=? 122) then c - 32 else c.

Fixpoint lexcmp (a b : list Z) : Z :=
  match a, b with
  | [], [] => 0
  | [], _ :: _ => -1
  | _ :: _, [] => 1
  | x :: a', y :: b' => if x <? y then -1 else if y <? x then 1 else lexcmp a' b'
  end.

Fixpoint list_eqb (a b : list Z) : bool :=
  match a, b with
  | [], [] => true
  | x :: a', y :: b' => (x =? y) && list_eqb a' b'
  | _, _ => false
  end.

Fixpoint is_prefix (p l : list Z) : bool :=
  match p, l with
  | [], _ => true
  | x :: p', y :: l' => (x =? y) && is_prefix p' l'
  | _ :: _, [] => false
  end.

Definition memb (c : Z) (s : list Z) : bool := existsb (Z.eqb c) s.

(* index of the first position satisfying a predicate on the suffix starting there *)
Fixpoint find_first (P : list Z -> bool) (l : list Z) : option nat :=
  if P l then Some O else
  match l with
  | [] => None
  | _ :: t => option_map S (find_first P t)
  end.
Fixpoint find_last (P : list Z -> bool) (l : list Z) : option nat :=
  match l with
  | [] => if P [] then Some O else None
  | _ :: t => match find_last P t with
              | Some i => Some (S i)
              | None => if P l then Some O else None
              end
  end.

Definition P_sub (needle : list Z) (suffix : list Z) : bool := is_prefix needle suffix.
Definition P_chr (c : Z) (suffix : list Z) : bool := match suffix with x :: _ => x =? c | [] => false end.
Definition P_any (cs : list Z) (suffix : list Z) : bool := match suffix with x :: _ => memb x cs | [] => false end.

Definition oidx (o : option nat) : Z := match o with Some i => Z.of_nat i | None => -1 end.
(* search in the suffix from [start]; result as offset in the whole string.  A start behind the end finds nothing; at
   start = length() the suffix is the empty string, in which only the empty needle occurs (what every reference byte
   string answers: std::string::find, bytes.find, strstr on the terminator) *)
Definition find_from (P : list Z -> bool) (l : list Z) (start : nat) : Z :=
  if (length l <? start)%nat then -1
  else match find_first P (skipn start l) with Some i => Z.of_nat (start + i) | None => -1 end.

(* replace every non-overlapping occurrence, left to right; an empty needle occurs nowhere *)
Fixpoint repl_aux (needle repl : list Z) (skip : nat) (hay : list Z) : list Z :=
  match hay with
  | [] => []
  | x :: t =>
    match skip with
    | S k => repl_aux needle repl k t
    | O => if is_prefix needle hay then repl ++ repl_aux needle repl (length needle - 1) t
           else x :: repl_aux needle repl O t
    end
  end.
Definition s_replace (needle repl hay : list Z) : list Z :=
  match needle with [] => hay | _ => repl_aux needle repl O hay end.

Fixpoint dropwhile (f : Z -> bool) (l : list Z) : list Z :=
  match l with [] => [] | x :: t => if f x then dropwhile f t else l end.
(* list reversal in linear time (List.rev is quadratic, which matters for the 2^16-byte values of the check);
   frev l = rev l is StrLists.frev_rev *)
Definition frev {A} (l : list A) : list A := rev_append l [].
Definition s_trim (chars l : list Z) : list Z :=
  frev (dropwhile (fun c => memb c chars) (frev (dropwhile (fun c => memb c chars) l))).

(* substr(start, length) with the documented clamping (negative start counts from the end,
   negative length = to the end) *)
Definition s_substr (l : list Z) (start len : Z) : list Z :=
  let n := Z.of_nat (length l) in
  let st := if start <? 0 then Z.max 0 (n + start) else Z.min start n in
  let en := if 0 <=? len then Z.min (st + len) n else n in
  slice l (Z.to_nat st) (Z.to_nat (en - st)).

(* token(separator set, start): the piece from start up to the next separator and the new start *)
Definition s_token (P : list Z -> bool) (l : list Z) (start : nat) : list Z * nat :=
  if (length l <=? start)%nat then ([], length l)
  else match find_first P (skipn start l) with
       | Some k => (slice l start k, (start + k + 1)%nat)
       | None => (skipn start l, length l)
       end.

(* split at every separator byte *)
Fixpoint split_all (seps : list Z) (cur : list Z) (l : list Z) : list (list Z) :=
  match l with
  | [] => [frev cur]
  | x :: t => if memb x seps then frev cur :: split_all seps [] t else split_all seps (x :: cur) t
  end.
Definition nonempty (l : list Z) : bool := match l with [] => false | _ => true end.
Definition s_split (seps l : list Z) (skipEmpty : bool) : list (list Z) :=
  let ps := split_all seps [] l in if skipEmpty then filter nonempty ps else ps.

Fixpoint s_join (sep : Z) (ts : list (list Z)) : list Z :=
  match ts with
  | [] => []
  | [t] => t
  | t :: rest => t ++ sep :: s_join sep rest
  end.

Definition b2z (b : bool) : Z := if b then 1 else 0.

(* a set of byte strings, printed in lexicographic order *)
Fixpoint ins_uniq (x : list Z) (l : list (list Z)) : list (list Z) :=
  match l with
  | [] => [x]
  | y :: t => let c := lexcmp x y in if c <? 0 then x :: l else if c =? 0 then l else y :: ins_uniq x t
  end.
Definition set_of (l : list (list Z)) : list (list Z) := fold_right ins_uniq [] l.

Definition s_stat (q : squery) (a b : list Z) : Z :=
  match q with
  | QCompare => lexcmp a b
  | QCompareN n => lexcmp (firstn n a) (firstn n b)
  | QCompareIC => lexcmp (map lower a) (map lower b)
  | QCompareICN n => lexcmp (map lower (firstn n a)) (map lower (firstn n b))
  | QEqualsICN n => b2z (list_eqb (map lower (firstn n a)) (map lower (firstn n b)))
  | QStartsWith => b2z (is_prefix b a)
  | QLength => Z.of_nat (length a)
  | QFindC c => oidx (find_first (P_chr c) a)
  | QFindLastC c => oidx (find_last (P_chr c) a)
  | QFindStr => oidx (find_first (P_sub b) a)
  | QFindOneOfStr => oidx (find_first (P_any b) a)
  end.

(* ---- fromBool / toBool ---- *)
Definition true_text : list Z := [116; 114; 117; 101].
Definition false_text : list Z := [102; 97; 108; 115; 101].
Definition bool_text (b : bool) : list Z := if b then true_text else false_text.

(* the texts toBool() takes for false: the empty text, "false" in any case, "0", and zeros around one
   decimal point with at least one zero ("0.", ".0", "00.000"); everything else - also "00" - is true *)
Definition is0 (c : Z) : bool := c =? 48.
Definition zero_dot_zero (l : list Z) : bool :=
  match dropwhile is0 l with
  | x :: r => (x =? 46) && forallb is0 r && (nonempty r || match l with y :: _ => is0 y | [] => false end)
  | [] => false
  end.
Definition s_tobool (l : list Z) : bool :=
  negb (negb (nonempty l) || list_eqb (map lower l) false_text || list_eqb l [48] || zero_dot_zero l).

(* ---- the static char functions: ASCII, written as membership in explicit alphabets ---- *)
Definition set_digit : list Z := [48; 49; 50; 51; 52; 53; 54; 55; 56; 57].
Definition set_upper : list Z := [65; 66; 67; 68; 69; 70; 71; 72; 73; 74; 75; 76; 77; 78; 79; 80; 81; 82; 83; 84; 85; 86; 87; 88; 89; 90].
Definition set_lower : list Z := [97; 98; 99; 100; 101; 102; 103; 104; 105; 106; 107; 108; 109; 110; 111; 112; 113; 114; 115; 116; 117; 118;
                                  119; 120; 121; 122].
Definition set_hexletter : list Z := [65; 66; 67; 68; 69; 70; 97; 98; 99; 100; 101; 102].
Definition set_space : list Z := [9; 10; 11; 12; 13; 32].            (* \t \n \v \f \r and the blank *)
Definition set_punct : list Z := [33; 34; 35; 36; 37; 38; 39; 40; 41; 42; 43; 44; 45; 46; 47; 58; 59; 60; 61; 62; 63; 64;
                                  91; 92; 93; 94; 95; 96; 123; 124; 125; 126].
Definition c_alpha (c : Z) : bool := memb c set_upper || memb c set_lower.
Definition c_alnum (c : Z) : bool := c_alpha c || memb c set_digit.
Definition s_char (q : cquery) (c : Z) : Z :=
  match q with
  | CLower => lower c
  | CUpper => upper c
  | CIsSpace => b2z (memb c set_space)
  | CIsAlnum => b2z (c_alnum c)
  | CIsAlpha => b2z (c_alpha c)
  | CIsDigit => b2z (memb c set_digit)
  | CIsLowerCase => b2z (memb c set_lower)
  | CIsPrint => b2z (c_alnum c || memb c set_punct || (c =? 32))
  | CIsPunct => b2z (memb c set_punct)
  | CIsUpperCase => b2z (memb c set_upper)
  | CIsHexDigit => b2z (memb c set_digit || memb c set_hexletter)
  end.

(* ---- the reference state: values + immutable foreign buffers ---- *)
Record sstate := mksstate { svals : list value; sregs : list (list Z) }.
Definition sinit : sstate := mksstate [] [].

Definition valof (s : sstate) (v : nat) : value := nth v (svals s) [].
Definition setval (s : sstate) (v : nat) (x : value) : sstate := mksstate (upd v x (svals s)) (sregs s).
Definition pushval (s : sstate) (x : value) : sstate := mksstate (svals s ++ [x]) (sregs s).
Definition has (s : sstate) (v : nat) : bool := (v <? length (svals s))%nat.

(* the domain of the property *)
Definition pre (s : sstate) (o : op) : bool :=
  match o with
  | ONew => true
  | OLit l | OBuf l => bytes l
  | OFill _ c => is_byte c
  | OCap _ => true
  | OCopy u => has s u
  | ODrop => (0 <? length (svals s))%nat
  | OReg l => bytes l
  | OAttach v r off len => has s v && (r <? length (sregs s))%nat && (off + len <? length (nth r (sregs s) []))%nat
  | OAssign v u | OAppendS v u | OPrependS v u | OEq v u | OStartsWith v u | OEndsWith v u => has s v && has s u
  | OClear v | ODetach v | OReserve v _ | OCStr v | OLower v | OUpper v | OLen v => has s v
  | OResize v _ c => has s v && is_byte c
  | OPoke v i c => has s v && (i <? length (valof s v))%nat && is_byte c
  | OAppendB v l | OPrependB v l => has s v && bytes l
  | OAppendC v c => has s v && is_byte c
  | OReplaceC v a b => has s v && is_byte a && is_byte b
  | OReplaceS v n r => has s v && has s n && has s r && cbytes (valof s v) && cbytes (valof s n)
  | OTrim v chars => has s v && cbytes chars            (* chars is a C-string argument; the value is any byte string *)
  | OPrintf v l => has s v && cbytes l
  | OJoin v us sep => has s v && forallb (has s) us && is_byte sep
  | OSubstr v _ _ => has s v
  | OTokenC v sep _ => has s v && is_byte sep && negb (sep =? 0) && cbytes (valof s v)
  | OTokenS v seps start => has s v && cbytes seps && cbytes (valof s v) && (start <=? length (valof s v))%nat
  | OSplit v seps _ => has s v && cbytes seps && cbytes (valof s v)
  | OCompare v u | OCompareIC v u | OEqualsIC v u | OCompareN v u _ | OCompareICN v u _ =>
      has s v && has s u                                 (* comparisons are total: any byte strings *)
  | OFindC v c | OFindLastC v c => has s v && is_byte c
  | OFindCFrom v c _ => has s v && is_byte c && negb (c =? 0) && cbytes (valof s v)
  | OFindS v l | OFindOneOf v l | OFindLastS v l | OFindLastOf v l | OFindSFrom v l _ | OFindOneOfFrom v l _ =>
      has s v && cbytes l && cbytes (valof s v)
  | OAppendOwn v off len | OPrependOwn v off len => has s v && (off + len <=? length (valof s v))%nat
  | OPrintfSelf v a b => has s v && cbytes a && cbytes b && cbytes (valof s v)
  | OEqLit v l => has s v && cbytes l
  | OSplitSet v seps _ => has s v && cbytes seps && cbytes (valof s v)
  | OFromPrintf l => cbytes l
  | OStat q v u =>
      has s v && has s u &&
      match q with
      | QEqualsICN _ => true                             (* a member on the values: any byte strings *)
      | QFindC c | QFindLastC c => is_byte c && cbytes (valof s v) && cbytes (valof s u)
      | _ => cbytes (valof s v) && cbytes (valof s u)    (* const char* arguments: C strings *)
      end
  | OPlusEqS v u | OPlus v u => has s v && has s u         (* concatenation is total on byte strings *)
  | OPlusEqC v c => has s v && is_byte c
  | OPlusLit v l => has s v && bytes l
  | OPlusAssign d v u => has s d && has s v && has s u
  | OFromBool _ => true
  | OFromCStr l => cbytes l                                (* a const char* argument: a C string *)
  | OFromCStrN l n => bytes l && (n <=? length l)%nat
  | OToBool v => has s v && cbytes (valof s v)             (* reads the C-string view *)
  | OChar _ c => is_byte c
  end.

Definition spec_exec (s : sstate) (o : op) : sstate * out :=
  match o with
  | ONew => (pushval s [], RNone)
  | OLit l => (mksstate (svals s ++ [l]) (sregs s ++ [l ++ [0]]), RNone)
  | OBuf l => (pushval s l, RNone)
  | OFill n c => (pushval s (repeat c n), RNone)
  | OCap _ => (pushval s [], RNone)
  | OCopy u => (pushval s (valof s u), RNone)
  | ODrop => (mksstate (removelast (svals s)) (sregs s), RNone)
  | OReg l => (mksstate (svals s) (sregs s ++ [l]), RNone)
  | OAttach v r off len => (setval s v (slice (nth r (sregs s) []) off len), RNone)
  | OAssign v u => (setval s v (valof s u), RNone)
  | OClear v => (setval s v [], RNone)
  | ODetach v | OReserve v _ => (s, RNone)
  | OResize v n c => (setval s v (firstn n (valof s v) ++ repeat c (n - length (valof s v))), RNone)
  | OPoke v i c => (setval s v (upd i c (valof s v)), RNone)
  | OCStr v => (s, RCStr (valof s v) (Some 0))
  | OAppendS v u => (setval s v (valof s v ++ valof s u), RNone)
  | OAppendB v l => (setval s v (valof s v ++ l), RNone)
  | OAppendC v c => (setval s v (valof s v ++ [c]), RNone)
  | OPrependS v u => (setval s v (valof s u ++ valof s v), RNone)
  | OPrependB v l => (setval s v (l ++ valof s v), RNone)
  | OReplaceC v a b => (setval s v (map (fun x => if x =? a then b else x) (valof s v)), RNone)
  | OReplaceS v n r => (setval s v (s_replace (valof s n) (valof s r) (valof s v)), RNone)
  | OLower v => (setval s v (map lower (valof s v)), RNone)
  | OUpper v => (setval s v (map upper (valof s v)), RNone)
  | OTrim v chars => (setval s v (s_trim chars (valof s v)), RNone)
  | OPrintf v l => (setval s v l, RInt (Z.of_nat (length l)))
  | OJoin v us sep => (setval s v (s_join sep (map (valof s) us)), RNone)
  | OSubstr v st ln => (pushval s (s_substr (valof s v) st ln), RNone)
  | OTokenC v sep start => let (t, st') := s_token (P_chr sep) (valof s v) start in (pushval s t, RInt (Z.of_nat st'))
  | OTokenS v seps start => let (t, st') := s_token (P_any seps) (valof s v) start in (pushval s t, RInt (Z.of_nat st'))
  | OSplit v seps skip => (s, RList (s_split seps (valof s v) skip))
  | OEq v u => (s, RInt (b2z (list_eqb (valof s v) (valof s u))))
  | OCompare v u => (s, RInt (lexcmp (valof s v) (valof s u)))
  | OCompareN v u n => (s, RInt (lexcmp (firstn n (valof s v)) (firstn n (valof s u))))
  | OCompareIC v u => (s, RInt (lexcmp (map lower (valof s v)) (map lower (valof s u))))
  | OCompareICN v u n => (s, RInt (lexcmp (map lower (firstn n (valof s v))) (map lower (firstn n (valof s u)))))
  | OEqualsIC v u => (s, RInt (b2z (list_eqb (map lower (valof s v)) (map lower (valof s u)))))
  | OFindC v c => (s, RInt (oidx (find_first (P_chr c) (valof s v))))
  | OFindLastC v c => (s, RInt (oidx (find_last (P_chr c) (valof s v))))
  | OFindCFrom v c start => (s, RInt (find_from (P_chr c) (valof s v) start))
  | OFindS v l => (s, RInt (oidx (find_first (P_sub l) (valof s v))))
  | OFindSFrom v l start => (s, RInt (find_from (P_sub l) (valof s v) start))
  | OFindOneOf v l => (s, RInt (oidx (find_first (P_any l) (valof s v))))
  | OFindOneOfFrom v l start => (s, RInt (find_from (P_any l) (valof s v) start))
  | OFindLastS v l => (s, RInt (oidx (find_last (P_sub l) (valof s v))))
  | OFindLastOf v l => (s, RInt (oidx (find_last (P_any l) (valof s v))))
  | OStartsWith v u => (s, RInt (b2z (is_prefix (valof s u) (valof s v))))
  | OEndsWith v u => (s, RInt (b2z (is_prefix (rev (valof s u)) (rev (valof s v)))))
  | OLen v => (s, RInt (Z.of_nat (length (valof s v))))
  | OAppendOwn v off len => (setval s v (valof s v ++ slice (valof s v) off len), RNone)
  | OPrintfSelf v a b => let l := a ++ valof s v ++ b in (setval s v l, RInt (Z.of_nat (length l)))
  | OEqLit v l => (s, RInt (b2z (list_eqb (valof s v) l)))
  | OSplitSet v seps skip => (s, RList (set_of (s_split seps (valof s v) skip)))
  | OFromPrintf l => (pushval s l, RNone)
  | OStat q v u => (s, RInt (s_stat q (valof s v) (valof s u)))
  | OPlusEqS v u => (setval s v (valof s v ++ valof s u), RNone)
  | OPlusEqC v c => (setval s v (valof s v ++ [c]), RNone)
  | OPlus v u => (pushval s (valof s v ++ valof s u), RNone)
  | OPlusLit v l => (mksstate (svals s ++ [valof s v ++ l]) (sregs s ++ [l ++ [0]]), RNone)
  | OPlusAssign d v u => (setval s d (valof s v ++ valof s u), RNone)
  | OFromBool b => (mksstate (svals s ++ [bool_text b]) (sregs s ++ [bool_text b ++ [0]]), RNone)
  | OFromCStr l => (pushval s l, RNone)
  | OFromCStrN l n => (pushval s (firstn n l), RNone)
  | OToBool v => (s, RInt (b2z (s_tobool (valof s v))))
  | OChar q c => (s, RInt (s_char q c))
  | OPrependOwn v off len => (setval s v (slice (valof s v) off len ++ valof s v), RNone)
  end.

Definition spec_step (s : sstate) (o : op) : option (sstate * out) :=
  if pre s o then Some (spec_exec s o) else None.

(* a history: the reference stops at the first operation outside its domain *)
Fixpoint spec_run (s : sstate) (ops : list op) : option (sstate * list out) :=
  match ops with
  | [] => Some (s, [])
  | o :: rest =>
    match spec_step s o with
    | None => None
    | Some (s1, r) =>
      match spec_run s1 rest with
      | None => None
      | Some (s2, rs) => Some (s2, r :: rs)
      end
    end
  end.

(* ---- round 5: default arguments ----
   String.hpp declares  trim(const char* chars = " \t\r\n\v"),  substr(ssize start, ssize length = -1)  and
   split(tokens, separators, bool skipEmpty = true)  (List and HashSet).  A call that leaves the argument out is the
   call with the declared value: the abbreviations below are what the operations "trimd", "substrd", "splitd",
   "splitsetd" of the harness (s.trim(), s.substr(start), s.split(list, seps), s.split(set, seps)) mean.  They are
   instances of OTrim / OSubstr / OSplit / OSplitSet, so every theorem about all histories covers them. *)
Definition trim_default : list Z := [32; 9; 13; 10; 11].           (* blank \t \r \n \v *)
Definition OTrimD (v : nat) : op := OTrim v trim_default.
Definition OSubstrD (v : nat) (start : Z) : op := OSubstr v start (-1).
Definition OSplitD (v : nat) (seps : list Z) : op := OSplit v seps true.
Definition OSplitSetD (v : nat) (seps : list Z) : op := OSplitSet v seps true.

(* ---- round 5: what of a result the PROPERTY TEXT constrains ----
   The text lists the operations (construction, attach, append/prepend, assignment, resize/reserve, replace, case
   mapping, trim, substr, token/split/join, printf) and the queries (length, comparison, search, prefix/suffix,
   the C-string view).  toBool and the character classifiers isSpace ... isHexDigit are not among them: their
   reference functions [s_tobool] / [s_char] describe the code as it is, the refinement theorem proves the model
   equal to them, and model and implementation are compared on them (correspondence), but a different answer is not
   a violation of the property.  [seen s o r] is the property-level observation of result r of operation o run in
   state s: None = the text does not say. *)
Definition classifier (q : cquery) : bool := match q with CLower | CUpper => false | _ => true end.
Definition seen (s : sstate) (o : op) (r : out) : option out :=
  match o with
  | OToBool _ => None
  | OChar q _ => if classifier q then None else Some r
  | _ => Some r
  end.
