From Coq Require Extraction ExtrOcamlBasic.
From Common Require Import Words.
From Str Require Import StrSpec StrModel.
Extraction Language OCaml.
Extraction "model.ml" anchor step exec abs winit spec_step sinit h_value cval live_blocks seen OTrimD OSubstrD OSplitD OSplitSetD.
