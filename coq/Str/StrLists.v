(* List lemmas used by the String proofs: upd / nth_error, counting occurrences, slices,
   bounds-checked array writes. *)
From Coq Require Import ZArith List Bool Arith Lia.
From Common Require Import ListAux.
From Str Require Import StrSpec StrModel.
Import ListNotations.

Lemma nth_error_upd_same {A} (l : list A) v x : v < length l -> nth_error (upd v x l) v = Some x.
Proof.
  revert v; induction l as [|h t IH]; intros [|v] H; cbn in *; try lia; auto. apply IH; lia.
Qed.

Lemma nth_error_upd_other {A} (l : list A) u v x : u <> v -> nth_error (upd v x l) u = nth_error l u.
Proof.
  revert u v; induction l as [|h t IH]; intros [|u] [|v] H; cbn; auto; try lia.
Qed.

Lemma upd_out {A} (l : list A) v x : length l <= v -> upd v x l = l.
Proof.
  revert v; induction l as [|h t IH]; intros [|v] H; cbn in *; auto; try lia. f_equal; apply IH; lia.
Qed.

Lemma upd_upd {A} (l : list A) v x y : upd v y (upd v x l) = upd v y l.
Proof. revert v; induction l as [|h t IH]; intros [|v]; cbn; auto. f_equal; apply IH. Qed.

Lemma nth_error_app_last {A} (l : list A) x : nth_error (l ++ [x]) (length l) = Some x.
Proof. rewrite nth_error_app2 by lia. rewrite Nat.sub_diag. reflexivity. Qed.

Lemma nth_error_lt {A} (l : list A) v x : nth_error l v = Some x -> v < length l.
Proof. intros H. apply nth_error_Some. congruence. Qed.

Lemma nth_nth_error {A} (l : list A) v d x : nth_error l v = Some x -> nth v l d = x.
Proof. intros H. apply nth_error_nth. exact H. Qed.

Lemma map_upd {A B} (f : A -> B) l v x : map f (upd v x l) = upd v (f x) (map f l).
Proof. revert v; induction l as [|h t IH]; intros [|v]; cbn; auto. f_equal; apply IH. Qed.

Lemma nth_error_ext' {A} (l l' : list A) : (forall n, nth_error l n = nth_error l' n) -> l = l'.
Proof.
  revert l'; induction l as [|h t IH]; intros [|h' t'] H; auto.
  - specialize (H 0); discriminate.
  - specialize (H 0); discriminate.
  - f_equal. + specialize (H 0). cbn in H. congruence. + apply IH. intros n. exact (H (S n)).
Qed.

Lemma upd_ext_nth {A} (l l' : list A) v x :
  length l' = length l -> v < length l ->
  nth_error l' v = Some x ->
  (forall u, u <> v -> nth_error l' u = nth_error l u) ->
  l' = upd v x l.
Proof.
  intros HL Hv Hx Ho.
  symmetry. apply nth_error_ext'. intros u. symmetry.
  destruct (Nat.eq_dec u v) as [->|Hn].
  - rewrite nth_error_upd_same by exact Hv. exact Hx.
  - rewrite nth_error_upd_other by exact Hn. apply Ho; exact Hn.
Qed.

(* ---- counting ---- *)
Section Count.
  Context {A : Type} (dec : forall a b : A, {a = b} + {a <> b}).
  Definition ind (a b : A) : nat := if dec a b then 1 else 0.

  Lemma count_app_last l x y : count_occ dec (l ++ [x]) y = count_occ dec l y + ind x y.
  Proof. rewrite count_occ_app. cbn. unfold ind. destruct (dec x y); lia. Qed.

  Lemma count_upd l v x old y :
    nth_error l v = Some old ->
    count_occ dec (upd v x l) y + ind old y = count_occ dec l y + ind x y.
  Proof.
    unfold ind. revert v; induction l as [|h t IH]; intros [|v] H; cbn in *; try discriminate.
    - injection H as ->. destruct (dec old y), (dec x y); lia.
    - specialize (IH v H). destruct (dec h y); lia.
  Qed.

  Lemma count_removelast l x y : count_occ dec (removelast (l ++ [x])) y = count_occ dec l y.
  Proof. rewrite removelast_last. reflexivity. Qed.

  Lemma count_one_unique l x u v :
    count_occ dec l x = 1 -> nth_error l u = Some x -> nth_error l v = Some x -> u = v.
  Proof.
    revert u v; induction l as [|h t IH]; intros u v Hc Hu Hv.
    - destruct u; discriminate.
    - cbn in Hc. destruct (dec h x) as [->|Hn].
      + assert (Hz : count_occ dec t x = 0) by lia.
        assert (Hnin : ~ In x t) by (apply count_occ_not_In with (eq_dec := dec); exact Hz).
        destruct u as [|u], v as [|v]; auto; cbn in *.
        * exfalso. apply Hnin. eapply nth_error_In; eauto.
        * exfalso. apply Hnin. eapply nth_error_In; eauto.
        * exfalso. apply Hnin. eapply nth_error_In; eauto.
      + destruct u as [|u], v as [|v]; cbn in *; try congruence.
        f_equal. eapply IH; eauto.
  Qed.

  Lemma count_pos_nth l x v : nth_error l v = Some x -> 1 <= count_occ dec l x.
  Proof.
    intros H. apply nth_error_In in H. apply (count_occ_In dec) in H. lia.
  Qed.
End Count.

(* ---- slices and array writes ---- *)
Lemma slice_0 {A} (l : list A) n : slice l 0 n = firstn n l.
Proof. reflexivity. Qed.

Lemma slice_length {A} (l : list A) off n : off + n <= length l -> length (slice l off n) = n.
Proof. intros H. unfold slice. rewrite firstn_length, skipn_length. lia. Qed.

Lemma cwrite_ok cs off l : off + length l <= length cs ->
  cwrite cs off l = Ok (firstn off cs ++ l ++ skipn (off + length l) cs).
Proof. intros H. unfold cwrite. apply Nat.leb_le in H. rewrite H. reflexivity. Qed.

Lemma cwrite_inv cs off l r : cwrite cs off l = Ok r ->
  off + length l <= length cs /\ r = firstn off cs ++ l ++ skipn (off + length l) cs.
Proof.
  unfold cwrite. destruct (off + length l <=? length cs) eqn:E; intros H; try discriminate.
  apply Nat.leb_le in E. injection H as <-. auto.
Qed.

Lemma splice_length {A} (cs l : list A) off : off + length l <= length cs ->
  length (firstn off cs ++ l ++ skipn (off + length l) cs) = length cs.
Proof. intros H. rewrite !app_length, firstn_length, skipn_length. lia. Qed.

Lemma firstn_splice_lo {A} (cs l : list A) off n : n <= off -> off <= length cs ->
  firstn n (firstn off cs ++ l ++ skipn (off + length l) cs) = firstn n cs.
Proof.
  intros H1 H2. rewrite firstn_app, firstn_firstn.
  rewrite firstn_length. replace (Nat.min n off) with n by lia.
  replace (n - Nat.min off (length cs)) with 0 by lia. cbn. apply app_nil_r.
Qed.

Lemma firstn_splice_end {A} (cs l : list A) off : off + length l <= length cs ->
  firstn (off + length l) (firstn off cs ++ l ++ skipn (off + length l) cs) = firstn off cs ++ l.
Proof.
  intros H. rewrite app_assoc. rewrite firstn_app.
  rewrite app_length, firstn_length. replace (Nat.min off (length cs)) with off by lia.
  replace (off + length l - (off + length l)) with 0 by lia. cbn. rewrite app_nil_r.
  apply firstn_all2. rewrite app_length, firstn_length. lia.
Qed.

Lemma firstn_app_exact {A} (a b : list A) : firstn (length a) (a ++ b) = a.
Proof. rewrite firstn_app, Nat.sub_diag, firstn_all. cbn. apply app_nil_r. Qed.

Lemma firstn_app_le {A} (a b : list A) n : n <= length a -> firstn n (a ++ b) = firstn n a.
Proof. intros H. rewrite firstn_app. replace (n - length a) with 0 by lia. cbn. apply app_nil_r. Qed.

Lemma skipn_app_exact {A} (a b : list A) : skipn (length a) (a ++ b) = b.
Proof. rewrite skipn_app, Nat.sub_diag, skipn_all. reflexivity. Qed.

Lemma map_cval_some l : map cval (map Some l) = l.
Proof. induction l as [|h t IH]; cbn; congruence. Qed.

Lemma repeat_length' {A} (x : A) n : length (repeat x n) = n.
Proof. apply repeat_length. Qed.

Lemma or3_ge n : n <= or3 n.
Proof. unfold or3. pose proof (Nat.mod_upper_bound n 4). lia. Qed.

(* the linear-time reversal of StrSpec is List.rev *)
Lemma frev_rev {A} (l : list A) : frev l = rev l.
Proof. unfold frev. symmetry. apply rev_alt. Qed.
