(* Round 3 operations: operator+= / operator+ (String, char, literal), d = v + u, fromBool, fromCString,
   toBool, the static char functions: one step of the model refines the reference. *)
From Coq Require Import ZArith List Bool Arith Lia.
From Common Require Import ListAux.
From Str Require Import StrSpec StrModel StrLists StrInv StrPrims StrRefine StrFun StrChar StrStep.
Import ListNotations.

(* ---- the destructor of a temporary that is not the youngest variable ---- *)
Lemma count_occ_mid (a : list handle) h b x :
  count_occ handle_dec (a ++ h :: b) x = count_occ handle_dec (a ++ b) x + hind h x.
Proof. rewrite !count_occ_app. cbn [count_occ]. unfold hind, ind. destruct (handle_dec h x); lia. Qed.

Lemma skipn_app_cons {A} (a : list A) h b : skipn (S (length a)) (a ++ h :: b) = b.
Proof. induction a as [|x t IH]; cbn; auto. Qed.

Lemma nth_error_mid {A} (a : list A) h b : nth_error (a ++ h :: b) (length a) = Some h.
Proof. induction a as [|x t IH]; cbn; auto. Qed.

Lemma drop_at_ok w a h b : Inv w -> vars w = a ++ h :: b ->
  exists w', drop_at w (length a) = Ok w' /\ Inv w' /\ vars w' = a ++ b /\ regs w' = regs w /\ keeps w w'.
Proof.
  intros I E. unfold drop_at.
  assert (Hh : nth_error (vars w) (length a) = Some h) by (rewrite E; apply nth_error_mid).
  rewrite (get_var_ok _ _ _ Hh). cbn [bind].
  destruct (release_ok _ _ _ I Hh) as (w1 & ER & EV & EG & SD & RC). rewrite ER. cbn [bind].
  rewrite EV, E, firstn_app_exact, skipn_app_cons.
  eexists. split; [reflexivity|]. cbn [vars regs heap]. split; [|split; [reflexivity|split; [exact EG|]]].
  - split; cbn [vars regs heap].
    + rewrite EG. pose proof (inv_v w I) as V. rewrite E in V. apply Forall_app in V. destruct V as (V1 & V2).
      apply Forall_app. split; [exact V1|]. inversion V2; assumption.
    + apply (same_data_ok (heap w)); auto. apply (inv_b w I).
    + intros x. pose proof (inv_r w I x) as R0. rewrite E, count_occ_mid in R0. specialize (RC x). lia.
  - intros x g Hx. apply (h_cells_same_data w _ x); auto. apply SD.
Qed.

(* keeps composes along a world whose variables extend the old ones *)
Lemma keeps_ext w w1 w2 ext : vars w1 = vars w ++ ext -> keeps w w1 -> keeps w1 w2 -> keeps w w2.
Proof.
  intros EV K1 K2 x g Hx.
  assert (Hx1 : nth_error (vars w1) x = Some g) by (rewrite EV, nth_error_app1; auto; eapply nth_error_lt; eauto).
  rewrite (K2 x g Hx1). eapply K1; eauto.
Qed.

(* ---- String( *this).append(other) returned by value ---- *)
Lemma plus_ok w v u hv hu : Inv w -> nth_error (vars w) v = Some hv -> nth_error (vars w) u = Some hu ->
  exists w' h', plus w v u = Ok w' /\ Inv w' /\ vars w' = vars w ++ [h'] /\ regs w' = regs w /\ keeps w w' /\
    h_cells w' h' = h_cells w hv ++ h_cells w hu.
Proof.
  intros I Hv Hu. unfold plus. set (t := length (vars w)).
  destruct (push_copy_ok w v hv I Hv) as (w1 & hT & E1 & I1 & EV1 & ER1 & K1 & HC1 & _). rewrite E1. cbn [bind].
  assert (Ht1 : nth_error (vars w1) t = Some hT) by (rewrite EV1; apply nth_error_app_last).
  assert (Hu1 : nth_error (vars w1) u = Some hu) by (rewrite EV1, nth_error_app1; auto; eapply nth_error_lt; eauto).
  destruct (append_s_ok w1 t u hT hu I1 Ht1 Hu1) as (w2 & E2 & I2 & F2 & h2 & Hh2 & HC2). rewrite E2. cbn [bind].
  destruct (push_frame_fin w w1 hT w2 h2 EV1 ER1 K1 F2 Hh2) as (EV2 & ER2 & K2).
  destruct (push_copy_ok w2 t h2 I2 Hh2) as (w3 & hR & E3 & I3 & EV3 & ER3 & K3 & HC3 & _). rewrite E3. cbn [bind].
  assert (EV3' : vars w3 = vars w ++ h2 :: [hR]) by (rewrite EV3, EV2, <- app_assoc; reflexivity).
  destruct (drop_at_ok w3 (vars w) h2 [hR] I3 EV3') as (w4 & E4 & I4 & EV4 & ER4 & K4). fold t in E4.
  exists w4, hR. split; [exact E4|]. split; [exact I4|]. split; [exact EV4|]. split; [congruence|]. split.
  - apply (keeps_ext w w2 w4 [h2] EV2 K2). apply (keeps_ext w2 w3 w4 [hR] EV3 K3 K4).
  - assert (HR3 : nth_error (vars w3) (length (vars w2)) = Some hR) by (rewrite EV3; apply nth_error_app_last).
    rewrite (K4 _ _ HR3), HC3, HC2, HC1, (K1 u hu Hu). reflexivity.
Qed.

(* ---- String( *this).append(String("literal")) returned by value ---- *)
Lemma plus_tmp_ok w v hv hl : Inv w -> nth_error (vars w) v = Some hv ->
  view_ok (regs w) hl -> (forall b, hl <> HBlock b) ->
  exists w' h', plus_tmp w v hl = Ok w' /\ Inv w' /\ vars w' = vars w ++ [h'] /\ regs w' = regs w /\ keeps w w' /\
    h_cells w' h' = h_cells w hv ++ h_cells w hl.
Proof.
  intros I Hv VL NB. unfold plus_tmp. set (t := length (vars w)).
  destruct (push_copy_ok w v hv I Hv) as (w1 & hT & E1 & I1 & EV1 & ER1 & K1 & HC1 & _). rewrite E1. cbn [bind].
  (* the temporary String(str) *)
  set (w2 := push_var w1 hl).
  assert (I2 : Inv w2).
  { apply (inv_push w1); [exact I1|apply (inv_b w1 I1)|rewrite ER1; exact VL|].
    intros b. rewrite (hind_nonblock hl b NB). lia. }
  assert (EV2 : vars w2 = vars w ++ [hT; hl]) by (unfold w2, push_var; cbn [vars]; rewrite EV1, <- app_assoc; reflexivity).
  assert (ER2 : regs w2 = regs w) by (unfold w2, push_var; cbn [regs]; exact ER1).
  assert (K12 : keeps w1 w2) by (apply keeps_same_heap; reflexivity).
  assert (Ht2 : nth_error (vars w2) t = Some hT).
  { rewrite EV2. change [hT; hl] with (hT :: [hl]). apply nth_error_mid. }
  assert (Hl2 : nth_error (vars w2) (S t) = Some hl).
  { rewrite EV2. replace (S t) with (length (vars w ++ [hT])) by (rewrite app_length; cbn; lia).
    change (vars w ++ [hT; hl]) with (vars w ++ [hT] ++ [hl]). rewrite app_assoc. apply nth_error_app_last. }
  destruct (append_s_ok w2 t (S t) hT hl I2 Ht2 Hl2) as (w3 & E3 & I3 & F3 & h3 & Hh3 & HC3). rewrite E3. cbn [bind].
  assert (EV3 : vars w3 = vars w ++ [h3; hl]).
  { rewrite (frame_vars w2 w3 t h3 F3); [|rewrite EV2, app_length; cbn; lia|exact Hh3].
    rewrite EV2. change [hT; hl] with ([hT] ++ [hl]). rewrite app_assoc, upd_app_l by (rewrite app_length; cbn; lia).
    fold t. unfold t. rewrite upd_last, <- app_assoc. reflexivity. }
  assert (ER3 : regs w3 = regs w) by (destruct F3 as (_ & -> & _); exact ER2).
  assert (K23 : forall x g, nth_error (vars w2) x = Some g -> x <> t -> h_cells w3 g = h_cells w2 g).
  { intros x g Hx Hn. destruct F3 as (_ & _ & FF). apply (FF x g Hn Hx). }
  destruct (push_copy_ok w3 t h3 I3 Hh3) as (w4 & hR & E4 & I4 & EV4 & ER4 & K4 & HC4 & _). rewrite E4. cbn [bind].
  (* ~String(str), then ~String( *this) *)
  assert (EV4' : vars w4 = (vars w ++ [h3]) ++ hl :: [hR]) by (rewrite EV4, EV3, <- !app_assoc; reflexivity).
  destruct (drop_at_ok w4 (vars w ++ [h3]) hl [hR] I4 EV4') as (w5 & E5 & I5 & EV5 & ER5 & K5).
  replace (length (vars w ++ [h3])) with (S t) in E5 by (rewrite app_length; cbn; lia).
  rewrite E5. cbn [bind].
  assert (EV5' : vars w5 = vars w ++ h3 :: [hR]) by (rewrite EV5, <- app_assoc; reflexivity).
  destruct (drop_at_ok w5 (vars w) h3 [hR] I5 EV5') as (w6 & E6 & I6 & EV6 & ER6 & K6). fold t in E6.
  exists w6, hR. split; [exact E6|]. split; [exact I6|]. split; [exact EV6|]. split; [congruence|].
  assert (C36 : forall x g, nth_error (vars w3) x = Some g -> h_cells w6 g = h_cells w3 g).
  { intros x g Hx.
    assert (Hx4 : nth_error (vars w4) x = Some g) by (rewrite EV4, nth_error_app1; auto; eapply nth_error_lt; eauto).
    assert (L : x < length (vars w ++ [h3; hl])) by (rewrite <- EV3; eapply nth_error_lt; eauto).
    rewrite app_length in L. cbn [length] in L.
    assert (Hx5 : exists y, nth_error (vars w5) y = Some g \/ g = hl).
    { destruct (Nat.eq_dec x (S t)) as [->|Hn].
      - exists 0. right. rewrite EV3 in Hx. change [h3; hl] with ([h3] ++ [hl]) in Hx. rewrite app_assoc in Hx.
        replace (S t) with (length (vars w ++ [h3])) in Hx by (rewrite app_length; cbn; lia).
        rewrite nth_error_app_last in Hx. congruence.
      - exists x. left. rewrite EV5. rewrite EV3 in Hx.
        change (vars w ++ [h3; hl]) with (vars w ++ [h3] ++ [hl]) in Hx. rewrite app_assoc in Hx.
        rewrite nth_error_app1 in Hx by (rewrite app_length; cbn; unfold t in *; lia).
        rewrite nth_error_app1 by (rewrite app_length; cbn; unfold t in *; lia). exact Hx. }
    destruct Hx5 as (y & [Hy| ->]).
    - rewrite (K6 y g Hy), (K5 x g Hx4), (K4 x g Hx). reflexivity.
    - rewrite !(h_cells_nonblock w3 _ hl) by (auto; congruence). reflexivity. }
  split.
  - intros x g Hx.
    assert (Hx2 : nth_error (vars w2) x = Some g) by (rewrite EV2, nth_error_app1; auto; eapply nth_error_lt; eauto).
    assert (Hn : x <> t) by (apply nth_error_lt in Hx; unfold t; lia).
    assert (Hx3 : nth_error (vars w3) x = Some g) by (rewrite EV3, nth_error_app1; auto; eapply nth_error_lt; eauto).
    rewrite (C36 x g Hx3), (K23 x g Hx2 Hn), (K12 x g), (K1 x g Hx); auto.
    rewrite EV1, nth_error_app1; auto. eapply nth_error_lt; eauto.
  - assert (HR4 : nth_error (vars w4) (length (vars w3)) = Some hR) by (rewrite EV4; apply nth_error_app_last).
    assert (HR5 : nth_error (vars w5) (S t) = Some hR).
    { rewrite EV5. replace (S t) with (length (vars w ++ [h3])) by (rewrite app_length; cbn; lia). apply nth_error_app_last. }
    rewrite (K6 _ _ HR5), (K5 _ _ HR4), HC4, HC3, (K12 t hT), HC1.
    + f_equal. rewrite (h_cells_nonblock w w2 hl); auto.
    + rewrite EV1. apply nth_error_app_last.
Qed.

(* ---- the steps ---- *)
Lemma ex_pluseq_s w v u : Inv w -> pre (abs w) (OPlusEqS v u) = true -> refines_op w (OPlusEqS v u).
Proof.
  intros I P. cbn [pre] in P. split_pre.
  destruct (has_nth _ _ H) as (hv & Hv). destruct (has_nth _ _ H0) as (hu & Hu).
  destruct (append_s_ok w v u hv hu I Hv Hu) as (w' & E & R).
  eapply (fin_upd w _ v _ w' _ RNone).
  - cbn [exec]. rewrite E. reflexivity.
  - eapply nth_error_lt; eauto.
  - exact R.
  - reflexivity.
  - rewrite map_app, (valof_cells _ _ _ Hv), (valof_cells _ _ _ Hu). reflexivity.
Qed.

Lemma ex_pluseq_c w v c : Inv w -> pre (abs w) (OPlusEqC v c) = true -> refines_op w (OPlusEqC v c).
Proof.
  intros I P. cbn [pre] in P. split_pre. destruct (has_nth _ _ H) as (hv & Hv).
  destruct (append_cells_ok w v hv [Some c] I Hv) as (w' & E & R).
  eapply (fin_upd w _ v _ w' _ RNone).
  - cbn [exec]. rewrite E. reflexivity.
  - eapply nth_error_lt; eauto.
  - exact R.
  - reflexivity.
  - rewrite map_app, (valof_cells _ _ _ Hv). reflexivity.
Qed.

Lemma ex_plus w v u : Inv w -> pre (abs w) (OPlus v u) = true -> refines_op w (OPlus v u).
Proof.
  intros I P. cbn [pre] in P. split_pre.
  destruct (has_nth _ _ H) as (hv & Hv). destruct (has_nth _ _ H0) as (hu & Hu).
  destruct (plus_ok w v u hv hu I Hv Hu) as (w' & h' & E & I' & EV & ER & K & HC).
  apply (fin_push w _ h' (h_cells w hv ++ h_cells w hu) w' (valof (abs w) v ++ valof (abs w) u) RNone); auto.
  - cbn [exec]. rewrite E. reflexivity.
  - rewrite map_app, (valof_cells _ _ _ Hv), (valof_cells _ _ _ Hu). reflexivity.
Qed.

Lemma ex_plus_lit w v l : Inv w -> pre (abs w) (OPlusLit v l) = true -> refines_op w (OPlusLit v l).
Proof.
  intros I P. cbn [pre] in P. split_pre. destruct (has_nth _ _ H) as (hv & Hv).
  (* the world with the literal as a new foreign buffer: the step OReg (l ++ [0]) *)
  destruct (ex_reg w (l ++ [0%Z]) I) as (w0 & r0 & E0 & I0 & A0 & _).
  cbn [exec] in E0. injection E0 as <- _. cbn [spec_exec fst] in A0.
  set (w0 := mkworld (vars w) (heap w) (regs w ++ [l ++ [0%Z]])) in *.
  set (hl := HView (length (regs w)) 0 (length l)).
  assert (VL : view_ok (regs w0) hl).
  { unfold w0, hl. cbn. rewrite app_nth2, Nat.sub_diag by lia. cbn. rewrite app_length. cbn. lia. }
  assert (NB : forall b, hl <> HBlock b) by (unfold hl; congruence).
  assert (Hv0 : nth_error (vars w0) v = Some hv) by exact Hv.
  destruct (plus_tmp_ok w0 v hv hl I0 Hv0 VL NB) as (w' & h' & E & I' & EV & ER & K & HC).
  exists w', RNone. split; [cbn [exec]; fold w0; fold hl; rewrite E; reflexivity|]. split; [exact I'|].
  cbn [spec_exec fst snd]. split; [|reflexivity].
  rewrite (push_abs w0 w' h' _ EV ER K HC), A0. unfold pushval. cbn [svals sregs]. f_equal. f_equal. f_equal.
  rewrite map_app. f_equal.
  - rewrite <- h_value_cells. pose proof (valof_abs w0 v hv Hv0) as Q. rewrite <- Q. unfold valof. rewrite A0. reflexivity.
  - unfold hl, w0. cbn [h_cells regs]. rewrite app_nth2, Nat.sub_diag by lia. cbn [nth].
    unfold slice. cbn [skipn]. rewrite firstn_app_exact. apply map_cval_some.
Qed.

Lemma ex_plus_assign w d v u : Inv w -> pre (abs w) (OPlusAssign d v u) = true -> refines_op w (OPlusAssign d v u).
Proof.
  intros I P. cbn [pre] in P. split_pre.
  destruct (has_nth _ _ H) as (hd & Hd). destruct (has_nth _ _ H1) as (hv & Hv). destruct (has_nth _ _ H0) as (hu & Hu).
  assert (Hdlt : d < length (vars w)) by (eapply nth_error_lt; eauto).
  destruct (plus_ok w v u hv hu I Hv Hu) as (w1 & hR & E1 & I1 & EV1 & ER1 & K1 & HC1).
  assert (Ht1 : nth_error (vars w1) (length (vars w)) = Some hR) by (rewrite EV1; apply nth_error_app_last).
  assert (Hd1 : nth_error (vars w1) d = Some hd) by (rewrite EV1, nth_error_app1; auto).
  destruct (assign_ok w1 d (length (vars w)) hd hR I1 Hd1 Ht1) as (w2 & h' & E2 & I2 & F2 & Hh & HC2).
  destruct (pop_temp_ok w d w1 hR w2 h' (h_cells w hv ++ h_cells w hu) I Hdlt EV1 ER1 K1 I2 F2 Hh) as (w3 & E3 & R3); [congruence|].
  eapply (fin_upd w _ d _ w3 _ RNone).
  - cbn [exec]. rewrite E1. cbn [bind]. rewrite E2. cbn [bind]. rewrite E3. reflexivity.
  - exact Hdlt.
  - exact R3.
  - reflexivity.
  - rewrite map_app, (valof_cells _ _ _ Hv), (valof_cells _ _ _ Hu). reflexivity.
Qed.

Lemma ex_from_bool w b : Inv w -> refines_op w (OFromBool b).
Proof. intros I. exact (ex_lit w (bool_text b) I). Qed.

Lemma ex_from_cstr w l : Inv w -> pre (abs w) (OFromCStr l) = true -> refines_op w (OFromCStr l).
Proof.
  intros I P. cbn [pre] in P.
  assert (N : m_strlen (l ++ [0%Z]) = length l) by (apply m_strlen_spec, cbytes_nulfree; exact P).
  apply (ex_push_owned w (OFromCStr l) (map Some l) (or3 (length l)) l); auto.
  - rewrite map_length. apply or3_ge.
  - cbn [exec]. rewrite N, firstn_all. reflexivity.
  - apply map_cval_some.
Qed.

Lemma ex_from_cstr_n w l n : Inv w -> pre (abs w) (OFromCStrN l n) = true -> refines_op w (OFromCStrN l n).
Proof.
  intros I P. cbn [pre] in P. split_pre.
  apply (ex_push_owned w (OFromCStrN l n) (map Some (firstn n l)) (or3 n) (firstn n l)); auto.
  - rewrite map_length, firstn_length. pose proof (or3_ge n). lia.
  - apply map_cval_some.
Qed.

Lemma ex_to_bool w v : Inv w -> pre (abs w) (OToBool v) = true -> refines_op w (OToBool v).
Proof.
  intros I P. cbn [pre] in P. split_pre.
  cbn [spec_exec]. unfold s_tobool.
  set (a := valof (abs w) v) in *.
  destruct (negb (nonempty a) || list_eqb (map lower a) false_text || list_eqb a [48%Z]) eqn:C.
  - apply (fin_same w _ w (RInt 0%Z)); auto.
    + cbn [exec]. rewrite (var_bytes_abs _ _ I H). cbn [bind]. fold a. rewrite tobool_early, C. reflexivity.
    + cbn [spec_exec]. unfold s_tobool. fold a. rewrite C. reflexivity.
  - destruct (cstr_abs w v I H) as (w1 & E1 & I1 & A1 & _).
    apply (fin_same w _ w1 (RInt (b2z (negb (zero_dot_zero a))))); auto.
    + cbn [exec]. rewrite (var_bytes_abs _ _ I H). cbn [bind]. fold a. rewrite tobool_early, C.
      rewrite E1. cbn [bind]. rewrite (var_bytes_abs _ _ I1 (has_via _ _ _ A1 H)), A1. cbn [bind]. fold a.
      rewrite tobool_tail_spec by (apply cbytes_nulfree; assumption). reflexivity.
    + cbn [spec_exec]. unfold s_tobool. fold a. rewrite C. reflexivity.
Qed.

Lemma ex_char w q c : Inv w -> pre (abs w) (OChar q c) = true -> refines_op w (OChar q c).
Proof.
  intros I P. cbn [pre] in P.
  apply (fin_same w _ w (RInt (s_char q c))); auto.
  cbn [exec]. rewrite (char_mirror q c P). reflexivity.
Qed.
