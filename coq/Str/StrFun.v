(* The loops of String.hpp and String.cpp on byte lists (the m_ functions of StrModel) compute the reference
   functions of StrSpec on the domain of the property. *)
From Coq Require Import ZArith List Bool Arith Lia.
From Coq Require Import ZifyBool ZifyNat.
From Common Require Import ListAux.
From Str Require Import StrSpec StrModel Gen_Str StrLists.
Import ListNotations.
Local Open Scope Z_scope.

(* ---- the case tables of String.cpp are the ASCII case mappings ---- *)
Lemma tables_ascii :
  forallb (fun n => (lowt (Z.of_nat n) =? lower (Z.of_nat n)) && (uppt (Z.of_nat n) =? upper (Z.of_nat n))) (seq 0 256) = true.
Proof. vm_compute. reflexivity. Qed.

Lemma lowt_lower c : lowt c = lower c.
Proof.
  unfold lowt, tbl. destruct ((0 <=? c) && (c <? 256)) eqn:E.
  - pose proof tables_ascii as T. rewrite forallb_forall in T.
    specialize (T (Z.to_nat c)). rewrite Z2Nat.id in T by lia.
    assert (In (Z.to_nat c) (seq 0 256)) as Hin by (apply in_seq; lia).
    specialize (T Hin). unfold lowt, tbl in T. rewrite E in T. lia.
  - unfold lower. destruct ((65 <=? c) && (c <=? 90)) eqn:E2; lia.
Qed.

Lemma uppt_upper c : uppt c = upper c.
Proof.
  unfold uppt, tbl. destruct ((0 <=? c) && (c <? 256)) eqn:E.
  - pose proof tables_ascii as T. rewrite forallb_forall in T.
    specialize (T (Z.to_nat c)). rewrite Z2Nat.id in T by lia.
    assert (In (Z.to_nat c) (seq 0 256)) as Hin by (apply in_seq; lia).
    specialize (T Hin). unfold uppt, tbl in T. rewrite E in T. lia.
  - unfold upper. destruct ((97 <=? c) && (c <=? 122)) eqn:E2; lia.
Qed.

(* in-place rewrite of cells: an indeterminate cell stays indeterminate *)
Lemma map_cval_lift (f : Z -> Z) cs : f (-1) = -1 ->
  map cval (map (fun c => match c with Some z => Some (f z) | None => None end) cs) = map f (map cval cs).
Proof.
  intros H. induction cs as [|[z|] t IH]; cbn; auto; rewrite IH; f_equal. symmetry. exact H.
Qed.

(* ---- ==, startsWith, endsWith ---- *)
Lemma list_eqb_length a b : list_eqb a b = true -> length a = length b.
Proof.
  revert b; induction a as [|x a IH]; intros [|y b] H; cbn in *; try discriminate; auto.
  apply andb_true_iff in H. f_equal. apply IH. tauto.
Qed.

Lemma list_eqb_eq a b : list_eqb a b = true <-> a = b.
Proof.
  revert b; induction a as [|x a IH]; intros [|y b]; cbn; split; intros H; try discriminate; auto.
  - apply andb_true_iff in H. destruct H as (H1 & H2). apply Z.eqb_eq in H1. apply IH in H2. congruence.
  - injection H as -> ->. rewrite Z.eqb_refl. apply IH. reflexivity.
Qed.

Lemma eq_mirror a b : (length a =? length b)%nat && list_eqb a b = list_eqb a b.
Proof.
  destruct (list_eqb a b) eqn:E.
  - apply list_eqb_length in E. rewrite E, Nat.eqb_refl. reflexivity.
  - apply andb_false_r.
Qed.

Lemma is_prefix_firstn b a : is_prefix b a = (length b <=? length a)%nat && list_eqb (firstn (length b) a) b.
Proof.
  revert a; induction b as [|y b IH]; intros [|x a]; cbn; auto.
  rewrite IH. rewrite (Z.eqb_sym x y). destruct (y =? x); cbn; auto.
  destruct (length b <=? length a)%nat; reflexivity.
Qed.

Lemma list_eqb_rev a b : list_eqb (rev a) (rev b) = list_eqb a b.
Proof.
  destruct (list_eqb a b) eqn:E.
  - apply list_eqb_eq in E. subst. apply list_eqb_eq. reflexivity.
  - destruct (list_eqb (rev a) (rev b)) eqn:E2; auto.
    apply list_eqb_eq in E2. apply (f_equal (@rev Z)) in E2. rewrite !rev_involutive in E2.
    subst. assert (list_eqb b b = true) by (apply list_eqb_eq; reflexivity). congruence.
Qed.

Lemma ends_mirror a b :
  (length b <=? length a)%nat && list_eqb (skipn (length a - length b) a) b = is_prefix (rev b) (rev a).
Proof.
  rewrite is_prefix_firstn. rewrite !rev_length.
  destruct (length b <=? length a)%nat eqn:E; auto. cbn [andb].
  apply Nat.leb_le in E.
  rewrite <- (list_eqb_rev (skipn _ a) b). f_equal.
  rewrite firstn_rev. reflexivity.
Qed.

(* ---- find(char), findLast(char) ---- *)
Lemma m_find_c_spec l c i :
  m_find_c l c i = match find_first (P_chr c) l with Some k => Z.of_nat (i + k) | None => -1 end.
Proof.
  revert i; induction l as [|x t IH]; intros i; cbn; auto.
  destruct (x =? c) eqn:E.
  - f_equal. lia.
  - rewrite IH. destruct (find_first (P_chr c) t); cbn; auto. f_equal. lia.
Qed.

Lemma m_findlast_c_spec l c i last :
  m_findlast_c l c i last = match find_last (P_chr c) l with Some k => Z.of_nat (i + k) | None => last end.
Proof.
  revert i last; induction l as [|x t IH]; intros i last; cbn; auto.
  rewrite IH. destruct (find_last (P_chr c) t).
  - f_equal. lia.
  - destruct (x =? c); auto; try (f_equal; lia).
Qed.

(* ---- compare: the loop over the common length, then the lengths ---- *)
Lemma cbytes_cons x l : cbytes (x :: l) = true -> 0 < x < 256 /\ cbytes l = true.
Proof.
  unfold cbytes, bytes, nulfree, is_byte. cbn. intros H.
  apply andb_true_iff in H. destruct H as (H1 & H2).
  apply andb_true_iff in H1. apply andb_true_iff in H2. destruct H1 as (H1 & H1'), H2 as (H2 & H2').
  split; [lia|]. rewrite H1', H2'. reflexivity.
Qed.

Lemma cbytes_nil : cbytes [] = true.
Proof. reflexivity. Qed.

Lemma sgn_neg z : z < 0 -> sgn z = -1.
Proof. intros H. unfold sgn. destruct (z <? 0) eqn:E; lia. Qed.
Lemma sgn_pos z : 0 < z -> sgn z = 1.
Proof. intros H. unfold sgn. destruct (z <? 0) eqn:E; [lia|]. destruct (0 <? z) eqn:E2; lia. Qed.
Lemma sgn_0 : sgn 0 = 0.
Proof. reflexivity. Qed.

(* the static loops, on C strings *)
Lemma m_compare_spec a : forall b fuel, cbytes a = true -> cbytes b = true -> (length a < fuel)%nat ->
  sgn (m_compare fuel (a ++ [0]) (b ++ [0])) = lexcmp a b.
Proof.
  induction a as [|x a IH]; intros b fuel Ha Hb Hf; (destruct fuel as [|f]; [cbn in Hf; lia|]).
  - destruct b as [|y b]; cbn [m_compare app hd tl lexcmp].
    + reflexivity.
    + apply cbytes_cons in Hb. destruct Hb as (Hy & _).
      destruct (0 =? y) eqn:E; [lia|]. apply sgn_neg. lia.
  - apply cbytes_cons in Ha. destruct Ha as (Hx & Ha).
    destruct b as [|y b]; cbn [m_compare app hd tl lexcmp].
    + destruct (x =? 0) eqn:E; [lia|]. apply sgn_pos. lia.
    + apply cbytes_cons in Hb. destruct Hb as (Hy & Hb).
      destruct (x =? y) eqn:E.
      * destruct (x =? 0) eqn:E0; [lia|].
        destruct (x <? y) eqn:E1; [lia|]. destruct (y <? x) eqn:E2; [lia|].
        apply IH; auto. cbn in Hf. lia.
      * destruct (x <? y) eqn:E1; [apply sgn_neg; lia|].
        destruct (y <? x) eqn:E2; [apply sgn_pos; lia|lia].
Qed.

Lemma m_compare_n_spec n : forall a b, cbytes a = true -> cbytes b = true ->
  sgn (m_compare_n n (a ++ [0]) (b ++ [0])) = lexcmp (firstn n a) (firstn n b).
Proof.
  induction n as [|n IH]; intros a b Ha Hb.
  - destruct a, b; reflexivity.
  - destruct a as [|x a].
    + destruct b as [|y b]; cbn [m_compare_n app hd tl lexcmp firstn].
      * reflexivity.
      * apply cbytes_cons in Hb. destruct Hb as (Hy & _). cbn. apply sgn_neg. lia.
    + apply cbytes_cons in Ha. destruct Ha as (Hx & Ha).
      destruct b as [|y b]; cbn [m_compare_n app hd tl lexcmp firstn].
      * destruct (x =? 0) eqn:E; [lia|]. cbn. apply sgn_pos. lia.
      * apply cbytes_cons in Hb. destruct Hb as (Hy & Hb).
        destruct (x =? 0) eqn:E0; [lia|]. cbn [orb].
        destruct (x =? y) eqn:E; cbn [negb].
        -- destruct (x <? y) eqn:E1; [lia|]. destruct (y <? x) eqn:E2; [lia|]. apply IH; auto.
        -- destruct (x <? y) eqn:E1; [apply sgn_neg; lia|].
           destruct (y <? x) eqn:E2; [apply sgn_pos; lia|lia].
Qed.


(* for ALL lists (embedded NUL bytes included) *)
Lemma m_cmp_spec a : forall b, sgn (m_cmp a b) = lexcmp a b.
Proof.
  induction a as [|x a IH]; intros [|y b]; cbn [m_cmp lexcmp]; try reflexivity.
  destruct (x =? y) eqn:E.
  - destruct (x <? y) eqn:E1; [lia|]. destruct (y <? x) eqn:E2; [lia|]. apply IH.
  - destruct (x <? y) eqn:E1; [apply sgn_neg; lia|].
    destruct (y <? x) eqn:E2; [apply sgn_pos; lia|lia].
Qed.

Lemma cbytes_map_lower l : cbytes l = true -> cbytes (map lower l) = true.
Proof.
  induction l as [|x l IH]; intros H; auto.
  apply cbytes_cons in H. destruct H as (Hx & Hl). specialize (IH Hl).
  unfold cbytes, bytes, nulfree in *. cbn. apply andb_true_iff in IH. destruct IH as (I1 & I2).
  rewrite I1, I2. unfold is_byte, lower. destruct ((65 <=? x) && (x <=? 90)) eqn:E; lia.
Qed.

Lemma map_lowt l : map lowt l = map lower l.
Proof. apply map_ext. apply lowt_lower. Qed.
Lemma map_uppt l : map uppt l = map upper l.
Proof. apply map_ext. apply uppt_upper. Qed.

Lemma lexcmp_eq a : forall b, lexcmp a b = 0 <-> a = b.
Proof.
  induction a as [|x a IH]; intros [|y b]; cbn; split; intros H; try discriminate; auto.
  - destruct (x <? y) eqn:E1; [discriminate|]. destruct (y <? x) eqn:E2; [discriminate|].
    apply IH in H. f_equal; auto. lia.
  - injection H as -> ->. rewrite Z.ltb_irrefl. apply IH. reflexivity.
Qed.

Lemma sgn_zero z : sgn z = 0 <-> z = 0.
Proof. unfold sgn. destruct (z <? 0) eqn:E; [lia|]. destruct (0 <? z) eqn:E2; lia. Qed.

Lemma m_cmp_eqb a b : (m_cmp a b =? 0) = list_eqb a b.
Proof.
  pose proof (m_cmp_spec a b) as M.
  destruct (list_eqb a b) eqn:E.
  - apply list_eqb_eq in E. apply (proj2 (lexcmp_eq _ _)) in E. rewrite E in M. apply (proj1 (sgn_zero _)) in M. rewrite M. reflexivity.
  - destruct (m_cmp a b =? 0) eqn:E2; auto.
    apply Z.eqb_eq in E2. rewrite E2, sgn_0 in M. symmetry in M. apply (proj1 (lexcmp_eq _ _)) in M.
    apply list_eqb_eq in M. congruence.
Qed.

Lemma list_eqb_len a b : (length a =? length b)%nat && list_eqb a b = list_eqb a b.
Proof.
  destruct (list_eqb a b) eqn:E; [|apply andb_false_r].
  apply list_eqb_length in E. rewrite E, Nat.eqb_refl. reflexivity.
Qed.

(* ---- first / last position of a suffix predicate ---- *)
Local Open Scope nat_scope.

Lemma find_first_unfold P l :
  find_first P l = if P l then Some 0 else match l with [] => None | _ :: t => option_map S (find_first P t) end.
Proof. destruct l; reflexivity. Qed.

Lemma find_first_some P l : forall k, find_first P l = Some k ->
  P (skipn k l) = true /\ k <= length l /\ forall i, i < k -> P (skipn i l) = false.
Proof.
  induction l as [|x t IH]; intros k H; rewrite find_first_unfold in H.
  - destruct (P []) eqn:E; [|discriminate]. injection H as <-. cbn. repeat split; auto; intros; lia.
  - destruct (P (x :: t)) eqn:E.
    + injection H as <-. cbn. repeat split; auto; intros; lia.
    + destruct (find_first P t) as [k'|] eqn:E'; [|discriminate]. cbn in H. injection H as <-.
      destruct (IH k' eq_refl) as (A & B & C). cbn. repeat split; auto; try lia.
      intros [|i] Hi; cbn; auto. apply C. lia.
Qed.

Lemma find_first_none P l : find_first P l = None -> forall i, i <= length l -> P (skipn i l) = false.
Proof.
  induction l as [|x t IH]; intros H i Hi; rewrite find_first_unfold in H.
  - destruct (P []) eqn:E; [discriminate|]. destruct i; cbn; auto.
  - destruct (P (x :: t)) eqn:E; [discriminate|].
    destruct (find_first P t) eqn:E'; [discriminate|].
    destruct i as [|i]; cbn; auto. apply IH; auto. cbn in Hi. lia.
Qed.

Lemma find_last_none P l : (forall i, i <= length l -> P (skipn i l) = false) -> find_last P l = None.
Proof.
  induction l as [|x t IH]; intros H; cbn.
  - pose proof (H 0 (le_n _)) as H0. cbn in H0. rewrite H0. reflexivity.
  - rewrite IH.
    + pose proof (H 0 (Nat.le_0_l _)) as H0. cbn in H0. rewrite H0. reflexivity.
    + intros i Hi. apply (H (S i)). cbn. lia.
Qed.

Lemma find_last_end P l : P [] = true -> find_last P l = Some (length l).
Proof. intros H. induction l as [|x t IH]; cbn; [rewrite H; reflexivity|rewrite IH; reflexivity]. Qed.

Lemma find_last_shift P l : forall k j, k <= length l -> find_last P (skipn k l) = Some j -> find_last P l = Some (k + j).
Proof.
  induction l as [|x t IH]; intros [|k] j Hk H; cbn in *; auto; try lia.
  rewrite (IH k j); auto. lia.
Qed.

Lemma m_findlast_loop_spec P : forall fuel l base last, length l < fuel ->
  m_findlast_loop fuel P l base last =
  match find_last P l with Some j => Z.of_nat (base + j) | None => last end.
Proof.
  induction fuel as [|f IH]; intros l base last Hf; [lia|]. cbn [m_findlast_loop].
  destruct (find_first P l) as [k|] eqn:E.
  - destruct (find_first_some P l k E) as (A & B & C).
    destruct (skipn k l) as [|y rest] eqn:ES.
    + assert (k = length l).
      { pose proof (skipn_length k l) as SL. rewrite ES in SL. cbn in SL. lia. }
      subst k. rewrite (find_last_end P l A). reflexivity.
    + assert (LR : length rest < f).
      { pose proof (skipn_length k l) as SL. rewrite ES in SL. cbn in SL. lia. }
      rewrite IH by exact LR.
      assert (FL : find_last P (y :: rest) = match find_last P rest with Some j => Some (S j) | None => Some 0 end).
      { cbn. destruct (find_last P rest); auto. rewrite A. reflexivity. }
      destruct (find_last P rest) as [j|] eqn:EL.
      * rewrite <- ES in FL. rewrite (find_last_shift P l k (S j) B FL). f_equal. lia.
      * rewrite <- ES in FL. rewrite (find_last_shift P l k 0 B FL). f_equal. lia.
  - rewrite (find_last_none P l (find_first_none P l E)). reflexivity.
Qed.

(* ---- split ---- *)
Lemma split_all_find seps : forall l cur,
  split_all seps cur l =
  match find_first (P_any seps) l with
  | None => [rev cur ++ l]
  | Some k => (rev cur ++ firstn k l) :: split_all seps [] (skipn (S k) l)
  end.
Proof.
  induction l as [|x t IH]; intros cur; rewrite find_first_unfold.
  - cbn [split_all P_any]. rewrite frev_rev, app_nil_r. reflexivity.
  - cbn [P_any split_all]. destruct (memb x seps) eqn:E.
    + rewrite frev_rev. cbn [firstn skipn]. rewrite app_nil_r. reflexivity.
    + rewrite IH. destruct (find_first (P_any seps) t) as [k|]; cbn [option_map rev firstn skipn].
      * rewrite <- app_assoc. reflexivity.
      * rewrite <- app_assoc. reflexivity.
Qed.

Lemma m_split_spec seps skip : forall fuel p, length p < fuel ->
  m_split_loop fuel seps p skip = s_split seps p skip.
Proof.
  unfold s_split. induction fuel as [|f IH]; intros p Hf; [lia|]. cbn [m_split_loop]. unfold m_strpbrk.
  rewrite (split_all_find seps p []). cbn [rev app].
  destruct (find_first (P_any seps) p) as [k|] eqn:E.
  - destruct (find_first_some _ _ _ E) as (A & B & _).
    assert (NE : p <> []).
    { intros ->. destruct k; cbn in A; discriminate. }
    destruct p as [|x t]; [congruence|]. cbn [length] in *.
    destruct k as [|k].
    + cbn [skipn firstn]. rewrite IH by lia. destruct skip; reflexivity.
    + replace (S k + 1) with (S (S k)) by lia. rewrite IH by (rewrite skipn_length; cbn; lia).
      destruct skip; reflexivity.
  - destruct p as [|x t]; destruct skip; reflexivity.
Qed.

(* ---- substr / token ---- *)
Lemma s_substr_slice l start k : start + k <= length l ->
  s_substr l (Z.of_nat start) (Z.of_nat k) = slice l start k.
Proof.
  intros H. unfold s_substr.
  destruct (Z.of_nat start <? 0)%Z eqn:E1; [lia|]. destruct (0 <=? Z.of_nat k)%Z eqn:E2; [|lia].
  f_equal; lia.
Qed.

Lemma s_substr_tail l start : s_substr l (Z.of_nat start) (-1) = skipn start l.
Proof.
  unfold s_substr. destruct (Z.of_nat start <? 0)%Z eqn:E1; [lia|]. cbn [Z.leb Z.compare].
  unfold slice. destruct (le_dec start (length l)).
  - replace (Z.to_nat (Z.min (Z.of_nat start) (Z.of_nat (length l)))) with start by lia.
    apply firstn_all2. rewrite skipn_length. lia.
  - replace (Z.to_nat (Z.min (Z.of_nat start) (Z.of_nat (length l)))) with (length l) by lia.
    rewrite (skipn_all2 (n := start)) by lia. rewrite skipn_all. destruct (Z.to_nat _); reflexivity.
Qed.

Lemma token_mirror (P : list Z -> bool) l start :
  (match (if length l <=? start then None else find_first P (skipn start l)) with
   | Some k => (s_substr l (Z.of_nat start) (Z.of_nat k), start + k + 1)
   | None => (s_substr l (Z.of_nat start) (-1), length l)
   end) = s_token P l start.
Proof.
  unfold s_token. destruct (length l <=? start) eqn:E.
  - apply Nat.leb_le in E. rewrite s_substr_tail, skipn_all2 by lia. reflexivity.
  - apply Nat.leb_gt in E. destruct (find_first P (skipn start l)) as [k|] eqn:F.
    + destruct (find_first_some _ _ _ F) as (_ & B & _). rewrite skipn_length in B.
      rewrite s_substr_slice by lia. reflexivity.
    + rewrite s_substr_tail. reflexivity.
Qed.

(* ---- trim ---- *)
Lemma nulfree_forall l : nulfree l = true <-> forall x, In x l -> x <> 0%Z.
Proof.
  unfold nulfree. rewrite forallb_forall. split; intros H x Hx; specialize (H x Hx).
  - intros ->. discriminate.
  - destruct (x =? 0)%Z eqn:E; auto. apply Z.eqb_eq in E. contradiction.
Qed.

Lemma memb_nulfree chars : nulfree chars = true -> memb 0%Z chars = false.
Proof.
  intros H. unfold memb. destruct (existsb (Z.eqb 0) chars) eqn:E; auto.
  apply existsb_exists in E. destruct E as (x & Hx & E). apply Z.eqb_eq in E. subst x.
  rewrite nulfree_forall in H. exfalso. eapply H; eauto.
Qed.

(* chars is a C string: on it the repaired membership test is plain membership, for every byte *)
Lemma in_set_memb chars x : nulfree chars = true -> in_set chars x = memb x chars.
Proof.
  intros H. unfold in_set. destruct (x =? 0)%Z eqn:E; cbn [negb andb]; auto.
  apply Z.eqb_eq in E. subst x. symmetry. apply memb_nulfree. exact H.
Qed.

Lemma msf_dropwhile chars l : nulfree chars = true ->
  skipn (m_skip_front chars l) l = dropwhile (fun c => memb c chars) l.
Proof.
  intros H. induction l as [|x t IH]; cbn; auto.
  rewrite (in_set_memb chars x H). destruct (memb x chars); cbn; auto.
Qed.

Lemma msf_le chars l : m_skip_front chars l <= length l.
Proof. induction l as [|x t IH]; cbn; auto. destruct (in_set chars x); cbn; lia. Qed.

Lemma msf_app_stop chars a x b : in_set chars x = false ->
  m_skip_front chars (a ++ x :: b) <= length a.
Proof.
  intros H. induction a as [|y a IH]; cbn.
  - rewrite H. lia.
  - destruct (in_set chars y); lia.
Qed.

Lemma dropwhile_head f l x t : dropwhile f l = x :: t -> f x = false.
Proof.
  induction l as [|y l IH]; cbn; intros H; [discriminate|].
  destruct (f y) eqn:E; auto. injection H as <- _. exact E.
Qed.

Lemma dropwhile_incl f l x : In x (dropwhile f l) -> In x l.
Proof.
  induction l as [|y l IH]; cbn; auto. destruct (f y); auto.
Qed.

Lemma rev_skipn_rev {A} (d : list A) j : rev (skipn j (rev d)) = firstn (length d - j) d.
Proof. rewrite skipn_rev, rev_involutive. reflexivity. Qed.

Lemma trim_mirror chars l : nulfree chars = true ->
  slice l (fst (m_trim_bounds chars l)) (snd (m_trim_bounds chars l)) = s_trim chars l.
Proof.
  intros H. unfold m_trim_bounds, s_trim, slice. cbn [fst snd]. rewrite !frev_rev.
  set (f := fun c => memb c chars).
  rewrite (msf_dropwhile chars l H). fold f.
  set (d := dropwhile f l).
  destruct d as [|x t] eqn:ED.
  - reflexivity.
  - assert (Fx : f x = false) by (eapply dropwhile_head; eauto).
    assert (BK : m_skip_front chars (rev (x :: t)) <= length (x :: t) - 1).
    { cbn [rev]. pose proof (msf_app_stop chars (rev t) x []) as M. rewrite rev_length in M.
      cbn [length]. rewrite Nat.sub_succ, Nat.sub_0_r. apply M. rewrite (in_set_memb chars x H). exact Fx. }
    destruct (rev (x :: t)) as [|r0 rt] eqn:ER.
    + apply (f_equal (@length Z)) in ER. rewrite rev_length in ER. cbn in ER. lia.
    + rewrite <- ER in *. rewrite Nat.min_l by exact BK.
      unfold f. rewrite <- (msf_dropwhile chars (rev (x :: t)) H).
      rewrite rev_skipn_rev. reflexivity.
Qed.

Lemma trim_bounds_full chars l : snd (m_trim_bounds chars l) = length l -> fst (m_trim_bounds chars l) = 0.
Proof.
  unfold m_trim_bounds. cbn [fst snd]. intros H.
  pose proof (msf_le chars l) as M.
  assert (length (skipn (m_skip_front chars l) l) = length l - m_skip_front chars l) by apply skipn_length.
  lia.
Qed.

(* ---- replace ---- *)
Lemma repl_aux_skip nee rep : forall p s, repl_aux nee rep s p = repl_aux nee rep 0 (skipn s p).
Proof.
  induction p as [|x t IH]; intros [|s]; cbn [repl_aux skipn]; auto.
Qed.

Lemma is_prefix_nil_r nee : nee <> [] -> is_prefix nee [] = false.
Proof. destruct nee; [congruence|reflexivity]. Qed.

Lemma repl_find nee rep : nee <> [] -> forall p,
  repl_aux nee rep 0 p =
  match find_first (P_sub nee) p with
  | None => p
  | Some k => firstn k p ++ rep ++ repl_aux nee rep 0 (skipn (k + length nee) p)
  end.
Proof.
  intros NE. induction p as [|x t IH]; rewrite find_first_unfold; unfold P_sub at 1.
  - rewrite is_prefix_nil_r by exact NE. reflexivity.
  - cbn [repl_aux]. destruct (is_prefix nee (x :: t)) eqn:E.
    + cbn [firstn app Nat.add]. f_equal. rewrite repl_aux_skip.
      destruct nee as [|n0 nee']; [congruence|]. cbn [length skipn]. rewrite Nat.sub_succ, Nat.sub_0_r. reflexivity.
    + rewrite IH. destruct (find_first (P_sub nee) t) as [k|]; cbn [option_map firstn skipn app Nat.add]; reflexivity.
Qed.

Lemma grow_ge cap len add : len + add <= grow cap len add.
Proof.
  unfold grow. destruct (len + add <=? cap) eqn:E; [apply Nat.leb_le in E; lia|apply or3_ge].
Qed.

Lemma m_replace_spec nee rep : nee <> [] -> forall fuel p acc cap, length p < fuel -> length acc <= cap ->
  fst (m_replace_loop fuel nee rep p acc cap) = acc ++ repl_aux nee rep 0 p /\
  length (fst (m_replace_loop fuel nee rep p acc cap)) <= snd (m_replace_loop fuel nee rep p acc cap).
Proof.
  intros NE. induction fuel as [|f IH]; intros p acc cap Hf Hc; [lia|].
  cbn [m_replace_loop]. unfold m_strstr. rewrite (repl_find nee rep NE p).
  destruct (find_first (P_sub nee) p) as [k|] eqn:E.
  - destruct (find_first_some _ _ _ E) as (A & B & _).
    assert (LN : 1 <= length nee) by (destruct nee; [congruence|cbn; lia]).
    assert (LP : 1 <= length p).
    { destruct p; [|cbn; lia]. destruct k; cbn in A; unfold P_sub in A; rewrite is_prefix_nil_r in A by exact NE; discriminate. }
    pose proof (grow_ge cap (length acc) k) as G1.
    pose proof (grow_ge (grow cap (length acc) k) (length (acc ++ firstn k p)) (length rep)) as G2.
    destruct (IH (skipn (k + length nee) p) ((acc ++ firstn k p) ++ rep)
                 (grow (grow cap (length acc) k) (length (acc ++ firstn k p)) (length rep))) as (I1 & I2).
    + rewrite skipn_length. lia.
    + rewrite app_length. lia.
    + split; [|exact I2]. rewrite I1. rewrite <- !app_assoc. reflexivity.
  - cbn [fst snd]. split; [reflexivity|]. rewrite app_length. apply grow_ge.
Qed.

Lemma s_replace_nomatch nee rep hay : nee <> [] -> find_first (P_sub nee) hay = None -> s_replace nee rep hay = hay.
Proof.
  intros NE F. unfold s_replace. destruct nee as [|n0 nee']; [congruence|].
  rewrite (repl_find (n0 :: nee') rep NE hay), F. reflexivity.
Qed.

Lemma s_replace_loop nee rep hay cap0 : nee <> [] ->
  fst (m_replace_loop (S (length hay)) nee rep hay [] cap0) = s_replace nee rep hay /\
  length (fst (m_replace_loop (S (length hay)) nee rep hay [] cap0)) <= snd (m_replace_loop (S (length hay)) nee rep hay [] cap0).
Proof.
  intros NE. destruct (m_replace_spec nee rep NE (S (length hay)) hay [] cap0) as (A & B); [lia|cbn; lia|].
  split; [|exact B]. rewrite A. unfold s_replace. destruct nee; [congruence|reflexivity].
Qed.

(* ---- the static helpers on C strings ---- *)
Local Open Scope Z_scope.
Lemma nulfree_cons x l : nulfree (x :: l) = true -> (x =? 0)%Z = false /\ nulfree l = true.
Proof. unfold nulfree. cbn. intros H. apply andb_true_iff in H. destruct H as (H1 & H2). destruct (x =? 0)%Z; auto; discriminate. Qed.

Lemma m_strlen_spec l : nulfree l = true -> m_strlen (l ++ [0%Z]) = length l.
Proof.
  induction l as [|x t IH]; intros H; cbn; auto.
  apply nulfree_cons in H. destruct H as (H1 & H2). rewrite H1, IH; auto.
Qed.

Lemma m_sfind_spec c l : nulfree l = true -> forall i, m_sfind (l ++ [0%Z]) c i = m_find_c l c i.
Proof.
  induction l as [|x t IH]; intros H i; cbn; auto.
  apply nulfree_cons in H. destruct H as (H1 & H2). rewrite H1. destruct (x =? c); auto.
Qed.

Lemma m_sfindlast_spec c l : nulfree l = true -> forall i last, m_sfindlast (l ++ [0%Z]) c i last = m_findlast_c l c i last.
Proof.
  induction l as [|x t IH]; intros H i last; cbn; auto.
  apply nulfree_cons in H. destruct H as (H1 & H2). rewrite H1. apply IH. exact H2.
Qed.

Lemma starts_mirror a b : cbytes a = true -> cbytes b = true ->
  (m_compare_n (length b) (a ++ [0%Z]) (b ++ [0%Z]) =? 0)%Z = is_prefix b a.
Proof.
  intros Ha Hb. pose proof (m_compare_n_spec (length b) a b Ha Hb) as M. rewrite (firstn_all b) in M.
  rewrite is_prefix_firstn.
  destruct (list_eqb (firstn (length b) a) b) eqn:E.
  - apply list_eqb_eq in E. rewrite E in M. rewrite (proj2 (lexcmp_eq b b) eq_refl) in M.
    apply (proj1 (sgn_zero _)) in M. rewrite M.
    assert (L : (length b <= length a)%nat).
    { apply (f_equal (@length Z)) in E. rewrite firstn_length in E. lia. }
    apply Nat.leb_le in L. rewrite L. reflexivity.
  - rewrite andb_false_r.
    destruct (m_compare_n (length b) (a ++ [0%Z]) (b ++ [0%Z]) =? 0)%Z eqn:E2; auto.
    apply Z.eqb_eq in E2. rewrite E2, sgn_0 in M. symmetry in M. apply (proj1 (lexcmp_eq _ _)) in M.
    apply list_eqb_eq in M. congruence.
Qed.

Lemma stat_mirror q a b :
  match q with
  | QEqualsICN _ => True
  | _ => cbytes a = true /\ cbytes b = true
  end -> m_stat q a b = s_stat q a b.
Proof.
  destruct q; cbn [m_stat s_stat]; intros H.
  - destruct H as (Ha & Hb). apply m_compare_spec; auto.
  - destruct H as (Ha & Hb). apply m_compare_n_spec; auto.
  - destruct H as (Ha & Hb). rewrite !map_lowt. rewrite <- (map_length lower a).
    apply m_compare_spec; auto using cbytes_map_lower.
  - destruct H as (Ha & Hb). rewrite !map_lowt. rewrite m_compare_n_spec by auto using cbytes_map_lower.
    rewrite <- !firstn_map. reflexivity.
  - rewrite m_cmp_eqb, !map_lowt. reflexivity.
  - destruct H as (Ha & Hb). rewrite starts_mirror; auto.
  - destruct H as (Ha & Hb). rewrite m_strlen_spec; auto. unfold cbytes in Ha. apply andb_true_iff in Ha. tauto.
  - destruct H as (Ha & Hb). unfold cbytes in Ha. apply andb_true_iff in Ha. destruct Ha as (_ & Ha).
    rewrite m_sfind_spec by exact Ha. rewrite m_find_c_spec. destruct (find_first (P_chr c) a); reflexivity.
  - destruct H as (Ha & Hb). unfold cbytes in Ha. apply andb_true_iff in Ha. destruct Ha as (_ & Ha).
    rewrite m_sfindlast_spec by exact Ha. rewrite m_findlast_c_spec. destruct (find_last (P_chr c) a); reflexivity.
  - reflexivity.
  - reflexivity.
Qed.
