(* Refinement: every operation of the model, run from a state satisfying the heap invariant,
   succeeds (no bounds error, no use after free, no write to foreign memory), re-establishes
   the invariant, and changes the denoted values exactly as the reference does. *)
From Coq Require Import ZArith List Bool Arith Lia.
From Common Require Import ListAux.
From Str Require Import StrSpec StrModel StrLists StrInv StrPrims.
Import ListNotations.

(* ---- from frames to the abstract state ---- *)
Lemma has_nth w v : has (abs w) v = true -> exists h, nth_error (vars w) v = Some h.
Proof.
  unfold has, abs. cbn. rewrite map_length. intros H. apply Nat.ltb_lt in H.
  destruct (nth_error (vars w) v) eqn:E; eauto. apply nth_error_None in E. lia.
Qed.

Lemma valof_abs w v h : nth_error (vars w) v = Some h -> valof (abs w) v = h_value w h.
Proof.
  intros H. unfold valof, abs. cbn. apply nth_nth_error. rewrite nth_error_map, H. reflexivity.
Qed.

Definition upd_result (w : world) (v : nat) (X : list cell) (w' : world) : Prop :=
  Inv w' /\ frame w w' v /\ exists h', nth_error (vars w') v = Some h' /\ h_cells w' h' = X.

Lemma upd_result_trans w v X w1 Y w2 : upd_result w v X w1 -> upd_result w1 v Y w2 -> upd_result w v Y w2.
Proof.
  intros (I1 & F1 & _) (I2 & F2 & R). split; [exact I2|]. split; [eapply frame_trans; eauto|exact R].
Qed.

Lemma upd_result_abs w v X w' : v < length (vars w) -> upd_result w v X w' ->
  abs w' = setval (abs w) v (map cval X).
Proof.
  intros Hv (I' & (FL & FR & FF) & h' & Hh & HX). unfold abs, setval. cbn [svals sregs]. f_equal; [|exact FR].
  apply upd_ext_nth.
  - rewrite !map_length. exact FL.
  - rewrite map_length. exact Hv.
  - rewrite nth_error_map, Hh. cbn. rewrite h_value_cells, HX. reflexivity.
  - intros u Hn. rewrite !nth_error_map.
    destruct (nth_error (vars w) u) as [h|] eqn:E.
    + destruct (FF u h Hn E) as (E' & C). rewrite E'. cbn. rewrite !h_value_cells, C. reflexivity.
    + assert (nth_error (vars w') u = None) as ->; [|reflexivity].
      apply nth_error_None. rewrite FL. apply nth_error_None. exact E.
Qed.

Lemma push_abs w w' h' X : vars w' = vars w ++ [h'] -> regs w' = regs w -> keeps w w' -> h_cells w' h' = X ->
  abs w' = pushval (abs w) (map cval X).
Proof.
  intros EV ER K HX. unfold abs, pushval. cbn [svals sregs]. rewrite EV, ER. f_equal.
  rewrite map_app. cbn [map]. f_equal.
  - apply map_ext_in. intros g Hg. apply In_nth_error in Hg. destruct Hg as (x & Hx).
    rewrite !h_value_cells. rewrite (K x g Hx). reflexivity.
  - rewrite h_value_cells, HX. reflexivity.
Qed.

Lemma same_abs w w' : vars w' = vars w -> regs w' = regs w -> keeps w w' -> abs w' = abs w.
Proof.
  intros EV ER K. unfold abs. rewrite EV, ER. f_equal.
  apply map_ext_in. intros g Hg. apply In_nth_error in Hg. destruct Hg as (x & Hx).
  rewrite !h_value_cells. rewrite (K x g Hx). reflexivity.
Qed.

(* an operation on v that leaves v's own value alone as well *)
Lemma upd_result_same_abs w v h0 w' : nth_error (vars w) v = Some h0 ->
  upd_result w v (h_cells w h0) w' -> abs w' = abs w.
Proof.
  intros H R. rewrite (upd_result_abs w v (h_cells w h0) w'); [|eapply nth_error_lt; eauto|exact R].
  unfold setval, abs. cbn [svals sregs]. f_equal.
  symmetry. apply upd_ext_nth; auto.
  - rewrite map_length. eapply nth_error_lt; eauto.
  - rewrite nth_error_map, H. cbn. rewrite h_value_cells. reflexivity.
Qed.

(* ---- detach as an update that keeps the first c cells ---- *)
Lemma owned_len w v b k : Inv w -> owned_at w v b k -> length (h_cells w (HBlock b)) = blen k.
Proof.
  intros I O. rewrite (owned_cells _ _ _ _ O). pose proof O as (_ & E & _).
  destruct (block_ok_in _ _ _ I E) as (B1 & B2). rewrite firstn_length. lia.
Qed.

Lemma var_len_owned w v b k : Inv w -> owned_at w v b k -> var_len w v = Ok (blen k).
Proof.
  intros I O. pose proof O as (Hv & _). rewrite (var_len_ok _ _ _ I Hv). f_equal. eapply owned_len; eauto.
Qed.

(* ---- append ---- *)
Lemma append_cells_ok w v h0 l : Inv w -> nth_error (vars w) v = Some h0 ->
  exists w', append_cells w v l = Ok w' /\ upd_result w v (h_cells w h0 ++ l) w'.
Proof.
  intros I H. unfold append_cells. rewrite (var_len_ok _ _ _ I H). cbn [bind].
  set (n := length (h_cells w h0)).
  destruct (detach_ok w v h0 n (n + length l) I H) as (w1 & b & k & E1 & I1 & F1 & O1 & L1 & C1 & FC1 & _); [lia|].
  rewrite E1. cbn [bind]. rewrite (var_len_owned _ _ _ _ I1 O1), L1. cbn [bind].
  destruct (v_write_owned w1 v b k n l I1 O1) as (E2 & I2 & F2 & O2); [lia|]. rewrite E2. cbn [bind].
  match type of O2 with owned_at ?w2 _ _ ?k2 =>
    destruct (v_setlen_term_owned w2 v b k2 (n + length l) I2 O2) as (E3 & I3 & F3 & O3); [cbn; lia|] end.
  rewrite E3. eexists. split; [reflexivity|].
  split; [exact I3|]. split; [eapply frame_trans; [exact F1|eapply frame_trans; eauto]|].
  exists (HBlock b). split; [apply O3|]. rewrite (owned_cells _ _ _ _ O3). cbn [blen cells].
  destruct (block_ok_in _ _ _ I1 (proj1 (proj2 O1))) as (B1 & B2).
  rewrite firstn_app_le by (rewrite firstn_length, splice_length; lia).
  rewrite firstn_firstn, Nat.min_id. rewrite firstn_splice_end by lia.
  f_equal. subst n. rewrite Nat.min_id in FC1. rewrite FC1. apply firstn_all.
Qed.

Lemma append_s_ok w v u hv hu : Inv w -> nth_error (vars w) v = Some hv -> nth_error (vars w) u = Some hu ->
  exists w', append_s w v u = Ok w' /\ upd_result w v (h_cells w hv ++ h_cells w hu) w'.
Proof.
  intros I Hv Hu. unfold append_s. rewrite (var_len_ok _ _ _ I Hv), (var_len_ok _ _ _ I Hu). cbn [bind].
  destruct (detach_ok w v hv (length (h_cells w hv)) (length (h_cells w hv) + length (h_cells w hu)) I Hv)
    as (w1 & b & k & E1 & I1 & F1 & O1 & L1 & C1 & FC1 & _); [lia|].
  rewrite E1. cbn [bind]. rewrite (var_len_owned _ _ _ _ I1 O1), L1. cbn [bind].
  destruct (block_ok_in _ _ _ I1 (proj1 (proj2 O1))) as (B1 & B2).
  rewrite Nat.min_id in FC1.
  assert (HC1 : h_cells w1 (HBlock b) = h_cells w hv).
  { rewrite (owned_cells _ _ _ _ O1), L1, FC1. apply firstn_all. }
  (* the argument, read again after the detach *)
  assert (SRC : exists hu1, nth_error (vars w1) u = Some hu1 /\ h_cells w1 hu1 = h_cells w hu).
  { destruct (Nat.eq_dec u v) as [->|Hn].
    - exists (HBlock b). split; [apply O1|]. rewrite HC1. congruence.
    - destruct F1 as (_ & _ & FF). destruct (FF u hu Hn Hu) as (A & B). eauto. }
  destruct SRC as (hu1 & Hu1 & HCu). rewrite (get_var_ok _ _ _ Hu1). cbn [bind].
  rewrite (d_len_ok _ _ _ I1 Hu1). cbn [bind]. rewrite (d_read_ok _ _ _ I1 Hu1). cbn [bind]. rewrite HCu.
  destruct (v_write_owned w1 v b k (length (h_cells w hv)) (h_cells w hu) I1 O1) as (E2 & I2 & F2 & O2); [lia|].
  rewrite E2. cbn [bind].
  match type of O2 with owned_at ?w2 _ _ ?k2 =>
    destruct (v_setlen_term_owned w2 v b k2 (length (h_cells w hv) + length (h_cells w hu)) I2 O2) as (E3 & I3 & F3 & O3); [cbn; lia|] end.
  rewrite E3. eexists. split; [reflexivity|].
  split; [exact I3|]. split; [eapply frame_trans; [exact F1|eapply frame_trans; eauto]|].
  exists (HBlock b). split; [apply O3|]. rewrite (owned_cells _ _ _ _ O3). cbn [blen cells].
  rewrite firstn_app_le by (rewrite firstn_length, splice_length; lia).
  rewrite firstn_firstn, Nat.min_id. rewrite firstn_splice_end by lia.
  f_equal. rewrite FC1. apply firstn_all.
Qed.

(* ---- prepend ---- *)
Lemma upd_app_l {A} (a b : list A) v x : v < length a -> upd v x (a ++ b) = upd v x a ++ b.
Proof.
  revert v; induction a as [|h t IH]; intros [|v] H; cbn in *; try lia; auto. f_equal. apply IH. lia.
Qed.

Lemma frame_vars w w' v h' : frame w w' v -> v < length (vars w) -> nth_error (vars w') v = Some h' ->
  vars w' = upd v h' (vars w).
Proof.
  intros (FL & _ & FF) Hv Hh. apply upd_ext_nth; auto.
  intros u Hn. destruct (nth_error (vars w) u) as [h|] eqn:E.
  - apply (FF u h Hn E).
  - apply nth_error_None. rewrite FL. apply nth_error_None. exact E.
Qed.

(* the part shared by both prepends, after the temporary copy exists, the detach is done and the
   first piece is written: in w2 variable v exclusively owns block b whose cells start with s1,
   the temporary (index |vars w|) holds hc *)
Lemma prepend_finish w v hv w0 hc w2 b k2 s1 :
  Inv w -> nth_error (vars w) v = Some hv ->
  vars w0 = vars w ++ [hc] -> regs w0 = regs w -> keeps w w0 -> h_cells w0 hc = h_cells w hv ->
  Inv w2 -> frame w0 w2 v -> owned_at w2 v b k2 -> length s1 + length (h_cells w hv) <= bcap k2 ->
  firstn (length s1) (cells k2) = s1 ->
  exists w',
    (do hc' <- get_var w2 (length (vars w));
     do nc2 <- d_len w2 hc';
     do src <- d_read w2 hc' 0 nc2;
     do w3 <- v_write w2 v (length s1) src;
     do w4 <- v_setlen_term w3 v (length s1 + length (h_cells w hv));
     pop_var w4) = Ok w' /\ upd_result w v (s1 ++ h_cells w hv) w'.
Proof.
  intros I Hv EV0 ER0 K0 HC0 I2 F2 O2 CAP PRE.
  assert (Hvlt : v < length (vars w)) by (eapply nth_error_lt; eauto).
  assert (Ht0 : nth_error (vars w0) (length (vars w)) = Some hc) by (rewrite EV0; apply nth_error_app_last).
  assert (Hnt : length (vars w) <> v) by lia.
  pose proof F2 as (FL2 & FR2 & FF2). destruct (FF2 _ hc Hnt Ht0) as (Ht2 & HCt2).
  rewrite (get_var_ok _ _ _ Ht2). cbn [bind].
  rewrite (d_len_ok _ _ _ I2 Ht2). cbn [bind]. rewrite (d_read_ok _ _ _ I2 Ht2). cbn [bind].
  rewrite HCt2, HC0.
  destruct (block_ok_in _ _ _ I2 (proj1 (proj2 O2))) as (B1 & B2).
  destruct (v_write_ok w2 v b k2 (length s1) (h_cells w hv) I2 O2) as (w3 & k3 & E3 & I3 & F3 & O3 & C3 & L3 & P3); [lia|].
  rewrite E3. cbn [bind].
  destruct (v_setlen_term_ok w3 v b k3 (length s1 + length (h_cells w hv)) I3 O3) as (w4 & k4 & E4 & I4 & F4 & O4 & C4 & L4 & P4); [lia|].
  rewrite E4. cbn [bind].
  assert (F04 : frame w0 w4 v) by (eapply frame_trans; [exact F2|eapply frame_trans; eauto]).
  assert (EV4 : vars w4 = upd v (HBlock b) (vars w) ++ [hc]).
  { rewrite (frame_vars w0 w4 v (HBlock b) F04); [|rewrite EV0, app_length; lia|apply O4].
    rewrite EV0. apply upd_app_l. exact Hvlt. }
  destruct (pop_var_ok w4 _ _ I4 EV4) as (w5 & E5 & I5 & EV5 & ER5 & K5).
  exists w5. split; [exact E5|].
  destruct F04 as (FL04 & FR04 & FF04).
  split; [exact I5|]. split.
  - split; [rewrite EV5; apply upd_length|]. split; [congruence|].
    intros u h Hn Hu.
    assert (Hu5 : nth_error (upd v (HBlock b) (vars w)) u = Some h) by (rewrite nth_error_upd_other by auto; exact Hu).
    split; [rewrite EV5; exact Hu5|].
    rewrite (K5 u h Hu5).
    assert (Hu0 : nth_error (vars w0) u = Some h).
    { rewrite EV0, nth_error_app1; auto. eapply nth_error_lt; eauto. }
    destruct (FF04 u h Hn Hu0) as (_ & C). rewrite C. eapply K0; eauto.
  - exists (HBlock b). rewrite EV5. split; [apply nth_error_upd_same; exact Hvlt|].
    rewrite (K5 v (HBlock b)) by (apply nth_error_upd_same; exact Hvlt).
    rewrite (owned_cells _ _ _ _ O4). rewrite L4, C4.
    assert (LK3 : length (cells k3) = length (cells k2)) by (rewrite C3, splice_length; lia).
    rewrite firstn_app_le by (rewrite firstn_length; lia).
    rewrite firstn_firstn, Nat.min_id. rewrite C3.
    rewrite firstn_splice_end by lia. rewrite PRE. reflexivity.
Qed.

Lemma prepend_cells_ok w v hv l : Inv w -> nth_error (vars w) v = Some hv ->
  exists w', prepend_cells w v l = Ok w' /\ upd_result w v (l ++ h_cells w hv) w'.
Proof.
  intros I Hv. unfold prepend_cells.
  assert (Hvlt : v < length (vars w)) by (eapply nth_error_lt; eauto).
  destruct (push_copy_ok w v hv I Hv) as (w0 & hc & E0 & I0 & EV0 & ER0 & K0 & HC0 & _).
  rewrite E0. cbn [bind].
  assert (Ht0 : nth_error (vars w0) (length (vars w)) = Some hc) by (rewrite EV0; apply nth_error_app_last).
  assert (Hv0 : nth_error (vars w0) v = Some hv) by (rewrite EV0, nth_error_app1; auto).
  rewrite (var_len_ok _ _ _ I0 Ht0). cbn [bind]. rewrite HC0.
  destruct (detach_ok w0 v hv 0 (length l + length (h_cells w hv)) I0 Hv0) as (w1 & b & k & E1 & I1 & F1 & O1 & L1 & C1 & _); [lia|].
  rewrite E1. cbn [bind].
  destruct (block_ok_in _ _ _ I1 (proj1 (proj2 O1))) as (B1 & B2).
  destruct (v_write_ok w1 v b k 0 l I1 O1) as (w2 & k2 & E2 & I2 & F2 & O2 & C2 & L2 & P2); [lia|].
  rewrite E2. cbn [bind].
  apply (prepend_finish w v hv w0 hc w2 b k2 l); auto.
  - eapply frame_trans; eauto.
  - lia.
  - rewrite C2. cbn [firstn app Nat.add]. apply firstn_app_exact.
Qed.

Lemma prepend_s_ok w v u hv hu : Inv w -> nth_error (vars w) v = Some hv -> nth_error (vars w) u = Some hu ->
  exists w', prepend_s w v u = Ok w' /\ upd_result w v (h_cells w hu ++ h_cells w hv) w'.
Proof.
  intros I Hv Hu. unfold prepend_s.
  assert (Hvlt : v < length (vars w)) by (eapply nth_error_lt; eauto).
  assert (Hult : u < length (vars w)) by (eapply nth_error_lt; eauto).
  destruct (push_copy_ok w v hv I Hv) as (w0 & hc & E0 & I0 & EV0 & ER0 & K0 & HC0 & SH0).
  rewrite E0. cbn [bind].
  assert (Ht0 : nth_error (vars w0) (length (vars w)) = Some hc) by (rewrite EV0; apply nth_error_app_last).
  assert (Hv0 : nth_error (vars w0) v = Some hv) by (rewrite EV0, nth_error_app1; auto).
  assert (Hu0 : nth_error (vars w0) u = Some hu) by (rewrite EV0, nth_error_app1; auto).
  rewrite (get_var_ok _ _ _ Hu0). cbn [bind].
  rewrite (d_len_ok _ _ _ I0 Hu0). cbn [bind].
  rewrite (var_len_ok _ _ _ I0 Ht0). cbn [bind]. rewrite HC0, (K0 _ _ Hu).
  destruct (detach_ok w0 v hv 0 (length (h_cells w hu) + length (h_cells w hv)) I0 Hv0) as (w1 & b & k & E1 & I1 & F1 & O1 & L1 & C1 & _); [lia|].
  rewrite E1. cbn [bind].
  (* str.data, read before the detach, still describes the same bytes in w1: it is the data of
     another variable, or (str = *this) a non-owning descriptor, or the block kept alive by the
     temporary copy *)
  assert (SRC : d_len w1 hu = Ok (length (h_cells w hu)) /\
                d_read w1 hu 0 (length (h_cells w hu)) = Ok (h_cells w hu)).
  { assert (Hnt : length (vars w) <> v) by lia.
    pose proof F1 as (_ & FR1 & FF1).
    assert (VAR : forall x, nth_error (vars w1) x = Some hu -> h_cells w1 hu = h_cells w hu ->
                  d_len w1 hu = Ok (length (h_cells w hu)) /\ d_read w1 hu 0 (length (h_cells w hu)) = Ok (h_cells w hu)).
    { intros x Hx HCx. rewrite <- HCx. split; [eapply d_len_ok; eauto|eapply d_read_ok; eauto]. }
    destruct (Nat.eq_dec u v) as [->|Hn].
    - assert (hu = hv) by congruence. subst hu.
      destruct hv as [|r off len|b0].
      + rewrite <- (h_cells_nonblock w w1 HEmpty) by (congruence || discriminate).
        apply d_nonblock_ok; [constructor|discriminate].
      + rewrite <- (h_cells_nonblock w w1 (HView r off len)) by (congruence || discriminate).
        apply d_nonblock_ok; [|discriminate]. cbn. rewrite FR1, ER0. eapply inv_view; eauto.
      + rewrite (SH0 b0 eq_refl) in Ht0. destruct (FF1 _ _ Hnt Ht0) as (A & B).
        apply (VAR (length (vars w))); auto. rewrite B. eapply K0; eauto.
    - destruct (FF1 u hu Hn Hu0) as (A & B). apply (VAR u); auto. rewrite B. eapply K0; eauto. }
  destruct SRC as (SL & SR). rewrite SL. cbn [bind]. rewrite SR. cbn [bind].
  destruct (block_ok_in _ _ _ I1 (proj1 (proj2 O1))) as (B1 & B2).
  destruct (v_write_ok w1 v b k 0 (h_cells w hu) I1 O1) as (w2 & k2 & E2 & I2 & F2 & O2 & C2 & L2 & P2); [lia|].
  rewrite E2. cbn [bind].
  apply (prepend_finish w v hv w0 hc w2 b k2 (h_cells w hu)); auto.
  - eapply frame_trans; eauto.
  - lia.
  - rewrite C2. cbn [firstn app Nat.add]. apply firstn_app_exact.
Qed.

(* ---- a temporary pushed at the end is destroyed again ---- *)
Lemma pop_temp_ok w v w0 hc w4 h' X :
  Inv w -> v < length (vars w) ->
  vars w0 = vars w ++ [hc] -> regs w0 = regs w -> keeps w w0 ->
  Inv w4 -> frame w0 w4 v -> nth_error (vars w4) v = Some h' -> h_cells w4 h' = X ->
  exists w5, pop_var w4 = Ok w5 /\ upd_result w v X w5.
Proof.
  intros I Hvlt EV0 ER0 K0 I4 F04 Hh HX.
  assert (EV4 : vars w4 = upd v h' (vars w) ++ [hc]).
  { rewrite (frame_vars w0 w4 v h' F04); [|rewrite EV0, app_length; lia|exact Hh].
    rewrite EV0. apply upd_app_l. exact Hvlt. }
  destruct (pop_var_ok w4 _ _ I4 EV4) as (w5 & E5 & I5 & EV5 & ER5 & K5).
  exists w5. split; [exact E5|].
  destruct F04 as (FL04 & FR04 & FF04).
  split; [exact I5|]. split.
  - split; [rewrite EV5; apply upd_length|]. split; [congruence|].
    intros u h Hn Hu.
    assert (Hu5 : nth_error (upd v h' (vars w)) u = Some h) by (rewrite nth_error_upd_other by auto; exact Hu).
    split; [rewrite EV5; exact Hu5|].
    rewrite (K5 u h Hu5).
    assert (Hu0 : nth_error (vars w0) u = Some h).
    { rewrite EV0, nth_error_app1; auto. eapply nth_error_lt; eauto. }
    destruct (FF04 u h Hn Hu0) as (_ & C). rewrite C. eapply K0; eauto.
  - exists h'. rewrite EV5. split; [apply nth_error_upd_same; exact Hvlt|].
    rewrite (K5 v h') by (apply nth_error_upd_same; exact Hvlt). exact HX.
Qed.

(* *this = <temporary holding bs> *)
Lemma install_ok w v hv bs cap : Inv w -> nth_error (vars w) v = Some hv -> length bs <= cap ->
  exists w', install w v bs cap = Ok w' /\ upd_result w v (map Some bs) w'.
Proof.
  intros I Hv Hc. unfold install.
  assert (Hvlt : v < length (vars w)) by (eapply nth_error_lt; eauto).
  destruct (push_owned_ok w (map Some bs) cap I) as (w0 & b & k & E0 & I0 & EV0 & ER0 & K0 & HC0 & O0 & CP0); [rewrite map_length; exact Hc|].
  rewrite E0. cbn [bind].
  assert (Ht0 : nth_error (vars w0) (length (vars w)) = Some (HBlock b)) by (rewrite EV0; apply nth_error_app_last).
  assert (Hv0 : nth_error (vars w0) v = Some hv) by (rewrite EV0, nth_error_app1; auto).
  destruct (assign_ok w0 v (length (vars w)) hv (HBlock b) I0 Hv0 Ht0) as (w1 & h' & E1 & I1 & F1 & Hh & HC1).
  rewrite E1. cbn [bind].
  apply (pop_temp_ok w v w0 (HBlock b) w1 h'); auto. congruence.
Qed.

(* ---- detach that keeps the whole text: detach(), reserve(), the start of the in-place rewrites ---- *)
Lemma detach_keep_ok w v h0 m : Inv w -> nth_error (vars w) v = Some h0 -> length (h_cells w h0) <= m ->
  exists w' b k, detach w v (length (h_cells w h0)) m = Ok w' /\ upd_result w v (h_cells w h0) w' /\
    owned_at w' v b k /\ blen k = length (h_cells w h0) /\ m <= bcap k /\
    firstn (length (h_cells w h0)) (cells k) = h_cells w h0.
Proof.
  intros I H Hm.
  destruct (detach_ok w v h0 _ m I H Hm) as (w' & b & k & E & I' & F' & O' & L & C & FC & _).
  rewrite Nat.min_id, firstn_all in FC.
  exists w', b, k. split; [exact E|]. split; [|auto].
  split; [exact I'|]. split; [exact F'|]. exists (HBlock b). split; [apply O'|].
  rewrite (owned_cells _ _ _ _ O'), L. exact FC.
Qed.

Lemma splice_one_upd {A} (cs : list A) i x : i < length cs ->
  firstn i cs ++ [x] ++ skipn (i + 1) cs = upd i x cs.
Proof.
  revert i; induction cs as [|h t IH]; intros [|i] H; cbn in *; try lia; auto.
  f_equal. apply IH. lia.
Qed.

Lemma firstn_upd_lt {A} (cs : list A) n i x : firstn n (upd i x cs) = upd i x (firstn n cs).
Proof.
  revert n i; induction cs as [|h t IH]; intros [|n] [|i]; cbn; auto. f_equal. apply IH.
Qed.

Lemma poke_ok w v h0 i c : Inv w -> nth_error (vars w) v = Some h0 -> i < length (h_cells w h0) ->
  exists w', (do k <- var_len w v; do w1 <- detach w v k k; v_write w1 v i [Some c]) = Ok w' /\
             upd_result w v (upd i (Some c) (h_cells w h0)) w'.
Proof.
  intros I H Hi. rewrite (var_len_ok _ _ _ I H). cbn [bind].
  destruct (detach_keep_ok w v h0 _ I H (le_n _)) as (w1 & b & k & E1 & R1 & O1 & L1 & C1 & FC1).
  rewrite E1. cbn [bind]. destruct R1 as (I1 & F1 & _).
  destruct (block_ok_in _ _ _ I1 (proj1 (proj2 O1))) as (B1 & B2).
  destruct (v_write_ok w1 v b k i [Some c] I1 O1) as (w2 & k2 & E2 & I2 & F2 & O2 & C2 & L2 & P2); [cbn; lia|].
  rewrite E2. eexists. split; [reflexivity|].
  split; [exact I2|]. split; [eapply frame_trans; eauto|]. exists (HBlock b). split; [apply O2|].
  rewrite (owned_cells _ _ _ _ O2), L2, C2, L1. cbn [length].
  rewrite splice_one_upd by lia. rewrite firstn_upd_lt, FC1. reflexivity.
Qed.

Lemma resize_ok w v h0 n c : Inv w -> nth_error (vars w) v = Some h0 ->
  exists w', (do k <- var_len w v;
              do w1 <- detach w v n n;
              if k <? n then do w2 <- detach w1 v n n; v_write w2 v k (repeat (Some c) (n - k)) else Ok w1) = Ok w' /\
             upd_result w v (firstn n (h_cells w h0) ++ repeat (Some c) (n - length (h_cells w h0))) w'.
Proof.
  intros I H. rewrite (var_len_ok _ _ _ I H). cbn [bind].
  set (len := length (h_cells w h0)).
  destruct (detach_ok w v h0 n n I H (le_n _)) as (w1 & b & k & E1 & I1 & F1 & O1 & L1 & C1 & FC1 & _).
  rewrite E1. cbn [bind]. fold len in FC1.
  destruct (block_ok_in _ _ _ I1 (proj1 (proj2 O1))) as (B1 & B2).
  destruct (len <? n) eqn:G.
  - apply Nat.ltb_lt in G. replace (Nat.min len n) with len in FC1 by lia.
    pose proof O1 as (Hv1 & _).
    destruct (detach_ok w1 v (HBlock b) n n I1 Hv1 (le_n _)) as (w2 & b2 & k2 & E2 & I2 & F2 & O2 & L2 & C2 & FC2 & _).
    rewrite E2. cbn [bind].
    rewrite (owned_len _ _ _ _ I1 O1), L1, Nat.min_id in FC2. rewrite (owned_cells _ _ _ _ O1), L1 in FC2.
    destruct (block_ok_in _ _ _ I2 (proj1 (proj2 O2))) as (B3 & B4).
    destruct (v_write_ok w2 v b2 k2 len (repeat (Some c) (n - len)) I2 O2) as (w3 & k3 & E3 & I3 & F3 & O3 & C3 & L3 & P3);
      [rewrite repeat_length; lia|].
    rewrite E3. eexists. split; [reflexivity|].
    split; [exact I3|]. split; [eapply frame_trans; [exact F1|eapply frame_trans; eauto]|].
    exists (HBlock b2). split; [apply O3|].
    rewrite (owned_cells _ _ _ _ O3), L3, C3, L2.
    replace n with (len + length (repeat (Some c) (n - len))) at 1 by (rewrite repeat_length; lia).
    rewrite firstn_splice_end by (rewrite repeat_length; lia).
    f_equal.
    + rewrite (firstn_all2 (n := n)) by (fold len; lia).
      assert (X : firstn len (cells k2) = firstn len (firstn n (cells k2))) by (rewrite firstn_firstn; f_equal; lia).
      rewrite X, FC2, !firstn_firstn. replace (Nat.min (Nat.min len n) n) with len by lia. rewrite FC1. apply firstn_all.
  - apply Nat.ltb_ge in G. replace (Nat.min len n) with n in FC1 by lia.
    eexists. split; [reflexivity|].
    split; [exact I1|]. split; [exact F1|]. exists (HBlock b). split; [apply O1|].
    rewrite (owned_cells _ _ _ _ O1), L1, FC1. replace (n - len) with 0 by lia. cbn. rewrite app_nil_r. reflexivity.
Qed.

Lemma map_inplace_ok w v h0 f : Inv w -> nth_error (vars w) v = Some h0 ->
  exists w', map_inplace w v f = Ok w' /\
    upd_result w v (map (fun c => match c with Some z => Some (f z) | None => None end) (h_cells w h0)) w'.
Proof.
  intros I H. unfold map_inplace. rewrite (var_len_ok _ _ _ I H). cbn [bind].
  destruct (detach_keep_ok w v h0 _ I H (le_n _)) as (w1 & b & k & E1 & R1 & O1 & L1 & C1 & FC1).
  rewrite E1. cbn [bind]. destruct R1 as (I1 & F1 & _).
  destruct (block_ok_in _ _ _ I1 (proj1 (proj2 O1))) as (B1 & B2).
  rewrite (var_cells_ok _ _ _ I1 (proj1 O1)). cbn [bind].
  rewrite (owned_cells _ _ _ _ O1), L1, FC1.
  set (g := fun c : option Z => match c with Some z => Some (f z) | None => None end).
  destruct (v_write_ok w1 v b k 0 (map g (h_cells w h0)) I1 O1) as (w2 & k2 & E2 & I2 & F2 & O2 & C2 & L2 & P2);
    [rewrite map_length; lia|].
  rewrite E2. eexists. split; [reflexivity|].
  split; [exact I2|]. split; [eapply frame_trans; eauto|]. exists (HBlock b). split; [apply O2|].
  rewrite (owned_cells _ _ _ _ O2), L2, C2, L1. cbn [firstn app Nat.add].
  rewrite <- (map_length g (h_cells w h0)). apply firstn_app_exact.
Qed.

(* ---- append with the source inside the own text ---- *)
Lemma slice_firstn {A} (l : list A) n off len : off + len <= n -> slice (firstn n l) off len = slice l off len.
Proof.
  intros H. unfold slice. rewrite skipn_firstn_comm, firstn_firstn. f_equal. lia.
Qed.

Lemma append_tail w v h0 w1 b k l : Inv w -> nth_error (vars w) v = Some h0 ->
  Inv w1 -> frame w w1 v -> owned_at w1 v b k -> blen k = length (h_cells w h0) ->
  length (h_cells w h0) + length l <= bcap k ->
  firstn (length (h_cells w h0)) (cells k) = h_cells w h0 ->
  exists w', (do w2 <- v_write w1 v (length (h_cells w h0)) l;
              v_setlen_term w2 v (length (h_cells w h0) + length l)) = Ok w' /\
             upd_result w v (h_cells w h0 ++ l) w'.
Proof.
  intros I H I1 F1 O1 L1 C1 FC1. set (n := length (h_cells w h0)) in *.
  destruct (block_ok_in _ _ _ I1 (proj1 (proj2 O1))) as (B1 & B2).
  destruct (v_write_owned w1 v b k n l I1 O1) as (E2 & I2 & F2 & O2); [lia|]. rewrite E2. cbn [bind].
  match type of O2 with owned_at ?w2 _ _ ?k2 =>
    destruct (v_setlen_term_owned w2 v b k2 (n + length l) I2 O2) as (E3 & I3 & F3 & O3); [cbn; lia|] end.
  rewrite E3. eexists. split; [reflexivity|].
  split; [exact I3|]. split; [eapply frame_trans; [exact F1|eapply frame_trans; eauto]|].
  exists (HBlock b). split; [apply O3|]. rewrite (owned_cells _ _ _ _ O3). cbn [blen cells].
  rewrite firstn_app_le by (rewrite firstn_length, splice_length; lia).
  rewrite firstn_firstn, Nat.min_id. rewrite firstn_splice_end by lia.
  f_equal. exact FC1.
Qed.

Lemma append_own_ok w v h0 off len : Inv w -> nth_error (vars w) v = Some h0 ->
  off + len <= length (h_cells w h0) ->
  exists w', append_own w v off len = Ok w' /\ upd_result w v (h_cells w h0 ++ slice (h_cells w h0) off len) w'.
Proof.
  intros I H Hb. unfold append_own. rewrite (var_len_ok _ _ _ I H). cbn [bind].
  destruct (length (h_cells w h0) <? off) eqn:G; [apply Nat.ltb_lt in G; lia|]. clear G.
  destruct (detach_ok w v h0 (length (h_cells w h0)) (length (h_cells w h0) + len) I H)
    as (w1 & b & k & E1 & I1 & F1 & O1 & L1 & C1 & FC1 & _); [lia|].
  rewrite E1. cbn [bind]. rewrite (get_var_ok _ _ _ (proj1 O1)). cbn [bind].
  destruct (block_ok_in _ _ _ I1 (proj1 (proj2 O1))) as (B1 & B2).
  rewrite Nat.min_id, firstn_all in FC1.
  (* the source, read in the buffer the String has now *)
  assert (RD : d_read w1 (HBlock b) off len = Ok (slice (h_cells w h0) off len)).
  { pose proof O1 as (_ & Eb & Rb). cbn [d_read]. unfold get_blk. rewrite Eb, Rb. cbn [Nat.eqb bind].
    destruct (off + len <=? length (cells k)) eqn:EL; [|apply Nat.leb_gt in EL; lia].
    f_equal. rewrite <- FC1. symmetry. apply slice_firstn. exact Hb. }
  rewrite RD. cbn [bind]. rewrite (var_len_owned _ _ _ _ I1 O1), L1. cbn [bind].
  assert (LS : length (slice (h_cells w h0) off len) = len) by (apply slice_length; exact Hb).
  replace (length (h_cells w h0) + len) with (length (h_cells w h0) + length (slice (h_cells w h0) off len)) by (rewrite LS; reflexivity).
  apply (append_tail w v h0 w1 b k); auto. lia.
Qed.

(* ---- printf: the bytes vsnprintf produces are an input that may depend on the OLD text ---- *)
Lemma firstn_term_prefix (l : list Z) (rest : list (option Z)) :
  firstn (length l) (firstn 0 rest ++ (map Some l ++ [Some 0%Z]) ++ skipn (0 + length (map Some l ++ [Some 0%Z])) rest) = map Some l.
Proof.
  cbn [firstn app]. rewrite <- app_assoc. rewrite <- (map_length Some l) at 1. apply firstn_app_exact.
Qed.

(* the data variable v had in world w can still be read, unchanged, in world w' *)
Definition old_kept (w : world) (h0 : handle) (w' : world) : Prop :=
  d_len w' h0 = Ok (length (h_cells w h0)) /\ d_read w' h0 0 (length (h_cells w h0)) = Ok (h_cells w h0).

(* ... which holds while a temporary copy of v (index |vars w|) exists and only v is written:
   the old data is a non-owning descriptor, or the block kept alive by the temporary *)
Lemma old_kept_frame w v h0 w0 hc w' : Inv w -> nth_error (vars w) v = Some h0 ->
  vars w0 = vars w ++ [hc] -> regs w0 = regs w -> keeps w w0 -> (forall b, h0 = HBlock b -> hc = h0) ->
  Inv w' -> frame w0 w' v -> old_kept w h0 w'.
Proof.
  intros I Hv EV0 ER0 K0 SH0 I' F.
  assert (Hvlt : v < length (vars w)) by (eapply nth_error_lt; eauto).
  assert (Ht0 : nth_error (vars w0) (length (vars w)) = Some hc) by (rewrite EV0; apply nth_error_app_last).
  assert (Hnt : length (vars w) <> v) by lia.
  pose proof F as (_ & FR & FF). unfold old_kept.
  destruct h0 as [|r off len|b0].
  - rewrite <- (h_cells_nonblock w w' HEmpty) by (congruence || discriminate).
    apply d_nonblock_ok; [constructor|discriminate].
  - rewrite <- (h_cells_nonblock w w' (HView r off len)) by (congruence || discriminate).
    apply d_nonblock_ok; [|discriminate]. cbn. rewrite FR, ER0. eapply inv_view; eauto.
  - rewrite (SH0 b0 eq_refl) in Ht0. destruct (FF _ _ Hnt Ht0) as (A & B).
    rewrite <- (K0 _ _ Hv), <- B. split; [eapply d_len_ok; eauto|eapply d_read_ok; eauto].
Qed.

Lemma printf_m_ok w v h0 fmt l : Inv w -> nth_error (vars w) v = Some h0 ->
  (forall w', old_kept w h0 w' -> fmt w' = Ok l) ->
  exists w', printf_m w v fmt = Ok (w', RInt (Z.of_nat (length l))) /\ upd_result w v (map Some l) w'.
Proof.
  intros I H FM. unfold printf_m.
  assert (Hvlt : v < length (vars w)) by (eapply nth_error_lt; eauto).
  destruct (push_copy_ok w v h0 I H) as (w0 & hc & E0 & I0 & EV0 & ER0 & K0 & HC0 & SH0). rewrite E0. cbn [bind].
  assert (Hv0 : nth_error (vars w0) v = Some h0) by (rewrite EV0, nth_error_app1; auto).
  assert (FMT : forall w', Inv w' -> frame w0 w' v -> fmt w' = Ok l).
  { intros w' I' F'. apply FM. eapply (old_kept_frame w v h0 w0 hc w'); eauto. }
  destruct (detach_ok w0 v h0 0 200 I0 Hv0) as (w1 & b & k & E1 & I1 & F1 & O1 & L1 & C1 & _); [lia|].
  rewrite E1. cbn [bind]. rewrite (v_block_owned _ _ _ _ O1). cbn [bind snd].
  rewrite (FMT w1 I1 F1). cbn [bind].
  destruct (block_ok_in _ _ _ I1 (proj1 (proj2 O1))) as (B1 & B2).
  destruct (length l <? bcap k) eqn:G.
  - apply Nat.ltb_lt in G.
    destruct (v_write_ok w1 v b k 0 (map Some l ++ [Some 0%Z]) I1 O1) as (w2 & k2 & E2 & I2 & F2 & O2 & C2 & L2 & P2);
      [rewrite app_length, map_length; cbn; lia|].
    rewrite E2. cbn [bind].
    destruct (v_setlen_ok w2 v b k2 (length l) I2 O2) as (w3 & k3 & E3 & I3 & F3 & O3 & C3 & L3 & P3); [lia|].
    rewrite E3. cbn [bind].
    destruct (pop_temp_ok w v w0 hc w3 (HBlock b) (map Some l) I Hvlt EV0 ER0 K0 I3) as (w4 & E4 & R4).
    + eapply frame_trans; [exact F1|eapply frame_trans; eauto].
    + apply O3.
    + rewrite (owned_cells _ _ _ _ O3), L3, C3, C2. apply firstn_term_prefix.
    + rewrite E4. cbn [bind]. eexists. split; [reflexivity|exact R4].
  - apply Nat.ltb_ge in G.
    destruct (v_write_ok w1 v b k 0 (map Some (firstn (bcap k - 1) l) ++ [Some 0%Z]) I1 O1) as (w2 & k2 & E2 & I2 & F2 & O2 & C2 & L2 & P2);
      [rewrite app_length, map_length, firstn_length; cbn; lia|].
    rewrite E2. cbn [bind].
    assert (F02 : frame w0 w2 v) by (eapply frame_trans; eauto).
    rewrite (FMT w2 I2 F02). cbn [bind].
    destruct (detach_ok w2 v (HBlock b) 0 (length l) I2 (proj1 O2)) as (w3 & b3 & k3 & E3 & I3 & F3 & O3 & L3 & C3 & _); [lia|].
    rewrite E3. cbn [bind].
    assert (F03 : frame w0 w3 v) by (eapply frame_trans; eauto).
    rewrite (FMT w3 I3 F03). cbn [bind].
    destruct (block_ok_in _ _ _ I3 (proj1 (proj2 O3))) as (B3 & B4).
    destruct (v_write_ok w3 v b3 k3 0 (map Some l ++ [Some 0%Z]) I3 O3) as (w4 & k4 & E4 & I4 & F4 & O4 & C4 & L4 & P4);
      [rewrite app_length, map_length; cbn; lia|].
    rewrite E4. cbn [bind].
    destruct (v_setlen_ok w4 v b3 k4 (length l) I4 O4) as (w5 & k5 & E5 & I5 & F5 & O5 & C5 & L5 & P5); [lia|].
    rewrite E5. cbn [bind].
    destruct (pop_temp_ok w v w0 hc w5 (HBlock b3) (map Some l) I Hvlt EV0 ER0 K0 I5) as (w6 & E6 & R6).
    + eapply frame_trans; [exact F03|eapply frame_trans; eauto].
    + apply O5.
    + rewrite (owned_cells _ _ _ _ O5), L5, C5, C4. apply firstn_term_prefix.
    + rewrite E6. cbn [bind]. eexists. split; [reflexivity|exact R6].
Qed.

(* ---- queries: the view conversion keeps every value ---- *)
Lemma var_bytes_abs w x : Inv w -> has (abs w) x = true -> var_bytes w x = Ok (valof (abs w) x).
Proof.
  intros I Hx. destruct (has_nth _ _ Hx) as (h & Hh).
  rewrite (var_bytes_ok _ _ _ I Hh), (valof_abs _ _ _ Hh). reflexivity.
Qed.

Lemma var_len_abs w x : Inv w -> has (abs w) x = true -> var_len w x = Ok (length (valof (abs w) x)).
Proof.
  intros I Hx. destruct (has_nth _ _ Hx) as (h & Hh).
  rewrite (var_len_ok _ _ _ I Hh), (valof_abs _ _ _ Hh), h_value_cells, map_length. reflexivity.
Qed.

Lemma cstr_abs w v : Inv w -> has (abs w) v = true ->
  exists w1, cstr w v = Ok w1 /\ Inv w1 /\ abs w1 = abs w /\
    (exists h', nth_error (vars w1) v = Some h' /\ term_at w1 h').
Proof.
  intros I Hv. destruct (has_nth _ _ Hv) as (h0 & H).
  destruct (cstr_ok w v h0 I H) as (w1 & h' & E & I1 & F1 & Hh & HC & T).
  exists w1. split; [exact E|]. split; [exact I1|]. split; [|eauto].
  apply (upd_result_same_abs w v h0); auto. split; [exact I1|]. split; [exact F1|]. eauto.
Qed.

Lemma has_same w w' x : abs w' = abs w -> has (abs w') x = has (abs w) x.
Proof. intros ->. reflexivity. Qed.

(* ---- round 5: prepend with the source inside the own text ---- *)
Lemma slice_repeat {A} (x : A) n off len : off + len <= n -> slice (repeat x n) off len = repeat x len.
Proof.
  intros H. unfold slice.
  replace n with (off + (len + (n - off - len))) by lia.
  rewrite !repeat_app. rewrite skipn_app, skipn_all2 by (rewrite repeat_length; lia).
  rewrite repeat_length, Nat.sub_diag. cbn [skipn app].
  rewrite firstn_app, firstn_all2 by (rewrite repeat_length; lia).
  rewrite repeat_length, Nat.sub_diag. cbn [firstn]. apply app_nil_r.
Qed.

Lemma skipn_add {A} (l : list A) a b : skipn a (skipn b l) = skipn (b + a) l.
Proof.
  revert l; induction b as [|b IH]; intros l; [reflexivity|].
  destruct l as [|x t]; [destruct a; reflexivity|]. cbn [skipn Nat.add]. apply IH.
Qed.

Lemma slice_slice {A} (l : list A) o n off len : off + len <= n -> slice (slice l o n) off len = slice l (o + off) len.
Proof.
  intros H. unfold slice. rewrite skipn_firstn_comm, firstn_firstn, skipn_add.
  f_equal. lia.
Qed.

Lemma map_slice_r {A B} (f : A -> B) l off n : map f (slice l off n) = slice (map f l) off n.
Proof. unfold slice. rewrite <- firstn_map, <- skipn_map. reflexivity. Qed.

(* a sub-range of a range that can be read can be read, and holds the corresponding cells *)
Lemma d_read_sub w h n X off len : d_read w h 0 n = Ok X -> off + len <= n ->
  d_read w h off len = Ok (slice X off len).
Proof.
  intros R H. destruct h as [|r o l|b]; cbn [d_read] in *.
  - destruct (0 + n <=? 8) eqn:G; [|discriminate]. apply Nat.leb_le in G. injection R as <-.
    destruct (off + len <=? 8) eqn:G2; [|apply Nat.leb_gt in G2; lia].
    rewrite slice_repeat by exact H. reflexivity.
  - destruct (nth_error (regs w) r) as [reg|]; [|discriminate].
    destruct (o + 0 + n <=? length reg) eqn:G; [|discriminate]. apply Nat.leb_le in G. injection R as <-.
    destruct (o + off + len <=? length reg) eqn:G2; [|apply Nat.leb_gt in G2; lia].
    f_equal. rewrite <- map_slice_r, slice_slice by exact H. do 2 f_equal. lia.
  - destruct (get_blk w b) as [k|e]; cbn [bind] in *; [|discriminate].
    destruct (0 + n <=? length (cells k)) eqn:G; [|discriminate]. apply Nat.leb_le in G. injection R as <-.
    destruct (off + len <=? length (cells k)) eqn:G2; [|apply Nat.leb_gt in G2; lia].
    rewrite slice_slice by exact H. reflexivity.
Qed.

Lemma prepend_own_ok w v h0 off len : Inv w -> nth_error (vars w) v = Some h0 ->
  off + len <= length (h_cells w h0) ->
  exists w', prepend_own w v off len = Ok w' /\ upd_result w v (slice (h_cells w h0) off len ++ h_cells w h0) w'.
Proof.
  intros I Hv Hb. unfold prepend_own.
  assert (Hvlt : v < length (vars w)) by (eapply nth_error_lt; eauto).
  rewrite (get_var_ok _ _ _ Hv). cbn [bind].
  destruct (push_copy_ok w v h0 I Hv) as (w0 & hc & E0 & I0 & EV0 & ER0 & K0 & HC0 & SH0).
  rewrite E0. cbn [bind].
  assert (Ht0 : nth_error (vars w0) (length (vars w)) = Some hc) by (rewrite EV0; apply nth_error_app_last).
  assert (Hv0 : nth_error (vars w0) v = Some h0) by (rewrite EV0, nth_error_app1; auto).
  rewrite (var_len_ok _ _ _ I0 Ht0). cbn [bind]. rewrite HC0.
  destruct (detach_ok w0 v h0 0 (len + length (h_cells w h0)) I0 Hv0) as (w1 & b & k & E1 & I1 & F1 & O1 & L1 & C1 & _); [lia|].
  rewrite E1. cbn [bind].
  (* the old data is still there: a non-owning descriptor, or the block the temporary copy keeps alive *)
  destruct (old_kept_frame w v h0 w0 hc w1 I Hv EV0 ER0 K0 SH0 I1 F1) as (_ & RD).
  rewrite (d_read_sub _ _ _ _ off len RD Hb). cbn [bind].
  set (s1 := slice (h_cells w h0) off len).
  assert (LS : length s1 = len) by (apply slice_length; exact Hb).
  destruct (block_ok_in _ _ _ I1 (proj1 (proj2 O1))) as (B1 & B2).
  destruct (v_write_ok w1 v b k 0 s1 I1 O1) as (w2 & k2 & E2 & I2 & F2 & O2 & C2 & L2 & P2); [lia|].
  rewrite E2. cbn [bind].
  rewrite <- LS.
  apply (prepend_finish w v h0 w0 hc w2 b k2 s1); auto.
  - eapply frame_trans; eauto.
  - lia.
  - rewrite C2. cbn [firstn app Nat.add]. apply firstn_app_exact.
Qed.
