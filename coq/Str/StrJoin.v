(* join: the List<String> argument is a run of temporaries (copies of the arguments) that live
   while the loop of clear / append / append(separator) runs and are destroyed afterwards. *)
From Coq Require Import ZArith List Bool Arith Lia.
From Common Require Import ListAux.
From Str Require Import StrSpec StrModel StrLists StrInv StrPrims StrRefine StrFun StrStep.
Import ListNotations.

Fixpoint cjoin (sep : Z) (ts : list (list (option Z))) : list (option Z) :=
  match ts with
  | [] => []
  | [t] => t
  | t :: rest => t ++ Some sep :: cjoin sep rest
  end.

Lemma cjoin_cval sep ts : map cval (cjoin sep ts) = s_join sep (map (map cval) ts).
Proof.
  induction ts as [|t [|t' rest] IH]; cbn [cjoin s_join map]; auto.
  rewrite map_app. cbn [map cval]. f_equal. f_equal. exact IH.
Qed.

Lemma push_copies_ok us : forall w, Inv w -> (forall u, In u us -> u < length (vars w)) ->
  exists w1 hs, push_copies w us = Ok w1 /\ Inv w1 /\ vars w1 = vars w ++ hs /\ regs w1 = regs w /\ keeps w w1 /\
    length hs = length us /\
    (forall j u, nth_error us j = Some u ->
       exists h hu, nth_error hs j = Some h /\ nth_error (vars w) u = Some hu /\ h_cells w1 h = h_cells w hu).
Proof.
  induction us as [|u rest IH]; intros w I Hin.
  - exists w, []. cbn [push_copies]. split; [reflexivity|]. split; [exact I|].
    split; [symmetry; apply app_nil_r|]. split; [reflexivity|]. split; [intros x g _; reflexivity|].
    split; [reflexivity|]. intros j u H. destruct j; discriminate.
  - assert (Hu : u < length (vars w)) by (apply Hin; left; reflexivity).
    destruct (nth_error (vars w) u) as [hu|] eqn:Eu; [|apply nth_error_None in Eu; lia].
    destruct (push_copy_ok w u hu I Eu) as (w' & h' & E & I' & EV & ER & K & HC & _).
    destruct (IH w' I') as (w1 & hs & E1 & I1 & EV1 & ER1 & K1 & L1 & F1).
    { intros x Hx. rewrite EV, app_length. cbn. assert (x < length (vars w)) by (apply Hin; right; exact Hx). lia. }
    exists w1, (h' :: hs). cbn [push_copies]. rewrite E. cbn [bind].
    split; [exact E1|]. split; [exact I1|]. split; [rewrite EV1, EV, <- app_assoc; reflexivity|].
    split; [congruence|].
    assert (KK : keeps w w1).
    { intros x g Hx. rewrite (K1 x g), (K x g Hx); auto. rewrite EV, nth_error_app1; auto. eapply nth_error_lt; eauto. }
    split; [exact KK|]. split; [cbn; lia|].
    intros [|j] u' Hj; cbn in Hj.
    + injection Hj as <-. exists h', hu. split; [reflexivity|]. split; [exact Eu|].
      rewrite (K1 (length (vars w)) h'), HC; auto. rewrite EV. apply nth_error_app_last.
    + destruct (F1 j u' Hj) as (h & hu' & A & B & C). exists h, hu'. split; [exact A|].
      assert (Hu' : u' < length (vars w)) by (apply Hin; right; eapply nth_error_In; eauto).
      rewrite EV, nth_error_app1 in B by lia. split; [exact B|].
      rewrite C. eapply K; eauto.
Qed.

Lemma pop_n_ok : forall k w l hs, Inv w -> vars w = l ++ hs -> length hs = k ->
  exists w', pop_n w k = Ok w' /\ Inv w' /\ vars w' = l /\ regs w' = regs w /\
    (forall x g, nth_error l x = Some g -> h_cells w' g = h_cells w g).
Proof.
  induction k as [|k IH]; intros w l hs I E L.
  - apply length_0_nil in L. subst hs. rewrite app_nil_r in E. exists w. cbn [pop_n].
    split; [reflexivity|]. split; [exact I|]. split; [exact E|]. split; [reflexivity|]. intros x g _. reflexivity.
  - assert (NE : hs <> []) by (intros ->; cbn in L; lia).
    destruct (exists_last NE) as (hs' & h & EH). subst hs. rewrite app_assoc in E.
    destruct (pop_var_ok w (l ++ hs') h I E) as (w1 & E1 & I1 & EV1 & ER1 & K1).
    rewrite app_length in L. cbn in L.
    destruct (IH w1 l hs' I1 EV1) as (w' & E' & I' & EV' & ER' & K'); [lia|].
    exists w'. cbn [pop_n]. rewrite E1. cbn [bind]. split; [exact E'|]. split; [exact I'|]. split; [exact EV'|].
    split; [congruence|]. intros x g Hx. rewrite (K' x g Hx). apply (K1 x g).
    rewrite nth_error_app1; auto. eapply nth_error_lt; eauto.
Qed.

Lemma pop_temps_ok w v w0 hs w4 h' X :
  Inv w -> v < length (vars w) ->
  vars w0 = vars w ++ hs -> regs w0 = regs w -> keeps w w0 ->
  Inv w4 -> frame w0 w4 v -> nth_error (vars w4) v = Some h' -> h_cells w4 h' = X ->
  exists w5, pop_n w4 (length hs) = Ok w5 /\ upd_result w v X w5.
Proof.
  intros I Hvlt EV0 ER0 K0 I4 F04 Hh HX.
  assert (EV4 : vars w4 = upd v h' (vars w) ++ hs).
  { rewrite (frame_vars w0 w4 v h' F04); [|rewrite EV0, app_length; lia|exact Hh].
    rewrite EV0. apply upd_app_l. exact Hvlt. }
  destruct (pop_n_ok (length hs) w4 _ hs I4 EV4 eq_refl) as (w5 & E5 & I5 & EV5 & ER5 & K5).
  exists w5. split; [exact E5|].
  destruct F04 as (FL04 & FR04 & FF04).
  split; [exact I5|]. split.
  - split; [rewrite EV5; apply upd_length|]. split; [congruence|].
    intros u h Hn Hu.
    assert (Hu5 : nth_error (upd v h' (vars w)) u = Some h) by (rewrite nth_error_upd_other by auto; exact Hu).
    split; [rewrite EV5; exact Hu5|].
    rewrite (K5 u h Hu5).
    assert (Hu0 : nth_error (vars w0) u = Some h).
    { rewrite EV0, nth_error_app1; auto. eapply nth_error_lt; eauto. }
    destruct (FF04 u h Hn Hu0) as (_ & C). rewrite C. eapply K0; eauto.
  - exists h'. rewrite EV5. split; [apply nth_error_upd_same; exact Hvlt|].
    rewrite (K5 v h') by (apply nth_error_upd_same; exact Hvlt). exact HX.
Qed.

Lemma join_loop_ok sep v : forall k w i cur ts hv,
  Inv w -> nth_error (vars w) v = Some hv -> h_cells w hv = cur -> length ts = k -> v < i ->
  (forall j t, nth_error ts j = Some t -> exists h, nth_error (vars w) (i + j) = Some h /\ h_cells w h = t) ->
  exists w', join_loop w v i k sep = Ok w' /\ upd_result w v (cur ++ cjoin sep ts) w'.
Proof.
  induction k as [|k IH]; intros w i cur ts hv I Hv HC L Hi HT.
  - apply length_0_nil in L. subst ts. exists w. cbn. split; [reflexivity|].
    rewrite app_nil_r. split; [exact I|]. split; [apply frame_refl|]. eauto.
  - destruct ts as [|t ts']; [cbn in L; lia|]. cbn in L.
    destruct (HT 0 t eq_refl) as (h0 & H0 & C0). rewrite Nat.add_0_r in H0.
    destruct (append_s_ok w v i hv h0 I Hv H0) as (w1 & E1 & R1).
    cbn [join_loop]. rewrite E1. cbn [bind]. rewrite HC, C0 in R1.
    destruct k as [|k'].
    + assert (ts' = []) by (apply length_0_nil; lia). subst ts'. exists w1. split; [reflexivity|exact R1].
    + destruct ts' as [|t' ts'']; [cbn in L; lia|].
      pose proof R1 as (I1 & F1 & h1 & Hv1 & HC1).
      destruct (append_cells_ok w1 v h1 [Some sep] I1 Hv1) as (w2 & E2 & R2). rewrite E2. cbn [bind].
      rewrite HC1 in R2.
      pose proof R2 as (I2 & F2 & h2 & Hv2 & HC2).
      destruct (IH w2 (S i) ((cur ++ t) ++ [Some sep]) (t' :: ts'') h2 I2 Hv2 HC2) as (w3 & E3 & R3); [cbn in *; lia|lia| |].
      * intros j tj Hj. destruct (HT (S j) tj Hj) as (h & Hh & Ch).
        assert (Hn : i + S j <> v) by lia.
        destruct F1 as (_ & _ & FF1). destruct (FF1 _ h Hn Hh) as (A1 & B1).
        destruct F2 as (_ & _ & FF2). destruct (FF2 _ h Hn A1) as (A2 & B2).
        exists h. replace (S i + j) with (i + S j) by lia. split; [exact A2|]. congruence.
      * exists w3. split; [exact E3|].
        eapply upd_result_trans; [exact R1|]. eapply upd_result_trans; [exact R2|].
        replace (cur ++ cjoin sep (t :: t' :: ts'')) with (((cur ++ t) ++ [Some sep]) ++ cjoin sep (t' :: ts'')); [exact R3|].
        cbn [cjoin]. rewrite <- !app_assoc. reflexivity.
Qed.

Lemma ex_join w v us sep : Inv w -> pre (abs w) (OJoin v us sep) = true -> refines_op w (OJoin v us sep).
Proof.
  intros I P. cbn [pre] in P. split_pre. rename H into Hv. rename H1 into Hus.
  assert (HIN : forall u, In u us -> u < length (vars w)).
  { intros u Hu. rewrite forallb_forall in Hus. apply has_lt. auto. }
  destruct (has_nth _ _ Hv) as (hv & Hhv).
  assert (Hvlt : v < length (vars w)) by (eapply nth_error_lt; eauto).
  destruct (push_copies_ok us w I HIN) as (w1 & hs & E1 & I1 & EV1 & ER1 & K1 & L1 & F1).
  assert (Hv1 : nth_error (vars w1) v = Some hv) by (rewrite EV1, nth_error_app1; auto).
  destruct (clear_ok w1 v hv I1 Hv1) as (w2 & h2 & E2 & I2 & F2 & Hv2 & HC2).
  set (ts := map (fun u => h_cells w (nth u (vars w) HEmpty)) us).
  destruct (join_loop_ok sep v (length us) w2 (length (vars w)) [] ts h2 I2 Hv2 HC2) as (w3 & E3 & R3).
  - subst ts. apply map_length.
  - exact Hvlt.
  - intros j t Hj. subst ts. rewrite nth_error_map in Hj.
    destruct (nth_error us j) as [u|] eqn:Eu; [|discriminate]. cbn in Hj. injection Hj as <-.
    destruct (F1 j u Eu) as (h & hu & A & B & C).
    assert (Hidx : nth_error (vars w1) (length (vars w) + j) = Some h).
    { rewrite EV1, nth_error_app2 by lia. replace (length (vars w) + j - length (vars w)) with j by lia. exact A. }
    assert (Hn : length (vars w) + j <> v) by lia.
    destruct F2 as (_ & _ & FF2). destruct (FF2 _ h Hn Hidx) as (A2 & B2).
    exists h. split; [exact A2|]. rewrite B2, C. rewrite (nth_nth_error _ _ HEmpty _ B). reflexivity.
  - cbn [app] in R3. pose proof R3 as (I3 & F3 & h3 & Hv3 & HC3).
    destruct (pop_temps_ok w v w1 hs w3 h3 (cjoin sep ts) I Hvlt EV1 ER1 K1 I3) as (w4 & E4 & R4); auto.
    { eapply frame_trans; eauto. }
    rewrite L1 in E4.
    apply (fin_upd w _ v (cjoin sep ts) w4 (s_join sep (map (valof (abs w)) us)) RNone); auto.
    + cbn [exec]. rewrite E1. cbn [bind]. rewrite E2. cbn [bind]. rewrite E3. cbn [bind].
      unfold ret. rewrite E4. reflexivity.
    + rewrite cjoin_cval. f_equal. subst ts. rewrite map_map. apply map_ext_in. intros u Hu.
      destruct (nth_error (vars w) u) as [hu|] eqn:Eu.
      * rewrite (nth_nth_error _ _ HEmpty _ Eu). symmetry. apply valof_cells. exact Eu.
      * apply nth_error_None in Eu. specialize (HIN u Hu). lia.
Qed.
