(* The theorems of property C06 about the model, for all histories. *)
From Coq Require Import ZArith List Bool Arith Lia.
From Common Require Import ListAux.
From Str Require Import StrSpec StrModel StrLists StrInv StrPrims StrRefine StrFun StrStep StrJoin StrPlus.
Import ListNotations.

(* ---- one step ---- *)
Lemma exec_refines w o : Inv w -> pre (abs w) o = true -> refines_op w o.
Proof.
  intros I P. destruct o.
  - apply ex_new; auto.
  - apply ex_lit; auto.
  - apply ex_buf; auto.
  - apply ex_fill; auto.
  - apply ex_cap; auto.
  - apply ex_copy; auto.
  - apply ex_drop; auto.
  - apply ex_reg; auto.
  - apply ex_attach; auto.
  - apply ex_assign; auto.
  - apply ex_clear; auto.
  - apply ex_detach; auto.
  - apply ex_resize; auto.
  - apply ex_reserve; auto.
  - apply ex_poke; auto.
  - apply ex_cstr; auto.
  - apply ex_append_s; auto.
  - apply ex_append_b; auto.
  - apply ex_append_c; auto.
  - apply ex_prepend_s; auto.
  - apply ex_prepend_b; auto.
  - apply ex_replace_c; auto.
  - apply ex_replace_s; auto.
  - apply ex_lower; auto.
  - apply ex_upper; auto.
  - apply ex_trim; auto.
  - apply ex_printf; auto.
  - apply ex_join; auto.
  - apply ex_substr; auto.
  - apply ex_tokc; auto.
  - apply ex_toks; auto.
  - apply ex_split; auto.
  - apply ex_eq; auto.
  - apply ex_compare; auto.
  - apply ex_compare_n; auto.
  - apply ex_compare_ic; auto.
  - apply ex_compare_icn; auto.
  - apply ex_equals_ic; auto.
  - apply ex_find_c; auto.
  - apply ex_findlast_c; auto.
  - apply ex_find_c_from; auto.
  - apply ex_find_s; auto.
  - apply ex_find_s_from; auto.
  - apply ex_find_oneof; auto.
  - apply ex_find_oneof_from; auto.
  - apply ex_findlast_s; auto.
  - apply ex_findlast_of; auto.
  - apply ex_starts; auto.
  - apply ex_ends; auto.
  - apply ex_len; auto.
  - apply ex_append_own; auto.
  - apply ex_printf_self; auto.
  - apply ex_eq_lit; auto.
  - apply ex_split_set; auto.
  - apply ex_from_printf; auto.
  - apply ex_stat; auto.
  - apply ex_pluseq_s; auto.
  - apply ex_pluseq_c; auto.
  - apply ex_plus; auto.
  - apply ex_plus_lit; auto.
  - apply ex_plus_assign; auto.
  - apply ex_from_bool; auto.
  - apply ex_from_cstr; auto.
  - apply ex_from_cstr_n; auto.
  - apply ex_to_bool; auto.
  - apply ex_char; auto.
  - apply ex_prepend_own; auto.
Qed.

Lemma step_refines w o : Inv w ->
  match spec_step (abs w) o with
  | Some (s1, r) => exists w', step w o = Ok (w', r) /\ Inv w' /\ abs w' = s1
  | None => step w o = Err BadArg
  end.
Proof.
  intros I. unfold spec_step, step. destruct (pre (abs w) o) eqn:P; [|reflexivity].
  destruct (exec_refines w o I P) as (w' & r & E & I' & A & R).
  destruct (spec_exec (abs w) o) as (s1, r1). cbn [fst snd] in *. subst r1.
  exists w'. auto.
Qed.

(* ---- all histories ---- *)
Lemma run_refines : forall ops w, Inv w ->
  match spec_run (abs w) ops with
  | Some (s', outs) => exists w', run w ops = Ok (w', outs) /\ Inv w' /\ abs w' = s'
  | None => run w ops = Err BadArg
  end.
Proof.
  induction ops as [|o rest IH]; intros w I; cbn [spec_run run].
  - exists w. auto.
  - pose proof (step_refines w o I) as S.
    destruct (spec_step (abs w) o) as [[s1 r]|].
    + destruct S as (w' & E & I' & A). rewrite E. cbn [bind fst snd].
      specialize (IH w' I'). rewrite A in IH.
      destruct (spec_run s1 rest) as [[s2 rs]|].
      * destruct IH as (w2 & E2 & I2 & A2). rewrite E2. cbn [bind fst snd]. exists w2. auto.
      * rewrite IH. reflexivity.
    + rewrite S. reflexivity.
Qed.

Lemma abs_init : abs winit = sinit.
Proof. reflexivity. Qed.

Theorem string_refines_values_thm : forall ops,
  match spec_run sinit ops with
  | Some (s, outs) => exists w, run winit ops = Ok (w, outs) /\ abs w = s /\ Inv w
  | None => run winit ops = Err BadArg
  end.
Proof.
  intros ops. pose proof (run_refines ops winit inv_init) as R. rewrite abs_init in R.
  destruct (spec_run sinit ops) as [[s outs]|]; auto.
  destruct R as (w & E & I & A). exists w. auto.
Qed.

(* the model never fails with a memory error: the only failure is an operation outside the domain *)
Theorem run_memory_safe_thm : forall ops e, run winit ops = Err e -> e = BadArg.
Proof.
  intros ops e H. pose proof (string_refines_values_thm ops) as R.
  destruct (spec_run sinit ops) as [[s outs]|].
  - destruct R as (w & E & _). congruence.
  - congruence.
Qed.

Lemma run_app : forall ops1 ops2 w,
  run w (ops1 ++ ops2) =
  (do r1 <- run w ops1; do r2 <- run (fst r1) ops2; Ok (fst r2, snd r1 ++ snd r2)).
Proof.
  induction ops1 as [|o rest IH]; intros ops2 w; cbn [app run].
  - cbn [bind fst snd app]. destruct (run w ops2) as [[w2 o2]|e]; reflexivity.
  - destruct (step w o) as [[w1 r]|e]; cbn [bind fst snd]; [|reflexivity].
    rewrite IH. destruct (run w1 rest) as [[w2 rs]|e]; cbn [bind fst snd]; [|reflexivity].
    destruct (run w2 ops2) as [[w3 rs2]|e]; cbn [bind fst snd]; reflexivity.
Qed.

Theorem reachable_inv_thm : forall ops w outs, run winit ops = Ok (w, outs) -> Inv w.
Proof.
  intros ops w outs H. pose proof (string_refines_values_thm ops) as R.
  destruct (spec_run sinit ops) as [[s o]|].
  - destruct R as (w' & E & _ & I). congruence.
  - congruence.
Qed.

(* ---- the heap invariant spelled out ---- *)
Lemma no_live_blocks hp : (forall b, refc hp b = 0) -> filter (fun k => negb (bref k =? 0)) hp = [].
Proof.
  intros H. assert (F : Forall (fun k => bref k = 0) hp).
  { rewrite Forall_forall. intros k Hin. apply In_nth_error in Hin. destruct Hin as (b & Hb).
    specialize (H b). unfold refc in H. rewrite Hb in H. exact H. }
  clear H. induction F as [|k t Hk Ft IH]; cbn; auto. rewrite Hk. cbn. exact IH.
Qed.

(* ---- round 5: the property-level reading of the results ----
   [seen] blanks out the results the property text does not speak about (toBool, the character classifiers); the
   statement below is what the check's property oracle enforces on the implementation, string_refines_values_thm
   (exact, also for those results) is what model and implementation are compared on. *)
Fixpoint seen_run (s : sstate) (ops : list op) (outs : list out) : list (option out) :=
  match ops, outs with
  | o :: rest, r :: rs => seen s o r :: seen_run (fst (spec_exec s o)) rest rs
  | _, _ => []
  end.

Theorem string_refines_as_seen_thm : forall ops,
  match spec_run sinit ops with
  | Some (s, outs) => exists w outs', run winit ops = Ok (w, outs') /\
                        seen_run sinit ops outs' = seen_run sinit ops outs /\ abs w = s /\ Inv w
  | None => run winit ops = Err BadArg
  end.
Proof.
  intros ops. pose proof (string_refines_values_thm ops) as R.
  destruct (spec_run sinit ops) as [[s outs]|]; [|exact R].
  destruct R as (w & E & A & I). exists w, outs. auto.
Qed.

(* the empty needle is found at every start position up to and including length(), and nowhere behind it *)
Theorem empty_needle_found_up_to_length_thm : forall l start,
  find_from (P_sub []) l start = (if (start <=? length l)%nat then Z.of_nat start else (-1)%Z).
Proof.
  intros l start. unfold find_from.
  destruct (length l <? start) eqn:G.
  - apply Nat.ltb_lt in G. destruct (start <=? length l) eqn:G2; [apply Nat.leb_le in G2; lia|reflexivity].
  - apply Nat.ltb_ge in G. destruct (start <=? length l) eqn:G2; [|apply Nat.leb_gt in G2; lia].
    destruct (skipn start l); cbn [find_first P_sub is_prefix]; rewrite Nat.add_0_r; reflexivity.
Qed.

(* a non-empty needle, a character, a character set are not found at start = length() *)
Theorem nothing_else_at_length_thm : forall l,
  (forall x needle, find_from (P_sub (x :: needle)) l (length l) = (-1)%Z) /\
  (forall c, find_from (P_chr c) l (length l) = (-1)%Z) /\
  (forall cs, find_from (P_any cs) l (length l) = (-1)%Z).
Proof.
  intros l. unfold find_from. rewrite Nat.ltb_irrefl, skipn_all. repeat split; intros; reflexivity.
Qed.

Theorem heap_invariant_thm : forall ops w outs, run winit ops = Ok (w, outs) ->
  (forall b k, nth_error (heap w) b = Some k -> bref k = count_occ handle_dec (vars w) (HBlock b)) /\
  (forall v b, nth_error (vars w) v = Some (HBlock b) -> exists k, nth_error (heap w) b = Some k /\ 1 <= bref k) /\
  (vars w = [] -> live_blocks w = 0).
Proof.
  intros ops w outs H. pose proof (reachable_inv_thm _ _ _ H) as I. split; [|split].
  - intros b k E. pose proof (inv_r w I b) as R. unfold refc in R. rewrite E in R. exact R.
  - intros v b E. destruct (inv_live _ _ _ I E) as (k & E' & L & _). eauto.
  - intros EV. unfold live_blocks. rewrite no_live_blocks; [reflexivity|].
    intros b. rewrite (inv_r w I b), EV. reflexivity.
Qed.

(* ---- an operation changes no other variable and no foreign memory ---- *)
Definition target (o : op) : option nat :=
  match o with
  | OAttach v _ _ _ | OAssign v _ | OClear v | OResize v _ _ | OPoke v _ _
  | OAppendS v _ | OAppendB v _ | OAppendC v _ | OPrependS v _ | OPrependB v _
  | OReplaceC v _ _ | OReplaceS v _ _ | OLower v | OUpper v | OTrim v _ | OPrintf v _ | OJoin v _ _
  | OAppendOwn v _ _ | OPrintfSelf v _ _ | OPlusEqS v _ | OPlusEqC v _ | OPlusAssign v _ _ | OPrependOwn v _ _ => Some v
  | _ => None
  end.

Lemma valof_setval_other s v x u : u <> v -> valof (setval s v x) u = valof s u.
Proof. intros H. unfold valof, setval. cbn. apply nth_upd_other. auto. Qed.

Lemma valof_pushval s x u : u < length (svals s) -> valof (pushval s x) u = valof s u.
Proof. intros H. unfold valof, pushval. cbn. apply app_nth1. exact H. Qed.

Lemma nth_removelast {A} (l : list A) u d : u < length (removelast l) -> nth u (removelast l) d = nth u l d.
Proof.
  intros H. destruct l as [|x t] using rev_ind; [reflexivity|].
  rewrite removelast_last in *. rewrite app_nth1; auto.
Qed.

Lemma spec_frame s o u : target o <> Some u ->
  u < length (svals s) -> u < length (svals (fst (spec_exec s o))) ->
  valof (fst (spec_exec s o)) u = valof s u.
Proof.
  intros T H1 H2.
  destruct o; cbn [spec_exec fst] in *; cbn [target] in T;
    try reflexivity;
    try (apply valof_pushval; exact H1);
    try (apply valof_setval_other; congruence).
  - unfold valof. cbn in *. apply nth_removelast. exact H2.
  - destruct (s_token (P_chr sep) (valof s v) start). cbn [fst]. apply valof_pushval. exact H1.
  - destruct (s_token (P_any seps) (valof s v) start). cbn [fst]. apply valof_pushval. exact H1.
Qed.

Lemma spec_regs s o : exists ext, sregs (fst (spec_exec s o)) = sregs s ++ ext.
Proof.
  destruct o; cbn [spec_exec fst];
    try (exists []; cbn; rewrite app_nil_r; reflexivity);
    try (eexists; cbn; reflexivity).
  - destruct (s_token (P_chr sep) (valof s v) start). exists []. cbn. rewrite app_nil_r. reflexivity.
  - destruct (s_token (P_any seps) (valof s v) start). exists []. cbn. rewrite app_nil_r. reflexivity.
Qed.

Lemma step_ok_refines w o w' r : Inv w -> step w o = Ok (w', r) ->
  Inv w' /\ abs w' = fst (spec_exec (abs w) o) /\ r = snd (spec_exec (abs w) o).
Proof.
  intros I E. unfold step in E. destruct (pre (abs w) o) eqn:P; [|discriminate].
  destruct (exec_refines w o I P) as (w2 & r2 & E2 & I2 & A2 & R2).
  rewrite E2 in E. injection E as <- <-. auto.
Qed.

(* the value denoted by variable u *)
Definition value (w : world) (u : nat) : list Z := valof (abs w) u.

Theorem copies_independent_thm : forall w o w' r u, Inv w -> step w o = Ok (w', r) ->
  target o <> Some u -> u < length (vars w) -> u < length (vars w') ->
  value w' u = value w u.
Proof.
  intros w o w' r u I E T H1 H2. destruct (step_ok_refines w o w' r I E) as (_ & A & _).
  unfold value. rewrite A. apply spec_frame; auto.
  - unfold abs. cbn. rewrite map_length. exact H1.
  - rewrite <- A. unfold abs. cbn. rewrite map_length. exact H2.
Qed.

Theorem foreign_memory_unchanged_thm : forall w o w' r, Inv w -> step w o = Ok (w', r) ->
  exists ext, regs w' = regs w ++ ext.
Proof.
  intros w o w' r I E. destruct (step_ok_refines w o w' r I E) as (_ & A & _).
  destruct (spec_regs (abs w) o) as (ext & X). exists ext.
  change (regs w') with (sregs (abs w')). rewrite A, X. reflexivity.
Qed.

(* over whole histories: a foreign buffer, once registered, has the same bytes after any continuation *)
Lemma run_regs_kept : forall ops w w' outs, Inv w -> run w ops = Ok (w', outs) ->
  forall r, r < length (regs w) -> nth_error (regs w') r = nth_error (regs w) r.
Proof.
  induction ops as [|o rest IH]; intros w w' outs I H r Hr; cbn [run] in H.
  - injection H as <- _. reflexivity.
  - destruct (step w o) as [[w1 r1]|e] eqn:E; cbn [bind fst snd] in H; [|discriminate].
    destruct (run w1 rest) as [[w2 rs]|e] eqn:E2; cbn [bind fst snd] in H; [|discriminate].
    injection H as <- _.
    destruct (step_ok_refines w o w1 r1 I E) as (I1 & _).
    destruct (foreign_memory_unchanged_thm w o w1 r1 I E) as (ext & X).
    rewrite (IH w1 w2 rs I1 E2 r) by (rewrite X, app_length; lia).
    rewrite X. apply nth_error_app1. exact Hr.
Qed.

Theorem foreign_memory_kept_thm : forall ops1 ops2 w1 outs1 w2 outs2,
  run winit ops1 = Ok (w1, outs1) -> run w1 ops2 = Ok (w2, outs2) ->
  forall r, r < length (regs w1) -> nth_error (regs w2) r = nth_error (regs w1) r.
Proof.
  intros ops1 ops2 w1 outs1 w2 outs2 H1 H2.
  apply (run_regs_kept ops2 w1 w2 outs2); auto. eapply reachable_inv_thm; eauto.
Qed.

(* ---- the C-string view ---- *)
Theorem cstr_nul_terminated_thm : forall ops w outs v, run winit ops = Ok (w, outs) -> v < length (vars w) ->
  exists w' h', cstr w v = Ok w' /\ nth_error (vars w') v = Some h' /\
    d_read w' h' (length (h_value w' h')) 1 = Ok [Some 0%Z] /\ abs w' = abs w /\ Inv w'.
Proof.
  intros ops w outs v H Hv. pose proof (reachable_inv_thm _ _ _ H) as I.
  destruct (nth_error (vars w) v) as [h0|] eqn:E; [|apply nth_error_None in E; lia].
  destruct (cstr_ok w v h0 I E) as (w1 & h' & E1 & I1 & F1 & Hv' & HC & T).
  exists w1, h'. split; [exact E1|]. split; [exact Hv'|]. split.
  - unfold term_at in T. rewrite h_value_cells, map_length. exact T.
  - split; [|exact I1]. apply (upd_result_same_abs w v h0); auto. split; [exact I1|]. split; [exact F1|]. eauto.
Qed.

(* ---- an argument that is the String itself behaves as a copy of it would ---- *)
Inductive self_kind := SAssign | SAppend | SPrepend | SReplaceNeedle | SReplaceWith | SReplaceBoth
                     | SPlusEq | SPlusLeft | SPlusRight | SPlusBoth.
Definition self_op (k : self_kind) (v u x : nat) : op :=
  match k with
  | SAssign => OAssign v u
  | SAppend => OAppendS v u
  | SPrepend => OPrependS v u
  | SReplaceNeedle => OReplaceS v u x
  | SReplaceWith => OReplaceS v x u
  | SReplaceBoth => OReplaceS v u u
  | SPlusEq => OPlusEqS v u                               (* s += s *)
  | SPlusLeft => OPlusAssign v u x                        (* s = s + x *)
  | SPlusRight => OPlusAssign v x u                       (* s = x + s *)
  | SPlusBoth => OPlusAssign v u u                        (* s = s + s *)
  end.

Lemma spec_self_as_copy k s v x : has s v = true -> has s x = true ->
  pre s (self_op k v v x) = true ->
  spec_run s [OCopy v; self_op k v (length (svals s)) x; ODrop] =
  Some (fst (spec_exec s (self_op k v v x)), [RNone; RNone; RNone]).
Proof.
  intros Hv Hx P. unfold has in Hv, Hx. apply Nat.ltb_lt in Hv. apply Nat.ltb_lt in Hx.
  set (t := length (svals s)).
  assert (Vt : valof (pushval s (valof s v)) t = valof s v).
  { unfold valof, pushval. cbn. rewrite app_nth2, Nat.sub_diag by lia. reflexivity. }
  assert (Vv : forall y, y < t -> valof (pushval s (valof s v)) y = valof s y).
  { intros y Hy. apply valof_pushval. exact Hy. }
  assert (Ht : has (pushval s (valof s v)) t = true).
  { unfold has, pushval. cbn. rewrite app_length. cbn. apply Nat.ltb_lt. lia. }
  assert (Hl : forall y, y < t -> has (pushval s (valof s v)) y = true).
  { intros y Hy. unfold has, pushval. cbn. rewrite app_length. cbn. apply Nat.ltb_lt. lia. }
  assert (DROP : forall X, spec_step (setval (pushval s (valof s v)) v X) ODrop = Some (setval s v X, RNone)).
  { intros X. unfold spec_step. cbn [pre spec_exec].
    unfold setval, pushval. cbn [svals sregs]. rewrite upd_length, app_length. cbn [length].
    replace (0 <? length (svals s) + 1) with true by (symmetry; apply Nat.ltb_lt; lia).
    rewrite upd_app_l by exact Hv. rewrite removelast_last. reflexivity. }
  cbn [spec_run]. unfold spec_step at 1. cbn [pre spec_exec].
  replace (has s v) with true by (symmetry; apply Nat.ltb_lt; exact Hv).
  destruct k; cbn [self_op] in *; unfold spec_step at 1; cbn [pre spec_exec] in *.
  - rewrite (Hl v Hv), Ht. cbn [andb]. rewrite Vt. rewrite DROP. reflexivity.
  - rewrite (Hl v Hv), Ht. cbn [andb]. rewrite Vt, (Vv v Hv). rewrite DROP. reflexivity.
  - rewrite (Hl v Hv), Ht. cbn [andb]. rewrite Vt, (Vv v Hv). rewrite DROP. reflexivity.
  - rewrite (Hl v Hv), Ht, (Hl x Hx). rewrite Vt, (Vv v Hv), (Vv x Hx).
    repeat match goal with H : _ && _ = true |- _ => apply andb_true_iff in H; destruct H end.
    repeat match goal with H : cbytes _ = true |- _ => rewrite H end.
    cbn [andb]. rewrite DROP. reflexivity.
  - rewrite (Hl v Hv), Ht, (Hl x Hx). rewrite Vt, (Vv v Hv), (Vv x Hx).
    repeat match goal with H : _ && _ = true |- _ => apply andb_true_iff in H; destruct H end.
    repeat match goal with H : cbytes _ = true |- _ => rewrite H end.
    cbn [andb]. rewrite DROP. reflexivity.
  - rewrite (Hl v Hv), Ht. rewrite Vt, (Vv v Hv).
    repeat match goal with H : _ && _ = true |- _ => apply andb_true_iff in H; destruct H end.
    repeat match goal with H : cbytes _ = true |- _ => rewrite H end.
    cbn [andb]. rewrite DROP. reflexivity.
  - rewrite (Hl v Hv), Ht. cbn [andb]. rewrite Vt, (Vv v Hv). rewrite DROP. reflexivity.
  - rewrite (Hl v Hv), Ht, (Hl x Hx). cbn [andb]. rewrite Vt, (Vv x Hx). rewrite DROP. reflexivity.
  - rewrite (Hl v Hv), Ht, (Hl x Hx). cbn [andb]. rewrite Vt, (Vv x Hx). rewrite DROP. reflexivity.
  - rewrite (Hl v Hv), Ht. cbn [andb]. rewrite Vt. rewrite DROP. reflexivity.
Qed.

Theorem self_args_as_if_copied_thm : forall k w v x, Inv w ->
  has (abs w) v = true -> has (abs w) x = true -> pre (abs w) (self_op k v v x) = true ->
  exists w1 r1 w2 rs2,
    step w (self_op k v v x) = Ok (w1, r1) /\
    run w [OCopy v; self_op k v (length (vars w)) x; ODrop] = Ok (w2, rs2) /\
    abs w1 = abs w2.
Proof.
  intros k w v x I Hv Hx P.
  pose proof (step_refines w (self_op k v v x) I) as S1. unfold spec_step in S1. rewrite P in S1.
  destruct (spec_exec (abs w) (self_op k v v x)) as (s1, r1) eqn:SE.
  destruct S1 as (w1 & E1 & I1 & A1).
  pose proof (run_refines [OCopy v; self_op k v (length (vars w)) x; ODrop] w I) as R2.
  pose proof (spec_self_as_copy k (abs w) v x Hv Hx P) as SC.
  replace (length (svals (abs w))) with (length (vars w)) in SC by (unfold abs; cbn; rewrite map_length; reflexivity).
  rewrite SC in R2. destruct R2 as (w2 & E2 & I2 & A2).
  exists w1, r1, w2, [RNone; RNone; RNone]. split; [exact E1|]. split; [exact E2|].
  rewrite A1, A2, SE. reflexivity.
Qed.
