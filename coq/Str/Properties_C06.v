(* Property C06 - placeholder while the pipeline is brought up; theorems follow. *)
From Str Require Import StrSpec StrModel.
