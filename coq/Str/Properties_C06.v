(* Property C06 - "String is an independent byte-string value matching a reference model".
   Only statements closed by `exact`, each followed by Print Assumptions, plus non-vacuity Examples.

   Clause of the property statement                      -> theorem
   ----------------------------------------------------------------------------------------------
   holds exactly the bytes of the reference byte string
   after the same operations, same answers for length /
   comparison / search / prefix / suffix queries          -> string_refines_values (all 67 operations,
                                                             all histories; results and values; round 5: OPrependOwn,
                                                             the calls without a defaulted argument OTrimD / OSubstrD /
                                                             OSplitD / OSplitSetD as instances of OTrim / OSubstr / OSplit /
                                                             OSplitSet; find(str, start) as in a reference byte string:
                                                             empty_needle_found_up_to_length, nothing_else_at_length);
                                                             string_refines_as_seen = the same with the results the
                                                             property text does not speak about (toBool, the character
                                                             classifiers) blanked out by StrSpec.seen: that is what the
                                                             property oracle enforces, the exact statement is what model
                                                             and implementation are compared on; since round 3 also
                                                             operator+= / operator+ with a String, a char, a literal,
                                                             d = v + u, fromBool, fromCString, toBool, the static
                                                             find(in, str) / findOneOf(in, chars) and the static char
                                                             functions)
   no bounds error / use after free / foreign write        -> run_memory_safe
   C-string view NUL-terminated at length()                -> cstr_nul_terminated
   modifying one String never changes another String       -> copies_independent
   ... nor the literal or attached memory                  -> run_memory_safe (a write through a non-owning
                                                             descriptor is Err WriteForeign in the model: it never
                                                             happens) + foreign_memory_kept.  NOTE: the model has no
                                                             operation that writes [regs], so foreign_memory_unchanged
                                                             and foreign_memory_kept are structural facts (regs only
                                                             grows); what carries the clause is run_memory_safe on the
                                                             model side and the guarded, re-read foreign memory of the
                                                             harness (M=ok) on the code side.
   including when an argument is the String itself         -> self_args_as_if_copied (String arguments) + the cases
                                                             OAppendOwn / OPrependOwn / OPrintfSelf (a const char pointer
                                                             INTO the own text handed to append / prepend / printf) inside
                                                             string_refines_values.  attach(p, n) is different: it makes
                                                             the String a non-owning view of memory the CALLER keeps alive;
                                                             the String's own block is released by attach itself, so the
                                                             attached range must not lie inside it (precondition: OAttach
                                                             takes a foreign buffer, StrSpec.v header)
   lazy-copy bookkeeping (ref = number of handles, no
   handle to a freed block, everything freed at the end)   -> heap_invariant
   case mapping through the tables of String.cpp           -> case_tables_are_ascii, char_functions_match_tables (for
                                                             all 256 bytes: toLowerCase(c) / toUpperCase(c) / isSpace ...
                                                             isHexDigit of the model = the reference functions, and the
                                                             classifiers agree with the regenerated tables: upper case
                                                             letters are what lowerCaseMap moves, ...)
   append / concatenation incl. s += s and s = s + s       -> string_refines_values (OPlusEqS, OPlusEqC, OPlus, OPlusLit,
                                                             OPlusAssign) + self_args_as_if_copied (kinds SPlusEq,
                                                             SPlusLeft, SPlusRight, SPlusBoth) + plus_temporaries_die
   every visible byte is an initialised byte 0..255 (so the
   byte-range half of the domain predicate always holds on
   reachable states; only NUL-freeness restricts it)        -> values_are_bytes, visible_cells_initialised
   printf: the bytes vsnprintf produces are an input of the operation (they may depend on the String's own old
   text: OPrintfSelf); strstr / strpbrk / strchr are reference functions on NUL-free text (trusted).
   Domain (StrSpec.pre): trim, ==, compare*, equalsIgnoreCase, startsWith/endsWith, find(char) are total on byte
   strings; token / split / replace(String,String) / find*(const char pointer) / the static helpers are specified
   for NUL-free values (they are built on the C-string searches). *)
From Coq Require Import ZArith List Bool.
From Common Require Import Words ListAux.
From Str Require Import StrSpec StrModel StrInv StrFun StrChar StrPlus StrMain StrWf.
Import ListNotations.

Theorem string_refines_values : forall ops,
  match spec_run sinit ops with
  | Some (s, outs) => exists w, run winit ops = Ok (w, outs) /\ abs w = s /\ Inv w
  | None => run winit ops = Err BadArg
  end.
Proof. exact string_refines_values_thm. Qed.
Print Assumptions string_refines_values.

Theorem string_refines_as_seen : forall ops,
  match spec_run sinit ops with
  | Some (s, outs) => exists w outs', run winit ops = Ok (w, outs') /\
                        seen_run sinit ops outs' = seen_run sinit ops outs /\ abs w = s /\ Inv w
  | None => run winit ops = Err BadArg
  end.
Proof. exact string_refines_as_seen_thm. Qed.
Print Assumptions string_refines_as_seen.

(* search from a start position, as in a reference byte string: the empty needle is found at every start up to and
   including length(); nothing else is found at length(); nothing at all behind it *)
Theorem empty_needle_found_up_to_length : forall l start,
  find_from (P_sub []) l start = (if (start <=? length l)%nat then Z.of_nat start else (-1)%Z).
Proof. exact empty_needle_found_up_to_length_thm. Qed.
Print Assumptions empty_needle_found_up_to_length.

Theorem nothing_else_at_length : forall l,
  (forall x needle, find_from (P_sub (x :: needle)) l (length l) = (-1)%Z) /\
  (forall c, find_from (P_chr c) l (length l) = (-1)%Z) /\
  (forall cs, find_from (P_any cs) l (length l) = (-1)%Z).
Proof. exact nothing_else_at_length_thm. Qed.
Print Assumptions nothing_else_at_length.

Theorem run_memory_safe : forall ops e, run winit ops = Err e -> e = BadArg.
Proof. exact run_memory_safe_thm. Qed.
Print Assumptions run_memory_safe.

Theorem cstr_nul_terminated : forall ops w outs v, run winit ops = Ok (w, outs) -> v < length (vars w) ->
  exists w' h', cstr w v = Ok w' /\ nth_error (vars w') v = Some h' /\
    d_read w' h' (length (h_value w' h')) 1 = Ok [Some 0%Z] /\ abs w' = abs w /\ Inv w'.
Proof. exact cstr_nul_terminated_thm. Qed.
Print Assumptions cstr_nul_terminated.

Theorem copies_independent : forall w o w' r u, Inv w -> step w o = Ok (w', r) ->
  target o <> Some u -> u < length (vars w) -> u < length (vars w') ->
  value w' u = value w u.
Proof. exact copies_independent_thm. Qed.
Print Assumptions copies_independent.

Theorem foreign_memory_unchanged : forall w o w' r, Inv w -> step w o = Ok (w', r) ->
  exists ext, regs w' = regs w ++ ext.
Proof. exact foreign_memory_unchanged_thm. Qed.
Print Assumptions foreign_memory_unchanged.

Theorem foreign_memory_kept : forall ops1 ops2 w1 outs1 w2 outs2,
  run winit ops1 = Ok (w1, outs1) -> run w1 ops2 = Ok (w2, outs2) ->
  forall r, r < length (regs w1) -> nth_error (regs w2) r = nth_error (regs w1) r.
Proof. exact foreign_memory_kept_thm. Qed.
Print Assumptions foreign_memory_kept.

Theorem self_args_as_if_copied : forall k w v x, Inv w ->
  has (abs w) v = true -> has (abs w) x = true -> pre (abs w) (self_op k v v x) = true ->
  exists w1 r1 w2 rs2,
    step w (self_op k v v x) = Ok (w1, r1) /\
    run w [OCopy v; self_op k v (length (vars w)) x; ODrop] = Ok (w2, rs2) /\
    abs w1 = abs w2.
Proof. exact self_args_as_if_copied_thm. Qed.
Print Assumptions self_args_as_if_copied.

Theorem heap_invariant : forall ops w outs, run winit ops = Ok (w, outs) ->
  (forall b k, nth_error (heap w) b = Some k -> bref k = count_occ handle_dec (vars w) (HBlock b)) /\
  (forall v b, nth_error (vars w) v = Some (HBlock b) -> exists k, nth_error (heap w) b = Some k /\ 1 <= bref k) /\
  (vars w = [] -> live_blocks w = 0).
Proof. exact heap_invariant_thm. Qed.
Print Assumptions heap_invariant.

Theorem heap_invariant_inductive : Inv winit /\
  forall w o w' r, Inv w -> step w o = Ok (w', r) -> Inv w'.
Proof. exact (conj inv_init (fun w o w' r I E => proj1 (step_ok_refines w o w' r I E))). Qed.
Print Assumptions heap_invariant_inductive.

Theorem case_tables_are_ascii : forall c, (lowt c = lower c /\ uppt c = upper c)%Z.
Proof. exact (fun c => conj (lowt_lower c) (uppt_upper c)). Qed.
Print Assumptions case_tables_are_ascii.

Theorem char_functions_match_tables : forall c, is_byte c = true ->
  (forall q, m_char q c = s_char q c) /\
  (m_isupper c = true <-> lowt c <> c) /\ (m_islower c = true <-> uppt c <> c) /\
  (m_isalpha c = true <-> lowt c <> uppt c) /\
  uppt (lowt c) = uppt c /\ lowt (uppt c) = lowt c /\
  (m_isalpha c = true -> m_islower (lowt c) = true /\ m_isupper (uppt c) = true).
Proof. exact char_functions_thm. Qed.
Print Assumptions char_functions_match_tables.

(* v + u leaves exactly one new variable behind (the temporaries String( *this) and String("literal") are gone),
   holding the concatenation, in a block no other variable shares *)
Theorem plus_temporaries_die : forall w v u hv hu, Inv w ->
  nth_error (vars w) v = Some hv -> nth_error (vars w) u = Some hu ->
  exists w' h', plus w v u = Ok w' /\ Inv w' /\ vars w' = vars w ++ [h'] /\ regs w' = regs w /\
    (forall x g, nth_error (vars w) x = Some g -> h_cells w' g = h_cells w g) /\
    h_cells w' h' = h_cells w hv ++ h_cells w hu.
Proof. exact plus_ok. Qed.
Print Assumptions plus_temporaries_die.

Theorem values_are_bytes : forall ops s outs, spec_run sinit ops = Some (s, outs) ->
  Forall (fun v => bytes v = true) (svals s) /\ Forall (fun r => bytes r = true) (sregs s).
Proof. exact values_are_bytes_thm. Qed.
Print Assumptions values_are_bytes.

Theorem visible_cells_initialised : forall ops w outs v h, run winit ops = Ok (w, outs) ->
  nth_error (vars w) v = Some h ->
  Forall (fun c => exists z, c = Some z /\ (0 <= z < 256)%Z) (h_cells w h).
Proof. exact visible_cells_initialised_thm. Qed.
Print Assumptions visible_cells_initialised.

(* ---- non-vacuity ---- *)
Definition demo : list op :=
  [OLit [97;98;99]%Z; OBuf [65;66]%Z; OCopy 1; OAppendS 1 1; OPrependS 2 2;
   OReg [120;121;122;33]%Z; ONew; OAttach 3 1 0 3; OCopy 3; OCStr 3; OReplaceS 3 3 0;
   OJoin 0 [0;1;2] 44%Z; OResize 4 5 46%Z; OTrim 4 [46]%Z; OCompare 1 2; ODrop].

Example demo_in_domain :
  exists s outs, spec_run sinit demo = Some (s, outs) /\
    svals s = [[97;98;99;44;65;66;65;66;44;65;66;65;66]; [65;66;65;66]; [65;66;65;66]; [97;98;99]]%Z /\
    nth 9 outs RNone = RCStr [120;121;122]%Z (Some 0%Z) /\ nth 14 outs RNone = RInt 0%Z.
Proof. vm_compute. eexists _, _. repeat split. Qed.

Example demo_model_agrees :
  exists w outs, run winit demo = Ok (w, outs) /\ Some (abs w, outs) = spec_run sinit demo /\
    live_blocks w = 4 /\ length (heap w) = 13.
Proof. vm_compute. eexists _, _. repeat split. Qed.

(* a history leaving the domain (NUL byte in an operand of a C-string based search) *)
Example out_of_domain : spec_run sinit [OBuf [97;0;98]%Z; OFindS 0 [98]%Z] = None /\
                        run winit [OBuf [97;0;98]%Z; OFindS 0 [98]%Z] = Err BadArg.
Proof. vm_compute. split; reflexivity. Qed.

(* two variables sharing one block: writing one leaves the other alone *)
Example sharing_then_write :
  exists w w' r, run winit [OBuf [97]%Z; OCopy 0] = Ok (w, [RNone; RNone]) /\
    nth_error (vars w) 0 = Some (HBlock 0) /\ nth_error (vars w) 1 = Some (HBlock 0) /\
    step w (OAppendC 1 98%Z) = Ok (w', r) /\ target (OAppendC 1 98%Z) <> Some 0 /\
    value w' 0 = [97]%Z /\ value w' 1 = [97;98]%Z.
Proof. vm_compute. eexists _, _, _. repeat split. discriminate. Qed.

(* an unterminated attached window is converted before the view is handed out *)
Example view_of_unterminated :
  exists w w' h', run winit [OReg [120;121;33]%Z; ONew; OAttach 0 0 0 2] = Ok (w, [RNone; RNone; RNone]) /\
    nth_error (vars w) 0 = Some (HView 0 0 2) /\
    cstr w 0 = Ok w' /\ nth_error (vars w') 0 = Some h' /\ h' = HBlock 0 /\
    d_read w' h' 2 1 = Ok [Some 0%Z] /\ regs w' = [[120;121;33]%Z].
Proof. vm_compute. eexists _, _, _. repeat split. Qed.

(* the self-argument statement has instances: s.prepend(s) on a literal *)
Example self_prepend_instance :
  exists w, run winit [OLit [97;98]%Z] = Ok (w, [RNone]) /\
    pre (abs w) (self_op SPrepend 0 0 0) = true /\
    (exists w1 r1, step w (self_op SPrepend 0 0 0) = Ok (w1, r1) /\ value w1 0 = [97;98;97;98]%Z).
Proof. vm_compute. eexists. repeat split. eexists _, _. repeat split. Qed.

(* a pointer into the own text as argument of append and printf; comparisons and trim on text with
   embedded NUL bytes; the literal ==, the set split, fromPrintf and the static helpers *)
Definition demo2 : list op :=
  [OBuf [97;98;99]%Z; OAppendOwn 0 1 2; OPrintfSelf 0 [60]%Z [62]%Z;
   OBuf [97;0;98]%Z; OBuf [97;0;99]%Z; OCompare 1 2; OEqualsIC 1 2; OTrim 1 [32]%Z; OBuf [0;97;0]%Z; OTrim 3 [97]%Z;
   OEqLit 0 [60;97;98;99;98;99;62]%Z; OLit [98;44;97;44;98]%Z; OSplitSet 4 [44]%Z true; OFromPrintf [120;121]%Z;
   OStat QStartsWith 0 5; OStat (QCompareN 1) 4 5].

Example demo2_in_domain :
  exists s outs, spec_run sinit demo2 = Some (s, outs) /\
    svals s = [[60;97;98;99;98;99;62]; [97;0;98]; [97;0;99]; [0;97;0]; [98;44;97;44;98]; [120;121]]%Z /\
    nth 5 outs RNone = RInt (-1)%Z /\ nth 6 outs RNone = RInt 0%Z /\ nth 10 outs RNone = RInt 1%Z /\
    nth 12 outs RNone = RList [[97]; [98]]%Z /\ nth 14 outs RNone = RInt 0%Z /\ nth 15 outs RNone = RInt (-1)%Z.
Proof. vm_compute. eexists _, _. split; [reflexivity|]. split; [reflexivity|]. split; [reflexivity|]. split; [reflexivity|]. split; [reflexivity|]. split; [reflexivity|]. split; reflexivity. Qed.

Example demo2_model_agrees :
  exists w outs, run winit demo2 = Ok (w, outs) /\ Some (abs w, outs) = spec_run sinit demo2 /\ live_blocks w = 5.
Proof. vm_compute. eexists _, _. split; [reflexivity|]. split; reflexivity. Qed.

Example foreign_kept_instance :
  exists w1 o1 w2 o2, run winit [OReg [120;121;33]%Z; ONew; OAttach 0 0 0 2] = Ok (w1, o1) /\
    run w1 [OAppendC 0 122%Z; OPoke 0 0 65%Z] = Ok (w2, o2) /\ nth_error (regs w2) 0 = Some [120;121;33]%Z /\
    value w2 0 = [65;121;122]%Z.
Proof. vm_compute. eexists _, _, _, _. split; [reflexivity|]. split; [reflexivity|]. split; reflexivity. Qed.

(* round 3: concatenation operators (also with the variable itself on every side), fromBool / fromCString /
   toBool, the static searches and char functions *)
Definition demo3 : list op :=
  [OLit [97;98]%Z; OBuf [48;46;48]%Z; OPlusEqS 0 0; OPlusEqC 0 33%Z; OPlus 0 1; OPlusLit 1 [120;0;121]%Z;
   OPlusAssign 0 0 0; OPlusAssign 1 0 1; OFromBool true; OFromCStr [104;105]%Z; OFromCStrN [104;0;105;106]%Z 3;
   OBuf [70;97;76;115;69]%Z; OToBool 7; OBuf [48;48]%Z; OToBool 8; OBuf [46;48]%Z; OToBool 9; OToBool 4;
   OStat QFindStr 1 2; OStat QFindOneOfStr 1 9; OChar CLower 65%Z; OChar CUpper 255%Z; OChar CIsSpace 11%Z;
   OChar CIsSpace 160%Z; OChar CIsPunct 96%Z; OChar CIsHexDigit 103%Z].

Example demo3_in_domain :
  exists s outs, spec_run sinit demo3 = Some (s, outs) /\
    nth 0 (svals s) [] = [97;98;97;98;33;97;98;97;98;33]%Z /\
    nth 2 (svals s) [] = [97;98;97;98;33;48;46;48]%Z /\ nth 3 (svals s) [] = [48;46;48;120;0;121]%Z /\
    nth 4 (svals s) [] = [116;114;117;101]%Z /\ nth 6 (svals s) [] = [104;0;105]%Z /\
    nth 12 outs RNone = RInt 0%Z /\ nth 14 outs RNone = RInt 1%Z /\ nth 16 outs RNone = RInt 0%Z /\ nth 17 outs RNone = RInt 1%Z /\
    nth 18 outs RNone = RInt 5%Z /\ nth 19 outs RNone = RInt 10%Z /\ nth 20 outs RNone = RInt 97%Z /\ nth 21 outs RNone = RInt 255%Z /\
    nth 22 outs RNone = RInt 1%Z /\ nth 23 outs RNone = RInt 0%Z /\ nth 24 outs RNone = RInt 1%Z /\ nth 25 outs RNone = RInt 0%Z.
Proof. vm_compute. eexists _, _. split; [reflexivity|]. split; [reflexivity|]. split; [reflexivity|]. split; [reflexivity|].
  split; [reflexivity|]. split; [reflexivity|]. split; [reflexivity|]. split; [reflexivity|]. split; [reflexivity|].
  split; [reflexivity|]. split; [reflexivity|]. split; [reflexivity|]. split; [reflexivity|]. split; [reflexivity|].
  split; [reflexivity|]. split; [reflexivity|]. split; [reflexivity|]. reflexivity. Qed.

Example demo3_model_agrees :
  exists w outs, run winit demo3 = Ok (w, outs) /\ Some (abs w, outs) = spec_run sinit demo3 /\
    live_blocks w = 9 /\ length (vars w) = 10 /\ length (regs w) = 3.
Proof. vm_compute. eexists _, _. split; [reflexivity|]. split; [reflexivity|]. split; [reflexivity|]. split; reflexivity. Qed.

(* s = s + s on a literal, as if the argument were a copy *)
Example self_plus_instance :
  exists w, run winit [OLit [97;98]%Z] = Ok (w, [RNone]) /\
    pre (abs w) (self_op SPlusBoth 0 0 0) = true /\
    (exists w1 r1, step w (self_op SPlusBoth 0 0 0) = Ok (w1, r1) /\ value w1 0 = [97;98;97;98]%Z /\ live_blocks w1 = 1).
Proof. vm_compute. eexists. split; [reflexivity|]. split; [reflexivity|]. eexists _, _. split; [reflexivity|]. split; reflexivity. Qed.

Example char_tables_instance :
  is_byte 90%Z = true /\ m_isupper 90%Z = true /\ lowt 90%Z = 122%Z /\ uppt 122%Z = 90%Z /\ m_char CIsAlpha 91%Z = 0%Z.
Proof. vm_compute. split; [reflexivity|]. split; [reflexivity|]. split; [reflexivity|]. split; reflexivity. Qed.

Example plus_instance :
  exists w hv, run winit [OBuf [97]%Z; OCopy 0] = Ok (w, [RNone; RNone]) /\ nth_error (vars w) 0 = Some hv /\
    exists w' h', plus w 0 0 = Ok w' /\ vars w' = vars w ++ [h'] /\ h' = HBlock 1 /\ live_blocks w' = 2.
Proof. vm_compute. eexists _, _. split; [reflexivity|]. split; [reflexivity|]. eexists _, _. split; [reflexivity|]. split; [reflexivity|]. split; reflexivity. Qed.

(* round 5: a pointer into the own text handed to prepend (owned and shared block, unterminated view, literal); the
   calls without a defaulted argument; find(str, start) at start = length() *)
Definition demo5 : list op :=
  [OBuf [104;105;32;121;111]%Z; OPrependOwn 0 3 2; OCopy 0; OPrependOwn 1 0 1; OReg [120;121;122;33]%Z; ONew;
   OAttach 2 0 0 3; OPrependOwn 2 1 2; OLit [97;98]%Z; OPrependOwn 3 0 2;
   OBuf [13;11;32;120;32;12;9]%Z; OTrimD 4; OSubstrD 0 (-2); OSplitD 4 [32]%Z; OSplitSetD 4 [32]%Z;
   OFindSFrom 3 [] 4; OFindSFrom 3 [] 5; OFindSFrom 3 [98]%Z 4; OFindCFrom 3 98%Z 4; OFindOneOfFrom 3 [] 4; ONew; OFindSFrom 6 [] 0].

Example demo5_in_domain :
  exists s outs, spec_run sinit demo5 = Some (s, outs) /\
    svals s = [[121;111;104;105;32;121;111]; [121;121;111;104;105;32;121;111]; [121;122;120;121;122]; [97;98;97;98];
               [120;32;12]; [121;111]; []]%Z /\
    nth 13 outs RNone = RList [[120]; [12]]%Z /\ nth 14 outs RNone = RList [[12]; [120]]%Z /\
    nth 15 outs RNone = RInt 4%Z /\ nth 16 outs RNone = RInt (-1)%Z /\ nth 17 outs RNone = RInt (-1)%Z /\
    nth 18 outs RNone = RInt (-1)%Z /\ nth 19 outs RNone = RInt (-1)%Z /\ nth 21 outs RNone = RInt 0%Z.
Proof. vm_compute. eexists _, _. split; [reflexivity|]. split; [reflexivity|]. split; [reflexivity|]. split; [reflexivity|].
  split; [reflexivity|]. split; [reflexivity|]. split; [reflexivity|]. split; [reflexivity|]. split; reflexivity. Qed.

Example demo5_model_agrees :
  exists w outs, run winit demo5 = Ok (w, outs) /\ Some (abs w, outs) = spec_run sinit demo5 /\ length (vars w) = 7.
Proof. vm_compute. eexists _, _. split; [reflexivity|]. split; reflexivity. Qed.

(* what the property-level reading leaves open: the answer of toBool and of a classifier; not: a case map, a search *)
Example seen_instance :
  seen sinit (OToBool 0) (RInt 1%Z) = None /\ seen sinit (OChar CIsSpace 32%Z) (RInt 1%Z) = None /\
  seen sinit (OChar CLower 65%Z) (RInt 97%Z) = Some (RInt 97%Z) /\ seen sinit (OFindSFrom 0 [] 0) (RInt 0%Z) = Some (RInt 0%Z).
Proof. vm_compute. split; [reflexivity|]. split; [reflexivity|]. split; reflexivity. Qed.
