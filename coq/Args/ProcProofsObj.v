(* C20 part E - the Process object: descriptor accounting, invariant, refinement to the life-cycle
   reference of ProcSpec, for every sequence of operations and every sequence of kernel answers. *)
From Coq Require Import ZArith List Bool Lia Permutation.
From Coq Require Import ZifyBool.
From Args Require Import ArgsSpec ProcSpec ProcModel.
Import ListNotations.
Local Open Scope Z_scope.

Notation cnt := (count_occ Z.eq_dec).

Definition one (a b : Z) : nat := if Z.eq_dec a b then 1%nat else 0%nat.

Lemma one_same a : one a a = 1%nat.
Proof. unfold one. destruct (Z.eq_dec a a); [reflexivity|contradiction]. Qed.
Lemma one_diff a b : a <> b -> one a b = 0%nat.
Proof. unfold one. destruct (Z.eq_dec a b); [contradiction|reflexivity]. Qed.

Lemma cnt_cons a l y : cnt (a :: l) y = (one a y + cnt l y)%nat.
Proof. unfold one. cbn [count_occ]. destruct (Z.eq_dec a y); reflexivity. Qed.
Lemma cnt_nil y : cnt [] y = 0%nat.
Proof. reflexivity. Qed.
Lemma cnt_app l1 l2 y : cnt (l1 ++ l2) y = (cnt l1 y + cnt l2 y)%nat.
Proof. apply count_occ_app. Qed.

Lemma cnt_in l x : In x l <-> (cnt l x > 0)%nat.
Proof. apply count_occ_In. Qed.
Lemma cnt_notin l x : ~ In x l <-> cnt l x = 0%nat.
Proof. apply count_occ_not_In. Qed.

Lemma cnt_all0_nil l : (forall x, cnt l x = 0%nat) -> l = [].
Proof. intro H. apply (count_occ_inv_nil Z.eq_dec). exact H. Qed.

Lemma cnt_remove1 x l y : In x l -> (cnt (remove1 x l) y + one x y = cnt l y)%nat.
Proof.
  induction l as [|a l IH]; intro H; [contradiction|].
  cbn [remove1]. destruct (x =? a) eqn:E.
  - apply Z.eqb_eq in E. subst a. rewrite cnt_cons. lia.
  - apply Z.eqb_neq in E. destruct H as [H|H]; [congruence|].
    rewrite !cnt_cons. specialize (IH H). lia.
Qed.

Ltac ones :=
  repeat match goal with
         | |- context [one ?a ?b] => unfold one; destruct (Z.eq_dec a b); try subst
         | H : context [one ?a ?b] |- _ => unfold one in H; destruct (Z.eq_dec a b); try subst
         end.

(* ---- primitive steps of the world ---- *)
Lemma holds_in w fd : holds w fd = true <-> In fd (w_fds w).
Proof.
  unfold holds. rewrite existsb_exists. split.
  - intros [y [Hy E]]. apply Z.eqb_eq in E. subst. exact Hy.
  - intro H. exists fd. split; [exact H|apply Z.eqb_refl].
Qed.

Lemma k_close_fds w fd : In fd (w_fds w) -> w_fds (k_close fd w) = remove1 fd (w_fds w).
Proof. intro H. unfold k_close. apply holds_in in H. rewrite H. reflexivity. Qed.
Lemma k_close_stray w fd : In fd (w_fds w) -> w_stray (k_close fd w) = w_stray w.
Proof. intro H. unfold k_close. apply holds_in in H. rewrite H. reflexivity. Qed.
Lemma k_close_kids w fd : w_kids (k_close fd w) = w_kids w.
Proof. unfold k_close. destruct (holds w fd); reflexivity. Qed.
Lemma k_close_log w fd : w_log (k_close fd w) = w_log w ++ [KClose fd].
Proof. unfold k_close. destruct (holds w fd); reflexivity. Qed.

(* closing a list of descriptors one after the other *)
Definition closes (L : list Z) (w : world) : world := fold_left (fun w fd => k_close fd w) L w.

Lemma closes_kids L : forall w, w_kids (closes L w) = w_kids w.
Proof. induction L as [|x L IH]; intro w; [reflexivity|]. cbn [closes fold_left]. fold (closes L (k_close x w)). rewrite IH. apply k_close_kids. Qed.

Lemma remove1_notin x l : ~ In x l -> remove1 x l = l.
Proof.
  induction l as [|a l IH]; intro Hx; [reflexivity|]. cbn [remove1].
  destruct (x =? a) eqn:E; [apply Z.eqb_eq in E; subst; exfalso; apply Hx; left; reflexivity|].
  f_equal. apply IH. intro X. apply Hx. right. exact X.
Qed.

Lemma in_remove1_other x y l : In y l -> y <> x -> In y (remove1 x l).
Proof.
  intros H Hne.
  destruct (in_dec Z.eq_dec x l) as [Hx|Hx]; [|rewrite remove1_notin by exact Hx; exact H].
  apply cnt_in. apply cnt_in in H.
  pose proof (cnt_remove1 x l y Hx) as E. rewrite one_diff in E by congruence. lia.
Qed.

Lemma closes_spec L : forall w, w_stray w = [] -> NoDup L -> (forall x, In x L -> In x (w_fds w)) ->
  w_stray (closes L w) = [] /\ forall fd, (cnt (w_fds (closes L w)) fd + cnt L fd = cnt (w_fds w) fd)%nat.
Proof.
  induction L as [|x L IH]; intros w Hs Hn Hin.
  - split; [exact Hs|]. intro fd. cbn [closes fold_left]. rewrite cnt_nil. lia.
  - inversion Hn as [|a b Hx Hd]; subst.
    cbn [closes fold_left]. fold (closes L (k_close x w)).
    assert (Hxin : In x (w_fds w)) by (apply Hin; left; reflexivity).
    destruct (IH (k_close x w)) as [IH1 IH2].
    + rewrite k_close_stray by exact Hxin. exact Hs.
    + exact Hd.
    + intros y Hy. rewrite k_close_fds by exact Hxin. apply in_remove1_other; [apply Hin; right; exact Hy|].
      intro E. subst. contradiction.
    + split; [exact IH1|]. intro fd. specialize (IH2 fd). rewrite k_close_fds in IH2 by exact Hxin.
      pose proof (cnt_remove1 x (w_fds w) fd Hxin). rewrite cnt_cons. lia.
Qed.

(* non-zero members of a list *)
Definition nzl (l : list Z) : list Z := filter (fun x => negb (x =? 0)) l.

Lemma nzl_cons x l : nzl (x :: l) = if x =? 0 then nzl l else x :: nzl l.
Proof. unfold nzl. cbn [filter]. destruct (x =? 0); reflexivity. Qed.

Lemma nzl_no0 l : ~ In 0 (nzl l).
Proof. unfold nzl. intro H. apply filter_In in H. destruct H as [_ H]. discriminate. Qed.

Lemma close_nz_closes fd w : close_nz fd w = closes (nzl [fd]) w.
Proof. unfold close_nz. rewrite nzl_cons. destruct (fd =? 0); reflexivity. Qed.

Definition plist (p : Z * Z) : list Z := if fst p =? 0 then [] else [fst p; snd p].

Lemma close_pair_closes p w : close_pair p w = closes (plist p) w.
Proof. unfold close_pair, plist. destruct (fst p =? 0); reflexivity. Qed.

Lemma closes_app L1 L2 w : closes (L1 ++ L2) w = closes L2 (closes L1 w).
Proof. unfold closes. apply fold_left_app. Qed.

Lemma open_error_closes po pe pi w : open_error po pe pi w = closes (plist po ++ plist pe ++ plist pi) w.
Proof. unfold open_error. rewrite !close_pair_closes, !closes_app. reflexivity. Qed.

Definition fields (s : pobj) : list Z := nzl [p_out s; p_err s; p_in s].

Lemma close_all_closes s w : snd (close_all s w) = closes (fields s) w.
Proof.
  unfold close_all, fields. cbn [snd]. rewrite !close_nz_closes.
  rewrite <- !closes_app. f_equal. rewrite !nzl_cons. unfold nzl. cbn [filter].
  destruct (p_out s =? 0), (p_err s =? 0), (p_in s =? 0); reflexivity.
Qed.

(* ---------------------------------------------------------------------------------------- *)
(* 1. Accounting: whatever the kernel answers, every descriptor handed to the object was    *)
(*    closed as often as it was handed out, or is still held, or the surplus close is on    *)
(*    record as stray.                                                                      *)
(* ---------------------------------------------------------------------------------------- *)
Definition Acc (w : world) : Prop :=
  forall fd, (times_opened (w_log w) fd + cnt (w_stray w) fd = times_closed (w_log w) fd + cnt (w_fds w) fd)%nat.

Lemma ind_one a b : ind a b = one a b.
Proof. unfold ind, one. destruct (Z.eq_dec a b) as [E|E]; [subst; rewrite Z.eqb_refl; reflexivity|].
  apply Z.eqb_neq in E. rewrite E. reflexivity. Qed.

Lemma times_opened_snoc l e fd : times_opened (l ++ [e]) fd = (times_opened l fd + opened_ev fd e)%nat.
Proof. unfold times_opened. induction l as [|a l IH]; cbn [app fold_right]; [lia|]. rewrite IH. lia. Qed.
Lemma times_closed_snoc l e fd : times_closed (l ++ [e]) fd = (times_closed l fd + closed_ev fd e)%nat.
Proof. unfold times_closed. induction l as [|a l IH]; cbn [app fold_right]; [lia|]. rewrite IH. lia. Qed.

Definition neutral (e : kev) : bool :=
  match e with KPipe _ _ | KDup _ | KClose _ => false | _ => true end.

Lemma acc_emit e w : neutral e = true -> Acc w -> Acc (emit e w).
Proof.
  intros Hn H fd. specialize (H fd). unfold emit. cbn [w_log w_fds w_stray].
  rewrite times_opened_snoc, times_closed_snoc.
  destruct e; try discriminate; cbn [opened_ev closed_ev]; lia.
Qed.

Lemma acc_kids l w : Acc w -> Acc (set_kids l w).
Proof. intros H fd. exact (H fd). Qed.

Lemma acc_close fd w : Acc w -> Acc (k_close fd w).
Proof.
  intros H y. specialize (H y). unfold k_close.
  destruct (holds w fd) eqn:Hh.
  - apply holds_in in Hh. cbn [set_fds emit w_log w_fds w_stray].
    rewrite times_opened_snoc, times_closed_snoc. cbn [opened_ev closed_ev]. rewrite ind_one.
    pose proof (cnt_remove1 fd (w_fds w) y Hh). lia.
  - cbn [emit w_log w_fds w_stray].
    rewrite times_opened_snoc, times_closed_snoc, cnt_app, cnt_cons, cnt_nil. cbn [opened_ev closed_ev]. rewrite ind_one. lia.
Qed.

Lemma acc_closes L : forall w, Acc w -> Acc (closes L w).
Proof. induction L as [|x L IH]; intros w H; [exact H|]. cbn [closes fold_left]. apply IH. apply acc_close. exact H. Qed.

Lemma acc_pipe a w : Acc w -> Acc (fst (k_pipe a w)).
Proof.
  intro H. unfold k_pipe. destruct (pa_res a) as [[r x]|]; cbn [fst]; [|apply acc_emit; [reflexivity|exact H]].
  intro y. specialize (H y). cbn [set_fds emit w_log w_fds w_stray].
  rewrite times_opened_snoc, times_closed_snoc, cnt_app, !cnt_cons, cnt_nil. cbn [opened_ev closed_ev]. rewrite !ind_one. lia.
Qed.

Lemma acc_dup a w : Acc w -> Acc (fst (k_dup a w)).
Proof.
  intro H. unfold k_dup. destruct (pa_dup a) as [d|]; cbn [fst]; [|apply acc_emit; [reflexivity|exact H]].
  intro y. specialize (H y). cbn [set_fds emit w_log w_fds w_stray].
  rewrite times_opened_snoc, times_closed_snoc, cnt_app, !cnt_cons, cnt_nil. cbn [opened_ev closed_ev]. rewrite !ind_one. lia.
Qed.

Ltac acc :=
  repeat first
    [ assumption
    | apply acc_closes
    | apply acc_close
    | apply acc_kids
    | (apply acc_emit; [reflexivity|]) ].

Lemma acc_fix_end a i w f : Acc w -> Acc (fst (fix_end a i w f)).
Proof.
  intro H. unfold fix_end. destruct ((if i then snd f else fst f) =? 0); [|exact H].
  pose proof (acc_dup a w H) as Hd. destruct (k_dup a w) as [w1 [d|]]; cbn [fst] in *; acc.
Qed.

Lemma acc_create_pipe a w : Acc w -> Acc (fst (create_pipe a w)).
Proof.
  intro H. unfold create_pipe.
  pose proof (acc_pipe a w H) as H1. destruct (k_pipe a w) as [w1 [f|]]; cbn [fst] in *; [|exact H1].
  pose proof (acc_fix_end a false w1 f H1) as H2. destruct (fix_end a false w1 f) as [w2 [f2|]]; cbn [fst] in *; [|exact H2].
  apply acc_fix_end. exact H2.
Qed.

Lemma acc_want_pipe st bit a w : Acc w -> Acc (fst (want_pipe st bit a w)).
Proof. intro H. unfold want_pipe. destruct (flag st bit); [apply acc_create_pipe; exact H|exact H]. Qed.

Lemma acc_close_nz fd w : Acc w -> Acc (close_nz fd w).
Proof. intro H. rewrite close_nz_closes. acc. Qed.

Lemma acc_open_error po pe pi w : Acc w -> Acc (open_error po pe pi w).
Proof. intro H. rewrite open_error_closes. acc. Qed.

Lemma acc_close_all s w : Acc w -> Acc (snd (close_all s w)).
Proof. intro H. rewrite close_all_closes. acc. Qed.

Lemma acc_p_open st a1 a2 a3 vf s w : Acc w -> Acc (snd (p_open st a1 a2 a3 vf s w)).
Proof.
  intro H. unfold p_open. destruct (negb (p_pid s =? 0)); [exact H|].
  pose proof (acc_want_pipe st 1 a1 w H) as H1. destruct (want_pipe st 1 a1 w) as [w1 [po|]]; cbn [fst snd] in *;
    [|apply acc_open_error; exact H1].
  pose proof (acc_want_pipe st 2 a2 w1 H1) as H2. destruct (want_pipe st 2 a2 w1) as [w2 [pe|]]; cbn [fst snd] in *;
    [|apply acc_open_error; exact H2].
  pose proof (acc_want_pipe st 4 a3 w2 H2) as H3. destruct (want_pipe st 4 a3 w2) as [w3 [pi|]]; cbn [fst snd] in *;
    [|apply acc_open_error; exact H3].
  destruct vf as [pid|]; cbn [snd].
  - repeat apply acc_close_nz. acc.
  - acc.
Qed.

Lemma acc_p_join wt s w : Acc w -> Acc (snd (p_join wt s w)).
Proof.
  intro H. unfold p_join. destruct (p_pid s =? 0); [exact H|]. destruct wt as [st|]; cbn [snd]; [|acc].
  pose proof (acc_close_all s (set_kids (remove1 (p_pid s) (w_kids (emit (KWait (p_pid s) (Some st)) w))) (emit (KWait (p_pid s) (Some st)) w))) as X.
  destruct (close_all s _) as [s1 w1]. cbn [snd] in *. apply X. acc.
Qed.

Lemma acc_p_kill wt s w : Acc w -> Acc (snd (p_kill wt s w)).
Proof.
  intro H. unfold p_kill. destruct (p_pid s =? 0); [exact H|]. destruct wt as [st|]; cbn [snd]; [|acc].
  match goal with |- context [close_all s ?W] => pose proof (acc_close_all s W) as X; destruct (close_all s W) as [s1 w1] end.
  cbn [snd] in *. apply X. acc.
Qed.

Lemma acc_p_close st s w : Acc w -> Acc (snd (p_close st s w)).
Proof.
  intro H. unfold p_close.
  destruct (flag st 4 && negb (p_in s =? 0)); destruct (flag st 1 && negb (p_out s =? 0)); destruct (flag st 2 && negb (p_err s =? 0));
    cbn [snd]; acc.
Qed.

Lemma acc_pstep o s w : Acc w -> Acc (snd (pstep o s w)).
Proof.
  intro H. destruct o; cbn [pstep].
  - apply acc_p_open; exact H.
  - unfold p_start. destruct (negb (p_pid s =? 0)); [exact H|]. destruct vf; cbn [snd]; acc.
  - apply acc_p_join; exact H.
  - apply acc_p_kill; exact H.
  - apply acc_p_close; exact H.
  - unfold p_read. cbn [snd]. acc.
  - unfold p_read2. destruct (negb _); [exact H|]. destruct (_ && flag ready 1); [cbn [snd]; acc|].
    destruct (_ && flag ready 2); cbn [snd]; acc.
  - unfold p_write. cbn [snd]. acc.
  - exact H.
  - unfold p_destroy. pose proof (acc_p_join wt s w H) as H1.
    destruct (p_join wt s w) as [[r1 s1] w1]. exact H1.
Qed.

Lemma acc_world0 : Acc world0.
Proof. intro fd. reflexivity. Qed.

(* ---------------------------------------------------------------------------------------- *)
(* 2. What createPipe does when the kernel hands out descriptors that are not in use        *)
(* ---------------------------------------------------------------------------------------- *)
Definition nums (a : pipe_ans) : list Z :=
  match pa_res a with
  | None => []
  | Some (r, x) => r :: x :: match pa_dup a with Some d => [d] | None => [] end
  end.

(* the two ends of a pipe differ; F_DUPFD from 3 upwards gives neither 0 nor an end of this pipe *)
Definition shape_ok (a : pipe_ans) : Prop :=
  match pa_res a with
  | None => True
  | Some (r, x) => r <> x /\ match pa_dup a with Some d => d <> 0 /\ d <> r /\ d <> x | None => True end
  end.

Lemma in_nzl x l : In x l -> x <> 0 -> In x (nzl l).
Proof. intros H Hx. unfold nzl. apply filter_In. split; [exact H|]. apply negb_true_iff. apply Z.eqb_neq. exact Hx. Qed.

Lemma nzl_in x l : In x (nzl l) -> In x l /\ x <> 0.
Proof. unfold nzl. intro H. apply filter_In in H. destruct H as [H1 H2]. split; [exact H1|]. apply negb_true_iff in H2. apply Z.eqb_neq in H2. exact H2. Qed.

Lemma fix_end_keep a (i : bool) w f : (if i then snd f else fst f) <> 0 -> fix_end a i w f = (w, Some f).
Proof. intro H. unfold fix_end. apply Z.eqb_neq in H. rewrite H. reflexivity. Qed.

Lemma fix_end_dup a (i : bool) w f d : (if i then snd f else fst f) = 0 -> pa_dup a = Some d ->
  w_stray w = [] -> In 0 (w_fds w) ->
  let w' := fst (fix_end a i w f) in
  snd (fix_end a i w f) = Some (if i then (fst f, d) else (d, snd f)) /\
  w_stray w' = [] /\ w_kids w' = w_kids w /\
  forall fd, (cnt (w_fds w') fd + one 0 fd = cnt (w_fds w) fd + one d fd)%nat.
Proof.
  intros Hz Hd Hs H0. unfold fix_end, k_dup. rewrite Hz, Hd. cbn [Z.eqb fst snd].
  set (w1 := set_fds (w_fds w ++ [d]) (emit (KDup d) w)).
  assert (Hin : In 0 (w_fds w1)) by (cbn [w1 set_fds w_fds]; apply in_or_app; left; exact H0).
  split; [reflexivity|]. split; [rewrite k_close_stray by exact Hin; exact Hs|].
  split; [rewrite k_close_kids; reflexivity|].
  intro fd. rewrite k_close_fds by exact Hin.
  pose proof (cnt_remove1 0 (w_fds w1) fd Hin) as E. cbn [w1 set_fds w_fds] in E.
  rewrite cnt_app, cnt_cons, cnt_nil in E. cbn [w1 set_fds w_fds]. lia.
Qed.

Lemma fix_end_fail a (i : bool) w f : (if i then snd f else fst f) = 0 -> pa_dup a = None ->
  w_stray w = [] -> In (fst f) (w_fds w) -> In (snd f) (w_fds w) -> fst f <> snd f ->
  let w' := fst (fix_end a i w f) in
  snd (fix_end a i w f) = None /\
  w_stray w' = [] /\ w_kids w' = w_kids w /\
  forall fd, (cnt (w_fds w') fd + one (fst f) fd + one (snd f) fd = cnt (w_fds w) fd)%nat.
Proof.
  intros Hz Hd Hs H1 H2 Hne. unfold fix_end, k_dup. rewrite Hz, Hd. cbn [Z.eqb fst snd].
  set (w1 := emit KDupFail w).
  assert (Hin1 : In (fst f) (w_fds w1)) by exact H1.
  assert (Hin2 : In (snd f) (w_fds (k_close (fst f) w1))).
  { rewrite k_close_fds by exact Hin1. apply in_remove1_other; [exact H2|congruence]. }
  split; [reflexivity|].
  split; [rewrite k_close_stray by exact Hin2; rewrite k_close_stray by exact Hin1; exact Hs|].
  split; [rewrite !k_close_kids; reflexivity|].
  intro fd. rewrite k_close_fds by exact Hin2. rewrite k_close_fds by exact Hin1.
  pose proof (cnt_remove1 (fst f) (w_fds w1) fd Hin1) as E1.
  assert (Hin2' : In (snd f) (remove1 (fst f) (w_fds w1))) by (rewrite <- k_close_fds by exact Hin1; exact Hin2).
  pose proof (cnt_remove1 (snd f) (remove1 (fst f) (w_fds w1)) fd Hin2') as E2.
  change (w_fds w1) with (w_fds w) in *. lia.
Qed.

Lemma create_pipe_spec a w : w_stray w = [] -> ~ In 0 (w_fds w) -> shape_ok a ->
  let w' := fst (create_pipe a w) in
  w_stray w' = [] /\ w_kids w' = w_kids w /\
  match snd (create_pipe a w) with
  | None => pipe_granted a = false /\ forall fd, cnt (w_fds w') fd = cnt (w_fds w) fd
  | Some p => pipe_granted a = true /\ fst p <> 0 /\ snd p <> 0 /\ fst p <> snd p /\
              In (fst p) (nzl (nums a)) /\ In (snd p) (nzl (nums a)) /\
              forall fd, cnt (w_fds w') fd = (cnt (w_fds w) fd + one (fst p) fd + one (snd p) fd)%nat
  end.
Proof.
  intros Hs H0 Hsh. unfold create_pipe, k_pipe, pipe_granted, shape_ok, nums in *.
  destruct (pa_res a) as [[r x]|] eqn:Ea.
  2:{ cbn [fst snd]. split; [exact Hs|]. split; [reflexivity|]. split; [reflexivity|]. intro fd. reflexivity. }
  destruct Hsh as [Hrx Hd].
  set (w1 := set_fds (w_fds w ++ [r; x]) (emit (KPipe r x) w)).
  assert (C1 : forall fd, cnt (w_fds w1) fd = (cnt (w_fds w) fd + one r fd + one x fd)%nat).
  { intro fd. cbn [w1 set_fds w_fds]. rewrite cnt_app, !cnt_cons, cnt_nil. lia. }
  assert (Hr1 : In r (w_fds w1)) by (cbn [w1 set_fds w_fds]; apply in_or_app; right; left; reflexivity).
  assert (Hx1 : In x (w_fds w1)) by (cbn [w1 set_fds w_fds]; apply in_or_app; right; right; left; reflexivity).
  assert (Hs1 : w_stray w1 = []) by exact Hs.
  destruct (Z.eq_dec r 0) as [Er|Er].
  - (* the read end is descriptor 0 *)
    subst r. assert (Hx0 : x <> 0) by congruence. cbn [Z.eqb orb].
    destruct (pa_dup a) as [d|] eqn:Ed.
    + destruct Hd as [Hd0 [Hdr Hdx]].
      destruct (fix_end_dup a false w1 (0, x) d eq_refl Ed Hs1 Hr1) as [R [S1 [K1 C2]]].
      destruct (fix_end a false w1 (0, x)) as [w2 r2]. cbn [fst snd] in *. subst r2.
      rewrite (fix_end_keep a true w2 (d, x)) by (cbn [snd]; exact Hx0). cbn [fst snd].
      split; [exact S1|]. split; [exact K1|]. split; [reflexivity|].
      split; [exact Hd0|]. split; [exact Hx0|]. split; [exact Hdx|].
      split; [apply in_nzl; [right; right; left; reflexivity|exact Hd0]|].
      split; [apply in_nzl; [right; left; reflexivity|exact Hx0]|].
      intro fd. specialize (C1 fd). specialize (C2 fd). lia.
    + destruct (fix_end_fail a false w1 (0, x) eq_refl Ed Hs1 Hr1 Hx1 Hrx) as [R [S1 [K1 C2]]].
      destruct (fix_end a false w1 (0, x)) as [w2 r2]. cbn [fst snd] in *. subst r2. cbn [fst snd].
      split; [exact S1|]. split; [exact K1|]. split; [reflexivity|].
      intro fd. specialize (C1 fd). specialize (C2 fd). lia.
  - rewrite (fix_end_keep a false w1 (r, x)) by (cbn [fst]; exact Er).
    assert (Er' : (r =? 0) = false) by (apply Z.eqb_neq; exact Er). rewrite Er'. cbn [orb].
    destruct (Z.eq_dec x 0) as [Ex|Ex].
    + (* the write end is descriptor 0 *)
      subst x. cbn [Z.eqb].
      destruct (pa_dup a) as [d|] eqn:Ed.
      * destruct Hd as [Hd0 [Hdr Hdx]].
        destruct (fix_end_dup a true w1 (r, 0) d eq_refl Ed Hs1 Hx1) as [R [S1 [K1 C2]]].
        destruct (fix_end a true w1 (r, 0)) as [w2 r2]. cbn [fst snd] in *. subst r2. cbn [fst snd].
        split; [exact S1|]. split; [exact K1|]. split; [reflexivity|].
        split; [exact Er|]. split; [exact Hd0|]. split; [congruence|].
        split; [apply in_nzl; [left; reflexivity|exact Er]|].
        split; [apply in_nzl; [right; right; left; reflexivity|exact Hd0]|].
        intro fd. specialize (C1 fd). specialize (C2 fd). lia.
      * destruct (fix_end_fail a true w1 (r, 0) eq_refl Ed Hs1 Hr1 Hx1 Hrx) as [R [S1 [K1 C2]]].
        destruct (fix_end a true w1 (r, 0)) as [w2 r2]. cbn [fst snd] in *. subst r2. cbn [fst snd].
        split; [exact S1|]. split; [exact K1|]. split; [reflexivity|].
        intro fd. specialize (C1 fd). specialize (C2 fd). lia.
    + rewrite (fix_end_keep a true w1 (r, x)) by (cbn [snd]; exact Ex).
      assert (Ex' : (x =? 0) = false) by (apply Z.eqb_neq; exact Ex). rewrite Ex'. cbn [fst snd].
      split; [exact Hs|]. split; [reflexivity|]. split; [reflexivity|].
      split; [exact Er|]. split; [exact Ex|]. split; [exact Hrx|].
      split; [apply in_nzl; [left; reflexivity|exact Er]|].
      split; [apply in_nzl; [right; left; reflexivity|exact Ex]|].
      exact C1.
Qed.

Lemma cnt_plist p fd : fst p <> 0 -> cnt (plist p) fd = (one (fst p) fd + one (snd p) fd)%nat.
Proof. intro H. unfold plist. apply Z.eqb_neq in H. rewrite H. rewrite !cnt_cons, cnt_nil. lia. Qed.

Lemma want_pipe_spec st bit a w : w_stray w = [] -> ~ In 0 (w_fds w) -> shape_ok a ->
  let w' := fst (want_pipe st bit a w) in
  w_stray w' = [] /\ w_kids w' = w_kids w /\
  match snd (want_pipe st bit a w) with
  | None => flag st bit = true /\ pipe_granted a = false /\ forall fd, cnt (w_fds w') fd = cnt (w_fds w) fd
  | Some p => (negb (flag st bit) || pipe_granted a) = true /\
              ((fst p = 0 /\ snd p = 0 /\ flag st bit = false) \/
               (flag st bit = true /\ fst p <> 0 /\ snd p <> 0 /\ fst p <> snd p /\
                In (fst p) (nzl (nums a)) /\ In (snd p) (nzl (nums a)))) /\
              forall fd, cnt (w_fds w') fd = (cnt (w_fds w) fd + cnt (plist p) fd)%nat
  end.
Proof.
  intros Hs H0 Hsh. unfold want_pipe. destruct (flag st bit) eqn:Ef.
  - pose proof (create_pipe_spec a w Hs H0 Hsh) as X. cbn zeta in X.
    destruct (create_pipe a w) as [w1 [p|]]; cbn [fst snd] in *.
    + destruct X as [S1 [K1 [G [A [B [C [I1 [I2 Cn]]]]]]]].
      split; [exact S1|]. split; [exact K1|]. split; [rewrite G; reflexivity|].
      split; [right; repeat split; assumption|].
      intro fd. rewrite cnt_plist by exact A. rewrite Cn. lia.
    + destruct X as [S1 [K1 [G Cn]]]. repeat split; assumption.
  - cbn [fst snd negb orb]. split; [exact Hs|]. split; [reflexivity|]. split; [reflexivity|].
    split; [left; repeat split; reflexivity|]. intro fd. cbn [plist fst]. cbn [Z.eqb]. rewrite cnt_nil. lia.
Qed.

Lemma release_all L w : w_stray w = [] -> NoDup L -> (forall fd, cnt (w_fds w) fd = cnt L fd) ->
  w_stray (closes L w) = [] /\ forall fd, cnt (w_fds (closes L w)) fd = 0%nat.
Proof.
  intros Hs Hn Hc.
  destruct (closes_spec L w Hs Hn) as [S1 C1].
  - intros x Hx. apply cnt_in. rewrite Hc. apply cnt_in. exact Hx.
  - split; [exact S1|]. intro fd. specialize (C1 fd). specialize (Hc fd). lia.
Qed.

Lemma nodup_app_sub {A} (A1 B1 l1 l2 : list A) :
  NoDup (A1 ++ B1) -> NoDup l1 -> NoDup l2 -> incl l1 A1 -> incl l2 B1 -> NoDup (l1 ++ l2).
Proof.
  intros H H1 H2 I1 I2. induction l1 as [|x l1 IH]; [exact H2|].
  inversion H1 as [|a b Hx Hd]; subst. cbn [app]. constructor.
  - intro X. apply in_app_or in X. destruct X as [X|X]; [contradiction|].
    assert (Ha : In x A1) by (apply I1; left; reflexivity).
    assert (Hb : In x B1) by (apply I2; exact X).
    clear - H Ha Hb. induction A1 as [|y A1 IH]; [contradiction|].
    cbn [app] in H. inversion H as [|a b Hy Hd]; subst. destruct Ha as [Ha|Ha].
    + subst. apply Hy. apply in_or_app. right. exact Hb.
    + apply IH; assumption.
  - apply IH; [exact Hd|]. intros y Hy. apply I1. right. exact Hy.
Qed.

Lemma nodup_app_r {A} (l1 l2 : list A) : NoDup (l1 ++ l2) -> NoDup l2.
Proof. induction l1 as [|x l1 IH]; intro H; [exact H|]. cbn [app] in H. inversion H; subst. apply IH. assumption. Qed.

(* a pair as createPipe leaves it: both ends zero (not requested) or both non-zero and different *)
Definition pair_ok (p : Z * Z) (a : pipe_ans) : Prop :=
  (fst p = 0 /\ snd p = 0) \/ (fst p <> 0 /\ snd p <> 0 /\ fst p <> snd p /\ In (fst p) (nzl (nums a)) /\ In (snd p) (nzl (nums a))).

Lemma plist_nodup p a : pair_ok p a -> NoDup (plist p) /\ incl (plist p) (nzl (nums a)).
Proof.
  unfold plist. intros [[H1 H2]|[H1 [H2 [H3 [H4 H5]]]]].
  - rewrite H1. cbn [Z.eqb]. split; [constructor|intros x []].
  - apply Z.eqb_neq in H1. rewrite H1. split.
    + constructor; [intros [X|[]]; congruence|constructor; [intros []|constructor]].
    + intros x [X|[X|[]]]; subst; assumption.
Qed.

Lemma plist_split p a fd : pair_ok p a -> cnt (plist p) fd = (cnt (nzl [fst p]) fd + cnt (nzl [snd p]) fd)%nat.
Proof.
  unfold plist. intros [[H1 H2]|[H1 [H2 _]]].
  - rewrite H1, H2. reflexivity.
  - rewrite !nzl_cons. apply Z.eqb_neq in H1. apply Z.eqb_neq in H2. rewrite H1, H2.
    unfold nzl. cbn [filter]. rewrite !cnt_cons, !cnt_nil. lia.
Qed.

Lemma nzl3 a b c fd : cnt (nzl [a; b; c]) fd = (cnt (nzl [a]) fd + cnt (nzl [b]) fd + cnt (nzl [c]) fd)%nat.
Proof.
  change [a; b; c] with ([a] ++ [b] ++ [c]). unfold nzl. rewrite !filter_app, !cnt_app. lia.
Qed.

Lemma nodup_cnt_le (l1 l2 : list Z) : NoDup l2 -> (forall x, (cnt l1 x <= cnt l2 x)%nat) -> NoDup l1.
Proof.
  intros H Hle. apply (NoDup_count_occ Z.eq_dec). intro x.
  pose proof (proj1 (NoDup_count_occ Z.eq_dec l2) H x). specialize (Hle x). lia.
Qed.

(* ---------------------------------------------------------------------------------------- *)
(* 3. The invariant and the refinement                                                      *)
(* ---------------------------------------------------------------------------------------- *)

(* [lost]: descriptors the object was handed, never closed and no longer refers to (the two
   noted paths: open() when vfork fails, the destructor when its join fails) *)
Definition PInv (lost : list Z) (s : pobj) (w : world) : Prop :=
  w_stray w = [] /\
  (forall fd, cnt (w_fds w) fd = (cnt (fields s) fd + cnt lost fd)%nat) /\
  ~ In 0 lost /\
  NoDup (fields s) /\
  (p_pid s = 0 -> p_out s = 0 /\ p_err s = 0 /\ p_in s = 0).

(* what is asked of the kernel's answers: the descriptors of one open() are pairwise different
   (0 may come again after it was closed), and a process id is not 0 *)
Definition op_ok (o : pop) : Prop :=
  match o with
  | POpen _ a1 a2 a3 vf =>
    shape_ok a1 /\ shape_ok a2 /\ shape_ok a3 /\
    NoDup (nzl (nums a1) ++ nzl (nums a2) ++ nzl (nums a3)) /\
    match vf with Some pid => pid <> 0 | None => True end
  | PStart (Some pid) => pid <> 0
  | _ => True
  end.

(* the operations on which descriptors can get lost *)
Definition may_leak (o : pop) : bool :=
  match o with
  | POpen _ _ _ _ None => true
  | PDestroy None => true
  | _ => false
  end.

Definition abs (s : pobj) : lstate :=
  if p_pid s =? 0 then LIdle
  else LRunning (p_pid s) (negb (p_out s =? 0)) (negb (p_err s =? 0)) (negb (p_in s =? 0)).

(* read(buffer, length) and write() are specified where their stream is open *)
Definition specified (st : lstate) (o : pop) : Prop :=
  match o, st with
  | PRead _, LRunning _ true _ _ => True
  | PRead _, _ => False
  | PWrite _, LRunning _ _ _ true => True
  | PWrite _, _ => False
  | _, _ => True
  end.

Lemma pinv_init : PInv [] pobj0 world0.
Proof.
  unfold PInv, fields. cbn. split; [reflexivity|]. split; [intro; reflexivity|]. split; [intros []|].
  split; [constructor|]. intros _. repeat split; reflexivity.
Qed.

Lemma fields_idle s : p_out s = 0 -> p_err s = 0 -> p_in s = 0 -> fields s = [].
Proof. intros H1 H2 H3. unfold fields. rewrite H1, H2, H3. reflexivity. Qed.

Lemma pinv_idle lost s w : PInv lost s w -> p_pid s = 0 ->
  fields s = [] /\ (forall fd, cnt (w_fds w) fd = cnt lost fd) /\ p_out s = 0 /\ p_err s = 0 /\ p_in s = 0.
Proof.
  intros [Hs [Hc [Hl [Hn Hz]]]] Hp. destruct (Hz Hp) as [H1 [H2 H3]].
  pose proof (fields_idle s H1 H2 H3) as Hf.
  split; [exact Hf|]. split; [intro fd; rewrite Hc, Hf; reflexivity|]. auto.
Qed.

Lemma flag_of_pair p a st bit :
  ((fst p = 0 /\ snd p = 0 /\ flag st bit = false) \/
   (flag st bit = true /\ fst p <> 0 /\ snd p <> 0 /\ fst p <> snd p /\ In (fst p) (nzl (nums a)) /\ In (snd p) (nzl (nums a)))) ->
  pair_ok p a /\ negb (fst p =? 0) = flag st bit /\ negb (snd p =? 0) = flag st bit.
Proof.
  intros [[H1 [H2 H3]]|[H1 [H2 [H3 [H4 [H5 H6]]]]]].
  - split; [left; auto|]. rewrite H1, H2, H3. split; reflexivity.
  - split; [right; auto|]. apply Z.eqb_neq in H2. apply Z.eqb_neq in H3. rewrite H1, H2, H3. split; reflexivity.
Qed.

Lemma no0_of_cnt (l L : list Z) : (forall fd, cnt l fd = cnt L fd) -> ~ In 0 L -> ~ In 0 l.
Proof. intros H Hn. apply cnt_notin. rewrite H. apply cnt_notin. exact Hn. Qed.

Lemma plist_no0 p a : pair_ok p a -> ~ In 0 (plist p).
Proof.
  unfold plist. intros [[H1 H2]|[H1 [H2 _]]].
  - rewrite H1. cbn [Z.eqb]. intros [].
  - apply Z.eqb_neq in H1 as E. rewrite E. intros [X|[X|[]]]; congruence.
Qed.

Lemma notin_app {A} (x : A) l1 l2 : ~ In x l1 -> ~ In x l2 -> ~ In x (l1 ++ l2).
Proof. intros H1 H2 X. apply in_app_or in X. tauto. Qed.

(* closing a duplicate-free list of held descriptors takes exactly those away *)
Lemma release L w lost fl : w_stray w = [] -> NoDup L ->
  (forall fd, cnt (w_fds w) fd = (cnt L fd + cnt fl fd + cnt lost fd)%nat) ->
  w_stray (closes L w) = [] /\ forall fd, cnt (w_fds (closes L w)) fd = (cnt fl fd + cnt lost fd)%nat.
Proof.
  intros Hs Hn Hc.
  destruct (closes_spec L w Hs Hn) as [S1 C1].
  - intros x Hx. apply cnt_in. rewrite Hc. apply cnt_in in Hx. lia.
  - split; [exact S1|]. intro fd. specialize (C1 fd). specialize (Hc fd). lia.
Qed.

Lemma p_open_ok lost st a1 a2 a3 vf s w : PInv lost s w -> p_pid s = 0 -> op_ok (POpen st a1 a2 a3 vf) ->
  exists lost',
    PInv lost' (snd (fst (p_open st a1 a2 a3 vf s w))) (snd (p_open st a1 a2 a3 vf s w)) /\
    (vf <> None -> lost' = lost) /\
    lstep LIdle (POpen st a1 a2 a3 vf) =
      (fst (fst (p_open st a1 a2 a3 vf s w)), abs (snd (fst (p_open st a1 a2 a3 vf s w)))).
Proof.
  intros HI Hp [Sh1 [Sh2 [Sh3 [Hnd Hvf]]]].
  destruct (pinv_idle lost s w HI Hp) as [Hfl [Hfds _]].
  destruct HI as [Hstray [_ [Hl0 [Hnf Hz]]]].
  assert (Habs : abs s = LIdle) by (unfold abs; rewrite Hp; reflexivity).
  (* a failed open that closes what it acquired leaves the object and (up to the log) the world as they were *)
  assert (Hfail : forall L w0, w_stray w0 = [] -> NoDup L -> (forall fd, cnt (w_fds w0) fd = (cnt L fd + cnt lost fd)%nat) ->
                               PInv lost s (closes L w0)).
  { intros L w0 S0 N0 C0. destruct (release L w0 lost [] S0 N0) as [S1 C1].
    - intro fd. rewrite C0, cnt_nil. lia.
    - split; [exact S1|]. split; [intro fd; rewrite C1, Hfl; reflexivity|]. auto. }
  unfold p_open. rewrite Hp. cbn [Z.eqb negb].
  cbn [lstep]. unfold pipes_granted.
  (* stdout *)
  assert (H0 : ~ In 0 (w_fds w)) by (apply (no0_of_cnt _ _ Hfds); exact Hl0).
  pose proof (want_pipe_spec st 1 a1 w Hstray H0 Sh1) as X1. cbn zeta in X1.
  destruct (want_pipe st 1 a1 w) as [w1 [po|]]; cbn [fst snd] in X1.
  2:{ destruct X1 as [S1 [K1 [F1 [G1 C1]]]]. cbn [fst snd]. rewrite F1, G1. cbn [negb orb andb].
      exists lost. rewrite Habs. split; [|split; [reflexivity|reflexivity]].
      rewrite open_error_closes. cbn [plist fst Z.eqb app].
      apply Hfail; [exact S1|constructor|]. intro fd. rewrite C1, Hfds. reflexivity. }
  destruct X1 as [S1 [K1 [G1 [P1 C1]]]].
  destruct (flag_of_pair po a1 st 1 P1) as [Pk1 [Fo1 Fo1']].
  assert (C1' : forall fd, cnt (w_fds w1) fd = cnt (plist po ++ lost) fd) by (intro fd; rewrite C1, Hfds, cnt_app; lia).
  assert (H01 : ~ In 0 (w_fds w1)) by (apply (no0_of_cnt _ _ C1'); apply notin_app; [apply (plist_no0 po a1 Pk1)|exact Hl0]).
  (* stderr *)
  pose proof (want_pipe_spec st 2 a2 w1 S1 H01 Sh2) as X2. cbn zeta in X2.
  destruct (plist_nodup po a1 Pk1) as [N1 I1].
  destruct (want_pipe st 2 a2 w1) as [w2 [pe|]]; cbn [fst snd] in X2.
  2:{ destruct X2 as [S2 [K2 [F2 [G2 C2]]]]. cbn [fst snd]. rewrite G1, F2, G2. cbn [negb orb andb].
      exists lost. rewrite Habs. split; [|split; [reflexivity|reflexivity]].
      rewrite open_error_closes. cbn [plist fst Z.eqb app]. rewrite app_nil_r.
      apply Hfail; [exact S2|exact N1|]. intro fd. rewrite C2, C1', cnt_app. reflexivity. }
  destruct X2 as [S2 [K2 [G2 [P2 C2]]]].
  destruct (flag_of_pair pe a2 st 2 P2) as [Pk2 [Fo2 Fo2']].
  destruct (plist_nodup pe a2 Pk2) as [N2 I2].
  assert (C2' : forall fd, cnt (w_fds w2) fd = cnt ((plist po ++ plist pe) ++ lost) fd)
    by (intro fd; rewrite C2, C1', !cnt_app; lia).
  assert (H02 : ~ In 0 (w_fds w2)).
  { apply (no0_of_cnt _ _ C2'). repeat apply notin_app; [apply (plist_no0 po a1 Pk1)|apply (plist_no0 pe a2 Pk2)|exact Hl0]. }
  (* stdin *)
  pose proof (want_pipe_spec st 4 a3 w2 S2 H02 Sh3) as X3. cbn zeta in X3.
  assert (N12 : NoDup (plist po ++ plist pe)).
  { apply (nodup_app_sub (nzl (nums a1)) (nzl (nums a2))); auto.
    rewrite app_assoc in Hnd. clear - Hnd.
    induction (nzl (nums a1) ++ nzl (nums a2)) as [|x l IH]; [constructor|].
    cbn [app] in Hnd. inversion Hnd as [|a b Hx Hd]; subst. constructor; [|apply IH; exact Hd].
    intro X. apply Hx. apply in_or_app. left. exact X. }
  destruct (want_pipe st 4 a3 w2) as [w3 [pi|]]; cbn [fst snd] in X3.
  2:{ destruct X3 as [S3 [K3 [F3 [G3 C3]]]]. cbn [fst snd]. rewrite G1, G2, F3, G3. cbn [negb orb andb].
      exists lost. rewrite Habs. split; [|split; [reflexivity|reflexivity]].
      rewrite open_error_closes. cbn [plist fst Z.eqb app]. rewrite app_nil_r.
      apply Hfail; [exact S3|exact N12|]. intro fd. rewrite C3, C2', cnt_app. reflexivity. }
  destruct X3 as [S3 [K3 [G3 [P3 C3]]]].
  destruct (flag_of_pair pi a3 st 4 P3) as [Pk3 [Fo3 Fo3']].
  destruct (plist_nodup pi a3 Pk3) as [N3 I3].
  set (L := plist po ++ plist pe ++ plist pi).
  assert (C3' : forall fd, cnt (w_fds w3) fd = (cnt L fd + cnt lost fd)%nat)
    by (intro fd; unfold L; rewrite C3, C2', !cnt_app; lia).
  assert (NL : NoDup L).
  { unfold L. rewrite app_assoc. apply (nodup_app_sub (nzl (nums a1) ++ nzl (nums a2)) (nzl (nums a3))); auto.
    - rewrite <- app_assoc. exact Hnd.
    - intros x Hx. apply in_app_or in Hx. apply in_or_app. destruct Hx as [Hx|Hx]; [left; apply I1|right; apply I2]; exact Hx. }
  rewrite G1, G2, G3. cbn [andb].
  destruct vf as [pid|]; cbn [fst snd].
  - (* the process runs: the far ends are closed, the near ends are the fields *)
    set (w4 := set_kids (w_kids w3 ++ [pid]) (emit (KVfork pid) w3)).
    rewrite !close_nz_closes, <- !closes_app.
    set (C := nzl [snd po] ++ nzl [snd pe] ++ nzl [fst pi]).
    set (s' := {| p_pid := pid; p_out := fst po; p_err := fst pe; p_in := snd pi |}).
    assert (HL : forall fd, cnt L fd = (cnt (fields s') fd + cnt C fd)%nat).
    { intro fd. unfold L, C, fields, s'. cbn [p_out p_err p_in]. rewrite nzl3, !cnt_app.
      rewrite (plist_split po a1 fd Pk1), (plist_split pe a2 fd Pk2), (plist_split pi a3 fd Pk3). lia. }
    assert (NC : NoDup C) by (apply (nodup_cnt_le C L NL); intro x; rewrite HL; lia).
    destruct (release C w4 lost (fields s') S3 NC) as [S4 C4].
    + intro fd. change (w_fds w4) with (w_fds w3). rewrite C3', HL. lia.
    + exists lost. split; [|split; [reflexivity|]].
      * split; [exact S4|]. split; [exact C4|]. split; [exact Hl0|].
        split; [apply (nodup_cnt_le _ L NL); intro x; rewrite HL; lia|].
        cbn [p_pid s']. intro; contradiction.
      * unfold abs, s'. cbn [p_pid p_out p_err p_in]. apply Z.eqb_neq in Hvf. rewrite Hvf.
        rewrite Fo1, Fo2, Fo3'. reflexivity.
  - (* noted: vfork failed, the pipes stay open and nothing refers to them *)
    exists (L ++ lost). rewrite Habs. split; [|split; [intro X; contradiction|reflexivity]].
    split; [exact S3|]. split; [intro fd; change (w_fds (emit KVforkFail w3)) with (w_fds w3); rewrite C3', Hfl, cnt_app; reflexivity|].
    split; [|auto]. unfold L. repeat apply notin_app;
      [apply (plist_no0 po a1 Pk1)|apply (plist_no0 pe a2 Pk2)|apply (plist_no0 pi a3 Pk3)|exact Hl0].
Qed.

Lemma abs_idle s : p_pid s = 0 -> abs s = LIdle.
Proof. intro H. unfold abs. rewrite H. reflexivity. Qed.

Lemma abs_running s : p_pid s <> 0 ->
  abs s = LRunning (p_pid s) (negb (p_out s =? 0)) (negb (p_err s =? 0)) (negb (p_in s =? 0)).
Proof. intro H. unfold abs. apply Z.eqb_neq in H. rewrite H. reflexivity. Qed.

(* join / kill after the kernel delivered the child: everything still open is closed, nothing else *)
Lemma reap_ok lost s w (w1 : world) : PInv lost s w -> w_fds w1 = w_fds w -> w_stray w1 = w_stray w ->
  PInv lost (set_pid 0 (fst (close_all s w1))) (snd (close_all s w1)).
Proof.
  intros [Hs [Hc [Hl [Hn Hz]]]] E1 E2. rewrite close_all_closes.
  destruct (release (fields s) w1 lost [] ltac:(rewrite E2; exact Hs) Hn) as [S1 C1].
  - intro fd. rewrite E1, Hc, cnt_nil. lia.
  - split; [exact S1|]. split; [intro fd; rewrite C1; reflexivity|]. split; [exact Hl|].
    split; [constructor|]. intros _. repeat split; reflexivity.
Qed.

Definition sel (st bit x : Z) : Z := if flag st bit then x else 0.
Definition keep (st bit x : Z) : Z := if flag st bit then 0 else x.

Lemma p_close_shape st s w :
  p_close st s w = (RUnit, {| p_pid := p_pid s; p_out := keep st 1 (p_out s); p_err := keep st 2 (p_err s); p_in := keep st 4 (p_in s) |},
                    closes (nzl [sel st 4 (p_in s); sel st 1 (p_out s); sel st 2 (p_err s)]) w).
Proof.
  unfold p_close, sel, keep. rewrite !nzl_cons. unfold nzl. cbn [filter].
  destruct (flag st 4), (flag st 1), (flag st 2); cbn [andb];
    destruct (p_in s =? 0) eqn:E4, (p_out s =? 0) eqn:E1, (p_err s =? 0) eqn:E2; cbn [negb];
    try (apply Z.eqb_eq in E4; rewrite E4); try (apply Z.eqb_eq in E1; rewrite E1); try (apply Z.eqb_eq in E2; rewrite E2);
    reflexivity.
Qed.

Lemma sel_keep st bit x fd : cnt (nzl [x]) fd = (cnt (nzl [keep st bit x]) fd + cnt (nzl [sel st bit x]) fd)%nat.
Proof.
  assert (E0 : nzl [0] = []) by reflexivity.
  unfold sel, keep. destruct (flag st bit); rewrite E0, cnt_nil; lia.
Qed.

Lemma keep_open st bit x : negb (keep st bit x =? 0) = negb (x =? 0) && negb (flag st bit).
Proof. unfold keep. destruct (flag st bit); cbn [negb andb Z.eqb]; [rewrite andb_false_r|rewrite andb_true_r]; reflexivity. Qed.

Lemma pinv_same lost s w w' : PInv lost s w -> w_fds w' = w_fds w -> w_stray w' = w_stray w -> PInv lost s w'.
Proof. intros [Hs [Hc [Hl [Hn Hz]]]] E1 E2. unfold PInv. rewrite E1, E2. auto. Qed.

Theorem pstep_ok lost o s w : PInv lost s w -> op_ok o ->
  exists lost',
    PInv lost' (snd (fst (pstep o s w))) (snd (pstep o s w)) /\
    (may_leak o = false -> lost' = lost) /\
    (specified (abs s) o -> lstep (abs s) o = (fst (fst (pstep o s w)), abs (snd (fst (pstep o s w))))).
Proof.
  intros HI Hok.
  destruct (Z.eq_dec (p_pid s) 0) as [Hp|Hp].
  - (* no process *)
    pose proof (abs_idle s Hp) as Ha. rewrite Ha.
    destruct (pinv_idle lost s w HI Hp) as [Hfl [Hfds [Ho [He Hi]]]].
    destruct o; cbn [pstep].
    + destruct (p_open_ok lost streams a_out a_err a_in vf s w HI Hp Hok) as [l' [H1 [H2 H3]]].
      exists l'. split; [exact H1|]. split; [|intros _; exact H3].
      cbn [may_leak]. destruct vf; [intros _; apply H2; discriminate|discriminate].
    + unfold p_start. rewrite Hp. cbn [Z.eqb negb]. destruct vf as [pid|]; cbn [fst snd].
      * exists lost. split; [|split; [reflexivity|]].
        -- destruct HI as [Hs [Hc [Hl [Hn Hz]]]]. split; [exact Hs|]. split; [exact Hc|]. split; [exact Hl|].
           split; [exact Hn|]. cbn [p_pid]. cbn [op_ok] in Hok. intro; contradiction.
        -- intros _. cbn [lstep]. unfold abs. cbn [p_pid p_out p_err p_in]. cbn [op_ok] in Hok.
           apply Z.eqb_neq in Hok. rewrite Hok, Ho, He, Hi. reflexivity.
      * exists lost. split; [|split; [reflexivity|intros _; cbn [lstep]; rewrite Ha; reflexivity]].
        apply (pinv_same lost s w); [exact HI|reflexivity|reflexivity].
    + unfold p_join. rewrite Hp. cbn [Z.eqb fst snd]. exists lost. rewrite Ha. split; [exact HI|]. split; [reflexivity|intros _; reflexivity].
    + unfold p_kill. rewrite Hp. cbn [Z.eqb fst snd]. exists lost. rewrite Ha. split; [exact HI|]. split; [reflexivity|intros _; reflexivity].
    + rewrite p_close_shape. cbn [fst snd]. unfold sel, keep. rewrite Ho, He, Hi.
      exists lost. split; [|split; [reflexivity|]].
      * assert (E : nzl [if flag streams 4 then 0 else 0; if flag streams 1 then 0 else 0; if flag streams 2 then 0 else 0] = [])
          by (destruct (flag streams 4), (flag streams 1), (flag streams 2); reflexivity).
        rewrite E. cbn [closes fold_left].
        destruct HI as [Hs [Hc [Hl [Hn Hz]]]]. split; [exact Hs|]. split.
        { intro fd. rewrite Hc, Hfl. unfold fields. cbn [p_out p_err p_in].
          destruct (flag streams 4), (flag streams 1), (flag streams 2); reflexivity. }
        split; [exact Hl|]. split.
        { unfold fields. cbn [p_out p_err p_in]. destruct (flag streams 4), (flag streams 1), (flag streams 2); constructor. }
        cbn [p_pid p_out p_err p_in]. intros _. destruct (flag streams 4), (flag streams 1), (flag streams 2); auto.
      * intros _. cbn [lstep]. unfold abs. cbn [p_pid]. rewrite Hp. reflexivity.
    + cbn [specified]. exists lost. split; [|split; [reflexivity|intros []]].
      unfold p_read. cbn [fst snd]. apply (pinv_same lost s w); [exact HI|reflexivity|reflexivity].
    + unfold p_read2. rewrite Ho, He. cbn [Z.eqb negb]. rewrite !andb_false_r. cbn [orb negb fst snd].
      exists lost. rewrite Ha. split; [exact HI|]. split; [reflexivity|intros _; reflexivity].
    + cbn [specified]. exists lost. split; [|split; [reflexivity|intros []]].
      unfold p_write. cbn [fst snd]. apply (pinv_same lost s w); [exact HI|reflexivity|reflexivity].
    + cbn [fst snd]. exists lost. rewrite Hp, Ha. cbn [Z.eqb negb lstep]. split; [exact HI|]. split; [reflexivity|intros _; reflexivity].
    + unfold p_destroy, p_join. rewrite Hp. cbn [Z.eqb fst snd]. exists lost.
      split; [|split; [reflexivity|intros _; reflexivity]].
      destruct HI as [Hs [Hc [Hl [Hn Hz]]]]. split; [exact Hs|]. split; [intro fd; rewrite Hc, Hfl; reflexivity|].
      split; [exact Hl|]. split; [constructor|]. intros _. repeat split; reflexivity.
  - (* a process is running *)
    pose proof (abs_running s Hp) as Ha. rewrite Ha.
    assert (Hpb : (p_pid s =? 0) = false) by (apply Z.eqb_neq; exact Hp).
    destruct o; cbn [pstep].
    + unfold p_open. rewrite Hpb. cbn [negb fst snd]. exists lost. rewrite Ha.
      split; [exact HI|]. split; [reflexivity|]. intros _. reflexivity.
    + unfold p_start. rewrite Hpb. cbn [negb fst snd]. exists lost. rewrite Ha.
      split; [exact HI|]. split; [reflexivity|]. intros _. reflexivity.
    + unfold p_join. rewrite Hpb. destruct wt as [status|].
      * set (w1 := set_kids _ _).
        pose proof (reap_ok lost s w w1 HI eq_refl eq_refl) as X.
        destruct (close_all s w1) as [s1 w2] eqn:E. cbn [fst snd] in *.
        exists lost. split; [exact X|]. split; [reflexivity|]. intros _. cbn [lstep].
        unfold close_all in E. inversion E; subst. reflexivity.
      * cbn [fst snd]. exists lost. rewrite Ha. split; [|split; [reflexivity|intros _; reflexivity]].
        apply (pinv_same lost s w); [exact HI|reflexivity|reflexivity].
    + unfold p_kill. rewrite Hpb. destruct wt as [status|].
      * set (w1 := set_kids _ _).
        pose proof (reap_ok lost s w w1 HI eq_refl eq_refl) as X.
        destruct (close_all s w1) as [s1 w2] eqn:E. cbn [fst snd] in *.
        exists lost. split; [exact X|]. split; [reflexivity|]. intros _. cbn [lstep].
        unfold close_all in E. inversion E; subst. reflexivity.
      * cbn [fst snd]. exists lost. rewrite Ha. split; [|split; [reflexivity|intros _; reflexivity]].
        apply (pinv_same lost s w); [exact HI|reflexivity|reflexivity].
    + rewrite p_close_shape. cbn [fst snd].
      set (C := nzl [sel streams 4 (p_in s); sel streams 1 (p_out s); sel streams 2 (p_err s)]).
      set (s' := {| p_pid := p_pid s; p_out := keep streams 1 (p_out s); p_err := keep streams 2 (p_err s); p_in := keep streams 4 (p_in s) |}).
      destruct HI as [Hs [Hc [Hl [Hn Hz]]]].
      assert (HF : forall fd, cnt (fields s) fd = (cnt (fields s') fd + cnt C fd)%nat).
      { intro fd. unfold fields, C, s'. cbn [p_out p_err p_in]. rewrite !nzl3.
        rewrite (sel_keep streams 1 (p_out s) fd), (sel_keep streams 2 (p_err s) fd), (sel_keep streams 4 (p_in s) fd). lia. }
      assert (NC : NoDup C) by (apply (nodup_cnt_le C (fields s) Hn); intro x; rewrite HF; lia).
      destruct (release C w lost (fields s') Hs NC) as [S1 C1].
      { intro fd. rewrite Hc, HF. lia. }
      exists lost. split; [|split; [reflexivity|]].
      * split; [exact S1|]. split; [exact C1|]. split; [exact Hl|].
        split; [apply (nodup_cnt_le _ (fields s) Hn); intro x; rewrite HF; lia|].
        cbn [p_pid s']. intro; contradiction.
      * intros _. cbn [lstep]. unfold abs, s'. cbn [p_pid p_out p_err p_in]. rewrite Hpb.
        rewrite !keep_open. reflexivity.
    + unfold p_read. cbn [fst snd]. exists lost. split; [|split; [reflexivity|]].
      * apply (pinv_same lost s w); [exact HI|reflexivity|reflexivity].
      * cbn [specified lstep]. destruct (negb (p_out s =? 0)); [intros _; rewrite Ha; reflexivity|intros []].
    + unfold p_read2. cbn [lstep].
      rewrite (andb_comm (flag streams 1)), (andb_comm (flag streams 2)).
      destruct (negb (negb (p_out s =? 0) && flag streams 1 || negb (p_err s =? 0) && flag streams 2)).
      * cbn [fst snd]. exists lost. rewrite Ha. split; [exact HI|]. split; [reflexivity|intros _; reflexivity].
      * destruct (negb (p_out s =? 0) && flag streams 1 && flag ready 1).
        -- cbn [fst snd]. exists lost. rewrite Ha. split; [|split; [reflexivity|intros _; reflexivity]].
           apply (pinv_same lost s w); [exact HI|reflexivity|reflexivity].
        -- destruct (negb (p_err s =? 0) && flag streams 2 && flag ready 2); cbn [fst snd]; exists lost; rewrite Ha;
             (split; [|split; [reflexivity|intros _; reflexivity]]); (apply (pinv_same lost s w); [exact HI|reflexivity|reflexivity]).
    + unfold p_write. cbn [fst snd]. exists lost. split; [|split; [reflexivity|]].
      * apply (pinv_same lost s w); [exact HI|reflexivity|reflexivity].
      * cbn [specified lstep]. destruct (negb (p_in s =? 0)); [intros _; rewrite Ha; reflexivity|intros []].
    + cbn [fst snd]. exists lost. rewrite Hpb, Ha. cbn [negb lstep]. split; [exact HI|]. split; [reflexivity|intros _; reflexivity].
    + unfold p_destroy, p_join. rewrite Hpb. destruct wt as [status|].
      * set (w1 := set_kids _ _).
        pose proof (reap_ok lost s w w1 HI eq_refl eq_refl) as X.
        destruct (close_all s w1) as [s1 w2] eqn:E. cbn [fst snd] in *.
        exists lost. split; [|split; [reflexivity|intros _; reflexivity]].
        destruct X as [Hs [Hc [Hl [Hn Hz]]]].
        assert (Ef : fields (set_pid 0 s1) = []) by (unfold close_all in E; inversion E; subst; reflexivity).
        split; [exact Hs|]. split; [intro fd; rewrite Hc, Ef; reflexivity|]. split; [exact Hl|].
        split; [constructor|]. intros _. repeat split; reflexivity.
      * (* noted: the join failed; the object is gone, its descriptors are not *)
        cbn [fst snd]. exists (fields s ++ lost). split; [|split; [discriminate|intros _; reflexivity]].
        destruct HI as [Hs [Hc [Hl [Hn Hz]]]].
        split; [exact Hs|]. split; [intro fd; change (w_fds (emit _ w)) with (w_fds w); rewrite Hc, cnt_app; reflexivity|].
        split; [apply notin_app; [apply nzl_no0|exact Hl]|]. split; [constructor|]. intros _. repeat split; reflexivity.
Qed.

(* ---------------------------------------------------------------------------------------- *)
(* 4. Histories                                                                             *)
(* ---------------------------------------------------------------------------------------- *)
Fixpoint lrun (ops : list pop) (st : lstate) : list pres * lstate :=
  match ops with
  | [] => ([], st)
  | o :: t => let (r, st1) := lstep st o in let (rs, st2) := lrun t st1 in (r :: rs, st2)
  end.

Fixpoint all_specified (ops : list pop) (st : lstate) : Prop :=
  match ops with
  | [] => True
  | o :: t => specified st o /\ all_specified t (snd (lstep st o))
  end.

Definition clean (ops : list pop) : bool := forallb (fun o => negb (may_leak o)) ops.

Lemma prun_cons o t s w :
  prun (o :: t) s w =
  (fst (fst (pstep o s w)) :: fst (fst (prun t (snd (fst (pstep o s w))) (snd (pstep o s w)))),
   snd (fst (prun t (snd (fst (pstep o s w))) (snd (pstep o s w)))),
   snd (prun t (snd (fst (pstep o s w))) (snd (pstep o s w)))).
Proof.
  cbn [prun]. destruct (pstep o s w) as [[r s1] w1]. cbn [fst snd].
  destruct (prun t s1 w1) as [[rs s2] w2]. reflexivity.
Qed.

Lemma prun_ok ops : forall lost s w, PInv lost s w -> Forall op_ok ops ->
  exists lost', PInv lost' (snd (fst (prun ops s w))) (snd (prun ops s w)) /\ (clean ops = true -> lost' = lost).
Proof.
  induction ops as [|o t IH]; intros lost s w HI Hok.
  - exists lost. split; [exact HI|reflexivity].
  - inversion Hok as [|a b Ho Ht]; subst.
    destruct (pstep_ok lost o s w HI Ho) as [l1 [H1 [L1 _]]].
    destruct (IH l1 _ _ H1 Ht) as [l2 [H2 L2]].
    exists l2. rewrite prun_cons. cbn [fst snd]. split; [exact H2|].
    cbn [clean forallb]. intro C. apply andb_true_iff in C. destruct C as [C1 C2].
    apply negb_true_iff in C1. rewrite (L2 C2). apply L1. exact C1.
Qed.

Lemma prun_refines ops : forall lost s w, PInv lost s w -> Forall op_ok ops -> all_specified ops (abs s) ->
  lrun ops (abs s) = (fst (fst (prun ops s w)), abs (snd (fst (prun ops s w)))).
Proof.
  induction ops as [|o t IH]; intros lost s w HI Hok Hsp; [reflexivity|].
  inversion Hok as [|a b Ho Ht]; subst. destruct Hsp as [Hs1 Hs2].
  destruct (pstep_ok lost o s w HI Ho) as [l1 [H1 [_ R1]]]. specialize (R1 Hs1).
  rewrite prun_cons. cbn [lrun fst snd]. rewrite R1 in *. cbn [snd] in Hs2.
  rewrite (IH l1 _ _ H1 Ht Hs2). reflexivity.
Qed.

Lemma acc_prun ops : forall s w, Acc w -> Acc (snd (prun ops s w)).
Proof.
  induction ops as [|o t IH]; intros s w H; [exact H|].
  rewrite prun_cons. cbn [snd]. apply IH. apply acc_pstep. exact H.
Qed.

(* the state of affairs after any history on which nothing got lost *)
Lemma settled lost s w : PInv lost s w -> lost = [] -> Acc w ->
  w_stray w = [] /\
  Permutation (w_fds w) (fields s) /\
  length (w_fds w) = lheld (abs s) /\
  (p_pid s = 0 -> w_fds w = []) /\
  forall fd, times_opened (w_log w) fd = (times_closed (w_log w) fd + cnt (fields s) fd)%nat.
Proof.
  intros [Hs [Hc [Hl [Hn Hz]]]] E HA. subst lost.
  assert (Hc' : forall fd, cnt (w_fds w) fd = cnt (fields s) fd) by (intro fd; rewrite Hc, cnt_nil; lia).
  assert (HP : Permutation (w_fds w) (fields s)) by (apply (Permutation_count_occ Z.eq_dec); exact Hc').
  split; [exact Hs|]. split; [exact HP|]. split.
  - rewrite (Permutation_length HP). unfold abs, fields.
    destruct (p_pid s =? 0) eqn:Ep.
    + apply Z.eqb_eq in Ep. destruct (Hz Ep) as [H1 [H2 H3]]. rewrite H1, H2, H3. reflexivity.
    + cbn [lheld]. rewrite !nzl_cons. unfold nzl. cbn [filter].
      destruct (p_out s =? 0), (p_err s =? 0), (p_in s =? 0); reflexivity.
  - split.
    + intro Hp. destruct (Hz Hp) as [H1 [H2 H3]]. apply cnt_all0_nil. intro x. rewrite Hc', (fields_idle s H1 H2 H3). reflexivity.
    + intro fd. specialize (HA fd). rewrite Hs, cnt_nil, Hc' in HA. lia.
Qed.

(* ---- the statements of Properties_C20 ---- *)

(* never a close() on a descriptor the object does not hold - whatever the kernel answers *)
Lemma no_double_close ops : Forall op_ok ops -> w_stray (snd (prun ops pobj0 world0)) = [].
Proof.
  intro Hok. destruct (prun_ok ops [] pobj0 world0 pinv_init Hok) as [l [[Hs _] _]]. exact Hs.
Qed.

Lemma closed_exactly_once ops wt : Forall op_ok ops -> clean ops = true -> (wt <> None \/ p_pid (snd (fst (prun ops pobj0 world0))) = 0) ->
  let w := snd (prun (ops ++ [PDestroy wt]) pobj0 world0) in
  w_fds w = [] /\ w_stray w = [] /\ forall fd, times_opened (w_log w) fd = times_closed (w_log w) fd.
Proof.
  intros Hok Hcl Hwt.
  destruct (prun_ok ops [] pobj0 world0 pinv_init Hok) as [l [HI Hl]]. specialize (Hl Hcl). subst l.
  pose proof (acc_prun ops pobj0 world0 acc_world0) as HA.
  set (s1 := snd (fst (prun ops pobj0 world0))) in *. set (w1 := snd (prun ops pobj0 world0)) in *.
  assert (E : snd (prun (ops ++ [PDestroy wt]) pobj0 world0) = snd (pstep (PDestroy wt) s1 w1)).
  { clear. unfold s1, w1. generalize pobj0 world0. induction ops as [|o t IH]; intros s w.
    - cbn [app]. rewrite prun_cons. reflexivity.
    - cbn [app]. rewrite !prun_cons. cbn [fst snd]. apply IH. }
  cbn zeta. rewrite E.
  assert (Es : snd (fst (pstep (PDestroy wt) s1 w1)) = pobj0).
  { cbn [pstep]. unfold p_destroy. destruct (p_join wt s1 w1) as [[r s2] w2]. reflexivity. }
  destruct (pstep_ok [] (PDestroy wt) s1 w1 HI I) as [l2 [H2 [L2 _]]].
  assert (El : l2 = []).
  { destruct Hwt as [Hwt|Hwt].
    - apply L2. destruct wt; [reflexivity|contradiction].
    - (* no process: the destructor touches nothing *)
      destruct wt; [apply L2; reflexivity|].
      destruct (pinv_idle [] s1 w1 HI Hwt) as [Hf [Hc _]].
      destruct H2 as [_ [Hc2 _]]. rewrite Es in Hc2.
      assert (Ew : snd (pstep (PDestroy None) s1 w1) = w1).
      { cbn [pstep]. unfold p_destroy, p_join. rewrite Hwt. reflexivity. }
      rewrite Ew in Hc2. apply cnt_all0_nil. intro x. specialize (Hc2 x). rewrite Hc in Hc2.
      unfold fields in Hc2. cbn in Hc2. lia. }
  subst l2. rewrite Es in H2.
  destruct (settled [] pobj0 _ H2 eq_refl (acc_pstep (PDestroy wt) s1 w1 HA)) as [S1 [_ [_ [F1 A1]]]].
  split; [apply F1; reflexivity|]. split; [exact S1|].
  intro fd. rewrite (A1 fd). unfold fields. cbn. lia.
Qed.

(* at every moment of a history without the two leaking events: one descriptor per open stream *)
Lemma holds_one_per_stream ops : Forall op_ok ops -> clean ops = true ->
  let s := snd (fst (prun ops pobj0 world0)) in
  let w := snd (prun ops pobj0 world0) in
  length (w_fds w) = lheld (abs s) /\ Permutation (w_fds w) (fields s) /\ (p_pid s = 0 -> w_fds w = []).
Proof.
  intros Hok Hcl.
  destruct (prun_ok ops [] pobj0 world0 pinv_init Hok) as [l [HI Hl]]. specialize (Hl Hcl). subst l.
  destruct (settled [] _ _ HI eq_refl (acc_prun ops pobj0 world0 acc_world0)) as [_ [P [L [F _]]]].
  cbn zeta. auto.
Qed.

Lemma refines_lifecycle ops : Forall op_ok ops -> all_specified ops LIdle ->
  lrun ops LIdle = (fst (fst (prun ops pobj0 world0)), abs (snd (fst (prun ops pobj0 world0)))).
Proof. intros Hok Hsp. exact (prun_refines ops [] pobj0 world0 pinv_init Hok Hsp). Qed.

(* join on a running process whose child the kernel delivers *)
Lemma join_exit_code lost s w status : PInv lost s w -> p_pid s <> 0 ->
  fst (fst (pstep (PJoin (Some status)) s w)) = RJoin (wexit status) /\
  abs (snd (fst (pstep (PJoin (Some status)) s w))) = LIdle /\
  PInv lost (snd (fst (pstep (PJoin (Some status)) s w))) (snd (pstep (PJoin (Some status)) s w)).
Proof.
  intros HI Hp. destruct (pstep_ok lost (PJoin (Some status)) s w HI I) as [l [H1 [L1 R1]]].
  specialize (L1 eq_refl). subst l. specialize (R1 I).
  rewrite (abs_running s Hp) in R1. cbn [lstep] in R1. inversion R1 as [[Ea Eb]].
  split; [symmetry; exact Ea|]. split; [symmetry; exact Eb|exact H1].
Qed.

Lemma wexit_code c : 0 <= c < 256 -> wexit (c * 256) = c.
Proof. intro H. unfold wexit. rewrite Z.div_mul by lia. apply Z.mod_small. exact H. Qed.

Lemma wexit_signal sg : 0 <= sg < 256 -> wexit sg = 0.
Proof. intro H. unfold wexit. rewrite Z.div_small by lia. reflexivity. Qed.

(* round 5: only a child that exited has an exit code (ProcSpec.wifexited / join_code_specified) *)
Lemma wifexited_code c : wifexited (c * 256) = true.
Proof.
  unfold wifexited. change 127 with (Z.ones 7). rewrite Z.land_ones by lia.
  replace (c * 256) with (c * 2 * 2 ^ 7) by lia. rewrite Z_mod_mult. reflexivity.
Qed.

Lemma wifexited_signal sg : 0 < sg < 128 -> wifexited sg = false.
Proof.
  intro H. unfold wifexited. change 127 with (Z.ones 7). rewrite Z.land_ones by lia.
  rewrite Z.mod_small by lia. apply Z.eqb_neq. lia.
Qed.

Lemma join_exit_code_exited lost s w c : PInv lost s w -> p_pid s <> 0 -> 0 <= c < 256 ->
  join_code_specified (PJoin (Some (c * 256))) = true /\
  fst (fst (pstep (PJoin (Some (c * 256))) s w)) = RJoin c.
Proof.
  intros HI Hp Hc. split; [apply wifexited_code|].
  destruct (join_exit_code lost s w (c * 256) HI Hp) as [H _]. rewrite H, (wexit_code c Hc). reflexivity.
Qed.

Lemma join_signalled_unspecified sg core : 0 < sg < 128 -> (core = 0 \/ core = 128) ->
  join_code_specified (PJoin (Some (sg + core))) = false.
Proof.
  intros H Hc. cbn [join_code_specified]. unfold wifexited. change 127 with (Z.ones 7). rewrite Z.land_ones by lia.
  apply Z.eqb_neq. destruct Hc; subst core.
  - rewrite Z.add_0_r, Z.mod_small by lia. lia.
  - replace (sg + 128) with (sg + 1 * 2 ^ 7) by lia. rewrite Z_mod_plus_full, Z.mod_small by lia. lia.
Qed.

(* operations on an object without a process: refused, nothing changes, no system call is made *)
Lemma idle_refuses lost s w o : PInv lost s w -> p_pid s = 0 ->
  match o with PJoin _ | PKill _ | PRead2 _ _ _ => True | _ => False end ->
  pstep o s w = (RRefused, s, w).
Proof.
  intros HI Hp Ho. destruct (pinv_idle lost s w HI Hp) as [_ [_ [H1 [H2 H3]]]].
  destruct o; try contradiction; cbn [pstep].
  - unfold p_join. rewrite Hp. reflexivity.
  - unfold p_kill. rewrite Hp. reflexivity.
  - unfold p_read2. rewrite H1, H2. cbn [Z.eqb negb]. rewrite !andb_false_r. reflexivity.
Qed.

Lemma idle_close_is_noop lost s w st : PInv lost s w -> p_pid s = 0 -> pstep (PClose st) s w = (RUnit, s, w).
Proof.
  intros HI Hp. destruct (pinv_idle lost s w HI Hp) as [_ [_ [H1 [H2 H3]]]].
  cbn [pstep]. unfold p_close. rewrite H1, H2, H3. cbn [Z.eqb negb]. rewrite !andb_false_r.
  destruct s as [pid o e i]. cbn [p_pid p_out p_err p_in] in *. subst. reflexivity.
Qed.

(* open/start on an object whose process runs: refused, nothing changes, no system call is made *)
Lemma running_refuses s w o : p_pid s <> 0 ->
  match o with POpen _ _ _ _ _ | PStart _ => True | _ => False end ->
  pstep o s w = (RRefused, s, w).
Proof.
  intros Hp Ho. apply Z.eqb_neq in Hp.
  destruct o; try contradiction; cbn [pstep].
  - unfold p_open. rewrite Hp. reflexivity.
  - unfold p_start. rewrite Hp. reflexivity.
Qed.

(* a failed join/kill (waitpid failed) changes nothing but the log: it can be retried *)
Lemma failed_wait_keeps s w : p_pid s <> 0 ->
  pstep (PJoin None) s w = (RBool false, s, emit (KWait (p_pid s) None) w) /\
  pstep (PKill None) s w = (RBool false, s, emit (KWait (p_pid s) None) (emit (KKill (p_pid s)) w)).
Proof.
  intro Hp. apply Z.eqb_neq in Hp. cbn [pstep]. unfold p_join, p_kill. rewrite Hp. split; reflexivity.
Qed.

(* noted (outside the statement of the property): what the code does on the four paths of fixes/C20/08..11 *)
Lemma read_write_without_stream_use_descriptor_zero lost s w ans : PInv lost s w -> p_pid s = 0 ->
  pstep (PRead ans) s w = (RIo ans, s, emit (KRead 0) w) /\
  pstep (PWrite ans) s w = (RIo ans, s, emit (KWrite 0) w).
Proof.
  intros HI Hp. destruct (pinv_idle lost s w HI Hp) as [_ [_ [H1 [H2 H3]]]].
  cbn [pstep]. unfold p_read, p_write. rewrite H1, H3. split; reflexivity.
Qed.

(* ---- the two noted paths lose descriptors: the unconditional statement is false ---- *)
Definition pa_pair (r x : Z) : pipe_ans := {| pa_res := Some (r, x); pa_dup := None |}.
Definition pa_none : pipe_ans := {| pa_res := None; pa_dup := None |}.
Definition pa_zero (x d : Z) : pipe_ans := {| pa_res := Some (0, x); pa_dup := Some d |}.    (* read end on descriptor 0 *)

Definition ex_open7 (vf : option Z) : pop := POpen 7 (pa_pair 3 4) (pa_pair 5 6) (pa_pair 7 8) vf.

Lemma ex_open7_ok vf : (match vf with Some p => p <> 0 | None => True end) -> op_ok (ex_open7 vf).
Proof.
  intro H. cbn. repeat split; try discriminate; try exact H.
  repeat (constructor; [cbn; intuition discriminate|]). constructor.
Qed.

Lemma leak_when_vfork_fails :
  exists ops wt, Forall op_ok ops /\ wt <> None /\
    w_fds (snd (prun (ops ++ [PDestroy wt]) pobj0 world0)) = [3; 4; 5; 6; 7; 8] /\
    w_stray (snd (prun (ops ++ [PDestroy wt]) pobj0 world0)) = [].
Proof.
  exists [ex_open7 None], (Some 0). split; [constructor; [apply ex_open7_ok; exact I|constructor]|].
  split; [discriminate|]. split; vm_compute; reflexivity.
Qed.

Lemma leak_when_destructor_join_fails :
  exists ops, Forall op_ok ops /\ clean ops = true /\
    w_fds (snd (prun (ops ++ [PDestroy None]) pobj0 world0)) = [3; 5; 8] /\
    w_stray (snd (prun (ops ++ [PDestroy None]) pobj0 world0)) = [].
Proof.
  exists [ex_open7 (Some 4242)]. split; [constructor; [apply ex_open7_ok; discriminate|constructor]|].
  split; [reflexivity|]. split; vm_compute; reflexivity.
Qed.

(* ---------------------------------------------------------------------------------------- *)
(* 6. The property-level observation (ProcSpec.seen): what the caller sees of a refusal       *)
(* ---------------------------------------------------------------------------------------- *)
(* one step: same observation, same abstract state (corollary of the exact refinement pstep_ok) *)
Lemma pstep_seen lost o s w : PInv lost s w -> op_ok o -> specified (abs s) o ->
  seen o (fst (lstep (abs s) o)) = seen o (fst (fst (pstep o s w))) /\ snd (lstep (abs s) o) = abs (snd (fst (pstep o s w))).
Proof.
  intros HI Hok Hsp. destruct (pstep_ok lost o s w HI Hok) as [l [_ [_ R]]].
  rewrite (R Hsp). split; reflexivity.
Qed.

(* whole histories *)
Lemma refines_lifecycle_seen ops : Forall op_ok ops -> all_specified ops LIdle ->
  seen_all ops (fst (lrun ops LIdle)) = seen_all ops (fst (fst (prun ops pobj0 world0))) /\ snd (lrun ops LIdle) = abs (snd (fst (prun ops pobj0 world0))).
Proof.
  intros Hok Hsp. rewrite (refines_lifecycle ops Hok Hsp). split; reflexivity.
Qed.

(* a refused call is seen as a failed call and leaves object and world as they were: whatever way the code reports
   the refusal (which errno), the observation below is all the reference asks for *)
Lemma refusal_seen_as_failure lost s w o :
  PInv lost s w ->
  (p_pid s = 0 /\ match o with PJoin _ | PKill _ | PRead2 _ _ _ => True | _ => False end) \/
  (p_pid s <> 0 /\ match o with POpen _ _ _ _ _ | PStart _ => True | _ => False end) ->
  snd (fst (pstep o s w)) = s /\ snd (pstep o s w) = w /\ seen o (fst (fst (pstep o s w))) =
    match o with PRead2 _ _ _ => RIo (-1) | _ => RBool false end.
Proof.
  intros HI [[Hp Ho]|[Hp Ho]].
  - rewrite (idle_refuses lost s w o HI Hp Ho). destruct o; try contradiction; repeat split; reflexivity.
  - rewrite (running_refuses s w o Hp Ho). destruct o; try contradiction; repeat split; reflexivity.
Qed.

