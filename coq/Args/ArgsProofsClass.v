(* C20 part B, round 5 - the class of command lines the property quantifies over ("words separated by
   single spaces with double-quoted segments and escaped quotes inside them", ArgsSpec.in_class):
   1. on a line of the class the model of the splitter yields exactly the words the property-level
      observation ArgsSpec.split_seen names;
   2. the class is large enough: the quoting function for EVERY word list (join_words_bs) only writes lines
      of the class - together with the round trip, every word list is the answer to some line of the class. *)
From Coq Require Import ZArith List Bool Lia.
From Common Require Import Words.
From Args Require Import ArgsSpec ArgsModel ArgsProofsStr ArgsProofsSplit ArgsProofsSplit2.
Import ListNotations.
Local Open Scope Z_scope.

Lemma split_seen_exact s ws : nz s -> split_seen s = Some ws -> split_model s = Ok ws.
Proof.
  intros Hz H. unfold split_seen in H. destruct (in_class s); [|discriminate].
  inversion H; subst. apply split_model_correct. exact Hz.
Qed.

Lemma split_seen_class s : in_class s = true -> split_seen s = Some (split_ref s).
Proof. intro H. unfold split_seen. rewrite H. reflexivity. Qed.

Lemma split_seen_outside s : in_class s = false -> split_seen s = None.
Proof. intro H. unfold split_seen. rewrite H. reflexivity. Qed.

(* inside a quoted segment: the quoted body of a word that does not end in a backslash, then the closing quote *)
Lemma class_quoted w : forall b rest, last w 0 <> ch_bslash ->
  class_scan true b (quote_body w ++ ch_quote :: rest) = class_scan false false rest.
Proof.
  assert (Hbs0 : ch_bslash <> 0) by discriminate.
  induction w as [|c t IH]; intros b rest Hl.
  - cbn [quote_body app class_scan]. rewrite Z.eqb_refl. reflexivity.
  - cbn [quote_body].
    destruct (c =? ch_quote) eqn:Eq.
    + cbn [app class_scan]. rewrite bs_ne_q, !Z.eqb_refl.
      apply IH. exact (last_cons_ne _ _ _ Hl Hbs0).
    + cbn [app class_scan]. rewrite Eq.
      destruct (c =? ch_bslash) eqn:Eb.
      * destruct t as [|q t'].
        { exfalso. apply Hl. cbn [last]. apply Z.eqb_eq in Eb. exact Eb. }
        destruct (quote_body_head_ne q t' rest) as [h [X [HX Hh]]].
        pose proof (IH false rest (last_cons_ne _ _ _ Hl Hbs0)) as H1.
        rewrite HX in *. rewrite Hh. exact H1.
      * apply IH. exact (last_cons_ne _ _ _ Hl Hbs0).
Qed.

(* backslashes outside quotes are ordinary characters *)
Lemma class_backslashes k : forall b rest,
  class_scan false b (repeat ch_bslash k ++ rest) = class_scan false (match k with O => b | S _ => false end) rest.
Proof.
  induction k as [|k IH]; intros b rest; [reflexivity|].
  cbn [repeat app class_scan]. rewrite bs_ne_q, bs_ne_sp. rewrite IH. destruct k; reflexivity.
Qed.

Lemma class_quote_word_bs w b rest :
  class_scan false b (quote_word_bs w ++ rest) = class_scan false false rest.
Proof.
  unfold quote_word_bs. pose proof (trail_spec w) as H. destruct (trail w) as [u k]. destruct H as [_ Hq].
  unfold quote_word. rewrite <- app_assoc. cbn [app class_scan]. rewrite Z.eqb_refl.
  rewrite <- app_assoc. cbn [app]. rewrite (class_quoted u false _ Hq).
  rewrite class_backslashes. destruct k; reflexivity.
Qed.

Lemma class_join_bs ws : ws <> [] -> forall b, class_scan false b (join_words_bs ws) = true.
Proof.
  induction ws as [|w ws IH]; intros Hne b; [contradiction|].
  destruct ws as [|w2 ws2].
  - cbn [join_words_bs]. rewrite <- (app_nil_r (quote_word_bs w)). rewrite class_quote_word_bs. reflexivity.
  - change (join_words_bs (w :: w2 :: ws2)) with (quote_word_bs w ++ ch_space :: join_words_bs (w2 :: ws2)).
    rewrite class_quote_word_bs. cbn [class_scan]. rewrite sp_ne_q, Z.eqb_refl.
    apply IH. discriminate.
Qed.

Lemma join_bs_in_class ws : in_class (join_words_bs ws) = true.
Proof.
  destruct ws as [|w ws]; [reflexivity|].
  unfold in_class. destruct (join_words_bs (w :: ws)) eqn:E; [reflexivity|].
  rewrite <- E. apply class_join_bs. discriminate.
Qed.

(* every word list is what the property says about some line of its class *)
Lemma every_word_list_has_a_class_line ws : split_seen (join_words_bs ws) = Some ws.
Proof. rewrite split_seen_class by apply join_bs_in_class. rewrite split_ref_join_bs. reflexivity. Qed.
