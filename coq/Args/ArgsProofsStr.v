(* C20 - lemmas about the checked C-string primitives of ArgsModel (peek/adv, strlen, find,
   strncmp): on well-formed strings (no NUL inside) they stay inside [string, terminator]
   and compute length / first '=' / prefix equality. *)
From Coq Require Import ZArith List Bool Lia.
From Common Require Import Words.
From Args Require Import ArgsSpec ArgsModel.
Import ListNotations.
Local Open Scope Z_scope.

(* no NUL inside *)
Definition nz (s : str) : Prop := Forall (fun b => b <> 0) s.
(* bytes of a C string *)
Definition wf_str (s : str) : Prop := Forall (fun b => 0 < b < 256) s.

Lemma wf_str_nz s : wf_str s -> nz s.
Proof. unfold wf_str, nz. intro H. eapply Forall_impl; [|exact H]. cbn. intros; lia. Qed.

Lemma nz_cons_inv x s : nz (x :: s) -> x <> 0 /\ nz s.
Proof. intro H. inversion H; subst. auto. Qed.

Lemma wf_cons_inv x s : wf_str (x :: s) -> 0 < x < 256 /\ wf_str s.
Proof. intro H. inversion H; subst. auto. Qed.

Lemma nz_app a b : nz (a ++ b) <-> nz a /\ nz b.
Proof. unfold nz. apply Forall_app. Qed.

Lemma In_firstn {A} (x : A) k l : In x (firstn k l) -> In x l.
Proof.
  revert l. induction k as [|k IH]; intros l H; cbn in H; [contradiction|].
  destruct l as [|y l]; cbn in H; [contradiction|].
  destruct H as [H|H]; [left; exact H | right; apply IH; exact H].
Qed.

Lemma nz_firstn k s : nz s -> nz (firstn k s).
Proof.
  unfold nz. intro H. apply Forall_forall. intros x Hx.
  rewrite Forall_forall in H. apply H. eapply In_firstn; eauto.
Qed.

(* ---- peek / adv ---- *)
Lemma peek_nil0 : peek [] 0 = Ok 0.
Proof. reflexivity. Qed.

Lemma peek_cons0 x a : peek (x :: a) 0 = Ok x.
Proof. reflexivity. Qed.

Lemma peek_consS x a k : peek (x :: a) (S k) = peek a k.
Proof. reflexivity. Qed.

Lemma peek_nil1 : peek [] 1 = Oob.
Proof. reflexivity. Qed.

Lemma adv_0 a : adv a 0 = Ok a.
Proof. reflexivity. Qed.

Lemma adv_consS x a k : adv (x :: a) (S k) = adv a k.
Proof. reflexivity. Qed.

Lemma adv_len a : adv a (length a) = Ok [].
Proof.
  unfold adv. rewrite Nat.leb_refl. rewrite skipn_all. reflexivity.
Qed.

Lemma peek_mid pre x b : peek (pre ++ x :: b) (length pre) = Ok x.
Proof.
  unfold peek. rewrite app_length. cbn [length].
  replace (length pre <=? length pre + S (length b))%nat with true
    by (symmetry; apply Nat.leb_le; lia).
  rewrite nth_middle. reflexivity.
Qed.

Lemma peek_end pre : peek pre (length pre) = Ok 0.
Proof.
  unfold peek. rewrite Nat.leb_refl. rewrite nth_overflow by lia. reflexivity.
Qed.

(* ---- strlen ---- *)
Lemma strlen_loop_spec b : forall pre f, nz b -> (length b < f)%nat ->
  strlen_loop f (pre ++ b) (length pre) = Ok (length pre + length b)%nat.
Proof.
  induction b as [|x b IH]; intros pre f Hnz Hf.
  - destruct f as [|f]; [cbn in Hf; lia|]. cbn [strlen_loop].
    rewrite app_nil_r. rewrite peek_end. cbn [bind]. rewrite Z.eqb_refl.
    cbn [length]. f_equal. lia.
  - destruct f as [|f]; [cbn in Hf; lia|]. cbn [strlen_loop].
    rewrite peek_mid. cbn [bind].
    apply nz_cons_inv in Hnz. destruct Hnz as [Hx Hb].
    destruct (x =? 0) eqn:E; [apply Z.eqb_eq in E; contradiction|].
    replace (pre ++ x :: b) with ((pre ++ [x]) ++ b) by (rewrite <- app_assoc; reflexivity).
    replace (S (length pre)) with (length (pre ++ [x])) by (rewrite app_length; cbn; lia).
    rewrite IH; [|exact Hb|cbn [length] in Hf; lia].
    rewrite app_length. cbn [length]. f_equal. lia.
Qed.

Lemma c_strlen_spec a : nz a -> c_strlen a = Ok (length a).
Proof.
  intro H. unfold c_strlen.
  apply (strlen_loop_spec a [] (S (length a)) H). lia.
Qed.

(* ---- find '=' ---- *)
Lemma split_eq_app b : forall name val, split_eq b = (name, val) ->
  b = name ++ match val with Some v => ch_eq :: v | None => [] end.
Proof.
  induction b as [|x b IH]; intros name val H; cbn [split_eq] in H.
  - inversion H; subst. reflexivity.
  - destruct (x =? ch_eq) eqn:E.
    + inversion H; subst. apply Z.eqb_eq in E. subst. reflexivity.
    + destruct (split_eq b) as [n v] eqn:Es. inversion H; subst.
      cbn [app]. f_equal. apply IH. reflexivity.
Qed.

Lemma split_eq_none b name : split_eq b = (name, None) -> name = b.
Proof.
  intro H. apply split_eq_app in H. rewrite app_nil_r in H. auto.
Qed.

Lemma find_loop_spec b : forall pre f name val, nz b -> (length b < f)%nat ->
  split_eq b = (name, val) ->
  find_loop f (pre ++ b) ch_eq (length pre) =
    Ok (match val with Some _ => Some (length pre + length name)%nat | None => None end).
Proof.
  induction b as [|x b IH]; intros pre f name val Hnz Hf Hs; cbn [split_eq] in Hs.
  - inversion Hs; subst.
    destruct f as [|f]; [cbn in Hf; lia|]. cbn [find_loop].
    rewrite app_nil_r. rewrite peek_end. cbn [bind]. rewrite Z.eqb_refl. reflexivity.
  - destruct f as [|f]; [cbn in Hf; lia|]. cbn [find_loop].
    rewrite peek_mid. cbn [bind].
    apply nz_cons_inv in Hnz. destruct Hnz as [Hx Hb].
    destruct (x =? 0) eqn:E; [apply Z.eqb_eq in E; contradiction|].
    destruct (x =? ch_eq) eqn:E2.
    + inversion Hs; subst. cbn [length]. f_equal. f_equal. lia.
    + destruct (split_eq b) as [n v] eqn:Es. inversion Hs; subst.
      replace (pre ++ x :: b) with ((pre ++ [x]) ++ b) by (rewrite <- app_assoc; reflexivity).
      replace (S (length pre)) with (length (pre ++ [x])) by (rewrite app_length; cbn; lia).
      rewrite (IH (pre ++ [x]) f n val Hb); [|cbn [length] in Hf; lia|reflexivity].
      rewrite app_length. cbn [length]. destruct val; [|reflexivity].
      f_equal. f_equal. lia.
Qed.

Lemma c_find_spec b name val : nz b -> split_eq b = (name, val) ->
  c_find b ch_eq = Ok (match val with Some _ => Some (length name) | None => None end).
Proof.
  intros Hnz Hs. unfold c_find.
  pose proof (find_loop_spec b [] (S (length b)) name val Hnz) as H.
  cbn [app length Nat.add] in H. apply H; [lia|exact Hs].
Qed.

(* ---- strncmp ---- *)
Lemma strncmp_loop_shift n : forall x s1 y s2 i,
  strncmp_loop n (x :: s1) (y :: s2) (S i) = strncmp_loop n s1 s2 i.
Proof.
  induction n as [|n IH]; intros x s1 y s2 i; [reflexivity|].
  cbn [strncmp_loop]. rewrite !peek_consS.
  destruct (peek s1 i) as [a| |]; cbn [bind]; [|reflexivity|reflexivity].
  destruct (peek s2 i) as [b| |]; cbn [bind]; [|reflexivity|reflexivity].
  destruct ((a =? 0) || negb (a =? b)); [reflexivity|]. apply IH.
Qed.

(* the test  compare(name, arg, len) == 0 && !name[len]  decides  name = first len bytes of arg *)
Lemma name_match_spec len : forall n arg, nz n -> nz arg -> (len <= length arg)%nat ->
  exists r, c_strncmp n arg len = Ok r /\
    if r =? 0 then exists z, peek n len = Ok z /\ (z =? 0) = str_eqb n (firstn len arg)
    else str_eqb n (firstn len arg) = false.
Proof.
  unfold c_strncmp.
  induction len as [|len IH]; intros n arg Hn Ha Hl.
  - exists 0. split; [reflexivity|]. cbn [Z.eqb firstn].
    destruct n as [|x n].
    + exists 0. split; reflexivity.
    + exists x. split; [reflexivity|]. apply nz_cons_inv in Hn. destruct Hn as [Hx _].
      cbn [str_eqb]. apply Z.eqb_neq. exact Hx.
  - destruct arg as [|y arg]; [cbn in Hl; lia|].
    apply nz_cons_inv in Ha. destruct Ha as [Hy Ha].
    cbn [strncmp_loop firstn]. rewrite peek_cons0.
    destruct n as [|x n].
    + rewrite peek_nil0. cbn [bind]. cbn [Z.eqb orb]. exists (0 - y). split; [reflexivity|].
      destruct (0 - y =? 0) eqn:E; [apply Z.eqb_eq in E; lia|]. reflexivity.
    + rewrite peek_cons0. cbn [bind].
      apply nz_cons_inv in Hn. destruct Hn as [Hx Hn].
      destruct (x =? 0) eqn:E0; [apply Z.eqb_eq in E0; contradiction|]. cbn [orb].
      cbn [str_eqb].
      destruct (x =? y) eqn:Exy; cbn [negb andb].
      * rewrite strncmp_loop_shift. rewrite peek_consS.
        apply IH; auto. cbn [length] in Hl. lia.
      * exists (x - y). split; [reflexivity|].
        destruct (x - y =? 0) eqn:E; [apply Z.eqb_eq in E; apply Z.eqb_neq in Exy; lia|].
        reflexivity.
Qed.

Lemma sx8_w8 b : 0 <= b < 256 -> w8 (sx8 b) = b.
Proof.
  intro H. unfold sx8, w8.
  rewrite (Z.mod_small b 256) by lia.
  destruct (b <? 128) eqn:E.
  - apply Z.mod_small. lia.
  - apply Z.ltb_ge in E.
    replace (b - 256) with (b + (-1) * 256) by lia.
    rewrite Z.mod_add by lia. apply Z.mod_small. lia.
Qed.
