(* C20 (round 3) - executable model of the remaining POSIX paths of src/Process.cpp, decision by
   decision, of the code AS IT IS (markers 'noted:' point at behaviour that is outside the statement
   of the property and was left alone: fixes/C20/08..11 *.declined.patch).  No proofs here.

   D. getEnvironmentVariable / setEnvironmentVariable / getEnvironmentVariables over ::environ.
      getenv / setenv / unsetenv are libc: they are transcribed here from POSIX / glibc 2.36
      (stdlib/getenv.c, setenv.c) as functions on the array of environment strings.
   E. the Process object (pid, fdStdOutRead, fdStdErrRead, fdStdInWrite; 0 = closed) with
      open / start / join / kill / close / read / write / isRunning / destructor as the code
      sequences them.  The kernel is an input: every system call result the code looks at is an
      argument of the operation ([pop]); every system call made is appended to a log, and the
      descriptors handed to the object (by pipe and fcntl F_DUPFD) and not yet closed are kept in
      [w_fds].  close(fd) on a descriptor the object does not hold at that moment (a second
      close, or a descriptor that was never its own) is recorded in [w_stray]. *)
From Coq Require Import ZArith List Bool Lia.
From Args Require Import ArgsSpec ProcSpec.
Import ListNotations.
Local Open Scope Z_scope.

(* ---------------------------------------------------------------------------------------- *)
(* D. environment                                                                           *)
(* ---------------------------------------------------------------------------------------- *)

Definition environ := list str.      (* the strings of ::environ, in array order *)

(* libc: !strncmp(entry, name, len) && entry[len] == '=' ; the value starts behind the '=' *)
Fixpoint match_entry (n e : str) : option str :=
  match n with
  | [] => match e with c :: v => if c =? ch_eq then Some v else None | [] => None end
  | x :: n' => match e with y :: e' => if x =? y then match_entry n' e' else None | [] => None end
  end.

Fixpoint getenv_loop (n : str) (env : environ) : option str :=
  match env with
  | [] => None
  | e :: t => match match_entry n e with Some v => Some v | None => getenv_loop n t end
  end.

(* getenv: name[0] == 0 -> NULL *)
Definition c_getenv (n : str) (env : environ) : option str :=
  match n with [] => None | _ => getenv_loop n env end.

(* __add_to_environ: the first matching entry is replaced, otherwise the string is appended *)
Fixpoint env_replace (n v : str) (env : environ) : option environ :=
  match env with
  | [] => None
  | e :: t =>
    match match_entry n e with
    | Some _ => Some ((n ++ ch_eq :: v) :: t)
    | None => match env_replace n v t with Some t' => Some (e :: t') | None => None end
    end
  end.

(* setenv(name, value, 1): EINVAL for an empty name or one with '=' *)
Definition c_setenv (n v : str) (env : environ) : option environ :=
  if name_ok n then
    Some (match env_replace n v env with Some e' => e' | None => env ++ [n ++ ch_eq :: v] end)
  else None.

(* unsetenv(name): every matching entry is removed *)
Definition c_unsetenv (n : str) (env : environ) : option environ :=
  if name_ok n then
    Some (filter (fun e => match match_entry n e with Some _ => false | None => true end) env)
  else None.

(* String Process::getEnvironmentVariable(name, defaultValue) *)
Definition get_env_var (name default : str) (env : environ) : str :=
  match c_getenv (cstr name) env with
  | Some v => v                 (* String(var, String::length(var)) *)
  | None => default
  end.

(* bool Process::setEnvironmentVariable(name, value) *)
Definition set_env_var (name value : str) (env : environ) : bool * environ :=
  match value with
  | [] =>                       (* value.isEmpty() *)
    (* noted:  return unsetenv(name);  - the int 0 / -1 as a bool: false when the variable was
       removed, true when unsetenv refused the name *)
    match c_unsetenv (cstr name) env with Some e => (false, e) | None => (true, env) end
  | _ =>
    match c_setenv (cstr name) (cstr value) env with Some e => (true, e) | None => (false, env) end
  end.

(* Map<String, String> Process::getEnvironmentVariables(): entries without '=' are skipped, the
   others are split at the first '=' and inserted (Map::insert overwrites an existing key and
   enumerates in key order: ProcSpec.em_put, property C01) *)
Definition get_env_vars (env : environ) : emap :=
  fold_left (fun m e => match split_eq e with (k, Some v) => em_put m k v | (_, None) => m end) env [].

(* ---------------------------------------------------------------------------------------- *)
(* E. the Process object                                                                    *)
(* ---------------------------------------------------------------------------------------- *)

Record pobj := { p_pid : Z; p_out : Z; p_err : Z; p_in : Z }.

Definition pobj0 : pobj := {| p_pid := 0; p_out := 0; p_err := 0; p_in := 0 |}.   (* Process::Process() *)

Inductive kev :=
| KPipe (r w : Z) | KPipeFail
| KDup (d : Z) | KDupFail                (* fcntl(0, F_DUPFD, 3) *)
| KClose (fd : Z)
| KVfork (pid : Z) | KVforkFail
| KKill (pid : Z)
| KWait (pid : Z) (res : option Z)
| KSelect
| KRead (fd : Z)
| KWrite (fd : Z).

Record world := {
  w_fds : list Z;        (* descriptors handed to the object and not yet closed by it *)
  w_stray : list Z;      (* close() calls that hit a descriptor the object did not hold *)
  w_kids : list Z;       (* children started and not yet reaped *)
  w_log : list kev }.

Definition world0 : world := {| w_fds := []; w_stray := []; w_kids := []; w_log := [] |}.

Definition emit (e : kev) (w : world) : world :=
  {| w_fds := w_fds w; w_stray := w_stray w; w_kids := w_kids w; w_log := w_log w ++ [e] |}.

Definition set_fds (l : list Z) (w : world) : world :=
  {| w_fds := l; w_stray := w_stray w; w_kids := w_kids w; w_log := w_log w |}.

Definition set_kids (l : list Z) (w : world) : world :=
  {| w_fds := w_fds w; w_stray := w_stray w; w_kids := l; w_log := w_log w |}.

Fixpoint remove1 (x : Z) (l : list Z) : list Z :=
  match l with
  | [] => []
  | y :: t => if x =? y then t else y :: remove1 x t
  end.

Definition holds (w : world) (fd : Z) : bool := existsb (fun y => fd =? y) (w_fds w).

(* ::close(fd) *)
Definition k_close (fd : Z) (w : world) : world :=
  let w' := emit (KClose fd) w in
  if holds w fd then set_fds (remove1 fd (w_fds w)) w'
  else {| w_fds := w_fds w'; w_stray := w_stray w' ++ [fd]; w_kids := w_kids w'; w_log := w_log w' |}.

(* pipe(fds) *)
Definition k_pipe (a : pipe_ans) (w : world) : world * option (Z * Z) :=
  match pa_res a with
  | None => (emit KPipeFail w, None)
  | Some (r, x) => (set_fds (w_fds w ++ [r; x]) (emit (KPipe r x) w), Some (r, x))
  end.

(* fcntl(0, F_DUPFD, 3) *)
Definition k_dup (a : pipe_ans) (w : world) : world * option Z :=
  match pa_dup a with
  | None => (emit KDupFail w, None)
  | Some d => (set_fds (w_fds w ++ [d]) (emit (KDup d) w), Some d)
  end.

(* createPipe: a pipe end must never be descriptor 0 *)
Definition fix_end (a : pipe_ans) (i : bool) (w : world) (f : Z * Z) : world * option (Z * Z) :=
  if (if i then snd f else fst f) =? 0 then
    match k_dup a w with
    | (w, None) => (k_close (snd f) (k_close (fst f) w), None)     (* fds[0] = fds[1] = 0; return -1 *)
    | (w, Some d) => (k_close 0 w, Some (if i then (fst f, d) else (d, snd f)))
    end
  else (w, Some f).

Definition create_pipe (a : pipe_ans) (w : world) : world * option (Z * Z) :=
  match k_pipe a w with
  | (w, None) => (w, None)
  | (w, Some f) =>
    match fix_end a false w f with
    | (w, None) => (w, None)
    | (w, Some f) => fix_end a true w f
    end
  end.

(* error:  if(fds[0]) { ::close(fds[0]); ::close(fds[1]); }  for the three pairs *)
Definition close_pair (p : Z * Z) (w : world) : world :=
  if fst p =? 0 then w else k_close (snd p) (k_close (fst p) w).

Definition open_error (po pe pi : Z * Z) (w : world) : world :=
  close_pair pi (close_pair pe (close_pair po w)).

Definition close_nz (fd : Z) (w : world) : world := if fd =? 0 then w else k_close fd w.

Definition want_pipe (streams bit : Z) (a : pipe_ans) (w : world) : world * option (Z * Z) :=
  if flag streams bit then create_pipe a w else (w, Some (0, 0)).

(* bool Process::open(executable, argc, argv, streams, environment)  -  parent side *)
Definition p_open (streams : Z) (a1 a2 a3 : pipe_ans) (vf : option Z) (s : pobj) (w : world)
  : pres * pobj * world :=
  if negb (p_pid s =? 0) then (RRefused, s, w) else
  match want_pipe streams 1 a1 w with
  | (w, None) => (RBool false, s, open_error (0, 0) (0, 0) (0, 0) w)
  | (w, Some po) =>
  match want_pipe streams 2 a2 w with
  | (w, None) => (RBool false, s, open_error po (0, 0) (0, 0) w)
  | (w, Some pe) =>
  match want_pipe streams 4 a3 w with
  | (w, None) => (RBool false, s, open_error po pe (0, 0) w)
  | (w, Some pi) =>
    match vf with
    | None =>
      (* noted:  return false;  - not  goto error : the pipes just created stay open *)
      (RBool false, s, emit KVforkFail w)
    | Some pid =>
      let w := set_kids (w_kids w ++ [pid]) (emit (KVfork pid) w) in
      let w := close_nz (snd po) w in
      let w := close_nz (snd pe) w in
      let w := close_nz (fst pi) w in
      (RBool true, {| p_pid := pid; p_out := fst po; p_err := fst pe; p_in := snd pi |}, w)
    end
  end end end.

(* uint32 Process::start(program, argc, argv, environment)  -  parent side *)
Definition p_start (vf : option Z) (s : pobj) (w : world) : pres * pobj * world :=
  if negb (p_pid s =? 0) then (RRefused, s, w) else
  match vf with
  | None => (RBool false, s, emit KVforkFail w)
  | Some pid =>
    (RBool true, {| p_pid := pid; p_out := p_out s; p_err := p_err s; p_in := p_in s |},
     set_kids (w_kids w ++ [pid]) (emit (KVfork pid) w))
  end.

(* if(fdStdOutRead) {close; = 0}  if(fdStdErrRead) ..  if(fdStdInWrite) ..  *)
Definition close_all (s : pobj) (w : world) : pobj * world :=
  let w := close_nz (p_out s) w in
  let w := close_nz (p_err s) w in
  let w := close_nz (p_in s) w in
  ({| p_pid := p_pid s; p_out := 0; p_err := 0; p_in := 0 |}, w).

Definition set_pid (pid : Z) (s : pobj) : pobj :=
  {| p_pid := pid; p_out := p_out s; p_err := p_err s; p_in := p_in s |}.

(* bool Process::join(uint32& exitCode) *)
Definition p_join (wt : option Z) (s : pobj) (w : world) : pres * pobj * world :=
  if p_pid s =? 0 then (RRefused, s, w) else
  let w := emit (KWait (p_pid s) wt) w in
  match wt with
  | None => (RBool false, s, w)
  | Some status =>
    let w := set_kids (remove1 (p_pid s) (w_kids w)) w in
    let '(s, w) := close_all s w in
    (RJoin (wexit status), set_pid 0 s, w)
  end.

(* bool Process::kill() *)
Definition p_kill (wt : option Z) (s : pobj) (w : world) : pres * pobj * world :=
  if p_pid s =? 0 then (RRefused, s, w) else
  let w := emit (KKill (p_pid s)) w in
  let w := emit (KWait (p_pid s) wt) w in
  match wt with
  | None => (RBool false, s, w)
  | Some _ =>
    let w := set_kids (remove1 (p_pid s) (w_kids w)) w in
    let '(s, w) := close_all s w in
    (RBool true, set_pid 0 s, w)
  end.

(* void Process::close(uint streams): stdin, stdout, stderr in this order *)
Definition p_close (streams : Z) (s : pobj) (w : world) : pres * pobj * world :=
  let '(i, w) := if flag streams 4 && negb (p_in s =? 0) then (0, k_close (p_in s) w) else (p_in s, w) in
  let '(o, w) := if flag streams 1 && negb (p_out s =? 0) then (0, k_close (p_out s) w) else (p_out s, w) in
  let '(e, w) := if flag streams 2 && negb (p_err s =? 0) then (0, k_close (p_err s) w) else (p_err s, w) in
  (RUnit, {| p_pid := p_pid s; p_out := o; p_err := e; p_in := i |}, w).

(* ssize Process::read(void* buffer, usize len) *)
Definition p_read (ans : Z) (s : pobj) (w : world) : pres * pobj * world :=
  (* noted:  return ::read(fdStdOutRead, buffer, len);  also when fdStdOutRead == 0 (descriptor 0 of the caller) *)
  (RIo ans, s, emit (KRead (p_out s)) w).

(* ssize Process::read(void* buffer, usize length, uint& streams)
   round 5 (fixes/C20/12): the descriptors asked for go into a pollfd array and poll(fds, count, -1) waits without a
   time-out (was: an fd_set on the stack and select() with a 1000 s time-out whose `continue` re-entered select with the
   emptied set).  KSelect = "asked the kernel which descriptor is readable"; [ready] = the streams whose revents are set
   when it returns (stdout is served first).  With no time-out there is no time-out answer: how long the child stays
   silent is not an input of this function (the check drives silences through the recorder all the same). *)
Definition p_read2 (streams ready ans : Z) (s : pobj) (w : world) : pres * pobj * world :=
  let so := flag streams 1 && negb (p_out s =? 0) in
  let se := flag streams 2 && negb (p_err s =? 0) in
  if negb (so || se) then (RRefused, s, w)          (* count == 0 *)
  else
    let w := emit KSelect w in
    if so && flag ready 1 then (RIo2 ans 1, s, emit (KRead (p_out s)) w)
    else if se && flag ready 2 then (RIo2 ans 2, s, emit (KRead (p_err s)) w)
    else (RIo (-1), s, w).

(* ssize Process::write(const void* buffer, usize len) *)
Definition p_write (ans : Z) (s : pobj) (w : world) : pres * pobj * world :=
  (* noted:  return ::write(fdStdInWrite, buffer, len);  also when fdStdInWrite == 0 *)
  (RIo ans, s, emit (KWrite (p_in s)) w).

(* Process::~Process():  join(exitCode);
   noted: when the join fails (waitpid failed) the object goes away with its descriptors open *)
Definition p_destroy (wt : option Z) (s : pobj) (w : world) : pres * pobj * world :=
  let '(_, _, w) := p_join wt s w in
  (RUnit, pobj0, w).

Definition pstep (o : pop) (s : pobj) (w : world) : pres * pobj * world :=
  match o with
  | POpen st a1 a2 a3 vf => p_open st a1 a2 a3 vf s w
  | PStart vf => p_start vf s w
  | PJoin wt => p_join wt s w
  | PKill wt => p_kill wt s w
  | PClose st => p_close st s w
  | PRead ans => p_read ans s w
  | PRead2 st ready ans => p_read2 st ready ans s w
  | PWrite ans => p_write ans s w
  | PIsRunning => (RBool (negb (p_pid s =? 0)), s, w)
  | PDestroy wt => p_destroy wt s w
  end.

Fixpoint prun (ops : list pop) (s : pobj) (w : world) : list pres * pobj * world :=
  match ops with
  | [] => ([], s, w)
  | o :: t =>
    let '(r, s, w) := pstep o s w in
    let '(rs, s, w) := prun t s w in
    (r :: rs, s, w)
  end.

(* what the log says about one descriptor *)
Definition ind (a b : Z) : nat := if a =? b then 1%nat else 0%nat.
Definition opened_ev (fd : Z) (e : kev) : nat :=
  match e with
  | KPipe r x => (ind r fd + ind x fd)%nat
  | KDup d => ind d fd
  | _ => 0%nat
  end.
Definition closed_ev (fd : Z) (e : kev) : nat :=
  match e with KClose x => ind x fd | _ => 0%nat end.

Definition times_opened (log : list kev) (fd : Z) : nat := fold_right (fun e n => (opened_ev fd e + n)%nat) 0%nat log.
Definition times_closed (log : list kev) (fd : Z) : nat := fold_right (fun e n => (closed_ev fd e + n)%nat) 0%nat log.
