(* C20 - all lemmas of the component *)
From Args Require Export ArgsProofsStr ArgsProofsOpt ArgsProofsSplit ArgsProofsSplit2 ArgsProofsClass ArgsProofsLaunch ProcProofsEnv ProcProofsObj.
