From Coq Require Import ZArith List Bool Lia.
From Common Require Import Words.
From Args Require Import ArgsSpec ArgsModel.
Import ListNotations.
Local Open Scope Z_scope.
