(* C20 - all lemmas of the component *)
From Args Require Export ArgsProofsStr ArgsProofsOpt ArgsProofsSplit ArgsProofsLaunch.
