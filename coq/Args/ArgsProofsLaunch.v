(* C20 part C - launch preparation: the argv / environment arrays handed to execvpe by every
   start/open overload are exactly the executable, the argument vector and the environment
   given; the copy loop stays inside the caller's array. *)
From Coq Require Import ZArith List Bool Lia.
From Common Require Import Words.
From Args Require Import ArgsSpec ArgsModel ArgsProofsStr ArgsProofsSplit.
Import ListNotations.
Local Open Scope Z_scope.

Lemma child_env_correct env : child_env env = env_ref env.
Proof. destruct env; reflexivity. Qed.

Lemma nth_skipn {A} (l : list A) : forall i, (i < length l)%nat ->
  exists x, nth_error l i = Some x /\ skipn i l = x :: skipn (S i) l.
Proof.
  induction l as [|a l IH]; intros i Hi; [cbn in Hi; lia|].
  destruct i as [|i].
  - exists a. split; reflexivity.
  - cbn [length] in Hi. destruct (IH i) as [x [H1 H2]]; [lia|].
    exists x. split; [exact H1|]. cbn [skipn] in *. exact H2.
Qed.

Lemma copy_args_spec n : forall (l : list str) i, (i + n <= length l)%nat ->
  copy_args n (map Some l) i = Ok (map Some (firstn n (skipn i l))).
Proof.
  induction n as [|n IH]; intros l i H; [reflexivity|].
  cbn [copy_args]. unfold argv_at.
  destruct (nth_skipn l i) as [x [H1 H2]]; [lia|].
  rewrite nth_error_map, H1. cbn [option_map bind].
  rewrite IH by lia. cbn [bind]. rewrite H2. reflexivity.
Qed.

Lemma until_null_app l t : until_null (map Some l ++ None :: t) = l.
Proof. induction l as [|a l IH]; [reflexivity|]. cbn [map app until_null]. f_equal. exact IH. Qed.

(* start/open(executable, argc, argv): argv[0] is replaced, argv[1..argc) are copied *)
Lemma prepare_args_argv exe argv :
  prepare_args exe (length argv) (map Some argv) = Ok (Some exe :: map Some (tl argv) ++ [None]).
Proof.
  unfold prepare_args.
  destruct argv as [|a t].
  - reflexivity.
  - cbn [length Nat.eqb]. unfold argv_at at 1.
    replace (S (length t) - 1)%nat with (length t) by lia.
    destruct (nth_skipn (a :: t) (length t)) as [x [H1 _]]; [cbn [length]; lia|].
    rewrite nth_error_map, H1. cbn [option_map bind].
    replace (S (length t) - 1)%nat with (length t) by lia.
    rewrite (copy_args_spec (length t) (a :: t) 1) by (cbn [length]; lia).
    cbn [bind skipn tl]. rewrite firstn_all. reflexivity.
Qed.

Lemma launch_argv_correct exe argv env :
  launch_argv exe (length argv) (map Some argv) env = Ok (launch_ref_argv exe argv env).
Proof.
  unfold launch_argv. rewrite prepare_args_argv. cbn [bind until_null].
  rewrite until_null_app, child_env_correct. reflexivity.
Qed.

(* the same with a vector that already ends in a null pointer (counted in argc): used as it is *)
Lemma launch_argv0_correct exe argv env :
  launch_argv exe (S (length argv)) (map Some argv ++ [None]) env = Ok (launch_ref_argv0 exe argv env).
Proof.
  unfold launch_argv, prepare_args. cbn [Nat.eqb]. unfold argv_at.
  replace (S (length argv) - 1)%nat with (length (map (@Some str) argv)) by (rewrite map_length; lia).
  rewrite nth_error_app2 by lia. rewrite Nat.sub_diag. cbn [nth_error bind].
  rewrite until_null_app, child_env_correct. reflexivity.
Qed.

Lemma launch_list_correct exe args env :
  launch_list exe args env = Ok (launch_ref_list exe args env).
Proof. unfold launch_list, launch_ref_list. apply launch_argv_correct. Qed.

(* start/open(command line): the words of the command line, the first one is the program *)
Lemma launch_cmdline_correct cmd env : nz cmd ->
  launch_cmdline cmd env = Ok (launch_ref_cmdline cmd env).
Proof.
  intro H. unfold launch_cmdline, launch_ref_cmdline.
  rewrite (split_model_correct cmd H). cbn [bind].
  set (ws := match split_ref cmd with [] => [[]] | _ :: _ => split_ref cmd end).
  rewrite launch_argv0_correct. reflexivity.
Qed.

(* no overload reads outside the pointer array it was given, for every command line *)
Lemma launch_cmdline_total cmd env : exists x, launch_cmdline cmd env = Ok x.
Proof.
  unfold launch_cmdline. destruct (split_model_total cmd) as [ws Hws]. rewrite Hws. cbn [bind].
  rewrite launch_argv0_correct. eexists. reflexivity.
Qed.

(* ---- round 5: the start() entry points (their own copies of the preparation code) ---- *)
Lemma start_argv_correct program argv env :
  start_argv program (length argv) (map Some argv) env = Ok (launch_ref_argv program argv env).
Proof. exact (launch_argv_correct program argv env). Qed.

Lemma start_argv0_correct program argv env :
  start_argv program (S (length argv)) (map Some argv ++ [None]) env = Ok (launch_ref_argv0 program argv env).
Proof. exact (launch_argv0_correct program argv env). Qed.

Lemma start_cmdline_correct cmd env : nz cmd ->
  start_cmdline cmd env = Ok (launch_ref_cmdline cmd env).
Proof. exact (launch_cmdline_correct cmd env). Qed.

Lemma start_cmdline_total cmd env : exists x, start_cmdline cmd env = Ok x.
Proof. exact (launch_cmdline_total cmd env). Qed.

(* a command line of the property's class: the child gets exactly the words the property names, the first one is
   the program - through either entry point *)
Lemma cmdline_class_exact cmd env ws : nz cmd -> split_seen cmd = Some ws ->
  let ws' := match ws with [] => [[]] | _ => ws end in
  launch_cmdline cmd env = Ok {| x_program := hd [] ws'; x_args := ws'; x_env := env_ref env |} /\
  start_cmdline cmd env = Ok {| x_program := hd [] ws'; x_args := ws'; x_env := env_ref env |}.
Proof.
  intros Hz Hs. unfold split_seen in Hs. destruct (in_class cmd); [|discriminate]. inversion Hs; subst ws.
  split; [rewrite (launch_cmdline_correct cmd env Hz)|rewrite (start_cmdline_correct cmd env Hz)]; reflexivity.
Qed.
