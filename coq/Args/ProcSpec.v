(* C20 (round 3) - reference objects for the two remaining anchors of the property, written
   from the property text and Process.hpp, without looking at how Process.cpp does it.

   D. the process environment as a finite map from names to values
      (getEnvironmentVariable / setEnvironmentVariable / getEnvironmentVariables;
       an empty value means "unset").
   E. the life cycle of a Process object: idle or running with a set of redirected streams
      that are still open; what every operation answers in each state, given what the kernel
      answers (pipe/vfork/waitpid results are inputs), and how many descriptors it holds. *)
From Coq Require Import ZArith List Bool Lia.
From Args Require Import ArgsSpec.
Import ListNotations.
Local Open Scope Z_scope.

(* ---------------------------------------------------------------------------------------- *)
(* D. environment                                                                           *)
(* ---------------------------------------------------------------------------------------- *)

(* what a C function sees of a String: the bytes in front of the first NUL *)
Fixpoint cstr (s : str) : str :=
  match s with
  | [] => []
  | c :: t => if c =? 0 then [] else c :: cstr t
  end.

(* a variable name: not empty, no '=' (POSIX setenv/unsetenv: EINVAL otherwise) *)
Definition name_ok (n : str) : bool :=
  match n with [] => false | _ => negb (existsb (fun c => c =? ch_eq) n) end.

(* unsigned bytewise lexicographic order: the order in which Map<String, String> enumerates *)
Fixpoint str_compare (a b : str) : comparison :=
  match a, b with
  | [], [] => Eq
  | [], _ :: _ => Lt
  | _ :: _, [] => Gt
  | x :: a', y :: b' => match x ?= y with Eq => str_compare a' b' | c => c end
  end.

(* the map, kept as the list of its bindings in strictly increasing key order *)
Definition emap := list (str * str).

Definition em_find (m : emap) (k : str) : option str :=
  match find (fun kv => str_eqb (fst kv) k) m with Some kv => Some (snd kv) | None => None end.

Fixpoint em_put (m : emap) (k v : str) : emap :=
  match m with
  | [] => [(k, v)]
  | (k', v') :: t =>
    match str_compare k k' with
    | Lt => (k, v) :: m
    | Eq => (k, v) :: t
    | Gt => (k', v') :: em_put t k v
    end
  end.

Definition em_del (m : emap) (k : str) : emap :=
  filter (fun kv => negb (str_eqb (fst kv) k)) m.

(* getEnvironmentVariable(name, default) *)
Definition ref_get (m : emap) (name default : str) : str :=
  match em_find m (cstr name) with Some v => v | None => default end.

(* setEnvironmentVariable(name, value): true and the updated map, or false and no change when
   the name is not a variable name; an empty value removes the variable *)
Definition ref_set (m : emap) (name value : str) : bool * emap :=
  let n := cstr name in
  if name_ok n then
    (true, match value with [] => em_del m n | _ => em_put m n (cstr value) end)
  else (false, m).

(* getEnvironmentVariables(): the bindings, in key order *)
Definition ref_vars (m : emap) : list (str * str) := m.

(* ---------------------------------------------------------------------------------------- *)
(* E. life cycle of a Process object                                                        *)
(* ---------------------------------------------------------------------------------------- *)

(* What the kernel answers to one createPipe: the two descriptors of pipe() (None: pipe failed),
   and the descriptor of fcntl(0, F_DUPFD, 3) should one end be descriptor 0 (None: it failed). *)
Record pipe_ans := { pa_res : option (Z * Z); pa_dup : option Z }.

(* One call on the object, with the kernel's answers as inputs:
   open: the answers for the pipes of stdout / stderr / stdin (looked at only when the stream is
   requested and the earlier ones succeeded) and the result of vfork (None: failed);
   join/kill/destructor: the result of waitpid (Some status: the child was delivered; None: it failed);
   read/write: the result of the read()/write() system call; read2: the streams poll() reports. *)
Inductive pop :=
| POpen (streams : Z) (a_out a_err a_in : pipe_ans) (vf : option Z)
| PStart (vf : option Z)
| PJoin (wt : option Z)
| PKill (wt : option Z)
| PClose (streams : Z)
| PRead (ans : Z)
| PRead2 (streams ready ans : Z)
| PWrite (ans : Z)
| PIsRunning
| PDestroy (wt : option Z).

Inductive pres :=
| RRefused                     (* the object itself declines (wrong state): the call fails - false / -1 - and nothing happens *)
| RBool (b : bool)
| RJoin (code : Z)             (* join: true and the exit code *)
| RIo (n : Z)                  (* read/write: what the system call returned *)
| RIo2 (n : Z) (stream : Z)    (* read from several streams: the result and the stream it came from *)
| RUnit.

Definition flag (streams bit : Z) : bool := negb (Z.land streams bit =? 0).

(* WEXITSTATUS *)
Definition wexit (status : Z) : Z := (status / 256) mod 256.

(* WIFEXITED: the child ended by exit() / return from main.  Only such a child HAS an exit code; of a child
   ended by a signal the property ("join() returns its exit code") says no more than that it is joined.
   [wexit] of a signal status is 0 in the code as it is - a model-level fact (join_returns_kernel_exit_code);
   the oracle of the check prints a wildcard for the code when [join_code_specified] is false. *)
Definition wifexited (status : Z) : bool := Z.land status 127 =? 0.

Inductive lstate :=
| LIdle
| LRunning (pid : Z) (out err inn : bool).     (* which of the redirected streams are still open *)

Definition b2n (b : bool) : nat := if b then 1%nat else 0%nat.

(* descriptors a Process in this state holds: one per open stream *)
Definition lheld (st : lstate) : nat :=
  match st with
  | LIdle => 0%nat
  | LRunning _ o e i => (b2n o + b2n e + b2n i)%nat
  end.

(* the kernel granted a pipe neither end of which is left on descriptor 0 *)
Definition pipe_granted (a : pipe_ans) : bool :=
  match pa_res a with
  | None => false
  | Some (r, w) => if (r =? 0) || (w =? 0) then match pa_dup a with Some _ => true | None => false end else true
  end.

Definition pipes_granted (streams : Z) (a1 a2 a3 : pipe_ans) : bool :=
  (negb (flag streams 1) || pipe_granted a1) &&
  (negb (flag streams 2) || pipe_granted a2) &&
  (negb (flag streams 4) || pipe_granted a3).

Definition lstep (st : lstate) (o : pop) : pres * lstate :=
  match st with
  | LIdle =>
    match o with
    | POpen s a1 a2 a3 vf =>
      if pipes_granted s a1 a2 a3 then
        match vf with
        | Some pid => (RBool true, LRunning pid (flag s 1) (flag s 2) (flag s 4))
        | None => (RBool false, LIdle)
        end
      else (RBool false, LIdle)
    | PStart vf =>
      match vf with
      | Some pid => (RBool true, LRunning pid false false false)
      | None => (RBool false, LIdle)
      end
    | PJoin _ | PKill _ | PRead _ | PRead2 _ _ _ | PWrite _ => (RRefused, LIdle)   (* no process: nothing happens *)
    | PClose _ => (RUnit, LIdle)
    | PIsRunning => (RBool false, LIdle)
    | PDestroy _ => (RUnit, LIdle)
    end
  | LRunning pid bo be bi =>
    match o with
    | POpen _ _ _ _ _ | PStart _ => (RRefused, st)           (* already running *)
    | PJoin None | PKill None => (RBool false, st)           (* could not be reaped: still running, may be retried *)
    | PJoin (Some status) => (RJoin (wexit status), LIdle)
    | PKill (Some _) => (RBool true, LIdle)
    | PClose s => (RUnit, LRunning pid (bo && negb (flag s 1)) (be && negb (flag s 2)) (bi && negb (flag s 4)))
    | PRead ans => if bo then (RIo ans, st) else (RRefused, st)
    | PRead2 s ready ans =>
      let so := bo && flag s 1 in
      let se := be && flag s 2 in
      if negb (so || se) then (RRefused, st)
      else if so && flag ready 1 then (RIo2 ans 1, st)
      else if se && flag ready 2 then (RIo2 ans 2, st)
      else (RIo (-1), st)
    | PWrite ans => if bi then (RIo ans, st) else (RRefused, st)
    | PIsRunning => (RBool true, st)
    | PDestroy _ => (RUnit, LIdle)                           (* a destroyed object holds nothing *)
    end
  end.

(* What the CALLER sees of an answer - the observation the property is judged on.  The property text
   speaks about processes that were started; about misuse of the object (join/kill/read without a
   process, open/start on a running one) it says nothing, and it names no errno anywhere.  What a
   caller can rely on is that such a call FAILS the way the interface has it - false from
   open/start/join/kill, -1 from read/write - and (state component of lstep) that nothing changes.
   That the failure was decided by the object itself before any system call (RRefused; in the code
   as it is: errno EINVAL) is a model-level detail: the refinement theorems keep it, the oracle of
   the check compares `seen` results only and leaves the errno to the model section. *)
Definition seen (o : pop) (r : pres) : pres :=
  match r with
  | RRefused =>
    match o with
    | PRead _ | PRead2 _ _ _ | PWrite _ => RIo (-1)
    | _ => RBool false
    end
  | _ => r
  end.

Definition join_code_specified (o : pop) : bool :=
  match o with
  | PJoin (Some status) => wifexited status
  | _ => true
  end.

Fixpoint seen_all (ops : list pop) (rs : list pres) : list pres :=
  match ops, rs with
  | o :: ops', r :: rs' => seen o r :: seen_all ops' rs'
  | _, _ => rs
  end.
