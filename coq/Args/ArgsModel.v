(* C20 - executable model of src/Process.cpp (POSIX paths), decision by decision, of the code
   AFTER the repairs in fixes/C20 (see the markers 'repaired:').  No proofs in this file.

   Pointers into C strings are modelled as the remaining suffix (the bytes from the pointer to
   the terminator, terminator excluded).  Every read goes through [peek] and every pointer
   move through [adv]; both answer [Oob] outside [string, terminator].  Loops that the C code
   runs without a bound take fuel and answer [Fuel] when it runs out (non-termination). *)
From Coq Require Import ZArith List Bool Lia.
From Common Require Import Words.
From Args Require Import ArgsSpec.
Import ListNotations.
Local Open Scope Z_scope.

Inductive res (A : Type) : Type :=
| Ok (a : A)
| Oob            (* a read or pointer move outside the string *)
| Fuel.          (* did not terminate within the fuel *)
Arguments Ok {A} a.
Arguments Oob {A}.
Arguments Fuel {A}.

Definition bind {A B} (r : res A) (f : A -> res B) : res B :=
  match r with Ok a => f a | Oob => Oob | Fuel => Fuel end.
Notation "x <- r ;; k" := (bind r (fun x => k)) (at level 61, r at next level, right associativity).
Notation "' p <- r ;; k" := (bind r (fun x => let p := x in k))
  (at level 61, p pattern, r at next level, right associativity).

(* *(a + k): the terminator (0) is readable, nothing behind it *)
Definition peek (a : str) (k : nat) : res Z :=
  if (k <=? length a)%nat then Ok (nth k a 0) else Oob.
(* a + k *)
Definition adv (a : str) (k : nat) : res str :=
  if (k <=? length a)%nat then Ok (skipn k a) else Oob.

(* String::length(const char* ) *)
Fixpoint strlen_loop (fuel : nat) (a : str) (k : nat) : res nat :=
  match fuel with
  | O => Fuel
  | S f => x <- peek a k ;; if x =? 0 then Ok k else strlen_loop f a (S k)
  end.
Definition c_strlen (a : str) : res nat := strlen_loop (S (length a)) a 0%nat.

(* String::find(const char*, char): offset of the first c *)
Fixpoint find_loop (fuel : nat) (a : str) (c : Z) (k : nat) : res (option nat) :=
  match fuel with
  | O => Fuel
  | S f => x <- peek a k ;;
           if x =? 0 then Ok None else if x =? c then Ok (Some k) else find_loop f a c (S k)
  end.
Definition c_find (a : str) (c : Z) : res (option nat) := find_loop (S (length a)) a c 0%nat.

(* String::compare(s1, s2, len) *)
Fixpoint strncmp_loop (n : nat) (s1 s2 : str) (i : nat) : res Z :=
  match n with
  | O => Ok 0
  | S n' => x <- peek s1 i ;; y <- peek s2 i ;;
            if (x =? 0) || negb (x =? y) then Ok (x - y) else strncmp_loop n' s1 s2 (S i)
  end.
Definition c_strncmp (s1 s2 : str) (len : nat) : res Z := strncmp_loop len s1 s2 0%nat.

(* ---------------------------------------------------------------------------------------- *)
(* A. Process::Arguments                                                                    *)
(* ---------------------------------------------------------------------------------------- *)

Record cursor := {
  c_rest : list str;     (* argv .. argvEnd *)
  c_idx : nat;           (* argv - (the argv given to the constructor) *)
  c_arg : str;           (* arg, as the suffix it points to *)
  c_pos : nat;           (* arg - start of the string it points into *)
  c_inOpt : bool;
  c_skipOpt : bool }.

Definition init_cursor (argv : list str) : cursor :=   (* argv without argv[0]; arg("") *)
  {| c_rest := argv; c_idx := 1; c_arg := []; c_pos := 0; c_inOpt := false; c_skipOpt := false |}.

Definition adv_cur (c : cursor) (k : nat) : res cursor :=
  a <- adv (c_arg c) k ;;
  Ok {| c_rest := c_rest c; c_idx := c_idx c; c_arg := a; c_pos := (c_pos c + k)%nat;
        c_inOpt := c_inOpt c; c_skipOpt := c_skipOpt c |}.
Definition set_inOpt (c : cursor) : cursor :=
  {| c_rest := c_rest c; c_idx := c_idx c; c_arg := c_arg c; c_pos := c_pos c;
     c_inOpt := true; c_skipOpt := c_skipOpt c |}.
Definition set_skipOpt (c : cursor) : cursor :=
  {| c_rest := c_rest c; c_idx := c_idx c; c_arg := c_arg c; c_pos := c_pos c;
     c_inOpt := c_inOpt c; c_skipOpt := true |}.

Definition nextChar (c : cursor) : res (cursor * bool) :=
  x <- peek (c_arg c) 0 ;;
  if negb (x =? 0) then Ok (c, true)          (* repaired: was  ++arg; return true;  *)
  else match c_rest c with
       | s :: tl => Ok ({| c_rest := tl; c_idx := S (c_idx c); c_arg := s; c_pos := 0;
                           c_inOpt := false; c_skipOpt := c_skipOpt c |}, true)
       | [] => Ok (c, false)
       end.

Definition outcome := (cursor * option (Z * str))%type.   (* None: read returned false *)

(* argument.attach(arg - k, len): a BACKWARD pointer move followed by handing out len bytes.
   The pointer arg - k must not leave the string (k <= arg - start of the string, which is what
   [c_pos] counts) and the len bytes must end at or before the terminator (len <= k + the bytes
   still ahead of arg); otherwise [Oob].  The bytes behind arg were read on the way here, so the
   caller passes them ([bytes]); this function carries the bounds obligation. *)
Definition attach_back (c : cursor) (k len : nat) (bytes : str) : res str :=
  if ((k <=? c_pos c) && (len <=? k + length (c_arg c)))%nat then Ok bytes else Oob.

(* len = length(arg); argument.attach(arg, len); arg += len; return true *)
Definition take_rest (c : cursor) (character : Z) : res outcome :=
  len <- c_strlen (c_arg c) ;;
  c' <- adv_cur c len ;;
  Ok (c', Some (character, firstn len (c_arg c))).

(* for(opt ...) if(opt->character == character) *)
Fixpoint find_short (opts : list option_row) (character : Z) : option option_row :=
  match opts with
  | [] => None
  | o :: tl => if o_char o =? character then Some o else find_short tl character
  end.

(* for(opt ...) if(opt->name && compare(opt->name, arg, argLen) == 0 && !opt->name[argLen]) *)
Fixpoint find_long (opts : list option_row) (arg : str) (argLen : nat) : res (option option_row) :=
  match opts with
  | [] => Ok None
  | o :: tl =>
    match o_name o with
    | None => find_long tl arg argLen
    | Some n =>
      r <- c_strncmp n arg argLen ;;
      if r =? 0 then
        z <- peek n argLen ;;
        if z =? 0 then Ok (Some o) else find_long tl arg argLen
      else find_long tl arg argLen
    end
  end.

(* the  if(inOpt) { ... }  block *)
Definition read_short (opts : list option_row) (c0 : cursor) : res outcome :=
  x <- peek (c_arg c0) 0 ;;
  let character := sx8 x in                      (* character = *(arg++) : char -> int *)
  c <- adv_cur c0 1 ;;
  match find_short opts character with
  | Some o =>
    if o_arg o then
      z <- peek (c_arg c) 0 ;;
      (* repaired: was  argumentFlag && !optionalFlag  (an optional value was never taken) *)
      if negb (o_optional o) || negb (z =? 0) then
        if z =? 0 then
          ' (c', ok) <- nextChar c ;;
          if negb ok then Ok (c', Some (ch_colon, [ch_dash; w8 character]))   (* missing argument *)
          else take_rest c' character
        else take_rest c character
      else Ok (c, Some (character, []))
    else Ok (c, Some (character, []))
  | None => Ok (c, Some (ch_qmark, [ch_dash; w8 character]))                   (* unknown option *)
  end.

(* "--name..." : c points behind the two dashes x y *)
Definition read_long (opts : list option_row) (x y : Z) (c : cursor) : res outcome :=
  e <- c_find (c_arg c) ch_eq ;;
  argLen <- match e with Some k => Ok k | None => c_strlen (c_arg c) end ;;
  let has_eq := match e with Some _ => true | None => false end in
  let unknown :=
    a2 <- adv (c_arg c) argLen ;;
    l2 <- c_strlen a2 ;;
    let tot := (argLen + l2)%nat in
    a <- attach_back c 2 (tot + 2) (x :: y :: firstn tot (c_arg c)) ;;   (* argument.attach(arg - 2, argLen + 2) *)
    c' <- adv_cur c tot ;;
    Ok (c', Some (ch_qmark, a)) in
  o <- find_long opts (c_arg c) argLen ;;
  match o with
  | Some o =>
    (* repaired: a value given to an option that takes none is rejected (was: cursor left
       inside the string, next read returned the value minus its first character) *)
    if has_eq && negb (o_arg o) then unknown
    else
      let argName := c_arg c in
      c <- adv_cur c (if has_eq then S argLen else argLen) ;;
      if o_arg o then
        if has_eq then take_rest c (o_char o)
        else if negb (o_optional o) then
          ' (c', ok) <- nextChar c ;;
          if ok then take_rest c' (o_char o)
          else a <- attach_back c' (argLen + 2) (argLen + 2) (x :: y :: firstn argLen argName) ;;
               Ok (c', Some (ch_colon, a))        (* missing argument: argument.attach(argName - 2, argLen + 2) *)
        else Ok (c, Some (o_char o, []))
      else Ok (c, Some (o_char o, []))
  | None => unknown
  end.

Definition read_tail (opts : list option_row) (c : cursor) : res outcome :=
  if c_inOpt c then read_short opts c else take_rest c 0.

Definition read (opts : list option_row) (c0 : cursor) : res outcome :=
  ' (c, ok) <- nextChar c0 ;;
  if negb ok then Ok (c, None) else
  if negb (c_inOpt c) && negb (c_skipOpt c) then
    x <- peek (c_arg c) 0 ;;
    if x =? ch_dash then
      y <- peek (c_arg c) 1 ;;
      if y =? ch_dash then
        c <- adv_cur c 2 ;;
        z <- peek (c_arg c) 0 ;;
        if z =? 0 then
          ' (c, ok) <- nextChar (set_skipOpt c) ;;
          if negb ok then Ok (c, None) else read_tail opts c
        else read_long opts x y c
      else
        c <- adv_cur c 1 ;;
        z <- peek (c_arg c) 0 ;;
        if z =? 0 then a <- attach_back c 1 1 [x] ;; Ok (c, Some (0, a))   (* argument.attach(arg - 1, 1) *)
        else read_tail opts (set_inOpt c)
    else read_tail opts c
  else read_tail opts c.

Fixpoint run (fuel : nat) (opts : list option_row) (c : cursor) : res (list (Z * str)) :=
  match fuel with
  | O => Fuel
  | S f => ' (c', r) <- read opts c ;;
           match r with
           | None => Ok []
           | Some it => rest <- run f opts c' ;; Ok (it :: rest)
           end
  end.

Definition weight (argv : list str) : nat := fold_right (fun s n => S (length s + n)) 0%nat argv.

(* while(arguments.read(character, argument)) ... *)
Definition read_all (opts : list option_row) (argv : list str) : res (list (Z * str)) :=
  run (S (weight argv)) opts (init_cursor argv).

(* ---------------------------------------------------------------------------------------- *)
(* B. Process::Private::splitCommandLine                                                    *)
(* ---------------------------------------------------------------------------------------- *)

(* has: repaired - a quoted segment (even an empty one) makes the last word count
   (was: the last word was dropped whenever it was empty, also for  prog followed by an empty quoted word) *)
Definition split_finish (arg : str) (has : bool) (cmd : list str) : list str :=
  if has || negb (match arg with [] => true | _ => false end) then cmd ++ [arg] else cmd.

Fixpoint split_loop (fuel : nat) (inq : bool) (p arg : str) (has : bool) (cmd : list str) : res (list str) :=
  match fuel with
  | O => Fuel
  | S f =>
    x <- peek p 0 ;;
    if inq then
      if x =? 0 then Ok (split_finish arg has cmd)
      else if x =? ch_quote then p <- adv p 1 ;; split_loop f false p arg has cmd
      else if x =? ch_bslash then
        y <- peek p 1 ;;
        if y =? ch_quote then p <- adv p 2 ;; split_loop f true p (arg ++ [ch_quote]) has cmd
        else p <- adv p 1 ;; split_loop f true p (arg ++ [x]) has cmd    (* repaired: was  continue  without a step *)
      else p <- adv p 1 ;; split_loop f true p (arg ++ [x]) has cmd
    else
      if x =? 0 then Ok (split_finish arg has cmd)
      else if x =? ch_quote then p <- adv p 1 ;; split_loop f true p arg true cmd
      else if x =? ch_space then p <- adv p 1 ;; split_loop f false p [] false (cmd ++ [arg])
      else p <- adv p 1 ;; split_loop f false p (arg ++ [x]) has cmd
  end.

Definition split_model (s : str) : res (list str) := split_loop (S (length s)) false s [] false [].

(* ---------------------------------------------------------------------------------------- *)
(* C. launch preparation (start/open): what is handed to execvpe                            *)
(* ---------------------------------------------------------------------------------------- *)

(* prepareEnv: i.key() + '=' + the value, in map order *)
Definition prepare_env (env : list (str * str)) : list str :=
  map (fun kv => fst kv ++ [ch_eq] ++ snd kv) env.
(* char** env = ::environ; if(!environment.isEmpty()) env = the prepared strings *)
Definition child_env (env : list (str * str)) : option (list str) :=
  match env with [] => None | _ => Some (prepare_env env) end.

(* argv as an array of possibly-null pointers *)
Definition argv_at (argv : list (option str)) (i : nat) : res (option str) :=
  match nth_error argv i with Some p => Ok p | None => Oob end.

Fixpoint copy_args (n : nat) (argv : list (option str)) (i : nat) : res (list (option str)) :=
  match n with                                   (* for(i = 1; i < argc; ++i) args[i] = argv[i] *)
  | O => Ok []
  | S n' => p <- argv_at argv i ;; r <- copy_args n' argv (S i) ;; Ok (p :: r)
  end.

Definition prepare_args (exe : str) (argc : nat) (argv : list (option str)) : res (list (option str)) :=
  last <- (if (argc =? 0)%nat then Ok (Some []) else argv_at argv (argc - 1)) ;;
  match last with
  | None => Ok argv                              (* argc && !argv[argc - 1] : use argv as it is *)
  | Some _ =>
    let argc := if (argc =? 0)%nat then 1%nat else argc in
    t <- copy_args (argc - 1) argv 1 ;;
    Ok (Some exe :: t ++ [None])
  end.

(* what exec reads of a pointer array: up to the first null pointer *)
Fixpoint until_null (l : list (option str)) : list str :=
  match l with
  | Some s :: t => s :: until_null t
  | _ => []
  end.

(* start(program, argc, argv, environment) and open(executable, argc, argv, streams, environment)
   carry the same preparation code *)
Definition launch_argv (exe : str) (argc : nat) (argv : list (option str)) (env : list (str * str)) : res exec_call :=
  args <- prepare_args exe argc argv ;;
  Ok {| x_program := exe; x_args := until_null args; x_env := child_env env |}.

(* start(commandLine, environment) / open(commandLine, streams, environment) *)
Definition launch_cmdline (cmd : str) (env : list (str * str)) : res exec_call :=
  ws <- split_model cmd ;;
  let ws := match ws with [] => [[]] | _ => ws end in
  launch_argv (hd [] ws) (S (length ws)) (map Some ws ++ [None]) env.

(* Process.cpp carries the argv/env preparation twice - open(executable, argc, argv, streams, environment) and
   start(program, argc, argv, environment) - and the loop that copies the split words into an argv array twice -
   open(commandLine, ..) and start(commandLine, ..).  The functions above are the open() entry points; the start()
   entry points are named separately (the text of the code is the same today, an edit of one copy is not an edit of
   the other): each has its own statement in Properties_C20 and its own launches in the correspondence check. *)
Definition start_argv (program : str) (argc : nat) (argv : list (option str)) (env : list (str * str)) : res exec_call :=
  args <- prepare_args program argc argv ;;
  Ok {| x_program := program; x_args := until_null args; x_env := child_env env |}.

Definition start_cmdline (cmd : str) (env : list (str * str)) : res exec_call :=
  ws <- split_model cmd ;;
  let ws := match ws with [] => [[]] | _ => ws end in
  start_argv (hd [] ws) (S (length ws)) (map Some ws ++ [None]) env.

(* open(executable, List<String> args, streams, environment) *)
Definition launch_list (exe : str) (args : list str) (env : list (str * str)) : res exec_call :=
  launch_argv exe (length args) (map Some args) env.     (* repaired: environment was not passed on *)
