(* C20 part A - Process::Arguments: every call of read() on a reachable cursor performs exactly
   one step of the getopt_long reference (refinement), stays inside the argument strings and
   strictly decreases the number of remaining characters; hence read_all = getopt_ref. *)
From Coq Require Import ZArith List Bool Lia.
From Common Require Import Words.
From Args Require Import ArgsSpec ArgsModel ArgsProofsStr.
Import ListNotations.
Local Open Scope Z_scope.

Definition wf_opts (opts : list option_row) : Prop :=
  Forall (fun o => match o_name o with Some n => nz n | None => True end) opts.

Definition wf_argv (argv : list str) : Prop := Forall wf_str argv.

(* ---- option table lookups ---- *)
Lemma find_short_spec opts b : find_short opts (sx8 b) = short_lookup opts b.
Proof.
  unfold short_lookup. induction opts as [|o tl IH]; [reflexivity|].
  cbn [find_short find]. destruct (o_char o =? sx8 b); [reflexivity|exact IH].
Qed.

Lemma short_lookup_char opts b o : short_lookup opts b = Some o -> o_char o = sx8 b.
Proof.
  unfold short_lookup. intro H. apply find_some in H. destruct H as [_ H].
  apply Z.eqb_eq in H. exact H.
Qed.

Lemma find_long_spec opts arg len : wf_opts opts -> nz arg -> (len <= length arg)%nat ->
  find_long opts arg len = Ok (long_lookup opts (firstn len arg)).
Proof.
  unfold long_lookup.
  induction opts as [|o tl IH]; intros Hw Ha Hl; [reflexivity|].
  inversion Hw as [|o' tl' Ho Htl]; subst.
  cbn [find_long find].
  destruct (o_name o) as [n|] eqn:En.
  - destruct (name_match_spec len n arg Ho Ha Hl) as [r [Hr Hc]].
    rewrite Hr. cbn [bind].
    destruct (r =? 0).
    + destruct Hc as [z [Hz Hzz]]. rewrite Hz. cbn [bind]. rewrite <- Hzz.
      destruct (z =? 0); [reflexivity|]. apply IH; auto.
    + rewrite Hc. apply IH; auto.
  - apply IH; auto.
Qed.

(* ---- list helpers ---- *)
Lemma skipn_app_len {A} (a b : list A) : skipn (length a) (a ++ b) = b.
Proof. induction a as [|x a IH]; [reflexivity|]. cbn. exact IH. Qed.

Lemma firstn_app_len {A} (a b : list A) : firstn (length a) (a ++ b) = a.
Proof. induction a as [|x a IH]; [reflexivity|]. cbn. f_equal. exact IH. Qed.

Lemma adv_app a b : adv (a ++ b) (length a) = Ok b.
Proof.
  unfold adv. rewrite app_length.
  replace (length a <=? length a + length b)%nat with true by (symmetry; apply Nat.leb_le; lia).
  rewrite skipn_app_len. reflexivity.
Qed.

Lemma adv_app_S a x b : adv (a ++ x :: b) (S (length a)) = Ok b.
Proof.
  replace (a ++ x :: b) with ((a ++ [x]) ++ b) by (rewrite <- app_assoc; reflexivity).
  replace (S (length a)) with (length (a ++ [x])) by (rewrite app_length; cbn; lia).
  apply adv_app.
Qed.

Lemma weight_cons s tl : weight (s :: tl) = S (length s + weight tl).
Proof. reflexivity. Qed.

(* ---- the abstraction: what the reference still has to report from a cursor ---- *)
Section Refine.
Variable opts : list option_row.

Definition after (used : bool) (tl : list str) : list item :=
  match tl with
  | [] => []
  | _ :: tl' => if used then ref_args opts false tl' else ref_args opts false tl
  end.

Definition cluster_items (cs : str) (tl : list str) : list item :=
  let (its, used) := ref_cluster opts cs (hd_error tl) in its ++ after used tl.

Definition long_items (body : str) (tl : list str) : list item :=
  let (it, used) := ref_long opts body (hd_error tl) in it :: after used tl.

Definition items_of (c : cursor) : list item :=
  match c_arg c with
  | [] => ref_args opts (c_skipOpt c) (c_rest c)
  | cs => cluster_items cs (c_rest c)
  end.

(* reachable cursors: at the end of a string, or inside a cluster of short options *)
Definition Inv (c : cursor) : Prop :=
  (c_arg c = [] \/ (c_inOpt c = true /\ c_skipOpt c = false)) /\
  wf_str (c_arg c) /\ wf_argv (c_rest c).

(* characters (and terminators) not yet consumed *)
Definition cweight (c : cursor) : nat := (length (c_arg c) + weight (c_rest c))%nat.

Lemma after_false tl : after false tl = ref_args opts false tl.
Proof. destruct tl; reflexivity. Qed.

Lemma cluster_items_nil tl : cluster_items [] tl = ref_args opts false tl.
Proof. unfold cluster_items. cbn [ref_cluster app]. apply after_false. Qed.

Lemma items_of_noskip r i a p io : items_of (Build_cursor r i a p io false) = cluster_items a r.
Proof.
  unfold items_of. cbn [c_arg c_rest c_skipOpt]. destruct a; [|reflexivity].
  symmetry. apply cluster_items_nil.
Qed.

Lemma ref_args_long body tl : body <> [] ->
  ref_args opts false ((ch_dash :: ch_dash :: body) :: tl) = long_items body tl.
Proof.
  intro Hb. destruct body as [|z body]; [contradiction|].
  unfold long_items. cbn [ref_args shape_of]. rewrite !Z.eqb_refl.
  destruct (ref_long opts (z :: body) (hd_error tl)) as [it used].
  reflexivity.
Qed.

Lemma ref_args_cluster y cs tl : y <> ch_dash ->
  ref_args opts false ((ch_dash :: y :: cs) :: tl) = cluster_items (y :: cs) tl.
Proof.
  intro Hy. unfold cluster_items. cbn [ref_args shape_of]. rewrite Z.eqb_refl.
  apply Z.eqb_neq in Hy. rewrite Hy.
  destruct (ref_cluster opts (y :: cs) (hd_error tl)) as [its used]. reflexivity.
Qed.

Lemma ref_args_plain s tl : (match s with d :: _ :: _ => d <> ch_dash | _ => True end) ->
  ref_args opts false (s :: tl) = INon s :: ref_args opts false tl.
Proof.
  intro H. cbn [ref_args]. destruct s as [|d [|c s]]; try reflexivity.
  cbn [shape_of]. apply Z.eqb_neq in H. rewrite H. reflexivity.
Qed.

(* what one call of read must achieve *)
Definition step_ok (c : cursor) (r : res outcome) : Prop :=
  exists c' o, r = Ok (c', o) /\
    match o with
    | None => items_of c = [] /\ Inv c' /\ items_of c' = []
    | Some ob => exists i, ob = obs_of_item i /\ items_of c = i :: items_of c' /\
                           Inv c' /\ (cweight c' < cweight c)%nat
    end.

(* len = length(arg); argument.attach(arg, len); arg += len *)
Lemma take_rest_spec r i a p io sk ch : nz a ->
  take_rest (Build_cursor r i a p io sk) ch =
  Ok (Build_cursor r i [] (p + length a) io sk, Some (ch, a)).
Proof.
  intro Ha. unfold take_rest, adv_cur. cbn [c_arg c_rest c_idx c_pos c_inOpt c_skipOpt].
  rewrite (c_strlen_spec a Ha). cbn [bind]. rewrite adv_len. cbn [bind].
  rewrite firstn_all. reflexivity.
Qed.

Hypothesis Hopts : wf_opts opts.

(* one option character of a cluster *)
Lemma read_short_spec r i b t p : wf_str (b :: t) -> wf_argv r ->
  exists c' ob it, read_short opts (Build_cursor r i (b :: t) p true false) = Ok (c', Some ob) /\
    ob = obs_of_item it /\ cluster_items (b :: t) r = it :: items_of c' /\ Inv c' /\
    (cweight c' < S (length t) + weight r)%nat.
Proof.
  intros Hw Hr. apply wf_cons_inv in Hw. destruct Hw as [Hb Ht].
  pose proof (wf_str_nz t Ht) as Htz.
  unfold read_short, adv_cur. cbn [c_arg c_rest c_idx c_pos c_inOpt c_skipOpt].
  rewrite peek_cons0. cbn [bind]. rewrite adv_consS, adv_0. cbn [bind].
  cbn [c_arg c_rest c_idx c_pos c_inOpt c_skipOpt].
  rewrite find_short_spec.
  unfold cluster_items at 1. cbn [ref_cluster].
  assert (Hinv1 : Inv (Build_cursor r i t (p + 1) true false)).
  { unfold Inv. cbn [c_arg c_rest c_inOpt c_skipOpt]. auto. }
  assert (Hw1 : (cweight (Build_cursor r i t (p + 1) true false) < S (length t) + weight r)%nat).
  { unfold cweight. cbn [c_arg c_rest]. lia. }
  destruct (short_lookup opts b) as [o|] eqn:El.
  - pose proof (short_lookup_char opts b o El) as Hc.
    unfold takes_required, takes_optional.
    destruct (o_arg o) eqn:Ea; cbn [andb].
    + destruct (o_optional o) eqn:Eo; cbn [negb orb].
      * (* optional value *)
        destruct t as [|z t'].
        -- rewrite peek_nil0. cbn [bind]. cbn [Z.eqb negb].
           eexists _, _, (IOpt (o_char o)). split; [reflexivity|].
           split; [cbn [obs_of_item]; rewrite Hc; reflexivity|].
           split; [|split; [exact Hinv1|exact Hw1]].
           cbn [app]. rewrite after_false. reflexivity.
        -- rewrite peek_cons0. cbn [bind].
           apply nz_cons_inv in Htz as Hz. destruct Hz as [Hz _].
           destruct (z =? 0) eqn:Ez; [apply Z.eqb_eq in Ez; contradiction|]. cbn [negb].
           rewrite (take_rest_spec _ _ _ _ _ _ _ Htz).
           eexists _, _, (IOptArg (o_char o) (z :: t')). split; [reflexivity|].
           split; [cbn [obs_of_item]; rewrite Hc; reflexivity|].
           split; [cbn [app]; rewrite after_false; reflexivity|].
           split; [unfold Inv; cbn [c_arg c_rest c_inOpt c_skipOpt]; split; [auto|split; [constructor|exact Hr]]|].
           unfold cweight. cbn [c_arg c_rest length]. lia.
      * (* required value *)
        destruct t as [|z t'].
        -- rewrite peek_nil0. cbn [bind]. cbn [Z.eqb].
           unfold nextChar. cbn [c_arg c_rest c_idx c_pos c_inOpt c_skipOpt].
           rewrite peek_nil0. cbn [bind]. cbn [Z.eqb negb].
           destruct r as [|s tl].
           ++ cbn [bind negb hd_error].
              eexists _, _, (IMissing [ch_dash; b]). split; [reflexivity|].
              split; [cbn [obs_of_item]; rewrite sx8_w8 by lia; reflexivity|].
              split; [reflexivity|]. split; [exact Hinv1|exact Hw1].
           ++ cbn [bind negb hd_error].
              inversion Hr as [|s' tl' Hs Htl]; subst.
              rewrite (take_rest_spec _ _ _ _ _ _ _ (wf_str_nz s Hs)).
              eexists _, _, (IOptArg (o_char o) s). split; [reflexivity|].
              split; [cbn [obs_of_item]; rewrite Hc; reflexivity|].
              split; [reflexivity|].
              split; [unfold Inv; cbn [c_arg c_rest c_inOpt c_skipOpt]; split; [auto|split; [constructor|exact Htl]]|].
              unfold cweight. cbn [c_arg c_rest]; rewrite ?weight_cons; cbn [length]. lia.
        -- rewrite peek_cons0. cbn [bind].
           apply nz_cons_inv in Htz as Hz. destruct Hz as [Hz _].
           destruct (z =? 0) eqn:Ez; [apply Z.eqb_eq in Ez; contradiction|].
           rewrite (take_rest_spec _ _ _ _ _ _ _ Htz).
           eexists _, _, (IOptArg (o_char o) (z :: t')). split; [reflexivity|].
           split; [cbn [obs_of_item]; rewrite Hc; reflexivity|].
           split; [cbn [app]; rewrite after_false; reflexivity|].
           split; [unfold Inv; cbn [c_arg c_rest c_inOpt c_skipOpt]; split; [auto|split; [constructor|exact Hr]]|].
           unfold cweight. cbn [c_arg c_rest length]. lia.
    + (* flag *)
      destruct (ref_cluster opts t (hd_error r)) as [its used] eqn:Ec.
      eexists _, _, (IOpt (o_char o)). split; [reflexivity|].
      split; [cbn [obs_of_item]; rewrite Hc; reflexivity|].
      split; [|split; [exact Hinv1|exact Hw1]].
      rewrite items_of_noskip. unfold cluster_items. rewrite Ec. reflexivity.
  - (* unknown option character *)
    destruct (ref_cluster opts t (hd_error r)) as [its used] eqn:Ec.
    eexists _, _, (IUnknown [ch_dash; b]). split; [reflexivity|].
    split; [cbn [obs_of_item]; rewrite sx8_w8 by lia; reflexivity|].
    split; [|split; [exact Hinv1|exact Hw1]].
    rewrite items_of_noskip. unfold cluster_items. rewrite Ec. reflexivity.
Qed.

(* "--body", body not empty; the cursor stands behind the two dashes *)
Lemma attach_back_ok c k len b :
  (k <= c_pos c)%nat -> (len <= k + length (c_arg c))%nat -> attach_back c k len b = Ok b.
Proof.
  intros H1 H2. unfold attach_back.
  apply Nat.leb_le in H1, H2. rewrite H1, H2. reflexivity.
Qed.

Lemma read_long_spec r i body p io : (2 <= p)%nat -> body <> [] -> wf_str body -> wf_argv r ->
  exists c' ob it, read_long opts ch_dash ch_dash (Build_cursor r i body p io false) = Ok (c', Some ob) /\
    ob = obs_of_item it /\ long_items body r = it :: items_of c' /\ Inv c' /\
    (cweight c' <= length body + weight r)%nat.
Proof.
  intros Hp Hne Hw Hr. pose proof (wf_str_nz body Hw) as Hz.
  destruct (split_eq body) as [name val] eqn:Es.
  pose proof (split_eq_app body name val Es) as Hbody.
  set (vr := match val with Some v => ch_eq :: v | None => [] end) in Hbody.
  unfold read_long. cbn [c_arg c_rest c_idx c_pos c_inOpt c_skipOpt].
  rewrite (c_find_spec body name val Hz Es). cbn [bind].
  assert (Hlen : (match val with Some _ => Ok (length name) | None => c_strlen body end) = Ok (length name)).
  { destruct val; [reflexivity|]. rewrite (c_strlen_spec body Hz).
    apply split_eq_none in Es. subst. reflexivity. }
  replace (match match val with Some _ => Some (length name) | None => None end with
           | Some k => Ok k | None => c_strlen body end)
    with (@Ok nat (length name)) by (destruct val; [reflexivity| symmetry; exact Hlen]).
  cbn [bind].
  assert (Hfirst : firstn (length name) body = name).
  { rewrite Hbody at 1. apply firstn_app_len. }
  assert (Hle : (length name <= length body)%nat).
  { rewrite Hbody, app_length. lia. }
  rewrite (find_long_spec opts body (length name) Hopts Hz Hle). cbn [bind]. rewrite Hfirst.
  (* the "unknown option" exit *)
  assert (Hunk :
    (a2 <- adv body (length name) ;; l2 <- c_strlen a2 ;;
     a <- attach_back (Build_cursor r i body p io false) 2 (length name + l2 + 2)
            (ch_dash :: ch_dash :: firstn (length name + l2) body) ;;
     c' <- adv_cur (Build_cursor r i body p io false) (length name + l2) ;;
     Ok (c', Some (ch_qmark, a)))
    = Ok (Build_cursor r i [] (p + length body) io false, Some (ch_qmark, ch_dash :: ch_dash :: body))).
  { rewrite Hbody at 1. rewrite adv_app. cbn [bind].
    assert (Hv : nz vr).
    { rewrite Hbody in Hz. apply nz_app in Hz. tauto. }
    rewrite (c_strlen_spec vr Hv). cbn [bind].
    assert (Htot : (length name + length vr = length body)%nat).
    { rewrite Hbody at 1. rewrite app_length. reflexivity. }
    rewrite Htot. rewrite attach_back_ok by (cbn [c_pos c_arg]; lia). cbn [bind].
    unfold adv_cur. cbn [c_arg c_rest c_idx c_pos c_inOpt c_skipOpt].
    rewrite adv_len. cbn [bind]. rewrite firstn_all. reflexivity. }
  subst vr.
  assert (Hinv_end : forall q, Inv (Build_cursor r i [] q io false)).
  { intro q. unfold Inv. cbn [c_arg c_rest c_inOpt c_skipOpt]. split; [auto|split; [constructor|exact Hr]]. }
  assert (Hw_end : forall q, (cweight (Build_cursor r i [] q io false) <= length body + weight r)%nat).
  { intro q. unfold cweight. cbn [c_arg c_rest length]. lia. }
  unfold long_items, ref_long. rewrite Es.
  destruct (long_lookup opts name) as [o|] eqn:El.
  - destruct (o_arg o) eqn:Ea.
    + (* takes a value *)
      rewrite andb_false_r.
      destruct val as [v|].
      * (* --name=value *)
        unfold adv_cur. cbn [c_arg c_rest c_idx c_pos c_inOpt c_skipOpt].
        assert (Hadv : adv body (S (length name)) = Ok v).
        { rewrite Hbody. apply adv_app_S. }
        rewrite Hadv. cbn [bind].
        assert (Hv : nz v).
        { rewrite Hbody in Hz. apply nz_app in Hz. destruct Hz as [_ Hz].
          apply nz_cons_inv in Hz. tauto. }
        rewrite (take_rest_spec _ _ _ _ _ _ _ Hv).
        eexists _, _, (IOptArg (o_char o) v). split; [reflexivity|].
        split; [reflexivity|]. split; [rewrite after_false; reflexivity|].
        split; [apply Hinv_end|apply Hw_end].
      * (* --name *)
        rewrite app_nil_r in Hbody. subst name.
        unfold adv_cur. cbn [c_arg c_rest c_idx c_pos c_inOpt c_skipOpt].
        rewrite adv_len. cbn [bind].
        destruct (o_optional o) eqn:Eo; cbn [negb].
        -- eexists _, _, (IOpt (o_char o)). split; [reflexivity|].
           split; [reflexivity|]. split; [rewrite after_false; reflexivity|].
           split; [apply Hinv_end|apply Hw_end].
        -- unfold nextChar. cbn [c_arg c_rest c_idx c_pos c_inOpt c_skipOpt].
           rewrite peek_nil0. cbn [bind]. cbn [Z.eqb negb].
           destruct r as [|s tl].
           ++ cbn [bind hd_error].
              rewrite attach_back_ok by (cbn [c_pos c_arg length]; lia). cbn [bind].
              eexists _, _, (IMissing (ch_dash :: ch_dash :: body)). split; [reflexivity|].
              split; [reflexivity|]. split; [reflexivity|].
              split; [apply Hinv_end|apply Hw_end].
           ++ cbn [bind hd_error].
              inversion Hr as [|s' tl' Hs Htl]; subst.
              rewrite (take_rest_spec _ _ _ _ _ _ _ (wf_str_nz s Hs)).
              eexists _, _, (IOptArg (o_char o) s). split; [reflexivity|].
              split; [reflexivity|]. split; [reflexivity|].
              split; [unfold Inv; cbn [c_arg c_rest c_inOpt c_skipOpt]; split; [auto|split; [constructor|exact Htl]]|].
              unfold cweight. cbn [c_arg c_rest]; rewrite ?weight_cons; cbn [length]. lia.
    + (* takes no value *)
      rewrite andb_true_r.
      destruct val as [v|].
      * (* --flag=value : reported as unknown *)
        rewrite Hunk.
        eexists _, _, (IUnknown (ch_dash :: ch_dash :: body)). split; [reflexivity|].
        split; [reflexivity|]. split; [rewrite after_false; reflexivity|].
        split; [apply Hinv_end|apply Hw_end].
      * rewrite app_nil_r in Hbody. subst name.
        unfold adv_cur. cbn [c_arg c_rest c_idx c_pos c_inOpt c_skipOpt].
        rewrite adv_len. cbn [bind].
        eexists _, _, (IOpt (o_char o)). split; [reflexivity|].
        split; [reflexivity|]. split; [rewrite after_false; reflexivity|].
        split; [apply Hinv_end|apply Hw_end].
  - rewrite Hunk.
    eexists _, _, (IUnknown (ch_dash :: ch_dash :: body)). split; [reflexivity|].
    split; [reflexivity|]. split; [rewrite after_false; reflexivity|].
    split; [apply Hinv_end|apply Hw_end].
Qed.

(* the refinement step *)
Lemma read_refines c : Inv c -> step_ok c (read opts c).
Proof.
  destruct c as [r i a p io sk]. intros [Hshape [Ha Hr]].
  cbn [c_arg c_rest c_inOpt c_skipOpt] in Hshape, Ha, Hr.
  unfold step_ok.
  destruct a as [|b t].
  - (* at the end of a string: move on to the next one *)
    unfold read, nextChar. cbn [c_arg c_rest c_idx c_pos c_inOpt c_skipOpt].
    rewrite peek_nil0. cbn [bind]. cbn [Z.eqb negb].
    destruct r as [|s tl].
    + cbn [bind negb]. eexists _, None. split; [reflexivity|].
      assert (Hi : items_of (Build_cursor [] i [] p io sk) = []).
      { unfold items_of. cbn [c_arg c_rest c_skipOpt]. destruct sk; reflexivity. }
      split; [exact Hi|]. split; [|exact Hi].
      unfold Inv. cbn [c_arg c_rest c_inOpt c_skipOpt]. auto.
    + cbn [bind negb c_arg c_rest c_idx c_pos c_inOpt c_skipOpt].
      inversion Hr as [|s' tl' Hs Htl]; subst.
      pose proof (wf_str_nz s Hs) as Hsz.
      assert (Hinv_end : forall q io' sk', Inv (Build_cursor tl (S i) [] q io' sk')).
      { intros. unfold Inv. cbn [c_arg c_rest c_inOpt c_skipOpt]. split; [auto|split; [constructor|exact Htl]]. }
      assert (Hw_end : forall q io' sk',
        (cweight (Build_cursor tl (S i) [] q io' sk') < cweight (Build_cursor (s :: tl) i [] p io sk))%nat).
      { intros. unfold cweight. cbn [c_arg c_rest]; rewrite ?weight_cons; cbn [length]. lia. }
      destruct sk.
      * (* after "--": everything is an argument *)
        cbn [negb andb]. unfold read_tail. cbn [c_inOpt].
        rewrite (take_rest_spec _ _ _ _ _ _ _ Hsz).
        eexists _, _. split; [reflexivity|]. exists (INon s).
        split; [reflexivity|]. split; [reflexivity|]. split; [apply Hinv_end|apply Hw_end].
      * cbn [negb andb].
        destruct s as [|x s'].
        -- (* "" *)
           rewrite peek_nil0. cbn [bind]. change (0 =? ch_dash) with false. cbn iota.
           unfold read_tail. cbn [c_inOpt].
           rewrite (take_rest_spec _ _ _ _ _ _ _ Hsz).
           eexists _, _. split; [reflexivity|]. exists (INon []).
           split; [reflexivity|]. split; [reflexivity|]. split; [apply Hinv_end|apply Hw_end].
        -- rewrite peek_cons0. cbn [bind].
           destruct (x =? ch_dash) eqn:Ex.
           ++ apply Z.eqb_eq in Ex. subst x.
              rewrite peek_consS.
              destruct s' as [|y s''].
              ** (* "-" *)
                 rewrite peek_nil0. cbn [bind]. change (0 =? ch_dash) with false. cbn iota.
                 unfold adv_cur. cbn [c_arg c_rest c_idx c_pos c_inOpt c_skipOpt].
                 rewrite adv_consS, adv_0. cbn [bind c_arg]. rewrite peek_nil0. cbn [bind]. cbn [Z.eqb].
                 rewrite attach_back_ok by (cbn [c_pos c_arg length]; lia). cbn [bind].
                 eexists _, _. split; [reflexivity|]. exists (INon [ch_dash]).
                 split; [reflexivity|]. split; [reflexivity|]. split; [apply Hinv_end|apply Hw_end].
              ** rewrite peek_cons0. cbn [bind].
                 apply wf_cons_inv in Hs. destruct Hs as [_ Hs].
                 apply wf_cons_inv in Hs as Hy. destruct Hy as [Hy Hs''].
                 destruct (y =? ch_dash) eqn:Ey.
                 --- apply Z.eqb_eq in Ey. subst y.
                     unfold adv_cur at 1. cbn [c_arg c_rest c_idx c_pos c_inOpt c_skipOpt].
                     rewrite !adv_consS, adv_0. cbn [bind c_arg].
                     destruct s'' as [|z s'''].
                     +++ (* "--" : the terminator *)
                         rewrite peek_nil0. cbn [bind]. cbn [Z.eqb].
                         unfold nextChar, set_skipOpt. cbn [c_arg c_rest c_idx c_pos c_inOpt c_skipOpt].
                         rewrite peek_nil0. cbn [bind]. cbn [Z.eqb negb].
                         destruct tl as [|s2 tl2].
                         *** cbn [bind negb]. eexists _, None. split; [reflexivity|].
                             split; [reflexivity|]. split; [|reflexivity].
                             unfold Inv. cbn [c_arg c_rest c_inOpt c_skipOpt]. auto.
                         *** cbn [bind negb]. unfold read_tail. cbn [c_inOpt].
                             inversion Htl as [|s2' tl2' Hs2 Htl2]; subst.
                             rewrite (take_rest_spec _ _ _ _ _ _ _ (wf_str_nz s2 Hs2)).
                             eexists _, _. split; [reflexivity|]. exists (INon s2).
                             split; [reflexivity|]. split; [reflexivity|].
                             split; [unfold Inv; cbn [c_arg c_rest c_inOpt c_skipOpt]; split; [auto|split; [constructor|exact Htl2]]|].
                             unfold cweight. cbn [c_arg c_rest]; rewrite ?weight_cons; cbn [length]. lia.
                     +++ (* "--name..." *)
                         rewrite peek_cons0. cbn [bind].
                         apply wf_cons_inv in Hs'' as Hzz. destruct Hzz as [Hzz _].
                         destruct (z =? 0) eqn:Ez; [apply Z.eqb_eq in Ez; lia|].
                         destruct (read_long_spec tl (S i) (z :: s''') (0 + 2) false) as [c' [ob [it [H1 [H2 [H3 [H4 H5]]]]]]];
                           [lia|discriminate|exact Hs''|exact Htl|].
                         rewrite H1. eexists _, _. split; [reflexivity|]. exists it.
                         split; [exact H2|].
                         split; [unfold items_of at 1; cbn [c_arg c_rest c_skipOpt];
                                 rewrite ref_args_long by discriminate; exact H3|].
                         split; [exact H4|].
                         unfold cweight at 2. cbn [c_arg c_rest]; rewrite ?weight_cons; cbn [length].
                         cbn [length] in H5. lia.
                 --- (* "-abc" : a cluster starts *)
                     unfold adv_cur. cbn [c_arg c_rest c_idx c_pos c_inOpt c_skipOpt].
                     rewrite adv_consS, adv_0. cbn [bind c_arg]. rewrite peek_cons0. cbn [bind].
                     destruct (y =? 0) eqn:Ez; [apply Z.eqb_eq in Ez; lia|].
                     unfold read_tail, set_inOpt. cbn [c_arg c_rest c_idx c_pos c_inOpt c_skipOpt].
                     destruct (read_short_spec tl (S i) y s'' (0 + 1) Hs Htl) as [c' [ob [it [H1 [H2 [H3 [H4 H5]]]]]]].
                     rewrite H1. eexists _, _. split; [reflexivity|]. exists it.
                     split; [exact H2|].
                     split; [unfold items_of at 1; cbn [c_arg c_rest c_skipOpt];
                             rewrite ref_args_cluster by (apply Z.eqb_neq; exact Ey); exact H3|].
                     split; [exact H4|].
                     unfold cweight at 2. cbn [c_arg c_rest]; rewrite ?weight_cons; cbn [length]. lia.
           ++ (* an ordinary argument *)
              unfold read_tail. cbn [c_inOpt].
              rewrite (take_rest_spec _ _ _ _ _ _ _ Hsz).
              eexists _, _. split; [reflexivity|]. exists (INon (x :: s')).
              split; [reflexivity|].
              split; [unfold items_of; cbn [c_arg c_rest c_skipOpt]; apply ref_args_plain;
                      destruct s'; [exact I|apply Z.eqb_neq; exact Ex]|].
              split; [apply Hinv_end|apply Hw_end].
  - (* inside a cluster *)
    destruct Hshape as [Hnil|[Hio Hsk]]; [discriminate|]. subst io sk.
    apply wf_cons_inv in Ha as Hb. destruct Hb as [Hb _].
    unfold read, nextChar. cbn [c_arg c_rest c_idx c_pos c_inOpt c_skipOpt].
    rewrite peek_cons0. cbn [bind].
    destruct (b =? 0) eqn:Eb; [apply Z.eqb_eq in Eb; lia|]. cbn [negb bind c_inOpt c_skipOpt andb].
    unfold read_tail. cbn [c_inOpt].
    destruct (read_short_spec r i b t p Ha Hr) as [c' [ob [it [H1 [H2 [H3 [H4 H5]]]]]]].
    rewrite H1. eexists _, _. split; [reflexivity|]. exists it.
    split; [exact H2|]. split; [exact H3|]. split; [exact H4|].
    unfold cweight at 2. cbn [c_arg c_rest length]. lia.
Qed.

(* iterating read: the whole sequence, within the fuel *)
Lemma run_refines : forall fuel c, Inv c -> (cweight c < fuel)%nat ->
  run fuel opts c = Ok (map obs_of_item (items_of c)).
Proof.
  induction fuel as [|f IH]; intros c Hinv Hf; [lia|].
  cbn [run].
  destruct (read_refines c Hinv) as [c' [o [Hread Ho]]].
  rewrite Hread. cbn [bind].
  destruct o as [ob|].
  - destruct Ho as [it [Hob [Hit [Hinv' Hw]]]].
    rewrite (IH c' Hinv') by lia. cbn [bind]. rewrite Hit. cbn [map]. rewrite Hob. reflexivity.
  - destruct Ho as [Ho _]. rewrite Ho. reflexivity.
Qed.

Lemma init_inv argv : wf_argv argv -> Inv (init_cursor argv).
Proof.
  intro H. unfold Inv, init_cursor. cbn [c_arg c_rest c_inOpt c_skipOpt].
  split; [auto|split; [constructor|exact H]].
Qed.

Lemma read_all_correct argv : wf_argv argv -> read_all opts argv = Ok (getopt_ref opts argv).
Proof.
  intro H. unfold read_all, getopt_ref.
  rewrite (run_refines (S (weight argv)) (init_cursor argv) (init_inv argv H)).
  - reflexivity.
  - unfold cweight, init_cursor. cbn [c_arg c_rest length]. lia.
Qed.

End Refine.

(* ---- consequences stated without the abstraction ---- *)

(* states reachable by calling read repeatedly from the constructor's state *)
Inductive reachable (opts : list option_row) (argv : list str) : cursor -> Prop :=
| reach_init : reachable opts argv (init_cursor argv)
| reach_step c c' o : reachable opts argv c -> read opts c = Ok (c', o) -> reachable opts argv c'.

Lemma reachable_inv opts argv c : wf_opts opts -> wf_argv argv ->
  reachable opts argv c -> Inv c.
Proof.
  intros Ho Ha Hr. induction Hr as [|c c' o Hr IH Hread].
  - apply init_inv. exact Ha.
  - destruct (read_refines opts Ho c IH) as [c2 [o2 [Hread2 Hstep]]].
    rewrite Hread in Hread2. inversion Hread2; subst c2 o2.
    destruct o as [ob|].
    + destruct Hstep as [it [_ [_ [Hinv _]]]]. exact Hinv.
    + destruct Hstep as [_ [Hinv _]]. exact Hinv.
Qed.

(* bounds safety of every call, on every reachable state *)
Lemma read_safe opts argv c : wf_opts opts -> wf_argv argv -> reachable opts argv c ->
  exists c' o, read opts c = Ok (c', o).
Proof.
  intros Ho Ha Hr.
  destruct (read_refines opts Ho c (reachable_inv opts argv c Ho Ha Hr)) as [c' [o [H _]]].
  exists c', o. exact H.
Qed.

(* the measure: a call that reports something consumes at least one character or terminator *)
Lemma read_decreases opts argv c c' ob : wf_opts opts -> wf_argv argv -> reachable opts argv c ->
  read opts c = Ok (c', Some ob) -> (cweight c' < cweight c)%nat.
Proof.
  intros Ho Ha Hr Hread.
  destruct (read_refines opts Ho c (reachable_inv opts argv c Ho Ha Hr)) as [c2 [o2 [H Hs]]].
  rewrite Hread in H. inversion H; subst c2 o2.
  destruct Hs as [it [_ [_ [_ Hw]]]]. exact Hw.
Qed.

(* once read has returned false it keeps returning false *)
Lemma read_false_stays opts argv c c' : wf_opts opts -> wf_argv argv -> reachable opts argv c ->
  read opts c = Ok (c', None) -> exists c'', read opts c' = Ok (c'', None).
Proof.
  intros Ho Ha Hr Hread.
  destruct (read_refines opts Ho c (reachable_inv opts argv c Ho Ha Hr)) as [c2 [o2 [H Hs]]].
  rewrite Hread in H. inversion H; subst c2 o2.
  destruct Hs as [_ [Hinv Hnil]].
  destruct (read_refines opts Ho c' Hinv) as [c3 [o3 [H3 Hs3]]].
  destruct o3 as [ob|].
  - destruct Hs3 as [it [_ [Hit _]]]. rewrite Hnil in Hit. discriminate.
  - exists c3. exact H3.
Qed.

Lemma read_all_total opts argv : wf_opts opts -> wf_argv argv ->
  read_all opts argv <> Fuel /\ read_all opts argv <> Oob.
Proof.
  intros Ho Ha. rewrite (read_all_correct opts Ho argv Ha). split; discriminate.
Qed.

(* the number of reported items is bounded by the characters of the vector *)
Lemma getopt_ref_length opts argv : wf_opts opts -> wf_argv argv ->
  (length (getopt_ref opts argv) <= weight argv)%nat.
Proof.
  intros Ho Ha.
  assert (H : forall fuel c l, Inv c -> run fuel opts c = Ok l -> (length l <= cweight c)%nat).
  { induction fuel as [|f IH]; intros c l Hinv Hrun; [discriminate|].
    cbn [run] in Hrun.
    destruct (read_refines opts Ho c Hinv) as [c' [o [Hread Hs]]].
    rewrite Hread in Hrun. cbn [bind] in Hrun.
    destruct o as [ob|].
    - destruct Hs as [it [_ [_ [Hinv' Hw]]]].
      destruct (run f opts c') as [l'| |] eqn:Er; cbn [bind] in Hrun; try discriminate.
      inversion Hrun; subst. cbn [length]. specialize (IH c' l' Hinv' Er). lia.
    - inversion Hrun; subst. cbn [length]. lia. }
  pose proof (read_all_correct opts Ho argv Ha) as Hc. unfold read_all in Hc.
  specialize (H _ _ _ (init_inv argv Ha) Hc).
  unfold cweight, init_cursor in H. cbn [c_arg c_rest length] in H. lia.
Qed.

(* after the terminator every string is an argument *)
Lemma ref_args_skip opts argv : ref_args opts true argv = map INon argv.
Proof. induction argv as [|s tl IH]; [reflexivity|]. cbn [ref_args map]. f_equal. exact IH. Qed.

Lemma getopt_ref_terminator opts post :
  getopt_ref opts ([ch_dash; ch_dash] :: post) = map (fun s => (0, s)) post.
Proof.
  unfold getopt_ref. cbn [ref_args shape_of]. rewrite !Z.eqb_refl.
  rewrite ref_args_skip, map_map. reflexivity.
Qed.

(* ---- decidable forms of the well-formedness hypotheses (used by the examples) ---- *)
Definition nzb (s : str) : bool := forallb (fun b => negb (b =? 0)) s.
Definition wf_strb (s : str) : bool := forallb (fun b => (0 <? b) && (b <? 256)) s.
Definition wf_argvb (argv : list str) : bool := forallb wf_strb argv.
Definition wf_optsb (opts : list option_row) : bool :=
  forallb (fun o => match o_name o with Some n => nzb n | None => true end) opts.

Lemma nzb_sound s : nzb s = true -> nz s.
Proof.
  unfold nzb, nz. intro H. apply Forall_forall. intros b Hb.
  rewrite forallb_forall in H. specialize (H b Hb).
  apply negb_true_iff in H. apply Z.eqb_neq in H. exact H.
Qed.

Lemma wf_strb_sound s : wf_strb s = true -> wf_str s.
Proof.
  unfold wf_strb, wf_str. intro H. apply Forall_forall. intros b Hb.
  rewrite forallb_forall in H. specialize (H b Hb).
  apply andb_true_iff in H. destruct H as [H1 H2].
  apply Z.ltb_lt in H1. apply Z.ltb_lt in H2. lia.
Qed.

Lemma wf_argvb_sound argv : wf_argvb argv = true -> wf_argv argv.
Proof.
  unfold wf_argvb, wf_argv. intro H. apply Forall_forall. intros s Hs.
  rewrite forallb_forall in H. apply wf_strb_sound. apply H. exact Hs.
Qed.

Lemma wf_optsb_sound opts : wf_optsb opts = true -> wf_opts opts.
Proof.
  unfold wf_optsb, wf_opts. intro H. apply Forall_forall. intros o Ho.
  rewrite forallb_forall in H. specialize (H o Ho).
  destruct (o_name o); [apply nzb_sound; exact H|exact I].
Qed.
