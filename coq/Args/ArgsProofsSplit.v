(* C20 part B - splitCommandLine: the accumulator loop of the code equals the reference word
   splitter on every C string, terminates within length+1 steps on every byte string, never
   reads behind the terminator, and undoes the reference quoting function. *)
From Coq Require Import ZArith List Bool Lia.
From Common Require Import Words.
From Args Require Import ArgsSpec ArgsModel ArgsProofsStr.
Import ListNotations.
Local Open Scope Z_scope.

Definition nonempty (a : str) : bool := negb (match a with [] => true | _ => false end).

Lemma nonempty_snoc a x : nonempty (a ++ [x]) = true.
Proof. destruct a; reflexivity. Qed.

Lemma split_finish_eq arg has cmd :
  split_finish arg has cmd = cmd ++ close_words arg (has || nonempty arg) None.
Proof.
  unfold split_finish, close_words, nonempty.
  destruct (has || negb match arg with [] => true | _ :: _ => false end); [reflexivity|].
  rewrite app_nil_r. reflexivity.
Qed.

Lemma close_words_true w h1 h2 r : h1 = true -> h2 = true -> close_words w h1 r = close_words w h2 r.
Proof. intros; subst; reflexivity. Qed.

Lemma q_ne_0 : (0 =? ch_quote) = false. Proof. reflexivity. Qed.
Lemma bs_ne_q : (ch_bslash =? ch_quote) = false. Proof. reflexivity. Qed.

(* the value the loop computes from any intermediate state *)
Definition split_value (inq : bool) (p arg : str) (has : bool) (cmd : list str) : list str :=
  let s := ref_scan inq p in
  cmd ++ close_words (arg ++ fst (fst s)) (has || nonempty arg || snd (fst s)) (snd s).

Lemma split_loop_spec : forall fuel inq p arg has cmd,
  nz p -> (length p < fuel)%nat -> (inq = true -> has = true) ->
  split_loop fuel inq p arg has cmd = Ok (split_value inq p arg has cmd).
Proof.
  induction fuel as [|f IH]; intros inq p arg has cmd Hnz Hf Hq; [lia|].
  cbn [split_loop]. unfold split_value.
  destruct p as [|c t].
  - (* the terminator *)
    rewrite peek_nil0. cbn [bind]. cbn [Z.eqb].
    replace (ref_scan inq []) with (@nil Z, false, @None (list str)) by (destruct inq; reflexivity).
    cbn [fst snd]. rewrite app_nil_r, orb_false_r.
    destruct inq; rewrite split_finish_eq; reflexivity.
  - rewrite peek_cons0. cbn [bind].
    apply nz_cons_inv in Hnz. destruct Hnz as [Hc Ht].
    destruct (c =? 0) eqn:Ec0; [apply Z.eqb_eq in Ec0; contradiction|].
    cbn [length] in Hf.
    destruct inq.
    + (* inside quotes *)
      specialize (Hq eq_refl). subst has. cbn [orb].
      cbn [ref_scan].
      destruct (c =? ch_quote) eqn:Eq.
      * rewrite adv_consS, adv_0. cbn [bind].
        rewrite IH; [|exact Ht|lia|discriminate]. unfold split_value. cbn [orb].
        destruct (ref_scan false t) as [[w h] r]. cbn [fst snd].
        reflexivity.
      * destruct (c =? ch_bslash) eqn:Eb.
        -- rewrite peek_consS.
           destruct t as [|q t'].
           ++ rewrite peek_nil0. cbn [bind]. rewrite q_ne_0.
              rewrite adv_consS, adv_0. cbn [bind].
              rewrite IH; [|constructor|cbn [length]; lia|reflexivity]. unfold split_value.
              cbn [ref_scan fst snd orb]. rewrite app_nil_r. reflexivity.
           ++ rewrite peek_cons0. cbn [bind].
              apply nz_cons_inv in Ht as Hq. destruct Hq as [_ Ht'].
              destruct (q =? ch_quote) eqn:Eqq.
              ** rewrite !adv_consS, adv_0. cbn [bind].
                 rewrite IH; [|exact Ht'|cbn [length] in Hf; lia|reflexivity]. unfold split_value.
                 destruct (ref_scan true t') as [[w h] r]. cbn [fst snd orb].
                 rewrite <- app_assoc. reflexivity.
              ** rewrite adv_consS, adv_0. cbn [bind].
                 rewrite IH; [|exact Ht|lia|reflexivity]. unfold split_value.
                 destruct (ref_scan true (q :: t')) as [[w h] r]. cbn [fst snd orb].
                 rewrite <- app_assoc. reflexivity.
        -- rewrite adv_consS, adv_0. cbn [bind].
           rewrite IH; [|exact Ht|lia|reflexivity]. unfold split_value.
           destruct (ref_scan true t) as [[w h] r]. cbn [fst snd orb].
           rewrite <- app_assoc. reflexivity.
    + (* outside quotes *)
      cbn [ref_scan].
      destruct (c =? ch_quote) eqn:Eq.
      * rewrite adv_consS, adv_0. cbn [bind].
        rewrite IH; [|exact Ht|lia|reflexivity]. unfold split_value.
        destruct (ref_scan true t) as [[w h] r]. cbn [fst snd orb].
        f_equal. f_equal. apply close_words_true; [reflexivity|].
        rewrite orb_true_r. reflexivity.
      * destruct (c =? ch_space) eqn:Es.
        -- rewrite adv_consS, adv_0. cbn [bind].
           rewrite IH; [|exact Ht|lia|discriminate]. unfold split_value.
           destruct (ref_scan false t) as [[w h] r]. cbn [fst snd orb app close_words nonempty negb].
           rewrite app_nil_r, <- app_assoc. reflexivity.
        -- rewrite adv_consS, adv_0. cbn [bind].
           rewrite IH; [|exact Ht|lia|discriminate]. unfold split_value.
           destruct (ref_scan false t) as [[w h] r]. cbn [fst snd].
           rewrite <- app_assoc. cbn [app]. f_equal. f_equal.
           apply close_words_true.
           ++ rewrite nonempty_snoc, orb_true_r. reflexivity.
           ++ rewrite orb_true_r. reflexivity.
Qed.

Lemma split_model_correct s : nz s -> split_model s = Ok (split_ref s).
Proof.
  intro H. unfold split_model.
  rewrite split_loop_spec; [|exact H|lia|discriminate].
  unfold split_value, split_ref.
  destruct (ref_scan false s) as [[w h] r]. cbn [fst snd app orb nonempty negb]. reflexivity.
Qed.

(* totality and bounds safety on EVERY byte string (NUL bytes inside included): the loop that
   used to spin on a backslash inside quotes makes progress in every branch *)
Lemma split_loop_total : forall fuel inq p arg has cmd, (length p < fuel)%nat ->
  exists ws, split_loop fuel inq p arg has cmd = Ok ws.
Proof.
  induction fuel as [|f IH]; intros inq p arg has cmd Hf; [lia|].
  cbn [split_loop].
  destruct p as [|c t].
  - rewrite peek_nil0. cbn [bind]. cbn [Z.eqb]. destruct inq; eexists; reflexivity.
  - rewrite peek_cons0. cbn [bind]. cbn [length] in Hf.
    assert (H1 : forall inq' arg' has' cmd', exists ws,
              (p <- adv (c :: t) 1 ;; split_loop f inq' p arg' has' cmd') = Ok ws).
    { intros. rewrite adv_consS, adv_0. cbn [bind]. apply IH. lia. }
    destruct inq.
    + destruct (c =? 0); [eexists; reflexivity|].
      destruct (c =? ch_quote); [apply H1|].
      destruct (c =? ch_bslash); [|apply H1].
      rewrite peek_consS.
      destruct t as [|q t'].
      * rewrite peek_nil0. cbn [bind]. rewrite q_ne_0. apply H1.
      * rewrite peek_cons0. cbn [bind].
        destruct (q =? ch_quote); [|apply H1].
        rewrite !adv_consS, adv_0. cbn [bind]. apply IH. cbn [length] in Hf. lia.
    + destruct (c =? 0); [eexists; reflexivity|].
      destruct (c =? ch_quote); [apply H1|].
      destruct (c =? ch_space); apply H1.
Qed.

Lemma split_model_total s : exists ws, split_model s = Ok ws.
Proof. unfold split_model. apply split_loop_total. lia. Qed.

(* ---- round trip against the reference quoting function ---- *)
Lemma last_cons_ne (c : Z) t d : last (c :: t) 0 <> d -> d <> 0 -> last t 0 <> d.
Proof.
  intros H Hd. destruct t as [|q t']; [cbn; auto|]. exact H.
Qed.

Lemma quote_body_head_ne q t rest : exists h X,
  quote_body (q :: t) ++ ch_quote :: rest = h :: X /\ (h =? ch_quote) = false.
Proof.
  cbn [quote_body]. destruct (q =? ch_quote) eqn:E.
  - eexists _, _. split; [reflexivity|]. exact bs_ne_q.
  - eexists _, _. split; [reflexivity|]. exact E.
Qed.

Lemma scan_quoted w : forall rest, last w 0 <> ch_bslash ->
  fst (fst (ref_scan true (quote_body w ++ ch_quote :: rest))) = w ++ fst (fst (ref_scan false rest)) /\
  snd (ref_scan true (quote_body w ++ ch_quote :: rest)) = snd (ref_scan false rest).
Proof.
  assert (Hbs0 : ch_bslash <> 0) by discriminate.
  induction w as [|c t IH]; intros rest Hl.
  - cbn [quote_body app ref_scan]. rewrite Z.eqb_refl. split; reflexivity.
  - cbn [quote_body].
    destruct (c =? ch_quote) eqn:Eq.
    + apply Z.eqb_eq in Eq. subst c.
      cbn [app ref_scan]. rewrite bs_ne_q, !Z.eqb_refl.
      destruct (IH rest (last_cons_ne _ _ _ Hl Hbs0)) as [H1 H2].
      destruct (ref_scan true (quote_body t ++ ch_quote :: rest)) as [[w h] r].
      cbn [fst snd] in *. rewrite H1, H2. split; reflexivity.
    + cbn [app ref_scan]. rewrite Eq.
      destruct (c =? ch_bslash) eqn:Eb.
      * destruct t as [|q t'].
        { exfalso. apply Hl. cbn [last]. apply Z.eqb_eq in Eb. exact Eb. }
        destruct (quote_body_head_ne q t' rest) as [h [X [HX Hh]]].
        destruct (IH rest (last_cons_ne _ _ _ Hl Hbs0)) as [H1 H2].
        rewrite HX in *. rewrite Hh.
        destruct (ref_scan true (h :: X)) as [[w hh] r].
        cbn [fst snd] in *. rewrite H1, H2. split; reflexivity.
      * destruct (IH rest (last_cons_ne _ _ _ Hl Hbs0)) as [H1 H2].
        destruct (ref_scan true (quote_body t ++ ch_quote :: rest)) as [[w h] r].
        cbn [fst snd] in *. rewrite H1, H2. split; reflexivity.
Qed.

Definition quotable (w : str) : Prop := last w 0 <> ch_bslash.

Lemma split_ref_quote_word w rest : quotable w ->
  ref_scan false (quote_word w ++ rest) =
  (w ++ fst (fst (ref_scan false rest)), true, snd (ref_scan false rest)).
Proof.
  intro Hq. unfold quote_word. cbn [app]. rewrite <- app_assoc. cbn [app ref_scan].
  rewrite Z.eqb_refl.
  destruct (scan_quoted w rest Hq) as [H1 H2].
  destruct (ref_scan true (quote_body w ++ ch_quote :: rest)) as [[w' h] r].
  cbn [fst snd] in *. rewrite H1, H2. reflexivity.
Qed.

Lemma split_ref_join ws : Forall quotable ws -> split_ref (join_words ws) = ws.
Proof.
  induction ws as [|w ws IH]; intro H; [reflexivity|].
  inversion H as [|w' ws' Hw Hws]; subst.
  destruct ws as [|w2 ws2].
  - cbn [join_words]. unfold split_ref.
    rewrite <- (app_nil_r (quote_word w)). rewrite (split_ref_quote_word w [] Hw).
    cbn [ref_scan fst snd close_words]. rewrite app_nil_r. reflexivity.
  - change (join_words (w :: w2 :: ws2)) with (quote_word w ++ ch_space :: join_words (w2 :: ws2)).
    unfold split_ref. rewrite (split_ref_quote_word w _ Hw).
    specialize (IH Hws). unfold split_ref in IH.
    cbn [ref_scan]. change (ch_space =? ch_quote) with false. rewrite Z.eqb_refl. cbn iota.
    destruct (ref_scan false (join_words (w2 :: ws2))) as [[w' h] r].
    cbn [fst snd close_words]. rewrite app_nil_r. rewrite IH. reflexivity.
Qed.

Lemma nz_quote_body w : nz w -> nz (quote_body w).
Proof.
  induction w as [|c t IH]; intro H; [constructor|].
  apply nz_cons_inv in H. destruct H as [Hc Ht]. cbn [quote_body].
  destruct (c =? ch_quote).
  - constructor; [discriminate|]. constructor; [discriminate|]. apply IH; exact Ht.
  - constructor; [exact Hc|]. apply IH; exact Ht.
Qed.

Lemma nz_join_words ws : Forall nz ws -> nz (join_words ws).
Proof.
  induction ws as [|w ws IH]; intro H; [constructor|].
  inversion H as [|w' ws' Hw Hws]; subst.
  assert (Hqw : nz (quote_word w)).
  { unfold quote_word. constructor; [discriminate|]. apply nz_app. split; [apply nz_quote_body; exact Hw|].
    constructor; [discriminate|constructor]. }
  destruct ws as [|w2 ws2]; [exact Hqw|].
  change (join_words (w :: w2 :: ws2)) with (quote_word w ++ ch_space :: join_words (w2 :: ws2)).
  apply nz_app. split; [exact Hqw|]. constructor; [discriminate|]. apply IH. exact Hws.
Qed.

Lemma split_model_roundtrip ws : Forall nz ws -> Forall quotable ws ->
  split_model (join_words ws) = Ok ws.
Proof.
  intros Hz Hq. rewrite split_model_correct by (apply nz_join_words; exact Hz).
  rewrite split_ref_join by exact Hq. reflexivity.
Qed.
