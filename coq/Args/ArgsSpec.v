(* C20 - reference objects, written from the property text and the getopt_long conventions,
   without looking at how Process.cpp does it.

   A. getopt_ref : the option/argument sequence of an argument vector (in order of appearance;
      non-option arguments are reported in place, i.e. the "return in order" convention).
   B. split_ref  : the words of a command line (single spaces separate words, a double-quoted
      segment is taken literally, inside it backslash-quote stands for a quote).
   C. launch_ref : what a child process must be handed by each way of starting it. *)
From Coq Require Import ZArith List Bool Lia.
From Common Require Import Words.
Import ListNotations.
Local Open Scope Z_scope.

Definition str := list Z.               (* a C string without its terminator: bytes 1..255 *)

Definition ch_dash := 45.
Definition ch_eq := 61.
Definition ch_qmark := 63.
Definition ch_colon := 58.
Definition ch_quote := 34.
Definition ch_bslash := 92.
Definition ch_space := 32.

Fixpoint str_eqb (a b : str) : bool :=
  match a, b with
  | [], [] => true
  | x :: a', y :: b' => (x =? y) && str_eqb a' b'
  | _, _ => false
  end.

(* ---------------------------------------------------------------------------------------- *)
(* A. options                                                                               *)
(* ---------------------------------------------------------------------------------------- *)

(* One row of the option table: short character code, long name (if any), and whether the
   option takes an argument (o_arg) which may be left out (o_optional).  getopt_long:
   no_argument / required_argument / optional_argument;  optstring  "c" / "c:" / "c::". *)
Record option_row := { o_char : Z; o_name : option str; o_arg : bool; o_optional : bool }.

Definition takes_required (o : option_row) : bool := o_arg o && negb (o_optional o).
Definition takes_optional (o : option_row) : bool := o_arg o && o_optional o.

(* What one step of the parser reports. *)
Inductive item :=
| IOpt (c : Z)                 (* option without value *)
| IOptArg (c : Z) (v : str)    (* option with value *)
| INon (v : str)               (* non-option argument *)
| IUnknown (text : str)        (* unknown option, or a value given to an option that takes none *)
| IMissing (text : str).       (* option whose required value is missing *)

(* How Process::Arguments::read presents an item: (character, argument). *)
Definition obs_of_item (i : item) : Z * str :=
  match i with
  | IOpt c => (c, [])
  | IOptArg c v => (c, v)
  | INon v => (0, v)
  | IUnknown t => (ch_qmark, t)
  | IMissing t => (ch_colon, t)
  end.

(* an option character in a string is a C `char`: compared as a signed value *)
Definition short_lookup (opts : list option_row) (b : Z) : option option_row :=
  find (fun o => o_char o =? sx8 b) opts.

Definition long_lookup (opts : list option_row) (name : str) : option option_row :=
  find (fun o => match o_name o with Some n => str_eqb n name | None => false end) opts.

(* name[=value] *)
Fixpoint split_eq (s : str) : str * option str :=
  match s with
  | [] => ([], None)
  | c :: t => if c =? ch_eq then ([], Some t)
              else let (n, v) := split_eq t in (c :: n, v)
  end.

(* The characters of a cluster "-abc" after the dash.  [next] is the following string of the
   vector if there is one; the result says whether it was used up as a detached value. *)
Fixpoint ref_cluster (opts : list option_row) (cs : str) (next : option str) : list item * bool :=
  match cs with
  | [] => ([], false)
  | b :: t =>
    match short_lookup opts b with
    | None => let (r, u) := ref_cluster opts t next in (IUnknown [ch_dash; b] :: r, u)
    | Some o =>
      if takes_required o then
        match t with
        | _ :: _ => ([IOptArg (o_char o) t], false)              (* attached value *)
        | [] => match next with
                | Some v => ([IOptArg (o_char o) v], true)       (* detached value *)
                | None => ([IMissing [ch_dash; b]], false)
                end
        end
      else if takes_optional o then
        match t with
        | _ :: _ => ([IOptArg (o_char o) t], false)              (* optional value: attached only *)
        | [] => ([IOpt (o_char o)], false)
        end
      else let (r, u) := ref_cluster opts t next in (IOpt (o_char o) :: r, u)
    end
  end.

(* "--body" with a non-empty body *)
Definition ref_long (opts : list option_row) (body : str) (next : option str) : item * bool :=
  let (name, val) := split_eq body in
  match long_lookup opts name with
  | None => (IUnknown (ch_dash :: ch_dash :: body), false)
  | Some o =>
    if o_arg o then
      match val with
      | Some v => (IOptArg (o_char o) v, false)
      | None => if o_optional o then (IOpt (o_char o), false)
                else match next with
                     | Some v => (IOptArg (o_char o) v, true)
                     | None => (IMissing (ch_dash :: ch_dash :: name), false)
                     end
      end
    else
      match val with
      | None => (IOpt (o_char o), false)
      | Some _ => (IUnknown (ch_dash :: ch_dash :: body), false)   (* "--flag=value": not allowed *)
      end
  end.

Inductive shape := ShPlain | ShTerminator | ShLong (body : str) | ShCluster (cs : str).

Definition shape_of (s : str) : shape :=
  match s with
  | d1 :: c :: rest =>
    if d1 =? ch_dash then
      if c =? ch_dash then match rest with [] => ShTerminator | _ => ShLong rest end
      else ShCluster (c :: rest)
    else ShPlain
  | _ => ShPlain                     (* "" and "-" are ordinary arguments *)
  end.

(* [skip]: "--" has been seen, everything is a non-option argument *)
Fixpoint ref_args (opts : list option_row) (skip : bool) (argv : list str) : list item :=
  match argv with
  | [] => []
  | s :: tl =>
    if skip then INon s :: ref_args opts true tl
    else match shape_of s with
         | ShPlain => INon s :: ref_args opts false tl
         | ShTerminator => ref_args opts true tl
         | ShLong body =>
           let (it, used) := ref_long opts body (hd_error tl) in
           it :: match tl with
                 | [] => []
                 | _ :: tl' => if used then ref_args opts false tl' else ref_args opts false tl
                 end
         | ShCluster cs =>
           let (its, used) := ref_cluster opts cs (hd_error tl) in
           its ++ match tl with
                  | [] => []
                  | _ :: tl' => if used then ref_args opts false tl' else ref_args opts false tl
                  end
         end
  end.

(* argv without argv[0] *)
Definition getopt_ref (opts : list option_row) (argv : list str) : list (Z * str) :=
  map obs_of_item (ref_args opts false argv).

(* ---------------------------------------------------------------------------------------- *)
(* B. command lines                                                                         *)
(* ---------------------------------------------------------------------------------------- *)

(* Right-to-left reading: [ref_scan inq s] = (the characters the rest of the current word
   contributes, whether the current word has any text in [s] (a character or a quoted
   segment, possibly empty), and - if a separating space follows - the words after it). *)
Definition close_words (w : str) (has : bool) (rest : option (list str)) : list str :=
  match rest with
  | Some ws => w :: ws                      (* a word followed by a space always counts *)
  | None => if has then [w] else []         (* the last word counts when it has text *)
  end.

Fixpoint ref_scan (inq : bool) (s : str) : str * bool * option (list str) :=
  match s with
  | [] => ([], false, None)
  | c :: t =>
    if inq then
      if c =? ch_quote then ref_scan false t                       (* closing quote *)
      else if c =? ch_bslash then
        match t with
        | q :: t' => if q =? ch_quote
                     then let '(w, _, r) := ref_scan true t' in (ch_quote :: w, true, r)   (* backslash quote *)
                     else let '(w, _, r) := ref_scan true t in (c :: w, true, r)
        | [] => ([c], true, None)
        end
      else let '(w, _, r) := ref_scan true t in (c :: w, true, r)
    else
      if c =? ch_quote then let '(w, _, r) := ref_scan true t in (w, true, r)   (* opening quote *)
      else if c =? ch_space then
        let '(w, has, r) := ref_scan false t in ([], false, Some (close_words w has r))
      else let '(w, _, r) := ref_scan false t in (c :: w, true, r)
  end.

Definition split_ref (s : str) : list str :=
  let '(w, has, r) := ref_scan false s in close_words w has r.

(* The class of command lines the property quantifies over: "words separated by SINGLE spaces with
   double-quoted segments and escaped quotes inside them".  Process.hpp documents only "the first word ..
   further words": what a leading, trailing or doubled unquoted space or an unterminated quote means is not
   said anywhere.  On a line of the class the words are [split_ref]; outside it the property does not say
   (the oracle of the check prints a wildcard there - [split_seen] - while the model keeps the code's answer,
   which [split_ref] happens to follow as well: splitter_refines_reference is about every line).
   after_space: at the beginning of the line or directly behind a separating space. *)
Fixpoint class_scan (inq after_space : bool) (s : str) : bool :=
  match s with
  | [] => negb inq && negb after_space
  | c :: t =>
    if inq then
      if c =? ch_quote then class_scan false false t
      else if c =? ch_bslash then
        match t with
        | q :: t' => if q =? ch_quote then class_scan true false t' else class_scan true false t
        | [] => false
        end
      else class_scan true false t
    else
      if c =? ch_quote then class_scan true false t
      else if c =? ch_space then (if after_space then false else class_scan false true t)
      else class_scan false false t
  end.

Definition in_class (s : str) : bool :=
  match s with [] => true | _ => class_scan false true s end.

(* what the property says about the words of a command line: Some words on the class, nothing outside *)
Definition split_seen (s : str) : option (list str) :=
  if in_class s then Some (split_ref s) else None.

(* the inverse direction, used to validate the reference itself: quote every word *)
Fixpoint quote_body (w : str) : str :=
  match w with
  | [] => []
  | c :: t => if c =? ch_quote then ch_bslash :: ch_quote :: quote_body t else c :: quote_body t
  end.
Definition quote_word (w : str) : str := ch_quote :: quote_body w ++ [ch_quote].
Fixpoint join_words (ws : list str) : str :=
  match ws with
  | [] => []
  | [w] => quote_word w
  | w :: ws' => quote_word w ++ ch_space :: join_words ws'
  end.

(* A quoting function for EVERY word.  Inside a quoted segment a backslash in front of the closing
   quote would escape it, so the backslashes a word ends in are written behind the closing quote,
   where a backslash is an ordinary character. *)
Fixpoint trail (w : str) : str * nat :=            (* w = body ++ k backslashes, body not ending in one *)
  match w with
  | [] => ([], 0%nat)
  | c :: t =>
    let (u, k) := trail t in
    match u with
    | [] => if c =? ch_bslash then ([], S k) else ([c], k)
    | _ :: _ => (c :: u, k)
    end
  end.
Definition quote_word_bs (w : str) : str :=
  let (u, k) := trail w in quote_word u ++ repeat ch_bslash k.
Fixpoint join_words_bs (ws : list str) : str :=
  match ws with
  | [] => []
  | [w] => quote_word_bs w
  | w :: ws' => quote_word_bs w ++ ch_space :: join_words_bs ws'
  end.

(* ---------------------------------------------------------------------------------------- *)
(* C. what the child is handed                                                              *)
(* ---------------------------------------------------------------------------------------- *)

(* program looked up by exec, argument vector, environment (None = inherit the parent's) *)
Record exec_call := { x_program : str; x_args : list str; x_env : option (list str) }.

(* the environment as given: KEY=VALUE in the order the map enumerates it; an empty map
   means "inherit" (Process.hpp) *)
Definition env_ref (env : list (str * str)) : option (list str) :=
  match env with
  | [] => None
  | _ => Some (map (fun kv => fst kv ++ ch_eq :: snd kv) env)
  end.

(* start/open(command line): the words of the command line; the first is the program *)
Definition launch_ref_cmdline (cmd : str) (env : list (str * str)) : exec_call :=
  let ws := split_ref cmd in
  let ws := match ws with [] => [[]] | _ => ws end in
  {| x_program := hd [] ws; x_args := ws; x_env := env_ref env |}.

(* start/open(executable, argc, argv): argv[0] is replaced by the executable; argv[1..argc)
   follow (all non-null) *)
Definition launch_ref_argv (exe : str) (argv : list str) (env : list (str * str)) : exec_call :=
  {| x_program := exe; x_args := exe :: tl argv; x_env := env_ref env |}.

(* the same with a vector that carries its own terminating null pointer (counted in argc):
   it is handed over as it is *)
Definition launch_ref_argv0 (exe : str) (argv : list str) (env : list (str * str)) : exec_call :=
  {| x_program := exe; x_args := argv; x_env := env_ref env |}.

(* open(executable, List<String>) *)
Definition launch_ref_list (exe : str) (args : list str) (env : list (str * str)) : exec_call :=
  launch_ref_argv exe args env.
