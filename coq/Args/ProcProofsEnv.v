(* C20 part D - the environment functions of Process refine the reference map of ProcSpec:
   on an environment without duplicate names, getEnvironmentVariable / setEnvironmentVariable /
   getEnvironmentVariables are lookup / update-or-remove / enumeration of one finite map. *)
From Coq Require Import ZArith List Bool Lia Sorted.
From Common Require Import Words.
From Args Require Import ArgsSpec ProcSpec ProcModel ArgsProofsStr.
Import ListNotations.
Local Open Scope Z_scope.

(* ---- byte strings: equality and order ---- *)
Lemma str_eqb_refl a : str_eqb a a = true.
Proof. induction a as [|x a IH]; [reflexivity|]. cbn [str_eqb]. rewrite Z.eqb_refl, IH. reflexivity. Qed.

Lemma str_eqb_eq a : forall b, str_eqb a b = true -> a = b.
Proof.
  induction a as [|x a IH]; intros [|y b] H; cbn [str_eqb] in H; try discriminate; [reflexivity|].
  apply andb_true_iff in H. destruct H as [H1 H2]. apply Z.eqb_eq in H1. subst. f_equal. apply IH. exact H2.
Qed.

Lemma str_eqb_neq a b : a <> b -> str_eqb a b = false.
Proof. intro H. destruct (str_eqb a b) eqn:E; [|reflexivity]. apply str_eqb_eq in E. contradiction. Qed.

Lemma str_eqb_sym a b : str_eqb a b = str_eqb b a.
Proof.
  destruct (str_eqb a b) eqn:E.
  - apply str_eqb_eq in E. subst. symmetry. apply str_eqb_refl.
  - destruct (str_eqb b a) eqn:E2; [|reflexivity]. apply str_eqb_eq in E2. subst. rewrite str_eqb_refl in E. discriminate.
Qed.

Lemma str_compare_refl a : str_compare a a = Eq.
Proof. induction a as [|x a IH]; [reflexivity|]. cbn [str_compare]. rewrite Z.compare_refl. exact IH. Qed.

Lemma str_compare_eq a : forall b, str_compare a b = Eq -> a = b.
Proof.
  induction a as [|x a IH]; intros [|y b] H; cbn [str_compare] in H; try discriminate; [reflexivity|].
  destruct (x ?= y) eqn:E; try discriminate. apply Z.compare_eq in E. subst. f_equal. apply IH. exact H.
Qed.

Lemma str_compare_antisym a : forall b, str_compare b a = CompOpp (str_compare a b).
Proof.
  induction a as [|x a IH]; intros [|y b]; cbn [str_compare]; try reflexivity.
  rewrite (Z.compare_antisym x y). destruct (x ?= y); cbn [CompOpp]; [apply IH|reflexivity|reflexivity].
Qed.

Lemma str_compare_trans a : forall b c, str_compare a b = Lt -> str_compare b c = Lt -> str_compare a c = Lt.
Proof.
  induction a as [|x a IH]; intros [|y b] [|z c] H1 H2; cbn [str_compare] in *; try discriminate; try reflexivity.
  destruct (x ?= y) eqn:E1; try discriminate.
  - apply Z.compare_eq in E1. subst y. destruct (x ?= z) eqn:E2; try discriminate; [|reflexivity].
    eapply IH; eauto.
  - destruct (y ?= z) eqn:E2; try discriminate.
    + apply Z.compare_eq in E2. subst z. rewrite E1. reflexivity.
    + assert (H : x < z) by (eapply Z.lt_trans; [exact E1|exact E2]).
      change ((x ?= z) = Lt) in H. rewrite H. reflexivity.
Qed.

Lemma str_compare_lt_neq a b : str_compare a b = Lt -> a <> b.
Proof. intros H E. subst. rewrite str_compare_refl in H. discriminate. Qed.

(* ---- association lists ---- *)
Lemma em_find_cons k' v m k : em_find ((k', v) :: m) k = if str_eqb k' k then Some v else em_find m k.
Proof. unfold em_find. cbn [find fst snd]. destruct (str_eqb k' k); reflexivity. Qed.

Lemma em_find_single k0 v0 k : em_find [(k0, v0)] k = if str_eqb k0 k then Some v0 else None.
Proof. rewrite em_find_cons. reflexivity. Qed.

Lemma em_find_app l1 l2 k :
  em_find (l1 ++ l2) k = match em_find l1 k with Some v => Some v | None => em_find l2 k end.
Proof.
  induction l1 as [|[k' v] l1 IH]; [reflexivity|].
  cbn [app]. rewrite !em_find_cons. destruct (str_eqb k' k); [reflexivity|exact IH].
Qed.

Lemma em_find_put m k v k' : em_find (em_put m k v) k' = if str_eqb k k' then Some v else em_find m k'.
Proof.
  induction m as [|[k0 v0] m IH]; cbn [em_put].
  - rewrite em_find_cons. reflexivity.
  - destruct (str_compare k k0) eqn:E.
    + apply str_compare_eq in E. subst k0. rewrite !em_find_cons. destruct (str_eqb k k'); reflexivity.
    + rewrite em_find_cons. reflexivity.
    + rewrite !em_find_cons. rewrite IH. destruct (str_eqb k0 k') eqn:E0; [|reflexivity].
      apply str_eqb_eq in E0. subst k'. rewrite str_eqb_neq; [reflexivity|].
      intro X. subst. rewrite str_compare_refl in E. discriminate.
Qed.

Lemma em_find_del m k k' : em_find (em_del m k) k' = if str_eqb k k' then None else em_find m k'.
Proof.
  induction m as [|[k0 v0] m IH]; cbn [em_del filter fst].
  - destruct (str_eqb k k'); reflexivity.
  - fold (em_del m k). destruct (str_eqb k0 k) eqn:E0; cbn [negb].
    + apply str_eqb_eq in E0. subst k0. rewrite IH, em_find_cons. destruct (str_eqb k k'); reflexivity.
    + rewrite !em_find_cons, IH. destruct (str_eqb k0 k') eqn:E1; [|reflexivity].
      apply str_eqb_eq in E1. subst k'. rewrite str_eqb_sym, E0. reflexivity.
Qed.

Lemma em_find_none_notin l k : ~ In k (map fst l) -> em_find l k = None.
Proof.
  induction l as [|[k' v] l IH]; intro H; [reflexivity|].
  rewrite em_find_cons. cbn [map fst In] in H.
  rewrite str_eqb_neq by tauto. apply IH. tauto.
Qed.

Lemma em_find_some_in l k v : em_find l k = Some v -> In k (map fst l).
Proof.
  induction l as [|[k' v'] l IH]; [discriminate|].
  rewrite em_find_cons. destruct (str_eqb k' k) eqn:E.
  - intros _. apply str_eqb_eq in E. left. exact E.
  - intro H. right. apply IH. exact H.
Qed.

Lemma em_find_in_some l k : In k (map fst l) -> em_find l k <> None.
Proof.
  induction l as [|[k' v] l IH]; intro H; [contradiction|].
  rewrite em_find_cons. destruct (str_eqb k' k) eqn:E; [discriminate|].
  apply IH. destruct H as [H|H]; [|exact H]. cbn [fst] in H. subst. rewrite str_eqb_refl in E. discriminate.
Qed.

Lemma nodup_snoc {A} (l : list A) a : NoDup l -> ~ In a l -> NoDup (l ++ [a]).
Proof.
  induction l as [|x l IH]; intros H Hn; cbn [app]; [constructor; [intros []|constructor]|].
  inversion H as [|y m Hx Hd]; subst. constructor.
  - intro X. apply in_app_or in X. destruct X as [X|[X|[]]]; [contradiction|]. subst. apply Hn. left. reflexivity.
  - apply IH; [exact Hd|]. intro X. apply Hn. right. exact X.
Qed.

Lemma em_find_rev l k : NoDup (map fst l) -> em_find (rev l) k = em_find l k.
Proof.
  induction l as [|[k0 v0] l IH]; intro H; [reflexivity|].
  cbn [map fst] in H. inversion H as [|a b Hn Hd]; subst.
  cbn [rev]. rewrite em_find_app, !em_find_cons, (IH Hd).
  change (em_find [] k) with (@None str).
  destruct (str_eqb k0 k) eqn:E.
  - apply str_eqb_eq in E. subst k0. rewrite (em_find_none_notin l k Hn). reflexivity.
  - destruct (em_find l k); reflexivity.
Qed.

Lemma nodup_keys_filter (p : str * str -> bool) l : NoDup (map fst l) -> NoDup (map fst (filter p l)).
Proof.
  induction l as [|x l IH]; intro H; [constructor|].
  cbn [map] in H. inversion H as [|a b Hn Hd]; subst.
  cbn [filter]. destruct (p x); [|apply IH; exact Hd].
  cbn [map]. constructor; [|apply IH; exact Hd].
  intro X. apply Hn. apply in_map_iff in X. destruct X as [y [Hy Hin]].
  apply filter_In in Hin. apply in_map_iff. exists y. tauto.
Qed.

(* ---- sorted maps are canonical ---- *)
Definition klt (a b : str * str) : Prop := str_compare (fst a) (fst b) = Lt.
Definition sorted (m : emap) : Prop := StronglySorted klt m.

Lemma em_put_in x m k v : In x (em_put m k v) -> x = (k, v) \/ In x m.
Proof.
  induction m as [|[k0 v0] m IH]; cbn [em_put]; intro H.
  - destruct H as [H|[]]. left. auto.
  - destruct (str_compare k k0).
    + destruct H as [H|H]; [left; auto|right; right; exact H].
    + destruct H as [H|H]; [left; auto|right; exact H].
    + destruct H as [H|H]; [right; left; exact H|]. destruct (IH H); [left; auto|right; right; assumption].
Qed.

Lemma em_put_sorted m k v : sorted m -> sorted (em_put m k v).
Proof.
  unfold sorted. induction m as [|[k0 v0] m IH]; intro H; cbn [em_put].
  - constructor; constructor.
  - apply StronglySorted_inv in H. destruct H as [Hs Hf].
    destruct (str_compare k k0) eqn:E.
    + apply str_compare_eq in E. subst k0. constructor; assumption.
    + constructor; [constructor; assumption|]. constructor; [exact E|].
      eapply Forall_impl; [|exact Hf]. intros a Ha. unfold klt in *. cbn [fst] in *.
      eapply str_compare_trans; eauto.
    + constructor; [apply IH; exact Hs|]. apply Forall_forall. intros x Hx.
      apply em_put_in in Hx. destruct Hx as [Hx|Hx].
      * subst x. unfold klt. cbn [fst]. rewrite str_compare_antisym, E. reflexivity.
      * rewrite Forall_forall in Hf. apply Hf. exact Hx.
Qed.

Lemma em_del_sorted m k : sorted m -> sorted (em_del m k).
Proof.
  unfold sorted, em_del. induction m as [|x m IH]; intro H; [constructor|].
  apply StronglySorted_inv in H. destruct H as [Hs Hf]. cbn [filter].
  destruct (negb (str_eqb (fst x) k)); [|apply IH; exact Hs].
  constructor; [apply IH; exact Hs|].
  apply Forall_forall. intros y Hy. apply filter_In in Hy. rewrite Forall_forall in Hf. apply Hf. tauto.
Qed.

Lemma find_above k v m k' : Forall (klt (k, v)) m -> (k' = k \/ str_compare k' k = Lt) -> em_find m k' = None.
Proof.
  intros Hf Hk. apply em_find_none_notin. intro Hin. apply in_map_iff in Hin. destruct Hin as [[k1 v1] [E Hin]].
  cbn [fst] in E. subst k1. rewrite Forall_forall in Hf. specialize (Hf _ Hin). unfold klt in Hf. cbn [fst] in Hf.
  destruct Hk as [Hk|Hk].
  - subst. rewrite str_compare_refl in Hf. discriminate.
  - pose proof (str_compare_trans _ _ _ Hk Hf) as X. rewrite str_compare_refl in X. discriminate.
Qed.

Lemma sorted_ext m1 : forall m2, sorted m1 -> sorted m2 ->
  (forall k, em_find m1 k = em_find m2 k) -> m1 = m2.
Proof.
  unfold sorted. induction m1 as [|[k1 v1] t1 IH]; intros [|[k2 v2] t2] H1 H2 Hx.
  - reflexivity.
  - specialize (Hx k2). rewrite em_find_cons, str_eqb_refl in Hx. discriminate.
  - specialize (Hx k1). rewrite em_find_cons, str_eqb_refl in Hx. discriminate.
  - apply StronglySorted_inv in H1. destruct H1 as [Hs1 Hf1].
    apply StronglySorted_inv in H2. destruct H2 as [Hs2 Hf2].
    destruct (str_compare k1 k2) eqn:E.
    + apply str_compare_eq in E. subst k2.
      pose proof (Hx k1) as X. rewrite !em_find_cons, str_eqb_refl in X. inversion X; subst v2.
      f_equal. apply IH; [exact Hs1|exact Hs2|].
      intro k. destruct (str_eqb k1 k) eqn:Ek.
      * apply str_eqb_eq in Ek. subst k.
        rewrite (find_above k1 v1 t1 k1 Hf1), (find_above k1 v1 t2 k1 Hf2); auto.
      * specialize (Hx k). rewrite !em_find_cons, Ek in Hx. exact Hx.
    + exfalso. specialize (Hx k1). rewrite !em_find_cons, str_eqb_refl in Hx.
      rewrite (str_eqb_neq k2 k1) in Hx by (intro X; subst; rewrite str_compare_refl in E; discriminate).
      rewrite (find_above k2 v2 t2 k1 Hf2) in Hx by (right; exact E). discriminate.
    + exfalso. specialize (Hx k2). rewrite !em_find_cons, str_eqb_refl in Hx.
      assert (E' : str_compare k2 k1 = Lt) by (rewrite str_compare_antisym, E; reflexivity).
      rewrite (str_eqb_neq k1 k2) in Hx by (intro X; subst; rewrite str_compare_refl in E; discriminate).
      rewrite (find_above k1 v1 t1 k2 Hf1) in Hx by (right; exact E'). discriminate.
Qed.

(* ---- the environment array as a list of bindings ---- *)
Definition entry_kv (e : str) : list (str * str) :=
  match split_eq e with (k, Some v) => [(k, v)] | (_, None) => [] end.
Definition entries (env : environ) : list (str * str) := flat_map entry_kv env.

(* no name occurs twice (what exec hands to a program started from a shell, and what setenv/unsetenv keep) *)
Definition env_ok (env : environ) : Prop := NoDup (map fst (entries env)).

Definition name_free (n : str) : Prop := existsb (fun c => c =? ch_eq) n = false.

Lemma name_ok_free n : name_ok n = true -> n <> [] /\ name_free n.
Proof.
  unfold name_ok, name_free. destruct n as [|c t]; [discriminate|].
  intro H. split; [discriminate|]. apply negb_true_iff in H. exact H.
Qed.

Lemma split_eq_build n v : name_free n -> split_eq (n ++ ch_eq :: v) = (n, Some v).
Proof.
  unfold name_free. induction n as [|c t IH]; intro H.
  - cbn [app split_eq]. rewrite Z.eqb_refl. reflexivity.
  - cbn [existsb] in H. apply orb_false_iff in H. destruct H as [Hc Ht].
    cbn [app split_eq]. rewrite Hc. rewrite (IH Ht). reflexivity.
Qed.

Lemma match_entry_split n : forall e v, name_free n ->
  (match_entry n e = Some v <-> split_eq e = (n, Some v)).
Proof.
  unfold name_free. induction n as [|x n IH]; intros e v Hn.
  - cbn [match_entry]. destruct e as [|c t]; cbn [split_eq].
    + split; discriminate.
    + destruct (c =? ch_eq) eqn:E.
      * split; intro H; inversion H; reflexivity.
      * split; [discriminate|]. destruct (split_eq t). intro H. inversion H.
  - cbn [existsb] in Hn. apply orb_false_iff in Hn. destruct Hn as [Hx Hn].
    cbn [match_entry]. destruct e as [|y e']; cbn [split_eq].
    + split; discriminate.
    + destruct (x =? y) eqn:Exy.
      * apply Z.eqb_eq in Exy. subst y. rewrite Hx.
        specialize (IH e' v Hn). destruct (split_eq e') as [n0 v0].
        split; intro H.
        -- apply IH in H. inversion H; subst. reflexivity.
        -- apply IH. inversion H; subst. reflexivity.
      * split; [discriminate|]. intro H.
        destruct (y =? ch_eq) eqn:Ey; [inversion H|].
        destruct (split_eq e') as [n0 v0]. inversion H; subst. rewrite Z.eqb_refl in Exy. discriminate.
Qed.

Lemma match_entry_none n e : name_free n -> match_entry n e = None ->
  forall v, split_eq e <> (n, Some v).
Proof.
  intros Hn H v X. apply (match_entry_split n e v Hn) in X. rewrite X in H. discriminate.
Qed.

Lemma entries_cons e env : entries (e :: env) = entry_kv e ++ entries env.
Proof. reflexivity. Qed.

Lemma entries_app a b : entries (a ++ b) = entries a ++ entries b.
Proof. unfold entries. apply flat_map_app. Qed.

(* getenv is the lookup of the name among the bindings *)
Lemma getenv_entries n env : name_free n -> getenv_loop n env = em_find (entries env) n.
Proof.
  intro Hn. induction env as [|e env IH]; [reflexivity|].
  cbn [getenv_loop]. rewrite entries_cons. unfold entry_kv.
  destruct (match_entry n e) as [v|] eqn:M.
  - apply (match_entry_split n e v Hn) in M. rewrite M. cbn [app]. rewrite em_find_cons, str_eqb_refl. reflexivity.
  - pose proof (match_entry_none n e Hn M) as X.
    destruct (split_eq e) as [k [v|]] eqn:S; cbn [app]; [|exact IH].
    rewrite em_find_cons. rewrite str_eqb_neq; [exact IH|]. intro E. subst k. apply (X v). reflexivity.
Qed.

(* the enumeration looks every name up like getenv does *)
Lemma vars_fold env : forall m,
  fold_left (fun m e => match split_eq e with (k, Some v) => em_put m k v | (_, None) => m end) env m =
  fold_left (fun m kv => em_put m (fst kv) (snd kv)) (entries env) m.
Proof.
  induction env as [|e env IH]; intro m; [reflexivity|].
  cbn [fold_left]. rewrite entries_cons, fold_left_app. unfold entry_kv.
  destruct (split_eq e) as [k [v|]]; cbn [fold_left fst snd]; apply IH.
Qed.

Lemma find_fold_put l : forall m k,
  em_find (fold_left (fun m kv => em_put m (fst kv) (snd kv)) l m) k =
  match em_find (rev l) k with Some v => Some v | None => em_find m k end.
Proof.
  induction l as [|[k0 v0] l IH]; intros m k; [reflexivity|].
  cbn [fold_left fst snd rev]. rewrite IH, em_find_app, em_find_put, em_find_single.
  destruct (em_find (rev l) k); [reflexivity|].
  destruct (str_eqb k0 k); reflexivity.
Qed.

Lemma fold_put_sorted l : forall m, sorted m -> sorted (fold_left (fun m kv => em_put m (fst kv) (snd kv)) l m).
Proof.
  induction l as [|kv l IH]; intros m H; [exact H|]. cbn [fold_left]. apply IH. apply em_put_sorted. exact H.
Qed.

Lemma vars_sorted env : sorted (get_env_vars env).
Proof. unfold get_env_vars. rewrite vars_fold. apply fold_put_sorted. constructor. Qed.

Lemma vars_find env k : env_ok env -> em_find (get_env_vars env) k = em_find (entries env) k.
Proof.
  intro H. unfold get_env_vars. rewrite vars_fold, find_fold_put, (em_find_rev _ _ H).
  destruct (em_find (entries env) k); reflexivity.
Qed.

(* ---- what setenv / unsetenv do to the bindings ---- *)
Lemma replace_some n v env : name_free n -> forall env', env_replace n v env = Some env' ->
  map fst (entries env') = map fst (entries env) /\
  forall k, em_find (entries env') k = if str_eqb n k then Some v else em_find (entries env) k.
Proof.
  intro Hn. induction env as [|e env IH]; intros env' H; [discriminate|].
  cbn [env_replace] in H.
  destruct (match_entry n e) as [old|] eqn:M.
  - inversion H; subst env'. apply (match_entry_split n e old Hn) in M.
    rewrite !entries_cons. unfold entry_kv. rewrite M, (split_eq_build n v Hn). cbn [app map fst].
    split; [reflexivity|]. intro k. rewrite !em_find_cons. destruct (str_eqb n k); reflexivity.
  - destruct (env_replace n v env) as [t'|] eqn:R; [|discriminate]. inversion H; subst env'.
    destruct (IH t' eq_refl) as [IH1 IH2].
    rewrite !entries_cons, !map_app, IH1. split; [reflexivity|].
    intro k. rewrite !em_find_app, IH2.
    pose proof (match_entry_none n e Hn M) as X. unfold entry_kv.
    destruct (split_eq e) as [k0 [v0|]] eqn:S; [rewrite em_find_single|reflexivity].
    destruct (str_eqb k0 k) eqn:E0; [|reflexivity].
    apply str_eqb_eq in E0. subst k0. rewrite str_eqb_neq; [reflexivity|]. intro E. subst k. apply (X v0). reflexivity.
Qed.

Lemma replace_none n v env : name_free n -> env_replace n v env = None -> em_find (entries env) n = None.
Proof.
  intro Hn. induction env as [|e env IH]; intro H; [reflexivity|].
  cbn [env_replace] in H. destruct (match_entry n e) as [old|] eqn:M; [discriminate|].
  destruct (env_replace n v env) eqn:R; [discriminate|].
  rewrite entries_cons, em_find_app, (IH eq_refl).
  pose proof (match_entry_none n e Hn M) as X. unfold entry_kv.
  destruct (split_eq e) as [k0 [v0|]] eqn:S; [rewrite em_find_single|reflexivity].
  rewrite str_eqb_neq; [reflexivity|]. intro E. subst k0. apply (X v0). reflexivity.
Qed.

Lemma unset_entries n env : name_free n ->
  entries (filter (fun e => match match_entry n e with Some _ => false | None => true end) env) = em_del (entries env) n.
Proof.
  intro Hn. induction env as [|e env IH]; [reflexivity|].
  cbn [filter]. rewrite entries_cons. unfold em_del. rewrite filter_app. fold (em_del (entries env) n).
  destruct (match_entry n e) as [old|] eqn:M.
  - apply (match_entry_split n e old Hn) in M. unfold entry_kv. rewrite M. cbn [filter fst].
    rewrite str_eqb_refl. cbn [negb app]. exact IH.
  - rewrite entries_cons, IH. f_equal.
    pose proof (match_entry_none n e Hn M) as X. unfold entry_kv.
    destruct (split_eq e) as [k0 [v0|]] eqn:S; [|reflexivity].
    cbn [filter fst]. rewrite str_eqb_neq; [reflexivity|]. intro E. subst k0. apply (X v0). reflexivity.
Qed.

(* ---- refinement ---- *)
Lemma get_refines env name d : env_ok env -> name_ok (cstr name) = true ->
  get_env_var name d env = ref_get (get_env_vars env) name d.
Proof.
  intros Hok Hn. apply name_ok_free in Hn. destruct Hn as [Hne Hf].
  unfold get_env_var, ref_get, c_getenv. rewrite (vars_find env _ Hok).
  destruct (cstr name) as [|c t] eqn:E; [contradiction|].
  rewrite (getenv_entries (c :: t) env Hf). reflexivity.
Qed.

Lemma set_refines env name value : env_ok env ->
  snd (ref_set (get_env_vars env) name value) = get_env_vars (snd (set_env_var name value env))
  /\ env_ok (snd (set_env_var name value env)).
Proof.
  intro Hok. unfold ref_set, set_env_var, c_unsetenv, c_setenv.
  destruct (name_ok (cstr name)) eqn:Hn.
  2:{ destruct value; cbn [fst snd]; split; (reflexivity || exact Hok). }
  apply name_ok_free in Hn. destruct Hn as [Hne Hf]. set (n := cstr name) in *.
  destruct value as [|c0 vt].
  - (* unset *)
    cbn [fst snd]. split.
    + apply sorted_ext; [apply em_del_sorted, vars_sorted|apply vars_sorted|].
      intro k. assert (Hok' : env_ok (filter (fun e => match match_entry n e with Some _ => false | None => true end) env)).
      { unfold env_ok. rewrite (unset_entries n env Hf). apply nodup_keys_filter. exact Hok. }
      rewrite (vars_find _ k Hok'), (unset_entries n env Hf), !em_find_del, (vars_find env k Hok). reflexivity.
    + unfold env_ok. rewrite (unset_entries n env Hf). apply nodup_keys_filter. exact Hok.
  - (* set *)
    set (v := cstr (c0 :: vt)).
    destruct (env_replace n v env) as [env'|] eqn:R; cbn [fst snd].
    + destruct (replace_some n v env Hf env' R) as [Hk Hfind].
      assert (Hok' : env_ok env') by (unfold env_ok; rewrite Hk; exact Hok).
      split; [|exact Hok'].
      apply sorted_ext; [apply em_put_sorted, vars_sorted|apply vars_sorted|].
      intro k. rewrite em_find_put, (vars_find env' k Hok'), Hfind, (vars_find env k Hok). reflexivity.
    + pose proof (replace_none n v env Hf R) as Hnone.
      assert (He : entries (env ++ [n ++ ch_eq :: v]) = entries env ++ [(n, v)]).
      { rewrite entries_app. f_equal. cbn [entries flat_map]. unfold entry_kv. rewrite (split_eq_build n v Hf). reflexivity. }
      assert (Hok' : env_ok (env ++ [n ++ ch_eq :: v])).
      { unfold env_ok. rewrite He, map_app. cbn [map fst]. apply nodup_snoc; [exact Hok|].
        intro X. apply em_find_in_some in X. contradiction. }
      split; [|exact Hok'].
      apply sorted_ext; [apply em_put_sorted, vars_sorted|apply vars_sorted|].
      intro k. rewrite em_find_put, (vars_find _ k Hok'), He, em_find_app, (vars_find env k Hok).
      rewrite em_find_single.
      destruct (str_eqb n k) eqn:E.
      * apply str_eqb_eq in E. subst k. rewrite Hnone. reflexivity.
      * destruct (em_find (entries env) k); reflexivity.
Qed.

(* ---- the laws, stated about the model's own operations ---- *)
(* the bool result: for a value that is not empty it says whether the name was accepted; for an
   empty value (unset) it says the OPPOSITE - the int result of unsetenv taken as a bool *)
Lemma set_result env name value :
  fst (set_env_var name value env) =
  match value with [] => negb (name_ok (cstr name)) | _ => name_ok (cstr name) end /\
  fst (ref_set (get_env_vars env) name value) = name_ok (cstr name).
Proof.
  unfold set_env_var, ref_set, c_unsetenv, c_setenv.
  destruct (name_ok (cstr name)); destruct value; split; reflexivity.
Qed.

Lemma set_bad_name env name value : name_ok (cstr name) = false -> snd (set_env_var name value env) = env.
Proof.
  intro H. unfold set_env_var, c_unsetenv, c_setenv. rewrite H. destruct value; reflexivity.
Qed.

Lemma get_after_set env name value d : env_ok env -> name_ok (cstr name) = true ->
  let env' := snd (set_env_var name value env) in
  env_ok env' /\
  get_env_var name d env' = match value with [] => d | _ => cstr value end /\
  forall other, name_ok (cstr other) = true -> cstr other <> cstr name ->
                get_env_var other d env' = get_env_var other d env.
Proof.
  intros Hok Hn env'. destruct (set_refines env name value Hok) as [Href Hok'].
  fold env' in Href, Hok'.
  split; [exact Hok'|].
  unfold ref_set in Href. rewrite Hn in Href. cbn [snd] in Href.
  split.
  - rewrite (get_refines env' name d Hok' Hn). unfold ref_get. rewrite <- Href.
    destruct value; [rewrite em_find_del|rewrite em_find_put]; rewrite str_eqb_refl; reflexivity.
  - intros other Ho Hne.
    rewrite (get_refines env' other d Hok' Ho), (get_refines env other d Hok Ho). unfold ref_get. rewrite <- Href.
    destruct value; [rewrite em_find_del|rewrite em_find_put]; rewrite str_eqb_neq by auto; reflexivity.
Qed.

Lemma enumeration_law env : env_ok env ->
  sorted (get_env_vars env) /\
  forall name d, name_ok (cstr name) = true ->
    get_env_var name d env = match em_find (get_env_vars env) (cstr name) with Some v => v | None => d end.
Proof.
  intro Hok. split; [apply vars_sorted|]. intros name d Hn. rewrite (get_refines env name d Hok Hn). reflexivity.
Qed.

Lemma cstr_nz s : nz s -> cstr s = s.
Proof.
  induction s as [|c t IH]; intro H; [reflexivity|].
  apply nz_cons_inv in H. destruct H as [Hc Ht]. cbn [cstr].
  destruct (c =? 0) eqn:E; [apply Z.eqb_eq in E; contradiction|]. rewrite IH by exact Ht. reflexivity.
Qed.

(* every reachable environment is duplicate-free when the initial one is *)
Fixpoint run_sets (ops : list (str * str)) (env : environ) : environ :=
  match ops with
  | [] => env
  | (n, v) :: t => run_sets t (snd (set_env_var n v env))
  end.

Lemma run_sets_ok ops : forall env, env_ok env -> env_ok (run_sets ops env).
Proof.
  induction ops as [|[n v] t IH]; intros env H; [exact H|].
  cbn [run_sets]. apply IH. apply (set_refines env n v H).
Qed.

Lemma env_ok_nil : env_ok [].
Proof. constructor. Qed.
