From Coq Require Extraction ExtrOcamlBasic.
From Common Require Import Words.
From Args Require Import ArgsSpec ArgsModel.
Extraction Language OCaml.
Extraction "model.ml" anchor
  init_cursor read read_all getopt_ref
  split_model split_ref
  launch_argv launch_cmdline launch_list
  launch_ref_cmdline launch_ref_argv launch_ref_argv0 launch_ref_list.
