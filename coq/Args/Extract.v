From Coq Require Extraction ExtrOcamlBasic.
From Common Require Import Words.
From Args Require Import ArgsSpec ArgsModel ProcSpec ProcModel.
Extraction Language OCaml.
Extraction "model.ml" anchor
  init_cursor read read_all getopt_ref
  split_model split_ref split_seen in_class
  launch_argv launch_cmdline launch_list start_argv start_cmdline
  launch_ref_cmdline launch_ref_argv launch_ref_argv0 launch_ref_list
  join_words join_words_bs
  get_env_var set_env_var get_env_vars ref_get ref_set ref_vars em_put split_eq
  pobj0 world0 pstep lstep lheld LIdle seen join_code_specified.
