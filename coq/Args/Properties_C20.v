(* Property C20 - only statements closed by `exact`, each followed by Print Assumptions, plus
   non-vacuity Examples.

   Clauses of the property statement  ->  theorems (all about the executable model ArgsModel.v,
   which mirrors src/Process.cpp decision by decision; the model is tied to the code by the
   correspondence check):

   "Process::Arguments yields, for every argument vector, the option/argument sequence of the
    POSIX getopt_long conventions - clustered short options, attached and detached option
    values, long options with '=' or separate values, the '--' terminator, unknown and
    incomplete options"
        -> arguments_yield_getopt_sequence   (whole run = ArgsSpec.getopt_ref, every table, every vector)
           arguments_read_refines            (each single read() = one step of the reference)
           getopt_terminator                 (reference: after "--" everything is an argument)
   "without reading outside the argument strings"
        -> arguments_never_read_outside      (every read on every reachable cursor is Ok: all
                                              peeks/pointer moves stay in [string, terminator], and
                                              the three backward accesses argument.attach(arg - k, len)
                                              satisfy k <= arg - start and len <= k + bytes ahead:
                                              ArgsModel.attach_back, backward_attach_is_checked_ex)
   termination of the  while(read())  loop
        -> arguments_read_consumes, arguments_false_is_final, arguments_loop_terminates,
           arguments_item_count_bounded
   "the argument vector (after the documented quoting rules of the command-line form)"
        -> splitter_refines_reference, splitter_total_on_all_bytes (the loop that used to hang),
           splitter_roundtrip, reference_roundtrip
   "receives exactly the executable, the argument vector and the environment it was given"
        -> launch_argv_exact, launch_argv0_exact, launch_list_exact, launch_cmdline_exact,
           launch_cmdline_total (pure preparation code: arrays handed to execvpe)
   exec itself, join()/exit code, redirected streams up to end-of-file, stdin bytes intact
        -> validated by correspondence only (helper child, see checks/C20.py level_note). *)
From Coq Require Import ZArith List.
From Coq Require String.
Import String.StringSyntax.
From Common Require Import Words.
From Args Require Import ArgsSpec ArgsModel ArgsProofs ArgsExamples.
Import ListNotations.
Local Open Scope Z_scope.

(* ---------------- A. Process::Arguments ---------------- *)

Theorem arguments_yield_getopt_sequence : forall opts, wf_opts opts -> forall argv, wf_argv argv ->
  read_all opts argv = Ok (getopt_ref opts argv).
Proof. exact read_all_correct. Qed.
Print Assumptions arguments_yield_getopt_sequence.

Example arguments_yield_getopt_sequence_ex :
  wf_opts ex_tbl /\ wf_argv ex_vec /\ read_all ex_tbl ex_vec = Ok ex_expected /\
  getopt_ref ex_tbl ex_vec = ex_expected.
Proof.
  split; [apply wf_optsb_sound; vm_compute; reflexivity|].
  split; [apply wf_argvb_sound; vm_compute; reflexivity|].
  split; vm_compute; reflexivity.
Qed.

Theorem arguments_read_refines : forall opts, wf_opts opts -> forall c, Inv c -> step_ok opts c (read opts c).
Proof. exact read_refines. Qed.
Print Assumptions arguments_read_refines.

Example arguments_read_refines_ex :
  wf_opts ex_tbl /\ Inv ex_cursor /\
  exists c', read ex_tbl ex_cursor = Ok (c', Some (97, [])) /\
             items_of ex_tbl ex_cursor = IOpt 97 :: items_of ex_tbl c' /\ length (items_of ex_tbl ex_cursor) = 19%nat.
Proof.
  split; [apply wf_optsb_sound; vm_compute; reflexivity|].
  split.
  - unfold Inv. split; [right; split; reflexivity|].
    split; [apply wf_strb_sound | apply wf_argvb_sound]; vm_compute; reflexivity.
  - eexists. split; [vm_compute; reflexivity|]. split; vm_compute; reflexivity.
Qed.

Theorem reachable_cursors_invariant : forall opts argv c,
  wf_opts opts -> wf_argv argv -> reachable opts argv c -> Inv c.
Proof. exact reachable_inv. Qed.
Print Assumptions reachable_cursors_invariant.

Example reachable_cursors_invariant_ex : reachable ex_tbl ex_vec ex_cursor /\ c_arg ex_cursor <> [].
Proof.
  split; [|discriminate].
  apply (reach_step ex_tbl ex_vec (init_cursor ex_vec) ex_cursor (Some (97, []))); [apply reach_init|].
  vm_compute. reflexivity.
Qed.

Theorem arguments_never_read_outside : forall opts argv c,
  wf_opts opts -> wf_argv argv -> reachable opts argv c -> exists c' o, read opts c = Ok (c', o).
Proof. exact read_safe. Qed.
Print Assumptions arguments_never_read_outside.

Example arguments_never_read_outside_ex :
  exists c', read ex_tbl ex_cursor = Ok (c', Some (97, [])).
Proof. eexists. vm_compute. reflexivity. Qed.

(* the backward accesses of read() - argument.attach(arg - 2, ..), attach(argName - 2, ..), attach(arg - 1, 1) -
   carry their own bounds obligation in the model: it answers Oob when the pointer would leave the
   string at its start or the bytes handed out would pass the terminator *)
Example backward_attach_is_checked_ex :
  attach_back {| c_rest := []; c_idx := 2; c_arg := B "x"; c_pos := 1; c_inOpt := false; c_skipOpt := false |} 2 3 (B "--x") = Oob /\
  attach_back {| c_rest := []; c_idx := 2; c_arg := B "x"; c_pos := 2; c_inOpt := false; c_skipOpt := false |} 2 4 (B "--x") = Oob /\
  attach_back {| c_rest := []; c_idx := 2; c_arg := B "x"; c_pos := 2; c_inOpt := false; c_skipOpt := false |} 2 3 (B "--x") = Ok (B "--x") /\
  read_all ex_tbl [B "--nope=1"; B "--bee"; B "-"] = Ok [(63, B "--nope=1"); (98, B "-")] /\
  read_all ex_tbl [B "-"; B "--bee"] = Ok [(0, B "-"); (58, B "--bee")].
Proof. repeat split; vm_compute; reflexivity. Qed.

Theorem arguments_read_consumes : forall opts argv c c' ob,
  wf_opts opts -> wf_argv argv -> reachable opts argv c ->
  read opts c = Ok (c', Some ob) -> (cweight c' < cweight c)%nat.
Proof. exact read_decreases. Qed.
Print Assumptions arguments_read_consumes.

Example arguments_read_consumes_ex :
  exists c', read ex_tbl ex_cursor = Ok (c', Some (97, [])) /\ cweight ex_cursor = 92%nat /\ cweight c' = 91%nat.
Proof. eexists. repeat split; vm_compute; reflexivity. Qed.

Theorem arguments_false_is_final : forall opts argv c c',
  wf_opts opts -> wf_argv argv -> reachable opts argv c ->
  read opts c = Ok (c', None) -> exists c'', read opts c' = Ok (c'', None).
Proof. exact read_false_stays. Qed.
Print Assumptions arguments_false_is_final.

Example arguments_false_is_final_ex :
  exists c', read ex_tbl (init_cursor [B "--"]) = Ok (c', None) /\ cweight (init_cursor [B "--"]) = 3%nat.
Proof. eexists. split; vm_compute; reflexivity. Qed.

(* read() has returned false after at most  weight argv + 1  calls, and never left a string *)
Theorem arguments_loop_terminates : forall opts argv,
  wf_opts opts -> wf_argv argv -> read_all opts argv <> Fuel /\ read_all opts argv <> Oob.
Proof. exact read_all_total. Qed.
Print Assumptions arguments_loop_terminates.

Example arguments_loop_terminates_ex :
  weight ex_vec = 95%nat /\ run 21 ex_tbl (init_cursor ex_vec) = Ok ex_expected /\
  run 20 ex_tbl (init_cursor ex_vec) = Fuel /\ read_all ex_tbl [] = Ok [].
Proof. repeat split; vm_compute; reflexivity. Qed.

Theorem arguments_item_count_bounded : forall opts argv,
  wf_opts opts -> wf_argv argv -> (length (getopt_ref opts argv) <= weight argv)%nat.
Proof. exact getopt_ref_length. Qed.
Print Assumptions arguments_item_count_bounded.

Example arguments_item_count_bounded_ex :
  length (getopt_ref ex_tbl ex_vec) = 20%nat /\ weight ex_vec = 95%nat.
Proof. split; vm_compute; reflexivity. Qed.

Theorem getopt_terminator : forall opts post,
  getopt_ref opts ([ch_dash; ch_dash] :: post) = map (fun s => (0, s)) post.
Proof. exact getopt_ref_terminator. Qed.
Print Assumptions getopt_terminator.

Example getopt_terminator_ex :
  getopt_ref ex_tbl [B "--"; B "-a"; B "--bee"; B "--"; B ""] = [(0, B "-a"); (0, B "--bee"); (0, B "--"); (0, [])] /\
  read_all ex_tbl [B "--"; B "-a"; B "--bee"; B "--"; B ""] = Ok [(0, B "-a"); (0, B "--bee"); (0, B "--"); (0, [])].
Proof. split; vm_compute; reflexivity. Qed.

(* missing arguments and a lone '-' *)
Example getopt_incomplete_ex :
  read_all ex_tbl [B "-ab"] = Ok [(97, []); (58, B "-b")] /\
  read_all ex_tbl [B "--bee"] = Ok [(58, B "--bee")] /\
  read_all ex_tbl [B "-b"; B "--"] = Ok [(98, B "--")] /\
  read_all ex_tbl [B "--="; B "--long=" ] = Ok [(63, B "--="); (63, B "--long=")].
Proof. repeat split; vm_compute; reflexivity. Qed.

(* ---------------- B. command-line splitter ---------------- *)

Theorem splitter_refines_reference : forall s, nz s -> split_model s = Ok (split_ref s).
Proof. exact split_model_correct. Qed.
Print Assumptions splitter_refines_reference.

Example splitter_refines_reference_ex :
  nz ex_cmdline /\
  split_model ex_cmdline = Ok ([B "prog"; B "a b"; B ""; B "x\y"; B "q""r\s"; B "tail\"]).
Proof. split; [apply nzb_sound|]; vm_compute; reflexivity. Qed.

(* fuel = length + 1 suffices on EVERY byte string; the result is never Oob *)
Theorem splitter_total_on_all_bytes : forall s, exists ws, split_model s = Ok ws.
Proof. exact split_model_total. Qed.
Print Assumptions splitter_total_on_all_bytes.

(* the input on which the unrepaired loop did not terminate; an unterminated quote; a NUL inside *)
Example splitter_total_on_all_bytes_ex :
  split_model (B """a\b") = Ok [B "a\b"] /\ split_model (B "x ""\") = Ok [B "x"; B "\"] /\
  split_model [97; 0; 98] = Ok [[97]].
Proof. repeat split; vm_compute; reflexivity. Qed.

Theorem reference_roundtrip : forall ws, Forall quotable ws -> split_ref (join_words ws) = ws.
Proof. exact split_ref_join. Qed.
Print Assumptions reference_roundtrip.

Example reference_roundtrip_ex :
  Forall quotable ex_words /\ split_ref (join_words ex_words) = ex_words /\ length (join_words ex_words) = 47%nat.
Proof.
  split; [repeat constructor; vm_compute; discriminate|]. split; vm_compute; reflexivity.
Qed.

Theorem splitter_roundtrip : forall ws,
  Forall nz ws -> Forall quotable ws -> split_model (join_words ws) = Ok ws.
Proof. exact split_model_roundtrip. Qed.
Print Assumptions splitter_roundtrip.

Example splitter_roundtrip_ex :
  split_model (join_words ex_words) = Ok ex_words /\ length ex_words = 6%nat /\
  (* the excluded words: a trailing backslash would swallow the closing quote *)
  split_model (join_words [B "a\"]) = Ok [B "a"""].
Proof. repeat split; vm_compute; reflexivity. Qed.

(* ---------------- C. what is handed to exec ---------------- *)

Theorem launch_argv_exact : forall exe argv env,
  launch_argv exe (length argv) (map Some argv) env = Ok (launch_ref_argv exe argv env).
Proof. exact launch_argv_correct. Qed.
Print Assumptions launch_argv_exact.

Example launch_argv_exact_ex :
  launch_argv (B "/bin/p") 3 (map Some [B "zero"; B "a b"; []]) ex_env =
  Ok {| x_program := B "/bin/p"; x_args := [B "/bin/p"; B "a b"; []];
        x_env := Some [B "HOME=/h"; B "K="] |}.
Proof. vm_compute. reflexivity. Qed.

Theorem launch_argv0_exact : forall exe argv env,
  launch_argv exe (S (length argv)) (map Some argv ++ [None]) env = Ok (launch_ref_argv0 exe argv env).
Proof. exact launch_argv0_correct. Qed.
Print Assumptions launch_argv0_exact.

(* a vector that carries its own terminating null pointer is handed to exec as it is, argv[0] included *)
Example launch_argv0_exact_ex :
  launch_argv (B "/bin/p") 3 (map Some [B "zero"; B "a b"] ++ [None]) ex_env =
  Ok {| x_program := B "/bin/p"; x_args := [B "zero"; B "a b"]; x_env := Some [B "HOME=/h"; B "K="] |} /\
  launch_argv (B "/bin/p") 1 [None] [] = Ok {| x_program := B "/bin/p"; x_args := []; x_env := None |}.
Proof. split; vm_compute; reflexivity. Qed.

Theorem launch_list_exact : forall exe args env,
  launch_list exe args env = Ok (launch_ref_list exe args env).
Proof. exact launch_list_correct. Qed.
Print Assumptions launch_list_exact.

Example launch_list_exact_ex :
  launch_list (B "p") [B "zero"; B "k"] ex_env =
  Ok {| x_program := B "p"; x_args := [B "p"; B "k"]; x_env := Some [B "HOME=/h"; B "K="] |} /\
  launch_list (B "p") [] [] = Ok {| x_program := B "p"; x_args := [B "p"]; x_env := None |}.
Proof. split; vm_compute; reflexivity. Qed.

Theorem launch_cmdline_exact : forall cmd env,
  nz cmd -> launch_cmdline cmd env = Ok (launch_ref_cmdline cmd env).
Proof. exact launch_cmdline_correct. Qed.
Print Assumptions launch_cmdline_exact.

Theorem launch_cmdline_total : forall cmd env, exists x, launch_cmdline cmd env = Ok x.
Proof. exact ArgsProofsLaunch.launch_cmdline_total. Qed.
Print Assumptions launch_cmdline_total.

Example launch_cmdline_exact_ex :
  launch_cmdline ex_cmdline [] =
  Ok {| x_program := B "prog"; x_args := [B "prog"; B "a b"; B ""; B "x\y"; B "q""r\s"; B "tail\"];
        x_env := None |} /\
  launch_cmdline [] [] = Ok {| x_program := []; x_args := [[]]; x_env := None |}.
Proof. split; vm_compute; reflexivity. Qed.
