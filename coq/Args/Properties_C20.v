(* Property C20 - only statements closed by `exact`, each followed by Print Assumptions, plus
   non-vacuity Examples.

   Clauses of the property statement  ->  theorems (all about the executable model ArgsModel.v,
   which mirrors src/Process.cpp decision by decision; the model is tied to the code by the
   correspondence check):

   "Process::Arguments yields, for every argument vector, the option/argument sequence of the
    POSIX getopt_long conventions - clustered short options, attached and detached option
    values, long options with '=' or separate values, the '--' terminator, unknown and
    incomplete options"
        -> arguments_yield_getopt_sequence   (whole run = ArgsSpec.getopt_ref, every table, every vector)
           arguments_read_refines            (each single read() = one step of the reference)
           getopt_terminator                 (reference: after "--" everything is an argument)
   "without reading outside the argument strings"
        -> arguments_never_read_outside      (every read on every reachable cursor is Ok: all
                                              peeks/pointer moves stay in [string, terminator], and
                                              the three backward accesses argument.attach(arg - k, len)
                                              satisfy k <= arg - start and len <= k + bytes ahead:
                                              ArgsModel.attach_back, backward_attach_is_checked_ex)
   termination of the  while(read())  loop
        -> arguments_read_consumes, arguments_false_is_final, arguments_loop_terminates,
           arguments_item_count_bounded
   "the argument vector (after the documented quoting rules of the command-line form)"
        -> splitter_refines_reference, splitter_total_on_all_bytes (the loop that used to hang),
           splitter_roundtrip, reference_roundtrip
           reference_first_word_splits_off (split(w SP l) = w :: split(l) for a first word without quote/space: what lets
           the harness read split(l) from the argv[1..] of a child started through the public open("./ac " + l) on a tree
           whose file-local splitter cannot be called)
   "receives exactly the executable, the argument vector and the environment it was given"
        -> launch_argv_exact, launch_argv0_exact, launch_list_exact, launch_cmdline_exact,
           launch_cmdline_total (pure preparation code: arrays handed to execvpe) - the open() entry points;
           start_argv_exact, start_argv0_exact, start_cmdline_exact, start_cmdline_total - the start() entry points
           (round 5: the code carries the preparation once per entry point; so does the model);
           cmdline_of_property_class_exact (either command-line entry point, a line of the property's class: the child
           gets exactly the words ArgsSpec.split_seen names, the first one is the program)
   the class "all command lines of words separated by single spaces with double-quoted segments and escaped quotes
   inside them" (round 5: ArgsSpec.in_class; outside it - leading / trailing / doubled unquoted space, open quote -
   the text and Process.hpp say nothing and the oracle of the check leaves the words open)
        -> splitter_exact_on_property_class, quoting_stays_in_property_class, every_word_list_has_a_class_line
   "(after the documented quoting rules of the command-line form)", words ending in a backslash (round 3)
        -> splitter_trailing_backslash_exact / _last / _merges (what the splitter makes of the plain
           quoting of such a word), splitter_roundtrip_all_words, reference_roundtrip_all_words (a quoting
           for EVERY word: split(join words) = words without side condition)
   anchor "environment setters/getters" (the environment a child inherits when it is given none)
        -> environment_get_refines_map, environment_set_refines_map, environment_enumeration,
           environment_get_after_set (get-after-set, the empty value unsets, other names untouched),
           environment_bad_name_unchanged, environment_stays_duplicate_free, environment_set_result
           (noted: for an empty value the bool result is the int of unsetenv - inverted)
   anchor "join/kill reap and close pipes", "pid and pipe descriptors with 0 meaning closed"
        -> process_step_invariant_and_refinement (one step: invariant kept, answers of the life-cycle
           reference), process_refines_lifecycle (whole histories), process_never_closes_twice (ALL
           histories, all kernel answers with fresh descriptors), process_accounting_unconditional,
           process_holds_one_descriptor_per_stream, join_returns_kernel_exit_code (Model: WEXITSTATUS of any status),
           join_returns_exit_code_of_exited_child ("join() returns its exit code": the statement the oracle compares),
           join_of_signalled_child_unspecified (a child ended by a signal has no exit code: the oracle leaves it open),
           idle_process_refuses_without_side_effects, idle_close_is_noop, running_process_refuses_second_start,
           failed_wait_can_be_retried.
           What the property-level reference asks of a refused call (the text is silent on misuse and on errno) is the
           observation ProcSpec.seen - the call fails (false / -1), nothing changes: process_refines_lifecycle_as_seen,
           process_step_as_seen, refusal_is_seen_as_failure_without_side_effects; the exact answer RRefused (decided by
           the object before any system call; errno EINVAL in the code as it is) is a statement about the Model only.
           FULL statement "every descriptor handed to the object is closed exactly once by the time the
           destructor has finished, for every history and every kernel answer" is FALSE of the code:
           process_descriptor_leak_refuted (vfork fails in open: the pipes stay open; waitpid fails in the
           destructor's join: the stream descriptors stay open).  Proved instead:
           process_descriptors_closed_exactly_once_partial - for all histories without exactly these two events.
           noted: read_write_without_stream_use_descriptor_zero.
   exec itself, redirected streams up to end-of-file, stdin bytes intact, what waitpid/pipe/vfork return
        -> validated by correspondence only / inputs of the model (see checks/C20.py level_note). *)
From Coq Require Import ZArith List.
From Coq Require String.
Import String.StringSyntax.
From Common Require Import Words.
From Coq Require Import Bool Permutation.
From Args Require Import ArgsSpec ArgsModel ProcSpec ProcModel ArgsProofs ArgsExamples.
Import ListNotations.
Local Open Scope Z_scope.

(* ---------------- A. Process::Arguments ---------------- *)

Theorem arguments_yield_getopt_sequence : forall opts, wf_opts opts -> forall argv, wf_argv argv ->
  read_all opts argv = Ok (getopt_ref opts argv).
Proof. exact read_all_correct. Qed.
Print Assumptions arguments_yield_getopt_sequence.

Example arguments_yield_getopt_sequence_ex :
  wf_opts ex_tbl /\ wf_argv ex_vec /\ read_all ex_tbl ex_vec = Ok ex_expected /\
  getopt_ref ex_tbl ex_vec = ex_expected.
Proof.
  split; [apply wf_optsb_sound; vm_compute; reflexivity|].
  split; [apply wf_argvb_sound; vm_compute; reflexivity|].
  split; vm_compute; reflexivity.
Qed.

Theorem arguments_read_refines : forall opts, wf_opts opts -> forall c, Inv c -> step_ok opts c (read opts c).
Proof. exact read_refines. Qed.
Print Assumptions arguments_read_refines.

Example arguments_read_refines_ex :
  wf_opts ex_tbl /\ Inv ex_cursor /\
  exists c', read ex_tbl ex_cursor = Ok (c', Some (97, [])) /\
             items_of ex_tbl ex_cursor = IOpt 97 :: items_of ex_tbl c' /\ length (items_of ex_tbl ex_cursor) = 19%nat.
Proof.
  split; [apply wf_optsb_sound; vm_compute; reflexivity|].
  split.
  - unfold Inv. split; [right; split; reflexivity|].
    split; [apply wf_strb_sound | apply wf_argvb_sound]; vm_compute; reflexivity.
  - eexists. split; [vm_compute; reflexivity|]. split; vm_compute; reflexivity.
Qed.

Theorem reachable_cursors_invariant : forall opts argv c,
  wf_opts opts -> wf_argv argv -> reachable opts argv c -> Inv c.
Proof. exact reachable_inv. Qed.
Print Assumptions reachable_cursors_invariant.

Example reachable_cursors_invariant_ex : reachable ex_tbl ex_vec ex_cursor /\ c_arg ex_cursor <> [].
Proof.
  split; [|discriminate].
  apply (reach_step ex_tbl ex_vec (init_cursor ex_vec) ex_cursor (Some (97, []))); [apply reach_init|].
  vm_compute. reflexivity.
Qed.

Theorem arguments_never_read_outside : forall opts argv c,
  wf_opts opts -> wf_argv argv -> reachable opts argv c -> exists c' o, read opts c = Ok (c', o).
Proof. exact read_safe. Qed.
Print Assumptions arguments_never_read_outside.

Example arguments_never_read_outside_ex :
  exists c', read ex_tbl ex_cursor = Ok (c', Some (97, [])).
Proof. eexists. vm_compute. reflexivity. Qed.

(* the backward accesses of read() - argument.attach(arg - 2, ..), attach(argName - 2, ..), attach(arg - 1, 1) -
   carry their own bounds obligation in the model: it answers Oob when the pointer would leave the
   string at its start or the bytes handed out would pass the terminator *)
Example backward_attach_is_checked_ex :
  attach_back {| c_rest := []; c_idx := 2; c_arg := B "x"; c_pos := 1; c_inOpt := false; c_skipOpt := false |} 2 3 (B "--x") = Oob /\
  attach_back {| c_rest := []; c_idx := 2; c_arg := B "x"; c_pos := 2; c_inOpt := false; c_skipOpt := false |} 2 4 (B "--x") = Oob /\
  attach_back {| c_rest := []; c_idx := 2; c_arg := B "x"; c_pos := 2; c_inOpt := false; c_skipOpt := false |} 2 3 (B "--x") = Ok (B "--x") /\
  read_all ex_tbl [B "--nope=1"; B "--bee"; B "-"] = Ok [(63, B "--nope=1"); (98, B "-")] /\
  read_all ex_tbl [B "-"; B "--bee"] = Ok [(0, B "-"); (58, B "--bee")].
Proof. repeat split; vm_compute; reflexivity. Qed.

Theorem arguments_read_consumes : forall opts argv c c' ob,
  wf_opts opts -> wf_argv argv -> reachable opts argv c ->
  read opts c = Ok (c', Some ob) -> (cweight c' < cweight c)%nat.
Proof. exact read_decreases. Qed.
Print Assumptions arguments_read_consumes.

Example arguments_read_consumes_ex :
  exists c', read ex_tbl ex_cursor = Ok (c', Some (97, [])) /\ cweight ex_cursor = 92%nat /\ cweight c' = 91%nat.
Proof. eexists. repeat split; vm_compute; reflexivity. Qed.

Theorem arguments_false_is_final : forall opts argv c c',
  wf_opts opts -> wf_argv argv -> reachable opts argv c ->
  read opts c = Ok (c', None) -> exists c'', read opts c' = Ok (c'', None).
Proof. exact read_false_stays. Qed.
Print Assumptions arguments_false_is_final.

Example arguments_false_is_final_ex :
  exists c', read ex_tbl (init_cursor [B "--"]) = Ok (c', None) /\ cweight (init_cursor [B "--"]) = 3%nat.
Proof. eexists. split; vm_compute; reflexivity. Qed.

(* read() has returned false after at most  weight argv + 1  calls, and never left a string *)
Theorem arguments_loop_terminates : forall opts argv,
  wf_opts opts -> wf_argv argv -> read_all opts argv <> Fuel /\ read_all opts argv <> Oob.
Proof. exact read_all_total. Qed.
Print Assumptions arguments_loop_terminates.

Example arguments_loop_terminates_ex :
  weight ex_vec = 95%nat /\ run 21 ex_tbl (init_cursor ex_vec) = Ok ex_expected /\
  run 20 ex_tbl (init_cursor ex_vec) = Fuel /\ read_all ex_tbl [] = Ok [].
Proof. repeat split; vm_compute; reflexivity. Qed.

Theorem arguments_item_count_bounded : forall opts argv,
  wf_opts opts -> wf_argv argv -> (length (getopt_ref opts argv) <= weight argv)%nat.
Proof. exact getopt_ref_length. Qed.
Print Assumptions arguments_item_count_bounded.

Example arguments_item_count_bounded_ex :
  length (getopt_ref ex_tbl ex_vec) = 20%nat /\ weight ex_vec = 95%nat.
Proof. split; vm_compute; reflexivity. Qed.

Theorem getopt_terminator : forall opts post,
  getopt_ref opts ([ch_dash; ch_dash] :: post) = map (fun s => (0, s)) post.
Proof. exact getopt_ref_terminator. Qed.
Print Assumptions getopt_terminator.

Example getopt_terminator_ex :
  getopt_ref ex_tbl [B "--"; B "-a"; B "--bee"; B "--"; B ""] = [(0, B "-a"); (0, B "--bee"); (0, B "--"); (0, [])] /\
  read_all ex_tbl [B "--"; B "-a"; B "--bee"; B "--"; B ""] = Ok [(0, B "-a"); (0, B "--bee"); (0, B "--"); (0, [])].
Proof. split; vm_compute; reflexivity. Qed.

(* missing arguments and a lone '-' *)
Example getopt_incomplete_ex :
  read_all ex_tbl [B "-ab"] = Ok [(97, []); (58, B "-b")] /\
  read_all ex_tbl [B "--bee"] = Ok [(58, B "--bee")] /\
  read_all ex_tbl [B "-b"; B "--"] = Ok [(98, B "--")] /\
  read_all ex_tbl [B "--="; B "--long=" ] = Ok [(63, B "--="); (63, B "--long=")].
Proof. repeat split; vm_compute; reflexivity. Qed.

(* ---------------- B. command-line splitter ---------------- *)

Theorem splitter_refines_reference : forall s, nz s -> split_model s = Ok (split_ref s).
Proof. exact split_model_correct. Qed.
Print Assumptions splitter_refines_reference.

Example splitter_refines_reference_ex :
  nz ex_cmdline /\
  split_model ex_cmdline = Ok ([B "prog"; B "a b"; B ""; B "x\y"; B "q""r\s"; B "tail\"]).
Proof. split; [apply nzb_sound|]; vm_compute; reflexivity. Qed.

(* fuel = length + 1 suffices on EVERY byte string; the result is never Oob *)
Theorem splitter_total_on_all_bytes : forall s, exists ws, split_model s = Ok ws.
Proof. exact split_model_total. Qed.
Print Assumptions splitter_total_on_all_bytes.

(* the input on which the unrepaired loop did not terminate; an unterminated quote; a NUL inside *)
Example splitter_total_on_all_bytes_ex :
  split_model (B """a\b") = Ok [B "a\b"] /\ split_model (B "x ""\") = Ok [B "x"; B "\"] /\
  split_model [97; 0; 98] = Ok [[97]].
Proof. repeat split; vm_compute; reflexivity. Qed.

Theorem reference_roundtrip : forall ws, Forall quotable ws -> split_ref (join_words ws) = ws.
Proof. exact split_ref_join. Qed.
Print Assumptions reference_roundtrip.

Example reference_roundtrip_ex :
  Forall quotable ex_words /\ split_ref (join_words ex_words) = ex_words /\ length (join_words ex_words) = 47%nat.
Proof.
  split; [repeat constructor; vm_compute; discriminate|]. split; vm_compute; reflexivity.
Qed.

Theorem splitter_roundtrip : forall ws,
  Forall nz ws -> Forall quotable ws -> split_model (join_words ws) = Ok ws.
Proof. exact split_model_roundtrip. Qed.
Print Assumptions splitter_roundtrip.

Example splitter_roundtrip_ex :
  split_model (join_words ex_words) = Ok ex_words /\ length ex_words = 6%nat /\
  (* the excluded words: a trailing backslash would swallow the closing quote *)
  split_model (join_words [B "a\"]) = Ok [B "a"""].
Proof. repeat split; vm_compute; reflexivity. Qed.

(* round 3: the words that end in a backslash *)
Theorem splitter_trailing_backslash_exact : forall ws u tail,
  Forall nz ws -> nz u -> nz tail -> Forall quotable ws ->
  split_model (join_words (ws ++ [u ++ [ch_bslash]]) ++ tail) =
  Ok (ws ++ close_words (u ++ ch_quote :: fst (fst (ref_scan true tail))) true (snd (ref_scan true tail))).
Proof. exact split_model_trailing_backslash. Qed.
Print Assumptions splitter_trailing_backslash_exact.

(* the backslash has escaped the closing quote: the word ends in a quote character and takes in the
   rest of the line, which is read in quoted mode: a space does not separate, a quote ends the mode *)
Example splitter_trailing_backslash_exact_ex :
  split_model (join_words [B "p"; B "a\"] ++ B " x y"" z") = Ok [B "p"; B "a"" x y"; B "z"] /\
  ref_scan true (B " x y"" z") = (B " x y", true, Some [B "z"]).
Proof. split; vm_compute; reflexivity. Qed.

Theorem splitter_trailing_backslash_last : forall ws u,
  Forall nz ws -> nz u -> Forall quotable ws ->
  split_model (join_words (ws ++ [u ++ [ch_bslash]])) = Ok (ws ++ [u ++ [ch_quote]]).
Proof. exact split_model_trailing_backslash_last. Qed.
Print Assumptions splitter_trailing_backslash_last.

Example splitter_trailing_backslash_last_ex :
  split_model (join_words [B "p"; B "dir\"]) = Ok [B "p"; B "dir"""] /\
  split_model (join_words [B "\\"]) = Ok [B "\"""] /\ join_words [B "dir\"] = B """dir\""".
Proof. repeat split; vm_compute; reflexivity. Qed.

Theorem splitter_trailing_backslash_merges : forall ws u ws2,
  Forall nz ws -> nz u -> Forall nz ws2 -> Forall quotable ws -> Forall plain ws2 -> ws2 <> [] ->
  split_model (join_words (ws ++ [u ++ [ch_bslash]] ++ ws2)) = Ok (ws ++ [u ++ ch_quote :: glue ws2]).
Proof. exact split_model_trailing_backslash_merges. Qed.
Print Assumptions splitter_trailing_backslash_merges.

Example splitter_trailing_backslash_merges_ex :
  split_model (join_words [B "p"; B "a\"; B "b\c"; B "d"]) = Ok [B "p"; B "a"" b\c d"] /\
  Forall plain [B "b\c"; B "d"] /\ glue [B "b\c"; B "d"] = B " b\c d".
Proof.
  split; [vm_compute; reflexivity|]. split; [|vm_compute; reflexivity].
  repeat constructor; discriminate.
Qed.

Theorem reference_roundtrip_all_words : forall ws, split_ref (join_words_bs ws) = ws.
Proof. exact split_ref_join_bs. Qed.
Print Assumptions reference_roundtrip_all_words.

Theorem splitter_roundtrip_all_words : forall ws, Forall nz ws -> split_model (join_words_bs ws) = Ok ws.
Proof. exact split_model_roundtrip_all. Qed.
Print Assumptions splitter_roundtrip_all_words.

Example splitter_roundtrip_all_words_ex :
  let ws := [B "p"; B "dir\"; B "a b\\"; B "\"; B ""; B "q""\"] in
  join_words_bs ws = B """p"" ""dir""\ ""a b""\\ """"\ """" ""q\""""\" /\
  split_model (join_words_bs ws) = Ok ws /\ split_ref (join_words_bs ws) = ws.
Proof. repeat split; vm_compute; reflexivity. Qed.

(* round 5: the class of command lines the property quantifies over *)
Theorem splitter_exact_on_property_class : forall s ws, nz s -> split_seen s = Some ws -> split_model s = Ok ws.
Proof. exact split_seen_exact. Qed.
Print Assumptions splitter_exact_on_property_class.

(* in the class / outside it: leading, trailing, doubled unquoted space, unterminated quote; a doubled space INSIDE quotes is fine *)
Example splitter_exact_on_property_class_ex :
  split_seen (B "prog ""a  b"" """" x\y") = Some [B "prog"; B "a  b"; B ""; B "x\y"] /\
  split_model (B "prog ""a  b"" """" x\y") = Ok [B "prog"; B "a  b"; B ""; B "x\y"] /\
  split_seen (B " a") = None /\ split_seen (B "a ") = None /\ split_seen (B "a  b") = None /\
  split_seen (B "a ""b") = None /\ split_seen [] = Some [].
Proof. repeat split; vm_compute; reflexivity. Qed.

Theorem quoting_stays_in_property_class : forall ws, in_class (join_words_bs ws) = true.
Proof. exact join_bs_in_class. Qed.
Print Assumptions quoting_stays_in_property_class.

Theorem every_word_list_has_a_class_line : forall ws, split_seen (join_words_bs ws) = Some ws.
Proof. exact ArgsProofsClass.every_word_list_has_a_class_line. Qed.
Print Assumptions every_word_list_has_a_class_line.

Example every_word_list_has_a_class_line_ex :
  let ws := [B "a b"; []; B "q""r"; B "tail\"; B " "] in
  in_class (join_words_bs ws) = true /\ split_seen (join_words_bs ws) = Some ws.
Proof. split; vm_compute; reflexivity. Qed.

(* ---------------- C. what is handed to exec ---------------- *)

Theorem launch_argv_exact : forall exe argv env,
  launch_argv exe (length argv) (map Some argv) env = Ok (launch_ref_argv exe argv env).
Proof. exact launch_argv_correct. Qed.
Print Assumptions launch_argv_exact.

Example launch_argv_exact_ex :
  launch_argv (B "/bin/p") 3 (map Some [B "zero"; B "a b"; []]) ex_env =
  Ok {| x_program := B "/bin/p"; x_args := [B "/bin/p"; B "a b"; []];
        x_env := Some [B "HOME=/h"; B "K="] |}.
Proof. vm_compute. reflexivity. Qed.

Theorem launch_argv0_exact : forall exe argv env,
  launch_argv exe (S (length argv)) (map Some argv ++ [None]) env = Ok (launch_ref_argv0 exe argv env).
Proof. exact launch_argv0_correct. Qed.
Print Assumptions launch_argv0_exact.

(* a vector that carries its own terminating null pointer is handed to exec as it is, argv[0] included *)
Example launch_argv0_exact_ex :
  launch_argv (B "/bin/p") 3 (map Some [B "zero"; B "a b"] ++ [None]) ex_env =
  Ok {| x_program := B "/bin/p"; x_args := [B "zero"; B "a b"]; x_env := Some [B "HOME=/h"; B "K="] |} /\
  launch_argv (B "/bin/p") 1 [None] [] = Ok {| x_program := B "/bin/p"; x_args := []; x_env := None |}.
Proof. split; vm_compute; reflexivity. Qed.

Theorem launch_list_exact : forall exe args env,
  launch_list exe args env = Ok (launch_ref_list exe args env).
Proof. exact launch_list_correct. Qed.
Print Assumptions launch_list_exact.

Example launch_list_exact_ex :
  launch_list (B "p") [B "zero"; B "k"] ex_env =
  Ok {| x_program := B "p"; x_args := [B "p"; B "k"]; x_env := Some [B "HOME=/h"; B "K="] |} /\
  launch_list (B "p") [] [] = Ok {| x_program := B "p"; x_args := [B "p"]; x_env := None |}.
Proof. split; vm_compute; reflexivity. Qed.

Theorem launch_cmdline_exact : forall cmd env,
  nz cmd -> launch_cmdline cmd env = Ok (launch_ref_cmdline cmd env).
Proof. exact launch_cmdline_correct. Qed.
Print Assumptions launch_cmdline_exact.

Theorem launch_cmdline_total : forall cmd env, exists x, launch_cmdline cmd env = Ok x.
Proof. exact ArgsProofsLaunch.launch_cmdline_total. Qed.
Print Assumptions launch_cmdline_total.

Example launch_cmdline_exact_ex :
  launch_cmdline ex_cmdline [] =
  Ok {| x_program := B "prog"; x_args := [B "prog"; B "a b"; B ""; B "x\y"; B "q""r\s"; B "tail\"];
        x_env := None |} /\
  launch_cmdline [] [] = Ok {| x_program := []; x_args := [[]]; x_env := None |}.
Proof. split; vm_compute; reflexivity. Qed.

(* round 5: the start() entry points carry their own copies of the preparation *)
Theorem start_argv_exact : forall program argv env,
  start_argv program (length argv) (map Some argv) env = Ok (launch_ref_argv program argv env).
Proof. exact start_argv_correct. Qed.
Print Assumptions start_argv_exact.

Theorem start_argv0_exact : forall program argv env,
  start_argv program (S (length argv)) (map Some argv ++ [None]) env = Ok (launch_ref_argv0 program argv env).
Proof. exact start_argv0_correct. Qed.
Print Assumptions start_argv0_exact.

Theorem start_cmdline_exact : forall cmd env,
  nz cmd -> start_cmdline cmd env = Ok (launch_ref_cmdline cmd env).
Proof. exact start_cmdline_correct. Qed.
Print Assumptions start_cmdline_exact.

Theorem start_cmdline_total : forall cmd env, exists x, start_cmdline cmd env = Ok x.
Proof. exact ArgsProofsLaunch.start_cmdline_total. Qed.
Print Assumptions start_cmdline_total.

(* 17 arguments, an empty one first and last; an argument-less vector; a quoted program name with a space *)
Example start_entry_points_ex :
  start_argv (B "p") 18 (map Some (B "zero" :: [] :: repeat (B "x") 15 ++ [[]])) [] =
    Ok {| x_program := B "p"; x_args := B "p" :: [] :: repeat (B "x") 15 ++ [[]]; x_env := None |} /\
  start_argv (B "p") 0 [] ex_env = Ok {| x_program := B "p"; x_args := [B "p"]; x_env := Some [B "HOME=/h"; B "K="] |} /\
  start_cmdline (B """sp dir/prog"" """" x") [] =
    Ok {| x_program := B "sp dir/prog"; x_args := [B "sp dir/prog"; []; B "x"]; x_env := None |}.
Proof. repeat split; vm_compute; reflexivity. Qed.

Theorem cmdline_of_property_class_exact : forall cmd env ws, nz cmd -> split_seen cmd = Some ws ->
  let ws' := match ws with [] => [[]] | _ => ws end in
  launch_cmdline cmd env = Ok {| x_program := hd [] ws'; x_args := ws'; x_env := env_ref env |} /\
  start_cmdline cmd env = Ok {| x_program := hd [] ws'; x_args := ws'; x_env := env_ref env |}.
Proof. exact cmdline_class_exact. Qed.
Print Assumptions cmdline_of_property_class_exact.

Example cmdline_of_property_class_exact_ex :
  split_seen (B """./a""c """" x") = Some [B "./ac"; []; B "x"] /\
  launch_cmdline (B """./a""c """" x") [] = Ok {| x_program := B "./ac"; x_args := [B "./ac"; []; B "x"]; x_env := None |}.
Proof. split; vm_compute; reflexivity. Qed.

(* ---------------- D. the process environment (round 3) ---------------- *)

Theorem environment_get_refines_map : forall env name d, env_ok env -> name_ok (cstr name) = true ->
  get_env_var name d env = ref_get (get_env_vars env) name d.
Proof. exact get_refines. Qed.
Print Assumptions environment_get_refines_map.

Example environment_get_refines_map_ex :
  env_ok ex_environ /\ get_env_var (B "HOME") (B "d") ex_environ = B "/h" /\
  get_env_var (B "junk") (B "d") ex_environ = B "d" /\ get_env_vars ex_environ = [(B "A", B "1"); (B "E", []); (B "HOME", B "/h")].
Proof.
  split; [unfold env_ok; vm_compute; repeat (constructor; [cbn; intuition discriminate|]); constructor|].
  repeat split; vm_compute; reflexivity.
Qed.

Theorem environment_set_refines_map : forall env name value, env_ok env ->
  snd (ref_set (get_env_vars env) name value) = get_env_vars (snd (set_env_var name value env)) /\
  env_ok (snd (set_env_var name value env)).
Proof. exact set_refines. Qed.
Print Assumptions environment_set_refines_map.

Example environment_set_refines_map_ex :
  snd (set_env_var (B "B") (B "2") ex_environ) = ex_environ ++ [B "B=2"] /\
  snd (set_env_var (B "A") (B "x=y") ex_environ) = [B "HOME=/h"; B "junk"; B "A=x=y"; B "E="] /\
  snd (set_env_var (B "E") [] ex_environ) = [B "HOME=/h"; B "junk"; B "A=1"] /\
  snd (ref_set (get_env_vars ex_environ) (B "B") (B "2")) = [(B "A", B "1"); (B "B", B "2"); (B "E", []); (B "HOME", B "/h")].
Proof. repeat split; vm_compute; reflexivity. Qed.

Theorem environment_get_after_set : forall env name value d, env_ok env -> name_ok (cstr name) = true ->
  let env' := snd (set_env_var name value env) in
  env_ok env' /\
  get_env_var name d env' = match value with [] => d | _ => cstr value end /\
  forall other, name_ok (cstr other) = true -> cstr other <> cstr name ->
                get_env_var other d env' = get_env_var other d env.
Proof. exact get_after_set. Qed.
Print Assumptions environment_get_after_set.

Example environment_get_after_set_ex :
  get_env_var (B "A") (B "d") (snd (set_env_var (B "A") (B "new") ex_environ)) = B "new" /\
  get_env_var (B "A") (B "d") (snd (set_env_var (B "A") [] ex_environ)) = B "d" /\
  get_env_var (B "HOME") (B "d") (snd (set_env_var (B "A") [] ex_environ)) = B "/h" /\
  (* a value that starts with a NUL byte is not empty: the variable is set to the empty C string *)
  get_env_var (B "A") (B "d") (snd (set_env_var (B "A") [0; 120] ex_environ)) = [].
Proof. repeat split; vm_compute; reflexivity. Qed.

Theorem environment_enumeration : forall env, env_ok env ->
  sorted (get_env_vars env) /\
  forall name d, name_ok (cstr name) = true ->
    get_env_var name d env = match em_find (get_env_vars env) (cstr name) with Some v => v | None => d end.
Proof. exact enumeration_law. Qed.
Print Assumptions environment_enumeration.

Example environment_enumeration_ex :
  get_env_vars [B "b=2"; [200; 61; 49]; B "a=1"; B "nokey"; B "B=3"] = [(B "B", B "3"); (B "a", B "1"); (B "b", B "2"); ([200], B "1")].
Proof. vm_compute. reflexivity. Qed.

(* noted (outside the statement): the bool result.  For a value that is not empty it says whether the
   name was accepted; for an empty value it is the int result of unsetenv taken as a bool - false when
   the variable was removed, true when the name was refused *)
Theorem environment_set_result : forall env name value,
  fst (set_env_var name value env) =
  match value with [] => negb (name_ok (cstr name)) | _ => name_ok (cstr name) end /\
  fst (ref_set (get_env_vars env) name value) = name_ok (cstr name).
Proof. exact set_result. Qed.
Print Assumptions environment_set_result.

Example environment_set_result_ex :
  set_env_var (B "A") [] ex_environ = (false, [B "HOME=/h"; B "junk"; B "E="]) /\
  set_env_var (B "A=B") [] ex_environ = (true, ex_environ) /\
  fst (set_env_var (B "A") (B "v") ex_environ) = true /\ fst (set_env_var [] (B "v") ex_environ) = false.
Proof. repeat split; vm_compute; reflexivity. Qed.

Theorem environment_bad_name_unchanged : forall env name value,
  name_ok (cstr name) = false -> snd (set_env_var name value env) = env.
Proof. exact set_bad_name. Qed.
Print Assumptions environment_bad_name_unchanged.

Example environment_bad_name_unchanged_ex :
  name_ok (cstr (B "A=B")) = false /\ name_ok (cstr [0; 65]) = false /\ name_ok (cstr [65; 0; 61]) = true.
Proof. repeat split; vm_compute; reflexivity. Qed.

Theorem environment_stays_duplicate_free : forall ops env, env_ok env -> env_ok (run_sets ops env).
Proof. exact run_sets_ok. Qed.
Print Assumptions environment_stays_duplicate_free.

Example environment_stays_duplicate_free_ex :
  env_ok [] /\ run_sets [(B "A", B "1"); (B "B", B "2"); (B "A", B "3"); (B "B", [])] [] = [B "A=3"].
Proof. split; [exact env_ok_nil|vm_compute; reflexivity]. Qed.

(* ---------------- E. the Process object (round 3) ---------------- *)

Theorem process_step_invariant_and_refinement : forall lost o s w, PInv lost s w -> op_ok o ->
  exists lost',
    PInv lost' (snd (fst (pstep o s w))) (snd (pstep o s w)) /\
    (may_leak o = false -> lost' = lost) /\
    (specified (abs s) o -> lstep (abs s) o = (fst (fst (pstep o s w)), abs (snd (fst (pstep o s w))))).
Proof. exact pstep_ok. Qed.
Print Assumptions process_step_invariant_and_refinement.

Example process_step_invariant_and_refinement_ex :
  PInv [] pobj0 world0 /\ op_ok (ex_open7 (Some 4242)) /\
  pstep (ex_open7 (Some 4242)) pobj0 world0 =
    (RBool true, {| p_pid := 4242; p_out := 3; p_err := 5; p_in := 8 |},
     {| w_fds := [3; 5; 8]; w_stray := []; w_kids := [4242];
        w_log := [KPipe 3 4; KPipe 5 6; KPipe 7 8; KVfork 4242; KClose 4; KClose 6; KClose 7] |}) /\
  lstep LIdle (ex_open7 (Some 4242)) = (RBool true, LRunning 4242 true true true).
Proof.
  split; [exact pinv_init|]. split; [apply ex_open7_ok; discriminate|]. split; vm_compute; reflexivity.
Qed.

(* descriptor 0 of the caller closed: every pipe comes back with 0 as its read end and is moved away *)
Example process_open_descriptor_zero_ex :
  let o := POpen 5 (pa_zero 3 4) pa_none (pa_zero 5 6) (Some 77) in
  op_ok o /\
  pstep o pobj0 world0 =
    (RBool true, {| p_pid := 77; p_out := 4; p_err := 0; p_in := 5 |},
     {| w_fds := [4; 5]; w_stray := []; w_kids := [77];
        w_log := [KPipe 0 3; KDup 4; KClose 0; KPipe 0 5; KDup 6; KClose 0; KVfork 77; KClose 3; KClose 6] |}).
Proof.
  cbn zeta. split; [|vm_compute; reflexivity].
  cbn. repeat split; try discriminate. repeat (constructor; [cbn; intuition discriminate|]). constructor.
Qed.

Theorem process_refines_lifecycle : forall ops, Forall op_ok ops -> all_specified ops LIdle ->
  lrun ops LIdle = (fst (fst (prun ops pobj0 world0)), abs (snd (fst (prun ops pobj0 world0)))).
Proof. exact refines_lifecycle. Qed.
Print Assumptions process_refines_lifecycle.

Example process_refines_lifecycle_ex :
  let ops := [ex_open7 (Some 4242); PRead 100; PClose 4; ex_open7 (Some 9); PJoin None; PJoin (Some 768); PJoin (Some 0); PDestroy None] in
  Forall op_ok ops /\ all_specified ops LIdle /\
  fst (fst (prun ops pobj0 world0)) = [RBool true; RIo 100; RUnit; RRefused; RBool false; RJoin 3; RRefused; RUnit] /\
  w_fds (snd (prun ops pobj0 world0)) = [].
Proof.
  cbn zeta. split.
  - repeat (constructor; [first [apply ex_open7_ok; discriminate | exact I]|]). constructor.
  - split; [vm_compute; tauto|]. split; vm_compute; reflexivity.
Qed.

Theorem process_never_closes_twice : forall ops, Forall op_ok ops -> w_stray (snd (prun ops pobj0 world0)) = [].
Proof. exact no_double_close. Qed.
Print Assumptions process_never_closes_twice.

(* the record is not idle: a close of a descriptor that is not held is written down *)
Example process_never_closes_twice_ex :
  w_stray (k_close 9 world0) = [9] /\
  w_stray (snd (prun [ex_open7 None; ex_open7 (Some 1); PClose 7; PKill (Some 9); PDestroy None] pobj0 world0)) = [].
Proof. split; vm_compute; reflexivity. Qed.

Theorem process_accounting_unconditional : forall ops s w, Acc w -> Acc (snd (prun ops s w)).
Proof. exact acc_prun. Qed.
Print Assumptions process_accounting_unconditional.

Example process_accounting_unconditional_ex :
  Acc world0 /\
  let w := snd (prun [ex_open7 (Some 1); PJoin (Some 0)] pobj0 world0) in
  times_opened (w_log w) 3 = 1%nat /\ times_closed (w_log w) 3 = 1%nat /\ times_opened (w_log w) 9 = 0%nat.
Proof. split; [exact acc_world0|]. cbn zeta. repeat split; vm_compute; reflexivity. Qed.

(* FULL: forall ops wt, Forall op_ok ops -> the three conclusions below.  False: process_descriptor_leak_refuted.
   Proved for every history on which vfork does not fail inside open() and whose destructor is not the
   one whose waitpid fails while a process is running. *)
Theorem process_descriptors_closed_exactly_once_partial : forall ops wt,
  Forall op_ok ops -> clean ops = true -> (wt <> None \/ p_pid (snd (fst (prun ops pobj0 world0))) = 0) ->
  let w := snd (prun (ops ++ [PDestroy wt]) pobj0 world0) in
  w_fds w = [] /\ w_stray w = [] /\ forall fd, times_opened (w_log w) fd = times_closed (w_log w) fd.
Proof. exact closed_exactly_once. Qed.
Print Assumptions process_descriptors_closed_exactly_once_partial.

Example process_descriptors_closed_exactly_once_partial_ex :
  let ops := [POpen 7 (pa_pair 3 4) (pa_pair 5 6) pa_none (Some 1); ex_open7 (Some 4242); PClose 1; PKill None] in
  Forall op_ok ops /\ clean ops = true /\
  w_log (snd (prun (ops ++ [PDestroy (Some 9)]) pobj0 world0)) =
    [KPipe 3 4; KPipe 5 6; KPipeFail; KClose 3; KClose 4; KClose 5; KClose 6;
     KPipe 3 4; KPipe 5 6; KPipe 7 8; KVfork 4242; KClose 4; KClose 6; KClose 7; KClose 3;
     KKill 4242; KWait 4242 None; KWait 4242 (Some 9); KClose 5; KClose 8].
Proof.
  cbn zeta. split.
  - constructor.
    + cbn. repeat split; try discriminate. repeat (constructor; [cbn; intuition discriminate|]). constructor.
    + repeat (constructor; [first [apply ex_open7_ok; discriminate | exact I]|]). constructor.
  - split; vm_compute; reflexivity.
Qed.

Theorem process_descriptor_leak_refuted :
  (exists ops wt, Forall op_ok ops /\ wt <> None /\
     w_fds (snd (prun (ops ++ [PDestroy wt]) pobj0 world0)) = [3; 4; 5; 6; 7; 8] /\
     w_stray (snd (prun (ops ++ [PDestroy wt]) pobj0 world0)) = []) /\
  (exists ops, Forall op_ok ops /\ clean ops = true /\
     w_fds (snd (prun (ops ++ [PDestroy None]) pobj0 world0)) = [3; 5; 8] /\
     w_stray (snd (prun (ops ++ [PDestroy None]) pobj0 world0)) = []).
Proof. exact (conj leak_when_vfork_fails leak_when_destructor_join_fails). Qed.
Print Assumptions process_descriptor_leak_refuted.

Theorem process_holds_one_descriptor_per_stream : forall ops, Forall op_ok ops -> clean ops = true ->
  let s := snd (fst (prun ops pobj0 world0)) in
  let w := snd (prun ops pobj0 world0) in
  length (w_fds w) = lheld (abs s) /\ Permutation (w_fds w) (fields s) /\ (p_pid s = 0 -> w_fds w = []).
Proof. exact holds_one_per_stream. Qed.
Print Assumptions process_holds_one_descriptor_per_stream.

Example process_holds_one_descriptor_per_stream_ex :
  let r := prun [ex_open7 (Some 4242); PClose 2] pobj0 world0 in
  w_fds (snd r) = [3; 8] /\ abs (snd (fst r)) = LRunning 4242 true false true /\ lheld (abs (snd (fst r))) = 2%nat.
Proof. cbn zeta. repeat split; vm_compute; reflexivity. Qed.

Theorem join_returns_kernel_exit_code : forall lost s w status, PInv lost s w -> p_pid s <> 0 ->
  fst (fst (pstep (PJoin (Some status)) s w)) = RJoin (wexit status) /\
  abs (snd (fst (pstep (PJoin (Some status)) s w))) = LIdle /\
  PInv lost (snd (fst (pstep (PJoin (Some status)) s w))) (snd (pstep (PJoin (Some status)) s w)).
Proof. exact join_exit_code. Qed.
Print Assumptions join_returns_kernel_exit_code.

Theorem wait_status_of_exit_code : forall c, 0 <= c < 256 -> wexit (c * 256) = c.
Proof. exact wexit_code. Qed.
Print Assumptions wait_status_of_exit_code.

(* a child that was ended by a signal is reported as "joined, exit code 0" *)
Example join_returns_kernel_exit_code_ex :
  fst (fst (prun [ex_open7 (Some 4242); PJoin (Some (255 * 256))] pobj0 world0)) = [RBool true; RJoin 255] /\
  wexit 9 = 0 /\ wexit (3 * 256) = 3.
Proof. repeat split; vm_compute; reflexivity. Qed.

(* round 5: "join() returns its exit code" - for a child that exited (status = code * 256) the code, exactly *)
Theorem join_returns_exit_code_of_exited_child : forall lost s w c, PInv lost s w -> p_pid s <> 0 -> 0 <= c < 256 ->
  join_code_specified (PJoin (Some (c * 256))) = true /\
  fst (fst (pstep (PJoin (Some (c * 256))) s w)) = RJoin c.
Proof. exact join_exit_code_exited. Qed.
Print Assumptions join_returns_exit_code_of_exited_child.

(* a child ended by signal sg (with or without a core dump) has no exit code: the property-level observation leaves it open *)
Theorem join_of_signalled_child_unspecified : forall sg core, 0 < sg < 128 -> (core = 0 \/ core = 128) ->
  join_code_specified (PJoin (Some (sg + core))) = false.
Proof. exact join_signalled_unspecified. Qed.
Print Assumptions join_of_signalled_child_unspecified.

Example join_code_specified_ex :
  join_code_specified (PJoin (Some (47 * 256))) = true /\ join_code_specified (PJoin (Some 9)) = false /\
  join_code_specified (PJoin (Some 14)) = false /\ join_code_specified (PJoin (Some (11 + 128))) = false /\
  join_code_specified (PJoin None) = true.
Proof. repeat split; reflexivity. Qed.

Theorem idle_process_refuses_without_side_effects : forall lost s w o, PInv lost s w -> p_pid s = 0 ->
  match o with PJoin _ | PKill _ | PRead2 _ _ _ => True | _ => False end ->
  pstep o s w = (RRefused, s, w).
Proof. exact idle_refuses. Qed.
Print Assumptions idle_process_refuses_without_side_effects.

Theorem idle_close_is_noop : forall lost s w st, PInv lost s w -> p_pid s = 0 -> pstep (PClose st) s w = (RUnit, s, w).
Proof. exact ProcProofsObj.idle_close_is_noop. Qed.
Print Assumptions idle_close_is_noop.

Example idle_process_refuses_without_side_effects_ex :
  prun [PJoin (Some 0); PKill (Some 9); PRead2 3 3 10; PClose 7; PIsRunning] pobj0 world0 =
  ([RRefused; RRefused; RRefused; RUnit; RBool false], pobj0, world0).
Proof. vm_compute. reflexivity. Qed.

Theorem running_process_refuses_second_start : forall s w o, p_pid s <> 0 ->
  match o with POpen _ _ _ _ _ | PStart _ => True | _ => False end ->
  pstep o s w = (RRefused, s, w).
Proof. exact running_refuses. Qed.
Print Assumptions running_process_refuses_second_start.

Example running_process_refuses_second_start_ex :
  fst (fst (prun [PStart (Some 5); ex_open7 (Some 6); PStart (Some 7); PIsRunning] pobj0 world0)) =
  [RBool true; RRefused; RRefused; RBool true].
Proof. vm_compute. reflexivity. Qed.

Theorem failed_wait_can_be_retried : forall s w, p_pid s <> 0 ->
  pstep (PJoin None) s w = (RBool false, s, emit (KWait (p_pid s) None) w) /\
  pstep (PKill None) s w = (RBool false, s, emit (KWait (p_pid s) None) (emit (KKill (p_pid s)) w)).
Proof. exact failed_wait_keeps. Qed.
Print Assumptions failed_wait_can_be_retried.

Example failed_wait_can_be_retried_ex :
  fst (fst (prun [PStart (Some 5); PJoin None; PKill None; PJoin (Some 9)] pobj0 world0)) =
  [RBool true; RBool false; RBool false; RJoin 0].
Proof. vm_compute. reflexivity. Qed.

(* noted (outside the statement): without a stream, read(buffer, length) and write() operate on descriptor 0 *)
Theorem read_write_without_stream_use_descriptor_zero : forall lost s w ans, PInv lost s w -> p_pid s = 0 ->
  pstep (PRead ans) s w = (RIo ans, s, emit (KRead 0) w) /\
  pstep (PWrite ans) s w = (RIo ans, s, emit (KWrite 0) w).
Proof. exact ProcProofsObj.read_write_without_stream_use_descriptor_zero. Qed.
Print Assumptions read_write_without_stream_use_descriptor_zero.

Example read_write_without_stream_use_descriptor_zero_ex :
  w_log (snd (prun [PRead 64; PWrite 5] pobj0 world0)) = [KRead 0; KWrite 0].
Proof. vm_compute. reflexivity. Qed.

(* ---------------- E'. what the CALLER sees of a refusal (ProcSpec.seen) ----------------
   The property text is silent on misuse of a Process object and names no errno.  The reference observation the
   check's oracle compares is `seen`: a refused call is a FAILED call (false / -1) that changes nothing.  That the
   object declines before any system call (RRefused; in the code as it is: errno EINVAL) is what the exact theorems
   above say about the MODEL; it is compared in the model-only section of the correspondence. *)
Theorem process_refines_lifecycle_as_seen : forall ops, Forall op_ok ops -> all_specified ops LIdle ->
  seen_all ops (fst (lrun ops LIdle)) = seen_all ops (fst (fst (prun ops pobj0 world0))) /\
  snd (lrun ops LIdle) = abs (snd (fst (prun ops pobj0 world0))).
Proof. exact refines_lifecycle_seen. Qed.
Print Assumptions process_refines_lifecycle_as_seen.

Example process_refines_lifecycle_as_seen_ex :
  let ops := [ex_open7 (Some 4242); ex_open7 (Some 9); PStart (Some 9); PJoin (Some 768); PJoin (Some 0); PKill (Some 9); PRead2 3 1 5] in
  Forall op_ok ops /\ all_specified ops LIdle /\
  fst (fst (prun ops pobj0 world0)) = [RBool true; RRefused; RRefused; RJoin 3; RRefused; RRefused; RRefused] /\
  seen_all ops (fst (lrun ops LIdle)) = [RBool true; RBool false; RBool false; RJoin 3; RBool false; RBool false; RIo (-1)].
Proof.
  cbn zeta. split.
  - repeat (constructor; [first [apply ex_open7_ok; discriminate | exact I | cbn; discriminate]|]). constructor.
  - split; [vm_compute; tauto|]. split; vm_compute; reflexivity.
Qed.

Theorem process_step_as_seen : forall lost o s w, PInv lost s w -> op_ok o -> specified (abs s) o ->
  seen o (fst (lstep (abs s) o)) = seen o (fst (fst (pstep o s w))) /\
  snd (lstep (abs s) o) = abs (snd (fst (pstep o s w))).
Proof. exact pstep_seen. Qed.
Print Assumptions process_step_as_seen.

Theorem refusal_is_seen_as_failure_without_side_effects : forall lost s w o, PInv lost s w ->
  (p_pid s = 0 /\ match o with PJoin _ | PKill _ | PRead2 _ _ _ => True | _ => False end) \/
  (p_pid s <> 0 /\ match o with POpen _ _ _ _ _ | PStart _ => True | _ => False end) ->
  snd (fst (pstep o s w)) = s /\ snd (pstep o s w) = w /\
  seen o (fst (fst (pstep o s w))) = match o with PRead2 _ _ _ => RIo (-1) | _ => RBool false end.
Proof. exact refusal_seen_as_failure. Qed.
Print Assumptions refusal_is_seen_as_failure_without_side_effects.

Example refusal_is_seen_as_failure_without_side_effects_ex :
  PInv [] pobj0 world0 /\ p_pid pobj0 = 0 /\
  pstep (PKill (Some 9)) pobj0 world0 = (RRefused, pobj0, world0) /\ seen (PKill (Some 9)) RRefused = RBool false /\
  seen (PRead2 3 3 10) RRefused = RIo (-1) /\ seen PIsRunning (RBool false) = RBool false /\ seen (PJoin (Some 0)) (RJoin 3) = RJoin 3.
Proof. split; [exact pinv_init|]. repeat split; vm_compute; reflexivity. Qed.

(* ---------------- B'. the public seam of the harness ----------------
   Where Process::Private::splitCommandLine cannot be called (renamed / inlined by a refactoring) the harness starts the
   helper child through the public open("./ac " + line) and takes the words from the child's argv[1..]; this is the
   reference fact that makes argv[1..] = split(line): a first word without quote and space characters splits off. *)
Theorem reference_first_word_splits_off : forall w l, plain w -> split_ref (w ++ ch_space :: l) = w :: split_ref l.
Proof. exact split_ref_first_word. Qed.
Print Assumptions reference_first_word_splits_off.

Example reference_first_word_splits_off_ex :
  plain (B "./ac") /\ split_ref (B "./ac" ++ ch_space :: B " a ""b c"" ") = [B "./ac"; []; B "a"; B "b c"] /\
  split_ref (B " a ""b c"" ") = [[]; B "a"; B "b c"] /\ split_ref (B "./ac" ++ [ch_space]) = [B "./ac"].
Proof. split; [repeat constructor; discriminate|]. repeat split; vm_compute; reflexivity. Qed.
