(* Property C20 - only statements closed by `exact`, each followed by Print Assumptions. *)
From Coq Require Import ZArith List.
From Common Require Import Words.
From Args Require Import ArgsSpec ArgsModel ArgsProofs.
Import ListNotations.
Local Open Scope Z_scope.
