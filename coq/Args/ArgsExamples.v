(* C20 - concrete inputs for the non-vacuity examples of Properties_C20.v (definitions only) *)
From Coq Require Import ZArith List Bool String Ascii.
From Common Require Import Words.
From Args Require Import ArgsSpec ArgsModel.
Import ListNotations.
Local Open Scope Z_scope.

Fixpoint bytes_of (s : string) : str :=
  match s with
  | EmptyString => []
  | String a r => Z.of_N (N_of_ascii a) :: bytes_of r
  end.
Definition B (s : string) : str := bytes_of s.
Arguments B s%string.

(* -a/--all flag, -b/--bee required value, -c/--col optional value, --long (long only) flag *)
Definition ex_tbl : list option_row :=
  [ {| o_char := 97; o_name := Some (B "all"); o_arg := false; o_optional := false |};
    {| o_char := 98; o_name := Some (B "bee"); o_arg := true; o_optional := false |};
    {| o_char := 99; o_name := Some (B "col"); o_arg := true; o_optional := true |};
    {| o_char := 300; o_name := Some (B "long"); o_arg := false; o_optional := false |} ].

Definition ex_vec : list str :=
  map B [ "-aabv"; "-b"; "w"; "-cx"; "-c"; "--bee=1"; "--bee"; "2"; "--col"; "--col=3"; "--all=4";
          "--nope"; "-az"; "-"; ""; "plain"; "--long"; "--"; "-a"; "--bee" ]%string.

Definition ex_expected : list (Z * str) :=
  [ (97, []); (97, []); (98, B "v"); (98, B "w"); (99, B "x"); (99, []); (98, B "1"); (98, B "2");
    (99, []); (99, B "3"); (63, B "--all=4"); (63, B "--nope"); (97, []); (63, B "-z"); (0, B "-");
    (0, []); (0, B "plain"); (300, []); (0, B "-a"); (0, B "--bee") ].

(* the cursor after the first read of "-aabv": inside the cluster *)
Definition ex_cursor : cursor :=
  {| c_rest := tl ex_vec; c_idx := 2; c_arg := B "abv"; c_pos := 2; c_inOpt := true; c_skipOpt := false |}.

Definition ex_words : list str := map B [ "prog"; "a b"; ""; "say ""hi"""; "back\slash"; "\""" ]%string.
Definition ex_cmdline : str := B "prog ""a b"" """" x\y ""q\""r\s"" tail\".

Definition ex_env : list (str * str) := [ (B "HOME", B "/h"); (B "K", []) ].

(* round 3: an environment with an entry that has no '=' and one with an empty value *)
Definition ex_environ : list str := map B [ "HOME=/h"; "junk"; "A=1"; "E=" ]%string.
