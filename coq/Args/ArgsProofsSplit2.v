(* C20 part B, round 3 - the words that end in a backslash.
   1. What the splitter makes of the plain quoting  "body"  of such a word, exactly: the backslash
      escapes the closing quote, the word gets a quote character in place of the backslash and the
      rest of the line is read as if still inside the quoted segment.
   2. A quoting function for EVERY word (the trailing backslashes go behind the closing quote) and
      its round trip without any side condition. *)
From Coq Require Import ZArith List Bool Lia.
From Common Require Import Words.
From Args Require Import ArgsSpec ArgsModel ArgsProofsStr ArgsProofsSplit.
Import ListNotations.
Local Open Scope Z_scope.

Lemma bs_ne_0 : ch_bslash <> 0. Proof. discriminate. Qed.
Lemma sp_ne_q : (ch_space =? ch_quote) = false. Proof. reflexivity. Qed.
Lemma bs_ne_sp : (ch_bslash =? ch_space) = false. Proof. reflexivity. Qed.
Lemma q_ne_bs : (ch_quote =? ch_bslash) = false. Proof. reflexivity. Qed.

(* ---- 1. the plain quoting of a word that ends in a backslash ---- *)

(* inside a quoted segment: body of (u ++ [\]), closing quote, rest *)
Lemma scan_quoted_bs u : forall rest,
  ref_scan true (quote_body (u ++ [ch_bslash]) ++ ch_quote :: rest) =
  (u ++ ch_quote :: fst (fst (ref_scan true rest)), true, snd (ref_scan true rest)).
Proof.
  induction u as [|c t IH]; intro rest.
  - cbn [app quote_body]. rewrite bs_ne_q. cbn [app ref_scan].
    rewrite bs_ne_q, !Z.eqb_refl.
    destruct (ref_scan true rest) as [[w h] r]. reflexivity.
  - cbn [app quote_body].
    destruct (c =? ch_quote) eqn:Eq.
    + apply Z.eqb_eq in Eq. subst c.
      cbn [app ref_scan]. rewrite bs_ne_q, !Z.eqb_refl.
      rewrite IH.
      destruct (ref_scan true rest) as [[w h] r]. reflexivity.
    + cbn [app ref_scan]. rewrite Eq.
      destruct (c =? ch_bslash) eqn:Eb.
      * (* a backslash in the middle: the next character of the body is not a quote *)
        pose proof (IH rest) as IHr.
        destruct (t ++ [ch_bslash]) as [|q t'] eqn:Et; [destruct t; discriminate|].
        destruct (quote_body_head_ne q t' rest) as [h [X [HX Hh]]].
        rewrite HX in *. rewrite Hh. rewrite IHr.
        destruct (ref_scan true rest) as [[w hh] r]. reflexivity.
      * rewrite IH.
        destruct (ref_scan true rest) as [[w h] r]. reflexivity.
Qed.

(* a quoted word that ends in a backslash, followed by anything *)
Lemma scan_quote_word_bs u rest :
  ref_scan false (quote_word (u ++ [ch_bslash]) ++ rest) =
  (u ++ ch_quote :: fst (fst (ref_scan true rest)), true, snd (ref_scan true rest)).
Proof.
  unfold quote_word. cbn [app]. rewrite <- app_assoc. cbn [app ref_scan].
  rewrite Z.eqb_refl. rewrite scan_quoted_bs.
  destruct (ref_scan true rest) as [[w h] r]. reflexivity.
Qed.

(* well-behaved words in front, then more text *)
Lemma split_ref_join_then ws : forall rest, Forall quotable ws -> ws <> [] ->
  split_ref (join_words ws ++ ch_space :: rest) = ws ++ split_ref rest.
Proof.
  induction ws as [|w ws IH]; intros rest H Hne; [contradiction|].
  inversion H as [|w' ws' Hw Hws]; subst.
  destruct ws as [|w2 ws2].
  - cbn [join_words]. unfold split_ref.
    rewrite (split_ref_quote_word w _ Hw).
    cbn [ref_scan]. rewrite sp_ne_q, Z.eqb_refl.
    destruct (ref_scan false rest) as [[w' h] r].
    cbn [fst snd close_words app]. rewrite app_nil_r. reflexivity.
  - change (join_words (w :: w2 :: ws2)) with (quote_word w ++ ch_space :: join_words (w2 :: ws2)).
    rewrite <- app_assoc. cbn [app].
    unfold split_ref. rewrite (split_ref_quote_word w _ Hw).
    specialize (IH rest Hws ltac:(discriminate)). unfold split_ref in IH.
    cbn [ref_scan]. rewrite sp_ne_q, Z.eqb_refl.
    destruct (ref_scan false (join_words (w2 :: ws2) ++ ch_space :: rest)) as [[w' h] r].
    cbn [fst snd close_words]. rewrite app_nil_r. cbn [app]. rewrite IH. reflexivity.
Qed.

Lemma join_words_snoc ws x :
  join_words (ws ++ [x]) = match ws with [] => quote_word x | _ => join_words ws ++ ch_space :: quote_word x end.
Proof.
  induction ws as [|w ws IH]; [reflexivity|].
  destruct ws as [|w2 ws2]; [reflexivity|].
  change (join_words ((w :: w2 :: ws2) ++ [x])) with (quote_word w ++ ch_space :: join_words ((w2 :: ws2) ++ [x])).
  rewrite IH.
  change (join_words (w :: w2 :: ws2)) with (quote_word w ++ ch_space :: join_words (w2 :: ws2)).
  rewrite <- app_assoc. reflexivity.
Qed.

(* THE exact answer: the words in front are untouched; the word that ends in a backslash gets a
   quote character in its place and swallows the rest of the line, read in quoted mode *)
Lemma split_ref_trailing_backslash ws u tail : Forall quotable ws ->
  split_ref (join_words (ws ++ [u ++ [ch_bslash]]) ++ tail) =
  ws ++ close_words (u ++ ch_quote :: fst (fst (ref_scan true tail))) true (snd (ref_scan true tail)).
Proof.
  intro H. rewrite join_words_snoc.
  assert (H1 : split_ref (quote_word (u ++ [ch_bslash]) ++ tail) =
               close_words (u ++ ch_quote :: fst (fst (ref_scan true tail))) true (snd (ref_scan true tail))).
  { unfold split_ref. rewrite scan_quote_word_bs. reflexivity. }
  destruct ws as [|w ws']; [exact H1|].
  rewrite <- app_assoc. cbn [app].
  rewrite split_ref_join_then; [|exact H|discriminate].
  rewrite H1. reflexivity.
Qed.

(* as the last word of the line: the backslash has become a quote, nothing else changes *)
Lemma split_ref_trailing_backslash_last ws u : Forall quotable ws ->
  split_ref (join_words (ws ++ [u ++ [ch_bslash]])) = ws ++ [u ++ [ch_quote]].
Proof.
  intro H. rewrite <- (app_nil_r (join_words _)).
  rewrite split_ref_trailing_backslash by exact H. reflexivity.
Qed.

(* followed by words without quote and space characters: everything runs into ONE word - the
   separating spaces are inside quoted segments now, the words between them outside *)
Definition plain (w : str) : Prop := Forall (fun c => c <> ch_quote /\ c <> ch_space) w.

Lemma quote_body_plain w : plain w -> quote_body w = w.
Proof.
  induction w as [|c t IH]; intro H; [reflexivity|].
  inversion H as [|c' t' [Hq _] Ht]; subst. cbn [quote_body].
  apply Z.eqb_neq in Hq. rewrite Hq. rewrite IH by exact Ht. reflexivity.
Qed.

Lemma scan_plain_outside w : forall rest, plain w ->
  ref_scan false (w ++ ch_quote :: rest) =
  (w ++ fst (fst (ref_scan true rest)), true, snd (ref_scan true rest)).
Proof.
  induction w as [|c t IH]; intros rest H.
  - cbn [app ref_scan]. rewrite Z.eqb_refl.
    destruct (ref_scan true rest) as [[w h] r]. reflexivity.
  - inversion H as [|c' t' [Hq Hs] Ht]; subst.
    apply Z.eqb_neq in Hq. apply Z.eqb_neq in Hs.
    cbn [app ref_scan]. rewrite Hq, Hs. rewrite IH by exact Ht.
    destruct (ref_scan true rest) as [[w h] r]. reflexivity.
Qed.

Definition glue (ws : list str) : str := concat (map (fun w => ch_space :: w) ws).

Lemma scan_followers ws : Forall plain ws -> ws <> [] ->
  ref_scan true (ch_space :: join_words ws) = (glue ws, true, None).
Proof.
  induction ws as [|w ws IH]; intros H Hne; [contradiction|].
  inversion H as [|w' ws' Hw Hws]; subst.
  cbn [ref_scan]. rewrite sp_ne_q. change (ch_space =? ch_bslash) with false. cbn iota.
  destruct ws as [|w2 ws2].
  - cbn [join_words]. unfold quote_word. rewrite quote_body_plain by exact Hw.
    cbn [ref_scan]. rewrite Z.eqb_refl.
    rewrite scan_plain_outside by exact Hw.
    cbn [ref_scan fst snd]. unfold glue. cbn [map concat]. rewrite !app_nil_r. reflexivity.
  - change (join_words (w :: w2 :: ws2)) with (quote_word w ++ ch_space :: join_words (w2 :: ws2)).
    unfold quote_word. rewrite quote_body_plain by exact Hw.
    cbn [app ref_scan]. rewrite Z.eqb_refl.
    rewrite <- app_assoc. cbn [app].
    rewrite scan_plain_outside by exact Hw.
    rewrite (IH Hws) by discriminate.
    cbn [fst snd]. unfold glue. cbn [map concat]. reflexivity.
Qed.

Lemma join_words_app l ws2 : l <> [] -> ws2 <> [] ->
  join_words (l ++ ws2) = join_words l ++ ch_space :: join_words ws2.
Proof.
  intros Hl Hne. induction l as [|a l IHl]; [contradiction|].
  destruct l as [|b l'].
  - cbn [app]. destruct ws2 as [|x xs]; [contradiction|]. reflexivity.
  - change (join_words ((a :: b :: l') ++ ws2)) with (quote_word a ++ ch_space :: join_words ((b :: l') ++ ws2)).
    rewrite IHl by discriminate.
    change (join_words (a :: b :: l')) with (quote_word a ++ ch_space :: join_words (b :: l')).
    rewrite <- app_assoc. reflexivity.
Qed.

Lemma split_ref_trailing_backslash_merges ws u ws2 : Forall quotable ws -> Forall plain ws2 -> ws2 <> [] ->
  split_ref (join_words (ws ++ [u ++ [ch_bslash]] ++ ws2)) = ws ++ [u ++ ch_quote :: glue ws2].
Proof.
  intros H H2 Hne.
  assert (E : join_words (ws ++ [u ++ [ch_bslash]] ++ ws2) =
              join_words (ws ++ [u ++ [ch_bslash]]) ++ ch_space :: join_words ws2).
  { rewrite app_assoc. apply join_words_app; [|exact Hne].
    intro E. apply app_eq_nil in E. destruct E as [_ E]. discriminate. }
  rewrite E. rewrite split_ref_trailing_backslash by exact H.
  rewrite scan_followers by assumption. reflexivity.
Qed.

(* ---- 2. a quoting function for every word ---- *)
Lemma trail_spec w : let (u, k) := trail w in w = u ++ repeat ch_bslash k /\ quotable u.
Proof.
  induction w as [|c t IH]; [cbn; split; [reflexivity|unfold quotable; cbn; discriminate]|].
  cbn [trail]. destruct (trail t) as [u k]. destruct IH as [Ht Hq].
  destruct u as [|x u'].
  - destruct (c =? ch_bslash) eqn:Eb.
    + apply Z.eqb_eq in Eb. subst c. split; [cbn [app repeat]; f_equal; exact Ht | exact Hq].
    + split; [cbn [app]; f_equal; exact Ht|]. unfold quotable. cbn [last].
      apply Z.eqb_neq in Eb. exact Eb.
  - split; [cbn [app]; f_equal; exact Ht|]. unfold quotable in *. exact Hq.
Qed.

Lemma scan_backslashes k : forall rest,
  ref_scan false (repeat ch_bslash k ++ rest) =
  (repeat ch_bslash k ++ fst (fst (ref_scan false rest)),
   match k with O => snd (fst (ref_scan false rest)) | S _ => true end, snd (ref_scan false rest)).
Proof.
  induction k as [|k IH]; intro rest.
  - cbn [repeat app]. destruct (ref_scan false rest) as [[w h] r]. reflexivity.
  - cbn [repeat app ref_scan]. rewrite bs_ne_q, bs_ne_sp. rewrite IH.
    destruct (ref_scan false rest) as [[w h] r]. reflexivity.
Qed.

Lemma scan_quote_word_total w rest :
  ref_scan false (quote_word_bs w ++ rest) =
  (w ++ fst (fst (ref_scan false rest)), true, snd (ref_scan false rest)).
Proof.
  unfold quote_word_bs. pose proof (trail_spec w) as H. destruct (trail w) as [u k]. destruct H as [Hw Hq].
  rewrite <- app_assoc. rewrite (split_ref_quote_word u _ Hq). rewrite scan_backslashes.
  cbn [fst snd]. rewrite Hw at 1. rewrite <- app_assoc. reflexivity.
Qed.

Lemma split_ref_join_bs ws : split_ref (join_words_bs ws) = ws.
Proof.
  induction ws as [|w ws IH]; [reflexivity|].
  destruct ws as [|w2 ws2].
  - cbn [join_words_bs]. unfold split_ref.
    rewrite <- (app_nil_r (quote_word_bs w)). rewrite scan_quote_word_total.
    cbn [ref_scan fst snd close_words]. rewrite app_nil_r. reflexivity.
  - change (join_words_bs (w :: w2 :: ws2)) with (quote_word_bs w ++ ch_space :: join_words_bs (w2 :: ws2)).
    unfold split_ref. rewrite scan_quote_word_total.
    unfold split_ref in IH.
    cbn [ref_scan]. rewrite sp_ne_q, Z.eqb_refl.
    destruct (ref_scan false (join_words_bs (w2 :: ws2))) as [[w' h] r].
    cbn [fst snd close_words]. rewrite app_nil_r. rewrite IH. reflexivity.
Qed.

(* ---- the same about the model of the code ---- *)
Lemma nz_repeat_bs k : nz (repeat ch_bslash k).
Proof. induction k; constructor; [discriminate|assumption]. Qed.

Lemma nz_quote_word w : nz w -> nz (quote_word w).
Proof.
  intro H. unfold quote_word. constructor; [discriminate|].
  apply nz_app. split; [apply nz_quote_body; exact H|]. constructor; [discriminate|constructor].
Qed.

Lemma nz_quote_word_bs w : nz w -> nz (quote_word_bs w).
Proof.
  intro H. unfold quote_word_bs. pose proof (trail_spec w) as Ht. destruct (trail w) as [u k].
  destruct Ht as [Hw _]. rewrite Hw in H. apply nz_app in H. destruct H as [Hu _].
  apply nz_app. split; [apply nz_quote_word; exact Hu | apply nz_repeat_bs].
Qed.

Lemma nz_join_words_bs ws : Forall nz ws -> nz (join_words_bs ws).
Proof.
  induction ws as [|w ws IH]; intro H; [constructor|].
  inversion H as [|w' ws' Hw Hws]; subst.
  destruct ws as [|w2 ws2]; [apply nz_quote_word_bs; exact Hw|].
  change (join_words_bs (w :: w2 :: ws2)) with (quote_word_bs w ++ ch_space :: join_words_bs (w2 :: ws2)).
  apply nz_app. split; [apply nz_quote_word_bs; exact Hw|]. constructor; [discriminate|]. apply IH. exact Hws.
Qed.

Lemma split_model_roundtrip_all ws : Forall nz ws -> split_model (join_words_bs ws) = Ok ws.
Proof.
  intro Hz. rewrite split_model_correct by (apply nz_join_words_bs; exact Hz).
  rewrite split_ref_join_bs. reflexivity.
Qed.

Lemma split_model_trailing_backslash ws u tail : Forall nz ws -> nz u -> nz tail -> Forall quotable ws ->
  split_model (join_words (ws ++ [u ++ [ch_bslash]]) ++ tail) =
  Ok (ws ++ close_words (u ++ ch_quote :: fst (fst (ref_scan true tail))) true (snd (ref_scan true tail))).
Proof.
  intros Hz Hu Ht Hq.
  rewrite split_model_correct.
  - rewrite split_ref_trailing_backslash by exact Hq. reflexivity.
  - apply nz_app. split; [|exact Ht]. apply nz_join_words.
    apply Forall_app. split; [exact Hz|]. constructor; [|constructor].
    apply nz_app. split; [exact Hu|]. constructor; [discriminate|constructor].
Qed.

Lemma split_model_trailing_backslash_last ws u : Forall nz ws -> nz u -> Forall quotable ws ->
  split_model (join_words (ws ++ [u ++ [ch_bslash]])) = Ok (ws ++ [u ++ [ch_quote]]).
Proof.
  intros Hz Hu Hq. rewrite <- (app_nil_r (join_words _)).
  rewrite split_model_trailing_backslash; [reflexivity|exact Hz|exact Hu|constructor|exact Hq].
Qed.

Lemma split_model_trailing_backslash_merges ws u ws2 :
  Forall nz ws -> nz u -> Forall nz ws2 -> Forall quotable ws -> Forall plain ws2 -> ws2 <> [] ->
  split_model (join_words (ws ++ [u ++ [ch_bslash]] ++ ws2)) = Ok (ws ++ [u ++ ch_quote :: glue ws2]).
Proof.
  intros Hz Hu Hz2 Hq Hp Hne.
  rewrite split_model_correct.
  - rewrite split_ref_trailing_backslash_merges by assumption. reflexivity.
  - apply nz_join_words. apply Forall_app. split; [exact Hz|].
    apply Forall_app. split; [|exact Hz2]. constructor; [|constructor].
    apply nz_app. split; [exact Hu|]. constructor; [discriminate|constructor].
Qed.

(* A first word without quote and space characters followed by a space splits off, and the rest of the line is split
   as if it stood alone (behind the space the scanner is in its initial state).  Used by the harness where the file-local
   splitter cannot be called: it starts the helper child through the public open("./ac " + line) and reads split(line)
   from the child's argv[1..]. *)
Lemma scan_plain_then_space w l : plain w ->
  exists has, ref_scan false (w ++ ch_space :: l) = (w, has, Some (split_ref l)).
Proof.
  induction w as [|c t IH]; intro H.
  - exists false. cbn [app ref_scan]. change (ch_space =? ch_quote) with false. rewrite Z.eqb_refl.
    unfold split_ref. destruct (ref_scan false l) as [[w h] r]. reflexivity.
  - inversion H as [|c' t' [Hq Hs] Ht]; subst.
    apply Z.eqb_neq in Hq. apply Z.eqb_neq in Hs.
    destruct (IH Ht) as [has E]. exists true.
    cbn [app ref_scan]. rewrite Hq, Hs, E. reflexivity.
Qed.

Lemma split_ref_first_word w l : plain w -> split_ref (w ++ ch_space :: l) = w :: split_ref l.
Proof.
  intro H. destruct (scan_plain_then_space w l H) as [has E].
  unfold split_ref at 1. rewrite E. reflexivity.
Qed.
