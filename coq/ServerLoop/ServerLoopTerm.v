(* Termination of the two inner loops of one iteration of Server::run (round 4).

   Environment hypothesis [Env]: every timer interval is positive (the pooled timers and every timer a
   callback script may still create) and no callback moves the clock backwards.  Callback scripts are
   finite by construction (a list of entries, each consumed by the invocation that runs it, none created
   from inside run()).

   timer phase    measure [tlag now s] = over the queue entries due at [now]: 1 + (now - due) / interval
                  (the number of activations that bring the timer strictly past [now]; the default
                  entry counts 1).  Every pass of the loop lowers it by at least one; what the
                  onActivated callback does (create timers: due > now; remove timers; anything else)
                  does not raise it.  With fuel > tlag the phase does not run out of fuel and leaves
                  nothing due.
   closing phase  measure [cmeas s] = |closing set| + number of write/read actions left in the callback
                  scripts (only a failing write or read of a callback can add a client to the closing
                  set).  Every pass lowers it by at least one.  No hypothesis needed. *)
From Coq Require Import ZArith List Bool Lia.
From ServerLoop Require Import ServerLoopSpec ServerLoopModel ServerLoopBase ServerLoopInv.
Import ListNotations.
Local Open Scope Z_scope.

(* ---------- the environment hypothesis ------------------------------------------------------------------------------- *)
Definition act_okb (a : action) : bool :=
  match a with ATimer _ iv => 0 <? iv | AAdv d => 0 <=? d | _ => true end.
Definition entry_okb (x : sentry) : bool := forallb act_okb (s_acts x).
Definition scripts_okb (l : list sentry) : bool := forallb entry_okb l.
Definition timers_posb (l : list (Z * (Z * Z))) : bool := forallb (fun x => 0 <? snd (snd x)) l.
Definition envb (s : state) : bool := scripts_okb (scripts s) && timers_posb (timers s).
Definition Env (s : state) : Prop := envb s = true.

Lemma Env_spec s : Env s <-> scripts_okb (scripts s) = true /\ timers_posb (timers s) = true.
Proof. unfold Env, envb. apply andb_true_iff. Qed.

(* ---------- fields that most operations leave alone ------------------------------------------------------------------- *)
Definition same5 (s' s : state) : Prop :=
  queue s' = queue s /\ timers s' = timers s /\ clk s' = clk s /\ scripts s' = scripts s /\ stuck s' = stuck s.

Lemma same5_refl s : same5 s s. Proof. repeat split. Qed.
Lemma same5_trans s1 s2 s3 : same5 s1 s2 -> same5 s2 s3 -> same5 s1 s3.
Proof. intros (A1 & A2 & A3 & A4 & A5) (B1 & B2 & B3 & B4 & B5). repeat split; congruence. Qed.

Lemma same5_poll_set e f s : same5 (poll_set e f s) s.
Proof. pose proof (poll_set_frame e f s) as F. cbn zeta in F. unfold same5. tauto. Qed.
Lemma same5_poll_remove e s : same5 (poll_remove e s) s.
Proof. pose proof (poll_remove_frame e s) as F. cbn zeta in F. unfold same5. tauto. Qed.
Lemma same5_log e s : same5 (log e s) s. Proof. repeat split. Qed.
Lemma same5_upd_client i c s : same5 (upd_client i c s) s. Proof. repeat split. Qed.
Lemma same5_closing_append i s : same5 (closing_append i s) s.
Proof. unfold closing_append. destruct (zmem i (closing s)); repeat split. Qed.
Lemma same5_do_interrupt b s : same5 (do_interrupt b s) s.
Proof. unfold do_interrupt. sproj. destruct (intr s); repeat split. Qed.
Lemma same5_delete_client i s : same5 (delete_client i s) s.
Proof.
  unfold delete_client. cbn zeta.
  eapply same5_trans; [|eapply same5_trans; [apply (same5_poll_remove (Cl i))|]]; repeat split.
Qed.
Lemma same5_new_client i s : same5 (new_client i s) s.
Proof. unfold new_client. cbn zeta. eapply same5_trans; [apply same5_poll_set|]. repeat split. Qed.

Ltac s5step :=
  first [ apply same5_refl
        | eapply same5_trans; [apply same5_log|]
        | eapply same5_trans; [apply same5_poll_set|]
        | eapply same5_trans; [apply same5_poll_remove|]
        | eapply same5_trans; [apply same5_upd_client|]
        | eapply same5_trans; [apply same5_delete_client|]
        | eapply same5_trans; [apply same5_new_client|]
        | eapply same5_trans; [apply same5_closing_append|]
        | eapply same5_trans; [apply same5_do_interrupt|]
        | (repeat split; fail) ].
Ltac s5chain := repeat s5step.

Definition timer_act (a : action) : bool :=
  match a with ATimer _ _ | ARmTimer _ | AAdv _ => true | _ => false end.

Lemma same5_exec_action a s : timer_act a = false -> same5 (exec_action a s) s.
Proof.
  intros Ht. destruct a; try discriminate Ht; cbn [exec_action].
  - destruct (fresh (Cl i) s); s5chain.
  - destruct (live_client i s) as [c|]; [destruct (c_cb c)|]; s5chain.
  - destruct (fresh (Li i) s); s5chain.
  - destruct (zmem i (listeners s)); s5chain.
  - destruct (fresh (Es i) s); s5chain.
  - destruct (zmem i (estabs s)); s5chain.
  - destruct (live_client i s) as [c|]; [|s5chain]. destruct (n <? 0); [s5chain|]. destruct (c_back c =? 0); [|s5chain].
    cbn zeta. destruct (failed_io _); [s5chain|]. destruct (n <=? _); s5chain.
  - destruct (live_client i s) as [c|]; [|s5chain]. cbn zeta. destruct (failed_io _); s5chain.
  - destruct (live_client i s) as [c|]; [|s5chain]. destruct (c_susp c); s5chain.
  - destruct (live_client i s) as [c|]; [|s5chain]. destruct (negb (c_susp c)); s5chain.
  - apply same5_do_interrupt.
Qed.

(* scripts and the stuck flag are never touched by an action; the clock only by AAdv *)
Lemma exec_action_scripts a s : scripts (exec_action a s) = scripts s /\ stuck (exec_action a s) = stuck s.
Proof.
  destruct (timer_act a) eqn:Ht; [|destruct (same5_exec_action a s Ht) as (_ & _ & _ & A & B); auto].
  destruct a; try discriminate Ht; cbn [exec_action].
  - destruct (fresh (Tm i) s); auto.
  - destruct (alookup Z.eqb i (timers s)) as [[et iv]|]; auto.
  - auto.
Qed.

Lemma exec_action_clk a s : act_okb a = true -> clk s <= clk (exec_action a s).
Proof.
  intros Hok. destruct (timer_act a) eqn:Ht; [|destruct (same5_exec_action a s Ht) as (_ & _ & A & _); lia].
  destruct a; try discriminate Ht; cbn [exec_action].
  - destruct (fresh (Tm i) s); sproj; lia.
  - destruct (alookup Z.eqb i (timers s)) as [[et iv]|]; sproj; lia.
  - cbn [act_okb] in Hok. apply Z.leb_le in Hok. sproj. lia.
Qed.

Lemma exec_actions_scripts l s : scripts (exec_actions l s) = scripts s /\ stuck (exec_actions l s) = stuck s.
Proof.
  unfold exec_actions. revert s. induction l as [|a l IH]; cbn [fold_left]; intros s; [auto|].
  destruct (IH (exec_action a s)) as [A B]. destruct (exec_action_scripts a s) as [C D]. split; congruence.
Qed.

(* ---------- pop_script ----------------------------------------------------------------------------------------------------- *)
Lemma pop_script_In e k l o rest : pop_script e k l = (o, rest) ->
  (forall x, In x rest -> In x l) /\ (forall x, o = Some x -> In x l).
Proof.
  revert o rest. induction l as [|y l IH]; cbn [pop_script]; intros o rest E.
  - inversion E; subst. split; [auto | discriminate].
  - destruct (ent_eqb (s_ent y) e && skind_eqb (s_kind y) k).
    + inversion E; subst. split; [intros x Hx; right; exact Hx | intros x Hx; inversion Hx; subst; left; reflexivity].
    + destruct (pop_script e k l) as [o' r'] eqn:P. inversion E; subst.
      destruct (IH _ _ eq_refl) as [A B]. split.
      * intros x [Hx|Hx]; [left; exact Hx | right; apply A; exact Hx].
      * intros x Hx. right. apply B. exact Hx.
Qed.

Lemma scripts_okb_In l : scripts_okb l = true <-> forall x, In x l -> entry_okb x = true.
Proof. unfold scripts_okb. apply forallb_forall. Qed.

Lemma pop_script_ok e k l o rest : pop_script e k l = (o, rest) -> scripts_okb l = true ->
  scripts_okb rest = true /\ (forall x, o = Some x -> entry_okb x = true).
Proof.
  intros P H. destruct (pop_script_In _ _ _ _ _ P) as [A B]. rewrite scripts_okb_In in H. split.
  - apply scripts_okb_In. intros x Hx. apply H. apply A. exact Hx.
  - intros x Hx. apply H. apply B. exact Hx.
Qed.

(* ---------- the lag of the timer queue behind [now] ---------------------------------------------------------------------- *)
Definition elag (now : Z) (tm : list (Z * (Z * Z))) (x : Z * option Z) : nat :=
  if fst x - now <=? 0 then
    S (match snd x with
       | Some t => match alookup Z.eqb t tm with Some (_, iv) => Z.to_nat ((now - fst x) / iv) | None => O end
       | None => O
       end)
  else O.

Fixpoint qlag (now : Z) (tm : list (Z * (Z * Z))) (q : list (Z * option Z)) : nat :=
  match q with [] => O | x :: r => (elag now tm x + qlag now tm r)%nat end.

Definition tlag (now : Z) (s : state) : nat := qlag now (timers s) (queue s).

Lemma qlag_app now tm q1 q2 : qlag now tm (q1 ++ q2) = (qlag now tm q1 + qlag now tm q2)%nat.
Proof. induction q1 as [|x q1 IH]; cbn [app qlag]; [reflexivity | rewrite IH; lia]. Qed.

Lemma qlag_insert now tm k v q : qlag now tm (q_insert k v q) = (elag now tm (k, v) + qlag now tm q)%nat.
Proof.
  induction q as [|[k' v'] q IH]; cbn [q_insert qlag]; [lia|].
  destruct (k <? k'); cbn [qlag]; [lia | rewrite IH; lia].
Qed.

Lemma qlag_ext now tm1 tm2 q :
  (forall k t, In (k, Some t) q -> alookup Z.eqb t tm1 = alookup Z.eqb t tm2) -> qlag now tm1 q = qlag now tm2 q.
Proof.
  induction q as [|[k v] q IH]; intros H; cbn [qlag]; [reflexivity|].
  rewrite IH by (intros k' t' Hin; apply (H k'); right; exact Hin). f_equal.
  unfold elag. cbn [fst snd]. destruct (k - now <=? 0); [|reflexivity]. destruct v as [t|]; [|reflexivity].
  rewrite (H k t) by (left; reflexivity). reflexivity.
Qed.

Lemma elag_future now tm k v : now < k -> elag now tm (k, v) = O.
Proof. intros H. unfold elag. cbn [fst]. destruct (k - now <=? 0) eqn:E; [apply Z.leb_le in E; lia | reflexivity]. Qed.

(* one activation: the timer's next due time lags strictly less *)
Lemma elag_fire now tm tm' k t iv :
  0 < iv -> k <= now -> alookup Z.eqb t tm = Some (k, iv) -> alookup Z.eqb t tm' = Some (k + iv, iv) ->
  (S (elag now tm' ((k + iv)%Z, Some t)) <= elag now tm (k, Some t))%nat.
Proof.
  intros Hiv Hk H1 H2. unfold elag. cbn [fst snd]. rewrite H1, H2.
  replace (k - now <=? 0) with true by (symmetry; apply Z.leb_le; lia).
  destruct (k + iv - now <=? 0) eqn:E.
  - apply Z.leb_le in E. replace (now - k) with ((now - (k + iv)) + 1 * iv) by lia.
    rewrite Z.div_add by lia. rewrite Z2Nat.inj_add; [|apply Z.div_pos; lia|lia]. cbn. lia.
  - lia.
Qed.

(* ---------- what an action does to the lag -------------------------------------------------------------------------------- *)
Lemma tlag_same5 now s' s : same5 s' s -> tlag now s' = tlag now s.
Proof. intros (A & B & _). unfold tlag. rewrite A, B. reflexivity. Qed.

Lemma tlag_exec_action now a s :
  SInv s -> act_okb a = true -> now <= clk s -> (tlag now (exec_action a s) <= tlag now s)%nat.
Proof.
  intros HI Hok Hnow. destruct (timer_act a) eqn:Ht; [|rewrite (tlag_same5 now _ s (same5_exec_action a s Ht)); lia].
  destruct a; try discriminate Ht; cbn [exec_action].
  - (* a new timer is due after [now] *)
    destruct (fresh (Tm i) s) eqn:F; [|unfold tlag; sproj; lia].
    apply fresh_spec in F. destruct F as [_ F]. cbn [act_okb] in Hok. apply Z.ltb_lt in Hok.
    unfold tlag. sproj. rewrite qlag_insert. rewrite elag_future by lia. cbn [plus].
    rewrite (qlag_ext now (timers s ++ [(i, (clk s + iv, iv))]) (timers s)); [lia|].
    intros k t Hin. destruct (si_q2t _ HI k t Hin) as [iv' Hl]. rewrite alookup_app, Hl. reflexivity.
  - (* a removed timer takes its entry along *)
    destruct (alookup Z.eqb i (timers s)) as [[et iv]|] eqn:El; [|unfold tlag; sproj; lia].
    unfold tlag. sproj.
    destruct (q_remove_spec et i (queue s) (si_sorted _ HI) (si_qnd _ HI) (si_t2q _ HI _ _ _ El)) as [q1 [q2 [Eq Er]]].
    rewrite Er, Eq.
    assert (NoDup (qids q1 ++ i :: qids q2)) as ND.
    { pose proof (si_qnd _ HI) as ND. rewrite Eq, qids_app in ND. exact ND. }
    assert (~ In i (qids q1 ++ qids q2)) as Hni by (apply NoDup_remove_2; exact ND).
    rewrite (qlag_ext now (aremove Z.eqb i (timers s)) (timers s) (q1 ++ q2)).
    + rewrite !qlag_app. cbn [qlag]. lia.
    + intros k t Hin. apply alookup_aremove_neq; [apply zeq|].
      intros ->. apply Hni. rewrite <- qids_app. eapply qids_In; eauto.
  - unfold tlag. sproj. lia.
Qed.

Lemma timers_posb_In l : timers_posb l = true <-> forall x, In x l -> 0 < snd (snd x).
Proof.
  unfold timers_posb. rewrite forallb_forall. split; intros H x Hx; specialize (H x Hx); [apply Z.ltb_lt | apply Z.ltb_lt]; exact H.
Qed.

Lemma timers_pos_lookup s t et iv : Env s -> alookup Z.eqb t (timers s) = Some (et, iv) -> 0 < iv.
Proof.
  intros HE Hl. apply Env_spec in HE. destruct HE as [_ HE]. rewrite timers_posb_In in HE.
  apply (alookup_In Z.eqb zeq) in Hl. apply (HE _ Hl).
Qed.

Lemma timers_posb_aremove i l : timers_posb l = true -> timers_posb (aremove Z.eqb i l) = true.
Proof. rewrite !timers_posb_In. intros H x Hx. apply H. eapply In_aremove; eauto. Qed.

Lemma timers_posb_aset i et iv l : 0 < iv -> timers_posb l = true -> timers_posb (aset Z.eqb i (et, iv) l) = true.
Proof.
  intros Hiv. induction l as [|[k [e v]] l IH]; cbn [aset timers_posb forallb snd]; intros H.
  - rewrite andb_true_r. apply Z.ltb_lt. exact Hiv.
  - apply andb_true_iff in H. destruct H as [H1 H2]. destruct (k =? i); cbn [forallb snd].
    + apply andb_true_iff. split; [apply Z.ltb_lt; exact Hiv | exact H2].
    + apply andb_true_iff. split; [exact H1 | apply IH; exact H2].
Qed.

Lemma Env_same s' s : scripts s' = scripts s -> timers s' = timers s -> Env s -> Env s'.
Proof. unfold Env, envb. intros -> ->. auto. Qed.

Lemma Env_exec_action a s : act_okb a = true -> Env s -> Env (exec_action a s).
Proof.
  intros Hok HE. destruct (timer_act a) eqn:Ht.
  2:{ destruct (same5_exec_action a s Ht) as (_ & B & _ & D & _). eapply Env_same; eauto. }
  apply Env_spec in HE. destruct HE as [H1 H2].
  destruct a; try discriminate Ht; cbn [exec_action].
  - destruct (fresh (Tm i) s); apply Env_spec; sproj; [|auto]. split; [exact H1|].
    unfold timers_posb. rewrite forallb_app. apply andb_true_iff. split; [exact H2|].
    cbn [forallb snd]. rewrite andb_true_r. exact Hok.
  - destruct (alookup Z.eqb i (timers s)) as [[et iv]|]; apply Env_spec; sproj; [|auto].
    split; [exact H1 | apply timers_posb_aremove; exact H2].
  - apply Env_spec. sproj. auto.
Qed.

(* the four things the termination argument needs of a callback body *)
Record Good (now : Z) (s : state) : Prop := mkGood { g_inv : SInv s; g_env : Env s; g_now : now <= clk s }.

Lemma Good_exec_actions now l s :
  forallb act_okb l = true -> Good now s ->
  Good now (exec_actions l s) /\ (tlag now (exec_actions l s) <= tlag now s)%nat.
Proof.
  unfold exec_actions. revert s. induction l as [|a l IH]; cbn [fold_left forallb]; intros s Hok G; [split; [exact G | lia]|].
  apply andb_true_iff in Hok. destruct Hok as [Ha Hl]. destruct G as [HI HE Hn].
  assert (Good now (exec_action a s)) as G1.
  { constructor; [apply SInv_exec_action; exact HI | apply Env_exec_action; assumption |].
    pose proof (exec_action_clk a s Ha). lia. }
  destruct (IH _ Hl G1) as [G2 L2]. split; [exact G2|].
  pose proof (tlag_exec_action now a s HI Ha Hn). lia.
Qed.

Lemma Good_run_script now e k s :
  Good now s -> Good now (run_script e k s) /\ (tlag now (run_script e k s) <= tlag now s)%nat /\
                stuck (run_script e k s) = stuck s.
Proof.
  intros G. unfold run_script. destruct (pop_script e k (scripts s)) as [o rest] eqn:P.
  destruct G as [HI HE Hn]. pose proof HE as HE0. apply Env_spec in HE. destruct HE as [H1 H2].
  destruct (pop_script_ok _ _ _ _ _ P H1) as [A B].
  assert (Good now (set_scripts rest s)) as G1.
  { constructor; [apply SInv_set_scripts; exact HI | apply Env_spec; sproj; auto | exact Hn]. }
  destruct o as [x|].
  - destruct (Good_exec_actions now (s_acts x) _ (B x eq_refl) G1) as [G2 L2].
    split; [exact G2|]. split; [exact L2|]. apply (exec_actions_scripts (s_acts x) (set_scripts rest s)).
  - split; [exact G1|]. split; [unfold tlag; sproj; lia | reflexivity].
Qed.

(* ---------- (1) the timer phase terminates ---------------------------------------------------------------------------------- *)
Theorem timer_phase_terminates_l fuel now s :
  SInv s -> Env s -> now <= clk s -> (tlag now s < fuel)%nat ->
  let s' := timer_phase fuel now s in
  stuck s' = stuck s /\ tlag now s' = O /\ SInv s' /\ Env s' /\ now <= clk s'.
Proof.
  revert s. induction fuel as [|f IH]; intros s HI HE Hn Hf; [lia|].
  cbn zeta. cbn [timer_phase].
  destruct (queue s) as [|[k v] q'] eqn:Eq.
  { split; [reflexivity|]. split; [|auto]. unfold tlag. rewrite Eq. reflexivity. }
  destruct (k - now <=? 0) eqn:Ek.
  2:{ split; [reflexivity|]. split; [|auto]. unfold tlag. rewrite Eq.
      (* the queue is sorted: nothing behind a head that is not due is due *)
      pose proof (si_sorted _ HI) as Hs. rewrite Eq in Hs. apply Z.leb_gt in Ek.
      assert (forall q, Forall (fun y => k <= fst y) q -> qlag now (timers s) q = O) as Hz.
      { induction q as [|[k2 v2] q IHq]; intros Hq; cbn [qlag]; [reflexivity|].
        inversion Hq; subst. cbn [fst] in *. rewrite elag_future by lia. rewrite IHq by assumption. reflexivity. }
      cbn [qlag]. rewrite elag_future by lia. destruct Hs as [Hs _]. cbn [fst] in Hs. rewrite (Hz _ Hs). reflexivity. }
  apply Z.leb_le in Ek.
  pose proof (si_qnd _ HI) as Hqnd. rewrite Eq in Hqnd.
  destruct v as [t|].
  - destruct (alookup Z.eqb t (timers s)) as [[et iv]|] eqn:El.
    2:{ exfalso. destruct (si_q2t _ HI k t) as [iv Hiv]; [rewrite Eq; left; reflexivity | congruence]. }
    assert (et = k) as ->.
    { destruct (si_q2t _ HI k t) as [iv' Hiv]; [rewrite Eq; left; reflexivity|]. congruence. }
    assert (0 < iv) as Hiv by (eapply timers_pos_lookup; eauto).
    set (s1 := set_queue (q_insert (k + iv) (Some t) q') (set_timers (aset Z.eqb t (k + iv, iv) (timers s)) s)).
    assert (SInv s1) as HI1 by (eapply SInv_timer_fire; eauto).
    assert (Env s1) as HE1.
    { apply Env_spec in HE. destruct HE as [H1 H2]. apply Env_spec. subst s1. sproj. split; [exact H1|].
      apply timers_posb_aset; assumption. }
    assert (S (tlag now s1) <= tlag now s)%nat as Hl1.
    { unfold tlag. subst s1. sproj. rewrite Eq. rewrite qlag_insert. cbn [qlag].
      cbn [qids] in Hqnd. inversion Hqnd as [|? ? Hnin _]; subst.
      rewrite (qlag_ext now (aset Z.eqb t (k + iv, iv) (timers s)) (timers s) q').
      - pose proof (elag_fire now (timers s) (aset Z.eqb t (k + iv, iv) (timers s)) k t iv Hiv ltac:(lia) El
                      (alookup_aset_eq Z.eqb zeq t _ _)). lia.
      - intros k' t' Hin. apply alookup_aset_neq; [apply zeq|]. intros ->. apply Hnin. eapply qids_In; eauto. }
    set (s2 := log (EvAct t k now) s1).
    assert (Good now s2) as G2 by (constructor; [apply SInv_log; exact HI1 | exact HE1 | exact Hn]).
    destruct (Good_run_script now (Tm t) SAct s2 G2) as [[HI3 HE3 Hn3] [L3 St3]].
    assert (tlag now s2 = tlag now s1) as E21 by reflexivity.
    destruct (IH (run_script (Tm t) SAct s2) HI3 HE3 Hn3 ltac:(lia)) as (A & B & C & D & E).
    split; [rewrite A, St3; reflexivity | auto].
  - set (s1 := set_queue (q_insert (now + 300000) None q') s).
    assert (SInv s1) as HI1 by (eapply SInv_timer_default; eauto).
    assert (Env s1) as HE1 by (eapply Env_same; [..|exact HE]; reflexivity).
    assert (S (tlag now s1) <= tlag now s)%nat as Hl1.
    { unfold tlag. subst s1. sproj. rewrite Eq, qlag_insert. cbn [qlag]. rewrite elag_future by lia.
      unfold elag. cbn [fst snd]. replace (k - now <=? 0) with true by (symmetry; apply Z.leb_le; lia). lia. }
    destruct (IH s1 HI1 HE1 Hn ltac:(lia)) as (A & B & C & D & E).
    split; [rewrite A; reflexivity | auto].
Qed.

Theorem timer_phase_terminates_short fuel now s :
  SInv s -> Env s -> now <= clk s -> (tlag now s < fuel)%nat ->
  stuck (timer_phase fuel now s) = stuck s /\ tlag now (timer_phase fuel now s) = O.
Proof. intros HI HE Hn Hf. destruct (timer_phase_terminates_l fuel now s HI HE Hn Hf) as (A & B & _). exact (conj A B). Qed.

(* ---------- (2) the closing phase terminates ------------------------------------------------------------------------------- *)
Definition io_act (a : action) : nat := match a with AWrite _ _ | ARead _ => 1%nat | _ => O end.
Definition io_acts (l : list action) : nat := fold_right (fun a n => (io_act a + n)%nat) O l.
Definition io_scripts (l : list sentry) : nat := fold_right (fun x n => (io_acts (s_acts x) + n)%nat) O l.
Definition cmeas (s : state) : nat := (length (closing s) + io_scripts (scripts s))%nat.

Lemma length_zremove i l : (length (zremove i l) <= length l)%nat.
Proof. induction l as [|x l IH]; cbn [zremove length]; [lia|]. destruct (x =? i); cbn [length]; lia. Qed.

Lemma closing_poll_set e f s : closing (poll_set e f s) = closing s.
Proof. pose proof (poll_set_frame e f s) as F. cbn zeta in F. tauto. Qed.
Lemma closing_poll_remove e s : closing (poll_remove e s) = closing s.
Proof. pose proof (poll_remove_frame e s) as F. cbn zeta in F. tauto. Qed.

Lemma closing_delete_client i s : (length (closing (delete_client i s)) <= length (closing s))%nat.
Proof. unfold delete_client. cbn zeta. sproj. rewrite closing_poll_remove. sproj. apply length_zremove. Qed.

Lemma closing_closing_append i s : (length (closing (closing_append i s)) <= S (length (closing s)))%nat.
Proof. unfold closing_append. destruct (zmem i (closing s)); sproj; [lia|]. rewrite app_length. cbn. lia. Qed.

Lemma closing_upd_client i c s : closing (upd_client i c s) = closing s.
Proof. reflexivity. Qed.
Lemma closing_new_client i s : closing (new_client i s) = closing s.
Proof. unfold new_client. cbn zeta. rewrite closing_poll_set. reflexivity. Qed.

Ltac cl := unfold drop_send, drop_recv in *; repeat (progress (sproj; rewrite ?closing_upd_client, ?closing_new_client, ?closing_poll_set, ?closing_poll_remove)); sproj; try lia.

Lemma closing_exec_action a s : (length (closing (exec_action a s)) <= length (closing s) + io_act a)%nat.
Proof.
  destruct a; cbn [exec_action io_act].
  - destruct (fresh (Tm i) s); cl.
  - destruct (alookup Z.eqb i (timers s)) as [[et iv]|]; cl.
  - destruct (fresh (Cl i) s); cl.
  - destruct (live_client i s) as [c|]; [destruct (c_cb c)|]; cl.
    pose proof (closing_delete_client i s). lia.
  - destruct (fresh (Li i) s); cl.
  - destruct (zmem i (listeners s)); cl.
  - destruct (fresh (Es i) s); cl.
  - destruct (zmem i (estabs s)); cl.
  - destruct (live_client i s) as [c|]; [|cl]. destruct (n <? 0); [cl|]. destruct (c_back c =? 0); [|cl].
    cbn zeta. destruct (failed_io _).
    + cl. pose proof (closing_closing_append i (log (EvSend i n (send_result n (next_send n s)) false) (drop_send s))) as H.
      unfold drop_send in *. cl.
    + destruct (n <=? _); cl.
  - destruct (live_client i s) as [c|]; [|cl]. cbn zeta. destruct (failed_io _); cl.
    pose proof (closing_closing_append i (log (EvRecv i (recv_result (next_recv s))) (drop_recv s))) as H.
    unfold drop_recv in *. cl.
  - destruct (live_client i s) as [c|]; [|cl]. destruct (c_susp c); cl.
  - destruct (live_client i s) as [c|]; [|cl]. destruct (negb (c_susp c)); cl.
  - unfold do_interrupt. sproj. destruct (intr s); cl.
  - cl.
Qed.

Lemma closing_exec_actions l s : (length (closing (exec_actions l s)) <= length (closing s) + io_acts l)%nat.
Proof.
  unfold exec_actions. revert s. induction l as [|a l IH]; cbn [fold_left io_acts fold_right]; intros s; [lia|].
  specialize (IH (exec_action a s)). pose proof (closing_exec_action a s). fold (io_acts l). lia.
Qed.

Lemma pop_script_io e k l o rest : pop_script e k l = (o, rest) ->
  io_scripts l = (match o with Some x => io_acts (s_acts x) | None => O end + io_scripts rest)%nat.
Proof.
  revert o rest. induction l as [|y l IH]; cbn [pop_script]; intros o rest E.
  - inversion E; subst. reflexivity.
  - destruct (ent_eqb (s_ent y) e && skind_eqb (s_kind y) k).
    + inversion E; subst. reflexivity.
    + destruct (pop_script e k l) as [o' r'] eqn:P. inversion E; subst.
      specialize (IH _ _ eq_refl). cbn [io_scripts fold_right]. fold (io_scripts l). fold (io_scripts r'). lia.
Qed.

Lemma cmeas_run_script e k s : (cmeas (run_script e k s) <= cmeas s)%nat /\ stuck (run_script e k s) = stuck s.
Proof.
  unfold run_script. destruct (pop_script e k (scripts s)) as [o rest] eqn:P.
  pose proof (pop_script_io _ _ _ _ _ P) as Hio. destruct o as [x|].
  - destruct (exec_actions_scripts (s_acts x) (set_scripts rest s)) as [A B].
    pose proof (closing_exec_actions (s_acts x) (set_scripts rest s)) as C.
    unfold cmeas. rewrite A. sproj. split; [lia | exact B].
  - unfold cmeas. sproj. split; [lia | reflexivity].
Qed.

Lemma cmeas_callback e k s : (cmeas (callback e k s) <= cmeas s)%nat /\ stuck (callback e k s) = stuck s.
Proof. unfold callback. apply (cmeas_run_script e (SCb k) (log (EvCb e k (clk s)) s)). Qed.

Theorem closing_phase_terminates_l fuel s :
  (cmeas s < fuel)%nat ->
  stuck (closing_phase fuel s) = stuck s /\ closing (closing_phase fuel s) = [].
Proof.
  revert s. induction fuel as [|f IH]; intros s Hf; [lia|]. cbn [closing_phase].
  destruct (closing s) as [|i r] eqn:E; [auto|].
  assert (cmeas (set_closing r s) < cmeas s)%nat as H1 by (unfold cmeas; sproj; rewrite E; cbn [length]; lia).
  sproj. destruct (alookup Z.eqb i (clients s)) as [c|]; [destruct (c_cb c); [|destruct (c_rm c)]|].
  - destruct (cmeas_callback (Cl i) KClosed (set_closing r s)) as [A B].
    destruct (IH (callback (Cl i) KClosed (set_closing r s)) ltac:(lia)) as [C D]. split; [rewrite C, B; reflexivity | exact D].
  - assert (cmeas (delete_client i (set_closing r s)) <= cmeas (set_closing r s))%nat as A.
    { pose proof (closing_delete_client i (set_closing r s)). destruct (same5_delete_client i (set_closing r s)) as (_ & _ & _ & S & _).
      unfold cmeas. rewrite S. lia. }
    destruct (IH (delete_client i (set_closing r s)) ltac:(lia)) as [C D]. split; [rewrite C|exact D].
    destruct (same5_delete_client i (set_closing r s)) as (_ & _ & _ & _ & S). rewrite S. reflexivity.
  - assert (cmeas (log (EvRemoved (Cl i)) (delete_client i (set_closing r s))) <= cmeas (set_closing r s))%nat as A.
    { pose proof (closing_delete_client i (set_closing r s)). destruct (same5_delete_client i (set_closing r s)) as (_ & _ & _ & S & _).
      unfold cmeas. sproj. rewrite S. lia. }
    destruct (IH (log (EvRemoved (Cl i)) (delete_client i (set_closing r s))) ltac:(lia)) as [C D]. split; [rewrite C|exact D]. sproj.
    destruct (same5_delete_client i (set_closing r s)) as (_ & _ & _ & _ & S). rewrite S. reflexivity.
  - destruct (IH (set_closing r s) ltac:(lia)) as [C D]. split; [rewrite C; reflexivity | exact D].
Qed.
