(* The timer monitor accepts every log the model can produce. *)
From Coq Require Import ZArith List Bool Lia.
From ServerLoop Require Import ServerLoopSpec ServerLoopModel ServerLoopBase ServerLoopInv.
Import ListNotations.
Local Open Scope Z_scope.

Ltac dmatch :=
  repeat match goal with
         | |- context [match ?x with _ => _ end] => destruct x eqn:?
         end.

Definition tv (x : Z * Z * Z) : Z * Z := (tm_due x, snd (fst x)).
Definition tview (l : list (Z * (Z * Z * Z))) : list (Z * (Z * Z)) := map (fun x => (fst x, tv (snd x))) l.

Definition CplT (now : Z) (s : state) : Prop :=
  exists m, tmon_run (trace s) = Some m /\ timers s = tview (tm_tab m) /\ tm_now m = now.

Definition tirr (e : ev) : bool :=
  match e with
  | EvCreated (Tm _) _ _ | EvRemoved (Tm _) | EvNow _ | EvAct _ _ _ | EvWait _ => false
  | _ => true
  end.

Lemma tmon_step_irr m e : tirr e = true -> tmon_step m e = Some m.
Proof. destruct e; cbn; try discriminate; try reflexivity; destruct e; cbn; try discriminate; reflexivity. Qed.

Lemma CplT_frame n s s' : trace s' = trace s -> timers s' = timers s -> CplT n s -> CplT n s'.
Proof. intros E1 E2 [m [A [B C]]]. exists m. rewrite E1, E2. auto. Qed.

Lemma CplT_log n e s : tirr e = true -> CplT n s -> CplT n (log e s).
Proof.
  intros I [m [A [B C]]]. exists m. sproj. unfold tmon_run in *. cbn [mon_run]. rewrite A.
  split; [apply tmon_step_irr; exact I | auto].
Qed.

Ltac tframe := (eapply CplT_frame; [| |eassumption]; reflexivity).
Lemma CplT_set_clk n v s : CplT n s -> CplT n (set_clk v s). Proof. intros; tframe. Qed.
Lemma CplT_set_queue n v s : CplT n s -> CplT n (set_queue v s). Proof. intros; tframe. Qed.
Lemma CplT_set_listeners n v s : CplT n s -> CplT n (set_listeners v s). Proof. intros; tframe. Qed.
Lemma CplT_set_estabs n v s : CplT n s -> CplT n (set_estabs v s). Proof. intros; tframe. Qed.
Lemma CplT_set_clients n v s : CplT n s -> CplT n (set_clients v s). Proof. intros; tframe. Qed.
Lemma CplT_set_closing n v s : CplT n s -> CplT n (set_closing v s). Proof. intros; tframe. Qed.
Lemma CplT_set_socks n v s : CplT n s -> CplT n (set_socks v s). Proof. intros; tframe. Qed.
Lemma CplT_set_selected n v s : CplT n s -> CplT n (set_selected v s). Proof. intros; tframe. Qed.
Lemma CplT_set_intr n v s : CplT n s -> CplT n (set_intr v s). Proof. intros; tframe. Qed.
Lemma CplT_set_evcount n v s : CplT n s -> CplT n (set_evcount v s). Proof. intros; tframe. Qed.
Lemma CplT_set_used n v s : CplT n s -> CplT n (set_used v s). Proof. intros; tframe. Qed.
Lemma CplT_set_scripts n v s : CplT n s -> CplT n (set_scripts v s). Proof. intros; tframe. Qed.
Lemma CplT_set_sendq n v s : CplT n s -> CplT n (set_sendq v s). Proof. intros; tframe. Qed.
Lemma CplT_set_recvq n v s : CplT n s -> CplT n (set_recvq v s). Proof. intros; tframe. Qed.
Lemma CplT_set_acceptq n v s : CplT n s -> CplT n (set_acceptq v s). Proof. intros; tframe. Qed.
Lemma CplT_set_connq n v s : CplT n s -> CplT n (set_connq v s). Proof. intros; tframe. Qed.
Lemma CplT_set_stuck n v s : CplT n s -> CplT n (set_stuck v s). Proof. intros; tframe. Qed.

Create HintDb cplT.
#[export] Hint Resolve CplT_log CplT_set_clk CplT_set_queue CplT_set_listeners CplT_set_estabs CplT_set_clients CplT_set_closing
  CplT_set_socks CplT_set_selected CplT_set_intr CplT_set_evcount CplT_set_used CplT_set_scripts CplT_set_sendq CplT_set_recvq
  CplT_set_acceptq CplT_set_connq CplT_set_stuck : cplT.
#[export] Hint Extern 1 (tirr _ = true) => reflexivity : cplT.

Ltac tauto_cpl := cbn zeta; dmatch; sproj; eauto 12 with cplT.

Lemma CplT_poll_set n e f s : CplT n s -> CplT n (poll_set e f s).
Proof. intros H. unfold poll_set. tauto_cpl. Qed.
Lemma CplT_poll_remove n e s : CplT n s -> CplT n (poll_remove e s).
Proof. intros H. unfold poll_remove. tauto_cpl. Qed.
#[export] Hint Resolve CplT_poll_set CplT_poll_remove : cplT.
Lemma CplT_closing_append n i s : CplT n s -> CplT n (closing_append i s).
Proof. intros H. unfold closing_append. tauto_cpl. Qed.
Lemma CplT_delete_client n i s : CplT n s -> CplT n (delete_client i s).
Proof. intros H. unfold delete_client. tauto_cpl. Qed.
Lemma CplT_new_client n i s : CplT n s -> CplT n (new_client i s).
Proof. intros H. unfold new_client. tauto_cpl. Qed.
Lemma CplT_upd_client n i c s : CplT n s -> CplT n (upd_client i c s).
Proof. intros H. unfold upd_client. tauto_cpl. Qed.
Lemma CplT_do_interrupt n b s : CplT n s -> CplT n (do_interrupt b s).
Proof. intros H. unfold do_interrupt. tauto_cpl. Qed.
Lemma CplT_drop_send n s : CplT n s -> CplT n (drop_send s). Proof. intros; tframe. Qed.
Lemma CplT_drop_recv n s : CplT n s -> CplT n (drop_recv s). Proof. intros; tframe. Qed.
Lemma CplT_drop_accept n s : CplT n s -> CplT n (drop_accept s). Proof. intros; tframe. Qed.
Lemma CplT_drop_conn n s : CplT n s -> CplT n (drop_conn s). Proof. intros; tframe. Qed.
#[export] Hint Resolve CplT_closing_append CplT_delete_client CplT_new_client CplT_upd_client CplT_do_interrupt
  CplT_drop_send CplT_drop_recv CplT_drop_accept CplT_drop_conn : cplT.

(* the two actions the monitor looks at *)
Lemma tview_app l x : tview (l ++ [x]) = tview l ++ [(fst x, tv (snd x))].
Proof. unfold tview. rewrite map_app. reflexivity. Qed.

Lemma CplT_timer_create n i iv s :
  CplT n s ->
  CplT n (set_queue (q_insert (clk s + iv) (Some i) (queue s))
            (set_used (Tm i :: used s) (set_timers (timers s ++ [(i, (clk s + iv, iv))]) (log (EvCreated (Tm i) (clk s) iv) s)))).
Proof.
  intros [m [A [B C]]]. eexists. sproj. unfold tmon_run in *. cbn [mon_run]. rewrite A. cbn [tmon_step].
  split; [reflexivity|]. cbn [tm_tab tm_now]. split; [|exact C].
  rewrite tview_app, B. cbn [fst snd]. unfold tv, tm_due. cbn [fst snd].
  assert (clk s + iv = clk s + (0 + 1) * iv) as <- by lia. reflexivity.
Qed.

Lemma CplT_timer_remove n i et s :
  CplT n s ->
  CplT n (log (EvRemoved (Tm i)) (set_timers (aremove Z.eqb i (timers s)) (set_queue (q_remove et i (queue s)) s))).
Proof.
  intros [m [A [B C]]]. eexists. sproj. unfold tmon_run in *. cbn [mon_run]. rewrite A. cbn [tmon_step].
  split; [reflexivity|]. cbn [tm_tab tm_now]. split; [|exact C].
  rewrite B. unfold tview. rewrite aremove_map_snd. reflexivity.
Qed.

Lemma CplT_exec_action n a s : CplT n s -> CplT n (exec_action a s).
Proof.
  intros H. destruct a; cbn [exec_action].
  - destruct (fresh (Tm i) s); [exact (CplT_timer_create n i iv s H) | auto with cplT].
  - destruct (alookup Z.eqb i (timers s)) as [[et iv]|]; [exact (CplT_timer_remove n i et s H) | auto with cplT].
  - tauto_cpl.
  - tauto_cpl.
  - tauto_cpl.
  - tauto_cpl.
  - tauto_cpl.
  - tauto_cpl.
  - tauto_cpl.
  - tauto_cpl.
  - tauto_cpl.
  - tauto_cpl.
  - tauto_cpl.
  - tauto_cpl.
Qed.

Lemma CplT_exec_actions n l s : CplT n s -> CplT n (exec_actions l s).
Proof.
  unfold exec_actions. revert s. induction l as [|a l IH]; cbn [fold_left]; intros s H; [exact H|].
  apply IH. apply CplT_exec_action; exact H.
Qed.

Lemma CplT_run_script n e k s : CplT n s -> CplT n (run_script e k s).
Proof.
  intros H. unfold run_script. destruct (pop_script e k (scripts s)) as [[x|] rest].
  - apply CplT_exec_actions. auto with cplT.
  - auto with cplT.
Qed.
#[export] Hint Resolve CplT_run_script : cplT.

Lemma CplT_callback n e k s : CplT n s -> CplT n (callback e k s).
Proof. intros H. unfold callback. auto with cplT. Qed.
#[export] Hint Resolve CplT_callback : cplT.

(* the activation: the head of the sorted queue is the least due time of all live timers *)
Lemma CplT_timer_fire now k t q' et iv s :
  SInv s -> CplT now s -> queue s = (k, Some t) :: q' -> k - now <= 0 -> alookup Z.eqb t (timers s) = Some (et, iv) ->
  CplT now (log (EvAct t et now)
              (set_queue (q_insert (et + iv) (Some t) q') (set_timers (aset Z.eqb t (et + iv, iv) (timers s)) s))).
Proof.
  intros HI [m [A [B C]]] Eq Hdue El.
  assert (et = k) as ->.
  { destruct (si_q2t _ HI k t) as [iv' Hiv]; [rewrite Eq; left; reflexivity|]. congruence. }
  (* the monitor's entry for t *)
  assert (exists c n, alookup Z.eqb t (tm_tab m) = Some (c, iv, n) /\ k = c + (n + 1) * iv) as [c [n [Lm Ek]]].
  { rewrite B in El. unfold tview in El. rewrite alookup_map_snd in El.
    destruct (alookup Z.eqb t (tm_tab m)) as [[[c iv'] n']|]; cbn [option_map] in El; [|discriminate].
    inversion El. exists c, n'. cbn [tv tm_due fst snd] in *. subst. split; reflexivity. }
  (* no live timer is due earlier *)
  assert (forallb (fun x => k <=? tm_due (snd x)) (tm_tab m) = true) as Hmin.
  { apply forallb_forall. intros [t' x'] Hx. apply Z.leb_le. cbn [snd].
    assert (In t' (map fst (timers s))) as Hk.
    { rewrite B. unfold tview. rewrite map_map. cbn [fst]. apply (in_map fst) in Hx. exact Hx. }
    destruct (In_key_alookup Z.eqb zeq t' (timers s) Hk) as [[et' iv'] Hl'].
    pose proof (si_t2q _ HI _ _ _ Hl') as Hq. rewrite Eq in Hq.
    assert (k <= et') as Hle.
    { destruct Hq as [Hq|Hq]; [inversion Hq; lia|].
      pose proof (si_sorted _ HI) as Hs. rewrite Eq in Hs. destruct Hs as [Hs _].
      rewrite Forall_forall in Hs. apply Hs in Hq. exact Hq. }
    (* et' is the monitor's due time of t' — via NoDup keys the entry x' is the one alookup finds *)
    assert (NoDup (map fst (tm_tab m))) as NDm.
    { pose proof (si_tnd _ HI) as ND. rewrite B in ND. unfold tview in ND. rewrite map_map in ND. exact ND. }
    pose proof (In_alookup Z.eqb zeq t' x' (tm_tab m) NDm Hx) as Lx.
    rewrite B in Hl'. unfold tview in Hl'. rewrite alookup_map_snd, Lx in Hl'. cbn [option_map] in Hl'.
    inversion Hl'. unfold tv in *. lia. }
  eexists. sproj. unfold tmon_run in *. cbn [mon_run]. rewrite A. cbn [tmon_step]. rewrite Lm.
  replace (k =? c + (n + 1) * iv) with true by (symmetry; apply Z.eqb_eq; exact Ek).
  replace (k <=? now) with true by (symmetry; apply Z.leb_le; lia).
  replace (now =? tm_now m) with true by (symmetry; apply Z.eqb_eq; congruence).
  rewrite Hmin. cbn [andb]. split; [reflexivity|]. cbn [tm_tab tm_now]. split; [|exact C].
  rewrite B. unfold tview. rewrite <- aset_map_snd. unfold tv, tm_due. cbn [fst snd].
  assert (k + iv = c + (n + 1 + 1) * iv) as -> by lia. reflexivity.
Qed.

Lemma CplT_timer_phase fuel now s : SInv s -> CplT now s -> SInv (timer_phase fuel now s) /\ CplT now (timer_phase fuel now s).
Proof.
  revert s. induction fuel as [|f IH]; intros s HI H; cbn [timer_phase]; [split; [apply SInv_set_stuck; exact HI | auto with cplT]|].
  destruct (queue s) as [|[k v] q'] eqn:Eq; [split; assumption|].
  destruct (k - now <=? 0) eqn:Ed; [|split; assumption]. apply Z.leb_le in Ed.
  destruct v as [t|].
  - destruct (alookup Z.eqb t (timers s)) as [[et iv]|] eqn:El.
    + apply IH.
      * apply SInv_run_script. apply SInv_log. eapply SInv_timer_fire; eauto.
      * apply CplT_run_script. eapply CplT_timer_fire; eauto.
    + exfalso. destruct (si_q2t _ HI k t) as [iv Hiv]; [rewrite Eq; left; reflexivity | congruence].
  - apply IH; [eapply SInv_timer_default; eauto | auto with cplT].
Qed.

Lemma CplT_closing_phase fuel n s : CplT n s -> CplT n (closing_phase fuel s).
Proof.
  revert s. induction fuel as [|f IH]; intros s H; cbn [closing_phase]; [auto with cplT|].
  destruct (closing s) as [|i r]; [exact H|]. sproj.
  destruct (alookup Z.eqb i (clients s)) as [c|]; [destruct (c_cb c); [|destruct (c_rm c)]|]; apply IH; auto 8 with cplT.
Qed.

Lemma CplT_introduce n e k i acc s : CplT n s -> CplT n (introduce e k i acc s).
Proof. intros H. unfold introduce. tauto_cpl. Qed.
#[export] Hint Resolve CplT_introduce : cplT.

Lemma CplT_dispatch_write n i ar s : CplT n s -> CplT n (dispatch_write i ar s).
Proof. intros H. unfold dispatch_write. tauto_cpl. Qed.
#[export] Hint Resolve CplT_dispatch_write : cplT.

Lemma CplT_dispatch n e f s : CplT n s -> CplT n (dispatch e f s).
Proof. intros H. destruct e; cbn [dispatch]; tauto_cpl. Qed.

Lemma CplT_absorb n ready s : CplT n s -> CplT n (absorb ready s).
Proof.
  revert s. induction ready as [|[e b] r IH]; intros s H; cbn [absorb]; [exact H|].
  destruct (alookup ent_eqb e (socks s)); apply IH; auto with cplT.
Qed.
#[export] Hint Resolve CplT_absorb : cplT.

(* the wait: no live timer is due before it ends *)
Definition wait_ok (n t : Z) (s : state) : Prop := Forall (fun x => n + t <= fst (snd x)) (timers s).

Lemma CplT_wait n t s : wait_ok n t s -> CplT n s -> CplT n (log (EvWait t) s).
Proof.
  intros W [m [A [B C]]]. exists m. sproj. unfold tmon_run in *. cbn [mon_run]. rewrite A. cbn [tmon_step].
  split; [|auto].
  replace (forallb (fun x => tm_now m + t <=? tm_due (snd x)) (tm_tab m)) with true; [reflexivity|].
  symmetry. apply forallb_forall. intros [t' x'] Hx. apply Z.leb_le. cbn [snd].
  unfold wait_ok in W. rewrite B in W. rewrite Forall_forall in W.
  specialize (W (t', tv x')). cbn [fst snd tv] in W. rewrite C. apply W.
  unfold tview. apply (in_map (fun x => (fst x, tv (snd x)))) in Hx. exact Hx.
Qed.

Lemma CplT_epoll_wait n t items s : wait_ok n t s -> CplT n s -> CplT n (fst (epoll_wait t items s)).
Proof.
  intros W H. pose proof (CplT_wait n t s W H) as H1. unfold epoll_wait. cbn zeta.
  destruct items; cbn [fst]; auto 8 with cplT.
Qed.

(* the time-out of run(): the distance from the sampled clock to the head of the sorted queue *)
Lemma wait_ok_head now s :
  SInv s -> wait_ok now (match queue s with (k, _) :: _ => k - now | [] => 0 end) s.
Proof.
  intros HI. unfold wait_ok. apply Forall_forall. intros [t' [et iv]] Hx. cbn [fst snd].
  pose proof (In_alookup Z.eqb zeq t' (et, iv) (timers s) (si_tnd _ HI) Hx) as Hl.
  pose proof (si_t2q _ HI _ _ _ Hl) as Hq. pose proof (si_sorted _ HI) as Hs.
  destruct (queue s) as [|[k v] q']; [contradiction|].
  destruct Hq as [Hq|Hq]; [inversion Hq; lia|].
  destruct Hs as [Hs _]. rewrite Forall_forall in Hs. apply Hs in Hq. cbn [fst] in Hq. lia.
Qed.

Lemma CplT_pop_selected n s : CplT n s -> CplT n (fst (pop_selected s)).
Proof. intros H. unfold pop_selected. destruct (selected s); cbn [fst]; auto with cplT. Qed.

Lemma CplT_poll n t items s : wait_ok n t s -> CplT n s -> CplT n (fst (fst (poll t items s))).
Proof.
  intros W H. unfold poll. destruct (selected s) eqn:E.
  - pose proof (CplT_epoll_wait n t items s W H) as H1. destruct (epoll_wait t items s) as [s1 items1]. cbn [fst] in H1.
    destruct (0 <? evcount s1); cbn [fst]; [auto with cplT|].
    pose proof (CplT_pop_selected n s1 H1) as H2. destruct (pop_selected s1); exact H2.
  - pose proof (CplT_pop_selected n s H) as H2. destruct (pop_selected s); exact H2.
Qed.

Lemma CplT_now n s : CplT n s -> CplT (clk s) (log (EvNow (clk s)) s).
Proof.
  intros [m [A [B C]]]. eexists. sproj. unfold tmon_run in *. cbn [mon_run]. rewrite A. cbn [tmon_step].
  split; [reflexivity|]. cbn [tm_tab tm_now]. auto.
Qed.

Lemma CplT_run_loop fuel items n s : SInv s -> CplT n s -> exists n', CplT n' (run_loop fuel items s).
Proof.
  revert items n s. induction fuel as [|f IH]; intros items n s HI H; cbn [run_loop]; [exists n; auto with cplT|].
  cbn zeta.
  destruct (CplT_timer_phase f (clk s) (log (EvSel (sel_view (selected s))) (log (EvNow (clk s)) s))) as [HI1 H1];
    [apply SInv_log; apply SInv_log; exact HI | apply CplT_log; [reflexivity | eapply CplT_now; eauto]|].
  set (s0 := timer_phase f (clk s) (log (EvSel (sel_view (selected s))) (log (EvNow (clk s)) s))) in *.
  set (s1 := closing_phase f s0).
  assert (SInv s1) as HI2 by (apply SInv_closing_phase; exact HI1).
  assert (CplT (clk s) s1) as H2 by (apply CplT_closing_phase; exact H1).
  destruct (stuck s1); [eexists; exact H2|].
  match goal with |- context [poll ?t items s1] => set (tmo := t) end.
  pose proof (SInv_poll tmo items s1 HI2) as HI3. pose proof (CplT_poll _ tmo items s1 (wait_ok_head (clk s) s1 HI2) H2) as H3.
  destruct (poll tmo items s1) as [[s2 evt] items2]. cbn [fst] in HI3, H3.
  destruct evt as [[e fl]|].
  - destruct (fl_is_none fl).
    + destruct (intr s2); [exists (clk s); auto with cplT | eapply IH; eauto].
    + eapply IH; [apply SInv_dispatch; exact HI3 | apply CplT_dispatch; exact H3].
  - destruct (intr s2); [exists (clk s); auto with cplT | eapply IH; eauto].
Qed.

Lemma CplT_step fuel n s o : SInv s -> CplT n s -> exists n', CplT n' (step fuel s o).
Proof.
  intros HI H. unfold step. destruct (stuck s); [eauto|]. destruct o; try (exists n; auto with cplT; fail).
  - exists n. apply CplT_exec_action; exact H.
  - unfold run. eapply CplT_run_loop; [apply SInv_log; exact HI | apply CplT_log; [reflexivity | exact H]].
Qed.

Lemma CplT_init : CplT 0 init.
Proof. exists tmon0. cbn. auto. Qed.

Lemma CplT_steps fuel l s n : SInv s -> CplT n s -> exists n', CplT n' (steps fuel s l).
Proof.
  unfold steps. revert s n. induction l as [|o l IH]; cbn [fold_left]; intros s n HI H; [eauto|].
  destruct (CplT_step fuel n s o HI H) as [n' H']. eapply IH; [apply SInv_step; exact HI | exact H'].
Qed.

Theorem tmon_accepts_model fuel l : tmon_run (trace (steps fuel init l)) <> None.
Proof.
  destruct (CplT_steps fuel l init 0 SInv_init CplT_init) as [n [m [A _]]]. congruence.
Qed.
