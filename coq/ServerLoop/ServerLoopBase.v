(* List, association-list and timer-queue lemmas used by the ServerLoop proofs. *)
From Coq Require Import ZArith List Bool Lia Permutation.
From ServerLoop Require Import ServerLoopSpec ServerLoopModel.
Import ListNotations.
Local Open Scope Z_scope.

(* ---------- decidable equalities ------------------------------------------------------------ *)
Lemma ent_eqb_eq a b : ent_eqb a b = true <-> a = b.
Proof.
  destruct a, b; cbn [ent_eqb]; try (split; [discriminate | intros H; discriminate H]);
    rewrite Z.eqb_eq; split; intros H; try (inversion H; reflexivity); subst; reflexivity.
Qed.
Lemma ent_eqb_refl a : ent_eqb a a = true.
Proof. apply ent_eqb_eq; reflexivity. Qed.
Lemma ent_eqb_neq a b : ent_eqb a b = false <-> a <> b.
Proof.
  split; intros H.
  - intros E. apply ent_eqb_eq in E. congruence.
  - destruct (ent_eqb a b) eqn:E; [apply ent_eqb_eq in E; contradiction | reflexivity].
Qed.

Lemma NoDup_snoc {A} (l : list A) x : NoDup l -> ~ In x l -> NoDup (l ++ [x]).
Proof.
  induction l as [|y l IH]; cbn [app]; intros ND H.
  - constructor; [intros []|constructor].
  - inversion ND; subst. constructor.
    + rewrite in_app_iff. intros [H1|[H1|[]]]; [contradiction | subst; apply H; left; reflexivity].
    + apply IH; [assumption | intros H1; apply H; right; exact H1].
Qed.

Section AssocLemmas.
  Context {K V : Type} (eqb : K -> K -> bool).
  Hypothesis eqb_eq : forall a b, eqb a b = true <-> a = b.

  Lemma eqb_refl' a : eqb a a = true.
  Proof. apply eqb_eq; reflexivity. Qed.
  Lemma eqb_neq' a b : eqb a b = false <-> a <> b.
  Proof.
    split; intros H.
    - intros E. apply eqb_eq in E. congruence.
    - destruct (eqb a b) eqn:E; [apply eqb_eq in E; contradiction | reflexivity].
  Qed.

  Lemma alookup_In k (v : V) l : alookup eqb k l = Some v -> In (k, v) l.
  Proof.
    induction l as [|[k' v'] l IH]; cbn [alookup]; [discriminate|].
    destruct (eqb k' k) eqn:E.
    - apply eqb_eq in E. intros H; inversion H; subst. left; reflexivity.
    - intros H; right; auto.
  Qed.

  Lemma alookup_None k (l : list (K * V)) : alookup eqb k l = None <-> ~ In k (map fst l).
  Proof.
    induction l as [|[k' v'] l IH]; cbn [alookup map fst In].
    - split; auto.
    - destruct (eqb k' k) eqn:E.
      + apply eqb_eq in E. split; [discriminate | intros H; exfalso; apply H; left; exact E].
      + apply eqb_neq' in E. rewrite IH. split; intros H; [intros [H1|H1]; [contradiction | auto] | intros H1; apply H; right; exact H1].
  Qed.

  Lemma alookup_Some_key k (v : V) l : alookup eqb k l = Some v -> In k (map fst l).
  Proof. intros H. apply alookup_In in H. apply (in_map fst) in H. exact H. Qed.

  Lemma In_alookup k (v : V) l : NoDup (map fst l) -> In (k, v) l -> alookup eqb k l = Some v.
  Proof.
    induction l as [|[k' v'] l IH]; cbn [alookup map fst In]; [contradiction|].
    intros ND [H|H].
    - inversion H; subst. rewrite eqb_refl'. reflexivity.
    - inversion ND; subst. destruct (eqb k' k) eqn:E.
      + apply eqb_eq in E; subst. exfalso. apply H2. apply (in_map fst) in H. exact H.
      + auto.
  Qed.

  Lemma In_key_alookup k (l : list (K * V)) : In k (map fst l) -> exists v, alookup eqb k l = Some v.
  Proof.
    intros H. destruct (alookup eqb k l) eqn:E; [eauto|]. apply alookup_None in E. contradiction.
  Qed.

  (* keys *)
  Lemma keys_aset_in k (v : V) l : In k (map fst l) -> map fst (aset eqb k v l) = map fst l.
  Proof.
    induction l as [|[k' v'] l IH]; cbn [aset map fst In]; [contradiction|].
    intros H. destruct (eqb k' k) eqn:E; cbn [map fst].
    - reflexivity.
    - f_equal. apply IH. destruct H as [H|H]; [apply eqb_neq' in E; contradiction | exact H].
  Qed.

  Lemma keys_aset_notin k (v : V) l : ~ In k (map fst l) -> aset eqb k v l = l ++ [(k, v)].
  Proof.
    induction l as [|[k' v'] l IH]; cbn [aset map fst In app]; [reflexivity|].
    intros H. destruct (eqb k' k) eqn:E.
    - apply eqb_eq in E. exfalso; apply H; left; exact E.
    - f_equal. apply IH. intros H1; apply H; right; exact H1.
  Qed.

  Lemma keys_aset k (v : V) l : map fst (aset eqb k v l) = if existsb (eqb k) (map fst l) then map fst l else map fst l ++ [k].
  Proof.
    destruct (existsb (eqb k) (map fst l)) eqn:E.
    - apply keys_aset_in. apply existsb_exists in E. destruct E as [x [H1 H2]]. apply eqb_eq in H2; subst; exact H1.
    - rewrite keys_aset_notin.
      + rewrite map_app. reflexivity.
      + intros H. assert (existsb (eqb k) (map fst l) = true) as C; [|congruence].
        apply existsb_exists. exists k. split; [exact H | apply eqb_refl'].
  Qed.

  Lemma alookup_aset_eq k (v : V) l : alookup eqb k (aset eqb k v l) = Some v.
  Proof.
    induction l as [|[k' v'] l IH]; cbn [aset alookup].
    - rewrite eqb_refl'. reflexivity.
    - destruct (eqb k' k) eqn:E; cbn [alookup]; rewrite E; auto.
  Qed.

  Lemma alookup_aset_neq k k' (v : V) l : k' <> k -> alookup eqb k' (aset eqb k v l) = alookup eqb k' l.
  Proof.
    intros N. induction l as [|[k2 v2] l IH]; cbn [aset alookup].
    - assert (eqb k k' = false) as E by (apply eqb_neq'; congruence). rewrite E. reflexivity.
    - destruct (eqb k2 k) eqn:E; cbn [alookup].
      + apply eqb_eq in E; subst. assert (eqb k k' = false) as E2 by (apply eqb_neq'; congruence). rewrite E2. reflexivity.
      + destruct (eqb k2 k'); auto.
  Qed.

  Lemma alookup_aremove_neq k k' (l : list (K * V)) : k' <> k -> alookup eqb k' (aremove eqb k l) = alookup eqb k' l.
  Proof.
    intros N. induction l as [|[k2 v2] l IH]; cbn [aremove alookup]; [reflexivity|].
    destruct (eqb k2 k) eqn:E; cbn [alookup].
    - apply eqb_eq in E; subst. assert (eqb k k' = false) as E2 by (apply eqb_neq'; congruence). rewrite E2. reflexivity.
    - destruct (eqb k2 k'); auto.
  Qed.

  Lemma keys_aremove k (l : list (K * V)) : ~ In k (map fst l) -> aremove eqb k l = l.
  Proof.
    induction l as [|[k2 v2] l IH]; cbn [aremove map fst In]; [reflexivity|].
    intros H. destruct (eqb k2 k) eqn:E.
    - apply eqb_eq in E. exfalso; apply H; left; exact E.
    - f_equal. apply IH. intros H1; apply H; right; exact H1.
  Qed.

  Lemma In_aremove x k (l : list (K * V)) : In x (aremove eqb k l) -> In x l.
  Proof.
    induction l as [|[k2 v2] l IH]; cbn [aremove In]; [auto|].
    destruct (eqb k2 k); cbn [In]; [auto|]. intros [H|H]; auto.
  Qed.

  Lemma In_keys_aremove x k (l : list (K * V)) : In x (map fst (aremove eqb k l)) -> In x (map fst l).
  Proof.
    induction l as [|[k2 v2] l IH]; cbn [aremove map fst In]; [auto|].
    destruct (eqb k2 k); cbn [map fst In]; [auto|]. intros [H|H]; auto.
  Qed.

  Lemma NoDup_keys_aremove k (l : list (K * V)) : NoDup (map fst l) -> NoDup (map fst (aremove eqb k l)).
  Proof.
    induction l as [|[k2 v2] l IH]; cbn [aremove map fst]; [auto|].
    intros ND. inversion ND; subst. destruct (eqb k2 k); cbn [map fst]; [assumption|].
    constructor; [|auto]. intros H. apply H1. eapply In_keys_aremove; eauto.
  Qed.

  Lemma notin_keys_aremove k (l : list (K * V)) : NoDup (map fst l) -> ~ In k (map fst (aremove eqb k l)).
  Proof.
    induction l as [|[k2 v2] l IH]; cbn [aremove map fst]; [auto|].
    intros ND. inversion ND; subst. destruct (eqb k2 k) eqn:E; cbn [map fst In].
    - apply eqb_eq in E; subst. assumption.
    - apply eqb_neq' in E. intros [H|H]; [congruence | apply IH in H; auto].
  Qed.

  Lemma In_aremove_neq k k' (v : V) (l : list (K * V)) : k' <> k -> In (k', v) l -> In (k', v) (aremove eqb k l).
  Proof.
    intros N. induction l as [|[k2 v2] l IH]; cbn [aremove In]; [auto|].
    destruct (eqb k2 k) eqn:E; cbn [In].
    - apply eqb_eq in E; subst. intros [H|H]; [inversion H; subst; contradiction | exact H].
    - intros [H|H]; auto.
  Qed.

  Lemma In_keys_aremove_neq k k' (l : list (K * V)) : k' <> k -> In k' (map fst l) -> In k' (map fst (aremove eqb k l)).
  Proof.
    intros N. induction l as [|[k2 v2] l IH]; cbn [aremove map fst In]; [auto|].
    destruct (eqb k2 k) eqn:E; cbn [map fst In].
    - apply eqb_eq in E; subst. intros [H|H]; [congruence | exact H].
    - intros [H|H]; auto.
  Qed.

  Lemma NoDup_keys_aset k (v : V) l : NoDup (map fst l) -> NoDup (map fst (aset eqb k v l)).
  Proof.
    intros ND. rewrite keys_aset. destruct (existsb (eqb k) (map fst l)) eqn:E; [exact ND|].
    apply NoDup_snoc; [exact ND|].
    intros H. assert (existsb (eqb k) (map fst l) = true) as C; [|congruence].
    apply existsb_exists. exists k. split; [exact H | apply eqb_refl'].
  Qed.

  Lemma alookup_aremove_eq k (l : list (K * V)) : NoDup (map fst l) -> alookup eqb k (aremove eqb k l) = None.
  Proof. intros ND. apply alookup_None. apply notin_keys_aremove. exact ND. Qed.

  Lemma alookup_app k (l1 l2 : list (K * V)) :
    alookup eqb k (l1 ++ l2) = match alookup eqb k l1 with Some v => Some v | None => alookup eqb k l2 end.
  Proof.
    induction l1 as [|[k2 v2] l1 IH]; cbn [app alookup]; [reflexivity|].
    destruct (eqb k2 k); auto.
  Qed.

  Lemma alookup_map_snd {W} (g : V -> W) k (l : list (K * V)) :
    alookup eqb k (map (fun x => (fst x, g (snd x))) l) = option_map g (alookup eqb k l).
  Proof.
    induction l as [|[k2 v2] l IH]; cbn [map alookup fst snd option_map]; [reflexivity|].
    destruct (eqb k2 k); auto.
  Qed.

  Lemma aset_map_snd {W} (g : V -> W) k v (l : list (K * V)) :
    aset eqb k (g v) (map (fun x => (fst x, g (snd x))) l) = map (fun x => (fst x, g (snd x))) (aset eqb k v l).
  Proof.
    induction l as [|[k2 v2] l IH]; cbn [map aset fst snd]; [reflexivity|].
    destruct (eqb k2 k); cbn [map fst snd]; [reflexivity | f_equal; exact IH].
  Qed.

  Lemma aremove_map_snd {W} (g : V -> W) k (l : list (K * V)) :
    aremove eqb k (map (fun x => (fst x, g (snd x))) l) = map (fun x => (fst x, g (snd x))) (aremove eqb k l).
  Proof.
    induction l as [|[k2 v2] l IH]; cbn [map aremove fst snd]; [reflexivity|].
    destruct (eqb k2 k); cbn [map fst snd]; [reflexivity | f_equal; exact IH].
  Qed.
End AssocLemmas.

(* ---------- zmem / zremove / emem --------------------------------------------------------------- *)
Lemma zmem_In i l : zmem i l = true <-> In i l.
Proof.
  induction l as [|x l IH]; cbn [zmem In]; [split; [discriminate | intros []]|].
  rewrite orb_true_iff, Z.eqb_eq, IH. reflexivity.
Qed.
Lemma zmem_false i l : zmem i l = false <-> ~ In i l.
Proof. rewrite <- zmem_In. destruct (zmem i l); split; congruence. Qed.
Lemma emem_In e l : emem e l = true <-> In e l.
Proof.
  induction l as [|x l IH]; cbn [emem In]; [split; [discriminate | intros []]|].
  rewrite orb_true_iff, ent_eqb_eq, IH. reflexivity.
Qed.
Lemma emem_false e l : emem e l = false <-> ~ In e l.
Proof. rewrite <- emem_In. destruct (emem e l); split; congruence. Qed.

Lemma In_zremove x i l : In x (zremove i l) -> In x l.
Proof.
  induction l as [|y l IH]; cbn [zremove In]; [auto|].
  destruct (y =? i); cbn [In]; [auto|]. intros [H|H]; auto.
Qed.
Lemma In_zremove_neq x i l : x <> i -> In x l -> In x (zremove i l).
Proof.
  intros N. induction l as [|y l IH]; cbn [zremove In]; [auto|].
  destruct (y =? i) eqn:E; cbn [In].
  - apply Z.eqb_eq in E; subst. intros [H|H]; [congruence | exact H].
  - intros [H|H]; auto.
Qed.
Lemma NoDup_zremove i l : NoDup l -> NoDup (zremove i l).
Proof.
  induction l as [|y l IH]; cbn [zremove]; [auto|].
  intros ND; inversion ND; subst. destruct (y =? i); [assumption|].
  constructor; [|auto]. intros H; apply H1. eapply In_zremove; eauto.
Qed.
Lemma notin_zremove i l : NoDup l -> ~ In i (zremove i l).
Proof.
  induction l as [|y l IH]; cbn [zremove]; [auto|].
  intros ND; inversion ND; subst. destruct (y =? i) eqn:E; cbn [In].
  - apply Z.eqb_eq in E; subst; assumption.
  - apply Z.eqb_neq in E. intros [H|H]; [congruence | apply IH in H; auto].
Qed.
Lemma zremove_notin i l : ~ In i l -> zremove i l = l.
Proof.
  induction l as [|y l IH]; cbn [zremove In]; [reflexivity|].
  intros H. destruct (y =? i) eqn:E.
  - apply Z.eqb_eq in E. exfalso; apply H; left; exact E.
  - f_equal. apply IH. intros H1; apply H; right; exact H1.
Qed.
Lemma zremove_keys {V} i (l : list (Z * V)) : zremove i (map fst l) = map fst (aremove Z.eqb i l).
Proof.
  induction l as [|[k v] l IH]; cbn [map fst zremove aremove]; [reflexivity|].
  destruct (k =? i); cbn [map fst]; [reflexivity | f_equal; exact IH].
Qed.

(* ---------- the timer queue --------------------------------------------------------------------- *)
Fixpoint qsorted (q : list (Z * option Z)) : Prop :=
  match q with [] => True | x :: r => Forall (fun y => fst x <= fst y) r /\ qsorted r end.

Fixpoint qids (q : list (Z * option Z)) : list Z :=
  match q with [] => [] | (_, Some t) :: r => t :: qids r | (_, None) :: r => qids r end.

Lemma qids_In k t q : In (k, Some t) q -> In t (qids q).
Proof.
  induction q as [|[k' [t'|]] q IH]; cbn [In qids]; [auto| |].
  - intros [H|H]; [inversion H; subst; left; reflexivity | right; auto].
  - intros [H|H]; [discriminate | auto].
Qed.
Lemma qids_In_inv t q : In t (qids q) -> exists k, In (k, Some t) q.
Proof.
  induction q as [|[k' [t'|]] q IH]; cbn [In qids]; [intros []| |].
  - intros [H|H]; [subst; exists k'; left; reflexivity | destruct (IH H) as [k Hk]; exists k; right; exact Hk].
  - intros H. destruct (IH H) as [k Hk]; exists k; right; exact Hk.
Qed.
Lemma qids_app q1 q2 : qids (q1 ++ q2) = qids q1 ++ qids q2.
Proof.
  induction q1 as [|[k [t|]] q1 IH]; cbn [app qids]; [reflexivity | f_equal; exact IH | exact IH].
Qed.

Lemma q_insert_In x k v q : In x (q_insert k v q) <-> x = (k, v) \/ In x q.
Proof.
  induction q as [|[k' v'] q IH]; cbn [q_insert In].
  - split; [intros [H|[]]; left; auto | intros [H|[]]; left; auto].
  - destruct (k <? k'); cbn [In].
    + split; [intros [H|H]; [left; auto | right; exact H] | intros [H|H]; [left; auto | right; exact H]].
    + rewrite IH. split.
      * intros [H|[H|H]]; [right; left; exact H | left; exact H | right; right; exact H].
      * intros [H|[H|H]]; [right; left; exact H | left; exact H | right; right; exact H].
Qed.

Lemma q_insert_sorted k v q : qsorted q -> qsorted (q_insert k v q).
Proof.
  induction q as [|[k' v'] q IH]; cbn [q_insert qsorted]; [intros _; split; [constructor | exact I]|].
  intros [H1 H2]. destruct (k <? k') eqn:E.
  - apply Z.ltb_lt in E. cbn [qsorted]. split; [|split; assumption].
    constructor; [cbn [fst]; lia|]. eapply Forall_impl; [|exact H1]. cbn [fst]. intros; lia.
  - apply Z.ltb_ge in E. cbn [qsorted]. split; [|auto].
    apply Forall_forall. intros x Hx. apply q_insert_In in Hx. destruct Hx as [Hx|Hx].
    + subst. cbn [fst]. exact E.
    + rewrite Forall_forall in H1. auto.
Qed.

Lemma q_insert_perm k v q : Permutation (q_insert k v q) ((k, v) :: q).
Proof.
  induction q as [|[k' v'] q IH]; cbn [q_insert]; [reflexivity|].
  destruct (k <? k'); [reflexivity|].
  rewrite IH. apply perm_swap.
Qed.

Lemma qids_perm q1 q2 : Permutation q1 q2 -> Permutation (qids q1) (qids q2).
Proof.
  induction 1 as [| [k [t|]] l1 l2 P IH | [k1 [t1|]] [k2 [t2|]] l | l1 l2 l3 P1 IH1 P2 IH2]; cbn [qids]; auto.
  - apply perm_swap.
  - eapply Permutation_trans; eauto.
Qed.

Lemma q_insert_qids_nodup k t q : NoDup (qids q) -> ~ In t (qids q) -> NoDup (qids (q_insert k (Some t) q)).
Proof.
  intros ND H. eapply Permutation_NoDup.
  - apply Permutation_sym. apply qids_perm. apply q_insert_perm.
  - cbn [qids]. constructor; assumption.
Qed.
Lemma q_insert_qids_none k q : NoDup (qids q) -> NoDup (qids (q_insert k None q)).
Proof.
  intros ND. eapply Permutation_NoDup.
  - apply Permutation_sym. apply qids_perm. apply q_insert_perm.
  - cbn [qids]. assumption.
Qed.

Lemma oz_eqb_some v t : oz_eqb v (Some t) = true <-> v = Some t.
Proof.
  destruct v as [x|]; cbn [oz_eqb]; [rewrite Z.eqb_eq; split; intros H; [subst; reflexivity | inversion H; reflexivity] | split; discriminate].
Qed.

Lemma qsorted_app_inv q1 x q2 : qsorted (q1 ++ x :: q2) -> qsorted (q1 ++ q2).
Proof.
  induction q1 as [|y q1 IH]; cbn [app qsorted]; [intros [_ H]; exact H|].
  intros [H1 H2]. split; [|auto].
  rewrite Forall_forall in *. intros z Hz. apply H1. rewrite in_app_iff in *. cbn [In]. tauto.
Qed.

(* the scan finds the entry when every key from here on is >= et *)
Lemma q_scan_spec et t q :
  Forall (fun y => et <= fst y) q -> qsorted q -> NoDup (qids q) -> In (et, Some t) q ->
  exists q1 q2, q = q1 ++ (et, Some t) :: q2 /\ q_scan et t q = q1 ++ q2.
Proof.
  induction q as [|[k v] q IH]; cbn [In]; [intros _ _ _ []|].
  intros LB [S1 S2] ND HIn. cbn [q_scan].
  destruct (oz_eqb v (Some t)) eqn:E.
  - apply oz_eqb_some in E; subst v.
    destruct HIn as [H|H].
    + inversion H; subst. exists [], q. split; reflexivity.
    + exfalso. cbn [qids] in ND. inversion ND; subst. apply H2. eapply qids_In; eauto.
  - assert (v <> Some t) as NV by (intros C; apply oz_eqb_some in C; congruence).
    destruct HIn as [H|H]; [inversion H; subst; contradiction|].
    destruct (k =? et) eqn:E2; cbn [negb].
    + apply Z.eqb_eq in E2; subst k.
      assert (NoDup (qids q)) as ND' by (destruct v; cbn [qids] in ND; [inversion ND; assumption | assumption]).
      inversion LB; subst.
      destruct (IH H3 S2 ND' H) as [q1 [q2 [A B]]].
      exists ((et, v) :: q1), q2. cbn [app]. split; [f_equal; exact A | f_equal; exact B].
    + exfalso. apply Z.eqb_neq in E2. inversion LB; subst. cbn [fst] in H2.
      rewrite Forall_forall in S1. apply S1 in H. cbn [fst] in H. lia.
Qed.

Lemma q_remove_spec et t q :
  qsorted q -> NoDup (qids q) -> In (et, Some t) q ->
  exists q1 q2, q = q1 ++ (et, Some t) :: q2 /\ q_remove et t q = q1 ++ q2.
Proof.
  induction q as [|[k v] q IH]; [intros _ _ []|].
  intros S ND HIn. cbn [q_remove].
  destruct (k <? et) eqn:E.
  - apply Z.ltb_lt in E. destruct S as [S1 S2]. destruct HIn as [H|H]; [inversion H; lia|].
    assert (NoDup (qids q)) as ND' by (destruct v; cbn [qids] in ND; [inversion ND; assumption | assumption]).
    destruct (IH S2 ND' H) as [q1 [q2 [A B]]].
    exists ((k, v) :: q1), q2. cbn [app]. split; [f_equal; exact A | f_equal; exact B].
  - apply Z.ltb_ge in E. destruct (k =? et) eqn:E2.
    + apply Z.eqb_eq in E2; subst k. apply q_scan_spec; auto.
      destruct S as [S1 _]. constructor; [cbn [fst]; lia|]. exact S1.
    + exfalso. apply Z.eqb_neq in E2. destruct S as [S1 _]. destruct HIn as [H|H]; [inversion H; lia|].
      rewrite Forall_forall in S1. apply S1 in H. cbn [fst] in H. lia.
Qed.
