(* Outside onAccepted/onConnected every pooled client has a callback object (and therefore is not
   a client whose removal was deferred); inside, the client being announced is the only exception.
   This is what makes the "else deleteClient" branch of the closing pass of Server::run dead code. *)
From Coq Require Import ZArith List Bool Lia.
From ServerLoop Require Import ServerLoopSpec ServerLoopModel ServerLoopBase ServerLoopInv.
Import ListNotations.
Local Open Scope Z_scope.

Definition CbEx (ex : option Z) (s : state) : Prop :=
  forall j c, In (j, c) (clients s) -> Some j <> ex -> c_cb c = true /\ c_rm c = false.

Lemma In_aset_weak {V} k (c : V) l x : In x (aset Z.eqb k c l) -> x = (k, c) \/ In x l.
Proof.
  induction l as [|[k' v'] l IH]; cbn [aset In].
  - intros [H|[]]; left; auto.
  - destruct (k' =? k) eqn:E; cbn [In].
    + apply Z.eqb_eq in E; subst k'. intros [H|H]; [left; auto | right; right; exact H].
    + intros [H|H]; [right; left; exact H | destruct (IH H) as [A|A]; [left; exact A | right; right; exact A]].
Qed.

Lemma In_aset_strong {V} k (c : V) l j c' :
  NoDup (map fst l) -> In (j, c') (aset Z.eqb k c l) -> (j = k /\ c' = c) \/ (j <> k /\ In (j, c') l).
Proof.
  induction l as [|[k' v'] l IH]; cbn [aset In map fst].
  - intros _ [H|[]]. inversion H; subst. left; auto.
  - intros ND. inversion ND as [|? ? Hn ND']; subst. destruct (k' =? k) eqn:E; cbn [In].
    + apply Z.eqb_eq in E; subst k'. intros [H|H]; [inversion H; subst; left; auto|].
      right. split; [|right; exact H]. intros ->. apply Hn. apply (in_map fst) in H. exact H.
    + apply Z.eqb_neq in E. intros [H|H].
      * inversion H; subst. right. split; [exact E | left; reflexivity].
      * destruct (IH ND' H) as [A|[A B]]; [left; exact A | right; split; [exact A | right; exact B]].
Qed.

Lemma CbEx_frame ex s s' : clients s' = clients s -> CbEx ex s -> CbEx ex s'.
Proof. intros E H j c. rewrite E. apply H. Qed.

Ltac bframe := (eapply CbEx_frame; [|eassumption]; reflexivity).

Lemma CbEx_log ex e s : CbEx ex s -> CbEx ex (log e s). Proof. intros; bframe. Qed.
Lemma CbEx_poll_set ex e f s : CbEx ex s -> CbEx ex (poll_set e f s).
Proof. intros H. eapply CbEx_frame; [apply poll_set_clients | exact H]. Qed.
Lemma CbEx_poll_remove ex e s : CbEx ex s -> CbEx ex (poll_remove e s).
Proof. intros H. eapply CbEx_frame; [apply poll_remove_clients | exact H]. Qed.

Lemma CbEx_upd ex j c s : CbEx ex s -> (Some j <> ex -> c_cb c = true /\ c_rm c = false) -> CbEx ex (upd_client j c s).
Proof.
  intros H K j' c' Hin N. unfold upd_client in Hin. sproj. apply In_aset_weak in Hin. destruct Hin as [E|Hin].
  - inversion E; subst. auto.
  - apply (H _ _ Hin N).
Qed.

(* an update that copies the two flags of the client found in the pool *)
Lemma CbEx_upd_same ex j c0 c s :
  CbEx ex s -> alookup Z.eqb j (clients s) = Some c0 -> c_cb c = c_cb c0 -> c_rm c = c_rm c0 -> CbEx ex (upd_client j c s).
Proof.
  intros H L E1 E2. apply CbEx_upd; [exact H|]. intros N. rewrite E1, E2. apply (H j c0); [|exact N].
  eapply alookup_In; [apply zeq | exact L].
Qed.

Lemma CbEx_upd_fix i c s :
  NoDup (map fst (clients s)) -> c_cb c = true -> c_rm c = false -> CbEx (Some i) s -> CbEx None (upd_client i c s).
Proof.
  intros ND C1 C2 H j c' Hin _. unfold upd_client in Hin. sproj. apply In_aset_strong in Hin; [|exact ND].
  destruct Hin as [[-> ->]|[N Hin]]; [auto|]. apply (H _ _ Hin). congruence.
Qed.

Lemma delete_client_clients i s : clients (delete_client i s) = aremove Z.eqb i (clients s).
Proof. unfold delete_client. cbn zeta. sproj. rewrite poll_remove_clients. reflexivity. Qed.

Lemma CbEx_delete ex i s : CbEx ex s -> CbEx ex (delete_client i s).
Proof.
  intros H j c Hin N. rewrite delete_client_clients in Hin. apply In_aremove in Hin. apply (H _ _ Hin N).
Qed.

Lemma CbEx_delete_ex i s : NoDup (map fst (clients s)) -> CbEx (Some i) s -> CbEx None (delete_client i s).
Proof.
  intros ND H j c Hin _. rewrite delete_client_clients in Hin.
  assert (j <> i) as N.
  { intros ->. apply (notin_keys_aremove Z.eqb zeq i (clients s) ND). apply (in_map fst) in Hin. exact Hin. }
  apply In_aremove in Hin. apply (H _ _ Hin). congruence.
Qed.

Lemma new_client_clients i s : clients (new_client i s) = clients s ++ [(i, mkCl false 0 false false)].
Proof. unfold new_client. cbn zeta. rewrite poll_set_clients. reflexivity. Qed.

Lemma CbEx_new i s : CbEx None s -> CbEx (Some i) (new_client i s).
Proof.
  intros H j c Hin N. rewrite new_client_clients in Hin. apply in_app_iff in Hin. destruct Hin as [Hin|[E|[]]].
  - apply (H _ _ Hin). discriminate.
  - inversion E; subst. congruence.
Qed.

Lemma CbEx_closing_append ex i s : CbEx ex s -> CbEx ex (closing_append i s).
Proof. intros H. unfold closing_append. destruct (zmem i (closing s)); bframe. Qed.

Lemma CbEx_do_interrupt ex b s : CbEx ex s -> CbEx ex (do_interrupt b s).
Proof. intros H. unfold do_interrupt. sproj. destruct (intr s); bframe. Qed.

Lemma CbEx_exec_action ex a s : SInv s -> CbEx ex s -> CbEx ex (exec_action a s).
Proof.
  intros HI H. destruct a; cbn [exec_action].
  - destruct (fresh (Tm i) s); bframe.
  - destruct (alookup Z.eqb i (timers s)) as [[et iv]|]; bframe.
  - (* APair *) destruct (fresh (Cl i) s) eqn:F; [|bframe].
    apply fresh_spec in F. destruct F as [_ F].
    assert (SInv (new_client i (log (EvCreated (Cl i) 0 0) s))) as HI1 by (apply SInv_new_client; [apply SInv_log; exact HI | exact F]).
    intros j c Hin N. unfold upd_client in Hin. sproj. apply In_aset_strong in Hin; [|apply (si_cnd _ HI1)].
    destruct Hin as [[-> ->]|[Nj Hin]]; [auto|].
    rewrite new_client_clients in Hin. sproj. apply in_app_iff in Hin. destruct Hin as [Hin|[E|[]]]; [apply (H _ _ Hin N)|].
    inversion E; subst. congruence.
  - (* ARmClient *) destruct (live_client i s) as [c|] eqn:E0; [apply live_client_some in E0; destruct E0 as [E Er]|bframe].
    destruct (c_cb c) eqn:Ec; apply CbEx_log.
    + apply CbEx_delete; exact H.
    + apply CbEx_upd; [exact H|]. intros N. exfalso.
      destruct (H i c) as [A _]; [eapply alookup_In; [apply zeq | exact E] | exact N | congruence].
  - destruct (fresh (Li i) s); [|bframe]. apply CbEx_poll_set. bframe.
  - destruct (zmem i (listeners s)); [|bframe]. apply CbEx_log. eapply CbEx_frame; [|apply (CbEx_poll_remove ex (Li i) s H)]. reflexivity.
  - destruct (fresh (Es i) s); [|bframe]. apply CbEx_poll_set. bframe.
  - destruct (zmem i (estabs s)); [|bframe]. apply CbEx_log. eapply CbEx_frame; [|apply (CbEx_poll_remove ex (Es i) s H)]. reflexivity.
  - (* AWrite *) destruct (live_client i s) as [c|] eqn:E0; [apply live_client_some in E0; destruct E0 as [E Er]|bframe].
    destruct (n <? 0); [bframe|]. destruct (c_back c =? 0).
    + cbn zeta. destruct (failed_io _).
      * apply CbEx_log. apply CbEx_closing_append. bframe.
      * destruct (n <=? _); [bframe|]. apply CbEx_log. apply CbEx_poll_set.
        eapply (CbEx_upd_same ex i c); [|exact E|reflexivity|reflexivity]. bframe.
    + apply CbEx_log. eapply (CbEx_upd_same ex i c); [exact H|exact E|reflexivity|reflexivity].
  - (* ARead *) destruct (live_client i s) as [c|]; [|bframe].
    cbn zeta. destruct (failed_io _); [|bframe].
    apply CbEx_log. apply CbEx_closing_append. bframe.
  - (* ASuspend *) destruct (live_client i s) as [c|] eqn:E0; [apply live_client_some in E0; destruct E0 as [E Er]|bframe].
    destruct (c_susp c); [exact H|]. apply CbEx_poll_set. eapply (CbEx_upd_same ex i c); [exact H|exact E|reflexivity|reflexivity].
  - (* AResume *) destruct (live_client i s) as [c|] eqn:E0; [apply live_client_some in E0; destruct E0 as [E Er]|bframe].
    destruct (negb (c_susp c)); [exact H|]. apply CbEx_poll_set. eapply (CbEx_upd_same ex i c); [exact H|exact E|reflexivity|reflexivity].
  - apply CbEx_do_interrupt; exact H.
  - bframe.
Qed.

Lemma CbEx_exec_actions ex l s : SInv s -> CbEx ex s -> CbEx ex (exec_actions l s).
Proof.
  unfold exec_actions. revert s. induction l as [|a l IH]; cbn [fold_left]; intros s HI H; [exact H|].
  apply IH; [apply SInv_exec_action; exact HI | apply CbEx_exec_action; assumption].
Qed.

Lemma CbEx_run_script ex e k s : SInv s -> CbEx ex s -> CbEx ex (run_script e k s).
Proof.
  intros HI H. unfold run_script. destruct (pop_script e k (scripts s)) as [[x|] rest].
  - apply CbEx_exec_actions; [apply SInv_set_scripts; exact HI | bframe].
  - bframe.
Qed.

Lemma CbEx_callback ex e k s : SInv s -> CbEx ex s -> CbEx ex (callback e k s).
Proof. intros HI H. unfold callback. apply CbEx_run_script; [apply SInv_log; exact HI | apply CbEx_log; exact H]. Qed.

Lemma CbEx_timer_phase ex fuel now s : SInv s -> CbEx ex s -> CbEx ex (timer_phase fuel now s).
Proof.
  revert s. induction fuel as [|f IH]; intros s HI H; cbn [timer_phase]; [bframe|].
  destruct (queue s) as [|[k v] q'] eqn:Eq; [exact H|]. destruct (k - now <=? 0); [|exact H].
  destruct v as [t|].
  - destruct (alookup Z.eqb t (timers s)) as [[et iv]|] eqn:El.
    + assert (SInv (set_queue (q_insert (et + iv) (Some t) q') (set_timers (aset Z.eqb t (et + iv, iv) (timers s)) s))) as HI1
        by (eapply SInv_timer_fire; eauto).
      apply IH; [apply SInv_run_script; apply SInv_log; exact HI1|].
      apply CbEx_run_script; [apply SInv_log; exact HI1 | bframe].
    + apply IH; [|bframe]. exfalso. destruct (si_q2t _ HI k t) as [iv Hiv]; [rewrite Eq; left; reflexivity | congruence].
  - apply IH; [eapply SInv_timer_default; eauto | bframe].
Qed.

Lemma CbEx_closing_phase ex fuel s : SInv s -> CbEx ex s -> CbEx ex (closing_phase fuel s).
Proof.
  revert s. induction fuel as [|f IH]; intros s HI H; cbn [closing_phase]; [bframe|].
  destruct (closing s) as [|i r] eqn:E; [exact H|].
  assert (SInv (set_closing r s)) as HI1 by (eapply SInv_closing_pop; eauto).
  assert (CbEx ex (set_closing r s)) as H1 by bframe.
  sproj. destruct (alookup Z.eqb i (clients s)) as [c|]; [destruct (c_cb c); [|destruct (c_rm c)]|]; apply IH.
  - apply SInv_callback; exact HI1.
  - apply CbEx_callback; assumption.
  - apply SInv_delete_client; exact HI1.
  - apply CbEx_delete; exact H1.
  - apply SInv_log; apply SInv_delete_client; exact HI1.
  - apply CbEx_log; apply CbEx_delete; exact H1.
  - exact HI1.
  - exact H1.
Qed.

Lemma CbEx_introduce e k i acc s : SInv s -> ~ In (Cl i) (used s) -> CbEx None s -> CbEx None (introduce e k i acc s).
Proof.
  intros HI F H. unfold introduce. cbn zeta.
  set (s1 := new_client i (log (EvCreated (Cl i) 0 0) s)).
  assert (SInv s1) as HI1 by (apply SInv_new_client; [apply SInv_log; exact HI | exact F]).
  assert (CbEx (Some i) s1) as H1 by (apply CbEx_new; apply CbEx_log; exact H).
  set (s2 := log (EvIntroRet i acc) (run_script e (SIn k) (log (EvIntro e k i (clk s1)) s1))).
  assert (SInv s2) as HI2 by (apply SInv_log; apply SInv_run_script; apply SInv_log; exact HI1).
  assert (CbEx (Some i) s2) as H2.
  { apply CbEx_log. apply CbEx_run_script; [apply SInv_log; exact HI1 | apply CbEx_log; exact H1]. }
  destruct acc; [|apply CbEx_delete_ex; [apply (si_cnd _ HI2) | exact H2]].
  destruct (alookup Z.eqb i (clients s2)) as [c|] eqn:E.
  - destruct (c_rm c); [apply CbEx_delete_ex; [apply (si_cnd _ HI2) | exact H2]|].
    apply CbEx_upd_fix; [apply (si_cnd _ HI2) | reflexivity | reflexivity | exact H2].
  - intros j c Hin _. apply (H2 _ _ Hin). intros C. inversion C; subst j.
    apply (alookup_None Z.eqb zeq) in E. apply E. apply (in_map fst) in Hin. exact Hin.
Qed.

Lemma CbEx_dispatch_write ex i ar s : SInv s -> CbEx ex s -> CbEx ex (dispatch_write i ar s).
Proof.
  intros HI H. unfold dispatch_write. destruct (alookup Z.eqb i (clients s)) as [c|] eqn:E; [|exact H].
  assert (In i (map fst (clients s))) as Hi by (eapply alookup_Some_key; [apply zeq | eauto]).
  destruct (0 <? c_back c).
  - cbn zeta. set (o := next_send (c_back c) s). set (s1 := log (EvSend i (c_back c) (send_result (c_back c) o) true) (drop_send s)).
    assert (SInv s1) as HI1 by (apply SInv_log; apply SInv_drop_send; exact HI).
    assert (CbEx ex s1) as H1 by bframe.
    assert (alookup Z.eqb i (clients s1) = Some c) as E1 by exact E.
    assert (In i (map fst (clients s1))) as Hi1 by exact Hi.
    destruct (failed_io (send_result (c_back c) o)).
    + apply CbEx_callback; [apply SInv_poll_remove; apply SInv_upd_client; assumption|].
      apply CbEx_poll_remove. eapply (CbEx_upd_same ex i c); [exact H1 | exact E1 | reflexivity | reflexivity].
    + destruct (c_back c - Z.max 0 (send_result (c_back c) o) =? 0).
      * apply CbEx_callback.
        -- apply SInv_client_set; [exact HI1 | exact Hi1 | destruct (c_susp c); reflexivity | destruct (c_susp c); reflexivity].
        -- apply CbEx_poll_set. eapply (CbEx_upd_same ex i c); [exact H1 | exact E1 | reflexivity | reflexivity].
      * assert (CbEx ex (upd_client i (mkCl (c_cb c) (c_back c - Z.max 0 (send_result (c_back c) o)) (c_susp c) (c_rm c)) s1)) as H2
          by (eapply (CbEx_upd_same ex i c); [exact H1 | exact E1 | reflexivity | reflexivity]).
        destruct ar; [|exact H2]. apply CbEx_callback; [apply SInv_upd_client; assumption | exact H2].
  - cbn zeta. apply CbEx_callback.
    + apply SInv_poll_set; [exact HI|]. cbn [sock_ok]. split; [exact Hi | destruct (c_susp c); split; reflexivity].
    + apply CbEx_poll_set; exact H.
Qed.

Lemma CbEx_dispatch e f s : SInv s -> CbEx None s -> CbEx None (dispatch e f s).
Proof.
  intros HI H. destruct e as [i|i|i|i]; cbn [dispatch]; [exact H | | |].
  - destruct (fW f); [apply CbEx_dispatch_write; assumption|]. destruct (fR f); [apply CbEx_callback; assumption | exact H].
  - destruct (fA f); [|exact H].
    cbn zeta. set (ok := next_accept s). set (s1 := drop_accept s).
    assert (SInv s1) as HI1 by (apply SInv_drop_accept; exact HI).
    destruct (if ok then peek_new (Li i) KAccepted s1 else None) as [[n acc]|] eqn:Pk; [|bframe].
    destruct ok; [|discriminate]. apply peek_new_spec in Pk. destruct Pk as [_ Pk].
    apply CbEx_introduce; [apply SInv_log; exact HI1 | exact Pk | bframe].
  - destruct (fC f); [|exact H].
    cbn zeta. set (err := next_conn (poll_remove (Es i) s)). set (s1 := drop_conn (poll_remove (Es i) s)).
    assert (SInv s1) as HI1 by (apply SInv_drop_conn; apply SInv_poll_remove; exact HI).
    assert (CbEx None s1) as H1 by (eapply CbEx_frame; [|apply (CbEx_poll_remove None (Es i) s H)]; reflexivity).
    destruct (if err =? 0 then peek_new (Es i) KConnected s1 else None) as [[n acc]|] eqn:Pk.
    + destruct (err =? 0); [|discriminate]. apply peek_new_spec in Pk. destruct Pk as [_ Pk].
      apply CbEx_introduce; [apply SInv_log; exact HI1 | exact Pk | apply CbEx_log; exact H1].
    + apply CbEx_callback; [apply SInv_log; exact HI1 | apply CbEx_log; exact H1].
Qed.

Lemma absorb_clients ready s : clients (absorb ready s) = clients s.
Proof.
  revert s. induction ready as [|[e n] r IH]; intros s; cbn [absorb]; [reflexivity|].
  destruct (alookup ent_eqb e (socks s)); rewrite IH; reflexivity.
Qed.

Lemma epoll_wait_clients t items s : clients (fst (epoll_wait t items s)) = clients s.
Proof.
  unfold epoll_wait, do_interrupt. cbn zeta. destruct items as [|it rest]; cbn [fst].
  - sproj. destruct (intr s); reflexivity.
  - rewrite absorb_clients. reflexivity.
Qed.

Lemma pop_selected_clients s : clients (fst (pop_selected s)) = clients s.
Proof. unfold pop_selected. destruct (selected s); reflexivity. Qed.

Lemma poll_clients t items s : clients (fst (fst (poll t items s))) = clients s.
Proof.
  unfold poll. destruct (selected s) eqn:E.
  - pose proof (epoll_wait_clients t items s) as K. destruct (epoll_wait t items s) as [s1 items1]. cbn [fst] in K.
    destruct (0 <? evcount s1); cbn [fst]; [exact K|].
    pose proof (pop_selected_clients s1) as K2. destruct (pop_selected s1). cbn [fst] in *. congruence.
  - pose proof (pop_selected_clients s) as K2. destruct (pop_selected s). exact K2.
Qed.

Lemma CbEx_run_loop fuel items s : SInv s -> CbEx None s -> CbEx None (run_loop fuel items s).
Proof.
  revert items s. induction fuel as [|f IH]; intros items s HI H; cbn [run_loop]; [bframe|].
  cbn zeta.
  set (s0 := timer_phase f (clk s) (log (EvSel (sel_view (selected s))) (log (EvNow (clk s)) s))).
  assert (SInv s0) as HI0 by (apply SInv_timer_phase; apply SInv_log; apply SInv_log; exact HI).
  assert (CbEx None s0) as H0 by (apply CbEx_timer_phase; [apply SInv_log; apply SInv_log; exact HI | bframe]).
  set (s1 := closing_phase f s0).
  assert (SInv s1) as HI1 by (apply SInv_closing_phase; exact HI0).
  assert (CbEx None s1) as H1 by (apply CbEx_closing_phase; assumption).
  destruct (stuck s1); [exact H1|].
  match goal with |- context [poll ?t items s1] => set (tmo := t) end.
  pose proof (SInv_poll tmo items s1 HI1) as HI2. pose proof (poll_clients tmo items s1) as Pc.
  destruct (poll tmo items s1) as [[s2 evt] items2]. cbn [fst] in HI2, Pc.
  assert (CbEx None s2) as H2 by (eapply CbEx_frame; [exact Pc | exact H1]).
  destruct evt as [[e fl]|].
  - destruct (fl_is_none fl).
    + destruct (intr s2); [bframe | apply IH; assumption].
    + apply IH; [apply SInv_dispatch; exact HI2 | apply CbEx_dispatch; assumption].
  - destruct (intr s2); [bframe | apply IH; assumption].
Qed.

Lemma CbEx_init : CbEx None init.
Proof. intros j c []. Qed.

Lemma CbEx_step fuel s o : SInv s -> CbEx None s -> CbEx None (step fuel s o).
Proof.
  intros HI H. unfold step. destruct (stuck s); [exact H|].
  destruct o; try bframe.
  - apply CbEx_exec_action; assumption.
  - unfold run. apply CbEx_run_loop; [apply SInv_log; exact HI | bframe].
Qed.

Lemma CbEx_steps fuel l s : SInv s -> CbEx None s -> CbEx None (steps fuel s l).
Proof.
  unfold steps. revert s. induction l as [|o l IH]; cbn [fold_left]; intros s HI H; [exact H|].
  apply IH; [apply SInv_step; exact HI | apply CbEx_step; assumption].
Qed.

(* between the operations of a history, and at every iteration of run(), every pooled client has a callback object *)
Theorem CbEx_reachable fuel l : CbEx None (steps fuel init l).
Proof. apply CbEx_steps; [apply SInv_init | apply CbEx_init]. Qed.

Theorem pooled_clients_ready fuel l j c : In (j, c) (clients (steps fuel init l)) -> c_cb c = true /\ c_rm c = false.
Proof. intros H. apply (CbEx_reachable fuel l j c H). discriminate. Qed.
