(* Round 4: a socket that no callback removes or narrows keeps its registration and its buffered event.

   [keeps e a]: action a does not remove e and does not narrow its interest (for a client: no remove, no
   suspend; for a listener / establisher: no remove).  Writes, reads, resumes - also on e itself - are allowed:
   for a client that is not suspended they only widen the interest (Poll::set then prunes nothing).
   [K e g fo s]: e is registered with an interest that contains g, (a client) is not suspended, and - if
   fo = Some f - its buffered event is exactly f.  K is kept by every callback body whose actions all keep e,
   by the timer and closing phases, and by the dispatch of any other socket. *)
From Coq Require Import ZArith List Bool Lia.
From ServerLoop Require Import ServerLoopSpec ServerLoopModel ServerLoopBase ServerLoopInv ServerLoopCb ServerLoopTerm.
Import ListNotations.
Local Open Scope Z_scope.

Definition keeps (e : ent) (a : action) : bool :=
  match a with
  | ARmClient j | ASuspend j => negb (ent_eqb (Cl j) e)
  | ARmListener j => negb (ent_eqb (Li j) e)
  | ARmEstab j => negb (ent_eqb (Es j) e)
  | _ => true
  end.
Definition keeps_entry (e : ent) (x : sentry) : bool := forallb (keeps e) (s_acts x).
Definition keeps_scripts (e : ent) (l : list sentry) : bool := forallb (keeps_entry e) l.

Definition nosusp (e : ent) (s : state) : Prop :=
  match e with Cl i => exists c, alookup Z.eqb i (clients s) = Some c /\ c_susp c = false | _ => True end.

Definition KReg (e : ent) (g : fl) (s : state) : Prop :=
  (exists g', alookup ent_eqb e (socks s) = Some g' /\ fl_sub g g' = true) /\ nosusp e s.
Definition KBuf (e : ent) (fo : option fl) (s : state) : Prop :=
  match fo with Some f => alookup ent_eqb e (selected s) = Some f | None => True end.
Definition K (e : ent) (g : fl) (fo : option fl) (s : state) : Prop := KReg e g s /\ KBuf e fo s.
Definition KS (e : ent) (g : fl) (fo : option fl) (s : state) : Prop :=
  K e g fo s /\ keeps_scripts e (scripts s) = true.

(* ---------- flag algebra ---------------------------------------------------------------------------------------------- *)
Lemma fl_is_none_eq r : fl_is_none r = true -> r = fl_none.
Proof. destruct r as [a b c d]. destruct a, b, c, d; cbn; intros H; try discriminate H; reflexivity. Qed.
Lemma fl_diff_none sel : fl_diff sel fl_none = sel.
Proof. destruct sel as [a b c d]. unfold fl_diff, fl_none. cbn. rewrite !andb_true_r. reflexivity. Qed.
Lemma fl_sub_trans a b c : fl_sub a b = true -> fl_sub b c = true -> fl_sub a c = true.
Proof. rewrite !fl_sub_spec. intuition. Qed.
Lemma fl_sub_RW a : fA a = false -> fC a = false -> fl_sub a fl_RW = true.
Proof. intros H1 H2. apply fl_sub_spec. cbn. rewrite H1, H2. intuition congruence. Qed.

Lemma registered_used s e g' : SInv s -> alookup ent_eqb e (socks s) = Some g' -> In e (used s).
Proof.
  intros HI H. pose proof (si_socks _ HI _ _ H) as Hok. destruct e as [i|i|i|i]; cbn [sock_ok] in Hok.
  - contradiction.
  - apply (si_used_c _ HI). tauto.
  - apply (si_used_l _ HI). tauto.
  - apply (si_used_e _ HI). tauto.
Qed.

Section Keep.
  Variables (e : ent) (g : fl) (fo : option fl).
  Hypothesis Hfo : forall f, fo = Some f -> fl_is_none f = false.
  Notation K := (K e g fo).
  Notation KS := (KS e g fo).

  Lemma nosusp_frame s' s : clients s' = clients s -> nosusp e s -> nosusp e s'.
  Proof. unfold nosusp. intros ->. auto. Qed.

  Lemma K_frame s' s : socks s' = socks s -> selected s' = selected s -> clients s' = clients s -> K s -> K s'.
  Proof.
    intros A B C [[H1 H2] H3]. split; [split|].
    - rewrite A. exact H1.
    - eapply nosusp_frame; eauto.
    - unfold KBuf in *. destruct fo; [rewrite B; exact H3 | exact I].
  Qed.

  Ltac kfr := (eapply K_frame; [..|eassumption]; reflexivity).

  Lemma K_log x s : K s -> K (log x s). Proof. intros; kfr. Qed.

  Lemma K_poll_set_other e' f' s : e' <> e -> K s -> K (poll_set e' f' s).
  Proof.
    intros N [[[g' [H1 H1']] H2] H3]. unfold poll_set.
    destruct (alookup ent_eqb e' (socks s)) as [old|] eqn:Eo.
    - destruct (fl_eqb old f'); [split; [split; eauto | exact H3]|]. cbn zeta. sproj.
      assert (alookup ent_eqb e (aset ent_eqb e' f' (socks s)) = Some g') as Hs
        by (rewrite alookup_aset_neq by (try apply ent_eqb_eq; congruence); exact H1).
      destruct (alookup ent_eqb e' (selected s)) as [sel|]; [destruct (fl_is_none _)|]; sproj;
        (split; [split; [exists g'; split; [exact Hs | exact H1'] | exact H2]|]); unfold KBuf in *; destruct fo; auto; sproj.
      + rewrite alookup_aremove_neq by (try apply ent_eqb_eq; congruence). exact H3.
      + rewrite alookup_aset_neq by (try apply ent_eqb_eq; congruence). exact H3.
    - cbn zeta. split; [split; [|exact H2] | exact H3].
      exists g'. split; [|exact H1']. sproj. rewrite alookup_app, H1. reflexivity.
  Qed.

  (* Poll::set on e itself with an interest that contains the old one prunes nothing *)
  Lemma K_poll_set_self f' s :
    fl_sub g f' = true -> (forall old, alookup ent_eqb e (socks s) = Some old -> fl_sub old f' = true) ->
    K s -> K (poll_set e f' s).
  Proof.
    intros Hg Hold [[[g' [H1 H1']] H2] H3]. unfold poll_set. rewrite H1.
    destruct (fl_eqb g' f'); [split; [split; eauto | exact H3]|]. cbn zeta. sproj.
    assert (fl_diff g' f' = fl_none) as Hd by (apply fl_is_none_eq; apply (Hold _ H1)).
    assert (alookup ent_eqb e (aset ent_eqb e f' (socks s)) = Some f') as Hs by (apply alookup_aset_eq; apply ent_eqb_eq).
    destruct (alookup ent_eqb e (selected s)) as [sel|] eqn:Es.
    - rewrite Hd, fl_diff_none.
      destruct (fl_is_none sel) eqn:En; sproj; (split; [split; [exists f'; split; [exact Hs | exact Hg] | exact H2]|]);
        unfold KBuf in *; destruct fo as [f|] eqn:Ef; auto; sproj.
      + rewrite Es in H3. inversion H3; subst sel. rewrite (Hfo f eq_refl) in En. discriminate.
      + rewrite Es in H3. inversion H3; subst sel. apply alookup_aset_eq. apply ent_eqb_eq.
    - split; [split; [exists f'; split; [exact Hs | exact Hg] | exact H2]|].
      unfold KBuf in *. destruct fo; [sproj; congruence | exact I].
  Qed.

  Lemma K_poll_remove_other e' s : e' <> e -> K s -> K (poll_remove e' s).
  Proof.
    intros N [[[g' [H1 H1']] H2] H3]. unfold poll_remove. destruct (alookup ent_eqb e' (socks s)); [|split; [split; eauto | exact H3]].
    cbn zeta. sproj. split; [split; [|exact H2]|].
    - exists g'. split; [|exact H1']. sproj. rewrite alookup_aremove_neq by (try apply ent_eqb_eq; congruence). exact H1.
    - unfold KBuf in *. destruct fo; [|exact I]. sproj. rewrite alookup_aremove_neq by (try apply ent_eqb_eq; congruence). exact H3.
  Qed.

  Lemma K_upd_client j c s : (e = Cl j -> c_susp c = false) -> K s -> K (upd_client j c s).
  Proof.
    intros Hc [[H1 H2] H3]. split; [split; [exact H1|] | exact H3].
    unfold nosusp in *. destruct e as [i|i|i|i]; auto. unfold upd_client. sproj.
    destruct (Z.eq_dec i j) as [->|N].
    - exists c. split; [apply alookup_aset_eq; apply zeq | apply Hc; reflexivity].
    - rewrite alookup_aset_neq by (try apply zeq; assumption). exact H2.
  Qed.

  Lemma K_delete_client j s : Cl j <> e -> K s -> K (delete_client j s).
  Proof.
    intros N H. unfold delete_client. cbn zeta.
    assert (K (poll_remove (Cl j) (set_closing (zremove j (closing s)) s))) as H1
      by (apply K_poll_remove_other; [exact N | kfr]).
    destruct H1 as [[A B] C]. split; [split; [exact A|] | exact C].
    unfold nosusp in *. destruct e as [i|i|i|i]; auto. sproj.
    rewrite alookup_aremove_neq by (try apply zeq; congruence). exact B.
  Qed.

  Lemma K_new_client n s : Cl n <> e -> K s -> K (new_client n s).
  Proof.
    intros N H. unfold new_client. cbn zeta. apply K_poll_set_other; [exact N|].
    destruct H as [[A B] C]. split; [split; [exact A|] | exact C].
    unfold nosusp in *. destruct e as [i|i|i|i]; auto. sproj. destruct B as [c [B1 B2]]. exists c. split; [|exact B2].
    rewrite alookup_app, B1. reflexivity.
  Qed.

  Lemma K_closing_append i s : K s -> K (closing_append i s).
  Proof. intros H. unfold closing_append. destruct (zmem i (closing s)); [exact H | kfr]. Qed.
  Lemma K_do_interrupt b s : K s -> K (do_interrupt b s).
  Proof. intros H. unfold do_interrupt. sproj. destruct (intr s); kfr. Qed.

  Lemma K_not_fresh s : SInv s -> K s -> fresh e s = false.
  Proof.
    intros HI [[[g' [H1 _]] _] _]. unfold fresh. apply andb_false_iff. right. apply negb_false_iff.
    apply emem_In. eapply registered_used; eauto.
  Qed.

  Lemma fresh_neq x s : SInv s -> K s -> fresh x s = true -> x <> e.
  Proof. intros HI H F ->. rewrite (K_not_fresh s HI H) in F. discriminate. Qed.

  Lemma keeps_neq x b : negb (ent_eqb x e) = b -> b = true -> x <> e.
  Proof. intros <- H. apply negb_true_iff in H. apply ent_eqb_neq. exact H. Qed.

  (* a live client that is e is not suspended *)
  Lemma K_live_nosusp i c s : K s -> live_client i s = Some c -> e = Cl i -> c_susp c = false.
  Proof.
    intros [[_ H2] _] Hl ->. apply live_client_some in Hl. destruct Hl as [Hl _].
    cbn [nosusp] in H2. destruct H2 as [c' [A B]]. congruence.
  Qed.

  Lemma K_client_RW i s : SInv s -> K s -> e = Cl i ->
    fl_sub g fl_RW = true /\ forall old, alookup ent_eqb e (socks s) = Some old -> fl_sub old fl_RW = true.
  Proof.
    intros HI [[[g' [H1 H1']] _] _] ->.
    assert (forall old, alookup ent_eqb (Cl i) (socks s) = Some old -> fl_sub old fl_RW = true) as Ho.
    { intros old Ho. pose proof (si_socks _ HI _ _ Ho) as Hok. cbn [sock_ok] in Hok. apply fl_sub_RW; tauto. }
    split; [|exact Ho]. eapply fl_sub_trans; [exact H1' | apply Ho; exact H1].
  Qed.

  Lemma K_exec_action a s : SInv s -> keeps e a = true -> K s -> K (exec_action a s).
  Proof.
    intros HI Hk H. destruct a; cbn [exec_action keeps] in *.
    - destruct (fresh (Tm i) s); kfr.
    - destruct (alookup Z.eqb i (timers s)) as [[et iv]|]; kfr.
    - destruct (fresh (Cl i) s) eqn:F; [|kfr]. pose proof (fresh_neq _ s HI H F) as N.
      apply K_upd_client; [intros E; congruence|]. apply K_new_client; [exact N | kfr].
    - pose proof (keeps_neq _ _ eq_refl Hk) as N.
      destruct (live_client i s) as [c|]; [destruct (c_cb c)|]; apply K_log; [|apply K_upd_client; [intros E; congruence | exact H] | exact H].
      apply K_delete_client; assumption.
    - destruct (fresh (Li i) s) eqn:F; [|kfr]. pose proof (fresh_neq _ s HI H F) as N. cbn zeta.
      apply K_poll_set_other; [exact N | kfr].
    - pose proof (keeps_neq _ _ eq_refl Hk) as N. destruct (zmem i (listeners s)); [|kfr]. cbn zeta.
      apply K_log. eapply K_frame; [..|apply (K_poll_remove_other (Li i) s N H)]; reflexivity.
    - destruct (fresh (Es i) s) eqn:F; [|kfr]. pose proof (fresh_neq _ s HI H F) as N. cbn zeta.
      apply K_poll_set_other; [exact N | kfr].
    - pose proof (keeps_neq _ _ eq_refl Hk) as N. destruct (zmem i (estabs s)); [|kfr]. cbn zeta.
      apply K_log. eapply K_frame; [..|apply (K_poll_remove_other (Es i) s N H)]; reflexivity.
    - (* AWrite *)
      destruct (live_client i s) as [c|] eqn:El; [|kfr]. destruct (n <? 0); [kfr|].
      pose proof (K_live_nosusp i c s H El) as Hns.
      destruct (c_back c =? 0).
      + cbn zeta. destruct (failed_io _).
        * apply K_log. apply K_closing_append. kfr.
        * destruct (n <=? _); [kfr|]. apply K_log.
          set (s1 := upd_client i _ _).
          assert (K s1) as H1 by (subst s1; apply K_upd_client; [exact Hns | kfr]).
          destruct (ent_eqb (Cl i) e) eqn:E.
          -- apply ent_eqb_eq in E. symmetry in E. rewrite (Hns E).
             destruct (K_client_RW i s HI H E) as [A B]. rewrite <- E. apply K_poll_set_self; [exact A | exact B | exact H1].
          -- apply ent_eqb_neq in E. apply K_poll_set_other; [exact E | exact H1].
      + apply K_log. apply K_upd_client; [exact Hns | exact H].
    - destruct (live_client i s) as [c|]; [|kfr]. cbn zeta. destruct (failed_io _); [|kfr].
      apply K_log. apply K_closing_append. kfr.
    - pose proof (keeps_neq _ _ eq_refl Hk) as N.
      destruct (live_client i s) as [c|]; [|kfr]. destruct (c_susp c); [exact H|].
      apply K_poll_set_other; [exact N|]. apply K_upd_client; [intros E; congruence | exact H].
    - destruct (live_client i s) as [c|] eqn:El; [|kfr]. pose proof (K_live_nosusp i c s H El) as Hns.
      destruct (c_susp c) eqn:Esu; cbn [negb]; [|exact H].
      assert (Cl i <> e) as N by (intros E; symmetry in E; specialize (Hns E); discriminate).
      apply K_poll_set_other; [exact N|]. apply K_upd_client; [intros E; congruence | exact H].
    - apply K_do_interrupt; exact H.
    - kfr.
  Qed.

  Lemma KS_exec_actions l s : SInv s -> forallb (keeps e) l = true -> K s -> K (exec_actions l s).
  Proof.
    unfold exec_actions. revert s. induction l as [|a l IH]; cbn [fold_left forallb]; intros s HI Hk H; [exact H|].
    apply andb_true_iff in Hk. destruct Hk as [Ha Hl].
    apply IH; [apply SInv_exec_action; exact HI | exact Hl | apply K_exec_action; assumption].
  Qed.

  Lemma pop_script_keeps e0 k l o rest : pop_script e0 k l = (o, rest) -> keeps_scripts e l = true ->
    keeps_scripts e rest = true /\ (forall x, o = Some x -> keeps_entry e x = true).
  Proof.
    intros P H. destruct (pop_script_In _ _ _ _ _ P) as [A B]. unfold keeps_scripts in *. rewrite forallb_forall in H. split.
    - apply forallb_forall. intros x Hx. apply H. apply A. exact Hx.
    - intros x Hx. apply H. apply B. exact Hx.
  Qed.

  Lemma KS_run_script e0 k s : SInv s -> KS s -> KS (run_script e0 k s).
  Proof.
    intros HI [H Hs]. unfold run_script. destruct (pop_script e0 k (scripts s)) as [o rest] eqn:P.
    destruct (pop_script_keeps _ _ _ _ _ P Hs) as [A B].
    assert (K (set_scripts rest s)) as H1 by kfr.
    destruct o as [x|].
    - split; [apply KS_exec_actions; [apply SInv_set_scripts; exact HI | apply B; reflexivity | exact H1]|].
      destruct (exec_actions_scripts (s_acts x) (set_scripts rest s)) as [E _]. rewrite E. exact A.
    - split; [exact H1 | exact A].
  Qed.

  Lemma KS_frame s' s : socks s' = socks s -> selected s' = selected s -> clients s' = clients s -> scripts s' = scripts s -> KS s -> KS s'.
  Proof. intros A B C D [H Hs]. split; [eapply K_frame; eauto | rewrite D; exact Hs]. Qed.
  Ltac ksfr := (eapply KS_frame; [..|eassumption]; reflexivity).

  Lemma KS_log x s : KS s -> KS (log x s). Proof. intros; ksfr. Qed.

  Lemma KS_callback e0 k s : SInv s -> KS s -> KS (callback e0 k s).
  Proof. intros HI H. unfold callback. apply KS_run_script; [apply SInv_log; exact HI | apply KS_log; exact H]. Qed.

  Lemma KS_timer_phase fuel now s : SInv s -> KS s -> KS (timer_phase fuel now s).
  Proof.
    revert s. induction fuel as [|f IH]; intros s HI H; cbn [timer_phase]; [ksfr|].
    destruct (queue s) as [|[k v] q'] eqn:Eq; [exact H|]. destruct (k - now <=? 0); [|exact H].
    destruct v as [t|].
    - destruct (alookup Z.eqb t (timers s)) as [[et iv]|] eqn:El.
      + assert (SInv (set_queue (q_insert (et + iv) (Some t) q') (set_timers (aset Z.eqb t (et + iv, iv) (timers s)) s))) as HI1
          by (eapply SInv_timer_fire; eauto).
        apply IH; [apply SInv_run_script; apply SInv_log; exact HI1|].
        apply KS_run_script; [apply SInv_log; exact HI1 | ksfr].
      + apply IH; [|ksfr]. exfalso. destruct (si_q2t _ HI k t) as [iv Hiv]; [rewrite Eq; left; reflexivity | congruence].
    - apply IH; [eapply SInv_timer_default; eauto | ksfr].
  Qed.

  Lemma KS_closing_phase fuel s : SInv s -> CbEx None s -> KS s -> KS (closing_phase fuel s).
  Proof.
    revert s. induction fuel as [|f IH]; intros s HI HC H; cbn [closing_phase]; [ksfr|].
    destruct (closing s) as [|i r] eqn:E; [exact H|].
    assert (SInv (set_closing r s)) as HI1 by (eapply SInv_closing_pop; eauto).
    assert (CbEx None (set_closing r s)) as HC1 by (eapply CbEx_frame; [|exact HC]; reflexivity).
    assert (KS (set_closing r s)) as H1 by ksfr.
    sproj. destruct (alookup Z.eqb i (clients s)) as [c|] eqn:Ec.
    - assert (c_cb c = true) as Hcb.
      { apply (alookup_In Z.eqb zeq) in Ec. destruct (HC i c Ec) as [A _]; [discriminate | exact A]. }
      rewrite Hcb. apply IH; [apply SInv_callback; exact HI1 | apply CbEx_callback; assumption | apply KS_callback; assumption].
    - apply IH; assumption.
  Qed.

  Lemma KS_introduce e0 k n acc s : SInv s -> ~ In (Cl n) (used s) -> KS s -> KS (introduce e0 k n acc s).
  Proof.
    intros HI F H. unfold introduce. cbn zeta.
    assert (Cl n <> e) as N.
    { intros E. destruct H as [[[[g' [A _]] _] _] _]. apply F. rewrite E. eapply registered_used; eauto. }
    set (s1 := new_client n (log (EvCreated (Cl n) 0 0) s)).
    assert (SInv s1) as HI1 by (apply SInv_new_client; [apply SInv_log; exact HI | exact F]).
    assert (KS s1) as H1.
    { destruct H as [H Hs]. split; [subst s1; apply K_new_client; [exact N | kfr]|].
      subst s1. destruct (same5_new_client n (log (EvCreated (Cl n) 0 0) s)) as (_ & _ & _ & S & _). rewrite S. exact Hs. }
    set (s2 := log (EvIntroRet n acc) (run_script e0 (SIn k) (log (EvIntro e0 k n (clk s1)) s1))).
    assert (KS s2) as H2 by (apply KS_log; apply KS_run_script; [apply SInv_log; exact HI1 | apply KS_log; exact H1]).
    assert (KS (delete_client n s2)) as Hd.
    { destruct H2 as [H2 Hs]. split; [apply K_delete_client; assumption|].
      destruct (same5_delete_client n s2) as (_ & _ & _ & S & _). rewrite S. exact Hs. }
    destruct acc; [|exact Hd].
    destruct (alookup Z.eqb n (clients s2)) as [c|]; [|exact H2].
    destruct (c_rm c); [exact Hd|].
    destruct H2 as [H2 Hs]. split; [apply K_upd_client; [intros E; congruence | exact H2] | exact Hs].
  Qed.

  Lemma KS_dispatch_write j ar s : SInv s -> Cl j <> e -> KS s -> KS (dispatch_write j ar s).
  Proof.
    intros HI N H. unfold dispatch_write. destruct (alookup Z.eqb j (clients s)) as [c|] eqn:E; [|exact H].
    assert (In j (map fst (clients s))) as Hi by (eapply alookup_Some_key; [apply zeq | eauto]).
    assert (forall c' s0, KS s0 -> KS (upd_client j c' s0)) as Hupd.
    { intros c' s0 [A B]. split; [apply K_upd_client; [intros Q; congruence | exact A] | exact B]. }
    assert (forall f' s0, KS s0 -> KS (poll_set (Cl j) f' s0)) as Hps.
    { intros f' s0 [A B]. split; [apply K_poll_set_other; assumption|].
      destruct (same5_poll_set (Cl j) f' s0) as (_ & _ & _ & S & _). rewrite S. exact B. }
    destruct (0 <? c_back c).
    - cbn zeta. set (o := next_send (c_back c) s). set (s1 := log (EvSend j (c_back c) (send_result (c_back c) o) true) (drop_send s)).
      assert (SInv s1) as HI1 by (apply SInv_log; apply SInv_drop_send; exact HI).
      assert (KS s1) as H1 by ksfr.
      assert (In j (map fst (clients s1))) as Hi1 by exact Hi.
      destruct (failed_io (send_result (c_back c) o)).
      + apply KS_callback; [apply SInv_poll_remove; apply SInv_upd_client; assumption|].
        destruct (Hupd (mkCl (c_cb c) 0 (c_susp c) (c_rm c)) s1 H1) as [A B].
        split; [apply K_poll_remove_other; assumption|].
        destruct (same5_poll_remove (Cl j) (upd_client j (mkCl (c_cb c) 0 (c_susp c) (c_rm c)) s1)) as (_ & _ & _ & S & _). rewrite S. exact B.
      + destruct (c_back c - Z.max 0 (send_result (c_back c) o) =? 0).
        * apply KS_callback; [|apply Hps; apply Hupd; exact H1].
          apply SInv_client_set; [exact HI1 | exact Hi1 | destruct (c_susp c); reflexivity | destruct (c_susp c); reflexivity].
        * destruct ar; [|apply Hupd; exact H1].
          apply KS_callback; [apply SInv_upd_client; assumption | apply Hupd; exact H1].
    - cbn zeta. apply KS_callback; [|apply Hps; exact H].
      apply SInv_poll_set; [exact HI|]. cbn [sock_ok]. split; [exact Hi | destruct (c_susp c); split; reflexivity].
  Qed.

  Lemma KS_dispatch e' f' s : SInv s -> e' <> e -> KS s -> KS (dispatch e' f' s).
  Proof.
    intros HI N H. destruct e' as [i|i|i|i]; cbn [dispatch]; [exact H | | |].
    - destruct (fW f'); [apply KS_dispatch_write; assumption|]. destruct (fR f'); [apply KS_callback; assumption | exact H].
    - destruct (fA f'); [|exact H].
      cbn zeta. set (ok := next_accept s). set (s1 := drop_accept s).
      assert (SInv s1) as HI1 by (apply SInv_drop_accept; exact HI).
      destruct (if ok then peek_new (Li i) KAccepted s1 else None) as [[n acc]|] eqn:Pk; [|ksfr].
      destruct ok; [|discriminate]. apply peek_new_spec in Pk. destruct Pk as [_ Pk].
      apply KS_introduce; [apply SInv_log; exact HI1 | exact Pk | ksfr].
    - destruct (fC f'); [|exact H].
      cbn zeta. set (err := next_conn (poll_remove (Es i) s)). set (s1 := drop_conn (poll_remove (Es i) s)).
      assert (SInv s1) as HI1 by (apply SInv_drop_conn; apply SInv_poll_remove; exact HI).
      assert (KS s1) as H1.
      { destruct H as [A B]. split.
        - eapply K_frame; [..|apply (K_poll_remove_other (Es i) s N A)]; reflexivity.
        - subst s1. unfold drop_conn. sproj. destruct (same5_poll_remove (Es i) s) as (_ & _ & _ & S & _). rewrite S. exact B. }
      destruct (if err =? 0 then peek_new (Es i) KConnected s1 else None) as [[n acc]|] eqn:Pk.
      + destruct (err =? 0); [|discriminate]. apply peek_new_spec in Pk. destruct Pk as [_ Pk].
        apply KS_introduce; [apply SInv_log; exact HI1 | exact Pk | apply KS_log; exact H1].
      + apply KS_callback; [apply SInv_log; exact HI1 | apply KS_log; exact H1].
  Qed.
End Keep.
