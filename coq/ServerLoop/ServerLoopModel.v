(* Executable model of Server::run and its surroundings (src/Socket/Server.cpp, the epoll
   variant of Socket::Poll in src/Socket/Socket.cpp).  It mirrors the code decision by
   decision, as the code is in /repo after the committed repairs fixes/C01 (MultiMap::find
   returns the first entry of an equal run), fixes/C13/01 (the write readiness of a client
   event is handled first, the read readiness of the same event afterwards), fixes/C14/01 (a
   client removed from inside the onAccepted/onConnected that announces it is deleted when that
   callback returns and never gets a callback object) and fixes/C14/02 (the poll time-out is
   computed after the closing pass, whose onClosed callbacks may create timers).  No proofs in
   this file.

   Environment (universally quantified inputs): the clock (advanced by [AAdv] and by the [dt]
   of an epoll item), the result of every epoll_wait (an [epitem]: any set of sockets with any
   native bits; when the script runs out another thread calls interrupt() while the loop
   waits), the outcome of every send/recv/accept/SO_ERROR query (queues in the state; an accept
   or connect for which the test has no fresh client identity fails), what every callback does
   (scripts; a callback may create and remove timers, clients, listeners, establishers - also
   the object it is called for -, write, read, suspend, resume, interrupt, let time pass).
   The simulated kernel always reports the event descriptor when it is readable
   (level-triggered epoll).  [fuel] bounds the iterations of run() and of its timer and closing
   phases; a run that exhausts it ends as [stuck] (the implementation would not terminate). *)
From Coq Require Import ZArith List Bool.
From ServerLoop Require Import ServerLoopSpec.
Import ListNotations.
Local Open Scope Z_scope.

(* ---------- poll flags (Socket::Poll::Flag) and native epoll bits ---------------------- *)
Record fl := mkFl { fR : bool; fW : bool; fA : bool; fC : bool }.
Definition fl_none := mkFl false false false false.
Definition fl_R := mkFl true false false false.
Definition fl_W := mkFl false true false false.
Definition fl_RW := mkFl true true false false.
Definition fl_A := mkFl false false true false.
Definition fl_C := mkFl false false false true.
Definition fl_and (a b : fl) := mkFl (fR a && fR b) (fW a && fW b) (fA a && fA b) (fC a && fC b).
Definition fl_or (a b : fl) := mkFl (fR a || fR b) (fW a || fW b) (fA a || fA b) (fC a || fC b).
Definition fl_diff (a b : fl) := mkFl (fR a && negb (fR b)) (fW a && negb (fW b)) (fA a && negb (fA b)) (fC a && negb (fC b)).
Definition fl_is_none (a : fl) := negb (fR a || fW a || fA a || fC a).
Definition fl_eqb (a b : fl) := Bool.eqb (fR a) (fR b) && Bool.eqb (fW a) (fW b) && Bool.eqb (fA a) (fA b) && Bool.eqb (fC a) (fC b).
Definition fl_sub (a b : fl) := fl_is_none (fl_diff a b).
Definition fl_to_Z (a : fl) : Z :=
  (if fR a then 1 else 0) + (if fW a then 2 else 0) + (if fA a then 4 else 0) + (if fC a then 8 else 0).

Record nbits := mkNb { nIn : bool; nOut : bool; nRdhup : bool; nHup : bool; nErr : bool }.

(* Socket::Poll::Private::mapEvents, as the integer handed to epoll_ctl *)
Definition map_events (e : fl) : Z :=
  match (fR e || fA e), (fW e || fC e) with
  | true, true => 8213    (* EPOLLIN|EPOLLOUT|EPOLLRDHUP|EPOLLHUP = 0x2015 *)
  | true, false => 8209   (* 0x2011 *)
  | false, true => 8212   (* 0x2014 *)
  | false, false => 0
  end.

(* Socket::Poll::Private::unmapEvents *)
Definition unmap_events (n : nbits) (events : fl) : fl :=
  let r1 := if nIn n || nRdhup n || nHup n then fl_and events (mkFl true false true false) else fl_none in
  if nOut n || (fl_is_none r1 && (nRdhup n || nHup n))
  then fl_or r1 (fl_and events (mkFl false true false true)) else r1.

(* ---------- environment outcomes ------------------------------------------------------- *)
Inductive sendout := SWould | SErr | SSent (k : Z).      (* SSent k: min k n bytes; 0 = "closed" *)
Inductive recvout := RWould | RErr | REof | RGot (k : Z).

Record epitem := mkEp { ep_dt : Z; ep_ready : list (ent * nbits) }.

(* ---------- what callbacks (and the top level) may do ------------------------------------ *)
Inductive action :=
| ATimer (i iv : Z)
| ARmTimer (i : Z)
| APair (i : Z)
| ARmClient (i : Z)
| AListen (i : Z)
| ARmListener (i : Z)
| AConnect (i : Z)
| ARmEstab (i : Z)
| AWrite (i n : Z)
| ARead (i : Z)
| ASuspend (i : Z)
| AResume (i : Z)
| AInterrupt
| AAdv (d : Z).

Inductive skind := SAct | SCb (k : cbkind) | SIn (k : ikind).
Definition skind_eqb (a b : skind) : bool :=
  match a, b with
  | SAct, SAct => true
  | SCb x, SCb y => cbkind_eqb x y
  | SIn x, SIn y => ikind_eqb x y
  | _, _ => false
  end.

(* the next invocation of callback [s_kind] of [s_ent] runs [s_acts]; for onAccepted/onConnected
   [s_new] names the new client and [s_acc] says whether a callback object is returned for it *)
Record sentry := mkSe { s_ent : ent; s_kind : skind; s_new : Z; s_acc : bool; s_acts : list action }.

Inductive op :=
| OAct (a : action)
| OOn (e : sentry)
| ORun (items : list epitem)
| OSendq (l : list sendout)
| ORecvq (l : list recvout)
| OAcceptq (l : list bool)
| OConnq (l : list Z).

(* c_cb: a callback object is installed (false only while the client is being announced);
   c_rm: remove() was called while it was being announced (ClientImpl::_removed) *)
Record client := mkCl { c_cb : bool; c_back : Z; c_susp : bool; c_rm : bool }.

Record state := mkSt {
  clk : Z;
  queue : list (Z * option Z);
  timers : list (Z * (Z * Z));
  listeners : list Z;
  estabs : list Z;
  clients : list (Z * client);
  closing : list Z;
  socks : list (ent * fl);
  selected : list (ent * fl);
  intr : bool;
  evcount : Z;
  used : list ent;
  scripts : list sentry;
  sendq : list sendout;
  recvq : list recvout;
  acceptq : list bool;
  connq : list Z;
  trace : list ev;
  stuck : bool
}.
Definition set_clk (v : Z) (s : state) : state := mkSt v (queue s) (timers s) (listeners s) (estabs s) (clients s) (closing s) (socks s) (selected s) (intr s) (evcount s) (used s) (scripts s) (sendq s) (recvq s) (acceptq s) (connq s) (trace s) (stuck s).
Definition set_queue (v : list (Z * option Z)) (s : state) : state := mkSt (clk s) v (timers s) (listeners s) (estabs s) (clients s) (closing s) (socks s) (selected s) (intr s) (evcount s) (used s) (scripts s) (sendq s) (recvq s) (acceptq s) (connq s) (trace s) (stuck s).
Definition set_timers (v : list (Z * (Z * Z))) (s : state) : state := mkSt (clk s) (queue s) v (listeners s) (estabs s) (clients s) (closing s) (socks s) (selected s) (intr s) (evcount s) (used s) (scripts s) (sendq s) (recvq s) (acceptq s) (connq s) (trace s) (stuck s).
Definition set_listeners (v : list Z) (s : state) : state := mkSt (clk s) (queue s) (timers s) v (estabs s) (clients s) (closing s) (socks s) (selected s) (intr s) (evcount s) (used s) (scripts s) (sendq s) (recvq s) (acceptq s) (connq s) (trace s) (stuck s).
Definition set_estabs (v : list Z) (s : state) : state := mkSt (clk s) (queue s) (timers s) (listeners s) v (clients s) (closing s) (socks s) (selected s) (intr s) (evcount s) (used s) (scripts s) (sendq s) (recvq s) (acceptq s) (connq s) (trace s) (stuck s).
Definition set_clients (v : list (Z * client)) (s : state) : state := mkSt (clk s) (queue s) (timers s) (listeners s) (estabs s) v (closing s) (socks s) (selected s) (intr s) (evcount s) (used s) (scripts s) (sendq s) (recvq s) (acceptq s) (connq s) (trace s) (stuck s).
Definition set_closing (v : list Z) (s : state) : state := mkSt (clk s) (queue s) (timers s) (listeners s) (estabs s) (clients s) v (socks s) (selected s) (intr s) (evcount s) (used s) (scripts s) (sendq s) (recvq s) (acceptq s) (connq s) (trace s) (stuck s).
Definition set_socks (v : list (ent * fl)) (s : state) : state := mkSt (clk s) (queue s) (timers s) (listeners s) (estabs s) (clients s) (closing s) v (selected s) (intr s) (evcount s) (used s) (scripts s) (sendq s) (recvq s) (acceptq s) (connq s) (trace s) (stuck s).
Definition set_selected (v : list (ent * fl)) (s : state) : state := mkSt (clk s) (queue s) (timers s) (listeners s) (estabs s) (clients s) (closing s) (socks s) v (intr s) (evcount s) (used s) (scripts s) (sendq s) (recvq s) (acceptq s) (connq s) (trace s) (stuck s).
Definition set_intr (v : bool) (s : state) : state := mkSt (clk s) (queue s) (timers s) (listeners s) (estabs s) (clients s) (closing s) (socks s) (selected s) v (evcount s) (used s) (scripts s) (sendq s) (recvq s) (acceptq s) (connq s) (trace s) (stuck s).
Definition set_evcount (v : Z) (s : state) : state := mkSt (clk s) (queue s) (timers s) (listeners s) (estabs s) (clients s) (closing s) (socks s) (selected s) (intr s) v (used s) (scripts s) (sendq s) (recvq s) (acceptq s) (connq s) (trace s) (stuck s).
Definition set_used (v : list ent) (s : state) : state := mkSt (clk s) (queue s) (timers s) (listeners s) (estabs s) (clients s) (closing s) (socks s) (selected s) (intr s) (evcount s) v (scripts s) (sendq s) (recvq s) (acceptq s) (connq s) (trace s) (stuck s).
Definition set_scripts (v : list sentry) (s : state) : state := mkSt (clk s) (queue s) (timers s) (listeners s) (estabs s) (clients s) (closing s) (socks s) (selected s) (intr s) (evcount s) (used s) v (sendq s) (recvq s) (acceptq s) (connq s) (trace s) (stuck s).
Definition set_sendq (v : list sendout) (s : state) : state := mkSt (clk s) (queue s) (timers s) (listeners s) (estabs s) (clients s) (closing s) (socks s) (selected s) (intr s) (evcount s) (used s) (scripts s) v (recvq s) (acceptq s) (connq s) (trace s) (stuck s).
Definition set_recvq (v : list recvout) (s : state) : state := mkSt (clk s) (queue s) (timers s) (listeners s) (estabs s) (clients s) (closing s) (socks s) (selected s) (intr s) (evcount s) (used s) (scripts s) (sendq s) v (acceptq s) (connq s) (trace s) (stuck s).
Definition set_acceptq (v : list bool) (s : state) : state := mkSt (clk s) (queue s) (timers s) (listeners s) (estabs s) (clients s) (closing s) (socks s) (selected s) (intr s) (evcount s) (used s) (scripts s) (sendq s) (recvq s) v (connq s) (trace s) (stuck s).
Definition set_connq (v : list Z) (s : state) : state := mkSt (clk s) (queue s) (timers s) (listeners s) (estabs s) (clients s) (closing s) (socks s) (selected s) (intr s) (evcount s) (used s) (scripts s) (sendq s) (recvq s) (acceptq s) v (trace s) (stuck s).
Definition set_trace (v : list ev) (s : state) : state := mkSt (clk s) (queue s) (timers s) (listeners s) (estabs s) (clients s) (closing s) (socks s) (selected s) (intr s) (evcount s) (used s) (scripts s) (sendq s) (recvq s) (acceptq s) (connq s) v (stuck s).
Definition set_stuck (v : bool) (s : state) : state := mkSt (clk s) (queue s) (timers s) (listeners s) (estabs s) (clients s) (closing s) (socks s) (selected s) (intr s) (evcount s) (used s) (scripts s) (sendq s) (recvq s) (acceptq s) (connq s) (trace s) v.

Definition init : state :=
  mkSt 0 [(0, None)] [] [] [] [] [] [] [] false 0 [] [] [] [] [] [] [] false.

Definition log (e : ev) (s : state) : state := set_trace (e :: trace s) s.

(* ---------- the timer queue (MultiMap<int64, TimerImpl*>) -------------------------------- *)
(* insert: after all entries with a key <= k (equal keys keep insertion order) *)
Fixpoint q_insert (k : Z) (v : option Z) (q : list (Z * option Z)) : list (Z * option Z) :=
  match q with
  | [] => [(k, v)]
  | (k', v') :: r => if k <? k' then (k, v) :: q else (k', v') :: q_insert k v r
  end.

Definition oz_eqb (a b : option Z) : bool :=
  match a, b with Some x, Some y => x =? y | None, None => true | _, _ => false end.

(* the scan of Server::Private::remove(TimerImpl&) from a given position *)
Fixpoint q_scan (et : Z) (t : Z) (q : list (Z * option Z)) : list (Z * option Z) :=
  match q with
  | [] => []
  | (k, v) :: r => if oz_eqb v (Some t) then r
                   else if negb (k =? et) then q
                   else (k, v) :: q_scan et t r
  end.

(* find (first entry of the equal run; end when there is none) followed by the scan *)
Fixpoint q_remove (et : Z) (t : Z) (q : list (Z * option Z)) : list (Z * option Z) :=
  match q with
  | [] => []
  | (k, v) :: r => if k <? et then (k, v) :: q_remove et t r
                   else if k =? et then q_scan et t q
                   else q
  end.

(* ---------- Socket::Poll ------------------------------------------------------------------- *)
Definition poll_set (e : ent) (events : fl) (s : state) : state :=
  match alookup ent_eqb e (socks s) with
  | Some old =>
      if fl_eqb old events then s else
      let removed := fl_diff old events in
      let s := set_socks (aset ent_eqb e events (socks s)) s in
      let s := log (EvCtl CMod e (map_events events)) s in
      match alookup ent_eqb e (selected s) with
      | Some sel =>
          let sel' := fl_diff sel removed in
          if fl_is_none sel' then set_selected (aremove ent_eqb e (selected s)) s
          else set_selected (aset ent_eqb e sel' (selected s)) s
      | None => s
      end
  | None =>
      let s := set_socks (socks s ++ [(e, events)]) s in
      log (EvCtl CAdd e (map_events events)) s
  end.

Definition poll_remove (e : ent) (s : state) : state :=
  match alookup ent_eqb e (socks s) with
  | None => s
  | Some _ =>
      let s := log (EvCtl CDel e 0) s in
      let s := set_socks (aremove ent_eqb e (socks s)) s in
      set_selected (aremove ent_eqb e (selected s)) s
  end.

(* the epoll_wait result is folded into selectedSockets *)
Fixpoint absorb (ready : list (ent * nbits)) (s : state) : state :=
  match ready with
  | [] => s
  | (e, n) :: r =>
      match alookup ent_eqb e (socks s) with
      | Some events => absorb r (set_selected (aset ent_eqb e (unmap_events n events) (selected s)) s)
      | None => absorb r s            (* not registered: the kernel cannot report it *)
      end
  end.

(* Server::Private::interrupt *)
Definition do_interrupt (foreign : bool) (s : state) : state :=
  let s := log (EvInterrupt foreign) s in
  if intr s then s else set_evcount (evcount s + 1) (set_intr true s).

(* ::epoll_wait as the simulated kernel answers it *)
Definition epoll_wait (timeout : Z) (items : list epitem) (s : state) : state * list epitem :=
  let s := log (EvWait timeout) s in
  match items with
  | it :: rest => (absorb (ep_ready it) (set_clk (clk s + ep_dt it) (log (EvItem false) s)), rest)
  | [] => (do_interrupt true (log (EvItem true) s), [])       (* another thread interrupts *)
  end.

Definition pop_selected (s : state) : state * option (ent * fl) :=
  match selected s with
  | [] => (s, None)
  | x :: r => (set_selected r s, Some x)
  end.

(* Socket::Poll::poll; the event (None = flags 0 / socket 0) and the remaining script *)
Definition poll (timeout : Z) (items : list epitem) (s : state) : state * option (ent * fl) * list epitem :=
  match selected s with
  | _ :: _ => (pop_selected s, items)
  | [] =>
      let '(s, items) := epoll_wait timeout items s in
      if 0 <? evcount s then (set_evcount 0 s, None, items)
      else (pop_selected s, items)
  end.

(* ---------- actions ------------------------------------------------------------------------ *)
Fixpoint pop_script (e : ent) (k : skind) (l : list sentry) : option sentry * list sentry :=
  match l with
  | [] => (None, [])
  | x :: r => if ent_eqb (s_ent x) e && skind_eqb (s_kind x) k then (Some x, r)
              else let '(o, r') := pop_script e k r in (o, x :: r')
  end.

Definition fresh (e : ent) (s : state) : bool := (0 <=? ent_id e) && negb (emem e (used s)).

Definition closing_append (i : Z) (s : state) : state :=
  if zmem i (closing s) then s else set_closing (closing s ++ [i]) s.

Definition delete_client (i : Z) (s : state) : state :=
  let s := set_closing (zremove i (closing s)) s in
  let s := poll_remove (Cl i) s in
  set_clients (aremove Z.eqb i (clients s)) s.

Definition new_client (i : Z) (s : state) : state :=
  let s := set_clients (clients s ++ [(i, mkCl false 0 false false)]) s in
  let s := set_used (Cl i :: used s) s in
  poll_set (Cl i) fl_R s.

Definition upd_client (i : Z) (c : client) (s : state) : state :=
  set_clients (aset Z.eqb i c (clients s)) s.

(* the client as far as the application may still use it (the test never touches a client again
   after remove() returned) *)
Definition live_client (i : Z) (s : state) : option client :=
  match alookup Z.eqb i (clients s) with
  | Some c => if c_rm c then None else Some c
  | None => None
  end.

Definition send_result (n : Z) (o : sendout) : Z :=
  match o with SWould => -1 | SErr => -2 | SSent k => Z.max 0 (Z.min k n) end.

(* the scripted outcome of the next ::send / ::recv (defaults: everything is sent / would block) *)
Definition next_send (n : Z) (s : state) : sendout := match sendq s with [] => SSent n | o :: _ => o end.
Definition drop_send (s : state) : state := set_sendq (tl (sendq s)) s.
Definition next_recv (s : state) : recvout := match recvq s with [] => RWould | o :: _ => o end.
Definition drop_recv (s : state) : state := set_recvq (tl (recvq s)) s.

Definition recv_result (o : recvout) : Z :=
  match o with RWould => -1 | RErr => -2 | REof => 0 | RGot k => Z.max 0 k end.

Definition exec_action (a : action) (s : state) : state :=
  match a with
  | ATimer i iv =>
      if fresh (Tm i) s then
        let et := clk s + iv in
        let s := log (EvCreated (Tm i) (clk s) iv) s in
        let s := set_timers (timers s ++ [(i, (et, iv))]) s in
        let s := set_used (Tm i :: used s) s in
        set_queue (q_insert et (Some i) (queue s)) s
      else log EvSkip s
  | ARmTimer i =>
      match alookup Z.eqb i (timers s) with
      | Some (et, _) =>
          let s := set_queue (q_remove et i (queue s)) s in
          let s := set_timers (aremove Z.eqb i (timers s)) s in
          log (EvRemoved (Tm i)) s
      | None => log EvSkip s
      end
  | APair i =>
      if fresh (Cl i) s then
        let s := log (EvCreated (Cl i) 0 0) s in
        let s := new_client i s in
        upd_client i (mkCl true 0 false false) s
      else log EvSkip s
  | ARmClient i =>
      match live_client i s with
      | Some c =>
          if c_cb c then log (EvRemoved (Cl i)) (delete_client i s)
          else log (EvDeferred (Cl i)) (upd_client i (mkCl false (c_back c) (c_susp c) true) s)
      | None => log EvSkip s
      end
  | AListen i =>
      if fresh (Li i) s then
        let s := log (EvCreated (Li i) 0 0) s in
        let s := set_listeners (listeners s ++ [i]) s in
        let s := set_used (Li i :: used s) s in
        poll_set (Li i) fl_A s
      else log EvSkip s
  | ARmListener i =>
      if zmem i (listeners s) then
        let s := poll_remove (Li i) s in
        let s := set_listeners (zremove i (listeners s)) s in
        log (EvRemoved (Li i)) s
      else log EvSkip s
  | AConnect i =>
      if fresh (Es i) s then
        let s := log (EvCreated (Es i) 0 0) s in
        let s := set_estabs (estabs s ++ [i]) s in
        let s := set_used (Es i :: used s) s in
        poll_set (Es i) fl_C s
      else log EvSkip s
  | ARmEstab i =>
      if zmem i (estabs s) then
        let s := poll_remove (Es i) s in
        let s := set_estabs (zremove i (estabs s)) s in
        log (EvRemoved (Es i)) s
      else log EvSkip s
  | AWrite i n =>
      match live_client i s with
      | Some c =>
          if n <? 0 then log EvSkip s else
          if c_back c =? 0 then
            let r := send_result n (next_send n s) in
            let s := drop_send s in
            let s := log (EvSend i n r false) s in
            if failed_io r then log (EvWrote i false 0) (closing_append i s)
            else
              let sent := Z.max 0 r in
              if n <=? sent then log (EvWrote i true 0) s
              else
                let s := upd_client i (mkCl (c_cb c) (n - sent) (c_susp c) (c_rm c)) s in
                let s := poll_set (Cl i) (if c_susp c then fl_W else fl_RW) s in
                log (EvWrote i true (n - sent)) s
          else
            let s := upd_client i (mkCl (c_cb c) (c_back c + n) (c_susp c) (c_rm c)) s in
            log (EvWrote i true (c_back c + n)) s
      | None => log EvSkip s
      end
  | ARead i =>
      match live_client i s with
      | Some c =>
          let r := recv_result (next_recv s) in
          let s := drop_recv s in
          let s := log (EvRecv i r) s in
          if failed_io r then log (EvRead i false) (closing_append i s)
          else log (EvRead i (0 <? r)) s
      | None => log EvSkip s
      end
  | ASuspend i =>
      match live_client i s with
      | Some c =>
          if c_susp c then s else
          let s := upd_client i (mkCl (c_cb c) (c_back c) true (c_rm c)) s in
          poll_set (Cl i) (if c_back c =? 0 then fl_none else fl_W) s
      | None => log EvSkip s
      end
  | AResume i =>
      match live_client i s with
      | Some c =>
          if negb (c_susp c) then s else
          let s := upd_client i (mkCl (c_cb c) (c_back c) false (c_rm c)) s in
          poll_set (Cl i) (if c_back c =? 0 then fl_R else fl_RW) s
      | None => log EvSkip s
      end
  | AInterrupt => do_interrupt false s
  | AAdv d => set_clk (clk s + d) s
  end.

Definition exec_actions (l : list action) (s : state) : state := fold_left (fun s a => exec_action a s) l s.

(* the body of a callback: consume its script entry, run the entry's actions *)
Definition run_script (e : ent) (k : skind) (s : state) : state :=
  let '(o, rest) := pop_script e k (scripts s) in
  let s := set_scripts rest s in
  match o with Some x => exec_actions (s_acts x) s | None => s end.

Definition callback (e : ent) (k : cbkind) (s : state) : state :=
  run_script e (SCb k) (log (EvCb e k (clk s)) s).

(* ---------- Server::Private::run ------------------------------------------------------------- *)
(* the buffered events as the state dump shows them *)
Definition sel_view (l : list (ent * fl)) : list (ent * Z) := map (fun x => (fst x, fl_to_Z (snd x))) l.

Fixpoint timer_phase (fuel : nat) (now : Z) (s : state) : state :=
  match fuel with
  | O => set_stuck true s
  | S f =>
      match queue s with
      | [] => s
      | (k, v) :: q' =>
          if k - now <=? 0 then
            match v with
            | Some t =>
                match alookup Z.eqb t (timers s) with
                | Some (et, iv) =>
                    let s := set_timers (aset Z.eqb t (et + iv, iv) (timers s)) s in
                    let s := set_queue (q_insert (et + iv) (Some t) q') s in
                    let s := log (EvAct t et now) s in
                    timer_phase f now (run_script (Tm t) SAct s)
                | None => timer_phase f now (set_queue q' s)     (* unreachable: queued => pooled *)
                end
            | None => timer_phase f now (set_queue (q_insert (now + 300000) None q') s)
            end
          else s
      end
  end.

Fixpoint closing_phase (fuel : nat) (s : state) : state :=
  match fuel with
  | O => set_stuck true s
  | S f =>
      match closing s with
      | [] => s
      | i :: r =>
          let s := set_closing r s in
          match alookup Z.eqb i (clients s) with
          | Some c => if c_cb c then closing_phase f (callback (Cl i) KClosed s)
                      else closing_phase f (if c_rm c then delete_client i s                (* unreachable *)
                                            else log (EvRemoved (Cl i)) (delete_client i s))
          | None => closing_phase f s                           (* unreachable: closing => pooled *)
          end
      end
  end.

(* the identity and the answer the test script has for the next onAccepted / onConnected of [e] *)
Definition peek_new (e : ent) (k : ikind) (s : state) : option (Z * bool) :=
  match fst (pop_script e (SIn k) (scripts s)) with
  | Some x => if fresh (Cl (s_new x)) s then Some (s_new x, s_acc x) else None
  | None => None
  end.

(* a new client is announced through onAccepted / onConnected *)
Definition introduce (e : ent) (k : ikind) (i : Z) (acc : bool) (s : state) : state :=
  let s := log (EvCreated (Cl i) 0 0) s in
  let s := new_client i s in
  let s := run_script e (SIn k) (log (EvIntro e k i (clk s)) s) in
  let s := log (EvIntroRet i acc) s in
  if acc then
    match alookup Z.eqb i (clients s) with
    | Some c => if c_rm c then delete_client i s       (* removed meanwhile: no callback object is installed *)
                else upd_client i (mkCl true (c_back c) (c_susp c) false) s
    | None => s
    end
  else delete_client i s.

Definition dispatch_write (i : Z) (also_read : bool) (s : state) : state :=
  match alookup Z.eqb i (clients s) with
  | None => s
  | Some c =>
      if 0 <? c_back c then
        let r := send_result (c_back c) (next_send (c_back c) s) in
        let s := drop_send s in
        let s := log (EvSend i (c_back c) r true) s in
        if failed_io r then
          let s := upd_client i (mkCl (c_cb c) 0 (c_susp c) (c_rm c)) s in
          let s := poll_remove (Cl i) s in
          callback (Cl i) KClosed s
        else
          let back := c_back c - Z.max 0 r in
          let s := upd_client i (mkCl (c_cb c) back (c_susp c) (c_rm c)) s in
          if back =? 0 then
            let s := poll_set (Cl i) (if c_susp c then fl_none else fl_R) s in
            callback (Cl i) KWrite s
          else (if also_read then callback (Cl i) KRead s else s)
      else
        let s := poll_set (Cl i) (if c_susp c then fl_none else fl_R) s in
        callback (Cl i) KWrite s
  end.

Definition next_accept (s : state) : bool := match acceptq s with [] => true | o :: _ => o end.
Definition drop_accept (s : state) : state := set_acceptq (tl (acceptq s)) s.
Definition next_conn (s : state) : Z := match connq s with [] => 0 | o :: _ => o end.
Definition drop_conn (s : state) : state := set_connq (tl (connq s)) s.

Definition dispatch (e : ent) (f : fl) (s : state) : state :=
  match e with
  | Cl i =>
      if fW f then dispatch_write i (fR f) s
      else if fR f then callback (Cl i) KRead s
      else s
  | Li i =>
      if fA f then
        let ok := next_accept s in
        let s := drop_accept s in
        match (if ok then peek_new (Li i) KAccepted s else None) with
        | Some (n, acc) => introduce (Li i) KAccepted n acc (log (EvAccept i true) s)
        | None => log (EvAccept i false) s       (* accept fails (also when the test has no identity for the client) *)
        end
      else s
  | Es i =>
      if fC f then
        let s := poll_remove (Es i) s in
        let err := next_conn s in
        let s := drop_conn s in
        match (if err =? 0 then peek_new (Es i) KConnected s else None) with
        | Some (n, acc) => introduce (Es i) KConnected n acc (log (EvSoErr i 0) s)
        | None => callback (Es i) KAbolished (log (EvSoErr i (if err =? 0 then 111 else err)) s)
        end
      else s
  | Tm _ => s
  end.

Fixpoint run_loop (fuel : nat) (items : list epitem) (s : state) : state :=
  match fuel with
  | O => set_stuck true s
  | S f =>
      let now := clk s in
      let sel := sel_view (selected s) in
      let s := log (EvNow now) s in
      let s := log (EvSel sel) s in
      let s := timer_phase f now s in
      let s := closing_phase f s in
      if stuck s then s else
      let timeout := match queue s with (k, _) :: _ => k - now | [] => 0 end in
      let '(s, evt, items) := poll timeout items s in
      match evt with
      | Some (e, fl) =>
          if fl_is_none fl then
            (if intr s then log EvRunRet (set_intr false s) else run_loop f items s)
          else run_loop f items (dispatch e fl s)
      | None => if intr s then log EvRunRet (set_intr false s) else run_loop f items s
      end
  end.

Definition run (fuel : nat) (items : list epitem) (s : state) : state :=
  run_loop fuel items (log EvRunEnter s).

Definition step (fuel : nat) (s : state) (o : op) : state :=
  if stuck s then s else
  match o with
  | OAct a => exec_action a s
  | OOn e => set_scripts (scripts s ++ [e]) s
  | ORun items => run fuel items s
  | OSendq l => set_sendq (sendq s ++ l) s
  | ORecvq l => set_recvq (recvq s ++ l) s
  | OAcceptq l => set_acceptq (acceptq s ++ l) s
  | OConnq l => set_connq (connq s ++ l) s
  end.

Definition steps (fuel : nat) (s : state) (l : list op) : state := fold_left (step fuel) l s.
