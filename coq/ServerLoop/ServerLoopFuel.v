(* Round 4: fuel is only a device.  A run that ended with stuck = false was never cut off, and more fuel then gives
   the same run (run_loop_mono); under the environment hypothesis Env (positive intervals, clock never set back) a
   run() with a finite script of epoll results is not cut off once the fuel is large enough (run_loop_enough_fuel):
   every iteration either consumes an epoll item or serves a buffered event, its two inner phases terminate
   (ServerLoopTerm), and when the script of epoll results has run out the simulated foreign interrupt ends the run. *)
From Coq Require Import ZArith List Bool Lia.
From ServerLoop Require Import ServerLoopSpec ServerLoopModel ServerLoopBase ServerLoopInv ServerLoopCb ServerLoopBuf ServerLoopDerived ServerLoopTerm
  ServerLoopLiveBase ServerLoopKeep ServerLoopLive.
Import ListNotations.
Local Open Scope Z_scope.

(* ---------- the stuck flag is never cleared ------------------------------------------------------------------------------ *)
Lemma run_script_stuck e k s : stuck (run_script e k s) = stuck s.
Proof. apply (cmeas_run_script e k s). Qed.

Lemma timer_phase_stuck f now s : stuck s = true -> stuck (timer_phase f now s) = true.
Proof.
  revert s. induction f as [|f IH]; intros s H; cbn [timer_phase]; [reflexivity|].
  destruct (queue s) as [|[k v] q']; [exact H|]. destruct (k - now <=? 0); [|exact H].
  destruct v as [t|]; [destruct (alookup Z.eqb t (timers s)) as [[et iv]|]|]; apply IH; try exact H.
  rewrite run_script_stuck. exact H.
Qed.

Lemma closing_phase_stuck f s : stuck s = true -> stuck (closing_phase f s) = true.
Proof.
  revert s. induction f as [|f IH]; intros s H; cbn [closing_phase]; [reflexivity|].
  destruct (closing s) as [|i r]; [exact H|]. sproj.
  destruct (alookup Z.eqb i (clients s)) as [c|]; [destruct (c_cb c); [|destruct (c_rm c)]|]; apply IH.
  - destruct (cmeas_callback (Cl i) KClosed (set_closing r s)) as [_ B]. rewrite B. exact H.
  - destruct (same5_delete_client i (set_closing r s)) as (_ & _ & _ & _ & S). rewrite S. exact H.
  - sproj. destruct (same5_delete_client i (set_closing r s)) as (_ & _ & _ & _ & S). rewrite S. exact H.
  - exact H.
Qed.

(* ---------- more fuel, same run -------------------------------------------------------------------------------------------- *)
Lemma timer_phase_mono f f' now s : (f <= f')%nat -> stuck (timer_phase f now s) = false -> timer_phase f' now s = timer_phase f now s.
Proof.
  revert f' s. induction f as [|f IH]; intros f' s Hle H; [cbn in H; discriminate|].
  destruct f' as [|f']; [lia|]. cbn [timer_phase] in *.
  destruct (queue s) as [|[k v] q']; [reflexivity|]. destruct (k - now <=? 0); [|reflexivity].
  destruct v as [t|]; [destruct (alookup Z.eqb t (timers s)) as [[et iv]|]|]; apply IH; try lia; exact H.
Qed.

Lemma closing_phase_mono f f' s : (f <= f')%nat -> stuck (closing_phase f s) = false -> closing_phase f' s = closing_phase f s.
Proof.
  revert f' s. induction f as [|f IH]; intros f' s Hle H; [cbn in H; discriminate|].
  destruct f' as [|f']; [lia|]. cbn [closing_phase] in *.
  destruct (closing s) as [|i r]; [reflexivity|]. sproj.
  destruct (alookup Z.eqb i (clients s)) as [c|]; [destruct (c_cb c); [|destruct (c_rm c)]|]; apply IH; try lia; exact H.
Qed.

Lemma head_state_mono f f' s : (f <= f')%nat -> stuck (head_state f s) = false -> head_state f' s = head_state f s.
Proof.
  intros Hle H. unfold head_state in *.
  set (s0 := log (EvSel (sel_view (selected s))) (log (EvNow (clk s)) s)) in *.
  assert (stuck (timer_phase f (clk s) s0) = false) as Ht.
  { destruct (stuck (timer_phase f (clk s) s0)) eqn:E; [|reflexivity]. rewrite (closing_phase_stuck f _ E) in H. discriminate. }
  rewrite (timer_phase_mono f f' (clk s) s0 Hle Ht). apply closing_phase_mono; assumption.
Qed.

Theorem run_loop_mono_l f f' items s : (f <= f')%nat -> stuck (run_loop f items s) = false -> run_loop f' items s = run_loop f items s.
Proof.
  revert f' items s. induction f as [|f IH]; intros f' items s Hle H; [cbn in H; discriminate|].
  destruct f' as [|f']; [lia|]. rewrite (run_loop_S f items s) in *. rewrite (run_loop_S f' items s).
  destruct (stuck (head_state f s)) eqn:Est; [congruence|].
  rewrite (head_state_mono f f' s ltac:(lia) Est). rewrite Est.
  destruct (poll (tmo_of (clk s) (head_state f s)) items (head_state f s)) as [[s2 evt] items2]. cbn [fst snd] in *.
  unfold cont in *. destruct evt as [[e fl]|]; [destruct (fl_is_none fl)|]; try (destruct (intr s2); [reflexivity|]); apply IH; try lia; exact H.
Qed.

(* ---------- the environment hypothesis and the stuck flag across the rest of an iteration ------------------------------------ *)
Definition ES (s' s : state) : Prop := stuck s' = stuck s /\ (Env s -> Env s').

Lemma ES_refl s : ES s s. Proof. split; auto. Qed.
Lemma ES_trans s1 s2 s3 : ES s1 s2 -> ES s2 s3 -> ES s1 s3.
Proof. intros [A1 B1] [A2 B2]. split; [congruence | auto]. Qed.
Lemma ES_same s' s : stuck s' = stuck s -> scripts s' = scripts s -> timers s' = timers s -> ES s' s.
Proof. intros A B C. split; [exact A | apply Env_same; assumption]. Qed.
Lemma ES_same5 s' s : same5 s' s -> ES s' s.
Proof. intros (_ & B & _ & D & E). apply ES_same; assumption. Qed.

Lemma Env_exec_actions l s : forallb act_okb l = true -> Env s -> Env (exec_actions l s).
Proof.
  unfold exec_actions. revert s. induction l as [|a l IH]; cbn [fold_left forallb]; intros s Hok HE; [exact HE|].
  apply andb_true_iff in Hok. destruct Hok as [Ha Hl]. apply IH; [exact Hl | apply Env_exec_action; assumption].
Qed.

Lemma ES_run_script e k s : ES (run_script e k s) s.
Proof.
  split; [apply run_script_stuck|]. intros HE. unfold run_script.
  destruct (pop_script e k (scripts s)) as [o rest] eqn:P.
  pose proof HE as HE0. apply Env_spec in HE0. destruct HE0 as [H1 H2].
  destruct (pop_script_ok _ _ _ _ _ P H1) as [A B].
  assert (Env (set_scripts rest s)) as HE1 by (apply Env_spec; sproj; auto).
  destruct o as [x|]; [apply Env_exec_actions; [apply B; reflexivity | exact HE1] | exact HE1].
Qed.

Lemma ES_callback e k s : ES (callback e k s) s.
Proof. unfold callback. eapply ES_trans; [apply ES_run_script | apply ES_same; reflexivity]. Qed.

Ltac es5 := (apply ES_same5; s5chain).

Lemma ES_introduce e k i acc s : ES (introduce e k i acc s) s.
Proof.
  unfold introduce. cbn zeta.
  set (s1 := new_client i (log (EvCreated (Cl i) 0 0) s)).
  assert (ES s1 s) as H1 by (subst s1; es5).
  set (s2 := log (EvIntroRet i acc) (run_script e (SIn k) (log (EvIntro e k i (clk s1)) s1))).
  assert (ES s2 s) as H2.
  { subst s2. eapply ES_trans; [apply ES_same; reflexivity|]. eapply ES_trans; [apply ES_run_script|].
    eapply ES_trans; [apply ES_same; reflexivity | exact H1]. }
  destruct acc; [destruct (alookup Z.eqb i (clients s2)) as [c|]; [destruct (c_rm c)|]|].
  - apply (ES_trans _ s2); [apply ES_same5; apply same5_delete_client | exact H2].
  - apply (ES_trans _ s2); [apply ES_same5; apply same5_upd_client | exact H2].
  - exact H2.
  - apply (ES_trans _ s2); [apply ES_same5; apply same5_delete_client | exact H2].
Qed.

Lemma ES_dispatch_write i ar s : ES (dispatch_write i ar s) s.
Proof.
  unfold dispatch_write. destruct (alookup Z.eqb i (clients s)) as [c|]; [|apply ES_refl].
  destruct (0 <? c_back c); cbn zeta.
  - destruct (failed_io _).
    + eapply ES_trans; [apply ES_callback|]. apply ES_same5. unfold drop_send. s5chain.
    + destruct (_ =? 0).
      * eapply ES_trans; [apply ES_callback|]. apply ES_same5. unfold drop_send. s5chain.
      * destruct ar; [eapply ES_trans; [apply ES_callback|]|]; apply ES_same5; unfold drop_send; s5chain.
  - eapply ES_trans; [apply ES_callback|]. es5.
Qed.

Lemma ES_dispatch e f s : ES (dispatch e f s) s.
Proof.
  destruct e as [i|i|i|i]; cbn [dispatch]; [apply ES_refl | | |].
  - destruct (fW f); [apply ES_dispatch_write|]. destruct (fR f); [apply ES_callback | apply ES_refl].
  - destruct (fA f); [|apply ES_refl]. cbn zeta.
    destruct (if next_accept s then peek_new (Li i) KAccepted (drop_accept s) else None) as [[n acc]|].
    + eapply ES_trans; [apply ES_introduce|]. apply ES_same; reflexivity.
    + apply ES_same; reflexivity.
  - destruct (fC f); [|apply ES_refl]. cbn zeta.
    assert (ES (drop_conn (poll_remove (Es i) s)) s) as H1.
    { eapply ES_trans; [|apply ES_same5; apply (same5_poll_remove (Es i) s)]. apply ES_same; reflexivity. }
    destruct (if next_conn (poll_remove (Es i) s) =? 0 then peek_new (Es i) KConnected (drop_conn (poll_remove (Es i) s)) else None) as [[n acc]|].
    + eapply ES_trans; [apply ES_introduce|]. eapply ES_trans; [apply ES_same; reflexivity | exact H1].
    + eapply ES_trans; [apply ES_callback|]. eapply ES_trans; [apply ES_same; reflexivity | exact H1].
Qed.

Lemma same5_absorb r s : same5 (absorb r s) s.
Proof.
  revert s. induction r as [|[e n] r IH]; intros s; cbn [absorb]; [apply same5_refl|].
  destruct (alookup ent_eqb e (socks s)); [|apply IH]. eapply same5_trans; [apply IH|]. repeat split.
Qed.

Lemma ES_poll t items s : ES (fst (fst (poll t items s))) s.
Proof.
  unfold poll, pop_selected. destruct (selected s) as [|x r]; [|cbn [fst]; apply ES_same; reflexivity].
  assert (ES (fst (epoll_wait t items s)) s) as H.
  { unfold epoll_wait. cbn zeta. destruct items as [|it rest]; cbn [fst].
    - apply ES_same5. s5chain.
    - eapply ES_trans; [apply ES_same5; apply same5_absorb|]. apply ES_same; reflexivity. }
  destruct (epoll_wait t items s) as [s1 items1]. cbn [fst] in H.
  destruct (0 <? evcount s1); cbn [fst].
  - eapply ES_trans; [apply ES_same; reflexivity | exact H].
  - destruct (selected s1); cbn [fst]; [exact H|]. eapply ES_trans; [apply ES_same; reflexivity | exact H].
Qed.

Lemma Env_closing_phase f s : Env s -> Env (closing_phase f s).
Proof.
  revert s. induction f as [|f IH]; intros s HE; cbn [closing_phase]; [eapply Env_same; [..|exact HE]; reflexivity|].
  destruct (closing s) as [|i r]; [exact HE|]. sproj.
  assert (Env (set_closing r s)) as HE1 by (eapply Env_same; [..|exact HE]; reflexivity).
  destruct (alookup Z.eqb i (clients s)) as [c|]; [destruct (c_cb c); [|destruct (c_rm c)]|]; apply IH.
  - apply (ES_callback (Cl i) KClosed (set_closing r s)). exact HE1.
  - apply (ES_same5 _ _ (same5_delete_client i (set_closing r s))). exact HE1.
  - eapply Env_same; [..|apply (ES_same5 _ _ (same5_delete_client i (set_closing r s))); exact HE1]; reflexivity.
  - exact HE1.
Qed.

(* ---------- enough fuel exists ------------------------------------------------------------------------------------------------ *)
(* the head of an iteration with enough fuel for its two phases *)
Lemma head_state_enough s : SInv s -> Env s -> stuck s = false ->
  exists fm, stuck (head_state fm s) = false /\ SInv (head_state fm s) /\ Env (head_state fm s).
Proof.
  intros HI HE Hst.
  set (s0 := log (EvSel (sel_view (selected s))) (log (EvNow (clk s)) s)).
  assert (SInv s0) as HI0 by (apply SInv_log; apply SInv_log; exact HI).
  assert (Env s0) as HE0 by (eapply Env_same; [..|exact HE]; reflexivity).
  set (ft := S (tlag (clk s) s0)).
  destruct (timer_phase_terminates_l ft (clk s) s0 HI0 HE0 ltac:(subst s0; sproj; lia) ltac:(subst ft; lia)) as (A & _ & B & C & _).
  set (T := timer_phase ft (clk s) s0) in *.
  assert (stuck T = false) as HT by (rewrite A; exact Hst).
  set (fc := S (cmeas T)).
  destruct (closing_phase_terminates_l fc T ltac:(subst fc; lia)) as [D _].
  exists (Nat.max ft fc). unfold head_state. fold s0.
  rewrite (timer_phase_mono ft (Nat.max ft fc) (clk s) s0 ltac:(lia) HT). fold T.
  assert (stuck (closing_phase fc T) = false) as HC by (rewrite D; exact HT).
  rewrite (closing_phase_mono fc (Nat.max ft fc) T ltac:(lia) HC).
  split; [exact HC|]. split; [apply SInv_closing_phase; exact B | apply Env_closing_phase; exact C].
Qed.

Definition Fine (items : list epitem) (s : state) : Prop := exists F, stuck (run_loop F items s) = false.

(* one iteration with enough fuel, given that the rest of the run has enough fuel *)
Lemma Fine_step items s fm :
  stuck (head_state fm s) = false ->
  (let r := poll (tmo_of (clk s) (head_state fm s)) items (head_state fm s) in
   let s2 := fst (fst r) in
   match snd (fst r) with
   | Some (e, fl) => if fl_is_none fl then (if intr s2 then True else Fine (snd r) s2) else Fine (snd r) (dispatch e fl s2)
   | None => if intr s2 then True else Fine (snd r) s2
   end) ->
  stuck (fst (fst (poll (tmo_of (clk s) (head_state fm s)) items (head_state fm s)))) = false ->
  Fine items s.
Proof.
  intros Hh Hc Hs2. cbn zeta in Hc.
  assert (forall F', (fm <= F')%nat -> head_state F' s = head_state fm s) as Hm by (intros F' L; apply head_state_mono; assumption).
  destruct (poll (tmo_of (clk s) (head_state fm s)) items (head_state fm s)) as [[s2 evt] items2] eqn:P. cbn [fst snd] in *.
  assert (forall s', Fine items2 s' -> (forall F', (fm <= F')%nat -> cont F' items2 s2 evt = run_loop F' items2 s') -> Fine items s) as K.
  { intros s' [F' HF'] Hcont. exists (S (Nat.max fm F')). rewrite run_loop_S. rewrite (Hm (Nat.max fm F') ltac:(lia)), Hh, P. cbn [fst snd].
    rewrite (Hcont (Nat.max fm F') ltac:(lia)). rewrite (run_loop_mono_l F' (Nat.max fm F') items2 s' ltac:(lia) HF'). exact HF'. }
  assert (intr s2 = true -> (forall F', cont F' items2 s2 evt = log EvRunRet (set_intr false s2)) -> Fine items s) as R.
  { intros Hi Hcont. exists (S fm). rewrite run_loop_S, Hh, P. cbn [fst snd]. rewrite Hcont. sproj. exact Hs2. }
  destruct evt as [[e fl]|].
  - destruct (fl_is_none fl) eqn:En.
    + destruct (intr s2) eqn:Ei.
      * apply R; [reflexivity|]. intros F'. unfold cont. rewrite En, Ei. reflexivity.
      * apply (K s2 Hc). intros F' _. unfold cont. rewrite En, Ei. reflexivity.
    + apply (K _ Hc). intros F' _. unfold cont. rewrite En. reflexivity.
  - destruct (intr s2) eqn:Ei.
    + apply R; [reflexivity|]. intros F'. unfold cont. rewrite Ei. reflexivity.
    + apply (K s2 Hc). intros F' _. unfold cont. rewrite Ei. reflexivity.
Qed.

Theorem run_loop_enough_fuel_l items s : SInv s -> Env s -> stuck s = false -> Fine items s.
Proof.
  revert s. induction items as [|it rest IHi].
  - (* the script of epoll results has run out: serve the buffer, then the foreign interrupt ends the run *)
    intros s. remember (length (selected s)) as n eqn:En. revert s En.
    induction n as [n IHn] using lt_wf_ind. intros s En HI HE Hst.
    destruct (head_state_enough s HI HE Hst) as (fm & Hh & HI1 & HE1).
    destruct (head_basic fm s HI) as (_ & Sb1 & _ & _).
    set (s1 := head_state fm s) in *.
    assert (length (selected s1) <= n)%nat as Hlen.
    { apply sublist_length in Sb1. unfold skeys in Sb1. rewrite !map_length in Sb1. lia. }
    pose proof (SInv_poll (tmo_of (clk s) s1) [] s1 HI1) as HI2.
    pose proof (ES_poll (tmo_of (clk s) s1) [] s1) as [St2 HE2].
    apply (Fine_step [] s fm Hh); [|exact (eq_trans St2 Hh)]. cbn zeta. fold s1.
    unfold poll in *. destruct (selected s1) as [|[e' f'] r] eqn:Esel.
    + (* nothing buffered: the wait is interrupted *)
      unfold epoll_wait in *. cbn zeta in *. cbn [fst snd] in *.
      set (sa := do_interrupt true (log (EvItem true) (log (EvWait (tmo_of (clk s) s1)) s1))) in *.
      assert (intr sa = true) as Hi by (subst sa; unfold do_interrupt; sproj; destruct (intr s1) eqn:E; sproj; [exact E | reflexivity]).
      assert (selected sa = []) as Ea by (subst sa; unfold do_interrupt; sproj; destruct (intr s1); sproj; exact Esel).
      destruct (0 <? evcount sa); cbn [fst snd].
      * assert (intr (set_evcount 0 sa) = true) as Hi' by exact Hi. rewrite Hi'. exact I.
      * unfold pop_selected. rewrite Ea. cbn [fst snd]. rewrite Hi. exact I.
    + unfold pop_selected in *. rewrite Esel in *. cbn [fst snd] in *.
      set (s2 := set_selected r s1) in *. cbn [length] in Hlen.
      assert (Env s2) as HEs2 by (apply HE2; exact HE1).
      assert (stuck s2 = false) as Hs2 by (rewrite St2; exact Hh).
      destruct (fl_is_none f').
      * destruct (intr s2); [exact I|]. apply (IHn (length r) ltac:(lia) s2 eq_refl HI2 HEs2 Hs2).
      * destruct (ES_dispatch e' f' s2) as [A B].
        assert (length (selected (dispatch e' f' s2)) <= length r)%nat as L.
        { pose proof (Sub_dispatch e' f' s2) as Sb. apply sublist_length in Sb. unfold skeys in Sb. rewrite !map_length in Sb. exact Sb. }
        apply (IHn (length (selected (dispatch e' f' s2))) ltac:(lia) (dispatch e' f' s2) eq_refl); [apply SInv_dispatch; exact HI2 | apply B; exact HEs2 | rewrite A; exact Hs2].
  - intros s. remember (length (selected s)) as n eqn:En. revert s En.
    induction n as [n IHn] using lt_wf_ind. intros s En HI HE Hst.
    destruct (head_state_enough s HI HE Hst) as (fm & Hh & HI1 & HE1).
    destruct (head_basic fm s HI) as (_ & Sb1 & _ & _).
    set (s1 := head_state fm s) in *.
    assert (length (selected s1) <= n)%nat as Hlen.
    { apply sublist_length in Sb1. unfold skeys in Sb1. rewrite !map_length in Sb1. lia. }
    pose proof (SInv_poll (tmo_of (clk s) s1) (it :: rest) s1 HI1) as HI2.
    pose proof (ES_poll (tmo_of (clk s) s1) (it :: rest) s1) as [St2 HE2].
    apply (Fine_step (it :: rest) s fm Hh); [|exact (eq_trans St2 Hh)]. cbn zeta. fold s1.
    unfold poll in *. destruct (selected s1) as [|[e' f'] r] eqn:Esel.
    + (* the loop waits and consumes an epoll item: the rest of the script is shorter *)
      unfold epoll_wait in *. cbn zeta in *. cbn [fst snd] in *.
      set (sa := absorb (ep_ready it) _) in *.
      destruct (0 <? evcount sa); cbn [fst snd] in *.
      * set (sb := set_evcount 0 sa) in *. destruct (intr sb); [exact I|].
        apply IHi; [exact HI2 | apply HE2; exact HE1 | rewrite St2; exact Hh].
      * unfold pop_selected in *. destruct (selected sa) as [|[e2 f2] r2]; cbn [fst snd] in *.
        -- destruct (intr sa); [exact I|]. apply IHi; [exact HI2 | apply HE2; exact HE1 | rewrite St2; exact Hh].
        -- set (s2 := set_selected r2 sa) in *.
           assert (Env s2) as HEs2 by (apply HE2; exact HE1).
           assert (stuck s2 = false) as Hs2 by (rewrite St2; exact Hh).
           destruct (fl_is_none f2).
           ++ destruct (intr s2); [exact I|]. apply IHi; assumption.
           ++ destruct (ES_dispatch e2 f2 s2) as [A B].
              apply IHi; [apply SInv_dispatch; exact HI2 | apply B; exact HEs2 | rewrite A; exact Hs2].
    + unfold pop_selected in *. rewrite Esel in *. cbn [fst snd] in *.
      set (s2 := set_selected r s1) in *. cbn [length] in Hlen.
      assert (Env s2) as HEs2 by (apply HE2; exact HE1).
      assert (stuck s2 = false) as Hs2 by (rewrite St2; exact Hh).
      destruct (fl_is_none f').
      * destruct (intr s2); [exact I|]. apply (IHn (length r) ltac:(lia) s2 eq_refl HI2 HEs2 Hs2).
      * destruct (ES_dispatch e' f' s2) as [A B].
        assert (length (selected (dispatch e' f' s2)) <= length r)%nat as L.
        { pose proof (Sub_dispatch e' f' s2) as Sb. apply sublist_length in Sb. unfold skeys in Sb. rewrite !map_length in Sb. exact Sb. }
        apply (IHn (length (selected (dispatch e' f' s2))) ltac:(lia) (dispatch e' f' s2) eq_refl); [apply SInv_dispatch; exact HI2 | apply B; exact HEs2 | rewrite A; exact Hs2].
Qed.

(* ---------- the environment hypothesis holds in every state reached by operations that respect it ------------------------------ *)
Lemma Env_timer_phase f now s : Env s -> Env (timer_phase f now s).
Proof.
  revert s. induction f as [|f IH]; intros s HE; cbn [timer_phase]; [eapply Env_same; [..|exact HE]; reflexivity|].
  destruct (queue s) as [|[k v] q']; [exact HE|]. destruct (k - now <=? 0); [|exact HE].
  destruct v as [t|]; [destruct (alookup Z.eqb t (timers s)) as [[et iv]|] eqn:El|]; apply IH.
  - apply (ES_run_script (Tm t) SAct). pose proof (timers_pos_lookup s t et iv HE El) as Hiv.
    apply Env_spec in HE. destruct HE as [H1 H2]. apply Env_spec. sproj. split; [exact H1 | apply timers_posb_aset; assumption].
  - eapply Env_same; [..|exact HE]; reflexivity.
  - eapply Env_same; [..|exact HE]; reflexivity.
Qed.

Lemma Env_run_loop fuel items s : Env s -> Env (run_loop fuel items s).
Proof.
  revert items s. induction fuel as [|f IH]; intros items s HE; [eapply Env_same; [..|exact HE]; reflexivity|].
  rewrite run_loop_S.
  assert (Env (head_state f s)) as H1.
  { unfold head_state. apply Env_closing_phase. apply Env_timer_phase. eapply Env_same; [..|exact HE]; reflexivity. }
  destruct (stuck (head_state f s)); [exact H1|].
  pose proof (ES_poll (tmo_of (clk s) (head_state f s)) items (head_state f s)) as [_ H2]. specialize (H2 H1).
  destruct (poll (tmo_of (clk s) (head_state f s)) items (head_state f s)) as [[s2 evt] items2]. cbn [fst snd] in *.
  assert (Env (log EvRunRet (set_intr false s2))) as H3 by (eapply Env_same; [..|exact H2]; reflexivity).
  unfold cont. destruct evt as [[e fl]|]; [destruct (fl_is_none fl)|]; try (destruct (intr s2); [exact H3 | apply IH; exact H2]).
  apply IH. apply (ES_dispatch e fl s2). exact H2.
Qed.

Definition op_okb (o : op) : bool := match o with OAct a => act_okb a | OOn x => entry_okb x | _ => true end.

Lemma Env_step fuel s o : op_okb o = true -> Env s -> Env (step fuel s o).
Proof.
  intros Hok HE. unfold step. destruct (stuck s); [exact HE|]. destruct o; cbn [op_okb] in Hok.
  - apply Env_exec_action; assumption.
  - apply Env_spec in HE. destruct HE as [H1 H2]. apply Env_spec. sproj. split; [|exact H2].
    unfold scripts_okb in *. rewrite forallb_app, H1. cbn [forallb]. rewrite Hok. reflexivity.
  - unfold run. apply Env_run_loop. eapply Env_same; [..|exact HE]; reflexivity.
  - eapply Env_same; [..|exact HE]; reflexivity.
  - eapply Env_same; [..|exact HE]; reflexivity.
  - eapply Env_same; [..|exact HE]; reflexivity.
  - eapply Env_same; [..|exact HE]; reflexivity.
Qed.

Theorem Env_reachable_l fuel ops : forallb op_okb ops = true -> Env (steps fuel init ops).
Proof.
  unfold steps. assert (Env init) as H0 by reflexivity. revert H0. generalize init.
  induction ops as [|o ops IH]; cbn [fold_left forallb]; intros s HE Hok; [exact HE|].
  apply andb_true_iff in Hok. destruct Hok as [Ho Hops]. apply IH; [apply Env_step; assumption | exact Hops].
Qed.

(* ---------- the liveness theorems for every sufficiently large fuel ----------------------------------------------------------------- *)
Theorem enough_fuel_l items s : SInv s -> Env s -> stuck s = false ->
  exists F, forall fuel, (F <= fuel)%nat -> stuck (run_loop fuel items s) = false.
Proof.
  intros HI HE Hst. destruct (run_loop_enough_fuel_l items s HI HE Hst) as [F HF]. exists F. intros fuel L.
  rewrite (run_loop_mono_l F fuel items s L HF). exact HF.
Qed.

Theorem eventual_dispatch_total_l e g it rest s :
  SInv s -> CbEx None s -> Env s -> stuck s = false -> KS e g None s -> reports it e g ->
  exists F, forall fuel, (F <= fuel)%nat ->
    stuck (run_loop fuel (it :: rest) s) = false /\
    Reach e (length (selected s) + S (length (ep_ready it))) (run_loop fuel (it :: rest) s) s.
Proof.
  intros HI HC HE Hst H Rp. destruct (enough_fuel_l (it :: rest) s HI HE Hst) as [F HF]. exists F. intros fuel L.
  split; [apply HF; exact L|]. apply (eventual_dispatch_any_l e g); auto.
Qed.

Theorem interrupt_returns_total_l items s :
  SInv s -> Env s -> stuck s = false -> IP s ->
  exists F, forall fuel, (F <= fuel)%nat ->
    exists mid, trace (run_loop fuel items s) = EvRunRet :: mid ++ trace s /\ (count_now mid <= S (length (selected s)))%nat.
Proof.
  intros HI HE Hst HP. destruct (enough_fuel_l items s HI HE Hst) as [F HF]. exists F. intros fuel L.
  apply interrupt_returns_l; auto.
Qed.

(* run() with a finite script of epoll results always comes back (in the model the script running out is a foreign interrupt) *)
Theorem run_returns_total_l items s :
  SInv s -> Env s -> stuck s = false ->
  exists F, forall fuel, (F <= fuel)%nat -> exists tr', trace (run_loop fuel items s) = EvRunRet :: tr'.
Proof.
  intros HI HE Hst. destruct (enough_fuel_l items s HI HE Hst) as [F HF]. exists F. intros fuel L.
  destruct (ServerLoopDerived.run_returns_or_stuck fuel items s) as [A|A]; [rewrite (HF fuel L) in A; discriminate | exact A].
Qed.
