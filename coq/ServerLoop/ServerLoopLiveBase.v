(* Support for the liveness theorems of round 4: what every function of the model does to the log (it only
   appends, and only the loop head appends an EvNow - so EvNow events count iterations) and to the interrupt
   flag and the event counter (only Server::interrupt touches them inside an iteration, and only upwards). *)
From Coq Require Import ZArith List Bool Lia.
From ServerLoop Require Import ServerLoopSpec ServerLoopModel ServerLoopBase ServerLoopInv.
Import ListNotations.
Local Open Scope Z_scope.

Definition is_now (x : ev) : bool := match x with EvNow _ => true | _ => false end.
Definition count_now (l : list ev) : nat := length (filter is_now l).

Lemma count_now_app l1 l2 : count_now (l1 ++ l2) = (count_now l1 + count_now l2)%nat.
Proof. unfold count_now. rewrite filter_app, app_length. reflexivity. Qed.
Lemma count_now_cons x l : count_now (x :: l) = ((if is_now x then 1 else 0) + count_now l)%nat.
Proof. unfold count_now. cbn [filter]. destruct (is_now x); reflexivity. Qed.

(* the log of s' is the log of s plus k iterations' worth of events *)
Definition ExtN (k : nat) (s' s : state) : Prop := exists l, trace s' = l ++ trace s /\ count_now l = k.

Lemma ExtN_refl s : ExtN 0 s s. Proof. exists []. split; reflexivity. Qed.
Lemma ExtN_trans k1 k2 s1 s2 s3 : ExtN k1 s1 s2 -> ExtN k2 s2 s3 -> ExtN (k1 + k2) s1 s3.
Proof.
  intros [l1 [A1 B1]] [l2 [A2 B2]]. exists (l1 ++ l2). rewrite A1, A2, app_assoc, count_now_app. split; [reflexivity | lia].
Qed.

(* interrupt flag and counter only go up, and the counter only together with the flag *)
Definition IE (s' s : state) : Prop :=
  (intr s = true -> intr s' = true) /\ evcount s <= evcount s' /\ (evcount s < evcount s' -> intr s' = true).

Lemma IE_refl s : IE s s. Proof. repeat split; auto; lia. Qed.
Lemma IE_trans s1 s2 s3 : IE s1 s2 -> IE s2 s3 -> IE s1 s3.
Proof.
  intros (A1 & B1 & C1) (A2 & B2 & C2). repeat split; auto; [lia|].
  intros H. destruct (Z_lt_dec (evcount s3) (evcount s2)) as [L|L]; [apply A1; apply C2; exact L | apply C1; lia].
Qed.

Definition EI (s' s : state) : Prop := ExtN 0 s' s /\ IE s' s.

Lemma EI_refl s : EI s s. Proof. split; [apply ExtN_refl | apply IE_refl]. Qed.
Lemma EI_trans s1 s2 s3 : EI s1 s2 -> EI s2 s3 -> EI s1 s3.
Proof. intros [A1 B1] [A2 B2]. split; [apply (ExtN_trans 0 0 s1 s2 s3); assumption | eapply IE_trans; eauto]. Qed.
Lemma EI_frame s' s : trace s' = trace s -> intr s' = intr s -> evcount s' = evcount s -> EI s' s.
Proof.
  intros A B C. split; [exists []; split; [exact A | reflexivity]|]. unfold IE. rewrite B, C. repeat split; auto; lia.
Qed.
Lemma EI_log e s : is_now e = false -> EI (log e s) s.
Proof.
  intros H. split; [|unfold IE; sproj; repeat split; auto; lia]. exists [e]. split; [reflexivity|]. rewrite count_now_cons, H. reflexivity.
Qed.

Ltac efr := (apply EI_frame; reflexivity).
Ltac elog := (eapply EI_trans; [apply EI_log; reflexivity|]).

Lemma EI_poll_set e f s : EI (poll_set e f s) s.
Proof.
  unfold poll_set. destruct (alookup ent_eqb e (socks s)) as [old|].
  - destruct (fl_eqb old f); [apply EI_refl|]. cbn zeta. sproj.
    apply (EI_trans _ (log (EvCtl CMod e (map_events f)) s)); [|apply EI_log; reflexivity].
    destruct (alookup ent_eqb e (selected s)) as [sel|]; [destruct (fl_is_none _)|]; efr.
  - cbn zeta. apply (EI_trans _ (log (EvCtl CAdd e (map_events f)) s)); [efr | apply EI_log; reflexivity].
Qed.

Lemma EI_poll_remove e s : EI (poll_remove e s) s.
Proof.
  unfold poll_remove. destruct (alookup ent_eqb e (socks s)); [|apply EI_refl]. cbn zeta.
  apply (EI_trans _ (log (EvCtl CDel e 0) s)); [efr | apply EI_log; reflexivity].
Qed.

Lemma EI_delete_client i s : EI (delete_client i s) s.
Proof.
  unfold delete_client. cbn zeta.
  apply (EI_trans _ (poll_remove (Cl i) (set_closing (zremove i (closing s)) s))); [efr|].
  apply (EI_trans _ (set_closing (zremove i (closing s)) s)); [apply EI_poll_remove | efr].
Qed.

Lemma EI_new_client i s : EI (new_client i s) s.
Proof. unfold new_client. cbn zeta. eapply EI_trans; [apply EI_poll_set | efr]. Qed.
Lemma EI_upd_client i c s : EI (upd_client i c s) s. Proof. efr. Qed.
Lemma EI_closing_append i s : EI (closing_append i s) s.
Proof. unfold closing_append. destruct (zmem i (closing s)); [apply EI_refl | efr]. Qed.

Lemma EI_do_interrupt b s : EI (do_interrupt b s) s.
Proof.
  unfold do_interrupt. sproj. destruct (intr s) eqn:E.
  - apply (EI_trans _ (log (EvInterrupt b) s)); [apply EI_refl | apply EI_log; reflexivity].
  - split.
    + exists [EvInterrupt b]. split; reflexivity.
    + unfold IE. sproj. repeat split; auto; lia.
Qed.

Ltac estep :=
  first [ apply EI_refl
        | eapply EI_trans; [apply EI_log; reflexivity|]
        | eapply EI_trans; [apply EI_poll_set|]
        | eapply EI_trans; [apply EI_poll_remove|]
        | eapply EI_trans; [apply EI_upd_client|]
        | eapply EI_trans; [apply EI_delete_client|]
        | eapply EI_trans; [apply EI_new_client|]
        | eapply EI_trans; [apply EI_closing_append|]
        | eapply EI_trans; [apply EI_do_interrupt|]
        | efr ].
Ltac echain := repeat estep.

Lemma EI_exec_action a s : EI (exec_action a s) s.
Proof.
  destruct a; cbn [exec_action].
  - destruct (fresh (Tm i) s); [|echain]. cbn zeta.
    apply (EI_trans _ (log (EvCreated (Tm i) (clk s) iv) s)); [efr | apply EI_log; reflexivity].
  - destruct (alookup Z.eqb i (timers s)) as [[et iv]|]; [|echain]. cbn zeta.
    eapply EI_trans; [apply EI_log; reflexivity | efr].
  - destruct (fresh (Cl i) s); echain.
  - destruct (live_client i s) as [c|]; [destruct (c_cb c)|]; echain.
  - destruct (fresh (Li i) s); [|echain]. cbn zeta. eapply EI_trans; [apply EI_poll_set|].
    apply (EI_trans _ (log (EvCreated (Li i) 0 0) s)); [efr | apply EI_log; reflexivity].
  - destruct (zmem i (listeners s)); [|echain]. cbn zeta. eapply EI_trans; [apply EI_log; reflexivity|].
    apply (EI_trans _ (poll_remove (Li i) s)); [efr | apply EI_poll_remove].
  - destruct (fresh (Es i) s); [|echain]. cbn zeta. eapply EI_trans; [apply EI_poll_set|].
    apply (EI_trans _ (log (EvCreated (Es i) 0 0) s)); [efr | apply EI_log; reflexivity].
  - destruct (zmem i (estabs s)); [|echain]. cbn zeta. eapply EI_trans; [apply EI_log; reflexivity|].
    apply (EI_trans _ (poll_remove (Es i) s)); [efr | apply EI_poll_remove].
  - destruct (live_client i s) as [c|]; [|echain]. destruct (n <? 0); [echain|]. destruct (c_back c =? 0); [|echain].
    cbn zeta. destruct (failed_io _); [echain|]. destruct (n <=? _); echain.
  - destruct (live_client i s) as [c|]; [|echain]. cbn zeta. destruct (failed_io _); echain.
  - destruct (live_client i s) as [c|]; [|echain]. destruct (c_susp c); echain.
  - destruct (live_client i s) as [c|]; [|echain]. destruct (negb (c_susp c)); echain.
  - apply EI_do_interrupt.
  - efr.
Qed.

Lemma EI_exec_actions l s : EI (exec_actions l s) s.
Proof.
  unfold exec_actions. revert s. induction l as [|a l IH]; cbn [fold_left]; intros s; [apply EI_refl|].
  eapply EI_trans; [apply IH | apply EI_exec_action].
Qed.

Lemma EI_run_script e k s : EI (run_script e k s) s.
Proof.
  unfold run_script. destruct (pop_script e k (scripts s)) as [[x|] rest]; [|efr].
  eapply EI_trans; [apply EI_exec_actions | efr].
Qed.

Lemma EI_callback e k s : EI (callback e k s) s.
Proof. unfold callback. eapply EI_trans; [apply EI_run_script | apply EI_log; reflexivity]. Qed.

Lemma EI_timer_phase fuel now s : EI (timer_phase fuel now s) s.
Proof.
  revert s. induction fuel as [|f IH]; intros s; cbn [timer_phase]; [efr|].
  destruct (queue s) as [|[k v] q']; [apply EI_refl|]. destruct (k - now <=? 0); [|apply EI_refl].
  destruct v as [t|]; [destruct (alookup Z.eqb t (timers s)) as [[et iv]|]|]; (eapply EI_trans; [apply IH|]); try efr.
  eapply EI_trans; [apply EI_run_script|]. eapply EI_trans; [apply EI_log; reflexivity | efr].
Qed.

Lemma EI_closing_phase fuel s : EI (closing_phase fuel s) s.
Proof.
  revert s. induction fuel as [|f IH]; intros s; cbn [closing_phase]; [efr|].
  destruct (closing s) as [|i r]; [apply EI_refl|]. sproj.
  destruct (alookup Z.eqb i (clients s)) as [c|]; [destruct (c_cb c); [|destruct (c_rm c)]|]; (eapply EI_trans; [apply IH|]).
  - eapply EI_trans; [apply EI_callback | efr].
  - eapply EI_trans; [apply EI_delete_client | efr].
  - eapply EI_trans; [apply EI_log; reflexivity|]. eapply EI_trans; [apply EI_delete_client | efr].
  - efr.
Qed.

Lemma EI_introduce e k i acc s : EI (introduce e k i acc s) s.
Proof.
  unfold introduce. cbn zeta.
  set (s1 := new_client i (log (EvCreated (Cl i) 0 0) s)).
  assert (EI s1 s) as H1 by (subst s1; eapply EI_trans; [apply EI_new_client | apply EI_log; reflexivity]).
  set (s2 := log (EvIntroRet i acc) (run_script e (SIn k) (log (EvIntro e k i (clk s1)) s1))).
  assert (EI s2 s) as H2.
  { subst s2. eapply EI_trans; [apply EI_log; reflexivity|]. eapply EI_trans; [apply EI_run_script|].
    eapply EI_trans; [apply EI_log; reflexivity | exact H1]. }
  destruct acc; [destruct (alookup Z.eqb i (clients s2)) as [c|]; [destruct (c_rm c)|]|].
  - eapply EI_trans; [apply EI_delete_client | exact H2].
  - eapply EI_trans; [apply EI_upd_client | exact H2].
  - exact H2.
  - eapply EI_trans; [apply EI_delete_client | exact H2].
Qed.

Lemma EI_dispatch_write i ar s : EI (dispatch_write i ar s) s.
Proof.
  unfold dispatch_write. destruct (alookup Z.eqb i (clients s)) as [c|]; [|apply EI_refl].
  destruct (0 <? c_back c); cbn zeta.
  - destruct (failed_io _).
    + eapply EI_trans; [apply EI_callback|]. echain.
    + destruct (_ =? 0).
      * eapply EI_trans; [apply EI_callback|]. echain.
      * destruct ar; [eapply EI_trans; [apply EI_callback|]|]; echain.
  - eapply EI_trans; [apply EI_callback|]. echain.
Qed.

Lemma EI_dispatch e f s : EI (dispatch e f s) s.
Proof.
  destruct e as [i|i|i|i]; cbn [dispatch]; [apply EI_refl | | |].
  - destruct (fW f); [apply EI_dispatch_write|]. destruct (fR f); [apply EI_callback | apply EI_refl].
  - destruct (fA f); [|apply EI_refl]. cbn zeta.
    destruct (if next_accept s then peek_new (Li i) KAccepted (drop_accept s) else None) as [[n acc]|].
    + eapply EI_trans; [apply EI_introduce|]. eapply EI_trans; [apply EI_log; reflexivity | efr].
    + eapply EI_trans; [apply EI_log; reflexivity | efr].
  - destruct (fC f); [|apply EI_refl]. cbn zeta.
    assert (EI (drop_conn (poll_remove (Es i) s)) s) as H1 by (eapply EI_trans; [|apply (EI_poll_remove (Es i) s)]; efr).
    destruct (if next_conn (poll_remove (Es i) s) =? 0 then peek_new (Es i) KConnected (drop_conn (poll_remove (Es i) s)) else None) as [[n acc]|].
    + eapply EI_trans; [apply EI_introduce|]. eapply EI_trans; [apply EI_log; reflexivity | exact H1].
    + eapply EI_trans; [apply EI_callback|]. eapply EI_trans; [apply EI_log; reflexivity | exact H1].
Qed.

Lemma EI_absorb r s : EI (absorb r s) s.
Proof.
  revert s. induction r as [|[e n] r IH]; intros s; cbn [absorb]; [apply EI_refl|].
  destruct (alookup ent_eqb e (socks s)); [|apply IH]. eapply EI_trans; [apply IH | efr].
Qed.

(* the pending interrupt *)
Definition IP (s : state) : Prop := intr s = true /\ 0 < evcount s.
Lemma IP_IE s' s : IE s' s -> IP s -> IP s'.
Proof. intros (A & B & C) [H1 H2]. split; [auto | lia]. Qed.
