(* Round 4: the liveness halves of "every ready registered socket is eventually dispatched" and of
   "interrupt() makes the current or next run() return", for runs of the model that are not cut off by fuel
   (stuck = false; ServerLoopTerm shows that a phase is only ever cut off by too little fuel, and
   run_loop_enough_fuel below that enough fuel exists).

   EvNow is logged once per iteration of the loop and by nothing else, so [count_now] of a piece of the log is
   the number of iterations it spans. *)
From Coq Require Import ZArith List Bool Lia.
From ServerLoop Require Import ServerLoopSpec ServerLoopModel ServerLoopBase ServerLoopInv ServerLoopCb ServerLoopBuf
  ServerLoopCplI ServerLoopDerived ServerLoopTerm ServerLoopLiveBase ServerLoopKeep.
Import ListNotations.
Local Open Scope Z_scope.

(* ---------- one iteration of run_loop, named ------------------------------------------------------------------------- *)
Definition head_state (f : nat) (s : state) : state :=
  closing_phase f (timer_phase f (clk s) (log (EvSel (sel_view (selected s))) (log (EvNow (clk s)) s))).
Definition tmo_of (now : Z) (s1 : state) : Z := match queue s1 with (k, _) :: _ => k - now | [] => 0 end.
Definition cont (f : nat) (items : list epitem) (s2 : state) (evt : option (ent * fl)) : state :=
  match evt with
  | Some (e, fl) =>
      if fl_is_none fl then (if intr s2 then log EvRunRet (set_intr false s2) else run_loop f items s2)
      else run_loop f items (dispatch e fl s2)
  | None => if intr s2 then log EvRunRet (set_intr false s2) else run_loop f items s2
  end.

Lemma run_loop_S f items s :
  run_loop (S f) items s =
  if stuck (head_state f s) then head_state f s
  else cont f (snd (poll (tmo_of (clk s) (head_state f s)) items (head_state f s)))
              (fst (fst (poll (tmo_of (clk s) (head_state f s)) items (head_state f s))))
              (snd (fst (poll (tmo_of (clk s) (head_state f s)) items (head_state f s)))).
Proof.
  cbn [run_loop]. cbn zeta. fold (head_state f s). destruct (stuck (head_state f s)); [reflexivity|].
  fold (tmo_of (clk s) (head_state f s)).
  destruct (poll (tmo_of (clk s) (head_state f s)) items (head_state f s)) as [[s2 evt] items2]. reflexivity.
Qed.

(* ---------- position in the buffer -------------------------------------------------------------------------------------- *)
Fixpoint pos (e : ent) (l : list ent) : nat :=
  match l with [] => O | x :: r => if ent_eqb x e then O else S (pos e r) end.

Lemma sublist_In {A} (l1 l2 : list A) x : sublist l1 l2 -> In x l1 -> In x l2.
Proof. induction 1 as [|y l1 l2 H IH|y l1 l2 H IH]; cbn [In]; intuition. Qed.
Lemma sublist_length {A} (l1 l2 : list A) : sublist l1 l2 -> (length l1 <= length l2)%nat.
Proof. induction 1; cbn [length]; lia. Qed.
Lemma sublist_nil {A} (l : list A) : sublist l [] -> l = [].
Proof. intros H. inversion H. reflexivity. Qed.

Lemma pos_sublist e l' l : sublist l' l -> NoDup l -> In e l' -> (pos e l' <= pos e l)%nat.
Proof.
  induction 1 as [|x l1 l2 H IH|x l1 l2 H IH]; intros ND Hin; [contradiction| |].
  - inversion ND; subst. cbn [pos]. destruct (ent_eqb x e) eqn:E.
    + apply ent_eqb_eq in E; subst x. exfalso. apply H2. eapply sublist_In; eauto.
    + specialize (IH H3 Hin). lia.
  - inversion ND; subst. cbn [pos]. destruct (ent_eqb x e) eqn:E; [lia|].
    apply ent_eqb_neq in E. destruct Hin as [Hin|Hin]; [contradiction|]. specialize (IH H3 Hin). lia.
Qed.

Lemma pos_lt e l : In e l -> (pos e l < length l)%nat.
Proof.
  induction l as [|x l IH]; [contradiction|]. cbn [pos length In]. destruct (ent_eqb x e) eqn:E; [lia|].
  apply ent_eqb_neq in E. intros [H|H]; [contradiction | specialize (IH H); lia].
Qed.

(* ---------- "e has been served, or run() has returned, within n iterations" ------------------------------------------- *)
Definition disp_ev (e : ent) (x : ev) : bool :=
  match x with
  | EvCb e' _ _ => ent_eqb e' e
  | EvSend i _ _ true => ent_eqb (Cl i) e
  | EvAccept i _ => ent_eqb (Li i) e
  | EvSoErr i _ => ent_eqb (Es i) e
  | _ => false
  end.

Definition Reach (e : ent) (n : nat) (sF s : state) : Prop :=
  exists later x mid, trace sF = later ++ x :: mid ++ trace s /\ (count_now (x :: mid) <= n)%nat /\
    (disp_ev e x = true \/ (x = EvRunRet /\ later = [])).

Lemma Reach_ext e n k sF s' s : Reach e n sF s' -> ExtN k s' s -> Reach e (n + k) sF s.
Proof.
  intros (later & x & mid & A & B & C) (l & D & E). exists later, x, (mid ++ l). split; [|split; [|exact C]].
  - rewrite A, D, <- app_assoc. reflexivity.
  - rewrite app_comm_cons, count_now_app. lia.
Qed.
Lemma Reach_mono e n m sF s : Reach e n sF s -> (n <= m)%nat -> Reach e m sF s.
Proof. intros (later & x & mid & A & B & C) H. exists later, x, mid. split; [exact A|]. split; [lia | exact C]. Qed.

Definition Ext (s' s : state) : Prop := exists l, trace s' = l ++ trace s.
Lemma Ext_refl s : Ext s s. Proof. exists []. reflexivity. Qed.
Lemma Ext_trans s1 s2 s3 : Ext s1 s2 -> Ext s2 s3 -> Ext s1 s3.
Proof. intros [l1 A] [l2 B]. exists (l1 ++ l2). rewrite A, B, app_assoc. reflexivity. Qed.
Lemma ExtN_Ext k s' s : ExtN k s' s -> Ext s' s.
Proof. intros [l [A _]]. exists l. exact A. Qed.
Lemma EI_Ext s' s : EI s' s -> Ext s' s.
Proof. intros [A _]. eapply ExtN_Ext; eauto. Qed.

(* a served event stays in the log when the run goes on *)
Definition Served (e : ent) (n : nat) (s' s : state) : Prop :=
  exists l1 x l2, trace s' = l1 ++ x :: l2 ++ trace s /\ disp_ev e x = true /\ (count_now (x :: l2) <= n)%nat.

Lemma Served_Reach e n sF s' s : Ext sF s' -> Served e n s' s -> Reach e n sF s.
Proof.
  intros [l A] (l1 & x & l2 & B & C & D). exists (l ++ l1), x, l2. split; [|split; [exact D | left; exact C]].
  rewrite A, B, <- app_assoc. reflexivity.
Qed.

(* ---------- the epoll_wait and the poll only append to the log; the interrupt state only goes up before the counter is consumed *)
Lemma EI_epoll_wait t items s : EI (fst (epoll_wait t items s)) s.
Proof.
  unfold epoll_wait. cbn zeta. destruct items as [|it rest]; cbn [fst].
  - eapply EI_trans; [apply EI_do_interrupt|]. eapply EI_trans; [apply EI_log; reflexivity | apply EI_log; reflexivity].
  - eapply EI_trans; [apply EI_absorb|].
    apply (EI_trans _ (log (EvItem false) (log (EvWait t) s))); [efr|].
    eapply EI_trans; [apply EI_log; reflexivity | apply EI_log; reflexivity].
Qed.

Lemma poll_Ext t items s : Ext (fst (fst (poll t items s))) s.
Proof.
  unfold poll, pop_selected. destruct (selected s) as [|x r].
  - pose proof (EI_epoll_wait t items s) as H. destruct (epoll_wait t items s) as [s1 items1]. cbn [fst] in H.
    apply EI_Ext in H. destruct (0 <? evcount s1); cbn [fst]; [exact H|]. destruct (selected s1); exact H.
  - cbn [fst]. exists []. reflexivity.
Qed.

Lemma run_loop_Ext fuel items s : Ext (run_loop fuel items s) s.
Proof.
  revert items s. induction fuel as [|f IH]; intros items s; [exists []; reflexivity|].
  rewrite run_loop_S.
  assert (Ext (head_state f s) s) as H1.
  { unfold head_state. eapply Ext_trans; [apply EI_Ext; apply EI_closing_phase|].
    eapply Ext_trans; [apply EI_Ext; apply EI_timer_phase|]. exists [EvSel (sel_view (selected s)); EvNow (clk s)]. reflexivity. }
  destruct (stuck (head_state f s)); [exact H1|].
  pose proof (poll_Ext (tmo_of (clk s) (head_state f s)) items (head_state f s)) as H2.
  destruct (poll (tmo_of (clk s) (head_state f s)) items (head_state f s)) as [[s2 evt] items2]. cbn [fst snd] in *.
  assert (Ext s2 s) as H3 by (eapply Ext_trans; eauto).
  assert (Ext (log EvRunRet (set_intr false s2)) s) as H4 by (eapply Ext_trans; [|exact H3]; exists [EvRunRet]; reflexivity).
  unfold cont. destruct evt as [[e fl]|]; [destruct (fl_is_none fl)|]; try (destruct (intr s2); [exact H4 | eapply Ext_trans; [apply IH | exact H3]]).
  eapply Ext_trans; [apply IH|]. eapply Ext_trans; [apply EI_Ext; apply EI_dispatch | exact H3].
Qed.

(* ---------- the two inner phases of an iteration ------------------------------------------------------------------------ *)
Lemma head_basic f s : SInv s ->
  SInv (head_state f s) /\ Sub (head_state f s) s /\ ExtN 1 (head_state f s) s /\ IE (head_state f s) s.
Proof.
  intros HI. unfold head_state.
  set (s0 := log (EvSel (sel_view (selected s))) (log (EvNow (clk s)) s)).
  assert (EI (closing_phase f (timer_phase f (clk s) s0)) s0) as [A B]
    by (eapply EI_trans; [apply EI_closing_phase | apply EI_timer_phase]).
  split; [apply SInv_closing_phase; apply SInv_timer_phase; apply SInv_log; apply SInv_log; exact HI|].
  split; [eapply Sub_trans; [apply Sub_closing_phase|]; eapply Sub_trans; [apply Sub_timer_phase | apply Sub_frame; reflexivity]|].
  split.
  - apply (ExtN_trans 0 1 _ s0 s A). exists [EvSel (sel_view (selected s)); EvNow (clk s)]. split; reflexivity.
  - eapply IE_trans; [exact B|]. unfold IE. subst s0. sproj. repeat split; auto; lia.
Qed.

Lemma head_keep e g fo f s : (forall x, fo = Some x -> fl_is_none x = false) ->
  SInv s -> CbEx None s -> KS e g fo s -> CbEx None (head_state f s) /\ KS e g fo (head_state f s).
Proof.
  intros Hfo HI HC H. unfold head_state.
  set (s0 := log (EvSel (sel_view (selected s))) (log (EvNow (clk s)) s)).
  assert (SInv s0) as HI0 by (apply SInv_log; apply SInv_log; exact HI).
  assert (CbEx None s0) as HC0 by (eapply CbEx_frame; [|exact HC]; reflexivity).
  assert (KS e g fo s0) as H0 by (eapply (KS_frame e g fo Hfo); [..|exact H]; reflexivity).
  assert (SInv (timer_phase f (clk s) s0)) as HI1 by (apply SInv_timer_phase; exact HI0).
  split.
  - apply CbEx_closing_phase; [exact HI1 | apply CbEx_timer_phase; assumption].
  - apply KS_closing_phase; [exact Hfo | exact HI1 | apply CbEx_timer_phase; assumption | apply KS_timer_phase; assumption].
Qed.

(* ---------- the dispatch of e logs an event of e ---------------------------------------------------------------------------- *)
Lemma served_intro e x s' s0 s : EI s' (log x s0) -> EI s0 s -> disp_ev e x = true -> is_now x = false -> Served e 0 s' s.
Proof.
  intros [[l1 [A A']] _] [[l2 [B B']] _] D N. exists l1, x, l2. split; [|split; [exact D|]].
  - rewrite A. sproj. rewrite B. reflexivity.
  - rewrite count_now_cons, N, B'. reflexivity.
Qed.

Lemma dispatch_serves e g f s : SInv s -> KReg e g s -> fl_is_none f = false ->
  (forall g', alookup ent_eqb e (socks s) = Some g' -> fl_sub f g' = true) -> Served e 0 (dispatch e f s) s.
Proof.
  intros HI [[g' [Hs _]] Hn] Hf Hsub. specialize (Hsub _ Hs). pose proof (si_socks _ HI _ _ Hs) as Hok.
  apply fl_sub_spec in Hsub. destruct Hsub as (SR & SW & SA & SC).
  assert (fR f = true \/ fW f = true \/ fA f = true \/ fC f = true) as Hbits.
  { unfold fl_is_none in Hf. apply negb_false_iff in Hf. repeat (apply orb_true_iff in Hf; destruct Hf as [Hf|Hf]); auto. }
  destruct e as [i|i|i|i]; cbn [sock_ok dispatch] in *; [contradiction | | |].
  - destruct Hok as (_ & HA & HC). cbn [nosusp] in Hn. destruct Hn as [c [Hc _]].
    destruct (fW f) eqn:EW.
    + unfold dispatch_write. rewrite Hc. destruct (0 <? c_back c); cbn zeta.
      * set (s1 := drop_send s). set (x := EvSend i (c_back c) (send_result (c_back c) (next_send (c_back c) s)) true).
        assert (EI s1 s) as E1 by (subst s1; efr).
        assert (disp_ev (Cl i) x = true) as Dx by (subst x; cbn; apply Z.eqb_refl).
        destruct (failed_io _).
        -- eapply served_intro; [|exact E1 | exact Dx | reflexivity].
           eapply EI_trans; [apply EI_callback|]. eapply EI_trans; [apply EI_poll_remove | apply EI_upd_client].
        -- destruct (_ =? 0).
           ++ eapply served_intro; [|exact E1 | exact Dx | reflexivity].
              eapply EI_trans; [apply EI_callback|]. eapply EI_trans; [apply EI_poll_set | apply EI_upd_client].
           ++ destruct (fR f).
              ** eapply served_intro; [|exact E1 | exact Dx | reflexivity]. eapply EI_trans; [apply EI_callback | apply EI_upd_client].
              ** eapply served_intro; [|exact E1 | exact Dx | reflexivity]. apply EI_upd_client.
      * unfold callback. eapply served_intro; [apply EI_run_script | apply EI_poll_set | cbn; apply Z.eqb_refl | reflexivity].
    + destruct (fR f) eqn:ER.
      * unfold callback. eapply served_intro; [apply EI_run_script | apply EI_refl | cbn; apply Z.eqb_refl | reflexivity].
      * exfalso. destruct Hbits as [H|[H|[H|H]]]; try discriminate; [specialize (SA H) | specialize (SC H)]; congruence.
  - destruct Hok as (_ & ->). cbn [fR fW fA fC fl_A] in *.
    assert (fA f = true) as EA by (destruct Hbits as [H|[H|[H|H]]]; auto; [specialize (SR H)|specialize (SW H)|specialize (SC H)]; discriminate).
    rewrite EA. cbn zeta.
    destruct (if next_accept s then peek_new (Li i) KAccepted (drop_accept s) else None) as [[n acc]|].
    + eapply served_intro; [apply EI_introduce | apply (EI_frame (drop_accept s) s); reflexivity | cbn; apply Z.eqb_refl | reflexivity].
    + eapply served_intro; [apply EI_refl | apply (EI_frame (drop_accept s) s); reflexivity | cbn; apply Z.eqb_refl | reflexivity].
  - destruct Hok as (_ & ->). cbn [fR fW fA fC fl_C] in *.
    assert (fC f = true) as EC by (destruct Hbits as [H|[H|[H|H]]]; auto; [specialize (SR H)|specialize (SW H)|specialize (SA H)]; discriminate).
    rewrite EC. cbn zeta.
    assert (EI (drop_conn (poll_remove (Es i) s)) s) as H1 by (eapply EI_trans; [|apply (EI_poll_remove (Es i) s)]; efr).
    destruct (if next_conn (poll_remove (Es i) s) =? 0 then peek_new (Es i) KConnected (drop_conn (poll_remove (Es i) s)) else None) as [[n acc]|].
    + eapply served_intro; [apply EI_introduce | exact H1 | cbn; apply Z.eqb_refl | reflexivity].
    + eapply served_intro; [apply EI_callback | exact H1 | cbn; apply Z.eqb_refl | reflexivity].
Qed.

Lemma ret_Reach e s2 : Reach e 0 (log EvRunRet (set_intr false s2)) s2.
Proof. exists [], EvRunRet, []. split; [reflexivity|]. split; [cbn; lia | right; auto]. Qed.

(* ---------- the buffer is served head first ---------------------------------------------------------------------------------- *)
Section Drain.
  Variables (e : ent) (g f0 : fl).
  Hypothesis Hf0 : fl_is_none f0 = false.

  Definition DrainAt (fuel : nat) : Prop :=
    forall items s, SInv s -> CbEx None s -> KS e g (Some f0) s -> stuck (run_loop fuel items s) = false ->
      Reach e (S (pos e (skeys s))) (run_loop fuel items s) s.

  Lemma Hfo0 : forall x, Some f0 = Some x -> fl_is_none x = false.
  Proof. intros x E. inversion E; subst. exact Hf0. Qed.

  Lemma KBuf_In s : KS e g (Some f0) s -> In e (skeys s).
  Proof. intros [[_ H] _]. cbn [KBuf] in H. unfold skeys. eapply alookup_Some_key; [apply ent_eqb_eq | eauto]. Qed.

  (* after Poll::poll has popped the head of a buffer that holds e *)
  Lemma served_step fuel items sa e' f' r :
    DrainAt fuel -> SInv sa -> CbEx None sa -> KS e g (Some f0) sa -> selected sa = (e', f') :: r ->
    stuck (cont fuel items (set_selected r sa) (Some (e', f'))) = false ->
    Reach e (pos e (skeys sa)) (cont fuel items (set_selected r sa) (Some (e', f'))) sa.
  Proof.
    intros IH HI HC H Esel Hst.
    set (s2 := set_selected r sa) in *.
    assert (SInv s2) as HI2.
    { pose proof (SInv_pop_selected sa HI) as P. unfold pop_selected in P. rewrite Esel in P. exact P. }
    assert (CbEx None s2) as HC2 by (eapply CbEx_frame; [|exact HC]; reflexivity).
    assert (ExtN 0 s2 sa) as X2 by (exists []; split; reflexivity).
    unfold skeys. rewrite Esel. cbn [map fst pos].
    pose proof H as [[HR HB] HS]. cbn [KBuf] in HB. rewrite Esel in HB. cbn [alookup] in HB.
    destruct (ent_eqb e' e) eqn:Ee.
    - (* the head is e *)
      apply ent_eqb_eq in Ee; subst e'. inversion HB; subst f'. cbn [cont] in *. rewrite Hf0 in *.
      assert (KReg e g s2) as HR2 by exact HR.
      assert (Served e 0 (dispatch e f0 s2) s2) as Sv.
      { apply (dispatch_serves e g f0 s2 HI2 HR2 Hf0). intros g' Hg'.
        destruct (si_sel _ HI e f0) as [g2 [A B]]; [rewrite Esel; cbn [alookup]; rewrite ent_eqb_refl; reflexivity|].
        assert (socks s2 = socks sa) as Es by reflexivity. rewrite Es in Hg'. congruence. }
      eapply Reach_mono; [|apply Nat.le_refl].
      apply (Reach_ext e 0 0 _ s2 sa); [|exact X2].
      eapply Served_Reach; [apply run_loop_Ext | exact Sv].
    - (* the head is another socket *)
      assert (e' <> e) as Ne by (apply ent_eqb_neq; exact Ee).
      assert (KS e g (Some f0) s2) as H2 by (split; [split; [exact HR | exact HB] | exact HS]).
      assert (skeys s2 = map fst r) as Ek by reflexivity.
      cbn [cont] in *. destruct (fl_is_none f') eqn:En.
      + destruct (intr s2) eqn:Ei.
        * eapply Reach_mono; [apply (Reach_ext e 0 0 _ s2 sa); [apply ret_Reach | exact X2] | lia].
        * pose proof (IH items s2 HI2 HC2 H2 Hst) as R. rewrite Ek in R.
          apply (Reach_ext e _ 0 _ s2 sa) in R; [|exact X2]. eapply Reach_mono; [exact R | lia].
      + set (s3 := dispatch e' f' s2) in *.
        assert (SInv s3) as HI3 by (apply SInv_dispatch; exact HI2).
        assert (CbEx None s3) as HC3 by (apply CbEx_dispatch; assumption).
        assert (KS e g (Some f0) s3) as H3 by (apply KS_dispatch; [apply Hfo0 | exact HI2 | exact Ne | exact H2]).
        pose proof (IH items s3 HI3 HC3 H3 Hst) as R.
        assert (pos e (skeys s3) <= pos e (map fst r))%nat as Hp.
        { rewrite <- Ek. apply pos_sublist; [apply Sub_dispatch | apply (si_selnd _ HI2) | apply KBuf_In; exact H3]. }
        destruct (EI_dispatch e' f' s2) as [X3 _].
        apply (Reach_ext e _ 0 _ s3 s2) in R; [|exact X3]. apply (Reach_ext e _ 0 _ s2 sa) in R; [|exact X2].
        eapply Reach_mono; [exact R | lia].
  Qed.

  Lemma drain fuel : DrainAt fuel.
  Proof.
    induction fuel as [|f IH]; intros items s HI HC H Hst; [cbn in Hst; discriminate|].
    rewrite run_loop_S in *.
    destruct (head_basic f s HI) as (HI1 & Sb1 & X1 & _).
    destruct (head_keep e g (Some f0) f s Hfo0 HI HC H) as [HC1 H1].
    set (s1 := head_state f s) in *.
    destruct (stuck s1) eqn:Est; [congruence|].
    pose proof (KBuf_In s1 H1) as Hin1.
    destruct (selected s1) as [|[e' f'] r] eqn:Esel; [unfold skeys in Hin1; rewrite Esel in Hin1; contradiction|].
    rewrite (buffered_head_is_delivered_partial _ items e' f' r s1 Esel) in *. cbn [fst snd] in *.
    pose proof (served_step f items s1 e' f' r IH HI1 HC1 H1 Esel Hst) as R.
    apply (Reach_ext e _ 1 _ s1 s) in R; [|exact X1].
    eapply Reach_mono; [exact R|].
    assert (pos e (skeys s1) <= pos e (skeys s))%nat by (apply pos_sublist; [exact Sb1 | apply (si_selnd _ HI) | exact Hin1]).
    lia.
  Qed.
End Drain.

(* ---------- fairness of the simulated kernel and the full statement ------------------------------------------------------------ *)
Definition bools := [true; false].
Definition all_fl : list fl :=
  flat_map (fun a => flat_map (fun b => flat_map (fun c => map (fun d => mkFl a b c d) bools) bools) bools) bools.
Lemma In_all_fl x : In x all_fl.
Proof. destruct x as [a b c d]. destruct a, b, c, d; cbn; tauto. Qed.

(* the reported native bits mean readiness for the interest g and for every interest that contains g *)
Definition ready_for (n : nbits) (g : fl) : bool :=
  forallb (fun g' => implb (fl_sub g g') (negb (fl_is_none (unmap_events n g')))) all_fl.
Lemma ready_for_spec n g g' : ready_for n g = true -> fl_sub g g' = true -> fl_is_none (unmap_events n g') = false.
Proof.
  unfold ready_for. rewrite forallb_forall. intros H S. specialize (H g' (In_all_fl g')). rewrite S in H.
  cbn [implb] in H. apply negb_true_iff in H. exact H.
Qed.

(* what the level-triggered epoll owes a ready registered socket: the item reports it, with bits that mean readiness *)
Definition reports (it : epitem) (e : ent) (g : fl) : Prop :=
  In e (map fst (ep_ready it)) /\ forall n, In (e, n) (ep_ready it) -> ready_for n g = true.

Lemma absorb_scripts r s : scripts (absorb r s) = scripts s.
Proof.
  revert s. induction r as [|[e n] r IH]; intros s; cbn [absorb]; [reflexivity|].
  destruct (alookup ent_eqb e (socks s)); rewrite IH; reflexivity.
Qed.

Lemma absorb_length r s : (length (selected (absorb r s)) <= length (selected s) + length r)%nat.
Proof.
  revert s. induction r as [|[e n] r IH]; intros s; cbn [absorb length]; [lia|].
  destruct (alookup ent_eqb e (socks s)) as [ev|].
  - specialize (IH (set_selected (aset ent_eqb e (unmap_events n ev) (selected s)) s)). sproj.
    assert (length (aset ent_eqb e (unmap_events n ev) (selected s)) <= S (length (selected s)))%nat as L.
    { clear. induction (selected s) as [|[k v] l IHl]; cbn [aset length]; [lia|]. destruct (ent_eqb k e); cbn [length]; lia. }
    lia.
  - specialize (IH s). lia.
Qed.

Lemma absorb_keep e g r s : KS e g None s -> In e (map fst r) -> (forall n, In (e, n) r -> ready_for n g = true) ->
  exists f0, fl_is_none f0 = false /\ KS e g (Some f0) (absorb r s).
Proof.
  intros [[[[g' [Hs Hg]] Hn] _] Hsc] Hin Hr.
  destruct (reported_socket_is_buffered_partial e g' r s Hs Hin) as [n [A B]].
  exists (unmap_events n g'). split; [eapply ready_for_spec; eauto|].
  split; [split; [split|]|].
  - exists g'. rewrite absorb_socks. auto.
  - eapply nosusp_frame; [apply absorb_clients | exact Hn].
  - exact B.
  - rewrite absorb_scripts. exact Hsc.
Qed.

Lemma HfoN : forall x : fl, @None fl = Some x -> fl_is_none x = false.
Proof. discriminate. Qed.

(* the iteration whose Poll::poll finds the buffer empty and waits: e is reported, enters the buffer and is served at the
   latest when the events in front of it have been served *)
Lemma wait_step e g f it rest s1 t :
  SInv s1 -> CbEx None s1 -> KS e g None s1 -> selected s1 = [] -> reports it e g ->
  stuck (cont f (snd (poll t (it :: rest) s1)) (fst (fst (poll t (it :: rest) s1))) (snd (fst (poll t (it :: rest) s1)))) = false ->
  Reach e (length (ep_ready it))
        (cont f (snd (poll t (it :: rest) s1)) (fst (fst (poll t (it :: rest) s1))) (snd (fst (poll t (it :: rest) s1)))) s1.
Proof.
  intros HI1 HC1 H1 Esel1 [Rin Rr] Hst.
  unfold poll in *. rewrite Esel1 in *. unfold epoll_wait in *. cbn zeta in *.
  set (sw := set_clk (clk (log (EvWait t) s1) + ep_dt it) (log (EvItem false) (log (EvWait t) s1))) in *.
  set (sa := absorb (ep_ready it) sw) in *.
  assert (SInv sa) as HIa by (apply SInv_absorb; apply SInv_set_clk; apply SInv_log; apply SInv_log; exact HI1).
  assert (CbEx None sa) as HCa by (eapply CbEx_frame; [apply absorb_clients | eapply CbEx_frame; [|exact HC1]; reflexivity]).
  assert (KS e g None sw) as Hw by (eapply (KS_frame e g None HfoN); [..|exact H1]; reflexivity).
  destruct (absorb_keep e g (ep_ready it) sw Hw Rin Rr) as [f0 [Hf0 Ha]]. fold sa in Ha.
  assert (ExtN 0 sa s1) as Xa.
  { destruct (EI_absorb (ep_ready it) sw) as [Xa _]. apply (ExtN_trans 0 0 _ sw s1 Xa).
    exists [EvItem false; EvWait t]. split; reflexivity. }
  pose proof (KBuf_In e g f0 sa Ha) as Hina.
  assert (length (selected sa) <= length (ep_ready it))%nat as Hlen.
  { pose proof (absorb_length (ep_ready it) sw) as L. fold sa in L. subst sw. sproj. rewrite Esel1 in L. cbn [length] in L. lia. }
  pose proof (pos_lt e (skeys sa) Hina) as Hpos. unfold skeys in Hpos at 2. rewrite map_length in Hpos.
  destruct (0 <? evcount sa) eqn:Ev; cbn [fst snd] in *.
  - (* a pending event-descriptor count: the wake-up is consumed, the buffered events stay *)
    set (sb := set_evcount 0 sa) in *. cbn [cont] in *.
    assert (ExtN 0 sb sa) as Xb by (exists []; split; reflexivity).
    destruct (intr sb) eqn:Ei.
    + pose proof (ret_Reach e sb) as R.
      apply (Reach_ext e _ 0 _ sb sa) in R; [|exact Xb]. apply (Reach_ext e _ 0 _ sa s1) in R; [|exact Xa].
      eapply Reach_mono; [exact R | lia].
    + assert (SInv sb) as HIb by (subst sb; destruct HIa; constructor; sproj; auto; lia).
      assert (CbEx None sb) as HCb by (eapply CbEx_frame; [|exact HCa]; reflexivity).
      assert (KS e g (Some f0) sb) as Hb by (eapply (KS_frame e g (Some f0) (Hfo0 f0 Hf0)); [..|exact Ha]; reflexivity).
      pose proof (drain e g f0 Hf0 f rest sb HIb HCb Hb Hst) as R.
      assert (skeys sb = skeys sa) as Ek by reflexivity. rewrite Ek in R.
      apply (Reach_ext e _ 0 _ sb sa) in R; [|exact Xb]. apply (Reach_ext e _ 0 _ sa s1) in R; [|exact Xa].
      eapply Reach_mono; [exact R | lia].
  - destruct (selected sa) as [|[e' f'] r] eqn:Es; [unfold skeys in Hina; rewrite Es in Hina; contradiction|].
    unfold pop_selected in *. rewrite Es in *. cbn [fst snd] in *.
    pose proof (served_step e g f0 Hf0 f rest sa e' f' r (drain e g f0 Hf0 f) HIa HCa Ha Es Hst) as R.
    apply (Reach_ext e _ 0 _ sa s1) in R; [|exact Xa].
    eapply Reach_mono; [exact R | lia].
Qed.

(* from the head of an iteration with an empty buffer *)
Theorem eventual_dispatch_l e g fuel it rest s :
  SInv s -> CbEx None s -> KS e g None s -> selected s = [] -> reports it e g ->
  stuck (run_loop fuel (it :: rest) s) = false ->
  Reach e (S (length (ep_ready it))) (run_loop fuel (it :: rest) s) s.
Proof.
  intros HI HC H Esel Rp Hst. destruct fuel as [|f]; [cbn in Hst; discriminate|].
  rewrite run_loop_S in *.
  destruct (head_basic f s HI) as (HI1 & Sb1 & X1 & _).
  destruct (head_keep e g None f s HfoN HI HC H) as [HC1 H1].
  set (s1 := head_state f s) in *.
  destruct (stuck s1) eqn:Est; [congruence|].
  assert (selected s1 = []) as Esel1.
  { unfold Sub, skeys in Sb1. rewrite Esel in Sb1. cbn [map] in Sb1. apply sublist_nil in Sb1. destruct (selected s1); [reflexivity | discriminate]. }
  pose proof (wait_step e g f it rest s1 (tmo_of (clk s) s1) HI1 HC1 H1 Esel1 Rp Hst) as R.
  apply (Reach_ext e _ 1 _ s1 s) in R; [|exact X1]. eapply Reach_mono; [exact R | lia].
Qed.

(* from the head of any iteration: the events already buffered are served first (one per iteration), then the loop waits *)
Theorem eventual_dispatch_any_l e g it rest fuel s :
  SInv s -> CbEx None s -> KS e g None s -> reports it e g ->
  stuck (run_loop fuel (it :: rest) s) = false ->
  Reach e (length (selected s) + S (length (ep_ready it))) (run_loop fuel (it :: rest) s) s.
Proof.
  revert s. induction fuel as [|f IH]; intros s HI HC H Rp Hst; [cbn in Hst; discriminate|].
  rewrite run_loop_S in *.
  destruct (head_basic f s HI) as (HI1 & Sb1 & X1 & _).
  destruct (head_keep e g None f s HfoN HI HC H) as [HC1 H1].
  set (s1 := head_state f s) in *.
  destruct (stuck s1) eqn:Est; [congruence|].
  assert (length (selected s1) <= length (selected s))%nat as Hlen.
  { apply sublist_length in Sb1. unfold skeys in Sb1. rewrite !map_length in Sb1. exact Sb1. }
  destruct (selected s1) as [|[e' f'] r] eqn:Esel.
  - pose proof (wait_step e g f it rest s1 (tmo_of (clk s) s1) HI1 HC1 H1 Esel Rp Hst) as R.
    apply (Reach_ext e _ 1 _ s1 s) in R; [|exact X1]. eapply Reach_mono; [exact R | lia].
  - rewrite (buffered_head_is_delivered_partial _ (it :: rest) e' f' r s1 Esel) in *. cbn [fst snd] in *.
    set (s2 := set_selected r s1) in *. cbn [length] in Hlen.
    assert (SInv s2) as HI2.
    { pose proof (SInv_pop_selected s1 HI1) as P. unfold pop_selected in P. rewrite Esel in P. exact P. }
    assert (CbEx None s2) as HC2 by (eapply CbEx_frame; [|exact HC1]; reflexivity).
    assert (KS e g None s2) as H2 by (destruct H1 as [[HR _] HS]; split; [split; [exact HR | exact I] | exact HS]).
    assert (ExtN 1 s2 s) as X2 by (apply (ExtN_trans 0 1 s2 s1 s); [exists []; split; reflexivity | exact X1]).
    cbn [cont] in *. destruct (fl_is_none f') eqn:En.
    + destruct (intr s2) eqn:Ei.
      * pose proof (ret_Reach e s2) as R. apply (Reach_ext e _ 1 _ s2 s) in R; [|exact X2]. eapply Reach_mono; [exact R | lia].
      * pose proof (IH s2 HI2 HC2 H2 Rp Hst) as R. apply (Reach_ext e _ 1 _ s2 s) in R; [|exact X2].
        eapply Reach_mono; [exact R|]. assert (length (selected s2) = length r) as El by reflexivity. lia.
    + destruct (ent_eqb e' e) eqn:Ee.
      * apply ent_eqb_eq in Ee; subst e'.
        assert (Served e 0 (dispatch e f' s2) s2) as Sv.
        { destruct H2 as [[HR _] _]. apply (dispatch_serves e g f' s2 HI2 HR En). intros g' Hg'.
          destruct (si_sel _ HI1 e f') as [g2 [A B]]; [rewrite Esel; cbn [alookup]; rewrite ent_eqb_refl; reflexivity|].
          assert (socks s2 = socks s1) as Es by reflexivity. rewrite Es in Hg'. congruence. }
        assert (Reach e 0 (run_loop f (it :: rest) (dispatch e f' s2)) s2) as R by (eapply Served_Reach; [apply run_loop_Ext | exact Sv]).
        apply (Reach_ext e _ 1 _ s2 s) in R; [|exact X2]. eapply Reach_mono; [exact R | lia].
      * assert (e' <> e) as Ne by (apply ent_eqb_neq; exact Ee).
        set (s3 := dispatch e' f' s2) in *.
        assert (SInv s3) as HI3 by (apply SInv_dispatch; exact HI2).
        assert (CbEx None s3) as HC3 by (apply CbEx_dispatch; assumption).
        assert (KS e g None s3) as H3 by (apply KS_dispatch; [apply HfoN | exact HI2 | exact Ne | exact H2]).
        assert (length (selected s3) <= length r)%nat as L3.
        { pose proof (Sub_dispatch e' f' s2) as Sb. apply sublist_length in Sb. unfold skeys in Sb. rewrite !map_length in Sb. exact Sb. }
        pose proof (IH s3 HI3 HC3 H3 Rp Hst) as R.
        destruct (EI_dispatch e' f' s2) as [X3 _].
        apply (Reach_ext e _ 0 _ s3 s2) in R; [|exact X3]. apply (Reach_ext e _ 1 _ s2 s) in R; [|exact X2].
        eapply Reach_mono; [exact R | lia].
Qed.

(* ---------- interrupt(): the liveness half ------------------------------------------------------------------------------------- *)
(* with an interrupt pending at the head of an iteration, run() returns after the buffered events have been served (one per
   iteration; Poll::poll hands them out before it looks at the event descriptor) and the wait that follows has returned at once *)
Theorem interrupt_returns_l fuel items s :
  SInv s -> IP s -> stuck (run_loop fuel items s) = false ->
  exists mid, trace (run_loop fuel items s) = EvRunRet :: mid ++ trace s /\ (count_now mid <= S (length (selected s)))%nat.
Proof.
  revert items s. induction fuel as [|f IH]; intros items s HI HP Hst; [cbn in Hst; discriminate|].
  rewrite run_loop_S in *.
  destruct (head_basic f s HI) as (HI1 & Sb1 & [l1 [A1 B1]] & IE1).
  pose proof (IP_IE _ _ IE1 HP) as HP1.
  set (s1 := head_state f s) in *.
  destruct (stuck s1) eqn:Est; [congruence|].
  assert (length (selected s1) <= length (selected s))%nat as Hlen.
  { apply sublist_length in Sb1. unfold skeys in Sb1. rewrite !map_length in Sb1. exact Sb1. }
  set (t := tmo_of (clk s) s1) in *.
  unfold poll in *. destruct (selected s1) as [|[e' f'] r] eqn:Esel.
  - pose proof (EI_epoll_wait t items s1) as [[la [Aa Ba]] IEa].
    destruct (epoll_wait t items s1) as [sa items1]. cbn [fst snd] in *.
    destruct (IP_IE _ _ IEa HP1) as [Hi Hev].
    replace (0 <? evcount sa) with true in * by (symmetry; apply Z.ltb_lt; exact Hev). cbn [fst snd cont] in *.
    assert (intr (set_evcount 0 sa) = true) as Hi' by exact Hi. rewrite Hi' in *.
    exists (la ++ l1). sproj. rewrite Aa, A1, <- app_assoc. split; [reflexivity|]. rewrite count_now_app. lia.
  - unfold pop_selected in *. rewrite Esel in *. cbn [fst snd cont] in *.
    set (s2 := set_selected r s1) in *.
    assert (SInv s2) as HI2.
    { pose proof (SInv_pop_selected s1 HI1) as P. unfold pop_selected in P. rewrite Esel in P. exact P. }
    assert (IP s2) as HP2 by exact HP1.
    destruct (fl_is_none f').
    + destruct HP2 as [Hi _]. rewrite Hi in *. exists l1. sproj. split; [subst s2; sproj; rewrite A1; reflexivity | lia].
    + set (s3 := dispatch e' f' s2) in *.
      assert (SInv s3) as HI3 by (apply SInv_dispatch; exact HI2).
      destruct (EI_dispatch e' f' s2) as [[l3 [A3 B3]] IE3]. fold s3 in A3, IE3.
      pose proof (IP_IE _ _ IE3 HP2) as HP3.
      destruct (IH items s3 HI3 HP3 Hst) as [mid3 [A B]].
      assert (length (selected s3) <= length r)%nat as Hl3.
      { pose proof (Sub_dispatch e' f' s2) as Sb. apply sublist_length in Sb. unfold skeys in Sb. rewrite !map_length in Sb. exact Sb. }
      exists (mid3 ++ l3 ++ l1). split.
      * rewrite A, A3. subst s2. sproj. rewrite A1, <- !app_assoc. reflexivity.
      * rewrite !count_now_app. cbn [length] in Hlen. lia.
Qed.

(* with an empty buffer the loop reaches its wait in the current iteration, the wait returns at once and run() returns: the log
   continues  EvNow, EvSel, [what the timer and closing phases do], EvWait t, EvItem (and EvInterrupt when the script of
   epoll results has run out), EvRunRet *)
Theorem interrupt_reaches_wait_l fuel items s :
  SInv s -> IP s -> selected s = [] -> stuck (run_loop fuel items s) = false ->
  exists t q l0, trace (run_loop fuel items s) = EvRunRet :: q ++ EvWait t :: l0 ++ trace s /\
                 forallb quiet q = true /\ count_now l0 = 1%nat.
Proof.
  intros HI HP Esel Hst. destruct fuel as [|f]; [cbn in Hst; discriminate|].
  rewrite run_loop_S in *.
  destruct (head_basic f s HI) as (HI1 & Sb1 & [l1 [A1 B1]] & IE1).
  pose proof (IP_IE _ _ IE1 HP) as HP1.
  set (s1 := head_state f s) in *.
  destruct (stuck s1) eqn:Est; [congruence|].
  assert (selected s1 = []) as Esel1.
  { unfold Sub, skeys in Sb1. rewrite Esel in Sb1. cbn [map] in Sb1. apply sublist_nil in Sb1. destruct (selected s1); [reflexivity | discriminate]. }
  set (t := tmo_of (clk s) s1) in *.
  unfold poll in *. rewrite Esel1 in *.
  pose proof (EI_epoll_wait t items s1) as [_ IEa].
  assert (exists q, trace (fst (epoll_wait t items s1)) = q ++ EvWait t :: trace s1 /\ forallb quiet q = true) as [q [Aq Bq]].
  { unfold epoll_wait. cbn zeta. destruct items as [|it rest]; cbn [fst].
    - unfold do_interrupt. sproj. destruct HP1 as [Hi _]. rewrite Hi. exists [EvInterrupt true; EvItem true]. split; reflexivity.
    - destruct (absorb_frame (ep_ready it) (set_clk (clk (log (EvWait t) s1) + ep_dt it) (log (EvItem false) (log (EvWait t) s1)))) as [F _].
      rewrite F. exists [EvItem false]. split; reflexivity. }
  destruct (epoll_wait t items s1) as [sa items1]. cbn [fst snd] in *.
  destruct (IP_IE _ _ IEa HP1) as [Hi Hev].
  replace (0 <? evcount sa) with true in * by (symmetry; apply Z.ltb_lt; exact Hev). cbn [fst snd cont] in *.
  assert (intr (set_evcount 0 sa) = true) as Hi' by exact Hi. rewrite Hi' in *.
  exists t, q, l1. sproj. rewrite Aq, A1. auto.
Qed.

(* Server::interrupt establishes the premise *)
Lemma interrupt_sets_pending b s : SInv s -> (intr s = true -> 0 < evcount s) -> IP (do_interrupt b s).
Proof.
  intros HI H. unfold do_interrupt, IP. sproj. destruct (intr s) eqn:E; sproj.
  - rewrite E. auto.
  - pose proof (si_evnn _ HI). split; [reflexivity | lia].
Qed.
