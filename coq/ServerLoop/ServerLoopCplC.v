(* The "failed read/write is followed by onClosed" monitor accepts every log the model can produce. *)
From Coq Require Import ZArith List Bool Lia.
From ServerLoop Require Import ServerLoopSpec ServerLoopModel ServerLoopBase ServerLoopInv ServerLoopCb.
Import ListNotations.
Local Open Scope Z_scope.

Ltac dmatch :=
  repeat match goal with
         | |- context [match ?x with _ => _ end] => destruct x eqn:?
         end.

(* zb j: remove() was called for client j while it was being announced (it is deleted when that callback returns) *)
Definition zb (j : Z) (cs : list (Z * client)) : bool :=
  match alookup Z.eqb j cs with Some c => c_rm c | None => false end.

(* the clients the monitor still expects an onClosed for are related by P to the closing set and to being removed *)
Definition CplCg (P : Z -> list Z -> bool -> Prop) (s : state) : Prop :=
  exists m, cmon_run (trace s) = Some m /\ c_must m = None /\ forall j, In j (c_owed m) -> P j (closing s) (zb j (clients s)).
Definition PIn (j : Z) (cl : list Z) (z : bool) : Prop := In j cl /\ z = false.            (* the coupling proper *)
Definition PEx (i j : Z) (cl : list Z) (z : bool) : Prop := j <> i -> In j cl /\ z = false.  (* ... except for client i *)
Definition PNot (i j : Z) (cl : list Z) (z : bool) : Prop := j <> i /\ In j cl /\ z = false.  (* ... and i is not owed *)
Notation CplC := (CplCg PIn).

(* all three only get easier when a client stops being "removed" *)
Definition antiz (P : Z -> list Z -> bool -> Prop) : Prop := forall j cl, P j cl true -> P j cl false.
Lemma antiz_PIn : antiz PIn. Proof. intros j cl [_ H]. discriminate. Qed.
Lemma antiz_PEx i : antiz (PEx i). Proof. intros j cl H N. destruct (H N) as [_ C]. discriminate. Qed.
Lemma antiz_PNot i : antiz (PNot i). Proof. intros j cl [_ [_ H]]. discriminate. Qed.

Definition cirr (e : ev) : bool :=
  match e with
  | EvRecv _ _ | EvSend _ _ _ _ | EvCb (Cl _) KClosed _ | EvCb _ KRead _ | EvRemoved (Cl _) | EvDeferred (Cl _) | EvIntroRet _ false
  | EvWait _ | EvRunRet | EvAccept _ _ | EvSoErr _ _ => false
  | _ => true
  end.

Lemma cmon_step_irr m e : c_must m = None -> cirr e = true -> cmon_step m e = Some m.
Proof.
  intros M I. unfold cmon_step. rewrite M.
  destruct e; cbn in *; try discriminate; try reflexivity.
  - destruct e; try reflexivity; destruct k; try reflexivity; discriminate.
  - destruct acc; [reflexivity | discriminate].
  - destruct e; try reflexivity; discriminate.
  - destruct e; try reflexivity; discriminate.
Qed.

Lemma CplC_frame P s s' : trace s' = trace s -> closing s' = closing s -> clients s' = clients s -> CplCg P s -> CplCg P s'.
Proof. intros E1 E2 E3 [m H]. exists m. rewrite E1, E2, E3. exact H. Qed.

(* the general form: the log is the same, what is owed is related by Q to the new state *)
Lemma CplC_change (P Q : Z -> list Z -> bool -> Prop) s s' :
  trace s' = trace s ->
  (forall j, P j (closing s) (zb j (clients s)) -> Q j (closing s') (zb j (clients s'))) ->
  CplCg P s -> CplCg Q s'.
Proof. intros E W [m [A [B C]]]. exists m. rewrite E. auto. Qed.

(* clients only stop being "removed" *)
Lemma CplC_zanti (P : Z -> list Z -> bool -> Prop) s s' :
  antiz P -> trace s' = trace s -> closing s' = closing s ->
  (forall j, zb j (clients s') = true -> zb j (clients s) = true) -> CplCg P s -> CplCg P s'.
Proof.
  intros HA E1 E2 Z. apply CplC_change; [exact E1|]. intros j. rewrite E2. specialize (Z j).
  destruct (zb j (clients s')); [rewrite Z by reflexivity; auto|].
  destruct (zb j (clients s)); [apply HA | auto].
Qed.

Lemma CplC_log P e s : cirr e = true -> CplCg P s -> CplCg P (log e s).
Proof.
  intros I [m [A [B C]]]. exists m. sproj. unfold cmon_run in *. cbn [mon_run]. rewrite A.
  split; [apply cmon_step_irr; assumption | auto].
Qed.

Ltac cframe := (eapply CplC_frame; [| | |eassumption]; reflexivity).
Lemma CplC_set_clk n v s : CplCg n s -> CplCg n (set_clk v s). Proof. intros; cframe. Qed.
Lemma CplC_set_queue n v s : CplCg n s -> CplCg n (set_queue v s). Proof. intros; cframe. Qed.
Lemma CplC_set_timers n v s : CplCg n s -> CplCg n (set_timers v s). Proof. intros; cframe. Qed.
Lemma CplC_set_listeners n v s : CplCg n s -> CplCg n (set_listeners v s). Proof. intros; cframe. Qed.
Lemma CplC_set_estabs n v s : CplCg n s -> CplCg n (set_estabs v s). Proof. intros; cframe. Qed.
Lemma CplC_set_socks n v s : CplCg n s -> CplCg n (set_socks v s). Proof. intros; cframe. Qed.
Lemma CplC_set_selected n v s : CplCg n s -> CplCg n (set_selected v s). Proof. intros; cframe. Qed.
Lemma CplC_set_intr n v s : CplCg n s -> CplCg n (set_intr v s). Proof. intros; cframe. Qed.
Lemma CplC_set_evcount n v s : CplCg n s -> CplCg n (set_evcount v s). Proof. intros; cframe. Qed.
Lemma CplC_set_used n v s : CplCg n s -> CplCg n (set_used v s). Proof. intros; cframe. Qed.
Lemma CplC_set_scripts n v s : CplCg n s -> CplCg n (set_scripts v s). Proof. intros; cframe. Qed.
Lemma CplC_set_sendq n v s : CplCg n s -> CplCg n (set_sendq v s). Proof. intros; cframe. Qed.
Lemma CplC_set_recvq n v s : CplCg n s -> CplCg n (set_recvq v s). Proof. intros; cframe. Qed.
Lemma CplC_set_acceptq n v s : CplCg n s -> CplCg n (set_acceptq v s). Proof. intros; cframe. Qed.
Lemma CplC_set_connq n v s : CplCg n s -> CplCg n (set_connq v s). Proof. intros; cframe. Qed.
Lemma CplC_set_stuck n v s : CplCg n s -> CplCg n (set_stuck v s). Proof. intros; cframe. Qed.
Lemma CplC_drop_send n s : CplCg n s -> CplCg n (drop_send s). Proof. intros; cframe. Qed.
Lemma CplC_drop_recv n s : CplCg n s -> CplCg n (drop_recv s). Proof. intros; cframe. Qed.
Lemma CplC_drop_accept n s : CplCg n s -> CplCg n (drop_accept s). Proof. intros; cframe. Qed.
Lemma CplC_drop_conn n s : CplCg n s -> CplCg n (drop_conn s). Proof. intros; cframe. Qed.

Create HintDb cplC.
#[export] Hint Resolve CplC_log CplC_set_clk CplC_set_queue CplC_set_timers CplC_set_listeners CplC_set_estabs
  CplC_set_socks CplC_set_selected CplC_set_intr CplC_set_evcount CplC_set_used CplC_set_scripts CplC_set_sendq CplC_set_recvq
  CplC_set_acceptq CplC_set_connq CplC_set_stuck CplC_drop_send CplC_drop_recv CplC_drop_accept CplC_drop_conn : cplC.
#[export] Hint Extern 1 (cirr _ = true) => reflexivity : cplC.

Ltac cauto_cpl := cbn zeta; dmatch; sproj; eauto 14 with cplC.

Lemma CplC_poll_set n e f s : CplCg n s -> CplCg n (poll_set e f s).
Proof. intros H. unfold poll_set. cauto_cpl. Qed.
Lemma CplC_poll_remove n e s : CplCg n s -> CplCg n (poll_remove e s).
Proof. intros H. unfold poll_remove. cauto_cpl. Qed.
#[export] Hint Resolve CplC_poll_set CplC_poll_remove : cplC.
Lemma zb_app j l i c : c_rm c = false -> zb j (l ++ [(i, c)]) = zb j l.
Proof.
  intros Hc. unfold zb. rewrite alookup_app. destruct (alookup Z.eqb j l); [reflexivity|].
  cbn [alookup]. destruct (i =? j); [exact Hc | reflexivity].
Qed.
Lemma zb_aset_eq i c l : zb i (aset Z.eqb i c l) = c_rm c.
Proof. unfold zb. rewrite alookup_aset_eq by apply zeq. reflexivity. Qed.
Lemma zb_aset_neq i j c l : j <> i -> zb j (aset Z.eqb i c l) = zb j l.
Proof. intros N. unfold zb. rewrite alookup_aset_neq by (try apply zeq; exact N). reflexivity. Qed.
Lemma zb_aremove_neq i j l : j <> i -> zb j (aremove Z.eqb i l) = zb j l.
Proof. intros N. unfold zb. rewrite alookup_aremove_neq by (try apply zeq; exact N). reflexivity. Qed.

Lemma CplC_new_client n i s : CplCg n s -> CplCg n (new_client i s).
Proof.
  intros H.
  assert (CplCg n (set_used (Cl i :: used s) (set_clients (clients s ++ [(i, mkCl false 0 false false)]) s))) as H1.
  { apply (CplC_change n n s); [reflexivity | | exact H]. sproj. intros j Hj. rewrite zb_app by reflexivity. exact Hj. }
  unfold new_client. cbn zeta. apply CplC_poll_set. exact H1.
Qed.

(* an update that does not turn the client into a "removed" one *)
Lemma CplC_upd_client n i c s :
  antiz n -> (c_rm c = true -> zb i (clients s) = true) -> CplCg n s -> CplCg n (upd_client i c s).
Proof.
  intros HA K H. eapply (CplC_zanti n s); [exact HA | reflexivity | reflexivity | | exact H].
  intros j. unfold upd_client. sproj. destruct (Z.eq_dec j i) as [->|N].
  - rewrite zb_aset_eq. exact K.
  - rewrite zb_aset_neq by exact N. auto.
Qed.
Lemma CplC_upd_client_false n i c s : antiz n -> c_rm c = false -> CplCg n s -> CplCg n (upd_client i c s).
Proof. intros HA K. apply CplC_upd_client; [exact HA | congruence]. Qed.
Lemma CplC_upd_client_copy n i c0 c s :
  antiz n -> alookup Z.eqb i (clients s) = Some c0 -> c_rm c = c_rm c0 -> CplCg n s -> CplCg n (upd_client i c s).
Proof. intros HA E K. apply CplC_upd_client; [exact HA|]. unfold zb. rewrite E. congruence. Qed.
Lemma CplC_do_interrupt n b s : CplCg n s -> CplCg n (do_interrupt b s).
Proof. intros H. unfold do_interrupt. cauto_cpl. Qed.
#[export] Hint Resolve CplC_new_client CplC_upd_client_false CplC_do_interrupt antiz_PIn antiz_PEx antiz_PNot : cplC.
#[export] Hint Extern 1 (c_rm _ = false) => reflexivity : cplC.

(* ---------- the closing set ---------------------------------------------------------------------------------- *)
Lemma CplC_weaken (P Q : Z -> list Z -> bool -> Prop) s :
  (forall j, P j (closing s) (zb j (clients s)) -> Q j (closing s) (zb j (clients s))) -> CplCg P s -> CplCg Q s.
Proof. intros W. apply CplC_change; [reflexivity | exact W]. Qed.

Lemma CplC_set_closing (P Q : Z -> list Z -> bool -> Prop) v s :
  (forall j z, P j (closing s) z -> Q j v z) -> CplCg P s -> CplCg Q (set_closing v s).
Proof. intros W. apply CplC_change; [reflexivity|]. intros j. apply W. Qed.

Lemma CplC_closing_append_mono i s : CplC s -> CplC (closing_append i s).
Proof.
  intros H. unfold closing_append. destruct (zmem i (closing s)); [exact H|].
  eapply CplC_set_closing; [|exact H]. unfold PIn. intros j z [Hj Hz]. split; [apply in_app_iff; left; exact Hj | exact Hz].
Qed.

Lemma CplC_closing_append_fix i s : zb i (clients s) = false -> CplCg (PEx i) s -> CplC (closing_append i s).
Proof.
  intros Hz H. unfold closing_append. destruct (zmem i (closing s)) eqn:E.
  - apply zmem_In in E. eapply CplC_weaken; [|exact H]. unfold PEx, PIn. intros j Hj.
    destruct (Z.eq_dec j i) as [->|N]; auto.
  - apply (CplC_change (PEx i) PIn s); [reflexivity | | exact H]. unfold PEx, PIn. sproj. intros j Hj. rewrite in_app_iff.
    destruct (Z.eq_dec j i) as [->|N]; [split; [right; left; reflexivity | exact Hz] | destruct (Hj N); auto].
Qed.

Lemma CplC_delete_client (P Q : Z -> list Z -> bool -> Prop) i s :
  (forall j z z', (j <> i -> z' = z) -> P j (closing s) z -> Q j (zremove i (closing s)) z') -> CplCg P s -> CplCg Q (delete_client i s).
Proof.
  intros W H. unfold delete_client. cbn zeta.
  set (R := fun (j : Z) (cl : list Z) (z : bool) => forall z', (j <> i -> z' = z) -> Q j cl z').
  set (s2 := poll_remove (Cl i) (set_closing (zremove i (closing s)) s)).
  assert (CplCg R s2) as H2.
  { subst s2. apply CplC_poll_remove. apply (CplC_set_closing P R); [|exact H].
    intros j z Hp z' Hz. eapply W; eauto. }
  apply (CplC_change R Q s2); [reflexivity | | exact H2].
  intros j Hr. sproj. apply Hr. intros N. apply zb_aremove_neq; exact N.
Qed.

Lemma CplC_delete_client_ex i s : CplC s -> CplCg (PEx i) (delete_client i s).
Proof.
  apply CplC_delete_client. unfold PIn, PEx. intros j z z' Hz [Hj Hz0] N. rewrite (Hz N). split; [apply In_zremove_neq; assumption | exact Hz0].
Qed.
Lemma CplC_delete_client_ex' i s : CplCg (PEx i) s -> CplCg (PEx i) (delete_client i s).
Proof.
  apply CplC_delete_client. unfold PEx. intros j z z' Hz Hj N. rewrite (Hz N). destruct (Hj N) as [A B]. split; [apply In_zremove_neq; auto | exact B].
Qed.
Lemma CplC_delete_client_not i s : CplCg (PNot i) s -> CplC (delete_client i s).
Proof.
  apply CplC_delete_client. unfold PIn, PNot. intros j z z' Hz [N [Hj Hz0]]. rewrite (Hz N). split; [apply In_zremove_neq; assumption | exact Hz0].
Qed.

(* ---------- the events the monitor looks at ---------------------------------------------------------------------- *)
Lemma In_zremove_all j i l : In j (zremove_all i l) <-> j <> i /\ In j l.
Proof.
  unfold zremove_all. rewrite filter_In, negb_true_iff, Z.eqb_neq. tauto.
Qed.

(* onClosed of client i / its removal settles what was owed for i *)
Lemma CplC_settle e i s :
  (e = EvRemoved (Cl i) \/ e = EvDeferred (Cl i) \/ exists c, e = EvCb (Cl i) KClosed c) ->
  CplCg (PEx i) s -> CplC (log e s).
Proof.
  intros He [m [A [B C]]]. exists (mkCm (zremove_all i (c_owed m)) None). sproj. unfold cmon_run in *. cbn [mon_run]. rewrite A.
  split.
  - unfold cmon_step. rewrite B. destruct He as [->|[->|[c ->]]]; reflexivity.
  - split; [reflexivity|]. cbn [c_owed]. intros j Hj. apply In_zremove_all in Hj. destruct Hj as [N Hj]. apply (C j Hj N).
Qed.

Lemma CplC_introret_false i s : CplC s -> CplCg (PNot i) (log (EvIntroRet i false) s).
Proof.
  intros [m [A [B C]]]. exists (mkCm (zremove_all i (c_owed m)) None). sproj. unfold cmon_run in *. cbn [mon_run]. rewrite A.
  split; [unfold cmon_step; rewrite B; reflexivity|]. split; [reflexivity|]. cbn [c_owed].
  intros j Hj. apply In_zremove_all in Hj. destruct Hj as [N Hj]. split; [exact N | apply (C j Hj)].
Qed.

(* a read or a write (from the application) *)
Lemma CplC_io e i r s :
  (e = EvRecv i r \/ exists n, e = EvSend i n r false) ->
  CplC s -> (if failed_io r then CplCg (PEx i) (log e s) else CplC (log e s)).
Proof.
  intros He [m [A [B C]]].
  assert (cmon_run (trace (log e s)) = Some (if failed_io r then mkCm (i :: c_owed m) None else m)) as A'.
  { sproj. unfold cmon_run in *. cbn [mon_run]. rewrite A. unfold cmon_step. rewrite B. destruct He as [->|[n ->]]; reflexivity. }
  destruct (failed_io r).
  - eexists. split; [exact A'|]. split; [reflexivity|]. cbn [c_owed]. sproj. unfold PEx. intros j [Hj|Hj] N; [congruence | apply C; exact Hj].
  - exists m. split; [exact A'|]. sproj. auto.
Qed.

(* the points where nothing may be owed *)
Definition ccheck (e : ev) : bool :=
  match e with
  | EvWait _ | EvRunRet | EvAccept _ _ | EvSoErr _ _ | EvCb _ KRead _ => true
  | _ => false
  end.

Lemma CplC_check e s : ccheck e = true -> closing s = [] -> CplC s -> CplC (log e s).
Proof.
  intros Hc Ecl [m [A [B C]]].
  assert (c_owed m = []) as Eo.
  { destruct (c_owed m) as [|j l] eqn:E; [reflexivity|]. exfalso. specialize (C j (or_introl eq_refl)). unfold PIn in C. rewrite Ecl in C. destruct C as [[] _]. }
  exists m. sproj. unfold cmon_run in *. cbn [mon_run]. rewrite A. split; [|auto].
  unfold cmon_step. rewrite B, Eo.
  destruct e; cbn in Hc; try discriminate; cbn; try reflexivity.
  destruct e; destruct k; try discriminate; reflexivity.
Qed.

(* a send from the loop *)
Definition CplCmust (i : Z) (s : state) : Prop :=
  exists m, cmon_run (trace s) = Some m /\ c_must m = Some i /\ c_owed m = [].

Lemma CplC_send_disp i n r s :
  closing s = [] -> CplC s ->
  (if failed_io r then CplCmust i (log (EvSend i n r true) s) else CplC (log (EvSend i n r true) s)).
Proof.
  intros Ecl [m [A [B C]]].
  assert (c_owed m = []) as Eo.
  { destruct (c_owed m) as [|j l] eqn:E; [reflexivity|]. exfalso. specialize (C j (or_introl eq_refl)). unfold PIn in C. rewrite Ecl in C. destruct C as [[] _]. }
  assert (cmon_run (trace (log (EvSend i n r true) s)) = Some (if failed_io r then mkCm (c_owed m) (Some i) else m)) as A'.
  { sproj. unfold cmon_run in *. cbn [mon_run]. rewrite A. unfold cmon_step. rewrite B, Eo. reflexivity. }
  destruct (failed_io r).
  - eexists. split; [exact A'|]. cbn. auto.
  - exists m. split; [exact A'|]. sproj. auto.
Qed.

Lemma CplCmust_frame i s s' : trace s' = trace s -> CplCmust i s -> CplCmust i s'.
Proof. intros E [m H]. exists m. rewrite E. exact H. Qed.

Lemma CplCmust_poll_remove i e s : CplCmust i s -> CplCmust i (poll_remove e s).
Proof.
  intros H. unfold poll_remove. destruct (alookup ent_eqb e (socks s)); [|exact H].
  destruct H as [m [A [B C]]]. exists m. sproj. unfold cmon_run in *. cbn [mon_run]. rewrite A.
  unfold cmon_step. rewrite B. auto.
Qed.

Lemma CplCmust_closed i c s : CplCmust i s -> CplC (log (EvCb (Cl i) KClosed c) s).
Proof.
  intros [m [A [B C]]]. exists (mkCm (zremove_all i (c_owed m)) None). sproj. unfold cmon_run in *. cbn [mon_run]. rewrite A.
  unfold cmon_step. rewrite B, Z.eqb_refl. split; [reflexivity|]. split; [reflexivity|]. rewrite C. cbn. intros j [].
Qed.

(* ---------- actions --------------------------------------------------------------------------------------------------- *)
Lemma CplC_exec_action a s : CplC s -> CplC (exec_action a s).
Proof.
  intros H. destruct a; cbn [exec_action];
    [cauto_cpl | cauto_cpl | | | cauto_cpl | cauto_cpl | cauto_cpl | cauto_cpl | | | | | cauto_cpl | cauto_cpl].
  - (* APair *) destruct (fresh (Cl i) s); auto with cplC.
  - (* ARmClient *) destruct (live_client i s) as [c|]; [|auto with cplC].
    destruct (c_cb c).
    + apply (CplC_settle _ i); [left; reflexivity|]. apply CplC_delete_client_ex; exact H.
    + (* the removal is deferred: the client counts as removed from now on, nothing is owed for it any more *)
      apply (CplC_settle _ i); [right; left; reflexivity|].
      apply (CplC_change PIn (PEx i) s); [reflexivity | | exact H]. unfold PIn, PEx, upd_client. sproj. intros j Hj N.
      rewrite zb_aset_neq by exact N. exact Hj.
  - (* AWrite *) destruct (live_client i s) as [c|] eqn:E0; [apply live_client_some in E0; destruct E0 as [E Er]|auto with cplC].
    assert (zb i (clients s) = false) as Hz by (unfold zb; rewrite E; exact Er).
    rewrite Er. destruct (n <? 0); [auto with cplC|]. destruct (c_back c =? 0); [|cauto_cpl].
    cbn zeta. set (r := send_result n (next_send n s)).
    pose proof (CplC_io (EvSend i n r false) i r (drop_send s) (or_intror (ex_intro _ n eq_refl)) (CplC_drop_send _ s H)) as K.
    destruct (failed_io r).
    + apply CplC_log; [reflexivity|]. apply CplC_closing_append_fix; [exact Hz | exact K].
    + cauto_cpl.
  - (* ARead *) destruct (live_client i s) as [c|] eqn:E0; [apply live_client_some in E0; destruct E0 as [E Er]|auto with cplC].
    assert (zb i (clients s) = false) as Hz by (unfold zb; rewrite E; exact Er).
    cbn zeta. set (r := recv_result (next_recv s)).
    pose proof (CplC_io (EvRecv i r) i r (drop_recv s) (or_introl eq_refl) (CplC_drop_recv _ s H)) as K.
    destruct (failed_io r).
    + apply CplC_log; [reflexivity|]. apply CplC_closing_append_fix; [exact Hz | exact K].
    + auto with cplC.
  - (* ASuspend *) destruct (live_client i s) as [c|] eqn:E0; [apply live_client_some in E0; destruct E0 as [E Er]|auto with cplC].
    rewrite Er. cauto_cpl.
  - (* AResume *) destruct (live_client i s) as [c|] eqn:E0; [apply live_client_some in E0; destruct E0 as [E Er]|auto with cplC].
    rewrite Er. cauto_cpl.
Qed.

Lemma CplC_exec_actions l s : CplC s -> CplC (exec_actions l s).
Proof.
  unfold exec_actions. revert s. induction l as [|a l IH]; cbn [fold_left]; intros s H; [exact H|].
  apply IH. apply CplC_exec_action; exact H.
Qed.

Lemma CplC_run_script e k s : CplC s -> CplC (run_script e k s).
Proof.
  intros H. unfold run_script. destruct (pop_script e k (scripts s)) as [[x|] rest].
  - apply CplC_exec_actions. auto with cplC.
  - auto with cplC.
Qed.

(* callbacks other than onRead and a client's onClosed *)
Lemma CplC_callback_plain e k s :
  cirr (EvCb e k 0) = true -> CplC s -> CplC (callback e k s).
Proof.
  intros I H. unfold callback. apply CplC_run_script. apply CplC_log; [|exact H].
  destruct e; destruct k; cbn in *; congruence.
Qed.

Lemma CplC_callback_read e s : closing s = [] -> CplC s -> CplC (callback e KRead s).
Proof. intros E H. unfold callback. apply CplC_run_script. apply CplC_check; [reflexivity | exact E | exact H]. Qed.

Lemma CplC_callback_closed i s : CplCg (PEx i) s -> CplC (callback (Cl i) KClosed s).
Proof.
  intros H. unfold callback. apply CplC_run_script. apply (CplC_settle _ i); [right; right; eexists; reflexivity | exact H].
Qed.

Lemma CplC_timer_phase fuel now s : CplC s -> CplC (timer_phase fuel now s).
Proof.
  revert s. induction fuel as [|f IH]; intros s H; cbn [timer_phase]; [auto with cplC|].
  destruct (queue s) as [|[k v] q']; [exact H|]. destruct (k - now <=? 0); [|exact H].
  destruct v as [t|]; [destruct (alookup Z.eqb t (timers s)) as [[et iv]|]|]; apply IH; sproj; auto 10 with cplC.
  apply CplC_run_script. auto 10 with cplC.
Qed.

Lemma CplC_closing_phase fuel s : SInv s -> CplC s -> CplC (closing_phase fuel s).
Proof.
  revert s. induction fuel as [|f IH]; intros s HI H; cbn [closing_phase]; [auto with cplC|].
  destruct (closing s) as [|i r] eqn:E; [exact H|].
  assert (SInv (set_closing r s)) as HI1 by (eapply SInv_closing_pop; eauto).
  assert (CplCg (PEx i) (set_closing r s)) as H1.
  { eapply CplC_set_closing; [|exact H]. rewrite E. unfold PIn, PEx. intros j z [[Hj|Hj] Hz] N; [congruence | auto]. }
  sproj. destruct (alookup Z.eqb i (clients s)) as [c|] eqn:El; [destruct (c_cb c); [|destruct (c_rm c) eqn:Erm]|].
  - apply IH; [apply SInv_callback; exact HI1 | apply CplC_callback_closed; exact H1].
  - (* (dead code) a client whose removal was deferred: nothing is owed for it *)
    apply IH; [apply SInv_delete_client; exact HI1|]. apply CplC_delete_client_not.
    apply (CplC_change PIn (PNot i) s); [reflexivity | | exact H]. rewrite E. unfold PIn, PNot. sproj. intros j [Hj Hz].
    assert (j <> i) as N by (intros ->; unfold zb in Hz; rewrite El in Hz; congruence).
    destruct Hj as [Hj|Hj]; [congruence | auto].
  - apply IH; [apply SInv_log; apply SInv_delete_client; exact HI1|].
    apply (CplC_settle _ i); [left; reflexivity|]. apply CplC_delete_client_ex'; exact H1.
  - exfalso. apply (alookup_None Z.eqb zeq) in El. apply El. apply (si_closing _ HI). rewrite E. left; reflexivity.
Qed.

Lemma closing_phase_empties fuel s : stuck (closing_phase fuel s) = false -> closing (closing_phase fuel s) = [].
Proof.
  revert s. induction fuel as [|f IH]; intros s; cbn [closing_phase]; [sproj; discriminate|].
  destruct (closing s) as [|i r] eqn:E; [intros _; exact E|].
  sproj. destruct (alookup Z.eqb i (clients s)) as [c|]; [destruct (c_cb c); [|destruct (c_rm c)]|]; apply IH.
Qed.

Lemma CplC_introduce e k i acc s : CplC s -> CplC (introduce e k i acc s).
Proof.
  intros H. unfold introduce. cbn zeta.
  set (s1 := new_client i (log (EvCreated (Cl i) 0 0) s)).
  assert (CplC s1) as H1 by (subst s1; auto with cplC).
  set (s2 := run_script e (SIn k) (log (EvIntro e k i (clk s1)) s1)).
  assert (CplC s2) as H2 by (apply CplC_run_script; auto with cplC).
  destruct acc.
  - assert (CplC (log (EvIntroRet i true) s2)) as H3 by auto with cplC.
    destruct (alookup Z.eqb i (clients (log (EvIntroRet i true) s2))) as [c|] eqn:E; [destruct (c_rm c) eqn:Erm|]; auto with cplC.
    (* removed meanwhile: the deferred removal settled what was owed for it *)
    apply CplC_delete_client_not. eapply CplC_weaken; [|exact H3]. unfold PIn, PNot. intros j [Hj Hz].
    split; [|auto]. intros ->. unfold zb in Hz. rewrite E in Hz. congruence.
  - apply CplC_delete_client_not. apply CplC_introret_false. exact H2.
Qed.

Lemma CplC_dispatch_write i ar s : closing s = [] -> CplC s -> CplC (dispatch_write i ar s).
Proof.
  intros E H. unfold dispatch_write. destruct (alookup Z.eqb i (clients s)) as [c|] eqn:El; [|exact H].
  destruct (0 <? c_back c).
  - cbn zeta. set (r := send_result (c_back c) (next_send (c_back c) s)).
    pose proof (CplC_send_disp i (c_back c) r (drop_send s) E (CplC_drop_send _ s H)) as K.
    destruct (failed_io r).
    + unfold callback. apply CplC_run_script. apply CplCmust_closed. apply CplCmust_poll_remove.
      eapply CplCmust_frame; [|exact K]. reflexivity.
    + assert (forall b, CplC (upd_client i (mkCl (c_cb c) b (c_susp c) (c_rm c)) (log (EvSend i (c_back c) r true) (drop_send s)))) as HU.
      { intros b. apply (CplC_upd_client_copy PIn i c); [apply antiz_PIn | exact El | reflexivity | exact K]. }
      destruct (c_back c - Z.max 0 r =? 0).
      * apply CplC_callback_plain; [reflexivity|]. apply CplC_poll_set. apply HU.
      * destruct ar; [|apply HU]. apply CplC_callback_read; [exact E | apply HU].
  - cbn zeta. apply CplC_callback_plain; [reflexivity|]. auto with cplC.
Qed.

Lemma poll_remove_closing e s : closing (poll_remove e s) = closing s.
Proof. pose proof (poll_remove_frame e s) as F. cbn zeta in F. tauto. Qed.

Lemma CplC_dispatch e f s : closing s = [] -> CplC s -> CplC (dispatch e f s).
Proof.
  intros E H. destruct e as [i|i|i|i]; cbn [dispatch]; [exact H | | |].
  - destruct (fW f); [apply CplC_dispatch_write; assumption|]. destruct (fR f); [apply CplC_callback_read; assumption | exact H].
  - destruct (fA f); [|exact H]. cbn zeta.
    destruct (if next_accept s then peek_new (Li i) KAccepted (drop_accept s) else None) as [[n acc]|].
    + apply CplC_introduce. apply CplC_check; [reflexivity | exact E | auto with cplC].
    + apply CplC_check; [reflexivity | exact E | auto with cplC].
  - destruct (fC f); [|exact H]. cbn zeta.
    assert (closing (drop_conn (poll_remove (Es i) s)) = []) as E1 by (unfold drop_conn; sproj; rewrite poll_remove_closing; exact E).
    assert (CplC (drop_conn (poll_remove (Es i) s))) as H1 by auto with cplC.
    destruct (if next_conn (poll_remove (Es i) s) =? 0 then peek_new (Es i) KConnected (drop_conn (poll_remove (Es i) s)) else None) as [[n acc]|].
    + apply CplC_introduce. apply CplC_check; [reflexivity | exact E1 | exact H1].
    + apply CplC_callback_plain; [reflexivity|]. apply CplC_check; [reflexivity | exact E1 | exact H1].
Qed.

(* ---------- poll ------------------------------------------------------------------------------------------------------ *)
Lemma absorb_frame_c ready s : trace (absorb ready s) = trace s /\ closing (absorb ready s) = closing s.
Proof.
  revert s. induction ready as [|[e b] r IH]; intros s; cbn [absorb]; [auto|].
  destruct (alookup ent_eqb e (socks s)); [|apply IH].
  destruct (IH (set_selected (aset ent_eqb e (unmap_events b f) (selected s)) s)) as (A & B). rewrite A, B. auto.
Qed.

Lemma CplC_epoll_wait t items s :
  closing s = [] -> CplC s -> CplC (fst (epoll_wait t items s)) /\ closing (fst (epoll_wait t items s)) = [].
Proof.
  intros E H. unfold epoll_wait. cbn zeta.
  assert (CplC (log (EvWait t) s)) as H1 by (apply CplC_check; [reflexivity | exact E | exact H]).
  destruct items as [|it rest]; cbn [fst].
  - split; [auto with cplC|]. unfold do_interrupt. sproj. destruct (intr s); sproj; exact E.
  - destruct (absorb_frame_c (ep_ready it) (set_clk (clk (log (EvWait t) s) + ep_dt it) (log (EvItem false) (log (EvWait t) s)))) as (Ft & Fc).
    split; [|rewrite Fc; sproj; exact E].
    assert (clients (absorb (ep_ready it) (set_clk (clk (log (EvWait t) s) + ep_dt it) (log (EvItem false) (log (EvWait t) s)))) = clients s) as Fk
      by (rewrite absorb_clients; reflexivity).
    eapply CplC_frame; [exact Ft | exact Fc | exact Fk |]. auto with cplC.
Qed.

Lemma CplC_poll t items s :
  closing s = [] -> CplC s -> CplC (fst (fst (poll t items s))) /\ closing (fst (fst (poll t items s))) = [].
Proof.
  intros E H. unfold poll. destruct (selected s) eqn:Es.
  - pose proof (CplC_epoll_wait t items s E H) as [H1 E1]. destruct (epoll_wait t items s) as [s1 items1]. cbn [fst] in *.
    destruct (0 <? evcount s1); cbn [fst]; [split; [auto with cplC | exact E1]|].
    unfold pop_selected. destruct (selected s1); cbn [fst]; split; auto with cplC.
  - unfold pop_selected. rewrite Es. cbn [fst]. split; auto with cplC.
Qed.

Lemma CplC_run_loop fuel items s : SInv s -> CplC s -> CplC (run_loop fuel items s).
Proof.
  revert items s. induction fuel as [|f IH]; intros items s HI H; cbn [run_loop]; [auto with cplC|].
  cbn zeta.
  set (s0 := timer_phase f (clk s) (log (EvSel (sel_view (selected s))) (log (EvNow (clk s)) s))).
  assert (SInv s0) as HI0 by (apply SInv_timer_phase; apply SInv_log; apply SInv_log; exact HI).
  assert (CplC s0) as H0 by (apply CplC_timer_phase; auto with cplC).
  set (s1 := closing_phase f s0).
  assert (SInv s1) as HI1 by (apply SInv_closing_phase; exact HI0).
  assert (CplC s1) as H1 by (apply CplC_closing_phase; assumption).
  destruct (stuck s1) eqn:Est; [exact H1|].
  assert (closing s1 = []) as E1 by (apply closing_phase_empties; exact Est).
  match goal with |- context [poll ?t items s1] => set (tmo := t) end.
  pose proof (SInv_poll tmo items s1 HI1) as HI2. pose proof (CplC_poll tmo items s1 E1 H1) as [H2 E2].
  destruct (poll tmo items s1) as [[s2 evt] items2]. cbn [fst] in HI2, H2, E2.
  assert (CplC (log EvRunRet (set_intr false s2))) as HR by (apply CplC_check; [reflexivity | exact E2 | auto with cplC]).
  destruct evt as [[e fl]|].
  - destruct (fl_is_none fl).
    + destruct (intr s2); [exact HR | apply IH; assumption].
    + apply IH; [apply SInv_dispatch; exact HI2 | apply CplC_dispatch; assumption].
  - destruct (intr s2); [exact HR | apply IH; assumption].
Qed.

Lemma CplC_init : CplC init.
Proof. exists cmon0. cbn. repeat split; auto; intros j []. Qed.

Lemma CplC_step fuel s o : SInv s -> CplC s -> CplC (step fuel s o).
Proof.
  intros HI H. unfold step. destruct (stuck s); [exact H|].
  destruct o; try (auto with cplC; fail).
  - apply CplC_exec_action; exact H.
  - unfold run. apply CplC_run_loop; [apply SInv_log; exact HI | auto with cplC].
Qed.

Lemma CplC_steps fuel l s : SInv s -> CplC s -> CplC (steps fuel s l).
Proof.
  unfold steps. revert s. induction l as [|o l IH]; cbn [fold_left]; intros s HI H; [exact H|].
  apply IH; [apply SInv_step; exact HI | apply CplC_step; assumption].
Qed.

Theorem cmon_accepts_model fuel l : cmon_run (trace (steps fuel init l)) <> None.
Proof. destruct (CplC_steps fuel l init SInv_init CplC_init) as [m [A _]]. congruence. Qed.
